// Package vsync stands in for package sync in repository files whose code sleeps or
// blocks WHILE HOLDING a mutex that another goroutine then wants (import path swap
// only; e.g. pkg/store/aof_reader.go: AofRotateReader.read sleeps 10 ms between polls
// under r.mux, and Close needs r.mux). Inside a testing/synctest bubble a goroutine
// waiting in sync.Mutex.Lock is not "durably blocked", so the virtual clock could
// never advance to wake the sleeper. The locks here have the same mutual-exclusion
// semantics but wait on a sync.Cond, which the bubble treats as durably blocked.
// Zero values are ready to use, as in package sync. Everything else a rewritten file
// needs from package sync is re-exported unchanged.
package vsync

import "sync"

type (
	WaitGroup = sync.WaitGroup
	Once      = sync.Once
	Cond      = sync.Cond
	Map       = sync.Map
	Pool      = sync.Pool
	Locker    = sync.Locker
)

func NewCond(l Locker) *Cond { return sync.NewCond(l) }

// RWMutex is a reader/writer mutual exclusion lock.
type RWMutex struct {
	mu      sync.Mutex // guards the fields; only ever held for a few instructions
	c       *sync.Cond
	writer  bool
	readers int
}

func (m *RWMutex) cond() *sync.Cond {
	if m.c == nil {
		m.c = sync.NewCond(&m.mu)
	}
	return m.c
}

func (m *RWMutex) Lock() {
	m.mu.Lock()
	c := m.cond()
	for m.writer || m.readers > 0 {
		c.Wait()
	}
	m.writer = true
	m.mu.Unlock()
}

func (m *RWMutex) TryLock() bool {
	m.mu.Lock()
	defer m.mu.Unlock()
	if m.writer || m.readers > 0 {
		return false
	}
	m.writer = true
	return true
}

func (m *RWMutex) Unlock() {
	m.mu.Lock()
	if !m.writer {
		m.mu.Unlock()
		panic("vsync: Unlock of unlocked RWMutex")
	}
	m.writer = false
	m.cond().Broadcast()
	m.mu.Unlock()
}

func (m *RWMutex) RLock() {
	m.mu.Lock()
	c := m.cond()
	for m.writer {
		c.Wait()
	}
	m.readers++
	m.mu.Unlock()
}

func (m *RWMutex) RUnlock() {
	m.mu.Lock()
	if m.readers <= 0 {
		m.mu.Unlock()
		panic("vsync: RUnlock of unlocked RWMutex")
	}
	m.readers--
	if m.readers == 0 {
		m.cond().Broadcast()
	}
	m.mu.Unlock()
}

// RLocker returns a Locker whose Lock/Unlock are RLock/RUnlock.
func (m *RWMutex) RLocker() Locker { return (*rlocker)(m) }

type rlocker RWMutex

func (r *rlocker) Lock()   { (*RWMutex)(r).RLock() }
func (r *rlocker) Unlock() { (*RWMutex)(r).RUnlock() }

// Mutex is a mutual exclusion lock.
type Mutex struct{ rw RWMutex }

func (m *Mutex) Lock()         { m.rw.Lock() }
func (m *Mutex) Unlock()       { m.rw.Unlock() }
func (m *Mutex) TryLock() bool { return m.rw.TryLock() }

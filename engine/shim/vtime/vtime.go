// Package vtime stands in for package time in a few rewritten repository files
// (import path swap only). Everything is an alias of the real package except
// NewTicker: a ticker whose period a harness registered gets a harness-owned
// channel, so the harness decides exactly when it fires. Sleep-like calls can be
// scaled for the one harness (C16) that runs on the wall clock.
package vtime

import (
	"sync"
	"time"
)

type (
	Duration = time.Duration
	Time     = time.Time
	Ticker   = time.Ticker
	Timer    = time.Timer
	Month    = time.Month
	Location = time.Location
	Weekday  = time.Weekday
)

const (
	Nanosecond  = time.Nanosecond
	Microsecond = time.Microsecond
	Millisecond = time.Millisecond
	Second      = time.Second
	Minute      = time.Minute
	Hour        = time.Hour

	RFC3339     = time.RFC3339
	RFC3339Nano = time.RFC3339Nano
	DateTime    = "2006-01-02 15:04:05"
)

var (
	UTC   = time.UTC
	Local = time.Local
)

// Scale divides every Sleep/After/NewTimer/unregistered-ticker duration (>=1).
var Scale int64 = 1

func sc(d Duration) Duration {
	if Scale > 1 {
		d = d / Duration(Scale)
		if d <= 0 {
			d = 1
		}
	}
	return d
}

func Now() Time                         { return time.Now() }
func Since(t Time) Duration             { return time.Since(t) }
func Until(t Time) Duration             { return time.Until(t) }
func Sleep(d Duration)                  { time.Sleep(sc(d)) }
func After(d Duration) <-chan Time      { return time.After(sc(d)) }
func NewTimer(d Duration) *Timer        { return time.NewTimer(sc(d)) }
func AfterFunc(d Duration, f func()) *Timer { return time.AfterFunc(sc(d), f) }
func Unix(s, ns int64) Time             { return time.Unix(s, ns) }
func UnixMilli(ms int64) Time           { return time.UnixMilli(ms) }
func ParseDuration(s string) (Duration, error) { return time.ParseDuration(s) }
func Parse(l, v string) (Time, error)   { return time.Parse(l, v) }
func Date(y int, m Month, d, h, mi, s, ns int, loc *Location) Time {
	return time.Date(y, m, d, h, mi, s, ns, loc)
}

var (
	mu     sync.Mutex
	byDur  = map[Duration]string{}
	chans  = map[string][]chan Time{}
	made   = map[string]int{}
)

// Reset forgets all registrations and channels (call at the start of an execution).
func Reset() {
	mu.Lock()
	byDur = map[Duration]string{}
	chans = map[string][]chan Time{}
	made = map[string]int{}
	mu.Unlock()
}

// Register names the ticker period d; NewTicker(d) then returns a harness-owned
// ticker that only fires through Fire(name).
func Register(d Duration, name string) {
	mu.Lock()
	byDur[d] = name
	mu.Unlock()
}

// NewTicker is time.NewTicker except for registered periods.
func NewTicker(d Duration) *Ticker {
	mu.Lock()
	name, ok := byDur[d]
	if !ok {
		mu.Unlock()
		return time.NewTicker(sc(d))
	}
	ch := make(chan Time, 1)
	chans[name] = append(chans[name], ch)
	made[name]++
	mu.Unlock()
	return &time.Ticker{C: ch}
}

// Made reports how many tickers were created for a name since Reset.
func Made(name string) int {
	mu.Lock()
	defer mu.Unlock()
	return made[name]
}

// Fire delivers one tick to the most recently created ticker of that name. It
// reports false when there is no such ticker or its channel already holds an
// unconsumed tick (a real ticker would drop the tick too).
func Fire(name string) bool {
	mu.Lock()
	l := chans[name]
	mu.Unlock()
	if len(l) == 0 {
		return false
	}
	select {
	case l[len(l)-1] <- time.Now():
		return true
	default:
		return false
	}
}

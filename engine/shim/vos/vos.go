// Package vos stands in for package os in the files of pkg/store that do file I/O
// (import path swap only). Every call is forwarded to the real package os; in addition
// every MUTATING file-system call made below the logged root is appended to a log
// (create/open-for-write, write with offset and bytes, sync, rename, remove, mkdir,
// close). From any prefix of that log - optionally with the last write cut at any byte -
// the directory image a process death would leave behind can be rebuilt (Build /
// Materialize): a dying process loses nothing the kernel has already accepted, so the
// image is exactly the effect of the completed calls plus a prefix of the call in flight.
// Power loss (reordering / loss of unsynced data) is NOT modelled.
package vos

import (
	"crypto/sha1"
	"encoding/hex"
	"fmt"
	"io/fs"
	"os"
	"path/filepath"
	"sort"
	"strings"
	"sync"
)

type (
	FileInfo = os.FileInfo
	FileMode = os.FileMode
	DirEntry = fs.DirEntry
)

const (
	O_RDONLY = os.O_RDONLY
	O_WRONLY = os.O_WRONLY
	O_RDWR   = os.O_RDWR
	O_APPEND = os.O_APPEND
	O_CREATE = os.O_CREATE
	O_EXCL   = os.O_EXCL
	O_SYNC   = os.O_SYNC
	O_TRUNC  = os.O_TRUNC

	PathSeparator = os.PathSeparator
)

var (
	ErrNotExist = os.ErrNotExist
	ErrExist    = os.ErrExist
	ErrInvalid  = os.ErrInvalid
	ErrClosed   = os.ErrClosed
)

func IsNotExist(err error) bool { return os.IsNotExist(err) }
func IsExist(err error) bool    { return os.IsExist(err) }

// Op is one logged mutating call.
type Op struct {
	Kind  string // mkdir | create | write | sync | close | rename | remove
	Path  string // relative to the logged root
	Path2 string // rename target
	FID   int    // file handle the call went through (create/write/sync/close)
	Off   int64  // write offset
	Data  []byte // bytes written
	Trunc bool   // create: O_TRUNC
}

func (o Op) String() string {
	switch o.Kind {
	case "write":
		return fmt.Sprintf("write(#%d@%d,%dB)", o.FID, o.Off, len(o.Data))
	case "rename":
		return fmt.Sprintf("rename(%s->%s)", o.Path, o.Path2)
	case "create":
		return fmt.Sprintf("create(#%d %s trunc=%v)", o.FID, o.Path, o.Trunc)
	case "sync", "close":
		return fmt.Sprintf("%s(#%d)", o.Kind, o.FID)
	}
	return fmt.Sprintf("%s(%s)", o.Kind, o.Path)
}

var (
	mu      sync.Mutex
	logging bool
	root    string
	ops     []Op
	nextFID int
)

// StartLog clears the log and starts logging calls below rootDir.
func StartLog(rootDir string) {
	mu.Lock()
	logging, root, ops, nextFID = true, filepath.Clean(rootDir), nil, 0
	mu.Unlock()
}

// StopLog stops logging and returns the log.
func StopLog() []Op {
	mu.Lock()
	defer mu.Unlock()
	logging = false
	out := ops
	ops = nil
	return out
}

// Len is the current length of the log (harnesses use it to label phases).
func Len() int {
	mu.Lock()
	defer mu.Unlock()
	return len(ops)
}

func rel(p string) (string, bool) {
	p = filepath.Clean(p)
	if !logging || root == "" {
		return "", false
	}
	if p == root {
		return ".", true
	}
	if strings.HasPrefix(p, root+string(os.PathSeparator)) {
		return p[len(root)+1:], true
	}
	return "", false
}

func record(o Op) {
	ops = append(ops, o)
}

// File wraps *os.File. A nil *File behaves like a nil *os.File (ErrInvalid).
type File struct {
	f   *os.File
	id  int // 0 = not logged
	pos int64
}

func OpenFile(name string, flag int, perm FileMode) (*File, error) {
	f, err := os.OpenFile(name, flag, perm)
	if err != nil {
		return nil, err
	}
	vf := &File{f: f}
	if flag&(os.O_WRONLY|os.O_RDWR|os.O_CREATE|os.O_TRUNC|os.O_APPEND) != 0 {
		mu.Lock()
		if r, ok := rel(name); ok {
			nextFID++
			vf.id = nextFID
			record(Op{Kind: "create", Path: r, FID: vf.id, Trunc: flag&os.O_TRUNC != 0})
		}
		mu.Unlock()
	}
	return vf, nil
}

func Open(name string) (*File, error) { return OpenFile(name, os.O_RDONLY, 0) }

func (f *File) Write(b []byte) (int, error) {
	if f == nil {
		return 0, os.ErrInvalid
	}
	n, err := f.f.Write(b)
	if f.id != 0 && n > 0 {
		mu.Lock()
		if logging {
			record(Op{Kind: "write", FID: f.id, Off: f.pos, Data: append([]byte(nil), b[:n]...)})
		}
		mu.Unlock()
	}
	f.pos += int64(n)
	return n, err
}

func (f *File) Read(b []byte) (int, error) {
	if f == nil {
		return 0, os.ErrInvalid
	}
	n, err := f.f.Read(b)
	f.pos += int64(n)
	return n, err
}

func (f *File) Seek(offset int64, whence int) (int64, error) {
	if f == nil {
		return 0, os.ErrInvalid
	}
	p, err := f.f.Seek(offset, whence)
	if err == nil {
		f.pos = p
	}
	return p, err
}

func (f *File) Sync() error {
	if f == nil {
		return os.ErrInvalid
	}
	err := f.f.Sync()
	if f.id != 0 {
		mu.Lock()
		if logging {
			record(Op{Kind: "sync", FID: f.id})
		}
		mu.Unlock()
	}
	return err
}

func (f *File) Close() error {
	if f == nil {
		return os.ErrInvalid
	}
	err := f.f.Close()
	if f.id != 0 && err == nil {
		mu.Lock()
		if logging {
			record(Op{Kind: "close", FID: f.id})
		}
		mu.Unlock()
	}
	return err
}

func (f *File) ReadDir(n int) ([]DirEntry, error) {
	if f == nil {
		return nil, os.ErrInvalid
	}
	return f.f.ReadDir(n)
}

func (f *File) Name() string {
	if f == nil {
		return ""
	}
	return f.f.Name()
}

func (f *File) Stat() (FileInfo, error) {
	if f == nil {
		return nil, os.ErrInvalid
	}
	return f.f.Stat()
}

func Stat(name string) (FileInfo, error)  { return os.Stat(name) }
func Lstat(name string) (FileInfo, error) { return os.Lstat(name) }

func Mkdir(name string, perm FileMode) error {
	err := os.Mkdir(name, perm)
	if err == nil {
		mu.Lock()
		if r, ok := rel(name); ok {
			record(Op{Kind: "mkdir", Path: r})
		}
		mu.Unlock()
	}
	return err
}

func MkdirAll(name string, perm FileMode) error {
	err := os.MkdirAll(name, perm)
	if err == nil {
		mu.Lock()
		if r, ok := rel(name); ok {
			record(Op{Kind: "mkdir", Path: r})
		}
		mu.Unlock()
	}
	return err
}

func Rename(oldpath, newpath string) error {
	err := os.Rename(oldpath, newpath)
	if err == nil {
		mu.Lock()
		r1, ok1 := rel(oldpath)
		r2, ok2 := rel(newpath)
		if ok1 && ok2 {
			record(Op{Kind: "rename", Path: r1, Path2: r2})
		}
		mu.Unlock()
	}
	return err
}

func Remove(name string) error {
	err := os.Remove(name)
	if err == nil {
		mu.Lock()
		if r, ok := rel(name); ok {
			record(Op{Kind: "remove", Path: r})
		}
		mu.Unlock()
	}
	return err
}

// RemoveAll is logged as one unlink per entry (files before their directory, lexical
// order) so that a death in the middle of a recursive removal is a log prefix too. The
// kernel's real unlink order inside one directory is not specified; only this order is
// enumerated.
func RemoveAll(path string) error {
	var entries []string
	mu.Lock()
	_, ok := rel(path)
	mu.Unlock()
	if ok {
		filepath.Walk(path, func(p string, info os.FileInfo, err error) error {
			if err == nil {
				entries = append(entries, p)
			}
			return nil
		})
	}
	err := os.RemoveAll(path)
	if err == nil && ok {
		// children first: sort by depth descending, then name
		sort.Slice(entries, func(i, j int) bool {
			di, dj := strings.Count(entries[i], string(os.PathSeparator)), strings.Count(entries[j], string(os.PathSeparator))
			if di != dj {
				return di > dj
			}
			return entries[i] < entries[j]
		})
		mu.Lock()
		for _, p := range entries {
			if r, ok := rel(p); ok {
				record(Op{Kind: "remove", Path: r})
			}
		}
		mu.Unlock()
	}
	return err
}

// ---------------------------------------------------------------------------
// crash images

type inode struct{ data []byte }

// Image is the directory tree a log prefix leaves behind.
type Image struct {
	files map[string]*inode
	dirs  map[string]bool
	open  map[int]*inode
}

// Build replays log[:n]. If cut >= 0, log[n] must be a write and its first cut bytes
// are applied as well (the write that was in flight when the process died).
func Build(log []Op, n int, cut int) *Image {
	im := &Image{files: map[string]*inode{}, dirs: map[string]bool{}, open: map[int]*inode{}}
	for i := 0; i < n && i < len(log); i++ {
		im.apply(log[i], -1)
	}
	if cut >= 0 && n < len(log) && log[n].Kind == "write" {
		im.apply(log[n], cut)
	}
	return im
}

func (im *Image) apply(o Op, cut int) {
	switch o.Kind {
	case "mkdir":
		p := o.Path
		for p != "." && p != "" && p != "/" {
			im.dirs[p] = true
			p = filepath.Dir(p)
		}
	case "create":
		nd := im.files[o.Path]
		if nd == nil {
			nd = &inode{}
			im.files[o.Path] = nd
		} else if o.Trunc {
			nd.data = nil
		}
		im.open[o.FID] = nd
	case "write":
		nd := im.open[o.FID]
		if nd == nil {
			return
		}
		d := o.Data
		if cut >= 0 && cut < len(d) {
			d = d[:cut]
		}
		end := o.Off + int64(len(d))
		if int64(len(nd.data)) < end {
			nd.data = append(nd.data, make([]byte, end-int64(len(nd.data)))...)
		}
		copy(nd.data[o.Off:end], d)
	case "rename":
		pre := o.Path + string(os.PathSeparator)
		if nd, ok := im.files[o.Path]; ok {
			delete(im.files, o.Path)
			im.files[o.Path2] = nd
		}
		for p, nd := range im.files {
			if strings.HasPrefix(p, pre) {
				delete(im.files, p)
				im.files[o.Path2+string(os.PathSeparator)+p[len(pre):]] = nd
			}
		}
		for p := range im.dirs {
			if p == o.Path {
				delete(im.dirs, p)
				im.dirs[o.Path2] = true
			} else if strings.HasPrefix(p, pre) {
				delete(im.dirs, p)
				im.dirs[o.Path2+string(os.PathSeparator)+p[len(pre):]] = true
			}
		}
	case "remove":
		delete(im.files, o.Path)
		delete(im.dirs, o.Path)
	}
}

// Files lists the image's files (relative path -> content).
func (im *Image) Files() map[string][]byte {
	out := map[string][]byte{}
	for p, nd := range im.files {
		out[p] = nd.data
	}
	return out
}

// Hash identifies the image (file names, contents, directories).
func (im *Image) Hash() string {
	h := sha1.New()
	var names []string
	for p := range im.files {
		names = append(names, p)
	}
	sort.Strings(names)
	for _, p := range names {
		fmt.Fprintf(h, "f:%s:%d:", p, len(im.files[p].data))
		h.Write(im.files[p].data)
	}
	var ds []string
	for p := range im.dirs {
		ds = append(ds, p)
	}
	sort.Strings(ds)
	for _, p := range ds {
		fmt.Fprintf(h, "d:%s;", p)
	}
	return hex.EncodeToString(h.Sum(nil))
}

// Describe renders names and sizes (for violation details).
func (im *Image) Describe() []string {
	var out []string
	for p, nd := range im.files {
		out = append(out, fmt.Sprintf("%s:%d", p, len(nd.data)))
	}
	sort.Strings(out)
	return out
}

// Materialize writes the image below dst (which is created) with the real package os.
func (im *Image) Materialize(dst string) error {
	if err := os.MkdirAll(dst, 0o777); err != nil {
		return err
	}
	for p := range im.dirs {
		if err := os.MkdirAll(filepath.Join(dst, p), 0o777); err != nil {
			return err
		}
	}
	for p, nd := range im.files {
		full := filepath.Join(dst, p)
		if err := os.MkdirAll(filepath.Dir(full), 0o777); err != nil {
			return err
		}
		if err := os.WriteFile(full, nd.data, 0o666); err != nil {
			return err
		}
	}
	return nil
}

// Alter xors one byte of a file of the image (no-op when out of range).
func (im *Image) Alter(file string, pos int, mask byte) {
	nd := im.files[file]
	if nd == nil || pos < 0 || pos >= len(nd.data) {
		return
	}
	d := append([]byte(nil), nd.data...)
	d[pos] ^= mask
	im.files[file] = &inode{data: d}
}

// Resize truncates (delta < 0) or extends with zero bytes (delta > 0) a file of the image.
func (im *Image) Resize(file string, delta int) {
	nd := im.files[file]
	if nd == nil {
		return
	}
	n := len(nd.data) + delta
	if n < 0 {
		n = 0
	}
	d := make([]byte, n)
	copy(d, nd.data)
	im.files[file] = &inode{data: d}
}

// Drop removes a file of the image; Move renames one (directory-level fault families).
func (im *Image) Drop(file string) { delete(im.files, file) }

func (im *Image) Move(from, to string) {
	if nd, ok := im.files[from]; ok {
		delete(im.files, from)
		im.files[to] = nd
	}
}

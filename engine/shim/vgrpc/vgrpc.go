// Package vgrpc stands in for package google.golang.org/grpc in syncer/replica.go
// (import path swap only; used by check C16). It re-exports the few identifiers that
// file uses and replaces the transport: DialContext returns an in-memory *ClientConn
// whose NewStream runs the service handler registered for the dialled address
// (grpc.StreamDesc.Handler, i.e. the generated _ApiService_Sync_Handler) on a goroutine
// with an in-memory grpc.ServerStream. The generated client and server stubs of
// pkg/api/golang therefore stay in the loop; only HTTP/2 is replaced. Messages are
// marshalled with proto.Marshal on the sending side and unmarshalled on the receiving
// side, as the gRPC codec does (the receiver never aliases the sender's buffers).
//
// The harness owns delivery: every server-side SendMsg parks as a *Send until the
// harness calls Deliver (the message reaches the client's receive queue, SendMsg
// returns nil) or Break (the stream dies like a broken transport: this and all later
// SendMsg fail with codes.Unavailable, the server context is cancelled, the client
// receives the messages delivered before and then the Unavailable status). All
// blocking is on channels, so a testing/synctest bubble sees parked goroutines as
// durably blocked. No sockets, no wall clock.
package vgrpc

import (
	"context"
	"fmt"
	"io"
	"sort"
	"sync"

	"google.golang.org/grpc"
	"google.golang.org/grpc/codes"
	"google.golang.org/grpc/credentials"
	"google.golang.org/grpc/metadata"
	"google.golang.org/grpc/status"
	"google.golang.org/protobuf/proto"
)

// ---------------------------------------------------------------------------
// re-exports used by syncer/replica.go

type (
	DialOption = grpc.DialOption
	CallOption = grpc.CallOption
)

func WithChainUnaryInterceptor(i ...grpc.UnaryClientInterceptor) grpc.DialOption {
	return grpc.WithChainUnaryInterceptor(i...)
}
func WithTransportCredentials(c credentials.TransportCredentials) grpc.DialOption {
	return grpc.WithTransportCredentials(c)
}
func WithBlock() grpc.DialOption           { return grpc.WithBlock() }
func WaitForReady(b bool) grpc.CallOption { return grpc.WaitForReady(b) }

// ---------------------------------------------------------------------------
// the in-memory network

// Net is one closed world of servers and streams; Reset creates a fresh one (call it
// inside the bubble at the start of every execution).
type Net struct {
	mu      sync.Mutex
	servers map[string]interface{}
	streams []*Stream
	conns   []*ClientConn
	pending []*Send
	nextID  int
	dials   int
}

var (
	curMu sync.Mutex
	cur   *Net
)

// Reset installs and returns a fresh network.
func Reset() *Net {
	n := &Net{servers: map[string]interface{}{}}
	curMu.Lock()
	cur = n
	curMu.Unlock()
	return n
}

func current() *Net {
	curMu.Lock()
	defer curMu.Unlock()
	return cur
}

// Serve registers the service implementation reachable at addr (the value the generated
// handler casts to its server interface).
func (n *Net) Serve(addr string, impl interface{}) {
	n.mu.Lock()
	n.servers[addr] = impl
	n.mu.Unlock()
}

// Dials is the number of successful DialContext calls.
func (n *Net) Dials() int {
	n.mu.Lock()
	defer n.mu.Unlock()
	return n.dials
}

// Streams returns all streams opened so far, in order.
func (n *Net) Streams() []*Stream {
	n.mu.Lock()
	defer n.mu.Unlock()
	return append([]*Stream(nil), n.streams...)
}

// Next returns the parked server Send the harness should decide next (lowest stream id,
// then send order) or nil.
func (n *Net) Next() *Send {
	n.mu.Lock()
	defer n.mu.Unlock()
	if len(n.pending) == 0 {
		return nil
	}
	sort.SliceStable(n.pending, func(i, j int) bool {
		if n.pending[i].Stream.ID != n.pending[j].Stream.ID {
			return n.pending[i].Stream.ID < n.pending[j].Stream.ID
		}
		return n.pending[i].Seq < n.pending[j].Seq
	})
	return n.pending[0]
}

// ClientWaiting reports whether some client is blocked in RecvMsg on a live stream with
// an empty queue (the follower is tailing).
func (n *Net) ClientWaiting() *Stream {
	n.mu.Lock()
	defer n.mu.Unlock()
	for _, s := range n.streams {
		if s.recvWaiting && len(s.queue) == 0 && s.term == nil {
			return s
		}
	}
	return nil
}

// Shutdown cancels every stream (end of an execution).
func (n *Net) Shutdown() {
	n.mu.Lock()
	ss := append([]*Stream(nil), n.streams...)
	n.mu.Unlock()
	for _, s := range ss {
		s.kill(status.Error(codes.Unavailable, "vgrpc: network shut down"))
	}
}

func (n *Net) removePending(p *Send) {
	for i, q := range n.pending {
		if q == p {
			n.pending = append(n.pending[:i], n.pending[i+1:]...)
			return
		}
	}
}

// Stream is one RPC.
type Stream struct {
	net     *Net
	conn    *ClientConn
	ID      int
	Method  string
	Req     []byte // marshalled request
	desc    *grpc.StreamDesc
	impl    interface{}
	cctx    context.Context
	sctx    context.Context
	scancel context.CancelFunc

	// guarded by net.mu
	queue       [][]byte
	term        error // terminal status for the client (io.EOF = clean end)
	broken      error // server-side sends fail with this
	reqTaken    bool
	recvWaiting bool
	notify      chan struct{}
	sent        int // server SendMsg calls that reached the wire
	Delivered   int // messages put into the client's queue
	HandlerErr  error
	HandlerDone bool
}

func (s *Stream) wake() { // net.mu held
	close(s.notify)
	s.notify = make(chan struct{})
}

// kill ends the stream from outside (connection closed / network shut down).
func (s *Stream) kill(err error) {
	s.net.mu.Lock()
	if s.term == nil {
		s.term = err
	}
	if s.broken == nil {
		s.broken = err
	}
	s.wake()
	s.net.mu.Unlock()
	s.scancel()
}

// State is a snapshot for traces.
func (s *Stream) State() (queued int, term error, handlerDone bool, handlerErr error) {
	s.net.mu.Lock()
	defer s.net.mu.Unlock()
	return len(s.queue), s.term, s.HandlerDone, s.HandlerErr
}

// Send is one parked server-side SendMsg.
type Send struct {
	Stream *Stream
	Seq    int // 1-based per stream
	Bytes  []byte
	done   chan error
}

// Deliver hands the message to the client and lets SendMsg return nil.
func (p *Send) Deliver() {
	n := p.Stream.net
	n.mu.Lock()
	n.removePending(p)
	p.Stream.queue = append(p.Stream.queue, p.Bytes)
	p.Stream.Delivered++
	p.Stream.wake()
	n.mu.Unlock()
	p.done <- nil
}

// Break loses this message and breaks the stream (see the package comment).
func (p *Send) Break() {
	err := status.Error(codes.Unavailable, "transport is closing")
	s := p.Stream
	n := s.net
	n.mu.Lock()
	n.removePending(p)
	s.broken = err
	if s.term == nil {
		s.term = err
	}
	s.wake()
	n.mu.Unlock()
	p.done <- err // before the cancel: SendMsg then returns this error on either select branch
	s.scancel()
}

// ---------------------------------------------------------------------------
// client side

// ClientConn is the in-memory stand-in for *grpc.ClientConn.
type ClientConn struct {
	net    *Net
	target string
	impl   interface{}
	mu     sync.Mutex
	closed bool
	done   chan struct{}
}

var _ grpc.ClientConnInterface = (*ClientConn)(nil)

// DialContext connects to a served address; an address nobody serves behaves like
// grpc.WithBlock against a dead peer: it waits for the context and returns its error.
func DialContext(ctx context.Context, target string, opts ...grpc.DialOption) (*ClientConn, error) {
	n := current()
	if n == nil {
		return nil, fmt.Errorf("vgrpc: no network (harness did not call Reset)")
	}
	n.mu.Lock()
	impl, ok := n.servers[target]
	n.mu.Unlock()
	if !ok {
		<-ctx.Done()
		return nil, ctx.Err()
	}
	cc := &ClientConn{net: n, target: target, impl: impl, done: make(chan struct{})}
	n.mu.Lock()
	n.conns = append(n.conns, cc)
	n.dials++
	n.mu.Unlock()
	return cc, nil
}

// Close terminates every stream of the connection.
func (cc *ClientConn) Close() error {
	cc.mu.Lock()
	if cc.closed {
		cc.mu.Unlock()
		return status.Error(codes.Canceled, "grpc: the client connection is closing")
	}
	cc.closed = true
	close(cc.done)
	cc.mu.Unlock()
	for _, s := range cc.net.Streams() {
		if s.conn == cc {
			s.kill(status.Error(codes.Canceled, "grpc: the client connection is closing"))
		}
	}
	return nil
}

func (cc *ClientConn) Invoke(ctx context.Context, method string, args interface{}, reply interface{}, opts ...grpc.CallOption) error {
	return status.Error(codes.Unimplemented, "vgrpc: unary calls are not modelled")
}

func (cc *ClientConn) NewStream(ctx context.Context, desc *grpc.StreamDesc, method string, opts ...grpc.CallOption) (grpc.ClientStream, error) {
	cc.mu.Lock()
	closed := cc.closed
	cc.mu.Unlock()
	if closed {
		return nil, status.Error(codes.Canceled, "grpc: the client connection is closing")
	}
	if err := ctx.Err(); err != nil {
		return nil, status.FromContextError(err).Err()
	}
	n := cc.net
	sctx, scancel := context.WithCancel(ctx)
	n.mu.Lock()
	n.nextID++
	s := &Stream{net: n, conn: cc, ID: n.nextID, Method: method, desc: desc, impl: cc.impl, cctx: ctx, sctx: sctx, scancel: scancel, notify: make(chan struct{})}
	n.streams = append(n.streams, s)
	n.mu.Unlock()
	return &clientStream{s: s}, nil
}

type clientStream struct {
	s       *Stream
	started bool
}

func (c *clientStream) Header() (metadata.MD, error) { return nil, nil }
func (c *clientStream) Trailer() metadata.MD         { return nil }
func (c *clientStream) CloseSend() error             { return nil }
func (c *clientStream) Context() context.Context     { return c.s.cctx }

// SendMsg carries the (single) request and starts the service handler.
func (c *clientStream) SendMsg(m interface{}) error {
	pm, ok := m.(proto.Message)
	if !ok {
		return status.Error(codes.Internal, "vgrpc: request is not a proto.Message")
	}
	b, err := proto.Marshal(pm)
	if err != nil {
		return status.Error(codes.Internal, err.Error())
	}
	s := c.s
	if c.started {
		return status.Error(codes.Internal, "vgrpc: only one request per stream is modelled")
	}
	c.started = true
	s.net.mu.Lock()
	s.Req = b
	s.net.mu.Unlock()
	go func() {
		err := s.desc.Handler(s.impl, &serverStream{s: s})
		s.net.mu.Lock()
		s.HandlerDone, s.HandlerErr = true, err
		if s.term == nil {
			if err == nil {
				s.term = io.EOF
			} else if st, ok := status.FromError(err); ok {
				s.term = st.Err()
			} else {
				s.term = status.Error(codes.Unknown, err.Error())
			}
		}
		s.wake()
		s.net.mu.Unlock()
		s.scancel()
	}()
	return nil
}

func (c *clientStream) RecvMsg(m interface{}) error {
	s := c.s
	pm, ok := m.(proto.Message)
	if !ok {
		return status.Error(codes.Internal, "vgrpc: reply is not a proto.Message")
	}
	for {
		s.net.mu.Lock()
		if len(s.queue) > 0 {
			b := s.queue[0]
			s.queue = s.queue[1:]
			s.recvWaiting = false
			s.net.mu.Unlock()
			if err := proto.Unmarshal(b, pm); err != nil {
				return status.Error(codes.Internal, err.Error())
			}
			return nil
		}
		if s.term != nil {
			err := s.term
			s.recvWaiting = false
			s.net.mu.Unlock()
			return err
		}
		s.recvWaiting = true
		ch := s.notify
		s.net.mu.Unlock()
		select {
		case <-ch:
		case <-s.cctx.Done():
			s.net.mu.Lock()
			s.recvWaiting = false
			s.net.mu.Unlock()
			return status.FromContextError(s.cctx.Err()).Err()
		}
	}
}

// ---------------------------------------------------------------------------
// server side

type serverStream struct{ s *Stream }

func (ss *serverStream) SetHeader(metadata.MD) error  { return nil }
func (ss *serverStream) SendHeader(metadata.MD) error { return nil }
func (ss *serverStream) SetTrailer(metadata.MD)       {}
func (ss *serverStream) Context() context.Context     { return ss.s.sctx }

func (ss *serverStream) RecvMsg(m interface{}) error {
	s := ss.s
	s.net.mu.Lock()
	taken := s.reqTaken
	s.reqTaken = true
	b := s.Req
	s.net.mu.Unlock()
	if taken {
		return io.EOF
	}
	pm, ok := m.(proto.Message)
	if !ok {
		return status.Error(codes.Internal, "vgrpc: request target is not a proto.Message")
	}
	return proto.Unmarshal(b, pm)
}

func (ss *serverStream) SendMsg(m interface{}) error {
	s := ss.s
	pm, ok := m.(proto.Message)
	if !ok {
		return status.Error(codes.Internal, "vgrpc: reply is not a proto.Message")
	}
	b, err := proto.Marshal(pm)
	if err != nil {
		return status.Error(codes.Internal, err.Error())
	}
	n := s.net
	n.mu.Lock()
	if s.broken != nil {
		err := s.broken
		n.mu.Unlock()
		return err
	}
	if err := s.sctx.Err(); err != nil {
		n.mu.Unlock()
		return status.FromContextError(err).Err()
	}
	s.sent++
	p := &Send{Stream: s, Seq: s.sent, Bytes: b, done: make(chan error, 1)}
	n.pending = append(n.pending, p)
	n.mu.Unlock()
	select {
	case err := <-p.done:
		return err
	case <-s.sctx.Done():
		n.mu.Lock()
		n.removePending(p)
		n.mu.Unlock()
		select {
		case err := <-p.done:
			return err
		default:
		}
		return status.FromContextError(s.sctx.Err()).Err()
	}
}

// Package vsel is the run-time half of the `select` transform. A rewritten select
// registers its cases with Recv/Send and calls Wait, which returns the index of the
// case to run (-1 for default). When two or more cases are ready at the same instant
// the decision is handed to the Picker the harness installed (an explorer choice
// point); with no Picker the first ready case in source order wins.
package vsel

import (
	"reflect"
	"sync"
)

// Picker chooses among the ready case indices of a select at site; it must return
// one of the elements of ready.
type Picker func(site string, ready []int) int

var (
	pmu    sync.Mutex
	picker Picker
)

// SetPicker installs (or with nil removes) the decision procedure.
func SetPicker(p Picker) {
	pmu.Lock()
	picker = p
	pmu.Unlock()
}

type scase struct {
	dir  reflect.SelectDir
	ch   reflect.Value
	val  reflect.Value
	recv func(v reflect.Value, ok bool)
}

// Sel is one executing select statement.
type Sel struct {
	site   string
	cases  []scase
	forced *forced
}

func New(site string) *Sel { return &Sel{site: site} }

// RecvCase holds the received value for `case v, ok := <-ch`.
type RecvCase[T any] struct {
	Val T
	Ok  bool
}

// Recv registers `<-ch`.
func Recv[T any](s *Sel, ch <-chan T) *RecvCase[T] {
	rc := &RecvCase[T]{}
	s.cases = append(s.cases, scase{dir: reflect.SelectRecv, ch: reflect.ValueOf(ch), recv: func(v reflect.Value, ok bool) {
		rc.Ok = ok
		if ok {
			rc.Val = v.Interface().(T)
		} else if v.IsValid() {
			if x, isT := v.Interface().(T); isT {
				rc.Val = x
			}
		}
	}})
	return rc
}

// Send registers `ch <- v`.
func Send[T any](s *Sel, ch chan<- T, v T) {
	s.cases = append(s.cases, scase{dir: reflect.SelectSend, ch: reflect.ValueOf(ch), val: reflect.ValueOf(&v).Elem()})
}

// peek reports whether case i could proceed now without consuming anything.
// A nil channel is never ready. For an unbuffered channel readiness cannot be
// observed without acting, so such a case is reported not-ready here and is
// only taken through the blocking path.
func (s *Sel) peek(i int) bool {
	c := s.cases[i]
	if c.ch.IsNil() {
		return false
	}
	if c.dir == reflect.SelectRecv {
		if c.ch.Len() > 0 {
			return true
		}
		// closed channel: a receive succeeds with ok=false and consumes nothing
		chosen, v, ok := reflect.Select([]reflect.SelectCase{{Dir: reflect.SelectRecv, Chan: c.ch}, {Dir: reflect.SelectDefault}})
		if chosen == 0 {
			if !ok {
				return true
			}
			// consumed a value from an unbuffered/rendezvous channel: commit to it
			s.forced = &forced{i: i, v: v, ok: ok}
			return true
		}
		return false
	}
	return c.ch.Cap() > 0 && c.ch.Len() < c.ch.Cap()
}

type forced struct {
	i  int
	v  reflect.Value
	ok bool
}

func (s *Sel) try(i int) bool {
	c := s.cases[i]
	if c.ch.IsNil() {
		return false
	}
	if c.dir == reflect.SelectRecv {
		chosen, v, ok := reflect.Select([]reflect.SelectCase{{Dir: reflect.SelectRecv, Chan: c.ch}, {Dir: reflect.SelectDefault}})
		if chosen != 0 {
			return false
		}
		c.recv(v, ok)
		return true
	}
	chosen, _, _ := reflect.Select([]reflect.SelectCase{{Dir: reflect.SelectSend, Chan: c.ch, Send: c.val}, {Dir: reflect.SelectDefault}})
	return chosen == 0
}

// Wait decides which case runs.
func (s *Sel) Wait(hasDefault bool) int {
	for attempt := 0; attempt < 64; attempt++ {
		s.forced = nil
		var ready []int
		for i := range s.cases {
			if s.peek(i) {
				if s.forced != nil {
					s.cases[i].recv(s.forced.v, s.forced.ok)
					return i
				}
				ready = append(ready, i)
			}
		}
		pick := -1
		if len(ready) == 1 {
			pick = ready[0]
		} else if len(ready) > 1 {
			pmu.Lock()
			p := picker
			pmu.Unlock()
			pick = ready[0]
			if p != nil {
				pick = p(s.site, ready)
			}
		}
		if pick >= 0 {
			if s.try(pick) {
				return pick
			}
			continue // lost a race with another goroutine; look again
		}
		break
	}
	if hasDefault {
		// unbuffered rendezvous cases get one non-blocking chance before default
		for i := range s.cases {
			if s.try(i) {
				return i
			}
		}
		return -1
	}
	rc := make([]reflect.SelectCase, len(s.cases))
	for i, c := range s.cases {
		rc[i] = reflect.SelectCase{Dir: c.dir, Chan: c.ch}
		if c.dir == reflect.SelectSend {
			rc[i].Send = c.val
		}
	}
	chosen, v, ok := reflect.Select(rc)
	if s.cases[chosen].dir == reflect.SelectRecv {
		s.cases[chosen].recv(v, ok)
	}
	return chosen
}

// ---------------------------------------------------------------------------
// Yield points (the `yield` transform): after a statement that made another goroutine
// runnable the Yielder may hold the current goroutine back (it blocks inside the Yielder
// until the harness lets it go on, typically after everything else has run until it
// blocked). No Yielder: no effect.

// Yielder is called by the goroutine that reached site; it returns when that goroutine may go on.
type Yielder func(site string)

var yielder Yielder

// SetYielder installs (or with nil removes) the preemption procedure.
func SetYielder(y Yielder) {
	pmu.Lock()
	yielder = y
	pmu.Unlock()
}

// Yield is a preemption point.
func Yield(site string) {
	pmu.Lock()
	y := yielder
	pmu.Unlock()
	if y != nil {
		y(site)
	}
}

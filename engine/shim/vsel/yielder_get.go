package vsel

// CurrentYielder returns the installed preemption procedure (nil if none), so that a
// harness can wrap it (for instance to inject a fault when a given point is reached).
func CurrentYielder() Yielder {
	pmu.Lock()
	defer pmu.Unlock()
	return yielder
}

// Package vnet is an in-memory replacement for TCP dialing. The repository's two
// dial sites are rewritten (build-time overlay) to call Dial/DialTimeout here; an
// address registered by a harness is served by an in-process Server, anything else
// falls through to the real dialer.
//
// The server side of a connection is a synchronous state machine: bytes written by
// the client are handed to Handler.OnData from inside Write (no server goroutine),
// replies are appended to the client's read buffer with Conn.Push. A Read with an
// empty buffer blocks on a sync.Cond, which testing/synctest treats as durably
// blocked, so bubble quiescence detection works.
package vnet

import (
	"errors"
	"io"
	"net"
	"os"
	"sync"
	"syscall"
	"time"
)

// Server accepts in-memory connections for one registered address.
type Server interface {
	// Accept is called once per Dial. Returning an error refuses the connection.
	Accept(c *Conn) (Handler, error)
}

// Handler is the server side of one connection.
type Handler interface {
	OnData(c *Conn, p []byte) // client wrote p (p is a private copy)
	OnClose(c *Conn)          // client closed its end
}

var (
	regMu    sync.Mutex
	registry = map[string]Server{}
	dialLog  []string
)

// Register binds addr to s until Reset/Unregister.
func Register(addr string, s Server) {
	regMu.Lock()
	registry[addr] = s
	regMu.Unlock()
}

func Unregister(addr string) {
	regMu.Lock()
	delete(registry, addr)
	regMu.Unlock()
}

// Reset forgets every registration and the dial log.
func Reset() {
	regMu.Lock()
	registry = map[string]Server{}
	dialLog = nil
	regMu.Unlock()
}

// Dials returns the addresses dialled since the last Reset.
func Dials() []string {
	regMu.Lock()
	defer regMu.Unlock()
	return append([]string(nil), dialLog...)
}

func lookup(addr string) Server {
	regMu.Lock()
	defer regMu.Unlock()
	dialLog = append(dialLog, addr)
	return registry[addr]
}

// Strict, when set, makes dialling an unregistered address fail instead of falling
// through to the operating system (harnesses set it so nothing escapes the bubble).
var Strict = true

// Dial is the rewritten form of `d.Dial("tcp", addr)`.
func Dial(real func(network, addr string) (net.Conn, error), network, addr string) (net.Conn, error) {
	if s := lookup(addr); s != nil {
		return newConn(addr, s)
	}
	if Strict {
		return nil, &net.OpError{Op: "dial", Net: network, Err: os.NewSyscallError("connect", syscall.ECONNREFUSED)} // (vnet: no server registered for addr)
	}
	return real(network, addr)
}

// DialTimeout is the rewritten form of `net.DialTimeout("tcp", addr, d)`.
func DialTimeout(real func(network, addr string, d time.Duration) (net.Conn, error), network, addr string, d time.Duration) (net.Conn, error) {
	if s := lookup(addr); s != nil {
		return newConn(addr, s)
	}
	if Strict {
		return nil, &net.OpError{Op: "dial", Net: network, Err: os.NewSyscallError("connect", syscall.ECONNREFUSED)} // (vnet: no server registered for addr)
	}
	return real(network, addr, d)
}

// DialDirect connects to a registered server without going through a dial site.
func DialDirect(addr string) (net.Conn, error) {
	if s := lookup(addr); s != nil {
		return newConn(addr, s)
	}
	return nil, errors.New("vnet: no server for " + addr)
}

type vaddr string

func (a vaddr) Network() string { return "vnet" }
func (a vaddr) String() string  { return string(a) }

// Conn is the client end (net.Conn) and the handle the server pushes replies to.
type Conn struct {
	addr string
	h    Handler

	mu        sync.Mutex
	cond      *sync.Cond
	rbuf      []byte
	cliClosed bool
	srvErr    error // set when the server side ended the connection
	rdead     time.Time
	rtimer    *time.Timer

	// User is free for the server implementation (per-connection state).
	User interface{}
}

func newConn(addr string, s Server) (net.Conn, error) {
	c := &Conn{addr: addr}
	c.cond = sync.NewCond(&c.mu)
	h, err := s.Accept(c)
	if err != nil {
		return nil, &net.OpError{Op: "dial", Net: "tcp", Err: err}
	}
	c.h = h
	return c, nil
}

func (c *Conn) Addr() string { return c.addr }

func (c *Conn) Read(p []byte) (int, error) {
	c.mu.Lock()
	defer c.mu.Unlock()
	for {
		if c.cliClosed {
			return 0, net.ErrClosed
		}
		if len(c.rbuf) > 0 {
			n := copy(p, c.rbuf)
			c.rbuf = c.rbuf[n:]
			if len(c.rbuf) == 0 {
				c.rbuf = nil
			}
			return n, nil
		}
		if c.srvErr != nil {
			return 0, c.srvErr
		}
		if !c.rdead.IsZero() && !time.Now().Before(c.rdead) {
			return 0, os.ErrDeadlineExceeded
		}
		c.cond.Wait()
	}
}

func (c *Conn) Write(p []byte) (int, error) {
	c.mu.Lock()
	if c.cliClosed {
		c.mu.Unlock()
		return 0, net.ErrClosed
	}
	if c.srvErr != nil {
		c.mu.Unlock()
		return 0, &net.OpError{Op: "write", Net: "tcp", Err: errors.New("broken pipe")}
	}
	c.mu.Unlock()
	cp := append([]byte(nil), p...)
	c.h.OnData(c, cp)
	return len(p), nil
}

func (c *Conn) Close() error {
	c.mu.Lock()
	if c.cliClosed {
		c.mu.Unlock()
		return nil
	}
	c.cliClosed = true
	if c.rtimer != nil {
		c.rtimer.Stop()
	}
	c.cond.Broadcast()
	c.mu.Unlock()
	c.h.OnClose(c)
	return nil
}

// Push appends server→client bytes.
func (c *Conn) Push(p []byte) {
	c.mu.Lock()
	if !c.cliClosed && c.srvErr == nil {
		c.rbuf = append(c.rbuf, p...)
		c.cond.Broadcast()
	}
	c.mu.Unlock()
}

// Drain returns and discards everything pushed by the server but not yet read
// (for harness-side clients that look at the server's log instead of the replies).
func (c *Conn) Drain() []byte {
	c.mu.Lock()
	defer c.mu.Unlock()
	b := c.rbuf
	c.rbuf = nil
	return b
}

// Kill ends the connection from the server side. With drop the bytes already pushed
// but not yet read are discarded (connection reset); otherwise they can still be
// read before the error (orderly EOF).
func (c *Conn) Kill(drop bool) {
	c.mu.Lock()
	if c.srvErr == nil {
		if drop {
			c.rbuf = nil
			// what a reset TCP connection returns: *net.OpError{*os.SyscallError{ECONNRESET}} (errors.Is(err, syscall.ECONNRESET) holds)
			c.srvErr = &net.OpError{Op: "read", Net: "tcp", Err: os.NewSyscallError("read", syscall.ECONNRESET)}
		} else {
			c.srvErr = io.EOF
		}
		c.cond.Broadcast()
	}
	c.mu.Unlock()
}

// ClientClosed reports whether the client closed its end.
func (c *Conn) ClientClosed() bool {
	c.mu.Lock()
	defer c.mu.Unlock()
	return c.cliClosed
}

func (c *Conn) LocalAddr() net.Addr  { return vaddr("client") }
func (c *Conn) RemoteAddr() net.Addr { return vaddr(c.addr) }

func (c *Conn) SetDeadline(t time.Time) error {
	c.SetReadDeadline(t)
	return nil
}

func (c *Conn) SetReadDeadline(t time.Time) error {
	c.mu.Lock()
	defer c.mu.Unlock()
	c.rdead = t
	if c.rtimer != nil {
		c.rtimer.Stop()
		c.rtimer = nil
	}
	if !t.IsZero() {
		d := time.Until(t)
		if d < 0 {
			d = 0
		}
		c.rtimer = time.AfterFunc(d, func() {
			c.mu.Lock()
			c.cond.Broadcast()
			c.mu.Unlock()
		})
	}
	c.cond.Broadcast()
	return nil
}

func (c *Conn) SetWriteDeadline(t time.Time) error { return nil }

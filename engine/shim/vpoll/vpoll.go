// Package vpoll stands in for package time in the two polling readers of pkg/store
// (aof_reader.go, rdb_reader.go; import path swap only). Those files use nothing but
// time.Sleep and duration constants. AofRotateReader.read sleeps 10 ms between polls
// WHILE HOLDING its mutex; inside a synctest bubble a goroutine that then blocks on
// that mutex (Close) is not durably blocked, so the virtual clock can never advance
// and the sleeper never wakes. Sleep therefore becomes "park until the harness's next
// Tick": one Tick = one poll period elapsed for every parked poller. With no harness
// attached (Enable(false), the default) Sleep is time.Sleep.
package vpoll

import (
	"sync"
	"time"
)

type Duration = time.Duration

const (
	Nanosecond  = time.Nanosecond
	Microsecond = time.Microsecond
	Millisecond = time.Millisecond
	Second      = time.Second
	Minute      = time.Minute
	Hour        = time.Hour
)

var (
	mu      sync.Mutex
	cond    = sync.NewCond(&mu)
	enabled bool
	epoch   uint64
	parked  int
	polls   int64
)

// Reset attaches (on=true) or detaches the harness; call it at the start of every
// execution from inside the bubble (a fresh condition variable is created).
func Reset(on bool) {
	// pollers of an abandoned (wedged) bubble stay parked on the old condition
	// variable for ever: waking them from another bubble is a fatal runtime error.
	mu.Lock()
	enabled = on
	epoch++
	parked = 0
	cond = sync.NewCond(&mu)
	mu.Unlock()
}

// Sleep parks the caller until the next Tick (harness attached) or sleeps (detached).
func Sleep(d Duration) {
	mu.Lock()
	if !enabled {
		mu.Unlock()
		time.Sleep(d)
		return
	}
	e := epoch
	c := cond
	parked++
	polls++
	for enabled && epoch == e && c == cond {
		c.Wait()
	}
	parked--
	mu.Unlock()
}

// Tick lets one poll period elapse for every parked poller.
func Tick() {
	mu.Lock()
	epoch++
	cond.Broadcast()
	mu.Unlock()
}

// Parked is the number of pollers currently waiting for a Tick.
func Parked() int {
	mu.Lock()
	defer mu.Unlock()
	return parked
}

// Package vpoll stands in for package time in the two polling readers of pkg/store
// (aof_reader.go, rdb_reader.go; import path swap only). Those files use nothing but
// time.Sleep and duration constants. AofRotateReader.read sleeps 10 ms between polls
// WHILE HOLDING its mutex; inside a synctest bubble a goroutine that then blocks on
// that mutex (Close) is not durably blocked, so the virtual clock can never advance
// and the sleeper never wakes. Sleep therefore becomes "park until the harness wakes
// me": the harness owns the poll timers. Every parked poller has a ticket (park
// order); Wake(ticket) lets exactly that poller's period elapse, Tick wakes all.
// With no harness attached (Reset(false), the default) Sleep is time.Sleep.
package vpoll

import (
	"sync"
	"time"
)

type Duration = time.Duration

const (
	Nanosecond  = time.Nanosecond
	Microsecond = time.Microsecond
	Millisecond = time.Millisecond
	Second      = time.Second
	Minute      = time.Minute
	Hour        = time.Hour
)

type waiter struct {
	ticket uint64
	woken  bool
}

var (
	mu      sync.Mutex
	cond    = sync.NewCond(&mu)
	enabled bool
	gen     uint64 // execution generation (Reset)
	next    uint64
	parked  []*waiter
)

// Reset attaches (on=true) or detaches the harness; call it at the start of every
// execution from inside the bubble (a fresh condition variable is created). Pollers of
// an abandoned (wedged) bubble stay parked on the old condition variable for ever:
// waking them from another bubble is a fatal runtime error.
func Reset(on bool) {
	mu.Lock()
	enabled = on
	gen++
	parked = nil
	cond = sync.NewCond(&mu)
	mu.Unlock()
}

// Sleep parks the caller until it is woken (harness attached) or sleeps (detached).
func Sleep(d Duration) {
	mu.Lock()
	if !enabled {
		mu.Unlock()
		time.Sleep(d)
		return
	}
	g, c := gen, cond
	next++
	w := &waiter{ticket: next}
	parked = append(parked, w)
	for enabled && gen == g && !w.woken {
		c.Wait()
	}
	mu.Unlock()
}

func remove(w *waiter) {
	for i, x := range parked {
		if x == w {
			parked = append(parked[:i], parked[i+1:]...)
			return
		}
	}
}

// Tick lets one poll period elapse for every parked poller.
func Tick() {
	mu.Lock()
	for _, w := range parked {
		w.woken = true
	}
	parked = nil
	cond.Broadcast()
	mu.Unlock()
}

// Tickets lists the parked pollers in park order (oldest first).
func Tickets() []uint64 {
	mu.Lock()
	defer mu.Unlock()
	out := make([]uint64, len(parked))
	for i, w := range parked {
		out[i] = w.ticket
	}
	return out
}

// Wake lets the poll period of one parked poller elapse. It reports whether that
// poller was still parked.
func Wake(ticket uint64) bool {
	mu.Lock()
	defer mu.Unlock()
	for _, w := range parked {
		if w.ticket == ticket {
			w.woken = true
			remove(w)
			cond.Broadcast()
			return true
		}
	}
	return false
}

// Parked is the number of pollers currently waiting.
func Parked() int {
	mu.Lock()
	defer mu.Unlock()
	return len(parked)
}

// Gen is the current execution generation (incremented by Reset). A harness goroutine
// that belongs to an abandoned execution must not touch the pollers of a later one.
func Gen() uint64 {
	mu.Lock()
	defer mu.Unlock()
	return gen
}

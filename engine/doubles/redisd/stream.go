package redisd

import (
	"strconv"
	"strings"
)

func parseStreamID(b []byte) (StreamID, bool) {
	s := string(b)
	parts := strings.SplitN(s, "-", 2)
	ms, err := strconv.ParseUint(parts[0], 10, 64)
	if err != nil {
		return StreamID{}, false
	}
	var seq uint64
	if len(parts) == 2 {
		seq, err = strconv.ParseUint(parts[1], 10, 64)
		if err != nil {
			return StreamID{}, false
		}
	}
	return StreamID{ms, seq}, true
}

func (s *Server) cmdStream(db int, name string, argv [][]byte) []byte {
	a := argv[1:]
	switch name {
	case "xlen":
		v := s.lookup(db, string(a[0]))
		if v == nil {
			return rInt(0)
		}
		if v.T != 'x' {
			return rErr(wrongType)
		}
		return rInt(int64(len(v.Stream.Entries)))
	case "xadd":
		if len(a) < 4 {
			return argErr(name)
		}
		i := 1
		maxlen := int64(-1)
		nomk := false
		for i < len(a) {
			o := lower(a[i])
			if o == "nomkstream" {
				nomk = true
				i++
				continue
			}
			if o == "maxlen" || o == "minid" {
				i++
				if i < len(a) && (string(a[i]) == "=" || string(a[i]) == "~") {
					i++
				}
				if i >= len(a) {
					return rErr("ERR syntax error")
				}
				if o == "maxlen" {
					n, ok := parseInt(a[i])
					if !ok || n < 0 {
						return rErr("ERR value is not an integer or out of range")
					}
					maxlen = n
				}
				i++
				if i+1 < len(a) && lower(a[i]) == "limit" {
					i += 2
				}
				continue
			}
			break
		}
		if i >= len(a) {
			return rErr("ERR syntax error")
		}
		idArg := a[i]
		i++
		if (len(a)-i) < 2 || (len(a)-i)%2 != 0 {
			return argErr(name)
		}
		ex := s.lookup(db, string(a[0]))
		if ex != nil && ex.T != 'x' {
			return rErr(wrongType)
		}
		if ex == nil && nomk {
			return rNil()
		}
		v, _ := s.getOrCreate(db, a[0], 'x')
		st := v.Stream
		var id StreamID
		if string(idArg) == "*" {
			id = StreamID{uint64(s.Now()), 0}
			if !st.LastID.Less(id) {
				id = StreamID{st.LastID.Ms, st.LastID.Seq + 1}
			}
		} else {
			var ok bool
			id, ok = parseStreamID(idArg)
			if !ok {
				return rErr("ERR Invalid stream ID specified as stream command argument")
			}
			if id == (StreamID{}) {
				if len(st.Entries) == 0 && ex == nil {
					delete(s.dbs[db], string(a[0]))
				}
				return rErr("ERR The ID specified in XADD must be greater than 0-0")
			}
			if !st.LastID.Less(id) {
				if len(st.Entries) == 0 && ex == nil {
					delete(s.dbs[db], string(a[0]))
				}
				return rErr("ERR The ID specified in XADD is equal or smaller than the target stream top item")
			}
		}
		e := StreamEntry{ID: id}
		for ; i < len(a); i++ {
			e.Fields = append(e.Fields, a[i])
		}
		st.Entries = append(st.Entries, e)
		st.LastID = id
		st.Added++
		if maxlen >= 0 {
			for int64(len(st.Entries)) > maxlen {
				if st.MaxDelID.Less(st.Entries[0].ID) {
					st.MaxDelID = st.Entries[0].ID
				}
				st.Entries = st.Entries[1:]
			}
		}
		s.prop(db, argv)
		return rBulkS(id.String())
	case "xdel":
		v := s.lookup(db, string(a[0]))
		if v == nil {
			return rInt(0)
		}
		if v.T != 'x' {
			return rErr(wrongType)
		}
		n := 0
		for _, ib := range a[1:] {
			id, ok := parseStreamID(ib)
			if !ok {
				return rErr("ERR Invalid stream ID specified as stream command argument")
			}
			for k, e := range v.Stream.Entries {
				if e.ID == id {
					v.Stream.Entries = append(v.Stream.Entries[:k:k], v.Stream.Entries[k+1:]...)
					n++
					break
				}
			}
		}
		if n > 0 {
			s.prop(db, argv)
		}
		return rInt(int64(n))
	case "xsetid":
		if len(a) < 2 {
			return argErr(name)
		}
		v := s.lookup(db, string(a[0]))
		if v == nil {
			return rErr("ERR no such key")
		}
		if v.T != 'x' {
			return rErr(wrongType)
		}
		id, ok := parseStreamID(a[1])
		if !ok {
			return rErr("ERR Invalid stream ID specified as stream command argument")
		}
		st := v.Stream
		if len(st.Entries) > 0 && id.Less(st.Entries[len(st.Entries)-1].ID) {
			return rErr("ERR The ID specified in XSETID is smaller than the target stream top item")
		}
		for i := 2; i+1 < len(a); i += 2 {
			switch lower(a[i]) {
			case "entriesadded":
				n, ok := parseInt(a[i+1])
				if !ok {
					return rErr("ERR value is not an integer or out of range")
				}
				if n < 0 {
					return rErr("ERR entries_added must be positive")
				}
				st.Added = n
			case "maxdeletedid":
				mid, ok := parseStreamID(a[i+1])
				if !ok {
					return rErr("ERR Invalid stream ID specified as stream command argument")
				}
				st.MaxDelID = mid
			default:
				return rErr("ERR syntax error")
			}
		}
		st.LastID = id
		st.HasXSetID = true
		s.prop(db, argv)
		return rOK()
	case "xgroup":
		if len(a) < 1 {
			return argErr(name)
		}
		sub := lower(a[0])
		switch sub {
		case "create":
			if len(a) < 4 {
				return argErr(name)
			}
			mk := false
			var entriesRead int64 = -1
			for i := 4; i < len(a); i++ {
				switch lower(a[i]) {
				case "mkstream":
					mk = true
				case "entriesread":
					// t_stream.c xgroupCommand: getLongLongFromObjectOrReply (signed 64-bit), then
					// "entries_read < 0 && entries_read != SCG_INVALID_ENTRIES_READ" is refused
					if i+1 >= len(a) {
						return rErr("ERR syntax error")
					}
					n, ok := parseInt(a[i+1])
					if !ok {
						return rErr("ERR value is not an integer or out of range")
					}
					if n < 0 && n != -1 {
						return rErr("ERR value for ENTRIESREAD must be positive or -1")
					}
					entriesRead = n
					i++
				default:
					return rErr("ERR syntax error")
				}
			}
			v := s.lookup(db, string(a[1]))
			if v == nil {
				if !mk {
					return rErr("ERR The XGROUP subcommand requires the key to exist. Note that for CREATE you may want to use the MKSTREAM option to create an empty stream automatically.")
				}
				v, _ = s.getOrCreate(db, a[1], 'x')
			}
			if v.T != 'x' {
				return rErr(wrongType)
			}
			for _, g := range v.Stream.Groups {
				if g.Name == string(a[2]) {
					return rErr("BUSYGROUP Consumer Group name already exists")
				}
			}
			var id StreamID
			if string(a[3]) == "$" {
				id = v.Stream.LastID
			} else {
				var ok bool
				id, ok = parseStreamID(a[3])
				if !ok {
					return rErr("ERR Invalid stream ID specified as stream command argument")
				}
			}
			v.Stream.Groups = append(v.Stream.Groups, &Group{Name: string(a[2]), LastID: id, EntriesRd: entriesRead})
			s.prop(db, argv)
			return rOK()
		case "createconsumer":
			if len(a) != 4 {
				return argErr(name)
			}
			v := s.lookup(db, string(a[1]))
			if v == nil || v.T != 'x' {
				return rErr("ERR no such key")
			}
			for _, g := range v.Stream.Groups {
				if g.Name == string(a[2]) {
					for _, c := range g.Consumers {
						if c == string(a[3]) {
							return rInt(0)
						}
					}
					g.Consumers = append(g.Consumers, string(a[3]))
					s.prop(db, argv)
					return rInt(1)
				}
			}
			return rErr("NOGROUP No such consumer group")
		}
		return rErr("ERR unknown XGROUP subcommand")
	case "xclaim":
		// XCLAIM key group consumer min-idle id [id...] [TIME ms] [RETRYCOUNT n] [FORCE] [JUSTID] [LASTID id]
		if len(a) < 5 {
			return argErr(name)
		}
		v := s.lookup(db, string(a[0]))
		if v == nil || v.T != 'x' {
			return rErr("NOGROUP No such key or consumer group")
		}
		var g *Group
		for _, gg := range v.Stream.Groups {
			if gg.Name == string(a[1]) {
				g = gg
			}
		}
		if g == nil {
			return rErr("NOGROUP No such key or consumer group")
		}
		consumer := string(a[2])
		var ids []StreamID
		i := 4
		for ; i < len(a); i++ {
			id, ok := parseStreamID(a[i])
			if !ok {
				break
			}
			ids = append(ids, id)
		}
		var tm, rc int64 = s.Now(), 1
		force := false
		for ; i < len(a); i++ {
			switch lower(a[i]) {
			case "time":
				if i+1 < len(a) {
					tm, _ = parseInt(a[i+1])
					i++
				}
			case "retrycount":
				if i+1 < len(a) {
					rc, _ = parseInt(a[i+1])
					i++
				}
			case "force":
				force = true
			case "justid":
			case "lastid":
				i++
			case "idle":
				i++
			}
		}
		found := false
		for _, c := range g.Consumers {
			if c == consumer {
				found = true
			}
		}
		if !found {
			g.Consumers = append(g.Consumers, consumer)
		}
		out := rArrayHdr(0)
		n := 0
		for _, id := range ids {
			idx := -1
			for k, p := range g.PEL {
				if p.ID == id {
					idx = k
				}
			}
			exists := false
			for _, e := range v.Stream.Entries {
				if e.ID == id {
					exists = true
				}
			}
			if idx < 0 {
				if !force {
					continue
				}
				// Redis >= 7 only creates a PEL entry with FORCE when the entry exists
				if !exists {
					continue
				}
				g.PEL = append(g.PEL, PEL{ID: id, Consumer: consumer, Time: tm, Count: rc})
			} else {
				g.PEL[idx].Consumer = consumer
				g.PEL[idx].Time = tm
				g.PEL[idx].Count = rc
			}
			n++
		}
		_ = out
		s.prop(db, argv)
		res := rArrayHdr(n)
		for k := 0; k < n; k++ {
			res = append(res, rBulkS("0-0")...)
		}
		return res
	}
	return rErr("ERR unknown command")
}

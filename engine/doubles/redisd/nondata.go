package redisd

import "strings"

// nonData lists Redis commands that modify no key of the data set: connection
// handling, administration and introspection, and read-only commands. Oracles that
// speak about "data-modifying commands the target executes" skip them, so that a
// tool which names its connections, pings once more or reads something it did not
// read before is not reported (the properties do not speak about such requests).
// Written from the Redis command reference (flags readonly / admin / connection);
// SELECT, MULTI, EXEC and the like are handled by the oracles themselves.
var nonData = map[string]bool{
	// connection
	"auth": true, "hello": true, "client": true, "echo": true, "ping": true, "quit": true, "reset": true,
	"select": true, "readonly": true, "readwrite": true, "asking": true,
	// administration / introspection
	"info": true, "command": true, "config": true, "cluster": true, "role": true, "time": true, "dbsize": true,
	"memory": true, "latency": true, "slowlog": true, "lastsave": true, "wait": true, "waitaof": true, "module": true,
	"acl": true, "replconf": true, "debug": true, "lolwut": true,
	// keyspace reads
	"exists": true, "type": true, "ttl": true, "pttl": true, "expiretime": true, "pexpiretime": true, "keys": true, "scan": true,
	"randomkey": true, "dump": true, "object": true, "touch": true,
	// value reads
	"get": true, "mget": true, "strlen": true, "getrange": true, "substr": true, "getbit": true, "bitcount": true, "bitpos": true,
	"hget": true, "hmget": true, "hgetall": true, "hkeys": true, "hvals": true, "hlen": true, "hexists": true, "hstrlen": true, "hscan": true, "hrandfield": true,
	"lrange": true, "llen": true, "lindex": true, "lpos": true,
	"smembers": true, "scard": true, "sismember": true, "smismember": true, "srandmember": true, "sscan": true,
	"zrange": true, "zrangebyscore": true, "zrevrange": true, "zrevrangebyscore": true, "zrangebylex": true, "zcard": true, "zscore": true, "zmscore": true,
	"zrank": true, "zrevrank": true, "zcount": true, "zlexcount": true, "zscan": true,
	"xrange": true, "xrevrange": true, "xlen": true, "xinfo": true, "xpending": true,
	"pfcount": true, "geopos": true, "geodist": true, "geohash": true,
}

// NonData reports whether the command of that name modifies no key of the data set.
func NonData(name string) bool { return nonData[strings.ToLower(name)] }

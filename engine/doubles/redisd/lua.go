package redisd

import (
	"fmt"
	"strconv"
	"strings"
)

// A deliberately tiny Lua interpreter: exactly the statement subset the
// repository's EVAL scripts use (local, KEYS[i]/ARGV[i], redis.call, if/else/end,
// ==, ~=, false/nil, numbers, strings, return). Anything else is an error, which the
// harnesses treat as machinery failure, never as a property violation.

type luaTok struct {
	k string // "id","num","str","op","eof"
	v string
}

func luaLex(src string) ([]luaTok, error) {
	var t []luaTok
	i := 0
	for i < len(src) {
		c := src[i]
		switch {
		case c == ' ' || c == '\t' || c == '\n' || c == '\r' || c == ';':
			i++
		case c == '-' && i+1 < len(src) && src[i+1] == '-':
			for i < len(src) && src[i] != '\n' {
				i++
			}
		case c == '\'' || c == '"':
			j := i + 1
			var sb strings.Builder
			for j < len(src) && src[j] != c {
				if src[j] == '\\' && j+1 < len(src) {
					j++
				}
				sb.WriteByte(src[j])
				j++
			}
			if j >= len(src) {
				return nil, fmt.Errorf("lua: unterminated string")
			}
			t = append(t, luaTok{"str", sb.String()})
			i = j + 1
		case c >= '0' && c <= '9':
			j := i
			for j < len(src) && (src[j] >= '0' && src[j] <= '9') {
				j++
			}
			t = append(t, luaTok{"num", src[i:j]})
			i = j
		case c == '_' || (c >= 'a' && c <= 'z') || (c >= 'A' && c <= 'Z'):
			j := i
			for j < len(src) && (src[j] == '_' || src[j] == '.' || (src[j] >= 'a' && src[j] <= 'z') || (src[j] >= 'A' && src[j] <= 'Z') || (src[j] >= '0' && src[j] <= '9')) {
				j++
			}
			t = append(t, luaTok{"id", src[i:j]})
			i = j
		case (c == '=' || c == '~') && i+1 < len(src) && src[i+1] == '=':
			t = append(t, luaTok{"op", src[i : i+2]})
			i += 2
		case strings.ContainsRune("=()[],", rune(c)):
			t = append(t, luaTok{"op", string(c)})
			i++
		default:
			return nil, fmt.Errorf("lua: unsupported character %q", c)
		}
	}
	t = append(t, luaTok{"eof", ""})
	return t, nil
}

// lua values: nil (Go nil), false (luaFalse), int64, string, []interface{}
type luaFalseT struct{}

var luaFalse = luaFalseT{}

type luaVM struct {
	t     []luaTok
	p     int
	vars  map[string]interface{}
	keys  [][]byte
	argv  [][]byte
	call  func(args [][]byte) interface{}
	ret   interface{}
	done  bool
	steps int
}

func (vm *luaVM) peek() luaTok { return vm.t[vm.p] }
func (vm *luaVM) next() luaTok { x := vm.t[vm.p]; vm.p++; return x }
func (vm *luaVM) expect(k, v string) error {
	x := vm.next()
	if x.k != k || (v != "" && x.v != v) {
		return fmt.Errorf("lua: expected %s %q, got %s %q", k, v, x.k, x.v)
	}
	return nil
}

// block executes statements until one of the terminators (not consumed). When
// exec is false the statements are parsed but not run.
func (vm *luaVM) block(exec bool, terms ...string) error {
	for {
		x := vm.peek()
		if x.k == "eof" {
			return nil
		}
		if x.k == "id" {
			for _, tm := range terms {
				if x.v == tm {
					return nil
				}
			}
		}
		if err := vm.stmt(exec && !vm.done); err != nil {
			return err
		}
	}
}

func (vm *luaVM) stmt(exec bool) error {
	vm.steps++
	if vm.steps > 10000 {
		return fmt.Errorf("lua: too many steps")
	}
	x := vm.next()
	if x.k != "id" {
		return fmt.Errorf("lua: unexpected token %q", x.v)
	}
	switch x.v {
	case "local":
		name := vm.next()
		if name.k != "id" {
			return fmt.Errorf("lua: bad local")
		}
		if err := vm.expect("op", "="); err != nil {
			return err
		}
		v, err := vm.expr(exec)
		if err != nil {
			return err
		}
		if exec {
			vm.vars[name.v] = v
		}
		return nil
	case "return":
		v, err := vm.expr(exec)
		if err != nil {
			return err
		}
		if exec {
			vm.ret = v
			vm.done = true
		}
		return nil
	case "if":
		cond, err := vm.expr(exec)
		if err != nil {
			return err
		}
		if err := vm.expect("id", "then"); err != nil {
			return err
		}
		truth := cond != nil && cond != luaFalse
		if err := vm.block(exec && truth, "else", "end"); err != nil {
			return err
		}
		if vm.peek().v == "else" {
			vm.next()
			if err := vm.block(exec && !truth, "end"); err != nil {
				return err
			}
		}
		return vm.expect("id", "end")
	case "redis.call", "redis.pcall":
		vm.p--
		_, err := vm.expr(exec)
		return err
	}
	return fmt.Errorf("lua: unsupported statement starting with %q", x.v)
}

func (vm *luaVM) expr(exec bool) (interface{}, error) {
	l, err := vm.primary(exec)
	if err != nil {
		return nil, err
	}
	if x := vm.peek(); x.k == "op" && (x.v == "==" || x.v == "~=") {
		vm.next()
		r, err := vm.primary(exec)
		if err != nil {
			return nil, err
		}
		eq := luaEq(l, r)
		if x.v == "~=" {
			eq = !eq
		}
		if eq {
			return int64(1), nil // any truthy value
		}
		return luaFalse, nil
	}
	return l, nil
}

func luaEq(a, b interface{}) bool {
	switch x := a.(type) {
	case string:
		y, ok := b.(string)
		return ok && x == y
	case int64:
		y, ok := b.(int64)
		return ok && x == y
	case luaFalseT:
		_, ok := b.(luaFalseT)
		return ok
	case nil:
		return b == nil
	}
	return false
}

func (vm *luaVM) primary(exec bool) (interface{}, error) {
	x := vm.next()
	switch x.k {
	case "num":
		n, _ := strconv.ParseInt(x.v, 10, 64)
		return n, nil
	case "str":
		return x.v, nil
	case "id":
		switch x.v {
		case "false":
			return luaFalse, nil
		case "nil":
			return nil, nil
		case "true":
			return int64(1), nil
		case "KEYS", "ARGV":
			if err := vm.expect("op", "["); err != nil {
				return nil, err
			}
			idx, err := vm.expr(exec)
			if err != nil {
				return nil, err
			}
			if err := vm.expect("op", "]"); err != nil {
				return nil, err
			}
			if !exec {
				return nil, nil
			}
			n, ok := idx.(int64)
			src := vm.keys
			if x.v == "ARGV" {
				src = vm.argv
			}
			if !ok || n < 1 || int(n) > len(src) {
				return nil, nil
			}
			return string(src[n-1]), nil
		case "redis.call", "redis.pcall":
			if err := vm.expect("op", "("); err != nil {
				return nil, err
			}
			var args [][]byte
			for vm.peek().v != ")" {
				v, err := vm.expr(exec)
				if err != nil {
					return nil, err
				}
				switch y := v.(type) {
				case string:
					args = append(args, []byte(y))
				case int64:
					args = append(args, []byte(strconv.FormatInt(y, 10)))
				default:
					if exec {
						return nil, fmt.Errorf("lua: bad redis.call argument %T", v)
					}
				}
				if vm.peek().v == "," {
					vm.next()
				}
			}
			vm.next()
			if !exec {
				return nil, nil
			}
			return vm.call(args), nil
		default:
			if !exec {
				return nil, nil
			}
			v, ok := vm.vars[x.v]
			if !ok {
				return nil, nil
			}
			return v, nil
		}
	}
	return nil, fmt.Errorf("lua: unexpected token %q in expression", x.v)
}

// respToLua converts a RESP reply into a Lua value the way Redis does.
func respToLua(rep []byte) interface{} {
	if len(rep) == 0 {
		return nil
	}
	line := rep
	if i := strings.Index(string(rep), "\r\n"); i >= 0 {
		line = rep[:i]
	}
	switch rep[0] {
	case '+':
		return string(line[1:]) // status -> table{ok=..}; compared only for truthiness here
	case '-':
		return fmt.Errorf("%s", line[1:])
	case ':':
		n, _ := strconv.ParseInt(string(line[1:]), 10, 64)
		return n
	case '$':
		n, _ := strconv.Atoi(string(line[1:]))
		if n < 0 {
			return luaFalse
		}
		st := len(line) + 2
		return string(rep[st : st+n])
	case '*':
		return []interface{}{}
	}
	return nil
}

func (s *Server) cmdEval(cs *ConnState, argv [][]byte) []byte {
	a := argv[1:]
	if len(a) < 2 {
		return argErr("eval")
	}
	nk, ok := parseInt(a[1])
	if !ok || nk < 0 || int(nk) > len(a)-2 {
		return rErr("ERR Number of keys can't be greater than number of args")
	}
	toks, err := luaLex(string(a[0]))
	if err != nil {
		s.MachineryErrors = append(s.MachineryErrors, err.Error())
		return rErr("ERR " + err.Error())
	}
	vm := &luaVM{t: toks, vars: map[string]interface{}{}, keys: a[2 : 2+nk], argv: a[2+nk:]}
	var callErr error
	vm.call = func(args [][]byte) interface{} {
		if len(args) == 0 {
			callErr = fmt.Errorf("lua: empty redis.call")
			return nil
		}
		rep := s.command(cs, args)
		v := respToLua(rep)
		if e, isErr := v.(error); isErr {
			callErr = e
			vm.done = true
			return nil
		}
		return v
	}
	if err := vm.block(true); err != nil {
		s.MachineryErrors = append(s.MachineryErrors, err.Error())
		return rErr("ERR " + err.Error())
	}
	if callErr != nil {
		return rErr("ERR " + callErr.Error())
	}
	switch v := vm.ret.(type) {
	case int64:
		return rInt(v)
	case string:
		return rBulkS(v)
	case luaFalseT, nil:
		return rNil()
	}
	return rNil()
}

package redisd

import (
	"bytes"
	"strconv"
)

// parseCommand tries to parse one RESP multi-bulk request from buf. It returns the
// argv, the number of bytes consumed, and ok=false when more bytes are needed.
// Bare "\n" / "\r\n" between commands are skipped (consumed with the command).
func parseCommand(buf []byte) (argv [][]byte, n int, ok bool, bad bool) {
	i := 0
	for i < len(buf) && (buf[i] == '\n' || buf[i] == '\r') {
		i++
	}
	if i >= len(buf) {
		return nil, i, false, false
	}
	if buf[i] != '*' {
		// inline command: up to CRLF
		j := bytes.IndexByte(buf[i:], '\n')
		if j < 0 {
			return nil, 0, false, false
		}
		line := bytes.TrimRight(buf[i:i+j], "\r")
		for _, f := range bytes.Fields(line) {
			argv = append(argv, append([]byte(nil), f...))
		}
		return argv, i + j + 1, true, false
	}
	readInt := func(p int) (int, int, bool, bool) { // value, next, ok, bad
		j := bytes.Index(buf[p:], []byte("\r\n"))
		if j < 0 {
			return 0, 0, false, false
		}
		v, err := strconv.Atoi(string(buf[p : p+j]))
		if err != nil {
			return 0, 0, false, true
		}
		return v, p + j + 2, true, false
	}
	cnt, p, ok1, bad1 := readInt(i + 1)
	if bad1 {
		return nil, 0, false, true
	}
	if !ok1 {
		return nil, 0, false, false
	}
	for k := 0; k < cnt; k++ {
		if p >= len(buf) {
			return nil, 0, false, false
		}
		if buf[p] != '$' {
			return nil, 0, false, true
		}
		l, np, ok2, bad2 := readInt(p + 1)
		if bad2 {
			return nil, 0, false, true
		}
		if !ok2 {
			return nil, 0, false, false
		}
		if np+l+2 > len(buf) {
			return nil, 0, false, false
		}
		argv = append(argv, append([]byte(nil), buf[np:np+l]...))
		p = np + l + 2
	}
	return argv, p, true, false
}

// Reply builders.

func rOK() []byte              { return []byte("+OK\r\n") }
func rStatus(s string) []byte  { return []byte("+" + s + "\r\n") }
func rErr(s string) []byte     { return []byte("-" + s + "\r\n") }
func rInt(n int64) []byte      { return []byte(":" + strconv.FormatInt(n, 10) + "\r\n") }
func rNil() []byte             { return []byte("$-1\r\n") }
func rNilArray() []byte        { return []byte("*-1\r\n") }
func rBulk(b []byte) []byte {
	out := make([]byte, 0, len(b)+16)
	out = append(out, '$')
	out = strconv.AppendInt(out, int64(len(b)), 10)
	out = append(out, '\r', '\n')
	out = append(out, b...)
	out = append(out, '\r', '\n')
	return out
}
func rBulkS(s string) []byte { return rBulk([]byte(s)) }
func rArrayHdr(n int) []byte { return []byte("*" + strconv.Itoa(n) + "\r\n") }
func rArray(items ...[]byte) []byte {
	out := rArrayHdr(len(items))
	for _, it := range items {
		out = append(out, it...)
	}
	return out
}
func rBulkArray(items [][]byte) []byte {
	out := rArrayHdr(len(items))
	for _, it := range items {
		out = append(out, rBulk(it)...)
	}
	return out
}

// EncodeCommand renders argv as a RESP multi-bulk request.
func EncodeCommand(argv ...[]byte) []byte {
	return rBulkArray(argv)
}

// EncodeCommandS is EncodeCommand for strings.
func EncodeCommandS(argv ...string) []byte {
	b := make([][]byte, len(argv))
	for i, a := range argv {
		b[i] = []byte(a)
	}
	return rBulkArray(b)
}

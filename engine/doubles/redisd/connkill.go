package redisd

// Per-connection faults (additive helpers; they do not change any existing command).

// KillConn ends ONE connection from the server side (the others stay up, the server
// is not marked crashed). With drop the bytes already pushed but not yet read are
// discarded (connection reset), otherwise they can still be read before EOF.
// It reports whether the connection existed.
func (s *Server) KillConn(conn int, drop bool) bool {
	s.mu.Lock()
	defer s.mu.Unlock()
	return s.KillConnLocked(conn, drop)
}

// KillConnLocked is KillConn for code that already runs under the server lock, i.e.
// the OnRequest / AfterReq callbacks of the fault plan. Called from AfterReq with
// drop=true it models "the request was executed but its reply never arrived".
func (s *Server) KillConnLocked(conn int, drop bool) bool {
	cs := s.conns[conn]
	if cs == nil {
		return false
	}
	cs.inMulti = false
	cs.queued = nil
	cs.parked = nil
	cs.held = nil
	cs.closed = true
	cs.c.Kill(drop)
	delete(s.conns, conn)
	return true
}

// LastConn returns the id of the most recently accepted connection (0 = none yet).
func (s *Server) LastConn() int {
	s.mu.Lock()
	defer s.mu.Unlock()
	return s.connN
}

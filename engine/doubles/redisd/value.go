package redisd

import (
	"fmt"
	"math"
	"sort"
	"strconv"
	"strings"
)

// Value is one key's content.
type Value struct {
	T        byte // 's' string, 'l' list, 'S' set, 'z' zset, 'h' hash, 'x' stream, 'm' module/opaque
	Str      []byte
	List     [][]byte
	Set      map[string]struct{}
	ZSet     map[string]float64
	Hash     map[string][]byte
	HOrder   []string // insertion order of hash fields (HGETALL order)
	Stream   *Stream
	ExpireAt int64 // absolute ms, 0 = no expiry
	Idle     int64
	Freq     int64
	Opaque   string // module/opaque description
}

type StreamID struct{ Ms, Seq uint64 }

func (id StreamID) String() string { return fmt.Sprintf("%d-%d", id.Ms, id.Seq) }
func (id StreamID) Less(o StreamID) bool {
	return id.Ms < o.Ms || (id.Ms == o.Ms && id.Seq < o.Seq)
}

type StreamEntry struct {
	ID     StreamID
	Fields [][]byte // f1 v1 f2 v2 ...
}

type PEL struct {
	ID       StreamID
	Consumer string
	Time     int64
	Count    int64
}

type Group struct {
	Name      string
	LastID    StreamID
	EntriesRd int64
	Consumers []string
	PEL       []PEL
}

type Stream struct {
	Entries   []StreamEntry
	LastID    StreamID
	MaxDelID  StreamID
	Added     int64
	FirstID   StreamID
	Groups    []*Group
	HasXSetID bool
}

func TypeName(t byte) string {
	switch t {
	case 's':
		return "string"
	case 'l':
		return "list"
	case 'S':
		return "set"
	case 'z':
		return "zset"
	case 'h':
		return "hash"
	case 'x':
		return "stream"
	case 'm':
		return "module"
	}
	return "none"
}

func fmtScore(f float64) string {
	if math.IsInf(f, 1) {
		return "inf"
	}
	if math.IsInf(f, -1) {
		return "-inf"
	}
	return strconv.FormatFloat(f, 'g', 17, 64)
}

// Canon renders the content (not the expiry) canonically.
func (v *Value) Canon() string {
	var sb strings.Builder
	sb.WriteString(TypeName(v.T))
	sb.WriteByte(':')
	switch v.T {
	case 's':
		fmt.Fprintf(&sb, "%q", v.Str)
	case 'l':
		for _, e := range v.List {
			fmt.Fprintf(&sb, "%q,", e)
		}
	case 'S':
		ks := make([]string, 0, len(v.Set))
		for k := range v.Set {
			ks = append(ks, k)
		}
		sort.Strings(ks)
		for _, k := range ks {
			fmt.Fprintf(&sb, "%q,", k)
		}
	case 'z':
		ks := make([]string, 0, len(v.ZSet))
		for k := range v.ZSet {
			ks = append(ks, k)
		}
		sort.Strings(ks)
		for _, k := range ks {
			fmt.Fprintf(&sb, "%q=%s,", k, fmtScore(v.ZSet[k]))
		}
	case 'h':
		ks := make([]string, 0, len(v.Hash))
		for k := range v.Hash {
			ks = append(ks, k)
		}
		sort.Strings(ks)
		for _, k := range ks {
			fmt.Fprintf(&sb, "%q=%q,", k, v.Hash[k])
		}
	case 'x':
		st := v.Stream
		fmt.Fprintf(&sb, "last=%s;", st.LastID)
		for _, e := range st.Entries {
			fmt.Fprintf(&sb, "%s[", e.ID)
			for _, f := range e.Fields {
				fmt.Fprintf(&sb, "%q,", f)
			}
			sb.WriteString("]")
		}
		gs := append([]*Group(nil), st.Groups...)
		sort.Slice(gs, func(i, j int) bool { return gs[i].Name < gs[j].Name })
		for _, g := range gs {
			fmt.Fprintf(&sb, ";g%q@%s", g.Name, g.LastID)
			cs := append([]string(nil), g.Consumers...)
			sort.Strings(cs)
			fmt.Fprintf(&sb, "c%q", cs)
			pel := append([]PEL(nil), g.PEL...)
			sort.Slice(pel, func(i, j int) bool { return pel[i].ID.Less(pel[j].ID) })
			for _, p := range pel {
				fmt.Fprintf(&sb, "p%s/%q/%d/%d", p.ID, p.Consumer, p.Time, p.Count)
			}
		}
	case 'm':
		sb.WriteString(v.Opaque)
	}
	return sb.String()
}

// Clone deep-copies a value.
func (v *Value) Clone() *Value {
	if v == nil {
		return nil
	}
	c := &Value{T: v.T, ExpireAt: v.ExpireAt, Idle: v.Idle, Freq: v.Freq, Opaque: v.Opaque}
	c.Str = append([]byte(nil), v.Str...)
	for _, e := range v.List {
		c.List = append(c.List, append([]byte(nil), e...))
	}
	if v.Set != nil {
		c.Set = map[string]struct{}{}
		for k := range v.Set {
			c.Set[k] = struct{}{}
		}
	}
	if v.ZSet != nil {
		c.ZSet = map[string]float64{}
		for k, s := range v.ZSet {
			c.ZSet[k] = s
		}
	}
	if v.Hash != nil {
		c.Hash = map[string][]byte{}
		for k, s := range v.Hash {
			c.Hash[k] = append([]byte(nil), s...)
		}
		c.HOrder = append([]string(nil), v.HOrder...)
	}
	if v.Stream != nil {
		st := *v.Stream
		st.Entries = nil
		for _, e := range v.Stream.Entries {
			ne := StreamEntry{ID: e.ID}
			for _, f := range e.Fields {
				ne.Fields = append(ne.Fields, append([]byte(nil), f...))
			}
			st.Entries = append(st.Entries, ne)
		}
		st.Groups = nil
		for _, g := range v.Stream.Groups {
			ng := *g
			ng.Consumers = append([]string(nil), g.Consumers...)
			ng.PEL = append([]PEL(nil), g.PEL...)
			st.Groups = append(st.Groups, &ng)
		}
		c.Stream = &st
	}
	return c
}

// Empty reports whether an aggregate value has no elements (Redis deletes such keys).
func (v *Value) Empty() bool {
	switch v.T {
	case 'l':
		return len(v.List) == 0
	case 'S':
		return len(v.Set) == 0
	case 'z':
		return len(v.ZSet) == 0
	case 'h':
		return len(v.Hash) == 0
	}
	return false
}

package redisd

import (
	"bytes"
	"fmt"
	"math"
	"sort"
	"strconv"
	"strings"
)

const wrongType = "WRONGTYPE Operation against a key holding the wrong kind of value"

func (s *Server) lookup(db int, key string) *Value {
	v := s.dbs[db][key]
	if v == nil {
		return nil
	}
	if v.ExpireAt != 0 && s.Now() >= v.ExpireAt {
		delete(s.dbs[db], key)
		if s.inCommand && s.PropagateExpire && s.repl != nil {
			s.propExpire(db, key)
		}
		return nil
	}
	return v
}

// Get returns a copy of a key's value (nil if absent/expired). For harness oracles.
func (s *Server) Get(db int, key string) *Value {
	s.mu.Lock()
	defer s.mu.Unlock()
	return s.lookup(db, key).Clone()
}

// Put stores a value directly (harness pre-population).
func (s *Server) Put(db int, key string, v *Value) {
	s.mu.Lock()
	defer s.mu.Unlock()
	s.dbs[db][key] = v.Clone()
}

// Del removes a key directly (harness / cluster double).
func (s *Server) Del(db int, key string) {
	s.mu.Lock()
	defer s.mu.Unlock()
	delete(s.dbs[db], key)
}

// HasLocked reports whether a live key exists; the caller holds the server lock
// (used from Route hooks).
func (s *Server) HasLocked(db int, key string) bool { return s.lookup(db, key) != nil }

// Keys lists the live keys of a db, sorted.
func (s *Server) Keys(db int) []string {
	s.mu.Lock()
	defer s.mu.Unlock()
	var ks []string
	for k := range s.dbs[db] {
		if s.lookup(db, k) != nil {
			ks = append(ks, k)
		}
	}
	sort.Strings(ks)
	return ks
}

// Dump renders the whole keyspace canonically (including absolute expiries).
func (s *Server) Dump() string {
	s.mu.Lock()
	defer s.mu.Unlock()
	var sb strings.Builder
	for db := range s.dbs {
		var ks []string
		for k := range s.dbs[db] {
			if s.lookup(db, k) != nil {
				ks = append(ks, k)
			}
		}
		sort.Strings(ks)
		for _, k := range ks {
			v := s.dbs[db][k]
			fmt.Fprintf(&sb, "db%d %q exp=%d %s\n", db, k, v.ExpireAt, v.Canon())
		}
	}
	return sb.String()
}

// RegisterRestorable tells RESTORE which logical value a serialized body stands for.
func (s *Server) RegisterRestorable(body []byte, v *Value) {
	s.mu.Lock()
	s.restorable[string(body)] = v.Clone()
	s.mu.Unlock()
}

func lower(b []byte) string { return strings.ToLower(string(b)) }

func parseInt(b []byte) (int64, bool) {
	n, err := strconv.ParseInt(string(b), 10, 64)
	return n, err == nil
}

func parseScore(b []byte) (float64, bool) {
	s := strings.ToLower(string(b))
	switch s {
	case "inf", "+inf":
		return math.Inf(1), true
	case "-inf":
		return math.Inf(-1), true
	}
	f, err := strconv.ParseFloat(s, 64)
	if err != nil || math.IsNaN(f) {
		return 0, false
	}
	return f, true
}

func argErr(name string) []byte {
	return rErr("ERR wrong number of arguments for '" + name + "' command")
}

// command executes one non-transactional command.
func (s *Server) command(cs *ConnState, argv [][]byte) []byte {
	name := lower(argv[0])
	a := argv[1:]
	db := cs.DB
	switch name {
	case "ping":
		if len(a) == 1 {
			return rBulk(a[0])
		}
		return rStatus("PONG")
	case "auth":
		return rOK()
	case "echo":
		if len(a) != 1 {
			return argErr(name)
		}
		return rBulk(a[0])
	case "select":
		if len(a) != 1 {
			return argErr(name)
		}
		n, ok := parseInt(a[0])
		if !ok {
			return rErr("ERR invalid DB index")
		}
		if n < 0 || n >= int64(len(s.dbs)) {
			return rErr("ERR DB index is out of range")
		}
		if s.ClusterMode && n != 0 {
			return rErr("ERR SELECT is not allowed in cluster mode")
		}
		cs.DB = int(n)
		return rOK()
	case "asking":
		cs.Asking = true
		return rOK()
	case "readonly", "readwrite":
		return rOK()
	case "client":
		return rOK()
	case "info":
		return rBulkS(s.info(a))
	case "dbsize":
		n := 0
		for k := range s.dbs[db] {
			if s.lookup(db, k) != nil {
				n++
			}
		}
		return rInt(int64(n))
	case "flushall":
		for i := range s.dbs {
			s.dbs[i] = map[string]*Value{}
		}
		s.prop(db, argv)
		return rOK()
	case "flushdb":
		s.dbs[db] = map[string]*Value{}
		s.prop(db, argv)
		return rOK()
	case "exists":
		if len(a) < 1 {
			return argErr(name)
		}
		n := 0
		for _, k := range a {
			if s.lookup(db, string(k)) != nil {
				n++
			}
		}
		return rInt(int64(n))
	case "type":
		if len(a) != 1 {
			return argErr(name)
		}
		v := s.lookup(db, string(a[0]))
		if v == nil {
			return rStatus("none")
		}
		return rStatus(TypeName(v.T))
	case "del", "unlink":
		if len(a) < 1 {
			return argErr(name)
		}
		n := 0
		for _, k := range a {
			if s.lookup(db, string(k)) != nil {
				delete(s.dbs[db], string(k))
				n++
			}
		}
		if n > 0 {
			s.prop(db, argv)
		}
		return rInt(int64(n))
	case "keys":
		if len(a) != 1 {
			return argErr(name)
		}
		var ks []string
		for k := range s.dbs[db] {
			if s.lookup(db, k) != nil && globMatch(string(a[0]), k) {
				ks = append(ks, k)
			}
		}
		sort.Strings(ks)
		out := rArrayHdr(len(ks))
		for _, k := range ks {
			out = append(out, rBulkS(k)...)
		}
		return out
	case "scan":
		// one-shot scan: cursor 0 returns everything matching
		pat := "*"
		for i := 1; i+1 < len(a); i += 2 {
			if lower(a[i]) == "match" {
				pat = string(a[i+1])
			}
		}
		var ks []string
		for k := range s.dbs[db] {
			if s.lookup(db, k) != nil && globMatch(pat, k) {
				ks = append(ks, k)
			}
		}
		sort.Strings(ks)
		inner := rArrayHdr(len(ks))
		for _, k := range ks {
			inner = append(inner, rBulkS(k)...)
		}
		return append(append(rArrayHdr(2), rBulkS("0")...), inner...)
	case "set":
		return s.cmdSet(db, argv)
	case "setnx":
		if len(a) != 2 {
			return argErr(name)
		}
		if s.lookup(db, string(a[0])) != nil {
			return rInt(0)
		}
		s.dbs[db][string(a[0])] = &Value{T: 's', Str: a[1]}
		s.prop(db, argv)
		return rInt(1)
	case "setex", "psetex":
		if len(a) != 3 {
			return argErr(name)
		}
		n, ok := parseInt(a[1])
		if !ok || n <= 0 {
			return rErr("ERR invalid expire time in '" + name + "' command")
		}
		if name == "setex" {
			n *= 1000
		}
		at := s.Now() + n
		s.dbs[db][string(a[0])] = &Value{T: 's', Str: a[2], ExpireAt: at}
		s.prop(db, bs("SET", string(a[0]), string(a[2]), "PXAT", strconv.FormatInt(at, 10)))
		return rOK()
	case "get":
		if len(a) != 1 {
			return argErr(name)
		}
		v := s.lookup(db, string(a[0]))
		if v == nil {
			return rNil()
		}
		if v.T != 's' {
			return rErr(wrongType)
		}
		return rBulk(v.Str)
	case "append":
		if len(a) != 2 {
			return argErr(name)
		}
		v := s.lookup(db, string(a[0]))
		if v == nil {
			v = &Value{T: 's'}
			s.dbs[db][string(a[0])] = v
		}
		if v.T != 's' {
			return rErr(wrongType)
		}
		v.Str = append(append([]byte(nil), v.Str...), a[1]...)
		s.prop(db, argv)
		return rInt(int64(len(v.Str)))
	case "incr", "decr", "incrby", "decrby":
		delta := int64(1)
		if name == "incrby" || name == "decrby" {
			if len(a) != 2 {
				return argErr(name)
			}
			d, ok := parseInt(a[1])
			if !ok {
				return rErr("ERR value is not an integer or out of range")
			}
			delta = d
		} else if len(a) != 1 {
			return argErr(name)
		}
		if name == "decr" || name == "decrby" {
			delta = -delta
		}
		v := s.lookup(db, string(a[0]))
		cur := int64(0)
		if v != nil {
			if v.T != 's' {
				return rErr(wrongType)
			}
			c, ok := parseInt(v.Str)
			if !ok {
				return rErr("ERR value is not an integer or out of range")
			}
			cur = c
		} else {
			v = &Value{T: 's'}
			s.dbs[db][string(a[0])] = v
		}
		cur += delta
		v.Str = []byte(strconv.FormatInt(cur, 10))
		s.prop(db, argv)
		return rInt(cur)
	case "mset":
		if len(a) == 0 || len(a)%2 != 0 {
			return argErr(name)
		}
		for i := 0; i < len(a); i += 2 {
			s.dbs[db][string(a[i])] = &Value{T: 's', Str: a[i+1]}
		}
		s.prop(db, argv)
		return rOK()
	case "expire", "pexpire", "expireat", "pexpireat":
		if len(a) < 2 {
			return argErr(name)
		}
		n, ok := parseInt(a[1])
		if !ok {
			return rErr("ERR value is not an integer or out of range")
		}
		v := s.lookup(db, string(a[0]))
		if v == nil {
			return rInt(0)
		}
		var at int64
		switch name {
		case "expire":
			at = s.Now() + n*1000
		case "pexpire":
			at = s.Now() + n
		case "expireat":
			at = n * 1000
		case "pexpireat":
			at = n
		}
		if at <= s.Now() {
			delete(s.dbs[db], string(a[0]))
			s.prop(db, bs("DEL", string(a[0])))
			return rInt(1)
		}
		v.ExpireAt = at
		s.prop(db, bs("PEXPIREAT", string(a[0]), strconv.FormatInt(at, 10)))
		return rInt(1)
	case "persist":
		if len(a) != 1 {
			return argErr(name)
		}
		v := s.lookup(db, string(a[0]))
		if v == nil || v.ExpireAt == 0 {
			return rInt(0)
		}
		v.ExpireAt = 0
		s.prop(db, argv)
		return rInt(1)
	case "ttl", "pttl":
		if len(a) != 1 {
			return argErr(name)
		}
		v := s.lookup(db, string(a[0]))
		if v == nil {
			return rInt(-2)
		}
		if v.ExpireAt == 0 {
			return rInt(-1)
		}
		d := v.ExpireAt - s.Now()
		if name == "ttl" {
			d = (d + 500) / 1000
		}
		return rInt(d)
	case "rename":
		if len(a) != 2 {
			return argErr(name)
		}
		v := s.lookup(db, string(a[0]))
		if v == nil {
			return rErr("ERR no such key")
		}
		delete(s.dbs[db], string(a[0]))
		s.dbs[db][string(a[1])] = v
		s.prop(db, argv)
		return rOK()
	// ---- hashes ----
	case "hset", "hmset":
		if len(a) < 3 || len(a)%2 != 1 {
			return argErr(name)
		}
		v, errRep := s.getOrCreate(db, a[0], 'h')
		if errRep != nil {
			return errRep
		}
		added := 0
		for i := 1; i < len(a); i += 2 {
			f := string(a[i])
			if _, ok := v.Hash[f]; !ok {
				added++
				v.HOrder = append(v.HOrder, f)
			}
			v.Hash[f] = a[i+1]
		}
		s.prop(db, argv)
		if name == "hmset" {
			return rOK()
		}
		return rInt(int64(added))
	case "hsetnx":
		if len(a) != 3 {
			return argErr(name)
		}
		if ex := s.lookup(db, string(a[0])); ex != nil && ex.T != 'h' {
			return rErr(wrongType)
		} else if ex != nil {
			if _, ok := ex.Hash[string(a[1])]; ok {
				return rInt(0)
			}
		}
		v, _ := s.getOrCreate(db, a[0], 'h')
		v.HOrder = append(v.HOrder, string(a[1]))
		v.Hash[string(a[1])] = a[2]
		s.prop(db, argv)
		return rInt(1)
	case "hget":
		if len(a) != 2 {
			return argErr(name)
		}
		v := s.lookup(db, string(a[0]))
		if v == nil {
			return rNil()
		}
		if v.T != 'h' {
			return rErr(wrongType)
		}
		val, ok := v.Hash[string(a[1])]
		if !ok {
			return rNil()
		}
		return rBulk(val)
	case "hmget":
		if len(a) < 2 {
			return argErr(name)
		}
		v := s.lookup(db, string(a[0]))
		if v != nil && v.T != 'h' {
			return rErr(wrongType)
		}
		out := rArrayHdr(len(a) - 1)
		for _, f := range a[1:] {
			if v == nil {
				out = append(out, rNil()...)
				continue
			}
			if val, ok := v.Hash[string(f)]; ok {
				out = append(out, rBulk(val)...)
			} else {
				out = append(out, rNil()...)
			}
		}
		return out
	case "hgetall":
		if len(a) != 1 {
			return argErr(name)
		}
		v := s.lookup(db, string(a[0]))
		if v == nil {
			return rArrayHdr(0)
		}
		if v.T != 'h' {
			return rErr(wrongType)
		}
		out := rArrayHdr(2 * len(v.HOrder))
		for _, f := range v.HOrder {
			out = append(out, rBulkS(f)...)
			out = append(out, rBulk(v.Hash[f])...)
		}
		return out
	case "hlen":
		v := s.lookup(db, string(a[0]))
		if v == nil {
			return rInt(0)
		}
		if v.T != 'h' {
			return rErr(wrongType)
		}
		return rInt(int64(len(v.Hash)))
	case "hexists":
		if len(a) != 2 {
			return argErr(name)
		}
		v := s.lookup(db, string(a[0]))
		if v == nil {
			return rInt(0)
		}
		if v.T != 'h' {
			return rErr(wrongType)
		}
		if _, ok := v.Hash[string(a[1])]; ok {
			return rInt(1)
		}
		return rInt(0)
	case "hdel":
		if len(a) < 2 {
			return argErr(name)
		}
		v := s.lookup(db, string(a[0]))
		if v == nil {
			return rInt(0)
		}
		if v.T != 'h' {
			return rErr(wrongType)
		}
		n := 0
		for _, f := range a[1:] {
			if _, ok := v.Hash[string(f)]; ok {
				delete(v.Hash, string(f))
				for i, o := range v.HOrder {
					if o == string(f) {
						v.HOrder = append(v.HOrder[:i:i], v.HOrder[i+1:]...)
						break
					}
				}
				n++
			}
		}
		if v.Empty() {
			delete(s.dbs[db], string(a[0]))
		}
		if n > 0 {
			s.prop(db, argv)
		}
		return rInt(int64(n))
	case "hincrby":
		if len(a) != 3 {
			return argErr(name)
		}
		d, ok := parseInt(a[2])
		if !ok {
			return rErr("ERR value is not an integer or out of range")
		}
		v, errRep := s.getOrCreate(db, a[0], 'h')
		if errRep != nil {
			return errRep
		}
		cur := int64(0)
		if old, ok := v.Hash[string(a[1])]; ok {
			c, ok2 := parseInt(old)
			if !ok2 {
				return rErr("ERR hash value is not an integer")
			}
			cur = c
		} else {
			v.HOrder = append(v.HOrder, string(a[1]))
		}
		cur += d
		v.Hash[string(a[1])] = []byte(strconv.FormatInt(cur, 10))
		s.prop(db, argv)
		return rInt(cur)
	// ---- lists ----
	case "rpush", "lpush":
		if len(a) < 2 {
			return argErr(name)
		}
		v, errRep := s.getOrCreate(db, a[0], 'l')
		if errRep != nil {
			return errRep
		}
		for _, e := range a[1:] {
			if name == "rpush" {
				v.List = append(v.List, e)
			} else {
				v.List = append([][]byte{e}, v.List...)
			}
		}
		s.prop(db, argv)
		return rInt(int64(len(v.List)))
	case "lrange":
		if len(a) != 3 {
			return argErr(name)
		}
		v := s.lookup(db, string(a[0]))
		if v == nil {
			return rArrayHdr(0)
		}
		if v.T != 'l' {
			return rErr(wrongType)
		}
		st, _ := parseInt(a[1])
		en, _ := parseInt(a[2])
		n := int64(len(v.List))
		if st < 0 {
			st += n
		}
		if en < 0 {
			en += n
		}
		if st < 0 {
			st = 0
		}
		if en >= n {
			en = n - 1
		}
		if st > en {
			return rArrayHdr(0)
		}
		return rBulkArray(v.List[st : en+1])
	case "llen":
		v := s.lookup(db, string(a[0]))
		if v == nil {
			return rInt(0)
		}
		if v.T != 'l' {
			return rErr(wrongType)
		}
		return rInt(int64(len(v.List)))
	case "lpop", "rpop":
		if len(a) != 1 {
			return argErr(name)
		}
		v := s.lookup(db, string(a[0]))
		if v == nil {
			return rNil()
		}
		if v.T != 'l' {
			return rErr(wrongType)
		}
		var e []byte
		if name == "lpop" {
			e = v.List[0]
			v.List = v.List[1:]
		} else {
			e = v.List[len(v.List)-1]
			v.List = v.List[:len(v.List)-1]
		}
		if v.Empty() {
			delete(s.dbs[db], string(a[0]))
		}
		s.prop(db, argv)
		return rBulk(e)
	// ---- sets ----
	case "sadd":
		if len(a) < 2 {
			return argErr(name)
		}
		v, errRep := s.getOrCreate(db, a[0], 'S')
		if errRep != nil {
			return errRep
		}
		n := 0
		for _, m := range a[1:] {
			if _, ok := v.Set[string(m)]; !ok {
				v.Set[string(m)] = struct{}{}
				n++
			}
		}
		if n > 0 {
			s.prop(db, argv)
		}
		return rInt(int64(n))
	case "srem":
		if len(a) < 2 {
			return argErr(name)
		}
		v := s.lookup(db, string(a[0]))
		if v == nil {
			return rInt(0)
		}
		if v.T != 'S' {
			return rErr(wrongType)
		}
		n := 0
		for _, m := range a[1:] {
			if _, ok := v.Set[string(m)]; ok {
				delete(v.Set, string(m))
				n++
			}
		}
		if v.Empty() {
			delete(s.dbs[db], string(a[0]))
		}
		if n > 0 {
			s.prop(db, argv)
		}
		return rInt(int64(n))
	case "smembers":
		v := s.lookup(db, string(a[0]))
		if v == nil {
			return rArrayHdr(0)
		}
		if v.T != 'S' {
			return rErr(wrongType)
		}
		ks := make([]string, 0, len(v.Set))
		for k := range v.Set {
			ks = append(ks, k)
		}
		sort.Strings(ks)
		out := rArrayHdr(len(ks))
		for _, k := range ks {
			out = append(out, rBulkS(k)...)
		}
		return out
	case "scard":
		v := s.lookup(db, string(a[0]))
		if v == nil {
			return rInt(0)
		}
		if v.T != 'S' {
			return rErr(wrongType)
		}
		return rInt(int64(len(v.Set)))
	// ---- sorted sets ----
	case "zadd":
		if len(a) < 3 || len(a)%2 != 1 {
			return argErr(name)
		}
		for i := 1; i < len(a); i += 2 {
			if _, ok := parseScore(a[i]); !ok {
				return rErr("ERR value is not a valid float")
			}
		}
		v, errRep := s.getOrCreate(db, a[0], 'z')
		if errRep != nil {
			return errRep
		}
		n := 0
		for i := 1; i < len(a); i += 2 {
			sc, _ := parseScore(a[i])
			if _, ok := v.ZSet[string(a[i+1])]; !ok {
				n++
			}
			v.ZSet[string(a[i+1])] = sc
		}
		s.prop(db, argv)
		return rInt(int64(n))
	case "zrem":
		if len(a) < 2 {
			return argErr(name)
		}
		v := s.lookup(db, string(a[0]))
		if v == nil {
			return rInt(0)
		}
		if v.T != 'z' {
			return rErr(wrongType)
		}
		n := 0
		for _, m := range a[1:] {
			if _, ok := v.ZSet[string(m)]; ok {
				delete(v.ZSet, string(m))
				n++
			}
		}
		if v.Empty() {
			delete(s.dbs[db], string(a[0]))
		}
		if n > 0 {
			s.prop(db, argv)
		}
		return rInt(int64(n))
	case "zcard":
		v := s.lookup(db, string(a[0]))
		if v == nil {
			return rInt(0)
		}
		if v.T != 'z' {
			return rErr(wrongType)
		}
		return rInt(int64(len(v.ZSet)))
	case "zscore":
		v := s.lookup(db, string(a[0]))
		if v == nil {
			return rNil()
		}
		if v.T != 'z' {
			return rErr(wrongType)
		}
		sc, ok := v.ZSet[string(a[1])]
		if !ok {
			return rNil()
		}
		return rBulkS(fmtScore(sc))
	case "zrange", "zrangebyscore":
		v := s.lookup(db, string(a[0]))
		if v == nil {
			return rArrayHdr(0)
		}
		if v.T != 'z' {
			return rErr(wrongType)
		}
		type ms struct {
			m string
			s float64
		}
		var all []ms
		lo, hi := math.Inf(-1), math.Inf(1)
		if name == "zrangebyscore" && len(a) >= 3 {
			lo, _ = parseScore(a[1])
			hi, _ = parseScore(a[2])
		}
		for m, sc := range v.ZSet {
			if sc >= lo && sc <= hi {
				all = append(all, ms{m, sc})
			}
		}
		sort.Slice(all, func(i, j int) bool {
			if all[i].s != all[j].s {
				return all[i].s < all[j].s
			}
			return all[i].m < all[j].m
		})
		withScores := false
		limit := -1
		for i, x := range a {
			if lower(x) == "withscores" {
				withScores = true
			}
			if lower(x) == "limit" && i+2 < len(a) {
				n, _ := parseInt(a[i+2])
				limit = int(n)
			}
		}
		if limit >= 0 && limit < len(all) {
			all = all[:limit]
		}
		var out []byte
		if withScores {
			out = rArrayHdr(2 * len(all))
		} else {
			out = rArrayHdr(len(all))
		}
		for _, x := range all {
			out = append(out, rBulkS(x.m)...)
			if withScores {
				out = append(out, rBulkS(fmtScore(x.s))...)
			}
		}
		return out
	case "restore", "restore-asking":
		return s.cmdRestore(db, argv)
	case "xadd", "xsetid", "xgroup", "xclaim", "xlen", "xdel":
		return s.cmdStream(db, name, argv)
	case "script":
		if len(a) >= 2 && lower(a[0]) == "load" {
			sha := scriptSHA(a[1])
			s.scripts[sha] = string(a[1])
			return rBulkS(sha)
		}
		if len(a) >= 1 && lower(a[0]) == "flush" {
			s.scripts = map[string]string{}
		}
		return rOK()
	case "eval":
		// a server keeps every script it has run in its script cache (EVALSHA finds it afterwards)
		if len(a) >= 1 {
			s.scripts[scriptSHA(a[0])] = string(a[0])
		}
		return s.cmdEval(cs, argv)
	case "evalsha":
		// runs a cached script; an unknown digest executes nothing: NOSCRIPT
		if len(a) < 2 {
			return argErr("evalsha")
		}
		body, ok := s.scripts[lower(a[0])]
		if !ok {
			return rErr("NOSCRIPT No matching script. Please use EVAL.")
		}
		av := append([][]byte{[]byte("eval"), []byte(body)}, a[1:]...)
		return s.cmdEval(cs, av)
	case "function":
		s.prop(db, argv)
		return rOK()
	case "command":
		if len(a) >= 1 && lower(a[0]) == "getkeys" {
			ks, ok := CommandKeys(a[1:])
			if !ok {
				return rErr("ERR Invalid command specified")
			}
			if len(ks) == 0 {
				return rErr("ERR The command has no key arguments")
			}
			return rBulkArray(ks)
		}
		return rArrayHdr(0)
	case "publish":
		return rInt(0)
	case "wait":
		return rInt(0)
	case "config":
		return rArrayHdr(0)
	case "cluster":
		return rErr("ERR This instance has cluster support disabled")
	}
	// unknown command: opaque write
	s.prop(db, argv)
	return rOK()
}

func bs(ss ...string) [][]byte {
	out := make([][]byte, len(ss))
	for i, x := range ss {
		out[i] = []byte(x)
	}
	return out
}

func (s *Server) getOrCreate(db int, key []byte, t byte) (*Value, []byte) {
	v := s.lookup(db, string(key))
	if v != nil {
		if v.T != t {
			return nil, rErr(wrongType)
		}
		return v, nil
	}
	v = &Value{T: t}
	switch t {
	case 'S':
		v.Set = map[string]struct{}{}
	case 'z':
		v.ZSet = map[string]float64{}
	case 'h':
		v.Hash = map[string][]byte{}
	case 'x':
		v.Stream = &Stream{}
	}
	s.dbs[db][string(key)] = v
	return v, nil
}

func (s *Server) cmdSet(db int, argv [][]byte) []byte {
	a := argv[1:]
	if len(a) < 2 {
		return argErr("set")
	}
	var at int64
	nx, xx, keepttl := false, false, false
	for i := 2; i < len(a); i++ {
		switch lower(a[i]) {
		case "nx":
			nx = true
		case "xx":
			xx = true
		case "keepttl":
			keepttl = true
		case "get":
		case "ex", "px", "exat", "pxat":
			if i+1 >= len(a) {
				return rErr("ERR syntax error")
			}
			n, ok := parseInt(a[i+1])
			if !ok || n <= 0 {
				return rErr("ERR invalid expire time in 'set' command")
			}
			switch lower(a[i]) {
			case "ex":
				at = s.Now() + n*1000
			case "px":
				at = s.Now() + n
			case "exat":
				at = n * 1000
			case "pxat":
				at = n
			}
			i++
		default:
			return rErr("ERR syntax error")
		}
	}
	old := s.lookup(db, string(a[0]))
	if (nx && old != nil) || (xx && old == nil) {
		return rNil()
	}
	v := &Value{T: 's', Str: a[1], ExpireAt: at}
	if keepttl && old != nil {
		v.ExpireAt = old.ExpireAt
	}
	s.dbs[db][string(a[0])] = v
	if at != 0 {
		if at <= s.Now() {
			delete(s.dbs[db], string(a[0]))
			s.prop(db, bs("DEL", string(a[0])))
			return rOK()
		}
		s.prop(db, [][]byte{[]byte("SET"), a[0], a[1], []byte("PXAT"), []byte(strconv.FormatInt(at, 10))})
	} else if keepttl {
		s.prop(db, [][]byte{[]byte("SET"), a[0], a[1], []byte("KEEPTTL")})
	} else {
		s.prop(db, [][]byte{[]byte("SET"), a[0], a[1]})
	}
	return rOK()
}

func (s *Server) info(a [][]byte) string {
	sec := ""
	if len(a) > 0 {
		sec = lower(a[0])
	}
	var sb strings.Builder
	if sec == "" || sec == "server" || sec == "all" {
		fmt.Fprintf(&sb, "# Server\r\nredis_version:%s\r\nredis_mode:%s\r\n", s.Version, map[bool]string{true: "cluster", false: "standalone"}[s.ClusterMode])
	}
	if sec == "" || sec == "replication" || sec == "all" {
		fmt.Fprintf(&sb, "# Replication\r\nrole:%s\r\nconnected_slaves:0\r\nmaster_replid:%s\r\nmaster_replid2:%s\r\nmaster_repl_offset:%d\r\nsecond_repl_offset:%d\r\n",
			s.Role, s.ReplID, s.ReplID2, s.ReplOff, s.ReplOff2)
	}
	if sec == "" || sec == "keyspace" || sec == "all" {
		sb.WriteString("# Keyspace\r\n")
		for db := range s.dbs {
			n, e := 0, 0
			for k := range s.dbs[db] {
				if v := s.lookup(db, k); v != nil {
					n++
					if v.ExpireAt != 0 {
						e++
					}
				}
			}
			if n > 0 {
				fmt.Fprintf(&sb, "db%d:keys=%d,expires=%d,avg_ttl=0\r\n", db, n, e)
			}
		}
	}
	if sec == "cluster" {
		sb.WriteString("# Cluster\r\ncluster_enabled:0\r\n")
	}
	return sb.String()
}

func globMatch(pat, s string) bool {
	// supports '*' and '?' and literal bytes (enough for the tool's KEYS/SCAN use)
	p, n := 0, 0
	starP, starN := -1, 0
	for n < len(s) {
		if p < len(pat) && (pat[p] == '?' || pat[p] == s[n]) && pat[p] != '*' {
			p++
			n++
		} else if p < len(pat) && pat[p] == '*' {
			starP, starN = p, n
			p++
		} else if starP >= 0 {
			starN++
			p, n = starP+1, starN
		} else {
			return false
		}
	}
	for p < len(pat) && pat[p] == '*' {
		p++
	}
	return p == len(pat)
}

// CommandKeys is the double's COMMAND GETKEYS for a small command subset.
func CommandKeys(argv [][]byte) ([][]byte, bool) {
	if len(argv) == 0 {
		return nil, false
	}
	name := lower(argv[0])
	a := argv[1:]
	switch name {
	case "del", "unlink", "exists", "mget", "sunion", "sinter", "sdiff", "pfcount", "watch", "touch":
		return a, true
	case "mset", "msetnx":
		var ks [][]byte
		for i := 0; i < len(a); i += 2 {
			ks = append(ks, a[i])
		}
		return ks, true
	case "rename", "renamenx", "smove", "rpoplpush", "lmove", "copy":
		if len(a) < 2 {
			return nil, false
		}
		return a[:2], true
	case "bitop":
		if len(a) < 2 {
			return nil, false
		}
		return a[1:], true
	case "eval", "evalsha", "fcall":
		if len(a) < 2 {
			return nil, false
		}
		n, ok := parseInt(a[1])
		if !ok || int(n) > len(a)-2 {
			return nil, false
		}
		return a[2 : 2+n], true
	case "xgroup", "xinfo", "object", "memory":
		// container commands: the key follows the subcommand
		if len(a) < 2 {
			return nil, true
		}
		return a[1:2], true
	case "sunionstore", "sinterstore", "sdiffstore", "pfmerge":
		// destination followed by the source keys: every argument is a key
		return a, true
	case "zunionstore", "zinterstore", "zdiffstore":
		// destination numkeys key [key ...] [WEIGHTS ...] [AGGREGATE ...]
		if len(a) < 3 {
			return nil, false
		}
		n, ok := parseInt(a[1])
		if !ok || n < 1 || int(n) > len(a)-2 {
			return nil, false
		}
		return append([][]byte{a[0]}, a[2:2+n]...), true
	case "lmpop", "zmpop":
		// numkeys key [key ...] LEFT|RIGHT|MIN|MAX [COUNT n]
		if len(a) < 2 {
			return nil, false
		}
		n, ok := parseInt(a[0])
		if !ok || n < 1 || int(n) > len(a)-1 {
			return nil, false
		}
		return a[1 : 1+n], true
	case "sort":
		// key [BY p] [LIMIT o c] [GET p ...] [ASC|DESC] [ALPHA] [STORE destination]: the key and the
		// destination; when STORE is repeated the LAST one is the destination (sort.c / sortGetKeys)
		if len(a) < 1 {
			return nil, false
		}
		ks := [][]byte{a[0]}
		var dest []byte
		for i := 1; i < len(a); i++ {
			switch lower(a[i]) {
			case "store":
				if i+1 < len(a) {
					dest = a[i+1]
					i++
				}
			case "by", "get":
				i++
			case "limit":
				i += 2
			}
		}
		if dest != nil {
			ks = append(ks, dest)
		}
		return ks, true
	case "georadius", "georadiusbymember":
		// key ... [STORE key] [STOREDIST key]
		if len(a) < 1 {
			return nil, false
		}
		ks := [][]byte{a[0]}
		for i := 1; i+1 < len(a); i++ {
			if w := lower(a[i]); w == "store" || w == "storedist" {
				ks = append(ks, a[i+1])
				i++
			}
		}
		return ks, true
	case "ping", "multi", "exec", "select", "info", "flushall", "flushdb", "publish", "script", "function", "echo":
		return nil, true
	}
	if len(a) >= 1 {
		return a[:1], true
	}
	return nil, true
}

var _ = bytes.Equal

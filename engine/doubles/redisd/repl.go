package redisd

import "strconv"

// ReplLog is the replication stream a master would propagate for the writes this
// server executed. Rules implemented (from the Redis documentation / source
// comments): only commands that changed something are propagated; relative expiries
// become absolute (SET .. PXAT, PEXPIREAT, RESTORE .. ABSTTL); a transaction is
// wrapped in MULTI/EXEC (Redis >= 7: only if it produced more than one write, and
// the SELECT, if needed, follows the MULTI; Redis < 7: always, SELECT before MULTI);
// SELECT is emitted when the database differs from the last propagated one.
type ReplLog struct {
	Buf        []byte
	Cmds       []ReplCmd
	WrapSingle bool // pre-7 behaviour
	lastDB     int
	inTxn      bool
	pending    []ReplCmd
	cur        int
}

type ReplCmd struct {
	DB   int
	Argv [][]byte
	End  int64 // offset in Buf just past this command
	Conn int   // connection whose request caused it
}

// EnableRepl starts recording a replication log.
func (s *Server) EnableRepl(wrapSingle bool) *ReplLog {
	s.mu.Lock()
	defer s.mu.Unlock()
	s.repl = &ReplLog{lastDB: -1, WrapSingle: wrapSingle}
	return s.repl
}

// ReplBytes returns a copy of the stream so far.
func (s *Server) ReplBytes() []byte {
	s.mu.Lock()
	defer s.mu.Unlock()
	if s.repl == nil {
		return nil
	}
	return append([]byte(nil), s.repl.Buf...)
}

// ReplCmds returns the propagated commands so far.
func (s *Server) ReplCmds() []ReplCmd {
	s.mu.Lock()
	defer s.mu.Unlock()
	if s.repl == nil {
		return nil
	}
	return append([]ReplCmd(nil), s.repl.Cmds...)
}

func (s *Server) prop(db int, argv [][]byte) {
	if s.repl == nil {
		return
	}
	cp := make([][]byte, len(argv))
	for i, a := range argv {
		cp[i] = append([]byte(nil), a...)
	}
	if s.repl.inTxn {
		s.repl.pending = append(s.repl.pending, ReplCmd{DB: db, Argv: cp, Conn: s.curConn})
		return
	}
	s.repl.cur = s.curConn
	s.repl.emit(db, cp)
}

func (l *ReplLog) raw(db int, argv [][]byte) {
	l.Buf = append(l.Buf, EncodeCommand(argv...)...)
	l.Cmds = append(l.Cmds, ReplCmd{DB: db, Argv: argv, End: int64(len(l.Buf)), Conn: l.cur})
}

func (l *ReplLog) selectIfNeeded(db int) {
	if db != l.lastDB {
		l.raw(db, bs("SELECT", strconv.Itoa(db)))
		l.lastDB = db
	}
}

func (l *ReplLog) emit(db int, argv [][]byte) {
	l.selectIfNeeded(db)
	l.raw(db, argv)
}

func (l *ReplLog) beginTxn() { l.inTxn = true; l.pending = nil }

func (l *ReplLog) endTxn(s *Server) {
	l.inTxn = false
	p := l.pending
	l.pending = nil
	if len(p) == 0 {
		return
	}
	if len(p) > 0 {
		l.cur = p[0].Conn
	}
	if len(p) == 1 && !l.WrapSingle {
		l.emit(p[0].DB, p[0].Argv)
		return
	}
	if l.WrapSingle {
		l.selectIfNeeded(p[0].DB)
	}
	l.raw(l.lastDB, bs("MULTI"))
	for _, c := range p {
		l.emit(c.DB, c.Argv)
	}
	l.raw(l.lastDB, bs("EXEC"))
}

// propExpire propagates the DEL a master emits when a command touches a key whose expiry has
// passed (expireIfNeeded -> propagateDeletion), in front of that command's own effects. Inside a
// transaction the DEL lands inside the MULTI/EXEC block on every version: Redis >= 7 collects
// everything EXEC propagates in one block; Redis 6 emits the MULTI before it calls the first write
// command and feeds the expiry DEL to the stream during that call.
func (s *Server) propExpire(db int, key string) {
	s.prop(db, bs("DEL", key))
}

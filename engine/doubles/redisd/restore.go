package redisd

import (
	"encoding/binary"
	"strconv"
)

// CRC64Jones is a bitwise CRC-64/Jones (poly 0xad93d23594c935a9, reflected,
// init 0, no final xor) - deliberately table-free and independent of the repo.
func CRC64Jones(crc uint64, p []byte) uint64 {
	const polyRev = 0x95AC9329AC4BC9B5
	for _, b := range p {
		crc ^= uint64(b)
		for i := 0; i < 8; i++ {
			if crc&1 != 0 {
				crc = (crc >> 1) ^ polyRev
			} else {
				crc >>= 1
			}
		}
	}
	return crc
}

// MaxRDBVersion is the newest DUMP payload version RESTORE accepts.
var MaxRDBVersion = 12

// RestoreCheck describes one RESTORE request as the double saw it.
type RestoreCheck struct {
	Key      string
	Body     []byte // type byte + serialized value (payload minus the 10-byte footer)
	FooterOK bool
	Known    bool
}

// Restores returns what RESTORE requests carried (for the payload oracle).
func (s *Server) Restores() []RestoreCheck {
	s.mu.Lock()
	defer s.mu.Unlock()
	return append([]RestoreCheck(nil), s.restores...)
}

func (s *Server) cmdRestore(db int, argv [][]byte) []byte {
	a := argv[1:]
	if len(a) < 3 {
		return argErr("restore")
	}
	key := string(a[0])
	ttl, ok := parseInt(a[1])
	if !ok || ttl < 0 {
		return rErr("ERR Invalid TTL value, must be >= 0")
	}
	payload := a[2]
	replace, absttl := false, false
	var idle, freq int64 = -1, -1
	for i := 3; i < len(a); i++ {
		switch lower(a[i]) {
		case "replace":
			replace = true
		case "absttl":
			absttl = true
		case "idletime":
			if i+1 >= len(a) {
				return rErr("ERR syntax error")
			}
			n, ok := parseInt(a[i+1])
			if !ok || n < 0 {
				return rErr("ERR Invalid IDLETIME value, must be >= 0")
			}
			idle = n
			i++
		case "freq":
			if i+1 >= len(a) {
				return rErr("ERR syntax error")
			}
			n, ok := parseInt(a[i+1])
			if !ok || n < 0 || n > 255 {
				return rErr("ERR Invalid FREQ value, must be >= 0 and <= 255")
			}
			freq = n
			i++
		default:
			return rErr("ERR syntax error")
		}
	}
	chk := RestoreCheck{Key: key}
	old := s.lookup(db, key)
	if old != nil && !replace {
		s.restores = append(s.restores, chk)
		return rErr("BUSYKEY Target key name already exists.")
	}
	if len(payload) < 10 {
		s.restores = append(s.restores, chk)
		return rErr("ERR DUMP payload version or checksum are wrong")
	}
	body := payload[:len(payload)-10]
	ver := int(binary.LittleEndian.Uint16(payload[len(payload)-10:]))
	sum := binary.LittleEndian.Uint64(payload[len(payload)-8:])
	chk.Body = append([]byte(nil), body...)
	chk.FooterOK = ver <= MaxRDBVersion && sum == CRC64Jones(0, payload[:len(payload)-8])
	if !chk.FooterOK {
		s.restores = append(s.restores, chk)
		return rErr("ERR DUMP payload version or checksum are wrong")
	}
	v, known := s.restorable[string(body)]
	chk.Known = known
	s.restores = append(s.restores, chk)
	if !known {
		// A well-formed payload the harness never registered: treat as an opaque
		// value so the replay goes on; the oracle flags it through Restores().
		v = &Value{T: 'm', Opaque: "unregistered-payload"}
	}
	nv := v.Clone()
	nv.ExpireAt = 0
	if ttl != 0 {
		if absttl {
			nv.ExpireAt = ttl
		} else {
			nv.ExpireAt = s.Now() + ttl
		}
	}
	if idle >= 0 {
		nv.Idle = idle
	}
	if freq >= 0 {
		nv.Freq = freq
	}
	if old != nil {
		delete(s.dbs[db], key)
	}
	if nv.ExpireAt != 0 && nv.ExpireAt <= s.Now() {
		// already expired: the key is not created (an existing one stays deleted)
		if old != nil {
			s.prop(db, bs("DEL", key))
		}
		return rOK()
	}
	s.dbs[db][key] = nv
	out := [][]byte{[]byte("RESTORE"), a[0], []byte(strconv.FormatInt(nv.ExpireAt, 10)), payload}
	if replace {
		out = append(out, []byte("REPLACE"))
	}
	if nv.ExpireAt != 0 {
		out = append(out, []byte("ABSTTL"))
	}
	s.prop(db, out)
	return rOK()
}

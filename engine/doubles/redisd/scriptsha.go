package redisd

import (
	"crypto/sha1"
	"encoding/hex"
)

// scriptSHA is the digest under which a server caches a script (SCRIPT LOAD, EVAL) and EVALSHA finds it.
func scriptSHA(body []byte) string {
	sum := sha1.Sum(body)
	return hex.EncodeToString(sum[:])
}

// ScriptOfLocked returns the body cached under a digest. For OnRequest / AfterReq callbacks (the
// server lock is held there): harnesses that classify EVAL requests by their script text use it to
// see an EVALSHA of a cached script as the same call.
func (s *Server) ScriptOfLocked(sha string) (string, bool) {
	b, ok := s.scripts[lower([]byte(sha))]
	return b, ok
}

// Package redisd is a standalone-Redis double: a single-threaded state machine
// behind one mutex that speaks RESP over vnet in-memory connections, keeps a request
// log for the replay oracles, and can be told to fail, crash, withhold replies or
// park requests at chosen positions.
package redisd

import (
	"bytes"
	"fmt"
	"sort"
	"strings"
	"sync"
	"time"

	"github.com/mgtv-tech/redis-GunYu/verifshim/vnet"
)

// Req is one request as received on the wire.
type Req struct {
	Seq      int      // 1-based position in the global request sequence
	Conn     int      // connection id
	Argv     [][]byte // command and arguments
	Queued   bool     // received between MULTI and EXEC (queued, not run at once)
	Txn      int      // id of the MULTI block it belongs to (0 = none); MULTI and EXEC carry it too
	Executed bool     // its effect was applied (queued commands: when EXEC ran)
	ExecSeq  int      // order of execution among executed requests (0 = never)
	ExecDB   int      // database selected on the connection when it executed
	Failed   bool     // answered with an error
	Stamp    int64    // global order across the nodes of a cluster double (0 = standalone)
	ExecStamp int64   // global order of execution (queued commands: when EXEC ran)
	Node     int      // filled by clusterd.GlobalLog
	Reply    string   // first bytes of the reply
}

// Name returns the lower-cased command name.
func (r *Req) Name() string {
	if len(r.Argv) == 0 {
		return ""
	}
	return strings.ToLower(string(r.Argv[0]))
}

func (r *Req) String() string {
	var sb strings.Builder
	fmt.Fprintf(&sb, "#%d c%d db%d", r.Seq, r.Conn, r.ExecDB)
	if r.Txn != 0 {
		fmt.Fprintf(&sb, " t%d", r.Txn)
	}
	if !r.Executed {
		sb.WriteString(" !x")
	}
	for _, a := range r.Argv {
		sb.WriteByte(' ')
		if len(a) > 48 {
			fmt.Fprintf(&sb, "%q..(%d)", a[:48], len(a))
		} else {
			fmt.Fprintf(&sb, "%q", a)
		}
	}
	return sb.String()
}

// Plan is the fault plan of a server.
type Plan struct {
	FailAt     map[int]string // request seq -> error text (without leading '-')
	CrashAfter int            // crash once this many requests were processed; <0 = never
	KillAt     int            // >0: once this many requests were processed every connection is dropped, once (the server stays up)
	Hold       bool           // withhold replies until released
	Park       bool           // do not process requests until stepped
	ParkFilter func(argv [][]byte) bool // with Park: only park requests it accepts (and whatever follows them on the same connection)
	OnRequest  func(r *Req)   // called (server lock held) before request r is processed
	AfterReq   func(r *Req)   // called (server lock held) after request r was processed and replied
}

type ConnState struct {
	ID      int
	c       *vnet.Conn
	DB      int
	buf     []byte
	inMulti bool
	dirty   bool
	queued  []*Req
	txn     int
	held    [][]byte
	parked  [][][]byte
	Asking  bool
	closed  bool
	zombie  bool
}

// Server is one Redis node.
type Server struct {
	mu   sync.Mutex
	Name string
	Addr string

	dbs     [16]map[string]*Value
	reqs    []*Req
	execN   int
	txnN    int
	connN   int
	conns   map[int]*ConnState
	crashed bool

	plan Plan

	// Now returns the current time in ms; defaults to time.Now (the bubble clock).
	Now func() int64

	Version  string
	ReplID   string
	ReplID2  string
	ReplOff  int64
	ReplOff2 int64
	Role     string

	restorable map[string]*Value

	// Route, when set, is consulted for every non-administrative command both when
	// it is queued and when it executes; a non-nil result is sent instead of running
	// the command (cluster redirections). keys are resolved by Keys.
	Route func(s *Server, cs *ConnState, argv [][]byte) []byte

	// RouteTxn, when set, validates a whole transaction at EXEC (cluster: all keys of
	// all queued commands must share one slot).
	RouteTxn func(s *Server, cs *ConnState, queued [][][]byte) []byte

	// Extra lets a harness add or override commands. Return nil to fall through.
	Extra func(s *Server, cs *ConnState, argv [][]byte) []byte

	repl *ReplLog

	// Stamp, when set, yields a cluster-wide sequence number for every request.
	Stamp func() int64
	// ClusterMode makes INFO report cluster mode and SELECT of a non-zero db fail.
	ClusterMode bool

	scripts map[string]string

	restores []RestoreCheck
	curConn  int
	// inCommand is true while a client command executes: an expired key it touches is deleted and,
	// like a master does (expireIfNeeded), a DEL for it is propagated in front of the command's own
	// effects. PropagateExpire switches that on (off by default: only C13 models it).
	inCommand       bool
	PropagateExpire bool

	// Killed counts the connection drops caused by Plan.KillAt.
	Killed int

	// MachineryErrors collects problems of the double itself (e.g. unsupported Lua);
	// harnesses turn a non-empty list into exit 2, never into a violation.
	MachineryErrors []string
}

// New creates a server and registers it under addr.
func New(addr string) *Server {
	s := &Server{Name: addr, Addr: addr, conns: map[int]*ConnState{}, Version: "7.2.0", Role: "master",
		ReplID: "0000000000000000000000000000000000000000", ReplID2: "0000000000000000000000000000000000000000", ReplOff2: -1,
		restorable: map[string]*Value{}, scripts: map[string]string{}}
	for i := range s.dbs {
		s.dbs[i] = map[string]*Value{}
	}
	s.plan.CrashAfter = -1
	s.Now = func() int64 { return time.Now().UnixMilli() }
	vnet.Register(addr, s)
	return s
}

// Lock/Unlock expose the server mutex to harness code that inspects state.
func (s *Server) Lock()   { s.mu.Lock() }
func (s *Server) Unlock() { s.mu.Unlock() }

// Accept implements vnet.Server.
func (s *Server) Accept(c *vnet.Conn) (vnet.Handler, error) {
	s.mu.Lock()
	defer s.mu.Unlock()
	if s.crashed {
		return nil, fmt.Errorf("connection refused")
	}
	s.connN++
	cs := &ConnState{ID: s.connN, c: c}
	s.conns[cs.ID] = cs
	c.User = cs
	return (*connHandler)(s), nil
}

type connHandler Server

func (h *connHandler) OnData(c *vnet.Conn, p []byte) {
	s := (*Server)(h)
	s.mu.Lock()
	defer s.mu.Unlock()
	cs := c.User.(*ConnState)
	if s.crashed || cs.closed {
		return
	}
	cs.buf = append(cs.buf, p...)
	for {
		argv, n, ok, bad := parseCommand(cs.buf)
		if bad {
			cs.buf = nil
			s.push(cs, rErr("ERR Protocol error"))
			c.Kill(false)
			return
		}
		if !ok {
			return
		}
		cs.buf = cs.buf[n:]
		if len(argv) == 0 {
			continue
		}
		if s.plan.Park && (len(cs.parked) > 0 || s.plan.ParkFilter == nil || s.plan.ParkFilter(argv)) {
			cs.parked = append(cs.parked, argv)
			continue
		}
		s.process(cs, argv)
		if s.crashed || cs.closed {
			return
		}
	}
}

func (h *connHandler) OnClose(c *vnet.Conn) {
	s := (*Server)(h)
	s.mu.Lock()
	defer s.mu.Unlock()
	cs := c.User.(*ConnState)
	if len(cs.parked) > 0 && !s.crashed {
		// the client closed, but what it had already written is in the server's receive
		// buffer: a real server still processes it. Keep the connection as a zombie until its
		// parked requests were stepped (replies go nowhere).
		cs.zombie = true
		return
	}
	cs.closed = true
	cs.inMulti = false
	cs.queued = nil
	cs.parked = nil
	delete(s.conns, cs.ID)
}

func (s *Server) reapZombie(cs *ConnState) {
	if cs.zombie && len(cs.parked) == 0 {
		cs.closed = true
		cs.inMulti = false
		cs.queued = nil
		delete(s.conns, cs.ID)
	}
}

func (s *Server) push(cs *ConnState, b []byte) {
	if s.plan.Hold {
		cs.held = append(cs.held, b)
		return
	}
	cs.c.Push(b)
}

// SetPlan replaces the fault plan (call before traffic starts, or under Lock).
func (s *Server) SetPlan(p Plan) {
	s.mu.Lock()
	s.plan = p
	s.mu.Unlock()
}

// PlanRef returns the live plan for in-place edits; callers hold no lock and must
// only use it while the system is quiescent.
func (s *Server) PlanRef() *Plan { return &s.plan }

func (s *Server) crashLocked() {
	s.crashed = true
	for _, cs := range s.conns {
		cs.inMulti = false
		cs.queued = nil
		cs.parked = nil
		cs.held = nil
		cs.closed = true
		cs.c.Kill(true)
	}
	s.conns = map[int]*ConnState{}
}

// CrashLocked is Crash for callers that already hold the server lock (hooks).
func (s *Server) CrashLocked() { s.crashLocked() }

// Crash kills every connection now; queued-but-unexecuted transactions are dropped.
func (s *Server) Crash() {
	s.mu.Lock()
	s.crashLocked()
	s.mu.Unlock()
}

// Crashed reports whether the crash point was reached.
func (s *Server) Crashed() bool {
	s.mu.Lock()
	defer s.mu.Unlock()
	return s.crashed
}

// Revive lets the server accept connections again (data is kept).
func (s *Server) Revive() {
	s.mu.Lock()
	s.crashed = false
	s.plan.CrashAfter = -1
	s.mu.Unlock()
}

// DropParked discards every parked (received but unprocessed) request: the requests were
// lost with their connections before the server read them.
func (s *Server) DropParked() {
	s.mu.Lock()
	for _, cs := range s.conns {
		cs.parked = nil
		s.reapZombie(cs)
	}
	s.mu.Unlock()
}

// ExecParkedThenKill: the server processes everything it has received (parked requests, ascending
// connection id), then every connection dies before a single reply has left: the requests took
// effect, their replies are lost. The server stays up.
func (s *Server) ExecParkedThenKill() {
	s.mu.Lock()
	defer s.mu.Unlock()
	hold := s.plan.Hold
	s.plan.Hold = true
	ids := make([]int, 0, len(s.conns))
	for id := range s.conns {
		ids = append(ids, id)
	}
	sort.Ints(ids)
	for _, id := range ids {
		cs := s.conns[id]
		for len(cs.parked) > 0 && !s.crashed {
			argv := cs.parked[0]
			cs.parked = cs.parked[1:]
			s.process(cs, argv)
		}
		cs.held = nil
	}
	s.plan.Hold = hold
	s.killConnsLocked()
}

// KillConns drops all current connections without marking the server crashed.
func (s *Server) KillConns() {
	s.mu.Lock()
	s.killConnsLocked()
	s.mu.Unlock()
}

func (s *Server) killConnsLocked() {
	for _, cs := range s.conns {
		cs.inMulti = false
		cs.queued = nil
		cs.closed = true
		cs.c.Kill(true)
	}
	s.conns = map[int]*ConnState{}
}

// NoEffect reports, for every request after the first `from`, whether processing it left the
// stored data untouched whatever follows (a MULTI, or a command queued inside a MULTI): a
// server that dies right after such a request holds the same data as one that dies before it.
func (s *Server) NoEffect(from int) []bool {
	s.mu.Lock()
	defer s.mu.Unlock()
	if from > len(s.reqs) {
		from = len(s.reqs)
	}
	out := make([]bool, 0, len(s.reqs)-from)
	for _, r := range s.reqs[from:] {
		out = append(out, r.Queued || (r.Name() == "multi" && !r.Failed))
	}
	return out
}

// Log returns a snapshot of the request log.
func (s *Server) Log() []*Req {
	s.mu.Lock()
	defer s.mu.Unlock()
	out := make([]*Req, len(s.reqs))
	for i, r := range s.reqs {
		cp := *r
		out[i] = &cp
	}
	return out
}

// ExecLog returns the executed requests in execution order.
func (s *Server) ExecLog() []*Req {
	l := s.Log()
	var out []*Req
	for _, r := range l {
		if r.Executed {
			out = append(out, r)
		}
	}
	sort.SliceStable(out, func(i, j int) bool { return out[i].ExecSeq < out[j].ExecSeq })
	return out
}

// NumReqs is the number of requests processed so far.
func (s *Server) NumReqs() int {
	s.mu.Lock()
	defer s.mu.Unlock()
	return len(s.reqs)
}

// ---- withheld replies / parked requests ----

// HeldConns lists connection ids that have withheld replies, ascending.
func (s *Server) HeldConns() []int {
	s.mu.Lock()
	defer s.mu.Unlock()
	var ids []int
	for id, cs := range s.conns {
		if len(cs.held) > 0 {
			ids = append(ids, id)
		}
	}
	sort.Ints(ids)
	return ids
}

// Release delivers up to n withheld replies of one connection (n<=0: all).
func (s *Server) Release(conn int, n int) int {
	s.mu.Lock()
	defer s.mu.Unlock()
	cs := s.conns[conn]
	if cs == nil {
		return 0
	}
	k := 0
	for len(cs.held) > 0 && (n <= 0 || k < n) {
		cs.c.Push(cs.held[0])
		cs.held = cs.held[1:]
		k++
	}
	return k
}

// ReleaseAll delivers every withheld reply and stops withholding.
func (s *Server) ReleaseAll() {
	s.mu.Lock()
	defer s.mu.Unlock()
	s.plan.Hold = false
	ids := make([]int, 0, len(s.conns))
	for id := range s.conns {
		ids = append(ids, id)
	}
	sort.Ints(ids)
	for _, id := range ids {
		cs := s.conns[id]
		for _, b := range cs.held {
			cs.c.Push(b)
		}
		cs.held = nil
	}
}

// ParkedConns lists connection ids with parked requests, ascending.
func (s *Server) ParkedConns() []int {
	s.mu.Lock()
	defer s.mu.Unlock()
	var ids []int
	for id, cs := range s.conns {
		if len(cs.parked) > 0 {
			ids = append(ids, id)
		}
	}
	sort.Ints(ids)
	return ids
}

// PeekParked returns the next parked request of a connection.
func (s *Server) PeekParked(conn int) [][]byte {
	s.mu.Lock()
	defer s.mu.Unlock()
	cs := s.conns[conn]
	if cs == nil || len(cs.parked) == 0 {
		return nil
	}
	return cs.parked[0]
}

// Step processes n parked requests of one connection (n<=0: all).
func (s *Server) Step(conn int, n int) int {
	s.mu.Lock()
	defer s.mu.Unlock()
	cs := s.conns[conn]
	if cs == nil {
		return 0
	}
	k := 0
	for len(cs.parked) > 0 && (n <= 0 || k < n) && !s.crashed {
		argv := cs.parked[0]
		cs.parked = cs.parked[1:]
		s.process(cs, argv)
		k++
	}
	s.reapZombie(cs)
	return k
}

// Unpark processes everything parked (ascending connection id) and stops parking.
func (s *Server) Unpark() {
	s.mu.Lock()
	defer s.mu.Unlock()
	s.plan.Park = false
	ids := make([]int, 0, len(s.conns))
	for id := range s.conns {
		ids = append(ids, id)
	}
	sort.Ints(ids)
	for _, id := range ids {
		cs := s.conns[id]
		for len(cs.parked) > 0 && !s.crashed {
			argv := cs.parked[0]
			cs.parked = cs.parked[1:]
			s.process(cs, argv)
		}
		s.reapZombie(cs)
	}
}

// ---- request processing ----

func summarize(b []byte) string {
	if len(b) > 80 {
		b = b[:80]
	}
	return string(bytes.TrimRight(b, "\r\n"))
}

func (s *Server) process(cs *ConnState, argv [][]byte) {
	if s.plan.CrashAfter >= 0 && len(s.reqs) >= s.plan.CrashAfter {
		s.crashLocked()
		return
	}
	if s.plan.KillAt > 0 && len(s.reqs) >= s.plan.KillAt {
		s.plan.KillAt = 0
		s.Killed++
		s.killConnsLocked()
		return
	}
	r := &Req{Seq: len(s.reqs) + 1, Conn: cs.ID, Argv: argv, ExecDB: cs.DB}
	if s.Stamp != nil {
		r.Stamp = s.Stamp()
	}
	s.reqs = append(s.reqs, r)
	if s.plan.OnRequest != nil {
		s.plan.OnRequest(r)
		if s.crashed {
			return
		}
	}
	var reply []byte
	if txt, ok := s.plan.FailAt[r.Seq]; ok {
		r.Failed = true
		if cs.inMulti {
			name := r.Name()
			if name == "exec" {
				// a failing EXEC discards the transaction
				cs.inMulti = false
				cs.queued = nil
				cs.dirty = false
				r.Txn = cs.txn
			} else {
				cs.dirty = true
				r.Queued = true
				r.Txn = cs.txn
			}
		}
		reply = rErr(txt)
	} else {
		reply = s.dispatch(cs, r)
	}
	r.Reply = summarize(reply)
	if len(reply) > 0 && reply[0] == '-' {
		r.Failed = true
	}
	// ASKING is one-shot, except that it stays in force for a whole MULTI..EXEC
	if r.Name() != "asking" && !cs.inMulti {
		cs.Asking = false
	}
	s.push(cs, reply)
	if s.plan.AfterReq != nil {
		s.plan.AfterReq(r)
	}
	if s.plan.CrashAfter >= 0 && len(s.reqs) >= s.plan.CrashAfter {
		s.crashLocked()
	}
	if s.plan.KillAt > 0 && len(s.reqs) >= s.plan.KillAt && !s.crashed {
		s.plan.KillAt = 0
		s.Killed++
		s.killConnsLocked()
	}
}

func (s *Server) dispatch(cs *ConnState, r *Req) []byte {
	name := r.Name()
	switch name {
	case "multi":
		if cs.inMulti {
			return rErr("ERR MULTI calls can not be nested")
		}
		s.txnN++
		cs.inMulti, cs.dirty, cs.txn, cs.queued = true, false, s.txnN, nil
		r.Txn = cs.txn
		s.markExecuted(cs, r)
		return rOK()
	case "exec":
		if !cs.inMulti {
			return rErr("ERR EXEC without MULTI")
		}
		r.Txn = cs.txn
		q := cs.queued
		dirty := cs.dirty
		cs.inMulti, cs.queued, cs.dirty = false, nil, false
		if dirty {
			return rErr("EXECABORT Transaction discarded because of previous errors.")
		}
		if s.Route != nil {
			// cluster: EXEC re-validates the slot of every queued command; a redirection
			// aborts the whole transaction (nothing of it runs)
			for _, qr := range q {
				if rep := s.Route(s, cs, qr.Argv); rep != nil {
					return rep
				}
			}
			if s.RouteTxn != nil {
				argvs := make([][][]byte, len(q))
				for i, qr := range q {
					argvs[i] = qr.Argv
				}
				if rep := s.RouteTxn(s, cs, argvs); rep != nil {
					return rep
				}
			}
		}
		out := rArrayHdr(len(q))
		if s.repl != nil {
			s.repl.beginTxn()
		}
		for _, qr := range q {
			rep := s.executeNoRoute(cs, qr)
			qr.Reply = summarize(rep)
			out = append(out, rep...)
		}
		if s.repl != nil {
			s.repl.endTxn(s)
		}
		s.markExecuted(cs, r)
		return out
	case "discard":
		if !cs.inMulti {
			return rErr("ERR DISCARD without MULTI")
		}
		cs.inMulti, cs.queued, cs.dirty = false, nil, false
		return rOK()
	}
	if cs.inMulti {
		r.Queued = true
		r.Txn = cs.txn
		if s.Route != nil {
			if rep := s.Route(s, cs, r.Argv); rep != nil {
				cs.dirty = true
				return rep
			}
		}
		if name == "watch" {
			cs.dirty = true
			return rErr("ERR WATCH inside MULTI is not allowed")
		}
		cs.queued = append(cs.queued, r)
		return rStatus("QUEUED")
	}
	return s.execute(cs, r)
}

func (s *Server) markExecuted(cs *ConnState, r *Req) {
	s.execN++
	r.Executed = true
	r.ExecSeq = s.execN
	r.ExecDB = cs.DB
	if s.Stamp != nil {
		r.ExecStamp = s.Stamp()
	}
}

func (s *Server) execute(cs *ConnState, r *Req) []byte {
	if s.Route != nil {
		if rep := s.Route(s, cs, r.Argv); rep != nil {
			return rep
		}
	}
	return s.executeNoRoute(cs, r)
}

func (s *Server) executeNoRoute(cs *ConnState, r *Req) []byte {
	s.curConn = cs.ID
	s.markExecuted(cs, r)
	if s.Extra != nil {
		if rep := s.Extra(s, cs, r.Argv); rep != nil {
			return rep
		}
	}
	s.inCommand = true
	rep := s.command(cs, r.Argv)
	s.inCommand = false
	if len(rep) > 0 && rep[0] == '-' {
		r.Failed = true
	}
	return rep
}

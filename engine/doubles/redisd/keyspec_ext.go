package redisd

import (
	"crypto/sha1"
	"encoding/hex"
)

// CommandKeysSpec is COMMAND GETKEYS for the command shapes CommandKeys does not describe, written
// from the key specifications / getkeys procedures of Redis 7 (src/db.c: *GetKeys, commands/*.json).
// Every other command is answered by CommandKeys. It is the reference of checks whose streams
// contain option-driven or counted key positions: a cluster double uses it through
// clusterd.(*Cluster).UseKeySpecs, both for its own slot rules and for its COMMAND GETKEYS replies.
//
//	BLMPOP / BZMPOP timeout numkeys key [key ...] ...        keys = numkeys arguments behind numkeys
//	EVAL_RO / EVALSHA_RO / FCALL_RO script numkeys key ...    keys = numkeys arguments behind numkeys
//	ZUNION / ZINTER / ZDIFF / SINTERCARD / ZINTERCARD numkeys key ...
//	XREAD / XREADGROUP [GROUP g c] [COUNT n] [BLOCK ms] [NOACK] STREAMS key ... id ...
//	                                                          keys = first half of what follows STREAMS
//	MIGRATE host port key|"" db timeout [COPY] [REPLACE] [AUTH p] [AUTH2 u p] [KEYS key ...]
//	                                                          keys = the third argument, or - when it is
//	                                                          empty - everything behind KEYS
//	FOO.MIGRATE ...                                           a module command with MIGRATE's arguments
//	                                                          and MIGRATE's getkeys procedure
//	MEMORY USAGE key ...                                      keys = the argument behind USAGE; other
//	                                                          MEMORY subcommands have no keys
//	GEORADIUS / GEORADIUSBYMEMBER key ... [STORE k] [STOREDIST k]
//	                                                          keys = key and the LAST of the destinations
//	FOO.COPY key [word ...] [TO key] [word ...]               a module command declaring two key specs:
//	                                                          index 1, and keyword TO (searched from
//	                                                          index 2) followed by one key
func CommandKeysSpec(argv [][]byte) ([][]byte, bool) {
	if len(argv) == 0 {
		return nil, false
	}
	name := lower(argv[0])
	a := argv[1:]
	counted := func(numIdx int) ([][]byte, bool) {
		if len(a) < numIdx+2 {
			return nil, false
		}
		n, ok := parseInt(a[numIdx])
		if !ok || n < 1 || int(n) > len(a)-numIdx-1 {
			return nil, false
		}
		return a[numIdx+1 : numIdx+1+int(n)], true
	}
	switch name {
	case "blmpop", "bzmpop":
		return counted(1)
	case "eval_ro", "evalsha_ro", "fcall_ro":
		if len(a) < 2 {
			return nil, false
		}
		n, ok := parseInt(a[1])
		if !ok || n < 0 || int(n) > len(a)-2 {
			return nil, false
		}
		return a[2 : 2+int(n)], true
	case "zunion", "zinter", "zdiff", "sintercard", "zintercard":
		return counted(0)
	case "xread", "xreadgroup":
		pos := -1
	scan:
		for i := 0; i < len(a); i++ {
			switch lower(a[i]) {
			case "block", "count":
				i++
			case "group":
				i += 2
			case "noack":
			case "streams":
				pos = i
				break scan
			default:
				break scan
			}
		}
		if pos < 0 {
			return nil, false
		}
		rest := a[pos+1:]
		if len(rest) == 0 || len(rest)%2 != 0 {
			return nil, false
		}
		return rest[:len(rest)/2], true
	case "migrate", "foo.migrate":
		if len(a) < 5 {
			return nil, false
		}
		// migrateGetKeys: the obvious form unless a KEYS option is found behind the timeout
		for i := 5; i < len(a); i++ {
			switch lower(a[i]) {
			case "auth":
				i++
			case "auth2":
				i += 2
			case "keys":
				if len(a[2]) > 0 {
					return nil, true // syntax error, left to the command itself
				}
				return a[i+1:], true
			}
		}
		return a[2:3], true
	case "memory":
		if len(a) >= 2 && lower(a[0]) == "usage" {
			return a[1:2], true
		}
		return nil, true
	case "georadius", "georadiusbymember":
		if len(a) < 1 {
			return nil, false
		}
		ks := [][]byte{a[0]}
		var dest []byte
		for i := 4; i+1 < len(a); i++ {
			if w := lower(a[i]); w == "store" || w == "storedist" {
				dest = a[i+1]
				i++
			}
		}
		if dest != nil {
			ks = append(ks, dest)
		}
		return ks, true
	case "foo.copy":
		if len(a) < 1 {
			return nil, false
		}
		ks := [][]byte{a[0]}
		for i := 1; i+1 < len(a); i++ {
			if lower(a[i]) == "to" {
				ks = append(ks, a[i+1])
				break
			}
		}
		return ks, true
	}
	return CommandKeys(argv)
}

// CacheScript puts a script into the server's script cache under its SHA1 digest, as a SCRIPT LOAD
// that was replicated earlier would have, and returns the digest (for streams that contain EVALSHA).
func (s *Server) CacheScript(body string) string {
	sum := sha1.Sum([]byte(body))
	sha := hex.EncodeToString(sum[:])
	s.mu.Lock()
	s.scripts[sha] = body
	s.mu.Unlock()
	return sha
}

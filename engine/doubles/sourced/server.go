package sourced

import (
	"bytes"
	"fmt"
	"sort"
	"strconv"
	"strings"
	"sync"
	"time"

	"github.com/mgtv-tech/redis-GunYu/verifshim/vnet"
)

// PSync records one PSYNC request and how it was answered.
type PSync struct {
	Seq          int    // 1-based order among PSYNC requests
	Conn         int    // connection id
	ReqID        string // replication id argument
	ReqOff       int64  // offset argument as sent (the first byte wanted, 1-based), -1 for "? -1"
	Raw          string // both arguments as sent
	Full         bool   // answered +FULLRESYNC
	ReplyID      string // id in the reply
	From         int64  // offset of the first stream byte served (FULLRESYNC: the snapshot offset)
	Hist         *History
	HistCmds     int // commands in Hist when answered
	BacklogStart int64
	ID2          string
	SecondOff    int64
	Why          string      // reason of a refusal ("" when granted)
	Note         interface{} // free for the harness (set from OnPSync)
}

type connState struct {
	id        int
	c         *vnet.Conn
	buf       []byte
	capaPsync bool
	streaming bool
	ready     bool  // the payload after the PSYNC reply line has been released (see DataDelay)
	next      int64 // next stream offset to send
	hist      *History
	lastAck   int64
	acks      int
	closed    bool
}

// Server is one master.
type Server struct {
	mu   sync.Mutex
	Addr string

	cur          *History
	id2          string
	secondOff    int64 // second_replid_offset (-1: none)
	backlogStart int64 // offset of the oldest byte still in the backlog
	down         bool

	connN  int
	conns  map[int]*connState
	psyncs []*PSync
	reqLog []string

	// OnPSync is called (server lock held, before the reply is pushed) for every
	// PSYNC. It must not call back into the server.
	OnPSync func(p *PSync)

	// DataDelay, when > 0, delivers what follows the PSYNC reply line (the RDB payload
	// after "$<len>", the backlog bytes after +CONTINUE) that much later on the clock of
	// the caller (inside a synctest bubble: virtual time). The replica's cache writer
	// and cache reader start at the same instant; with the payload arriving strictly
	// later the reader is always already waiting for it, whatever the OS scheduler does.
	DataDelay time.Duration

	// PrepDelay, when > 0, makes a full resynchronisation look like a master that has to
	// produce the snapshot first: a bare LF heartbeat at once and one a second later, the
	// +FULLRESYNC line after PrepDelay (followed by another LF), and "$<len>" 1.5 s after
	// that; the payload follows after DataDelay. Partial resyncs are not delayed.
	PrepDelay time.Duration

	// SnapWrites is the number of commands the master appends to its history while a
	// snapshot is on its way (between the +FULLRESYNC reply and the payload). Burst cuts
	// payload + following stream into writes on the connection: "" / "one" = a single
	// write, "inpay" = split in the middle of the payload, "atend" = split exactly behind
	// the payload's last byte, "incmd" = split 10 bytes into the first stream command;
	// the second part follows 1 ms later. One more command is appended and streamed 2 ms
	// after the burst on the same connection.
	SnapWrites int
	Burst      string

	// CutNextPayload (one shot): the next snapshot transfer delivers only the first half
	// of its payload, then the connection is lost.
	CutNextPayload bool

	// MachineryErrors collects protocol problems of the double itself.
	MachineryErrors []string
}

// New creates a master serving history h (whole stream in the backlog) and registers it.
func New(addr string, h *History) *Server {
	s := &Server{Addr: addr, cur: h, id2: ZeroID, secondOff: -1, backlogStart: h.Base, conns: map[int]*connState{}}
	vnet.Register(addr, s)
	return s
}

// Accept implements vnet.Server.
func (s *Server) Accept(c *vnet.Conn) (vnet.Handler, error) {
	s.mu.Lock()
	defer s.mu.Unlock()
	if s.down {
		return nil, fmt.Errorf("connection refused")
	}
	s.connN++
	cs := &connState{id: s.connN, c: c}
	s.conns[cs.id] = cs
	c.User = cs
	return (*srcHandler)(s), nil
}

type srcHandler Server

func (h *srcHandler) OnClose(c *vnet.Conn) {
	s := (*Server)(h)
	s.mu.Lock()
	defer s.mu.Unlock()
	cs := c.User.(*connState)
	cs.closed = true
	cs.streaming = false
	delete(s.conns, cs.id)
}

func (h *srcHandler) OnData(c *vnet.Conn, p []byte) {
	s := (*Server)(h)
	s.mu.Lock()
	defer s.mu.Unlock()
	cs := c.User.(*connState)
	if cs.closed {
		return
	}
	cs.buf = append(cs.buf, p...)
	for {
		argv, n, ok, bad := parseRequest(cs.buf)
		if bad {
			s.MachineryErrors = append(s.MachineryErrors, fmt.Sprintf("conn %d: protocol error in %q", cs.id, cs.buf))
			cs.buf = nil
			c.Push([]byte("-ERR Protocol error\r\n"))
			c.Kill(false)
			return
		}
		if !ok {
			return
		}
		cs.buf = cs.buf[n:]
		if len(argv) == 0 {
			continue
		}
		s.handle(cs, argv)
	}
}

func parseRequest(buf []byte) (argv []string, n int, ok bool, bad bool) {
	i := 0
	for i < len(buf) && (buf[i] == '\n' || buf[i] == '\r') {
		i++
	}
	if i >= len(buf) {
		return nil, i, false, false
	}
	if buf[i] != '*' {
		j := bytes.IndexByte(buf[i:], '\n')
		if j < 0 {
			return nil, 0, false, false
		}
		for _, f := range bytes.Fields(bytes.TrimRight(buf[i:i+j], "\r")) {
			argv = append(argv, string(f))
		}
		return argv, i + j + 1, true, false
	}
	readInt := func(p int) (int, int, bool, bool) {
		j := bytes.Index(buf[p:], []byte("\r\n"))
		if j < 0 {
			return 0, 0, false, false
		}
		v, err := strconv.Atoi(string(buf[p : p+j]))
		if err != nil {
			return 0, 0, false, true
		}
		return v, p + j + 2, true, false
	}
	cnt, p, ok1, bad1 := readInt(i + 1)
	if bad1 {
		return nil, 0, false, true
	}
	if !ok1 {
		return nil, 0, false, false
	}
	for k := 0; k < cnt; k++ {
		if p >= len(buf) {
			return nil, 0, false, false
		}
		if buf[p] != '$' {
			return nil, 0, false, true
		}
		l, np, ok2, bad2 := readInt(p + 1)
		if bad2 {
			return nil, 0, false, true
		}
		if !ok2 {
			return nil, 0, false, false
		}
		if np+l+2 > len(buf) {
			return nil, 0, false, false
		}
		argv = append(argv, string(buf[np:np+l]))
		p = np + l + 2
	}
	return argv, p, true, false
}

func bulk(s string) []byte {
	return []byte("$" + strconv.Itoa(len(s)) + "\r\n" + s + "\r\n")
}

func (s *Server) infoReplication() string {
	var sb strings.Builder
	n := 0
	for _, cs := range s.conns {
		if cs.streaming {
			n++
		}
	}
	fmt.Fprintf(&sb, "# Replication\r\nrole:master\r\nconnected_slaves:%d\r\nmaster_failover_state:no-failover\r\n", n)
	fmt.Fprintf(&sb, "master_replid:%s\r\nmaster_replid2:%s\r\nmaster_repl_offset:%d\r\nsecond_repl_offset:%d\r\n", s.cur.ReplID, s.id2, s.cur.Len(), s.secondOff)
	fmt.Fprintf(&sb, "repl_backlog_active:1\r\nrepl_backlog_size:1048576\r\nrepl_backlog_first_byte_offset:%d\r\nrepl_backlog_histlen:%d\r\n", s.backlogStart+1, s.cur.Len()-s.backlogStart)
	return sb.String()
}

func (s *Server) handle(cs *connState, argv []string) {
	name := strings.ToLower(argv[0])
	if len(s.reqLog) < 4096 {
		s.reqLog = append(s.reqLog, fmt.Sprintf("c%d %s", cs.id, strings.Join(argv, " ")))
	}
	if cs.streaming {
		// a replica link only carries REPLCONF ACK / GETACK answers; nothing is replied
		if name == "replconf" && len(argv) >= 3 && strings.EqualFold(argv[1], "ack") {
			v, _ := strconv.ParseInt(argv[2], 10, 64)
			cs.lastAck = v
			cs.acks++
			return
		}
		if name == "ping" {
			return
		}
		s.MachineryErrors = append(s.MachineryErrors, fmt.Sprintf("conn %d: unexpected %q on a replica link", cs.id, strings.Join(argv, " ")))
		return
	}
	switch name {
	case "ping":
		cs.c.Push([]byte("+PONG\r\n"))
	case "auth":
		cs.c.Push([]byte("+OK\r\n"))
	case "select":
		cs.c.Push([]byte("+OK\r\n"))
	case "info":
		sec := ""
		if len(argv) > 1 {
			sec = strings.ToLower(argv[1])
		}
		out := ""
		if sec == "" || sec == "all" || sec == "server" {
			out += "# Server\r\nredis_version:7.2.0\r\nredis_mode:standalone\r\n"
		}
		if sec == "" || sec == "all" || sec == "replication" {
			out += s.infoReplication()
		}
		if sec == "" || sec == "all" || sec == "keyspace" {
			out += "# Keyspace\r\n"
		}
		cs.c.Push(bulk(out))
	case "replconf":
		for i := 1; i+1 < len(argv); i += 2 {
			if strings.EqualFold(argv[i], "capa") && strings.EqualFold(argv[i+1], "psync2") {
				cs.capaPsync = true
			}
		}
		if len(argv) >= 2 && strings.EqualFold(argv[1], "ack") {
			return
		}
		cs.c.Push([]byte("+OK\r\n"))
	case "psync":
		s.psync(cs, argv)
	default:
		cs.c.Push([]byte("-ERR unknown command '" + argv[0] + "'\r\n"))
	}
}

// psync applies the admission rule of replication.c (masterTryPartialResynchronization):
// partial resync iff (replid == master_replid, or replid == master_replid2 and
// offset <= second_replid_offset) and backlog_off <= offset <= backlog_off + histlen,
// where offset is the first byte wanted (1-based) and backlog_off the number of the
// oldest byte in the backlog.
func (s *Server) psync(cs *connState, argv []string) {
	rec := &PSync{Seq: len(s.psyncs) + 1, Conn: cs.id, Hist: s.cur, HistCmds: s.cur.NumCmds(), BacklogStart: s.backlogStart, ID2: s.id2, SecondOff: s.secondOff, ReqOff: -1}
	if len(argv) >= 3 {
		rec.ReqID = argv[1]
		rec.Raw = argv[1] + " " + argv[2]
	} else {
		rec.Raw = strings.Join(argv[1:], " ")
	}
	grant := false
	if len(argv) < 3 {
		rec.Why = "malformed"
	} else if q, err := strconv.ParseInt(argv[2], 10, 64); err != nil {
		rec.Why = "offset not a number"
	} else {
		rec.ReqOff = q
		backlogOff := s.backlogStart + 1
		histlen := s.cur.Len() - s.backlogStart
		switch {
		case argv[1] != s.cur.ReplID && (argv[1] != s.id2 || s.id2 == ZeroID):
			rec.Why = "replication id is neither master_replid nor master_replid2"
		case argv[1] != s.cur.ReplID && q > s.secondOff:
			rec.Why = "offset beyond second_replid_offset"
		case q < backlogOff:
			rec.Why = "offset older than the backlog"
		case q > backlogOff+histlen:
			rec.Why = "offset beyond the backlog"
		default:
			grant = true
		}
	}
	s.psyncs = append(s.psyncs, rec)
	if grant {
		rec.ReplyID = s.cur.ReplID
		rec.From = rec.ReqOff - 1
	} else {
		rec.Full = true
		rec.ReplyID = s.cur.ReplID
		rec.From = s.cur.Len()
	}
	if s.OnPSync != nil {
		s.OnPSync(rec)
	}
	cs.hist = s.cur
	if grant {
		if cs.capaPsync {
			cs.c.Push([]byte("+CONTINUE " + s.cur.ReplID + "\r\n"))
		} else {
			cs.c.Push([]byte("+CONTINUE\r\n"))
		}
	}
	var rdb []byte
	cs.streaming = true
	cs.next = rec.From
	later := func(d time.Duration, f func()) {
		time.AfterFunc(d, func() {
			s.mu.Lock()
			defer s.mu.Unlock()
			if !cs.closed {
				f()
			}
		})
	}
	payload := func() {
		if cs.closed {
			return
		}
		s.deliver(cs, rdb, later)
	}
	after := func() {
		if s.DataDelay > 0 {
			later(s.DataDelay, payload)
		} else {
			payload()
		}
	}
	if !grant {
		rdb = s.cur.Snapshot(s.cur.NumCmds())
		line := []byte(fmt.Sprintf("+FULLRESYNC %s %d\r\n", s.cur.ReplID, rec.From))
		size := []byte(fmt.Sprintf("$%d\r\n", len(rdb)))
		if s.PrepDelay > 0 {
			cs.c.Push([]byte("\n"))
			later(time.Second, func() { cs.c.Push([]byte("\n")) })
			later(s.PrepDelay, func() { cs.c.Push(line); cs.c.Push([]byte("\n")) })
			later(s.PrepDelay+1500*time.Millisecond, func() {
				cs.c.Push(size)
				after()
			})
			return
		}
		cs.c.Push(line)
		cs.c.Push(size)
	}
	after()
}

// deliver writes what follows the PSYNC reply: the snapshot payload (full resync only)
// and the stream from the served offset. With SnapWrites > 0 the master has taken that
// many writes while the snapshot was produced; they sit in the socket right behind the
// payload. Burst says how payload and stream are cut into writes on the connection.
func (s *Server) deliver(cs *connState, rdb []byte, later func(time.Duration, func())) {
	if cs.hist != s.cur {
		return
	}
	if rdb != nil && s.CutNextPayload {
		s.CutNextPayload = false
		cs.c.Push(append([]byte(nil), rdb[:len(rdb)/2]...))
		cs.closed = true
		cs.streaming = false
		cs.c.Kill(false)
		delete(s.conns, cs.id)
		return
	}
	if rdb != nil && s.SnapWrites > 0 {
		s.cur.Append(s.SnapWrites)
	}
	stream := s.cur.Bytes(cs.next, s.cur.Len())
	cs.next = s.cur.Len()
	var first, second []byte
	switch {
	case rdb == nil || s.Burst == "" || s.Burst == "one":
		first = append(append([]byte(nil), rdb...), stream...)
	case s.Burst == "inpay":
		h := len(rdb) / 2
		first = append([]byte(nil), rdb[:h]...)
		second = append(append([]byte(nil), rdb[h:]...), stream...)
	case s.Burst == "atend":
		first = append([]byte(nil), rdb...)
		second = stream
	case s.Burst == "incmd":
		n := 10
		if n > len(stream) {
			n = len(stream)
		}
		first = append(append([]byte(nil), rdb...), stream[:n]...)
		second = stream[n:]
	default:
		s.MachineryErrors = append(s.MachineryErrors, "unknown Burst mode "+s.Burst)
		first = append(append([]byte(nil), rdb...), stream...)
	}
	if len(first) > 0 {
		cs.c.Push(first)
	}
	// the connection stays up and carries more stream: one more write of the master
	// arrives 2 ms after the burst (well before a replica has loaded the snapshot)
	tail := func() {
		if rdb != nil && s.SnapWrites > 0 {
			later(2*time.Millisecond, func() {
				if cs.hist == s.cur {
					s.cur.Append(1)
					s.feed(cs)
				}
			})
		}
	}
	if second == nil {
		cs.ready = true
		tail()
		return
	}
	later(time.Millisecond, func() {
		if len(second) > 0 {
			cs.c.Push(second)
		}
		cs.ready = true
		s.feed(cs)
		tail()
	})
}

func (s *Server) feed(cs *connState) {
	if !cs.streaming || !cs.ready || cs.closed || cs.hist != s.cur {
		return
	}
	if end := s.cur.Len(); cs.next < end {
		cs.c.Push(s.cur.Bytes(cs.next, end))
		cs.next = end
	}
}

func (s *Server) sortedConns() []*connState {
	ids := make([]int, 0, len(s.conns))
	for id := range s.conns {
		ids = append(ids, id)
	}
	sort.Ints(ids)
	out := make([]*connState, 0, len(ids))
	for _, id := range ids {
		out = append(out, s.conns[id])
	}
	return out
}

// Current returns the history being served.
func (s *Server) Current() *History {
	s.mu.Lock()
	defer s.mu.Unlock()
	return s.cur
}

// State returns master_replid2, second_replid_offset and the backlog start offset.
func (s *Server) State() (id2 string, secondOff int64, backlogStart int64) {
	s.mu.Lock()
	defer s.mu.Unlock()
	return s.id2, s.secondOff, s.backlogStart
}

// Append adds n commands to the current history and streams them to every replica.
func (s *Server) Append(n int) {
	s.mu.Lock()
	defer s.mu.Unlock()
	s.cur.Append(n)
	for _, cs := range s.sortedConns() {
		s.feed(cs)
	}
}

// TrimBacklog drops backlog bytes older than off.
func (s *Server) TrimBacklog(off int64) {
	s.mu.Lock()
	defer s.mu.Unlock()
	if off > s.cur.Len() {
		off = s.cur.Len()
	}
	if off > s.backlogStart {
		s.backlogStart = off
	}
}

func (s *Server) killAllLocked(reset bool) int {
	n := 0
	for _, cs := range s.sortedConns() {
		cs.closed = true
		cs.streaming = false
		cs.c.Kill(reset)
		n++
	}
	s.conns = map[int]*connState{}
	return n
}

// Failover promotes a replica that had received the first atCmd commands: a new
// history (new replication id) forks there, the old id becomes master_replid2 with
// second_replid_offset = fork offset + 1 (replication.c shiftReplicationId), and all
// connections of the old master die. The new history is returned (empty beyond the
// fork; Append adds its own commands).
func (s *Server) Failover(tag int, atCmd int) *History {
	s.mu.Lock()
	defer s.mu.Unlock()
	old := s.cur
	n := old.Fork(tag, atCmd)
	s.id2 = old.ReplID
	s.secondOff = n.Len() + 1
	s.cur = n
	if s.backlogStart > n.Len() {
		s.backlogStart = n.Len()
	}
	s.killAllLocked(false)
	return n
}

// Replace puts a brand-new master (no previous history) behind the address.
func (s *Server) Replace(h *History) {
	s.mu.Lock()
	defer s.mu.Unlock()
	s.cur = h
	s.id2 = ZeroID
	s.secondOff = -1
	s.backlogStart = h.Base
	s.killAllLocked(false)
}

// SetLineage overrides master_replid2 / second_replid_offset (initial states).
func (s *Server) SetLineage(id2 string, secondOff int64) {
	s.mu.Lock()
	s.id2, s.secondOff = id2, secondOff
	s.mu.Unlock()
}

// DropConns ends every connection from the server side (reset: connection reset,
// unread bytes discarded; otherwise orderly EOF). It returns how many were dropped.
func (s *Server) DropConns(reset bool) int {
	s.mu.Lock()
	defer s.mu.Unlock()
	return s.killAllLocked(reset)
}

// SetDown makes the address refuse connections (and drops the current ones).
func (s *Server) SetDown(down bool) {
	s.mu.Lock()
	defer s.mu.Unlock()
	s.down = down
	if down {
		s.killAllLocked(false)
	}
}

// PSyncs returns the PSYNC records so far.
func (s *Server) PSyncs() []*PSync {
	s.mu.Lock()
	defer s.mu.Unlock()
	return append([]*PSync(nil), s.psyncs...)
}

// Replicas returns, for every live replica link (ascending connection id), the
// connection id, the offset sent so far and the last acknowledged offset.
func (s *Server) Replicas() (out [][3]int64) {
	s.mu.Lock()
	defer s.mu.Unlock()
	for _, cs := range s.sortedConns() {
		if cs.streaming {
			out = append(out, [3]int64{int64(cs.id), cs.next, cs.lastAck})
		}
	}
	return
}

// Requests returns the request log ("c<conn> <argv...>").
func (s *Server) Requests() []string {
	s.mu.Lock()
	defer s.mu.Unlock()
	return append([]string(nil), s.reqLog...)
}

// Package sourced is a replication-source double: a Redis master as seen by a
// replica. It speaks RESP over vnet in-memory connections, answers PING, AUTH,
// INFO replication, REPLCONF and PSYNC with the admission rule of the Redis
// documentation (replication ids, second replid offset, backlog window), serves a
// tiny valid RDB on +FULLRESYNC and then streams the replication log live.
//
// Replication histories are explicit objects. The stream of a history is a sequence
// of fixed-length commands "SET h<T>:<nnn> v" where T is the tag of the history that
// CREATED the command and nnn its index in the stream, so every byte a replica
// delivers names the history and the position it came from. A failover forks a new
// history that shares a prefix (byte-identical, same offsets) with its parent.
//
// The package never imports repository code.
package sourced

import (
	"encoding/binary"
	"fmt"
	"strings"

	"github.com/mgtv-tech/redis-GunYu/verifshim/redisd"
)

// CmdLen is the length in bytes of every stream command.
const CmdLen = 32

// ZeroID is what a master without a previous history reports as master_replid2.
const ZeroID = "0000000000000000000000000000000000000000"

// ReplIDOf is the 40-character replication id of the history with the given tag.
func ReplIDOf(tag int) string {
	return strings.Repeat(fmt.Sprintf("%02x", 0xa0+tag), 20)
}

// History is one replication history (one replication id).
type History struct {
	Tag    int
	ReplID string
	Base   int64 // offset of the first byte of command 0
	Root   int   // tag of the history this one descends from (its own tag if none)
	tags   []int // creator tag per command
	buf    []byte
}

// NewHistory creates an empty history whose stream starts at offset base.
func NewHistory(tag int, base int64) *History {
	return &History{Tag: tag, ReplID: ReplIDOf(tag), Base: base, Root: tag}
}

func encodeSet(key, val string) []byte {
	return []byte(fmt.Sprintf("*3\r\n$3\r\nSET\r\n$%d\r\n%s\r\n$%d\r\n%s\r\n", len(key), key, len(val), val))
}

func keyOf(tag, idx int) string { return fmt.Sprintf("h%d:%03d", tag, idx) }

// Append adds n commands created by this history.
func (h *History) Append(n int) {
	for k := 0; k < n; k++ {
		idx := len(h.tags)
		b := encodeSet(keyOf(h.Tag, idx), "v")
		if len(b) != CmdLen {
			panic(fmt.Sprintf("sourced: command length %d != %d (tag %d idx %d)", len(b), CmdLen, h.Tag, idx))
		}
		h.tags = append(h.tags, h.Tag)
		h.buf = append(h.buf, b...)
	}
}

// Fork returns a new history that shares the first atCmd commands with h.
func (h *History) Fork(tag int, atCmd int) *History {
	if atCmd < 0 || atCmd > len(h.tags) {
		panic("sourced: fork point out of range")
	}
	n := &History{Tag: tag, ReplID: ReplIDOf(tag), Base: h.Base, Root: h.Root}
	n.tags = append([]int(nil), h.tags[:atCmd]...)
	n.buf = append([]byte(nil), h.buf[:atCmd*CmdLen]...)
	return n
}

// NumCmds is the number of commands in the stream.
func (h *History) NumCmds() int { return len(h.tags) }

// Len is the end offset of the stream (the master_repl_offset of a master serving it).
func (h *History) Len() int64 { return h.Base + int64(len(h.buf)) }

// Off is the offset of the first byte of command idx (idx == NumCmds: the end).
func (h *History) Off(idx int) int64 { return h.Base + int64(idx)*CmdLen }

// CmdIndex maps a command boundary offset to a command index.
func (h *History) CmdIndex(off int64) (int, bool) {
	d := off - h.Base
	if d < 0 || d%CmdLen != 0 || d > int64(len(h.buf)) {
		return 0, false
	}
	return int(d / CmdLen), true
}

// TagAt is the tag of the history that created command idx.
func (h *History) TagAt(idx int) int { return h.tags[idx] }

// Key is the key written by command idx.
func (h *History) Key(idx int) string { return keyOf(h.tags[idx], idx) }

// Bytes returns the stream bytes [from,to).
func (h *History) Bytes(from, to int64) []byte {
	if from < h.Base || to > h.Len() || from > to {
		panic(fmt.Sprintf("sourced: Bytes(%d,%d) outside [%d,%d]", from, to, h.Base, h.Len()))
	}
	return append([]byte(nil), h.buf[from-h.Base:to-h.Base]...)
}

// SharedCmds is the number of leading commands that are byte-identical (at the same
// offsets) in h and o: the length of their common lineage.
func (h *History) SharedCmds(o *History) int {
	if h.Base != o.Base {
		return 0
	}
	n := 0
	for n < len(h.tags) && n < len(o.tags) && h.tags[n] == o.tags[n] {
		n++
	}
	return n
}

// OnLineage reports whether the first ncmds commands of o are a prefix of h, i.e.
// whether position (o, ncmds) lies on the lineage of h.
func (h *History) OnLineage(o *History, ncmds int) bool {
	if o == nil || ncmds < 0 || ncmds > o.NumCmds() || ncmds > h.NumCmds() {
		return false
	}
	if ncmds == 0 {
		return h.Base == o.Base
	}
	return h.SharedCmds(o) >= ncmds
}

// MarkerKey names the snapshot of this history taken after ncmds commands.
func (h *History) MarkerKey(ncmds int) string { return fmt.Sprintf("snap:h%d:%03d", h.Tag, ncmds) }

// PreKey is the key of the data the master held before the first byte of the stream
// (a master has data at replication offset Base; only a snapshot can carry it).
func (h *History) PreKey() string { return fmt.Sprintf("pre:h%d", h.Root) }

// SnapshotKeys lists the keys of the snapshot taken after ncmds commands: the whole
// dataset (the pre-stream key, one key per command) followed by the marker key.
func (h *History) SnapshotKeys(ncmds int) []string {
	keys := make([]string, 0, ncmds+2)
	keys = append(keys, h.PreKey())
	for i := 0; i < ncmds; i++ {
		keys = append(keys, h.Key(i))
	}
	return append(keys, h.MarkerKey(ncmds))
}

func rdbString(s string) []byte {
	if len(s) >= 64 {
		panic("sourced: rdb string too long")
	}
	return append([]byte{byte(len(s))}, s...)
}

// Snapshot renders the dataset after ncmds commands as an RDB file: magic, SELECTDB 0,
// string keys, EOF opcode, CRC-64/Jones footer.
func (h *History) Snapshot(ncmds int) []byte {
	out := []byte("REDIS0009")
	out = append(out, 0xFE, 0x00)
	keys := h.SnapshotKeys(ncmds)
	for i, k := range keys {
		out = append(out, 0x00)
		out = append(out, rdbString(k)...)
		if i == len(keys)-1 {
			out = append(out, rdbString("s")...)
		} else {
			out = append(out, rdbString("v")...)
		}
	}
	out = append(out, 0xFF)
	var crc [8]byte
	binary.LittleEndian.PutUint64(crc[:], redisd.CRC64Jones(0, out))
	return append(out, crc[:]...)
}

// Package clusterd is a Redis Cluster double: N redisd nodes that share one slot
// table and answer with the redirections Redis Cluster documents:
//
//   - a command whose keys hash to different slots          -> -CROSSSLOT
//   - slot not served here, and not (importing here + ASKING) -> -MOVED <slot> <owner>
//   - slot migrating away and (one of) the key(s) is missing  -> -ASK <slot> <target>
//   - importing node + ASKING                                  -> executes
//   - inside MULTI the check is made when a command is queued (an error there makes
//     EXEC fail with EXECABORT) and again for every queued command at EXEC
//
// Slots are computed with the reference HASH_SLOT (engine/ref), never with repo code.
// Topology changes (start migration, move one key, finish migration, flip owner) are
// applied by the harness between requests.
package clusterd

import (
	"fmt"
	"sort"
	"strconv"
	"strings"
	"sync"
	"sync/atomic"

	"github.com/mgtv-tech/redis-GunYu/verifshim/redisd"
	"github.com/mgtv-tech/redis-GunYu/verifshim/ref"
)

type Cluster struct {
	mu        sync.Mutex
	Nodes     []*redisd.Server
	Addrs     []string
	owner     [16384]int
	migrating map[int]int // slot -> target node index (source = owner)
	global    atomic.Int64
	// KeysOf resolves the keys of a command; nil = redisd.CommandKeys.
	KeysOf func(argv [][]byte) ([][]byte, bool)
	// Events records topology changes and redirections in global order.
	Events []string

	crashAt   int64 // crash the whole cluster once this many requests were processed (<0: never)
	processed atomic.Int64
	crashed   atomic.Bool
}

// New creates len(addrs) nodes; layout maps a slot to its owning node index.
func New(addrs []string, layout func(slot int) int) *Cluster {
	c := &Cluster{Addrs: addrs, migrating: map[int]int{}, crashAt: -1}
	for slot := 0; slot < 16384; slot++ {
		c.owner[slot] = layout(slot)
	}
	for i, a := range addrs {
		i := i
		n := redisd.New(a)
		n.Name = fmt.Sprintf("n%d", i)
		n.Route = func(s *redisd.Server, cs *redisd.ConnState, argv [][]byte) []byte { return c.route(i, s, cs, argv) }
		n.RouteTxn = func(s *redisd.Server, cs *redisd.ConnState, queued [][][]byte) []byte { return c.routeTxn(queued) }
		n.Extra = func(s *redisd.Server, cs *redisd.ConnState, argv [][]byte) []byte { return c.extra(i, s, cs, argv) }
		n.Stamp = func() int64 { return c.global.Add(1) }
		n.ClusterMode = true
		n.PlanRef().OnRequest = func(r *redisd.Req) { c.onRequest(n) }
		c.Nodes = append(c.Nodes, n)
	}
	return c
}

// onRequest runs (node lock held) before a request is processed: it implements the
// cluster-wide crash point.
func (c *Cluster) onRequest(n *redisd.Server) {
	if c.crashed.Load() {
		n.CrashLocked()
		return
	}
	if c.crashAt >= 0 && c.processed.Load() >= c.crashAt {
		c.crashed.Store(true)
		n.CrashLocked()
		return
	}
	c.processed.Add(1)
}

// Processed is the number of requests the cluster has processed so far.
func (c *Cluster) Processed() int64 { return c.processed.Load() }

// SetCrashAfter makes every node fail all connections once k requests were processed
// cluster-wide (the tool died: the cluster has seen exactly a prefix of its requests).
func (c *Cluster) SetCrashAfter(k int64) { c.crashAt = k }

// Crashed reports whether the crash point was reached; EnforceCrash then takes the
// remaining nodes down too (call it after every harness event).
func (c *Cluster) Crashed() bool { return c.crashed.Load() }

func (c *Cluster) EnforceCrash() {
	if c.crashed.Load() {
		for _, n := range c.Nodes {
			n.Crash()
		}
	}
}

// Revive lets all nodes accept connections again (data is kept).
func (c *Cluster) Revive() {
	c.crashed.Store(false)
	c.crashAt = -1
	for _, n := range c.Nodes {
		n.Revive()
	}
}

// EvenLayout splits the slot space into n contiguous ranges.
func EvenLayout(n int) func(int) int {
	return func(slot int) int {
		i := slot * n / 16384
		if i >= n {
			i = n - 1
		}
		return i
	}
}

func (c *Cluster) note(format string, a ...interface{}) {
	c.Events = append(c.Events, fmt.Sprintf("@%d ", c.global.Load())+fmt.Sprintf(format, a...))
}

// Clock returns the current value of the cluster-wide request stamp.
func (c *Cluster) Clock() int64 { return c.global.Load() }

// Owner returns the node index serving slot.
func (c *Cluster) Owner(slot int) int {
	c.mu.Lock()
	defer c.mu.Unlock()
	return c.owner[slot]
}

// MigratingTo returns the import target of a migrating slot, or -1.
func (c *Cluster) MigratingTo(slot int) int {
	c.mu.Lock()
	defer c.mu.Unlock()
	if t, ok := c.migrating[slot]; ok {
		return t
	}
	return -1
}

// SetMigrating marks slot MIGRATING on its owner and IMPORTING on node to.
func (c *Cluster) SetMigrating(slot, to int) {
	c.mu.Lock()
	defer c.mu.Unlock()
	c.migrating[slot] = to
	c.note("migrating slot %d: n%d -> n%d", slot, c.owner[slot], to)
}

// MoveKey transfers one key of a migrating slot (db 0) from the owner to the target.
func (c *Cluster) MoveKey(slot int, key string) bool {
	c.mu.Lock()
	to, ok := c.migrating[slot]
	from := c.owner[slot]
	c.mu.Unlock()
	if !ok {
		return false
	}
	v := c.Nodes[from].Get(0, key)
	if v == nil {
		return false
	}
	c.Nodes[to].Put(0, key, v)
	c.Nodes[from].Del(0, key)
	c.mu.Lock()
	c.note("moved key %q of slot %d: n%d -> n%d", key, slot, from, to)
	c.mu.Unlock()
	return true
}

// Finish completes a migration: every remaining key of the slot moves, the owner flips.
func (c *Cluster) Finish(slot int) {
	c.mu.Lock()
	to, ok := c.migrating[slot]
	from := c.owner[slot]
	c.mu.Unlock()
	if !ok {
		return
	}
	for _, k := range c.Nodes[from].Keys(0) {
		if ref.HashSlotS(k) == slot {
			c.MoveKey(slot, k)
		}
	}
	c.mu.Lock()
	delete(c.migrating, slot)
	c.owner[slot] = to
	c.note("finished slot %d: owner n%d", slot, to)
	c.mu.Unlock()
}

// SetOwner flips ownership at once (keys of the slot move with it).
func (c *Cluster) SetOwner(slot, to int) {
	c.mu.Lock()
	from := c.owner[slot]
	c.mu.Unlock()
	if from == to {
		return
	}
	for _, k := range c.Nodes[from].Keys(0) {
		if ref.HashSlotS(k) == slot {
			if v := c.Nodes[from].Get(0, k); v != nil {
				c.Nodes[to].Put(0, k, v)
				c.Nodes[from].Del(0, k)
			}
		}
	}
	c.mu.Lock()
	delete(c.migrating, slot)
	c.owner[slot] = to
	c.note("owner of slot %d: n%d -> n%d", slot, from, to)
	c.mu.Unlock()
}

func (c *Cluster) keys(argv [][]byte) ([][]byte, bool) {
	if c.KeysOf != nil {
		return c.KeysOf(argv)
	}
	return redisd.CommandKeys(argv)
}

// route implements the redirection rules for node i. It runs with node i's lock held.
func (c *Cluster) route(i int, s *redisd.Server, cs *redisd.ConnState, argv [][]byte) []byte {
	name := strings.ToLower(string(argv[0]))
	switch name {
	case "ping", "info", "cluster", "asking", "select", "auth", "command", "readonly", "readwrite", "client", "echo", "script", "function", "keys", "scan", "dbsize", "flushall", "flushdb", "wait", "config":
		return nil
	}
	keys, ok := c.keys(argv)
	if !ok || len(keys) == 0 {
		return nil
	}
	slot := ref.HashSlot(keys[0])
	for _, k := range keys[1:] {
		if ref.HashSlot(k) != slot {
			return []byte("-CROSSSLOT Keys in request don't hash to the same slot\r\n")
		}
	}
	c.mu.Lock()
	owner := c.owner[slot]
	to, mig := c.migrating[slot]
	c.mu.Unlock()
	if owner == i {
		if mig {
			missing := 0
			for _, k := range keys {
				if !s.HasLocked(0, string(k)) {
					missing++
				}
			}
			if missing > 0 {
				if len(keys) > 1 && missing < len(keys) {
					return []byte("-TRYAGAIN Multiple keys request during rehashing of slot\r\n")
				}
				c.mu.Lock()
				c.note("n%d ASK slot %d -> n%d (%s)", i, slot, to, name)
				c.mu.Unlock()
				return []byte(fmt.Sprintf("-ASK %d %s\r\n", slot, c.Addrs[to]))
			}
		}
		return nil
	}
	if mig && to == i && cs.Asking {
		return nil
	}
	c.mu.Lock()
	c.note("n%d MOVED slot %d -> n%d (%s)", i, slot, owner, name)
	c.mu.Unlock()
	return []byte(fmt.Sprintf("-MOVED %d %s\r\n", slot, c.Addrs[owner]))
}

// routeTxn: at EXEC all keys of all queued commands must hash to one slot.
func (c *Cluster) routeTxn(queued [][][]byte) []byte {
	slot := -1
	for _, argv := range queued {
		keys, ok := c.keys(argv)
		if !ok {
			continue
		}
		for _, k := range keys {
			s := ref.HashSlot(k)
			if slot == -1 {
				slot = s
			} else if s != slot {
				return []byte("-CROSSSLOT Keys in request don't hash to the same slot\r\n")
			}
		}
	}
	return nil
}

func hostPort(addr string) (string, int) {
	i := strings.LastIndex(addr, ":")
	p, _ := strconv.Atoi(addr[i+1:])
	return addr[:i], p
}

func nodeID(i int) string { return fmt.Sprintf("%040d", i+1) }

type slotRange struct{ lo, hi, node int }

func (c *Cluster) ranges() []slotRange {
	var out []slotRange
	c.mu.Lock()
	defer c.mu.Unlock()
	start := 0
	for s := 1; s <= 16384; s++ {
		if s == 16384 || c.owner[s] != c.owner[start] {
			out = append(out, slotRange{start, s - 1, c.owner[start]})
			start = s
		}
	}
	return out
}

func bulk(s string) string { return fmt.Sprintf("$%d\r\n%s\r\n", len(s), s) }

func (c *Cluster) extra(i int, s *redisd.Server, cs *redisd.ConnState, argv [][]byte) []byte {
	name := strings.ToLower(string(argv[0]))
	if name != "cluster" || len(argv) < 2 {
		return nil
	}
	switch strings.ToLower(string(argv[1])) {
	case "slots":
		rs := c.ranges()
		var sb strings.Builder
		fmt.Fprintf(&sb, "*%d\r\n", len(rs))
		for _, r := range rs {
			h, p := hostPort(c.Addrs[r.node])
			fmt.Fprintf(&sb, "*3\r\n:%d\r\n:%d\r\n*3\r\n%s:%d\r\n%s", r.lo, r.hi, bulk(h), p, bulk(nodeID(r.node)))
		}
		return []byte(sb.String())
	case "nodes":
		rs := c.ranges()
		var sb strings.Builder
		for n := range c.Nodes {
			flags := "master"
			if n == i {
				flags = "myself,master"
			}
			fmt.Fprintf(&sb, "%s %s@1%s %s - 0 0 %d connected", nodeID(n), c.Addrs[n], "0000", flags, n+1)
			for _, r := range rs {
				if r.node == n {
					if r.lo == r.hi {
						fmt.Fprintf(&sb, " %d", r.lo)
					} else {
						fmt.Fprintf(&sb, " %d-%d", r.lo, r.hi)
					}
				}
			}
			sb.WriteString("\n")
		}
		return []byte(bulk(sb.String()))
	case "info":
		return []byte(bulk("cluster_state:ok\r\ncluster_slots_assigned:16384\r\ncluster_known_nodes:" + strconv.Itoa(len(c.Nodes)) + "\r\n"))
	case "keyslot":
		if len(argv) < 3 {
			return []byte("-ERR wrong number of arguments\r\n")
		}
		return []byte(fmt.Sprintf(":%d\r\n", ref.HashSlot(argv[2])))
	}
	return []byte("-ERR unknown CLUSTER subcommand\r\n")
}

// GlobalLog merges the executed requests of all nodes in global stamp order. Each
// entry is tagged with the node index in Req.Node.
func (c *Cluster) GlobalLog() []*redisd.Req {
	var all []*redisd.Req
	for i, n := range c.Nodes {
		for _, r := range n.Log() {
			r.Node = i
			all = append(all, r)
		}
	}
	sort.SliceStable(all, func(a, b int) bool { return all[a].Stamp < all[b].Stamp })
	return all
}

package clusterd

import (
	"strconv"
	"strings"

	"github.com/mgtv-tech/redis-GunYu/verifshim/redisd"
)

// UseKeySpecs makes keysOf the cluster's ONE key table: the slot rules of every node (CROSSSLOT,
// MOVED, ASK, the check at EXEC) resolve keys with it, and every node answers COMMAND GETKEYS
// from it, like a Redis server whose command table is the single source of both. Call it before
// the first request. (Without it the nodes use redisd.CommandKeys for both.)
func (c *Cluster) UseKeySpecs(keysOf func(argv [][]byte) ([][]byte, bool)) {
	c.KeysOf = keysOf
	for _, n := range c.Nodes {
		prev := n.Extra
		n.Extra = func(s *redisd.Server, cs *redisd.ConnState, argv [][]byte) []byte {
			if len(argv) >= 2 && strings.EqualFold(string(argv[0]), "command") && strings.EqualFold(string(argv[1]), "getkeys") {
				ks, ok := keysOf(argv[2:])
				if !ok {
					return []byte("-ERR Invalid arguments specified for command\r\n")
				}
				if len(ks) == 0 {
					return []byte("-ERR The command has no key arguments\r\n")
				}
				var sb strings.Builder
				sb.WriteString("*" + strconv.Itoa(len(ks)) + "\r\n")
				for _, k := range ks {
					sb.WriteString("$" + strconv.Itoa(len(k)) + "\r\n")
					sb.Write(k)
					sb.WriteString("\r\n")
				}
				return []byte(sb.String())
			}
			if prev != nil {
				return prev(s, cs, argv)
			}
			return nil
		}
	}
}

// Command rewrite produces instrumented copies of repository files for
// `go build -overlay`. It never edits the repository: it reads files from the
// working tree, applies purely syntactic transforms and writes the results to an
// output directory together with an overlay fragment.
//
//	rewrite -repo /repo -out DIR -spec spec.json
//
// spec.json: [{"file":"syncer/output.go","transforms":["swap:time=vtime","select"]}, ...]
//
// Transforms
//
//	dial             X.Dial("tcp", a)            -> vnet.Dial(X.Dial, "tcp", a)
//	                 net.DialTimeout("tcp", a, d) -> vnet.DialTimeout(net.DialTimeout, "tcp", a, d)
//	swap:P=S         import "P" -> import P "<shimroot>/S"  (package S re-exports what is used)
//	select           select{...} -> switch over vsel.Wait(...), bodies untouched
//	call:P.F=V       every call P.F(...) -> V(...)  (V: package-level variable declared by a seam file)
//	yield            vsel.Yield("file:line") after every statement that can wake another goroutine
//	                 (close(ch), ch <- v, go f(), x.Unlock(), x.RUnlock(), x.Done(), x.Signal(),
//	                 x.Broadcast(), x.Close(..), receives, the chosen case of a select) and inside `defer close(ch)`:
//	                 preemption points for the explorer (the current goroutine steps aside and the
//	                 goroutine it has just made runnable runs first)
//	yield-calls:A,B  vsel.Yield("file:line") after every call statement / single-call assignment whose
//	                 function or method name is listed (points between plain statements, e.g. after
//	                 os.OpenFile / Sync / Observer.Open); independent of `yield`
//
// A transform that finds nothing to do is an error (exit 2): the machinery must not
// silently run uninstrumented code.
package main

import (
	"bytes"
	"encoding/json"
	"flag"
	"fmt"
	"go/ast"
	"go/parser"
	"go/printer"
	"go/token"
	"os"
	"path/filepath"
	"strconv"
	"strings"
)

const shimRoot = "github.com/mgtv-tech/redis-GunYu/verifshim/"

type specItem struct {
	File       string   `json:"file"`
	Transforms []string `json:"transforms"`
}

func die(format string, a ...interface{}) {
	fmt.Fprintf(os.Stderr, "rewrite: "+format+"\n", a...)
	os.Exit(2)
}

func main() {
	repo := flag.String("repo", "/repo", "repository root")
	out := flag.String("out", "", "output directory")
	spec := flag.String("spec", "", "spec file")
	flag.Parse()
	if *out == "" || *spec == "" {
		die("need -out and -spec")
	}
	b, err := os.ReadFile(*spec)
	if err != nil {
		die("%v", err)
	}
	var items []specItem
	if err := json.Unmarshal(b, &items); err != nil {
		die("spec: %v", err)
	}
	overlay := map[string]string{}
	for _, it := range items {
		src := filepath.Join(*repo, it.File)
		dst := filepath.Join(*out, strings.ReplaceAll(it.File, "/", "__"))
		if err := rewriteFile(src, dst, it.Transforms); err != nil {
			die("%s: %v", it.File, err)
		}
		overlay[src] = dst
	}
	ob, _ := json.Marshal(overlay)
	os.Stdout.Write(ob)
}

func rewriteFile(src, dst string, transforms []string) error {
	fset := token.NewFileSet()
	srcBytes, err := os.ReadFile(src)
	if err != nil {
		return err
	}
	f, err := parser.ParseFile(fset, src, srcBytes, parser.ParseComments)
	if err != nil {
		return err
	}
	// header = everything before the package clause (build constraints, licence)
	header := srcBytes[:fset.Position(f.Package).Offset]
	for _, tr := range transforms {
		switch {
		case tr == "dial":
			n := dialTransform(f)
			if n == 0 {
				return fmt.Errorf("transform dial: no dial site found")
			}
			addImport(f, "", shimRoot+"vnet")
		case strings.HasPrefix(tr, "swap:"):
			kv := strings.SplitN(strings.TrimPrefix(tr, "swap:"), "=", 2)
			if len(kv) != 2 {
				return fmt.Errorf("bad transform %q", tr)
			}
			if !swapImport(f, kv[0], shimRoot+kv[1]) {
				return fmt.Errorf("transform %s: import %q not found", tr, kv[0])
			}
		case strings.HasPrefix(tr, "call:"):
			// call:pkg.Func=ident  every call pkg.Func(...) becomes ident(...); ident is a package-level
			// variable a seam file (add_files) declares in the same package, initialised to pkg.Func
			kv := strings.SplitN(strings.TrimPrefix(tr, "call:"), "=", 2)
			pf := strings.SplitN(kv[0], ".", 2)
			if len(kv) != 2 || len(pf) != 2 || kv[1] == "" {
				return fmt.Errorf("bad transform %q", tr)
			}
			if callTransform(f, pf[0], pf[1], kv[1]) == 0 {
				return fmt.Errorf("transform %s: no call site found", tr)
			}
		case tr == "yield":
			y := &yieldRewriter{fset: fset, file: filepath.Base(src)}
			y.run(f)
			if y.count == 0 {
				return fmt.Errorf("transform yield: no wake-up statement found")
			}
			addImport(f, "", shimRoot+"vsel")
		case strings.HasPrefix(tr, "yield-calls:"):
			// yield-calls:A,B,...  additionally a vsel.Yield("file:line") after every statement
			// `x.A(...)` / `A(...)` / `v, err := x.A(...)` (single call on the right-hand side)
			// whose function or method NAME is listed: preemption points between plain statements
			// (e.g. after os.OpenFile, Sync, Observer.Open) that wake nobody but open a window
			// another goroutine can observe. Independent of the `yield` transform.
			names := map[string]bool{}
			for _, n := range strings.Split(strings.TrimPrefix(tr, "yield-calls:"), ",") {
				if n = strings.TrimSpace(n); n != "" {
					names[n] = true
				}
			}
			y := &yieldRewriter{fset: fset, file: filepath.Base(src), calls: names, callsOnly: true}
			y.run(f)
			if y.count == 0 {
				return fmt.Errorf("transform %s: no call of a listed name found", tr)
			}
			addImport(f, "", shimRoot+"vsel")
		case tr == "select":
			r := &selRewriter{fset: fset, file: filepath.Base(src)}
			r.run(f)
			if r.count == 0 {
				return fmt.Errorf("transform select: no select statement found")
			}
			addImport(f, "", shimRoot+"vsel")
		default:
			return fmt.Errorf("unknown transform %q", tr)
		}
	}
	// comments are positioned by offset and would be scattered after surgery
	f.Comments = nil
	f.Doc = nil
	var buf bytes.Buffer
	buf.Write(header)
	cfg := printer.Config{Mode: printer.UseSpaces | printer.TabIndent, Tabwidth: 8}
	if err := cfg.Fprint(&buf, token.NewFileSet(), f); err != nil {
		return err
	}
	return os.WriteFile(dst, buf.Bytes(), 0o644)
}

func addImport(f *ast.File, name, path string) {
	for _, im := range f.Imports {
		if im.Path.Value == strconv.Quote(path) {
			return
		}
	}
	spec := &ast.ImportSpec{Path: &ast.BasicLit{Kind: token.STRING, Value: strconv.Quote(path)}}
	if name != "" {
		spec.Name = ast.NewIdent(name)
	}
	for _, d := range f.Decls {
		if gd, ok := d.(*ast.GenDecl); ok && gd.Tok == token.IMPORT {
			gd.Specs = append(gd.Specs, spec)
			if !gd.Lparen.IsValid() {
				gd.Lparen = gd.Pos()
				gd.Rparen = gd.End()
			}
			f.Imports = append(f.Imports, spec)
			return
		}
	}
	gd := &ast.GenDecl{Tok: token.IMPORT, Specs: []ast.Spec{spec}}
	f.Decls = append([]ast.Decl{gd}, f.Decls...)
	f.Imports = append(f.Imports, spec)
}

func swapImport(f *ast.File, from, to string) bool {
	ok := false
	for _, im := range f.Imports {
		if im.Path.Value == strconv.Quote(from) {
			local := from
			if i := strings.LastIndex(from, "/"); i >= 0 {
				local = from[i+1:]
			}
			if im.Name != nil {
				local = im.Name.Name
			}
			im.Name = ast.NewIdent(local)
			im.Path.Value = strconv.Quote(to)
			ok = true
		}
	}
	return ok
}

// callTransform redirects calls of pkg.fn to the identifier to.
func callTransform(f *ast.File, pkg, fn, to string) int {
	n := 0
	ast.Inspect(f, func(node ast.Node) bool {
		call, ok := node.(*ast.CallExpr)
		if !ok {
			return true
		}
		sel, ok := call.Fun.(*ast.SelectorExpr)
		if !ok || sel.Sel.Name != fn {
			return true
		}
		if x, ok := sel.X.(*ast.Ident); ok && x.Name == pkg {
			call.Fun = ast.NewIdent(to)
			n++
		}
		return true
	})
	return n
}

func isTCPLit(e ast.Expr) bool {
	bl, ok := e.(*ast.BasicLit)
	return ok && bl.Kind == token.STRING && bl.Value == `"tcp"`
}

func dialTransform(f *ast.File) int {
	n := 0
	ast.Inspect(f, func(node ast.Node) bool {
		call, ok := node.(*ast.CallExpr)
		if !ok {
			return true
		}
		sel, ok := call.Fun.(*ast.SelectorExpr)
		if !ok || len(call.Args) < 2 || !isTCPLit(call.Args[0]) {
			return true
		}
		switch sel.Sel.Name {
		case "Dial":
			if len(call.Args) != 2 {
				return true
			}
			orig := call.Fun
			call.Fun = &ast.SelectorExpr{X: ast.NewIdent("vnet"), Sel: ast.NewIdent("Dial")}
			call.Args = append([]ast.Expr{orig}, call.Args...)
			n++
		case "DialTimeout":
			if len(call.Args) != 3 {
				return true
			}
			if x, ok := sel.X.(*ast.Ident); !ok || x.Name != "net" {
				return true
			}
			orig := call.Fun
			call.Fun = &ast.SelectorExpr{X: ast.NewIdent("vnet"), Sel: ast.NewIdent("DialTimeout")}
			call.Args = append([]ast.Expr{orig}, call.Args...)
			n++
		}
		return true
	})
	return n
}

// ---------------------------------------------------------------------------
// select -> switch

type selRewriter struct {
	fset  *token.FileSet
	file  string
	count int
}

func (r *selRewriter) run(f *ast.File) {
	ast.Inspect(f, func(n ast.Node) bool {
		switch x := n.(type) {
		case *ast.BlockStmt:
			r.fixList(x.List)
		case *ast.CaseClause:
			r.fixList(x.Body)
		case *ast.CommClause:
			r.fixList(x.Body)
		case *ast.LabeledStmt:
			// handled from the enclosing list
		}
		return true
	})
}

func (r *selRewriter) fixList(list []ast.Stmt) {
	for i, st := range list {
		switch x := st.(type) {
		case *ast.SelectStmt:
			list[i] = r.rewrite(x, nil)
		case *ast.LabeledStmt:
			if sel, ok := x.Stmt.(*ast.SelectStmt); ok {
				list[i] = r.rewrite(sel, x.Label)
			}
		}
	}
}

func id(s string) *ast.Ident { return ast.NewIdent(s) }

func call(pkg, fn string, args ...ast.Expr) *ast.CallExpr {
	return &ast.CallExpr{Fun: &ast.SelectorExpr{X: id(pkg), Sel: id(fn)}, Args: args}
}

func strLit(s string) ast.Expr { return &ast.BasicLit{Kind: token.STRING, Value: strconv.Quote(s)} }
func intLit(n int) ast.Expr    { return &ast.BasicLit{Kind: token.INT, Value: strconv.Itoa(n)} }

func (r *selRewriter) rewrite(sel *ast.SelectStmt, label *ast.Ident) ast.Stmt {
	r.count++
	k := r.count
	pos := r.fset.Position(sel.Pos())
	site := fmt.Sprintf("%s:%d", r.file, pos.Line)
	sName := fmt.Sprintf("__vs%d", k)
	var pre []ast.Stmt
	pre = append(pre, &ast.AssignStmt{Lhs: []ast.Expr{id(sName)}, Tok: token.DEFINE, Rhs: []ast.Expr{call("vsel", "New", strLit(site))}})
	sw := &ast.SwitchStmt{Body: &ast.BlockStmt{}}
	hasDefault := false
	idx := 0
	for _, cl := range sel.Body.List {
		cc := cl.(*ast.CommClause)
		if cc.Comm == nil {
			hasDefault = true
			sw.Body.List = append(sw.Body.List, &ast.CaseClause{List: []ast.Expr{&ast.UnaryExpr{Op: token.SUB, X: intLit(1)}}, Body: cc.Body})
			continue
		}
		cName := fmt.Sprintf("__vc%d_%d", k, idx)
		var body []ast.Stmt
		switch c := cc.Comm.(type) {
		case *ast.SendStmt:
			pre = append(pre, &ast.ExprStmt{X: call("vsel", "Send", id(sName), c.Chan, c.Value)})
		case *ast.ExprStmt: // case <-ch:
			ue := c.X.(*ast.UnaryExpr)
			pre = append(pre, &ast.AssignStmt{Lhs: []ast.Expr{id(cName)}, Tok: token.DEFINE, Rhs: []ast.Expr{call("vsel", "Recv", id(sName), ue.X)}})
			pre = append(pre, &ast.AssignStmt{Lhs: []ast.Expr{id("_")}, Tok: token.ASSIGN, Rhs: []ast.Expr{id(cName)}})
		case *ast.AssignStmt: // case v[, ok] (:= | =) <-ch:
			ue := c.Rhs[0].(*ast.UnaryExpr)
			pre = append(pre, &ast.AssignStmt{Lhs: []ast.Expr{id(cName)}, Tok: token.DEFINE, Rhs: []ast.Expr{call("vsel", "Recv", id(sName), ue.X)}})
			rhs := []ast.Expr{&ast.SelectorExpr{X: id(cName), Sel: id("Val")}}
			if len(c.Lhs) == 2 {
				rhs = append(rhs, &ast.SelectorExpr{X: id(cName), Sel: id("Ok")})
			}
			body = append(body, &ast.AssignStmt{Lhs: c.Lhs, Tok: c.Tok, Rhs: rhs})
			if c.Tok == token.DEFINE {
				// keep "declared and not used" impossible
				for _, l := range c.Lhs {
					if li, ok := l.(*ast.Ident); ok && li.Name != "_" {
						body = append(body, &ast.AssignStmt{Lhs: []ast.Expr{id("_")}, Tok: token.ASSIGN, Rhs: []ast.Expr{id(li.Name)}})
					}
				}
			}
		default:
			die("%s: unsupported comm clause %T", site, cc.Comm)
		}
		body = append(body, cc.Body...)
		sw.Body.List = append(sw.Body.List, &ast.CaseClause{List: []ast.Expr{intLit(idx)}, Body: body})
		idx++
	}
	// keep terminating-statement analysis: a select with all-returning cases stays terminating
	sw.Body.List = append(sw.Body.List, &ast.CaseClause{List: nil, Body: []ast.Stmt{
		&ast.ExprStmt{X: &ast.CallExpr{Fun: id("panic"), Args: []ast.Expr{strLit("vsel: unreachable")}}}}})
	hd := "false"
	if hasDefault {
		hd = "true"
	}
	sw.Tag = &ast.CallExpr{Fun: &ast.SelectorExpr{X: id(sName), Sel: id("Wait")}, Args: []ast.Expr{id(hd)}}
	var swStmt ast.Stmt = sw
	if label != nil {
		swStmt = &ast.LabeledStmt{Label: label, Stmt: sw}
	}
	return &ast.BlockStmt{List: append(pre, swStmt)}
}

// ---------------------------------------------------------------------------
// yield points

type yieldRewriter struct {
	fset  *token.FileSet
	file  string
	count int
	made  map[*ast.BlockStmt]bool // blocks this transform created
	// yield-calls: names of functions / methods after whose call statement a point is put;
	// callsOnly = put nothing else (the wake-up statements belong to the `yield` transform)
	calls     map[string]bool
	callsOnly bool
}

func (y *yieldRewriter) isListedCall(e ast.Expr) bool {
	call, ok := e.(*ast.CallExpr)
	if !ok || len(y.calls) == 0 {
		return false
	}
	switch fn := call.Fun.(type) {
	case *ast.Ident:
		return y.calls[fn.Name]
	case *ast.SelectorExpr:
		return y.calls[fn.Sel.Name]
	}
	return false
}

// fixListCalls is fixList of the yield-calls transform.
func (y *yieldRewriter) fixListCalls(list []ast.Stmt) []ast.Stmt {
	var out []ast.Stmt
	for _, st := range list {
		out = append(out, st)
		switch x := st.(type) {
		case *ast.ExprStmt:
			if y.isListedCall(x.X) {
				out = append(out, y.yieldStmt(x.Pos()))
			}
		case *ast.AssignStmt:
			if len(x.Rhs) == 1 && y.isListedCall(x.Rhs[0]) {
				out = append(out, y.yieldStmt(x.Pos()))
			}
		}
	}
	return out
}

var wakeMethods = map[string]bool{"Unlock": true, "RUnlock": true, "Done": true, "Signal": true, "Broadcast": true, "Close": true}

func (y *yieldRewriter) isWakeCall(e ast.Expr) bool {
	call, ok := e.(*ast.CallExpr)
	if !ok {
		return false
	}
	switch fn := call.Fun.(type) {
	case *ast.Ident:
		return fn.Name == "close" && len(call.Args) == 1
	case *ast.SelectorExpr:
		return wakeMethods[fn.Sel.Name]
	}
	return false
}

func (y *yieldRewriter) yieldStmt(pos token.Pos) ast.Stmt {
	y.count++
	p := y.fset.Position(pos)
	return &ast.ExprStmt{X: call("vsel", "Yield", strLit(fmt.Sprintf("%s:%d", y.file, p.Line)))}
}

func (y *yieldRewriter) fixList(list []ast.Stmt) []ast.Stmt {
	var out []ast.Stmt
	for _, st := range list {
		switch x := st.(type) {
		case *ast.ExprStmt:
			out = append(out, st)
			if ue, ok := x.X.(*ast.UnaryExpr); ok && ue.Op == token.ARROW {
				out = append(out, y.yieldStmt(x.Pos()))
			} else if y.isWakeCall(x.X) {
				out = append(out, y.yieldStmt(x.Pos()))
			}
			continue
		case *ast.SendStmt:
			out = append(out, st, y.yieldStmt(x.Pos()))
			continue
		case *ast.AssignStmt:
			// v := <-ch / v, ok = <-ch : a receive can wake a blocked sender
			if len(x.Rhs) == 1 {
				if ue, ok := x.Rhs[0].(*ast.UnaryExpr); ok && ue.Op == token.ARROW {
					out = append(out, st, y.yieldStmt(x.Pos()))
					continue
				}
			}
		case *ast.GoStmt:
			out = append(out, st, y.yieldStmt(x.Pos()))
			continue
		case *ast.DeferStmt:
			if fn, ok := x.Call.Fun.(*ast.Ident); ok && fn.Name == "close" && len(x.Call.Args) == 1 {
				// defer close(ch) -> defer func() { close(ch); vsel.Yield(..) }()
				body := &ast.BlockStmt{List: []ast.Stmt{&ast.ExprStmt{X: x.Call}, y.yieldStmt(x.Pos())}}
				if y.made == nil {
					y.made = map[*ast.BlockStmt]bool{}
				}
				y.made[body] = true
				x.Call = &ast.CallExpr{Fun: &ast.FuncLit{Type: &ast.FuncType{Params: &ast.FieldList{}}, Body: body}}
			}
		}
		out = append(out, st)
	}
	return out
}

func (y *yieldRewriter) run(f *ast.File) {
	if y.callsOnly {
		ast.Inspect(f, func(n ast.Node) bool {
			switch x := n.(type) {
			case *ast.BlockStmt:
				x.List = y.fixListCalls(x.List)
			case *ast.CaseClause:
				x.Body = y.fixListCalls(x.Body)
			case *ast.CommClause:
				x.Body = y.fixListCalls(x.Body)
			}
			return true
		})
		return
	}
	ast.Inspect(f, func(n ast.Node) bool {
		switch x := n.(type) {
		case *ast.BlockStmt:
			if y.made[x] {
				return false
			}
			x.List = y.fixList(x.List)
		case *ast.CaseClause:
			x.Body = y.fixList(x.Body)
		case *ast.CommClause:
			x.Body = y.fixList(x.Body)
			// a send or receive chosen by a select wakes the peer blocked on that channel
			if x.Comm != nil {
				x.Body = append([]ast.Stmt{y.yieldStmt(x.Pos())}, x.Body...)
			}
		}
		return true
	})
}

// Package mc is the hand-written explorer: a stateless, deviation-bounded depth-first
// search over the choice points a harness exposes, plus the reporting plumbing the
// orchestrator (bin/check) reads.
//
// A harness run is a function of a *Chooser. Every source of nondeterminism the
// harness owns is a call to Choose(tag, n); choice 0 is the default (quiet)
// environment answer and is free, every other answer costs one deviation (or the cost
// the harness states). Explore enumerates all choice sequences whose total cost is at
// most the bound. While replaying a prefix the (tag, n) seen must equal the recorded
// one - a mismatch means the harness is not deterministic and is reported as such,
// never as a property violation.
package mc

import (
	"encoding/binary"
	"encoding/json"
	"fmt"
	"hash/fnv"
	"os"
	"sort"
	"strconv"
	"strings"
	"sync"
	"time"
)

// Point is one resolved choice point.
type Point struct {
	Tag    string `json:"tag"`
	N      int    `json:"n"`
	Choice int    `json:"c"`
	Cost   int    `json:"-"`
	costs  []int
}

// Chooser hands out choices for one execution.
type Chooser struct {
	prefix []Point
	pts    []Point
	nondet string
}

// NewChooser builds a chooser that replays the given choices (used by --replay).
func NewChooser(prefix []Point) *Chooser { return &Chooser{prefix: prefix} }

// Choose returns an answer in [0,n). 0 is the default; others cost 1.
func (c *Chooser) Choose(tag string, n int) int { return c.choose(tag, n, nil) }

// ChooseFree is a choice whose alternatives are all free (enumerated completely).
func (c *Chooser) ChooseFree(tag string, n int) int {
	return c.choose(tag, n, make([]int, n))
}

// ChooseCost is a choice with explicit per-alternative costs (costs[0] should be 0).
func (c *Chooser) ChooseCost(tag string, costs []int) int {
	return c.choose(tag, len(costs), costs)
}

func (c *Chooser) choose(tag string, n int, costs []int) int {
	if n <= 0 {
		panic("mc: Choose with n <= 0: " + tag)
	}
	i := len(c.pts)
	ch := 0
	if i < len(c.prefix) {
		want := c.prefix[i]
		if want.Tag != tag || want.N != n {
			if c.nondet == "" {
				c.nondet = fmt.Sprintf("at choice %d: recorded (%s,%d), now (%s,%d)", i, want.Tag, want.N, tag, n)
			}
		} else {
			ch = want.Choice
		}
	}
	if ch >= n {
		ch = 0
	}
	cost := 0
	if ch != 0 {
		cost = 1
		if costs != nil {
			cost = costs[ch]
		}
	}
	c.pts = append(c.pts, Point{Tag: tag, N: n, Choice: ch, Cost: cost, costs: costs})
	return ch
}

// Points returns the choices made so far.
func (c *Chooser) Points() []Point { return c.pts }

// Deviations is the total cost so far.
func (c *Chooser) Deviations() int {
	t := 0
	for _, p := range c.pts {
		t += p.Cost
	}
	return t
}

// Nondet is non-empty when replaying the prefix diverged.
func (c *Chooser) Nondet() string { return c.nondet }

// Result is what one execution reports.
type Result struct {
	Verdict    string      `json:"verdict"` // "ok" | "violation" | "infeasible" | "horizon" | "machinery"
	Clause     string      `json:"clause,omitempty"`
	Sig        string      `json:"sig,omitempty"` // finding signature (canonical key of the failing shape)
	Obs        uint64      `json:"obs"`           // canonical observation hash
	Nontrivial bool        `json:"nontrivial"`
	Events     int         `json:"events"`
	Detail     interface{} `json:"detail,omitempty"`
}

// OK is a convenience constructor.
func OK(obs uint64, nontrivial bool, events int) Result {
	return Result{Verdict: "ok", Obs: obs, Nontrivial: nontrivial, Events: events}
}

// Violation is a convenience constructor.
func Violation(clause, sig string, detail interface{}) Result {
	return Result{Verdict: "violation", Clause: clause, Sig: sig, Detail: detail, Nontrivial: true}
}

// Hash is a convenience FNV-1a over strings.
func Hash(parts ...string) uint64 {
	h := fnv.New64a()
	for _, p := range parts {
		h.Write([]byte(p))
		h.Write([]byte{0})
	}
	return h.Sum64()
}

// Budget bounds an exploration.
type Budget struct {
	Deadline time.Time // zero = none
	MaxExec  int64     // 0 = unlimited (per Explore call)
}

// Expired reports whether the wall-clock deadline passed.
func (b *Budget) Expired() bool {
	return b != nil && !b.Deadline.IsZero() && time.Now().After(b.Deadline)
}

// ExploreStats summarises one Explore call.
type ExploreStats struct {
	Execs     int64
	Capped    bool
	MaxPoints int
	Nondet    string
}

// Explore runs the DFS. visit is called once per execution with its choices and
// result; returning false stops the search (e.g. enough violations recorded).
func Explore(bound int, budget *Budget, run func(*Chooser) Result, visit func([]Point, Result) bool) ExploreStats {
	return ExploreSplit(bound, budget, 0, 1, run, visit)
}

// ExploreSplit is Explore for one scenario whose execution tree is divided among nparts
// processes: every part runs the root execution (only part 0 reports it), the root's
// children are dealt out round-robin in their deterministic order, and each part explores the
// whole subtrees below its children. The union over all parts is exactly Explore's set.
func ExploreSplit(bound int, budget *Budget, part, nparts int, run func(*Chooser) Result, visit func([]Point, Result) bool) ExploreStats {
	var st ExploreStats
	stack := [][]Point{nil}
	root := true
	for len(stack) > 0 {
		if budget.Expired() || (budget != nil && budget.MaxExec > 0 && st.Execs >= budget.MaxExec) {
			st.Capped = true
			return st
		}
		prefix := stack[len(stack)-1]
		stack = stack[:len(stack)-1]
		c := &Chooser{prefix: prefix}
		res := run(c)
		st.Execs++
		if c.nondet != "" {
			st.Nondet = c.nondet
			visit(c.pts, Result{Verdict: "machinery", Clause: "nondeterministic harness: " + c.nondet})
			return st
		}
		if len(c.pts) > st.MaxPoints {
			st.MaxPoints = len(c.pts)
		}
		isRoot := root
		root = false
		if isRoot && nparts > 1 && part != 0 {
			st.Execs-- // reported by part 0
		} else if !visit(c.pts, res) {
			st.Capped = true
			return st
		}
		// children: positions at or after the prefix, in reverse so that the
		// earliest/smallest alternative is explored first (stack order)
		costBefore := make([]int, len(c.pts)+1)
		for i, p := range c.pts {
			costBefore[i+1] = costBefore[i] + p.Cost
		}
		nth := 0
		for i := len(c.pts) - 1; i >= len(prefix); i-- {
			p := c.pts[i]
			for alt := p.N - 1; alt >= 1; alt-- {
				ac := 1
				if p.costs != nil {
					ac = p.costs[alt]
				}
				if costBefore[i]+ac > bound {
					continue
				}
				nth++
				if isRoot && nparts > 1 && nth%nparts != part {
					continue
				}
				child := make([]Point, i+1)
				copy(child, c.pts[:i])
				child[i] = Point{Tag: p.Tag, N: p.N, Choice: alt}
				stack = append(stack, child)
			}
		}
	}
	return st
}

// ---------------------------------------------------------------------------
// Reporting

// Reporter aggregates executions of one shard and writes JSONL for bin/check.
type Reporter struct {
	mu        sync.Mutex
	f         *os.File
	obsFile   *os.File
	Check     string
	Shard     string
	execs     int64
	events    int64
	verdicts  map[string]int64
	obs       map[uint64]struct{}
	obsAll    map[uint64]struct{}
	samples   []json.RawMessage
	violSig   map[string]int
	MaxPerSig int
	capped    bool
	notes     []string
	scenarios int64
	start     time.Time
	maxSample int
	extra     map[string]int64
}

// NewReporter opens <dir>/<check>.<shard>.jsonl (dir from VERIF_OUT).
func NewReporter(check string) (*Reporter, error) {
	dir := os.Getenv("VERIF_OUT")
	if dir == "" {
		dir = os.TempDir()
	}
	shard := os.Getenv("VERIF_SHARD")
	if shard == "" {
		shard = "0/1"
	}
	name := fmt.Sprintf("%s/%s.%s", dir, check, strings.ReplaceAll(shard, "/", "of"))
	f, err := os.Create(name + ".jsonl")
	if err != nil {
		return nil, err
	}
	of, err := os.Create(name + ".obs")
	if err != nil {
		return nil, err
	}
	return &Reporter{f: f, obsFile: of, Check: check, Shard: shard, verdicts: map[string]int64{}, obs: map[uint64]struct{}{},
		obsAll: map[uint64]struct{}{}, violSig: map[string]int{}, MaxPerSig: 2, start: time.Now(), maxSample: 6, extra: map[string]int64{}}, nil
}

// ShardOf parses VERIF_SHARD "i/n".
func ShardOf() (int, int) {
	s := os.Getenv("VERIF_SHARD")
	if s == "" {
		return 0, 1
	}
	parts := strings.Split(s, "/")
	i, _ := strconv.Atoi(parts[0])
	n, _ := strconv.Atoi(parts[1])
	if n <= 0 {
		n = 1
	}
	return i, n
}

// Tier returns VERIF_TIER (default quick).
func Tier() string {
	t := os.Getenv("VERIF_TIER")
	if t == "" {
		t = "quick"
	}
	return t
}

// DeadlineFromEnv reads VERIF_DEADLINE_S (seconds from now; 0/absent = none).
func DeadlineFromEnv() time.Time {
	s := os.Getenv("VERIF_DEADLINE_S")
	if s == "" {
		return time.Time{}
	}
	n, err := strconv.Atoi(s)
	if err != nil || n <= 0 {
		return time.Time{}
	}
	return time.Now().Add(time.Duration(n) * time.Second)
}

func (r *Reporter) write(v interface{}) {
	b, err := json.Marshal(v)
	if err != nil {
		b, _ = json.Marshal(map[string]string{"t": "machinery", "msg": "marshal: " + err.Error()})
	}
	r.f.Write(append(b, '\n'))
}

// Scenario notes that one more scenario was started.
func (r *Reporter) Scenario() {
	r.mu.Lock()
	r.scenarios++
	r.mu.Unlock()
}

// Count adds to a named extra counter (ends up in the summary).
func (r *Reporter) Count(name string, d int64) {
	r.mu.Lock()
	r.extra[name] += d
	r.mu.Unlock()
}

// Exec records one execution. scn is any JSON-able description of the scenario.
func (r *Reporter) Exec(scn interface{}, choices []Point, res Result) {
	r.mu.Lock()
	defer r.mu.Unlock()
	r.execs++
	r.events += int64(res.Events)
	r.verdicts[res.Verdict]++
	r.obsAll[res.Obs] = struct{}{}
	if res.Nontrivial && res.Verdict != "machinery" {
		if _, ok := r.obs[res.Obs]; !ok {
			r.obs[res.Obs] = struct{}{}
			var b [8]byte
			binary.LittleEndian.PutUint64(b[:], res.Obs)
			r.obsFile.Write(b[:])
			if len(r.samples) < r.maxSample && res.Verdict == "ok" {
				s, _ := json.Marshal(map[string]interface{}{"scenario": scn, "choices": compact(choices), "result": res})
				r.samples = append(r.samples, s)
			}
		}
	}
	switch res.Verdict {
	case "violation":
		r.violSig[res.Sig]++
		if r.violSig[res.Sig] <= r.MaxPerSig {
			r.write(map[string]interface{}{"t": "violation", "check": r.Check, "scenario": scn, "choices": choices, "clause": res.Clause, "sig": res.Sig, "detail": res.Detail})
		}
	case "machinery":
		r.write(map[string]interface{}{"t": "machinery", "check": r.Check, "scenario": scn, "choices": choices, "msg": res.Clause, "detail": res.Detail})
	}
}

func compact(ch []Point) []string {
	var out []string
	for _, p := range ch {
		if p.Choice != 0 {
			out = append(out, fmt.Sprintf("%s=%d/%d", p.Tag, p.Choice, p.N))
		}
	}
	return out
}

// Machinery records a failure of the harness itself.
func (r *Reporter) Machinery(msg string, detail interface{}) {
	r.mu.Lock()
	defer r.mu.Unlock()
	r.verdicts["machinery"]++
	r.write(map[string]interface{}{"t": "machinery", "check": r.Check, "msg": msg, "detail": detail})
}

// Capped marks the run as cut short (deadline / execution cap).
func (r *Reporter) Capped(note string) {
	r.mu.Lock()
	r.capped = true
	r.notes = append(r.notes, note)
	r.mu.Unlock()
}

// Note adds a free-text note to the summary.
func (r *Reporter) Note(note string) {
	r.mu.Lock()
	r.notes = append(r.notes, note)
	r.mu.Unlock()
}

// Violations is the number of violating executions seen.
func (r *Reporter) Violations() int64 {
	r.mu.Lock()
	defer r.mu.Unlock()
	return r.verdicts["violation"]
}

// Close writes the shard summary.
func (r *Reporter) Close(extra map[string]interface{}) {
	r.mu.Lock()
	defer r.mu.Unlock()
	sigs := make([]string, 0, len(r.violSig))
	for s := range r.violSig {
		sigs = append(sigs, s)
	}
	sort.Strings(sigs)
	sum := map[string]interface{}{
		"t": "summary", "check": r.Check, "shard": r.Shard, "execs": r.execs, "events": r.events, "scenarios": r.scenarios,
		"verdicts": r.verdicts, "distinct_nontrivial": len(r.obs), "distinct_all": len(r.obsAll), "samples": r.samples,
		"capped": r.capped, "notes": r.notes, "viol_sigs": r.violSig, "wall_s": time.Since(r.start).Seconds(), "counters": r.extra,
	}
	for k, v := range extra {
		sum[k] = v
	}
	r.write(sum)
	r.f.Close()
	r.obsFile.Close()
}

// ---------------------------------------------------------------------------
// Replay files

// Replay is the artefact bin/check writes for a violation and feeds back with
// VERIF_REPLAY.
type Replay struct {
	Property string          `json:"property"`
	Check    string          `json:"check"`
	Scenario json.RawMessage `json:"scenario"`
	Choices  []Point         `json:"choices"`
	Clause   string          `json:"clause"`
	Sig      string          `json:"sig"`
	Detail   json.RawMessage `json:"detail"`
}

// LoadReplay reads VERIF_REPLAY if set.
func LoadReplay() (*Replay, error) {
	p := os.Getenv("VERIF_REPLAY")
	if p == "" {
		return nil, nil
	}
	b, err := os.ReadFile(p)
	if err != nil {
		return nil, err
	}
	var rp Replay
	if err := json.Unmarshal(b, &rp); err != nil {
		return nil, err
	}
	return &rp, nil
}

// RunScenario explores one scenario and reports every execution. A violating
// execution is re-executed twice from its choice sequence; if the verdict or the
// signature differs the harness is nondeterministic and that is reported as a
// machinery failure instead of a violation.
func RunScenario(rep *Reporter, scn interface{}, bound int, budget *Budget, run func(*Chooser) Result) ExploreStats {
	return RunScenarioSplit(rep, scn, bound, budget, 0, 1, run)
}

// RunScenarioSplit is RunScenario for a scenario that all shards explore together (see ExploreSplit).
func RunScenarioSplit(rep *Reporter, scn interface{}, bound int, budget *Budget, part, nparts int, run func(*Chooser) Result) ExploreStats {
	if part == 0 || nparts <= 1 {
		rep.Scenario()
	}
	st := ExploreSplit(bound, budget, part, nparts, run, func(ch []Point, res Result) bool {
		if res.Verdict == "violation" {
			for k := 0; k < 2; k++ {
				c := NewChooser(ch)
				r2 := run(c)
				if c.Nondet() != "" || r2.Verdict != res.Verdict || r2.Sig != res.Sig {
					rep.Exec(scn, ch, Result{Verdict: "machinery", Clause: fmt.Sprintf("violation not reproducible on re-run %d: first=%s/%s now=%s/%s nondet=%q", k+1, res.Verdict, res.Sig, r2.Verdict, r2.Sig, c.Nondet()), Detail: res.Detail})
					return false
				}
			}
		}
		rep.Exec(scn, ch, res)
		return true
	})
	if st.Capped {
		rep.Capped(fmt.Sprintf("scenario cut short after %d executions", st.Execs))
	}
	return st
}

// Peek returns the recorded answer for the NEXT choice point when the chooser is
// still replaying its prefix and that point carries the given tag; otherwise (0,0).
// It exists for choices that must be known before the step they qualify (a crash
// point inside the burst of requests an event causes): the harness peeks, runs the
// event accordingly, and then registers the point with Choose using the returned n.
func (c *Chooser) Peek(tag string) (choice, n int) {
	i := len(c.pts)
	if i < len(c.prefix) && c.prefix[i].Tag == tag {
		return c.prefix[i].Choice, c.prefix[i].N
	}
	return 0, 0
}

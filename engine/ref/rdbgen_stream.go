package ref

// RDB generator, part 4: streams (t_stream.c streamAppendItem layout, rdb.c
// rdbSaveObject for OBJ_STREAM).
//
//	<n listpacks> { <16-byte master ID, big endian><listpack> }*
//	<length> <last-id.ms> <last-id.seq>
//	[v2+] <first-id.ms> <first-id.seq> <max-deleted-id.ms> <max-deleted-id.seq> <entries-added>
//	<n groups> { <name> <last-id.ms> <last-id.seq> [v2+ <entries-read>]
//	             <n pel> { <16-byte id> <delivery-time i64le> <delivery-count> }*
//	             <n consumers> { <name> <seen-time i64le> [v3+ <active-time i64le>] <n pel> { <16-byte id> }* }* }*
//	[v4] IDMP section - layout taken from the loader's own comments (NOT independent):
//	     <duration> <max-entries> <n producers>{...} <iids-added> <iids-duplicates>
//
// listpack of one radix-tree node:
//
//	master entry: count deleted num-fields field_1..field_N 0
//	entry:        flags ms-diff seq-diff [num-fields {field value}*] | [value*] lp-count
//	flags: 1 = deleted, 2 = same fields as the master entry

import (
	"fmt"
	"sort"
)

// SID is a stream entry ID.
type SID struct{ Ms, Seq uint64 }

func (a SID) Less(b SID) bool { return a.Ms < b.Ms || (a.Ms == b.Ms && a.Seq < b.Seq) }
func (a SID) String() string  { return fmt.Sprintf("%d-%d", a.Ms, a.Seq) }

// SEntry is one stream entry; a Deleted entry is still physically present in its
// listpack (flag bit 1) but is not part of the stream's content.
type SEntry struct {
	ID      SID
	Fields  [][]byte // field1 value1 field2 value2 ...
	Deleted bool
}

// SPending is one entry of a group's pending entries list.
type SPending struct {
	ID            SID
	Consumer      string
	DeliveryTime  int64
	DeliveryCount uint64
}

// SConsumer is one consumer of a group.
type SConsumer struct {
	Name       []byte
	SeenTime   int64
	ActiveTime int64
}

// SCGInvalidEntriesRead is stream.h SCG_INVALID_ENTRIES_READ (-1, "the counter is unknown") as
// the unsigned value rdbSaveLen writes for it.
const SCGInvalidEntriesRead = ^uint64(0)

// SGroup is one consumer group.
type SGroup struct {
	Name        []byte
	LastID      SID
	EntriesRead uint64 // v2+; SCGInvalidEntriesRead = unknown
	PEL         []SPending
	Consumers   []SConsumer
}

// SStream is a logical stream.
type SStream struct {
	Entries      []SEntry // ascending IDs, tombstones included
	LastID       SID
	FirstID      SID    // v2+
	MaxDeletedID SID    // v2+
	EntriesAdded uint64 // v2+
	Groups       []SGroup
}

// Live returns the non-deleted entries.
func (s *SStream) Live() []SEntry {
	var out []SEntry
	for _, e := range s.Entries {
		if !e.Deleted {
			out = append(out, e)
		}
	}
	return out
}

func sameFieldNames(a, b [][]byte) bool {
	if len(a) != len(b) {
		return false
	}
	for i := 0; i < len(a); i += 2 {
		if string(a[i]) != string(b[i]) {
			return false
		}
	}
	return true
}

func streamListpack(es []SEntry) []byte {
	master := es[0]
	var ent [][]byte
	live, dead := 0, 0
	for _, e := range es {
		if e.Deleted {
			dead++
		} else {
			live++
		}
	}
	nf := len(master.Fields) / 2
	ent = append(ent, lpInt(int64(live)), lpInt(int64(dead)), lpInt(int64(nf)))
	for i := 0; i < len(master.Fields); i += 2 {
		ent = append(ent, lpElem(master.Fields[i]))
	}
	ent = append(ent, lpInt(0))
	for _, e := range es {
		flags := int64(0)
		if e.Deleted {
			flags |= 1
		}
		same := sameFieldNames(master.Fields, e.Fields)
		if same {
			flags |= 2
		}
		n := len(e.Fields) / 2
		ent = append(ent, lpInt(flags), lpInt(int64(e.ID.Ms-master.ID.Ms)), lpInt(int64(e.ID.Seq-master.ID.Seq)))
		lpCount := int64(n + 3)
		if same {
			for i := 1; i < len(e.Fields); i += 2 {
				ent = append(ent, lpElem(e.Fields[i]))
			}
		} else {
			ent = append(ent, lpInt(int64(n)))
			for i := 0; i < len(e.Fields); i++ {
				ent = append(ent, lpElem(e.Fields[i]))
			}
			lpCount += int64(n + 1)
		}
		ent = append(ent, lpInt(lpCount))
	}
	return listpackRaw(ent)
}

func sidRaw(b []byte, id SID) []byte { return be64(be64(b, id.Ms), id.Seq) }

func encodeStream(s *SStream, enc RDBEnc) (byte, []byte, error) {
	var code byte
	ver := 0
	switch enc.Kind {
	case "v1":
		code, ver = RDBTypeStreamListpacks, 1
	case "v2":
		code, ver = RDBTypeStreamLP2, 2
	case "v3":
		code, ver = RDBTypeStreamLP3, 3
	case "v4":
		code, ver = RDBTypeStreamLP4, 4
	default:
		return 0, nil, fmt.Errorf("stream has no encoding %q", enc.Kind)
	}
	if s == nil {
		return 0, nil, fmt.Errorf("nil stream")
	}
	so := enc.Str
	var b []byte
	cs := chunks(len(s.Entries), enc.Node)
	b = rdbLen(b, uint64(len(cs)))
	for _, c := range cs {
		es := s.Entries[c[0]:c[1]]
		b = rdbString(b, sidRaw(nil, es[0].ID), blobOpt(so))
		b = rdbString(b, streamListpack(es), blobOpt(so))
	}
	b = rdbLen(b, uint64(len(s.Live())))
	b = rdbLen(b, s.LastID.Ms)
	b = rdbLen(b, s.LastID.Seq)
	if ver >= 2 {
		b = rdbLen(b, s.FirstID.Ms)
		b = rdbLen(b, s.FirstID.Seq)
		b = rdbLen(b, s.MaxDeletedID.Ms)
		b = rdbLen(b, s.MaxDeletedID.Seq)
		b = rdbLen(b, s.EntriesAdded)
	}
	gs := append([]SGroup(nil), s.Groups...)
	sort.SliceStable(gs, func(i, j int) bool { return string(gs[i].Name) < string(gs[j].Name) })
	b = rdbLen(b, uint64(len(gs)))
	for _, g := range gs {
		b = rdbString(b, g.Name, so)
		b = rdbLen(b, g.LastID.Ms)
		b = rdbLen(b, g.LastID.Seq)
		if ver >= 2 {
			b = rdbLen(b, g.EntriesRead)
		}
		pel := append([]SPending(nil), g.PEL...)
		sort.SliceStable(pel, func(i, j int) bool { return pel[i].ID.Less(pel[j].ID) })
		b = rdbLen(b, uint64(len(pel)))
		for _, p := range pel {
			b = sidRaw(b, p.ID)
			b = le64(b, uint64(p.DeliveryTime))
			b = rdbLen(b, p.DeliveryCount)
		}
		cons := append([]SConsumer(nil), g.Consumers...)
		sort.SliceStable(cons, func(i, j int) bool { return string(cons[i].Name) < string(cons[j].Name) })
		b = rdbLen(b, uint64(len(cons)))
		for _, c := range cons {
			b = rdbString(b, c.Name, so)
			b = le64(b, uint64(c.SeenTime))
			if ver >= 3 {
				b = le64(b, uint64(c.ActiveTime))
			}
			var mine []SID
			for _, p := range pel {
				if p.Consumer == string(c.Name) {
					mine = append(mine, p.ID)
				}
			}
			b = rdbLen(b, uint64(len(mine)))
			for _, id := range mine {
				b = sidRaw(b, id)
			}
		}
	}
	if ver >= 4 {
		// empty IDMP section: duration, max-entries, 0 producers, iids-added, iids-duplicates
		b = rdbLen(b, 0)
		b = rdbLen(b, 0)
		b = rdbLen(b, 0)
		b = rdbLen(b, 0)
		b = rdbLen(b, 0)
	}
	return code, b, nil
}

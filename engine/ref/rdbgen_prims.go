package ref

// RDB generator, part 1: primitives (CRC-64/Jones, length and string encodings, LZF
// compressor, double encodings). Written from the Redis RDB format (rdb.c / rdb.h,
// lzf_c.c), imports no repository code.

import (
	"encoding/binary"
	"math"
	"strconv"
)

// RDBCRC64 is a bitwise CRC-64/Jones (poly 0xad93d23594c935a9 reflected, init 0, no
// final xor) - the checksum of RDB files and DUMP payloads.
func RDBCRC64(crc uint64, p []byte) uint64 {
	const polyRev = 0x95AC9329AC4BC9B5
	for _, b := range p {
		crc ^= uint64(b)
		for i := 0; i < 8; i++ {
			if crc&1 != 0 {
				crc = (crc >> 1) ^ polyRev
			} else {
				crc >>= 1
			}
		}
	}
	return crc
}

// rdbLen appends a length in the RDB length encoding (rdbSaveLen).
func rdbLen(b []byte, n uint64) []byte {
	switch {
	case n < 1<<6:
		return append(b, byte(n))
	case n < 1<<14:
		return append(b, byte(n>>8)|0x40, byte(n))
	case n <= math.MaxUint32:
		b = append(b, 0x80)
		var t [4]byte
		binary.BigEndian.PutUint32(t[:], uint32(n))
		return append(b, t[:]...)
	default:
		b = append(b, 0x81)
		var t [8]byte
		binary.BigEndian.PutUint64(t[:], n)
		return append(b, t[:]...)
	}
}

// canonInt reports whether s is the canonical decimal form of an int64 (what
// string2ll / lpStringToInt64 accept: no leading zeros, no '+', no "-0", no spaces).
func canonInt(s []byte) (int64, bool) {
	if len(s) == 0 || len(s) > 20 {
		return 0, false
	}
	v, err := strconv.ParseInt(string(s), 10, 64)
	if err != nil {
		return 0, false
	}
	if strconv.FormatInt(v, 10) != string(s) {
		return 0, false
	}
	return v, true
}

// StrOpt selects how rdbSaveRawString-style strings are written.
type StrOpt struct {
	LZF      bool `json:"lzf,omitempty"`      // rdbcompression yes: strings > 20 bytes are LZF-compressed when that saves >= 4 bytes
	NoIntEnc bool `json:"noint,omitempty"`    // do not use the integer special encodings (Redis always tries them for len <= 11)
	ForceLZF bool `json:"forcelzf,omitempty"` // compress every string of >= 4 bytes even when it does not get smaller (a decoder must still accept it)
}

// rdbString appends a string the way rdbSaveRawString does: integer special encoding
// for canonical 32-bit integers of <= 11 characters, LZF when enabled, raw otherwise.
func rdbString(b []byte, s []byte, o StrOpt) []byte {
	if !o.NoIntEnc && len(s) <= 11 {
		if v, ok := canonInt(s); ok {
			switch {
			case v >= -128 && v <= 127:
				return append(b, 0xC0, byte(int8(v)))
			case v >= -32768 && v <= 32767:
				return append(b, 0xC1, byte(v), byte(v>>8))
			case v >= math.MinInt32 && v <= math.MaxInt32:
				return append(b, 0xC2, byte(v), byte(v>>8), byte(v>>16), byte(v>>24))
			}
		}
	}
	if (o.LZF && len(s) > 20) || (o.ForceLZF && len(s) >= 4) {
		c := LZFCompress(s)
		if o.ForceLZF || len(c) <= len(s)-4 {
			b = append(b, 0xC3)
			b = rdbLen(b, uint64(len(c)))
			b = rdbLen(b, uint64(len(s)))
			return append(b, c...)
		}
	}
	b = rdbLen(b, uint64(len(s)))
	return append(b, s...)
}

// LZFCompress is a small greedy LZF compressor (liblzf stream format):
//   - literal run: ctrl = runlen-1 (0..31) followed by runlen bytes
//   - back reference: ctrl = (len-2)<<5 | (off>>8) for len-2 in 1..6, or 7<<5 | (off>>8)
//     followed by one byte (len-2-7); then one byte off&0xff; off = distance-1, distance <= 8192,
//     match length 3..264. Copies may overlap their own output (run-length style).
func LZFCompress(in []byte) []byte {
	var out []byte
	var lit []byte
	flush := func() {
		for len(lit) > 0 {
			n := len(lit)
			if n > 32 {
				n = 32
			}
			out = append(out, byte(n-1))
			out = append(out, lit[:n]...)
			lit = lit[n:]
		}
	}
	i := 0
	for i < len(in) {
		bestLen, bestDist := 0, 0
		if i+2 < len(in) {
			lo := i - 8192
			if lo < 0 {
				lo = 0
			}
			for j := i - 1; j >= lo; j-- {
				if in[j] != in[i] || in[j+1] != in[i+1] || in[j+2] != in[i+2] {
					continue
				}
				l := 3
				for i+l < len(in) && l < 264 && in[j+l] == in[i+l] {
					l++
				}
				if l > bestLen {
					bestLen, bestDist = l, i-j
					if l == 264 {
						break
					}
				}
			}
		}
		if bestLen >= 3 {
			flush()
			off := bestDist - 1
			l := bestLen - 2
			if l < 7 {
				out = append(out, byte(l<<5)|byte(off>>8))
			} else {
				out = append(out, byte(7<<5)|byte(off>>8), byte(l-7))
			}
			out = append(out, byte(off))
			i += bestLen
		} else {
			lit = append(lit, in[i])
			i++
		}
	}
	flush()
	return out
}

// lzfDecompressRef is only used by the generator's self test.
func lzfDecompressRef(in []byte, outlen int) ([]byte, bool) {
	out := make([]byte, 0, outlen)
	i := 0
	for i < len(in) {
		ctrl := int(in[i])
		i++
		if ctrl < 32 {
			n := ctrl + 1
			if i+n > len(in) {
				return nil, false
			}
			out = append(out, in[i:i+n]...)
			i += n
			continue
		}
		l := ctrl >> 5
		if l == 7 {
			if i >= len(in) {
				return nil, false
			}
			l += int(in[i])
			i++
		}
		if i >= len(in) {
			return nil, false
		}
		ref := len(out) - ((ctrl & 0x1f) << 8) - int(in[i]) - 1
		i++
		if ref < 0 {
			return nil, false
		}
		for k := 0; k < l+2; k++ {
			out = append(out, out[ref+k])
		}
	}
	return out, len(out) == outlen
}

// rdbDoubleText appends a score in the old text encoding (rdbSaveDoubleValue):
// 253 = nan, 254 = +inf, 255 = -inf, otherwise one length byte and "%.17g" text.
func rdbDoubleText(b []byte, f float64) []byte {
	switch {
	case math.IsNaN(f):
		return append(b, 253)
	case math.IsInf(f, 1):
		return append(b, 254)
	case math.IsInf(f, -1):
		return append(b, 255)
	}
	s := fmtG17(f)
	b = append(b, byte(len(s)))
	return append(b, s...)
}

// fmtG17 is C's "%.17g" for a finite double (what Redis <= 7.0 uses in d2string and
// rdbSaveDoubleValue); integral values that fit are printed as integers like Redis does.
func fmtG17(f float64) string {
	if f == math.Trunc(f) && math.Abs(f) < 1e17 {
		if f == 0 && math.Signbit(f) {
			return "-0"
		}
		return strconv.FormatInt(int64(f), 10)
	}
	return strconv.FormatFloat(f, 'g', 17, 64)
}

// rdbDoubleBin appends a score in the ZSET2 encoding: IEEE-754 binary64 little endian.
func rdbDoubleBin(b []byte, f float64) []byte {
	var t [8]byte
	binary.LittleEndian.PutUint64(t[:], math.Float64bits(f))
	return append(b, t[:]...)
}

func le16(b []byte, v uint16) []byte { return append(b, byte(v), byte(v>>8)) }
func le32(b []byte, v uint32) []byte { return append(b, byte(v), byte(v>>8), byte(v>>16), byte(v>>24)) }
func le64(b []byte, v uint64) []byte {
	return append(b, byte(v), byte(v>>8), byte(v>>16), byte(v>>24), byte(v>>32), byte(v>>40), byte(v>>48), byte(v>>56))
}
func be64(b []byte, v uint64) []byte {
	return append(b, byte(v>>56), byte(v>>48), byte(v>>40), byte(v>>32), byte(v>>24), byte(v>>16), byte(v>>8), byte(v))
}

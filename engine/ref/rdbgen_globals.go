package ref

// RDB generator, part 6: entries that belong to no key.
//
//	0xF5 <library code>            RDB_OPCODE_FUNCTION2 (RDB 10+, Redis 7.0+): one per function
//	                               library, written by rdbSaveFunctions between the AUX fields and
//	                               the first database
//	0xFA "lua" <script body>       AUX field written by Redis 5.0 - 6.2 (RDB 9) for every cached
//	                               script, behind the last database and in front of the EOF opcode
//
// A server never writes both kinds into one file; a reader has to accept either wherever it
// stands, so the generator places whatever it is given.

import "fmt"

// RDBGlobals are the key-less entries of a file.
type RDBGlobals struct {
	Functions  [][]byte // library source texts ("#!lua name=...\n...")
	LuaScripts [][]byte // script bodies of AUX "lua" fields
}

// RDBGlobalEntry is what the generator remembers about one key-less entry.
type RDBGlobalEntry struct {
	Kind   string // "function" | "lua"
	Text   []byte
	Offset int // offset of the opcode in the file
	End    int // offset just after the entry
}

// GenRDBGlobals is GenRDB plus function libraries and script AUX fields. The offsets of
// RDBGen.Values refer to the file returned.
func GenRDBGlobals(opt RDBFileOpt, keys []RDBKey, gl RDBGlobals) (*RDBGen, []RDBGlobalEntry, error) {
	g, err := GenRDB(opt, keys)
	if err != nil {
		return nil, nil, err
	}
	file, shift, entries, err := AddRDBGlobals(g.File, opt, gl)
	if err != nil {
		return nil, nil, err
	}
	ng := &RDBGen{File: file}
	for _, v := range g.Values {
		v.Offset += shift
		v.TypeAt += shift
		v.End += shift
		ng.Values = append(ng.Values, v)
	}
	return ng, entries, nil
}

// AddRDBGlobals places the key-less entries into a file GenRDB wrote with the same options and
// rewrites the footer. shift is the number of bytes by which everything behind the file header
// (AUX fields included) moved.
func AddRDBGlobals(file []byte, opt RDBFileOpt, gl RDBGlobals) (out []byte, shift int, entries []RDBGlobalEntry, err error) {
	if len(gl.Functions) == 0 && len(gl.LuaScripts) == 0 {
		return file, 0, nil, nil
	}
	if len(gl.Functions) > 0 && opt.Version < 10 {
		return nil, 0, nil, fmt.Errorf("function libraries need RDB >= 10, file version is %d", opt.Version)
	}
	if len(gl.LuaScripts) > 0 && opt.Version < 7 {
		return nil, 0, nil, fmt.Errorf("AUX fields need RDB >= 7, file version is %d", opt.Version)
	}
	foot := 0
	if opt.Version >= 5 {
		foot = 8
	}
	// header + AUX fields are what a file without keys consists of, minus EOF opcode and footer
	empty, err := GenRDB(opt, nil)
	if err != nil {
		return nil, 0, nil, err
	}
	head := len(empty.File) - 1 - foot
	bodyEnd := len(file) - 1 - foot
	if head < 9 || head > bodyEnd || string(file[:head]) != string(empty.File[:head]) || file[bodyEnd] != 0xFF {
		return nil, 0, nil, fmt.Errorf("cannot locate the end of the file header / the EOF opcode")
	}
	out = append([]byte(nil), file[:head]...)
	for _, f := range gl.Functions {
		at := len(out)
		out = append(out, 0xF5)
		out = rdbString(out, f, StrOpt{})
		entries = append(entries, RDBGlobalEntry{Kind: "function", Text: f, Offset: at, End: len(out)})
	}
	shift = len(out) - head
	out = append(out, file[head:bodyEnd]...)
	for _, s := range gl.LuaScripts {
		at := len(out)
		out = append(out, 0xFA)
		out = rdbString(out, []byte("lua"), StrOpt{})
		out = rdbString(out, s, StrOpt{})
		entries = append(entries, RDBGlobalEntry{Kind: "lua", Text: s, Offset: at, End: len(out)})
	}
	out = append(out, 0xFF)
	if opt.Version >= 5 {
		if opt.ZeroCRC {
			out = le64(out, 0)
		} else {
			out = le64(out, RDBCRC64(0, out))
		}
	}
	return out, shift, entries, nil
}

package ref

// RDB generator, part 3: logical values and their serialization under a chosen
// on-disk encoding (rdbSaveObject). The serialized VALUE BYTES returned here
// (type byte + body) are exactly what DUMP produces before its footer and therefore
// what a RESTORE payload must carry.

import (
	"fmt"
	"math"
	"sort"
	"strconv"
)

// ScoreText is the text form of a score inside a ziplist/listpack sorted set
// (d2string): "inf"/"-inf", integral values as integers, otherwise "%.17g" (Redis <= 7.0,
// legacy = true) or the shortest round-trip form (Redis >= 7.2).
func ScoreText(f float64, legacy bool) string {
	switch {
	case math.IsInf(f, 1):
		return "inf"
	case math.IsInf(f, -1):
		return "-inf"
	case math.IsNaN(f):
		return "nan"
	}
	if legacy {
		return fmtG17(f)
	}
	if f == math.Trunc(f) && math.Abs(f) < 1e17 {
		return strconv.FormatInt(int64(f), 10)
	}
	return strconv.FormatFloat(f, 'g', -1, 64)
}

// RDB type codes (rdb.h).
const (
	RDBTypeString          = 0
	RDBTypeList            = 1
	RDBTypeSet             = 2
	RDBTypeZSet            = 3
	RDBTypeHash            = 4
	RDBTypeZSet2           = 5
	RDBTypeHashZipmap      = 9
	RDBTypeListZiplist     = 10
	RDBTypeSetIntset       = 11
	RDBTypeZSetZiplist     = 12
	RDBTypeHashZiplist     = 13
	RDBTypeListQuicklist   = 14
	RDBTypeStreamListpacks = 15
	RDBTypeHashListpack    = 16
	RDBTypeZSetListpack    = 17
	RDBTypeListQuicklist2  = 18
	RDBTypeStreamLP2       = 19
	RDBTypeSetListpack     = 20
	RDBTypeStreamLP3       = 21
	RDBTypeStreamLP4       = 26
)

// RDBTypeMinVersion is the first RDB version whose writer can emit the type code.
func RDBTypeMinVersion(t byte) int {
	switch t {
	case RDBTypeString, RDBTypeList, RDBTypeSet, RDBTypeZSet, RDBTypeHash:
		return 1
	case RDBTypeHashZipmap, RDBTypeListZiplist, RDBTypeSetIntset, RDBTypeZSetZiplist:
		return 2
	case RDBTypeHashZiplist:
		return 4
	case RDBTypeListQuicklist:
		return 7
	case RDBTypeZSet2:
		return 8
	case RDBTypeStreamListpacks:
		return 9
	case RDBTypeHashListpack, RDBTypeZSetListpack, RDBTypeListQuicklist2, RDBTypeStreamLP2:
		return 10
	case RDBTypeSetListpack, RDBTypeStreamLP3:
		return 11
	case RDBTypeStreamLP4:
		return 13
	}
	return 1 << 30
}

// RDBTypeMaxVersion is the last RDB version whose writer still emits the type code
// (readers keep accepting it later; a writer of a newer version uses the newer code).
func RDBTypeMaxVersion(t byte) int {
	switch t {
	case RDBTypeHashZipmap:
		return 3 // Redis 2.6 (RDB 4+) writes small hashes as ziplists
	case RDBTypeList, RDBTypeListZiplist:
		return 6 // Redis 3.2 (RDB 7) writes every list as a quicklist
	case RDBTypeZSet:
		return 7 // Redis 4.0 (RDB 8) writes ZSET_2
	case RDBTypeListQuicklist, RDBTypeHashZiplist, RDBTypeZSetZiplist, RDBTypeStreamListpacks:
		return 9 // Redis 7.0 (RDB 10) switched to listpack based codes
	case RDBTypeStreamLP2:
		return 10
	}
	return 1 << 30
}

// ZMember is one sorted-set member.
type ZMember struct {
	Member []byte
	Score  float64
}

// HField is one hash field.
type HField struct {
	Field []byte
	Value []byte
}

// RValue is a logical value. Exactly the field matching Type is used.
//
//	's' string, 'l' list, 'S' set, 'z' sorted set, 'h' hash, 'x' stream
type RValue struct {
	Type   byte
	Str    []byte
	List   [][]byte  // head to tail
	Set    [][]byte  // distinct members, serialization order
	ZSet   []ZMember // distinct members
	Hash   []HField  // distinct fields, serialization order
	Stream *SStream
}

// RDBEnc selects the on-disk encoding of one value.
type RDBEnc struct {
	// Kind:
	//  string: "raw" | "int" | "lzf"
	//  list:   "linked" | "ziplist" | "quicklist" | "quicklist2"
	//  set:    "table" | "intset16" | "intset32" | "intset64" | "listpack"
	//  zset:   "skiplist" (ZSET, text scores) | "skiplist2" (ZSET_2, binary) | "ziplist" | "listpack"
	//  hash:   "table" | "zipmap" | "ziplist" | "listpack"
	//  stream: "v1" | "v2" | "v3" | "v4"
	Kind       string `json:"kind"`
	UnknownLen bool   `json:"unklen,omitempty"` // ziplists carry zllen = 65535
	LegacyInts bool   `json:"legacy,omitempty"` // ziplists use only int16/32/64 integer entries (RDB < 6)
	Node       int    `json:"node,omitempty"`   // quicklist: elements per node; stream: entries per listpack (0 = one node)
	PlainMin   int    `json:"plain,omitempty"`  // quicklist2: elements of at least this many bytes get a PLAIN node of their own (0 = never)
	Str        StrOpt `json:"str,omitempty"`    // how nested strings (elements and packed blobs) are written
}

func chunks(n, per int) [][2]int {
	if per <= 0 || per >= n {
		if n == 0 {
			return nil
		}
		return [][2]int{{0, n}}
	}
	var out [][2]int
	for i := 0; i < n; i += per {
		j := i + per
		if j > n {
			j = n
		}
		out = append(out, [2]int{i, j})
	}
	return out
}

// EncodeValue serializes v under enc and returns the RDB type code and the body
// that follows the key in an RDB file. type byte + body = DUMP payload minus footer.
func EncodeValue(v *RValue, enc RDBEnc) (byte, []byte, error) {
	so := enc.Str
	zo := ZiplistOpt{UnknownLen: enc.UnknownLen, LegacyInts: enc.LegacyInts}
	var b []byte
	switch v.Type {
	case 's':
		switch enc.Kind {
		case "raw":
			so.NoIntEnc = true
			return RDBTypeString, rdbString(nil, v.Str, so), nil
		case "int":
			out := rdbString(nil, v.Str, StrOpt{})
			if len(out) == 0 || out[0]&0xC0 != 0xC0 || out[0] == 0xC3 {
				return 0, nil, fmt.Errorf("string %q has no integer special encoding", v.Str)
			}
			return RDBTypeString, out, nil
		case "lzf":
			so.LZF = true
			out := rdbString(nil, v.Str, so)
			if len(out) == 0 || out[0] != 0xC3 {
				so.ForceLZF = true
				out = rdbString(nil, v.Str, so)
			}
			if len(out) == 0 || out[0] != 0xC3 {
				return 0, nil, fmt.Errorf("string %q cannot be LZF encoded", v.Str)
			}
			return RDBTypeString, out, nil
		}
	case 'l':
		switch enc.Kind {
		case "linked":
			b = rdbLen(b, uint64(len(v.List)))
			for _, e := range v.List {
				b = rdbString(b, e, so)
			}
			return RDBTypeList, b, nil
		case "ziplist":
			return RDBTypeListZiplist, rdbString(nil, Ziplist(v.List, zo), blobOpt(so)), nil
		case "quicklist":
			cs := chunks(len(v.List), enc.Node)
			b = rdbLen(b, uint64(len(cs)))
			for _, c := range cs {
				b = rdbString(b, Ziplist(v.List[c[0]:c[1]], zo), blobOpt(so))
			}
			return RDBTypeListQuicklist, b, nil
		case "quicklist2":
			type node struct {
				plain bool
				elems [][]byte
			}
			var nodes []node
			var cur [][]byte
			per := enc.Node
			flush := func() {
				if len(cur) > 0 {
					nodes = append(nodes, node{elems: cur})
					cur = nil
				}
			}
			for _, e := range v.List {
				if enc.PlainMin > 0 && len(e) >= enc.PlainMin {
					flush()
					nodes = append(nodes, node{plain: true, elems: [][]byte{e}})
					continue
				}
				cur = append(cur, e)
				if per > 0 && len(cur) == per {
					flush()
				}
			}
			flush()
			b = rdbLen(b, uint64(len(nodes)))
			for _, n := range nodes {
				if n.plain {
					b = rdbLen(b, 1) // QUICKLIST_NODE_CONTAINER_PLAIN
					b = rdbString(b, n.elems[0], so)
				} else {
					b = rdbLen(b, 2) // QUICKLIST_NODE_CONTAINER_PACKED
					b = rdbString(b, Listpack(n.elems), blobOpt(so))
				}
			}
			return RDBTypeListQuicklist2, b, nil
		}
	case 'S':
		switch enc.Kind {
		case "table":
			b = rdbLen(b, uint64(len(v.Set)))
			for _, e := range v.Set {
				b = rdbString(b, e, so)
			}
			return RDBTypeSet, b, nil
		case "intset16", "intset32", "intset64":
			w := map[string]int{"intset16": 2, "intset32": 4, "intset64": 8}[enc.Kind]
			var ms []int64
			for _, e := range v.Set {
				n, ok := canonInt(e)
				if !ok {
					return 0, nil, fmt.Errorf("set member %q is not an integer", e)
				}
				ms = append(ms, n)
			}
			is, err := Intset(ms, w)
			if err != nil {
				return 0, nil, err
			}
			return RDBTypeSetIntset, rdbString(nil, is, blobOpt(so)), nil
		case "listpack":
			return RDBTypeSetListpack, rdbString(nil, Listpack(v.Set), blobOpt(so)), nil
		}
	case 'z':
		switch enc.Kind {
		case "skiplist", "skiplist2":
			b = rdbLen(b, uint64(len(v.ZSet)))
			for _, m := range v.ZSet {
				b = rdbString(b, m.Member, so)
				if enc.Kind == "skiplist" {
					b = rdbDoubleText(b, m.Score)
				} else {
					b = rdbDoubleBin(b, m.Score)
				}
			}
			if enc.Kind == "skiplist" {
				return RDBTypeZSet, b, nil
			}
			return RDBTypeZSet2, b, nil
		case "ziplist", "listpack":
			ms := append([]ZMember(nil), v.ZSet...)
			sort.SliceStable(ms, func(i, j int) bool {
				if ms[i].Score != ms[j].Score {
					return ms[i].Score < ms[j].Score
				}
				return string(ms[i].Member) < string(ms[j].Member)
			})
			var elems [][]byte
			for _, m := range ms {
				elems = append(elems, m.Member, []byte(ScoreText(m.Score, enc.Kind == "ziplist")))
			}
			if enc.Kind == "ziplist" {
				return RDBTypeZSetZiplist, rdbString(nil, Ziplist(elems, zo), blobOpt(so)), nil
			}
			return RDBTypeZSetListpack, rdbString(nil, Listpack(elems), blobOpt(so)), nil
		}
	case 'h':
		switch enc.Kind {
		case "table":
			b = rdbLen(b, uint64(len(v.Hash)))
			for _, f := range v.Hash {
				b = rdbString(b, f.Field, so)
				b = rdbString(b, f.Value, so)
			}
			return RDBTypeHash, b, nil
		case "zipmap":
			return RDBTypeHashZipmap, rdbString(nil, Zipmap(v.Hash, enc.Node), blobOpt(so)), nil
		case "ziplist", "listpack":
			var elems [][]byte
			for _, f := range v.Hash {
				elems = append(elems, f.Field, f.Value)
			}
			if enc.Kind == "ziplist" {
				return RDBTypeHashZiplist, rdbString(nil, Ziplist(elems, zo), blobOpt(so)), nil
			}
			return RDBTypeHashListpack, rdbString(nil, Listpack(elems), blobOpt(so)), nil
		}
	case 'x':
		return encodeStream(v.Stream, enc)
	}
	return 0, nil, fmt.Errorf("value type %q has no encoding %q", v.Type, enc.Kind)
}

// blobOpt: packed blobs are written with rdbSaveRawString as well, so they may be LZF
// compressed; the integer encoding can never apply to them in practice but must not
// be attempted on a blob that happens to look like digits either way.
func blobOpt(o StrOpt) StrOpt {
	o.NoIntEnc = true
	return o
}

package ref

// RDB generator, part 2: the packed in-memory encodings that RDB stores as opaque
// strings - ziplist (ziplist.c), listpack (listpack.c), intset (intset.c), zipmap
// (zipmap.c). Written from the format descriptions in those files' header comments.

import (
	"fmt"
	"math"
	"sort"
)

// ---------------------------------------------------------------------------
// ziplist: <zlbytes u32le><zltail u32le><zllen u16le> entry* 0xFF
// entry:   <prevlen: 1 byte, or 0xFE + u32le when >= 254><encoding><data>

// ZiplistOpt tunes the ziplist writer.
type ZiplistOpt struct {
	UnknownLen bool // write zllen = 65535 ("count by traversal") whatever the real count is
	LegacyInts bool // RDB < 6: only int16/int32/int64 integer entries exist
}

// ziplistEntryBody returns encoding+data of one element (zipTryEncoding rules: strings
// shorter than 32 bytes that are canonical int64 are stored as integers, smallest width).
func ziplistEntryBody(e []byte, legacy bool) []byte {
	if len(e) > 0 && len(e) < 32 {
		if v, ok := canonInt(e); ok {
			switch {
			case !legacy && v >= 0 && v <= 12:
				return []byte{0xF1 + byte(v)}
			case !legacy && v >= -128 && v <= 127:
				return []byte{0xFE, byte(int8(v))}
			case v >= -32768 && v <= 32767:
				return []byte{0xC0, byte(v), byte(v >> 8)}
			case !legacy && v >= -8388608 && v <= 8388607:
				return []byte{0xF0, byte(v), byte(v >> 8), byte(v >> 16)}
			case v >= math.MinInt32 && v <= math.MaxInt32:
				return le32([]byte{0xD0}, uint32(int32(v)))
			default:
				return le64([]byte{0xE0}, uint64(v))
			}
		}
	}
	var b []byte
	n := len(e)
	switch {
	case n <= 63:
		b = append(b, byte(n))
	case n <= 16383:
		b = append(b, 0x40|byte(n>>8), byte(n))
	default:
		b = append(b, 0x80, byte(n>>24), byte(n>>16), byte(n>>8), byte(n))
	}
	return append(b, e...)
}

// Ziplist builds a ziplist holding the elements in order.
func Ziplist(elems [][]byte, o ZiplistOpt) []byte {
	body := []byte{}
	prev := 0
	tail := 10
	for _, e := range elems {
		tail = 10 + len(body)
		start := len(body)
		if prev < 254 {
			body = append(body, byte(prev))
		} else {
			body = le32(append(body, 0xFE), uint32(prev))
		}
		body = append(body, ziplistEntryBody(e, o.LegacyInts)...)
		prev = len(body) - start
	}
	total := 10 + len(body) + 1
	out := make([]byte, 0, total)
	out = le32(out, uint32(total))
	out = le32(out, uint32(tail))
	n := len(elems)
	if o.UnknownLen || n >= 65535 {
		n = 65535
	}
	out = le16(out, uint16(n))
	out = append(out, body...)
	return append(out, 0xFF)
}

// ---------------------------------------------------------------------------
// listpack: <total-bytes u32le><num-elements u16le> entry* 0xFF
// entry:    <encoding+data><backlen>

func lpBacklen(l int) []byte {
	switch {
	case l <= 127:
		return []byte{byte(l)}
	case l < 16383:
		return []byte{byte(l >> 7), byte(l&127) | 128}
	case l < 2097151:
		return []byte{byte(l >> 14), byte((l>>7)&127) | 128, byte(l&127) | 128}
	case l < 268435455:
		return []byte{byte(l >> 21), byte((l>>14)&127) | 128, byte((l>>7)&127) | 128, byte(l&127) | 128}
	default:
		return []byte{byte(l >> 28), byte((l>>21)&127) | 128, byte((l>>14)&127) | 128, byte((l>>7)&127) | 128, byte(l&127) | 128}
	}
}

func lpIntBody(v int64) []byte {
	switch {
	case v >= 0 && v <= 127:
		return []byte{byte(v)}
	case v >= -4096 && v <= 4095:
		u := uint64(v)
		if v < 0 {
			u = uint64((int64(1) << 13) + v)
		}
		return []byte{byte(u>>8) | 0xC0, byte(u)}
	case v >= -32768 && v <= 32767:
		return []byte{0xF1, byte(v), byte(v >> 8)}
	case v >= -8388608 && v <= 8388607:
		return []byte{0xF2, byte(v), byte(v >> 8), byte(v >> 16)}
	case v >= math.MinInt32 && v <= math.MaxInt32:
		return le32([]byte{0xF3}, uint32(int32(v)))
	default:
		return le64([]byte{0xF4}, uint64(v))
	}
}

func lpStrBody(e []byte) []byte {
	n := len(e)
	var b []byte
	switch {
	case n < 64:
		b = append(b, 0x80|byte(n))
	case n < 4096:
		b = append(b, 0xE0|byte(n>>8), byte(n))
	default:
		b = le32(append(b, 0xF0), uint32(n))
	}
	return append(b, e...)
}

// lpElem encodes one element: canonical int64 strings become integer entries
// (lpStringToInt64), everything else a string entry.
func lpElem(e []byte) []byte {
	var body []byte
	if v, ok := canonInt(e); ok {
		body = lpIntBody(v)
	} else {
		body = lpStrBody(e)
	}
	return append(body, lpBacklen(len(body))...)
}

func lpInt(v int64) []byte {
	body := lpIntBody(v)
	return append(body, lpBacklen(len(body))...)
}

// listpackRaw wraps already-encoded entries.
func listpackRaw(entries [][]byte) []byte {
	total := 6 + 1
	for _, e := range entries {
		total += len(e)
	}
	out := make([]byte, 0, total)
	out = le32(out, uint32(total))
	n := len(entries)
	if n >= 65535 {
		n = 65535
	}
	out = le16(out, uint16(n))
	for _, e := range entries {
		out = append(out, e...)
	}
	return append(out, 0xFF)
}

// Listpack builds a listpack holding the elements in order.
func Listpack(elems [][]byte) []byte {
	ent := make([][]byte, len(elems))
	for i, e := range elems {
		ent[i] = lpElem(e)
	}
	return listpackRaw(ent)
}

// ---------------------------------------------------------------------------
// intset: <encoding u32le (2|4|8)><length u32le> sorted little-endian integers

// Intset builds an intset of the given width (0 = smallest that fits every member).
func Intset(members []int64, width int) ([]byte, error) {
	ms := append([]int64(nil), members...)
	sort.Slice(ms, func(i, j int) bool { return ms[i] < ms[j] })
	need := 2
	for _, v := range ms {
		if v < math.MinInt32 || v > math.MaxInt32 {
			need = 8
		} else if (v < -32768 || v > 32767) && need < 4 {
			need = 4
		}
	}
	if width == 0 {
		width = need
	}
	if width < need || (width != 2 && width != 4 && width != 8) {
		return nil, fmt.Errorf("intset width %d cannot hold the members (need %d)", width, need)
	}
	out := le32(nil, uint32(width))
	out = le32(out, uint32(len(ms)))
	for _, v := range ms {
		switch width {
		case 2:
			out = le16(out, uint16(int16(v)))
		case 4:
			out = le32(out, uint32(int32(v)))
		default:
			out = le64(out, uint64(v))
		}
	}
	return out, nil
}

// ---------------------------------------------------------------------------
// zipmap (Redis <= 2.4 small hashes):
// <zmlen: count, or 254 when >= 254> { <len>key <len><free>value }* 0xFF
// <len> = one byte when < 254, otherwise 254 followed by u32 (host order = little endian)

func zipmapLen(b []byte, n int) []byte {
	if n < 254 {
		return append(b, byte(n))
	}
	return le32(append(b, 254), uint32(n))
}

// Zipmap builds a zipmap; free is the number of unused bytes left after every value
// (Redis leaves up to 4 after an in-place update; 0 in a freshly built map).
func Zipmap(pairs []HField, free int) []byte {
	n := len(pairs)
	if n >= 254 {
		n = 254
	}
	out := []byte{byte(n)}
	for _, p := range pairs {
		out = zipmapLen(out, len(p.Field))
		out = append(out, p.Field...)
		out = zipmapLen(out, len(p.Value))
		out = append(out, byte(free))
		out = append(out, p.Value...)
		for i := 0; i < free; i++ {
			out = append(out, 0)
		}
	}
	return append(out, 0xFF)
}

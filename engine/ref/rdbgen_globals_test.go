package ref

import (
	"bytes"
	"encoding/binary"
	"testing"
)

// The key-less entries stand where a server writes them, the rest of the file is untouched and
// the footer covers the new content.
func TestGenRDBGlobalsLayout(t *testing.T) {
	keys := []RDBKey{{DB: 0, Key: []byte("k"), Val: &RValue{Type: 's', Str: []byte("v")}, Enc: RDBEnc{Kind: "raw"}, Idle: -1, Freq: -1}}
	for _, aux := range []bool{false, true} {
		opt := RDBFileOpt{Version: 11, Aux: aux}
		plain, err := GenRDB(opt, keys)
		if err != nil {
			t.Fatal(err)
		}
		lib := []byte("#!lua name=l\nredis.register_function('f', function() return 1 end)")
		scr := []byte("return 1")
		g, entries, err := GenRDBGlobals(opt, keys, RDBGlobals{Functions: [][]byte{lib}, LuaScripts: [][]byte{scr}})
		if err != nil {
			t.Fatal(err)
		}
		if len(entries) != 2 || entries[0].Kind != "function" || entries[1].Kind != "lua" {
			t.Fatalf("entries: %+v", entries)
		}
		f, l := entries[0], entries[1]
		// function: opcode, 14-bit length, text; in front of SELECTDB
		wantF := append([]byte{0xF5, 0x40 | byte(len(lib)>>8), byte(len(lib))}, lib...)
		if !bytes.Equal(g.File[f.Offset:f.End], wantF) {
			t.Fatalf("function entry bytes %x", g.File[f.Offset:f.End])
		}
		if g.File[f.End] != 0xFE {
			t.Fatalf("byte behind the function entry is %#x, SELECTDB expected", g.File[f.End])
		}
		wantL := append([]byte{0xFA, 3, 'l', 'u', 'a', byte(len(scr))}, scr...)
		if !bytes.Equal(g.File[l.Offset:l.End], wantL) {
			t.Fatalf("lua entry bytes %x", g.File[l.Offset:l.End])
		}
		if g.File[l.End] != 0xFF || len(g.File) != l.End+9 {
			t.Fatalf("EOF opcode / footer not behind the lua entry")
		}
		// removing both entries gives the plain file's body back
		body := append(append([]byte(nil), g.File[:f.Offset]...), g.File[f.End:l.Offset]...)
		if !bytes.Equal(body, plain.File[:len(plain.File)-9]) {
			t.Fatalf("the rest of the file changed")
		}
		if crc := binary.LittleEndian.Uint64(g.File[len(g.File)-8:]); crc != RDBCRC64(0, g.File[:len(g.File)-8]) {
			t.Fatalf("footer does not cover the file")
		}
		v := g.Values[0]
		if g.File[v.TypeAt] != v.TypeCode || !bytes.Equal(g.File[v.TypeAt+2:v.TypeAt+3], []byte("k")) {
			t.Fatalf("value offsets not shifted: %+v", v)
		}
	}
	if _, _, err := GenRDBGlobals(RDBFileOpt{Version: 9}, keys, RDBGlobals{Functions: [][]byte{[]byte("x")}}); err == nil {
		t.Fatalf("a function library in an RDB 9 file must be refused")
	}
}

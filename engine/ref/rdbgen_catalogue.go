package ref

// RDB generator, part 6: the catalogue of logical values and, for each, every on-disk
// encoding it can take. Harnesses refer to cases and encodings by name so that a
// scenario is a small JSON document.

import (
	"bytes"
	"fmt"
	"math"
	"strconv"
)

// RDBCase is one logical value with the encodings applicable to it.
type RDBCase struct {
	Name    string // "<type>/<what it exercises>"
	Feature string // coarse feature class used in finding signatures
	Val     *RValue
	Encs    []RDBEnc
	Core    bool // part of the reduced universe used in cross products with configurations
	Heavy   bool // megabyte-sized value: harnesses enumerate it with few versions / configurations
}

func bss(ss ...string) [][]byte {
	out := make([][]byte, len(ss))
	for i, s := range ss {
		out[i] = []byte(s)
	}
	return out
}

func rep(s string, n int) string { return string(bytes.Repeat([]byte(s), n)) }

// distinct returns n bytes without short repetitions (i*7+3 mod 251 pattern mixed with i/251).
func distinct(n int) string {
	b := make([]byte, n)
	for i := range b {
		b[i] = byte((i*7+3)%251) ^ byte(i/251*37)
	}
	return string(b)
}

// Element alphabets. Every integer width and sign of both packed formats appears.
var (
	// ziplist: 4-bit immediate 0..12, int8, int16, int24 (both signs), int32, int64
	ZiplistInts = []string{"0", "12", "13", "-1", "127", "-128", "128", "-129", "32767", "-32768", "32768", "-32769", "8388607", "-8388608",
		"-70000", "8388608", "-8388609", "2147483647", "-2147483648", "2147483648", "-2147483649", "9223372036854775807", "-9223372036854775808"}
	// listpack: 7-bit uint, 13-bit, 16, 24, 32, 64 bit, both signs at every boundary
	ListpackInts = []string{"0", "127", "128", "-1", "4095", "-4096", "4096", "-4097", "32767", "-32768", "32768", "-32769", "8388607", "-8388608",
		"8388608", "-8388609", "2147483647", "-2147483648", "2147483648", "-2147483649", "9223372036854775807", "-9223372036854775808"}
	// not canonical integers: must stay strings
	NonCanon = []string{"007", "+5", "-0", "1 ", "", "9223372036854775808", "1.0"}
)

func sizedStrings() []string {
	// ziplist string headers: 6-bit (<=63), 14-bit (<=16383), 32-bit; listpack: 6-bit (<64), 12-bit (<4096), 32-bit;
	// an entry of >= 254 bytes gives its successor a 5-byte prevlen; listpack entries > 127 bytes get a 2-byte backlen
	return []string{"a", rep("b", 63), rep("c", 64), "x" + distinct(130), rep("d", 253), "after253", distinct(300), "after300", rep("e", 4095), rep("f", 4096), "tail"}
}

func listEncs(zl bool, lp bool) []RDBEnc {
	var out []RDBEnc
	out = append(out, RDBEnc{Kind: "linked"}, RDBEnc{Kind: "linked", Str: StrOpt{LZF: true}})
	if zl {
		out = append(out,
			RDBEnc{Kind: "ziplist"}, RDBEnc{Kind: "ziplist", UnknownLen: true}, RDBEnc{Kind: "ziplist", LegacyInts: true}, RDBEnc{Kind: "ziplist", Str: StrOpt{LZF: true}},
			RDBEnc{Kind: "quicklist"}, RDBEnc{Kind: "quicklist", Node: 2}, RDBEnc{Kind: "quicklist", Node: 2, UnknownLen: true}, RDBEnc{Kind: "quicklist", Node: 3, Str: StrOpt{LZF: true}})
	}
	if lp {
		out = append(out,
			RDBEnc{Kind: "quicklist2"}, RDBEnc{Kind: "quicklist2", Node: 2}, RDBEnc{Kind: "quicklist2", Node: 3, PlainMin: 200}, RDBEnc{Kind: "quicklist2", PlainMin: 1},
			RDBEnc{Kind: "quicklist2", Node: 3, Str: StrOpt{LZF: true}})
	}
	return out
}

func allInts(ss [][]byte) bool {
	for _, s := range ss {
		if _, ok := canonInt(s); !ok {
			return false
		}
	}
	return true
}

func setEncs(members [][]byte) []RDBEnc {
	out := []RDBEnc{{Kind: "table"}, {Kind: "table", Str: StrOpt{LZF: true}}, {Kind: "listpack"}, {Kind: "listpack", Str: StrOpt{LZF: true}}}
	if allInts(members) {
		var ms []int64
		for _, m := range members {
			v, _ := canonInt(m)
			ms = append(ms, v)
		}
		for _, k := range []string{"intset16", "intset32", "intset64"} {
			w := map[string]int{"intset16": 2, "intset32": 4, "intset64": 8}[k]
			if _, err := Intset(ms, w); err == nil {
				out = append(out, RDBEnc{Kind: k})
			}
		}
	}
	return out
}

func zsetEncs() []RDBEnc {
	return []RDBEnc{{Kind: "skiplist"}, {Kind: "skiplist2"}, {Kind: "skiplist2", Str: StrOpt{LZF: true}},
		{Kind: "ziplist"}, {Kind: "ziplist", UnknownLen: true}, {Kind: "ziplist", LegacyInts: true}, {Kind: "ziplist", Str: StrOpt{LZF: true}},
		{Kind: "listpack"}, {Kind: "listpack", Str: StrOpt{LZF: true}}}
}

func hashEncs(zipmapOK bool) []RDBEnc {
	out := []RDBEnc{{Kind: "table"}, {Kind: "table", Str: StrOpt{LZF: true}},
		{Kind: "ziplist"}, {Kind: "ziplist", UnknownLen: true}, {Kind: "ziplist", LegacyInts: true}, {Kind: "ziplist", Str: StrOpt{LZF: true}},
		{Kind: "listpack"}, {Kind: "listpack", Str: StrOpt{LZF: true}}}
	if zipmapOK {
		out = append(out, RDBEnc{Kind: "zipmap"}, RDBEnc{Kind: "zipmap", Node: 2})
	}
	return out
}

func streamEncs(nodes ...int) []RDBEnc {
	var out []RDBEnc
	for _, k := range []string{"v1", "v2", "v3", "v4"} {
		for _, n := range nodes {
			out = append(out, RDBEnc{Kind: k, Node: n})
		}
	}
	out = append(out, RDBEnc{Kind: "v3", Node: nodes[0], Str: StrOpt{LZF: true}})
	return out
}

func hashOf(kv ...string) []HField {
	var out []HField
	for i := 0; i+1 < len(kv); i += 2 {
		out = append(out, HField{[]byte(kv[i]), []byte(kv[i+1])})
	}
	return out
}

// ChunkHash is a table hash of n fields of about 30 bytes per pair.
func ChunkHash(n int) *RValue {
	var h []HField
	for i := 0; i < n; i++ {
		h = append(h, HField{[]byte(fmt.Sprintf("field-%d-%s", i, rep("k", 4))), []byte(fmt.Sprintf("value-%d-%s", i, rep("v", 8)))})
	}
	return &RValue{Type: 'h', Hash: h}
}

// ChunkElems is a list/set/zset of n elements of about 30 bytes.
func ChunkElems(t byte, n int) *RValue {
	v := &RValue{Type: t}
	for i := 0; i < n; i++ {
		e := []byte(fmt.Sprintf("element-%d-%s", i, rep("e", 18)))
		switch t {
		case 'l':
			v.List = append(v.List, e)
		case 'S':
			v.Set = append(v.Set, e)
		case 'z':
			v.ZSet = append(v.ZSet, ZMember{e, float64(i) + 0.5})
		}
	}
	return v
}

// BigZiplistHash is a hash of n small fields; with n >= 65535 a real ziplist header
// necessarily carries zllen = 65535.
func BigZiplistHash(n int) *RValue {
	var h []HField
	for i := 0; i < n; i++ {
		h = append(h, HField{[]byte("f" + strconv.Itoa(i)), []byte(strconv.Itoa(i % 100))})
	}
	return &RValue{Type: 'h', Hash: h}
}

func sid(ms, seq uint64) SID { return SID{ms, seq} }

func streamCases() []RDBCase {
	const T = 1700000000000 // realistic millisecond IDs need the 64-bit RDB length form
	ab := func(a, b string) [][]byte { return bss("a", a, "b", b) }
	var out []RDBCase
	// same fields everywhere
	x1 := &SStream{Entries: []SEntry{{ID: sid(1, 1), Fields: ab("1", "2")}, {ID: sid(1, 2), Fields: ab("x", "y")}, {ID: sid(2, 0), Fields: ab("-70000", rep("v", 70))}},
		LastID: sid(2, 0), FirstID: sid(1, 1), EntriesAdded: 3}
	out = append(out, RDBCase{Name: "stream/samefields", Feature: "samefields", Val: &RValue{Type: 'x', Stream: x1}, Encs: streamEncs(0, 2), Core: true})
	// an entry with other fields between two entries that reuse the master's fields
	x2 := &SStream{Entries: []SEntry{{ID: sid(T, 0), Fields: ab("1", "2")}, {ID: sid(T, 1), Fields: bss("c", "3")}, {ID: sid(T+5, 0), Fields: ab("4", "5")}},
		LastID: sid(T+5, 0), FirstID: sid(T, 0), EntriesAdded: 3}
	out = append(out, RDBCase{Name: "stream/otherfields-then-same", Feature: "otherfields", Val: &RValue{Type: 'x', Stream: x2}, Encs: streamEncs(0), Core: true})
	// other fields with the same count, more fields, zero-length values
	x2b := &SStream{Entries: []SEntry{{ID: sid(5, 0), Fields: ab("1", "")}, {ID: sid(5, 1), Fields: bss("b", "9", "a", "8")}, {ID: sid(6, 0), Fields: bss("p", "1", "q", "2", "r", "3")}, {ID: sid(7, 7), Fields: bss("p", "1", "q", "2", "r", "3")}},
		LastID: sid(7, 7), FirstID: sid(5, 0), EntriesAdded: 4}
	out = append(out, RDBCase{Name: "stream/otherfields-last", Feature: "otherfields2", Val: &RValue{Type: 'x', Stream: x2b}, Encs: streamEncs(0, 2)})
	// deleted entries: a tombstone in the middle, the master entry itself deleted, last-id ahead of the top entry
	x3 := &SStream{Entries: []SEntry{{ID: sid(10, 0), Fields: ab("m", "n"), Deleted: true}, {ID: sid(10, 1), Fields: ab("1", "2")}, {ID: sid(11, 0), Fields: bss("z", "26"), Deleted: true},
		{ID: sid(12, 0), Fields: ab("3", "4")}, {ID: sid(13, 0), Fields: ab("5", "6"), Deleted: true}},
		LastID: sid(13, 0), FirstID: sid(10, 1), MaxDeletedID: sid(13, 0), EntriesAdded: 5}
	out = append(out, RDBCase{Name: "stream/deleted", Feature: "deleted", Val: &RValue{Type: 'x', Stream: x3}, Encs: streamEncs(0), Core: true})
	// consumer groups: PEL split over two consumers, a consumer without pending entries, a second idle group
	x4 := &SStream{Entries: []SEntry{{ID: sid(T, 0), Fields: ab("1", "2")}, {ID: sid(T, 1), Fields: ab("3", "4")}, {ID: sid(T+1, 0), Fields: ab("5", "6")}, {ID: sid(T+2, 0), Fields: ab("7", "8")}},
		LastID: sid(T+2, 0), FirstID: sid(T, 0), EntriesAdded: 4,
		Groups: []SGroup{
			{Name: []byte("g1"), LastID: sid(T+1, 0), EntriesRead: 3,
				PEL: []SPending{{ID: sid(T, 0), Consumer: "alice", DeliveryTime: T + 100, DeliveryCount: 1}, {ID: sid(T, 1), Consumer: "bob", DeliveryTime: T + 200, DeliveryCount: 3},
					{ID: sid(T+1, 0), Consumer: "alice", DeliveryTime: T + 300, DeliveryCount: 70000}},
				Consumers: []SConsumer{{Name: []byte("alice"), SeenTime: T + 300, ActiveTime: T + 300}, {Name: []byte("bob"), SeenTime: T + 200, ActiveTime: T + 200}, {Name: []byte("idle"), SeenTime: T + 50, ActiveTime: -1}}},
			{Name: []byte("123"), LastID: sid(0, 0), EntriesRead: 0},
		}}
	out = append(out, RDBCase{Name: "stream/groups", Feature: "groups", Val: &RValue{Type: 'x', Stream: x4}, Encs: streamEncs(0, 3), Core: true})
	// empty stream (everything deleted, no listpack left) that still has an ID history and a group
	x5 := &SStream{LastID: sid(9, 9), FirstID: sid(0, 0), MaxDeletedID: sid(9, 9), EntriesAdded: 2, Groups: []SGroup{{Name: []byte("g"), LastID: sid(9, 9), EntriesRead: 2}}}
	out = append(out, RDBCase{Name: "stream/empty", Feature: "empty", Val: &RValue{Type: 'x', Stream: x5}, Encs: streamEncs(0)})
	// consumer-group positions: the last-delivered ID of a group at every position relative to the
	// stream (0-0, before the first entry, the first entry, strictly inside, the last entry, ahead of
	// the last ID) x entries-read {a valid counter, SCGInvalidEntriesRead = -1 "unknown"}. Redis 7
	// keeps -1 for a group created by XGROUP CREATE without ENTRIESREAD that was never read, for a
	// group moved by XGROUP SETID, and for every group whose counter cannot be derived because the
	// stream is fragmented; rdbSaveLen writes it as the 64-bit length 0x81 ff..ff.
	// xp1: no deletions (a v1 dump of it lets the reader estimate every counter but the inner ones)
	xp1 := &SStream{Entries: []SEntry{{ID: sid(20, 0), Fields: ab("1", "2")}, {ID: sid(21, 0), Fields: ab("3", "4")}, {ID: sid(21, 5), Fields: ab("5", "6")}, {ID: sid(23, 0), Fields: ab("7", "8")}},
		LastID: sid(23, 0), FirstID: sid(20, 0), EntriesAdded: 4,
		Groups: []SGroup{
			{Name: []byte("at-zero"), LastID: sid(0, 0), EntriesRead: 0},
			{Name: []byte("before-first"), LastID: sid(19, 7), EntriesRead: 0},
			{Name: []byte("first"), LastID: sid(20, 0), EntriesRead: 1},
			{Name: []byte("inside"), LastID: sid(21, 0), EntriesRead: 2},
			{Name: []byte("inside-unknown"), LastID: sid(21, 5), EntriesRead: SCGInvalidEntriesRead},
			{Name: []byte("last"), LastID: sid(23, 0), EntriesRead: 4},
			{Name: []byte("last-unknown"), LastID: sid(23, 0), EntriesRead: SCGInvalidEntriesRead},
			{Name: []byte("ahead"), LastID: sid(99, 0), EntriesRead: SCGInvalidEntriesRead},
		}}
	out = append(out, RDBCase{Name: "stream/group-positions", Feature: "grouppos", Val: &RValue{Type: 'x', Stream: xp1}, Encs: streamEncs(0), Core: true})
	// xp2: fragmented (a tombstone in the middle, max-deleted-id inside the stream, trimmed head): every
	// group behind the deletion has an unknown counter
	xp2 := &SStream{Entries: []SEntry{{ID: sid(30, 0), Fields: ab("1", "2")}, {ID: sid(31, 0), Fields: ab("3", "4"), Deleted: true}, {ID: sid(32, 0), Fields: ab("5", "6")}, {ID: sid(33, 0), Fields: ab("7", "8")}},
		LastID: sid(33, 0), FirstID: sid(30, 0), MaxDeletedID: sid(31, 0), EntriesAdded: 6,
		Groups: []SGroup{
			{Name: []byte("before-first"), LastID: sid(29, 0), EntriesRead: SCGInvalidEntriesRead},
			{Name: []byte("first"), LastID: sid(30, 0), EntriesRead: SCGInvalidEntriesRead},
			{Name: []byte("inside"), LastID: sid(32, 0), EntriesRead: 5},
			{Name: []byte("last"), LastID: sid(33, 0), EntriesRead: 6},
			{Name: []byte("ahead"), LastID: sid(33, 1), EntriesRead: SCGInvalidEntriesRead},
		}}
	out = append(out, RDBCase{Name: "stream/group-positions-fragmented", Feature: "groupposfrag", Val: &RValue{Type: 'x', Stream: xp2}, Encs: streamEncs(0)})
	// five entries over three listpacks, integer-looking and long values
	var es []SEntry
	for i := 0; i < 5; i++ {
		es = append(es, SEntry{ID: sid(T+uint64(i)*1000, uint64(i)), Fields: bss("n", strconv.Itoa(i*70000-70000), "s", rep("s", 10+i*30))})
	}
	x6 := &SStream{Entries: es, LastID: es[4].ID, FirstID: es[0].ID, EntriesAdded: 5}
	out = append(out, RDBCase{Name: "stream/multinode", Feature: "multinode", Val: &RValue{Type: 'x', Stream: x6}, Encs: streamEncs(2, 1)})
	return out
}

// RDBCatalogue returns every case. The slice and its values are freshly built.
func RDBCatalogue() []RDBCase {
	var c []RDBCase
	add := func(name, feature string, core bool, v *RValue, encs []RDBEnc) {
		c = append(c, RDBCase{Name: name, Feature: feature, Val: v, Encs: encs, Core: core})
	}
	str := func(s string) *RValue { return &RValue{Type: 's', Str: []byte(s)} }
	raw := []RDBEnc{{Kind: "raw"}}
	rawLzf := []RDBEnc{{Kind: "raw"}, {Kind: "lzf"}}
	rawInt := []RDBEnc{{Kind: "raw"}, {Kind: "int"}}
	// ---- strings
	add("string/empty", "raw", false, str(""), raw)
	add("string/short", "raw", true, str("hello"), raw)
	for _, s := range []string{"0", "-7", "127", "-128", "128", "300", "-32768", "32767", "32768", "70000", "-2147483648", "2147483647"} {
		add("string/int:"+s, "int", s == "-7" || s == "300" || s == "70000", str(s), rawInt)
	}
	for _, s := range []string{"2147483648", "-2147483649", "007", "+5", "-0", "12345678901"} {
		add("string/notint:"+s, "raw", false, str(s), raw)
	}
	add("string/run60", "lzf", true, str(rep("a", 60)), rawLzf)
	add("string/rep", "lzf", false, str(rep("abcdefghij", 5)), rawLzf)
	add("string/lit40+copy+run300", "lzf", true, str(distinct(40)+distinct(40)+rep("z", 300)), rawLzf)
	add("string/binary256", "lzf", false, str(distinct(256)), rawLzf)
	add("string/len16383", "raw", false, str(rep("q", 16383)), rawLzf)
	add("string/len16384", "raw", true, str(distinct(251)+rep("r", 16384-251)), rawLzf)
	// values larger than the loader's 1 MiB read chunk (valid input crossing the chunk loop: exactly one
	// chunk, one byte more, two chunks and a bit)
	for _, n := range []int{1 << 20, 1<<20 + 1, 2<<20 + 5} {
		c = append(c, RDBCase{Name: "string/len" + strconv.Itoa(n), Feature: "megabyte", Val: str(distinct(n)), Encs: raw, Heavy: true})
	}
	c = append(c, RDBCase{Name: "list/elem1048577", Feature: "megabyte", Val: &RValue{Type: 'l', List: bss("head", distinct(1<<20+1), "tail")},
		Encs: []RDBEnc{{Kind: "linked"}, {Kind: "quicklist2", Node: 1, PlainMin: 1 << 20}}, Heavy: true})
	// ---- lists
	add("list/small", "small", true, &RValue{Type: 'l', List: bss("a", "b", "a", "")}, listEncs(true, true))
	add("list/ziplist-ints", "intwidths", true, &RValue{Type: 'l', List: bss(ZiplistInts...)}, listEncs(true, true))
	add("list/listpack-ints", "intwidths", true, &RValue{Type: 'l', List: bss(ListpackInts...)}, listEncs(true, true))
	add("list/noncanon", "noncanon", false, &RValue{Type: 'l', List: bss(NonCanon...)}, listEncs(true, true))
	add("list/sizes", "sizes", true, &RValue{Type: 'l', List: bss(sizedStrings()...)}, listEncs(true, true))
	add("list/fe-bytes", "fe-bytes", true, &RValue{Type: 'l', List: bss("\xfe", "\xfe\xfe\xff", "x\xfey", "\xff", "end")}, listEncs(true, true))
	add("list/one", "small", false, &RValue{Type: 'l', List: bss("only")}, listEncs(true, true))
	add("list/len16384", "sizes", false, &RValue{Type: 'l', List: bss("head", rep("g", 16384), "tail")}, listEncs(true, true))
	// ---- sets
	sets := []struct {
		name, feature string
		core          bool
		m             [][]byte
	}{
		{"set/small", "small", true, bss("a", "b", "c")},
		{"set/int16", "intwidths", true, bss("1", "-2", "300", "-32768", "32767", "0")},
		{"set/int32", "intwidths", true, bss("70000", "-70000", "1", "2147483647", "-2147483648")},
		{"set/int64", "intwidths", true, bss("2147483648", "-9223372036854775808", "9223372036854775807", "5", "-2147483649")},
		{"set/mixed", "sizes", true, bss("1", "x", "-4097", rep("m", 64), "8388608", rep("n", 4096), "007")},
		{"set/listpack-ints", "intwidths", false, bss(ListpackInts...)},
	}
	for _, s := range sets {
		add(s.name, s.feature, s.core, &RValue{Type: 'S', Set: s.m}, setEncs(s.m))
	}
	// ---- sorted sets
	z := func(kv ...interface{}) []ZMember {
		var out []ZMember
		for i := 0; i+1 < len(kv); i += 2 {
			out = append(out, ZMember{[]byte(kv[i].(string)), kv[i+1].(float64)})
		}
		return out
	}
	inf := math.Inf(1)
	add("zset/small", "small", true, &RValue{Type: 'z', ZSet: z("a", 1.0, "b", 2.5, "c", -3.0)}, zsetEncs())
	add("zset/inf", "inf", true, &RValue{Type: 'z', ZSet: z("m", inf, "n", -inf, "o", 0.0)}, zsetEncs())
	add("zset/precision", "precision", true, &RValue{Type: 'z', ZSet: z("x", 1e300, "y", 1.7976931348623157e308, "z", 5e-324, "w", 0.1, "v", -123456789.12345679, "u", 3.0000000000000004, "t", 4503599627370496.0, "s", 1e17, "r", -1e21)}, zsetEncs())
	add("zset/int-members", "intwidths", true, &RValue{Type: 'z', ZSet: z("1", 1.0, "12", 12.0, "-70000", -70000.0, "8388608", 8388608.0, "-9223372036854775808", 3.0, "007", 7.0)}, zsetEncs())
	add("zset/ties", "small", false, &RValue{Type: 'z', ZSet: z("c", 1.0, "a", 1.0, "b", 1.0, rep("k", 300), 1.0, "after", 1.0)}, zsetEncs())
	// ---- hashes
	add("hash/small", "small", true, &RValue{Type: 'h', Hash: hashOf("f1", "v1", "f2", "v2", "", "")}, hashEncs(true))
	var hz, hl []string
	for i, s := range ZiplistInts {
		hz = append(hz, "z"+strconv.Itoa(i), s)
	}
	for i, s := range ListpackInts {
		hl = append(hl, s, "l"+strconv.Itoa(i))
	}
	add("hash/ziplist-ints", "intwidths", true, &RValue{Type: 'h', Hash: hashOf(hz...)}, hashEncs(true))
	add("hash/listpack-int-fields", "intwidths", true, &RValue{Type: 'h', Hash: hashOf(hl...)}, hashEncs(true))
	add("hash/sizes", "sizes", true, &RValue{Type: 'h', Hash: hashOf("k", distinct(300), "after", "x", rep("F", 70), "", rep("G", 64), rep("c", 4096))}, hashEncs(true))
	add("hash/fe-bytes", "fe-bytes", false, &RValue{Type: 'h', Hash: hashOf("\xfe", "\xfe\xfe", "\xff", "x\xfe", "k", "\xff\xff")}, hashEncs(true))
	add("hash/len252", "zipmap-len", false, &RValue{Type: 'h', Hash: hashOf("a", rep("v", 252), "b", "2")}, hashEncs(true))
	add("hash/len253", "zipmap-len253", true, &RValue{Type: 'h', Hash: hashOf("a", rep("v", 253), "b", "2")}, hashEncs(true))
	add("hash/len254", "zipmap-biglen", true, &RValue{Type: 'h', Hash: hashOf("a", rep("v", 254), rep("K", 300), "2", "c", "3")}, hashEncs(true))
	var many []string
	for i := 0; i < 300; i++ {
		many = append(many, "f"+strconv.Itoa(i), strconv.Itoa(i*37-5000))
	}
	add("hash/pairs300", "count300", false, &RValue{Type: 'h', Hash: hashOf(many...)}, hashEncs(true))
	// ---- streams
	c = append(c, streamCases()...)
	return c
}

// RDBCaseByName finds a case; names of the form "chunk/<t>/<n>" and "bighash/<n>" are
// synthesised.
func RDBCaseByName(name string) *RDBCase {
	var t byte
	var n int
	if k, _ := fmt.Sscanf(name, "chunk/%c/%d", &t, &n); k == 2 {
		if t == 'h' {
			return &RDBCase{Name: name, Feature: "chunk", Val: ChunkHash(n), Encs: []RDBEnc{{Kind: "table"}}}
		}
		enc := map[byte]string{'l': "linked", 'S': "table", 'z': "skiplist2"}[t]
		if enc == "" {
			return nil
		}
		return &RDBCase{Name: name, Feature: "chunk", Val: ChunkElems(t, n), Encs: []RDBEnc{{Kind: enc}}}
	}
	if k, _ := fmt.Sscanf(name, "bighash/%d", &n); k == 1 {
		return &RDBCase{Name: name, Feature: "zllen-overflow", Val: BigZiplistHash(n), Encs: []RDBEnc{{Kind: "ziplist"}, {Kind: "listpack"}, {Kind: "table"}}}
	}
	for _, c := range RDBCatalogue() {
		if c.Name == name {
			cc := c
			return &cc
		}
	}
	return nil
}

// RDBEncVersions lists the RDB versions (within [lo,hi]) whose writer emits the type
// code that enc produces for v, honouring LegacyInts (ziplists before RDB 6 have no
// 24-bit/8-bit/immediate integers, from RDB 6 on they always use them).
func RDBEncVersions(v *RValue, enc RDBEnc, lo, hi int) ([]int, error) {
	code, _, err := EncodeValue(v, enc)
	if err != nil {
		return nil, err
	}
	usesZiplist := enc.Kind == "ziplist" || enc.Kind == "quicklist"
	var out []int
	for ver := lo; ver <= hi; ver++ {
		if ver < RDBTypeMinVersion(code) || ver > RDBTypeMaxVersion(code) {
			continue
		}
		if usesZiplist && (enc.LegacyInts != (ver < 6)) {
			continue
		}
		if (enc.Str.LZF || enc.Kind == "lzf") && ver < 2 {
			continue
		}
		out = append(out, ver)
	}
	return out, nil
}

package ref

// RDB generator, part 5: whole files (rdbSaveRio).
//
//	"REDIS" %04d
//	[v7+] { 0xFA <key> <value> }*                      AUX fields
//	per database: 0xFE <dbnum> [v7+ 0xFB <keys> <expires>]
//	  per key: [0xFC <u64le ms> (v3+) | 0xFD <u32le s>] [v9+ 0xF8 <idle s> | 0xF9 <freq byte>]
//	           <type> <key> <value>
//	0xFF [v5+ <crc64 u64le of everything before; 0 = checksum disabled>]

import (
	"fmt"
	"sort"
)

// RDBKey is one key of the logical dataset plus the encoding chosen for it.
type RDBKey struct {
	DB         int
	Key        []byte
	Val        *RValue
	Enc        RDBEnc
	ExpireAtMs int64 // absolute unix ms, 0 = none
	ExpireSec  bool  // write the seconds opcode 0xFD (ExpireAtMs must be a multiple of 1000); forced below RDB 3
	Idle       int64 // LRU idle seconds for opcode 0xF8, < 0 = absent
	Freq       int   // LFU counter for opcode 0xF9, < 0 = absent
}

// RDBFileOpt are the file level choices.
type RDBFileOpt struct {
	Version    int
	Aux        bool   // write the usual AUX fields (ignored below RDB 7)
	NoResizeDB bool   // omit RESIZEDB (it is always omitted below RDB 7)
	ZeroCRC    bool   // rdbchecksum no: footer of eight zero bytes
	RedisVer   string // value of the redis-ver AUX field
	KeyStr     StrOpt // how key names are written (Redis: integer encoding allowed, LZF per rdbcompression)
}

// RDBGenValue is what the generator remembers about one key it wrote.
type RDBGenValue struct {
	DB       int
	Key      []byte
	TypeCode byte
	Body     []byte // type byte + serialized value = DUMP payload without its 10-byte footer
	Offset   int    // offset of the key's first opcode in the file
	TypeAt   int    // offset of the value type byte
	End      int    // offset just after the value
}

// RDBGen is a generated file.
type RDBGen struct {
	File   []byte
	Values []RDBGenValue
}

// GenRDB writes a complete RDB file for the keys (grouped by database in ascending
// order, keys of one database in the order given).
func GenRDB(opt RDBFileOpt, keys []RDBKey) (*RDBGen, error) {
	if opt.Version < 1 || opt.Version > 9999 {
		return nil, fmt.Errorf("bad RDB version %d", opt.Version)
	}
	g := &RDBGen{}
	b := []byte(fmt.Sprintf("REDIS%04d", opt.Version))
	if opt.Aux && opt.Version >= 7 {
		ver := opt.RedisVer
		if ver == "" {
			ver = "7.2.0"
		}
		aux := [][2]string{{"redis-ver", ver}, {"redis-bits", "64"}, {"ctime", "1700000000"}, {"used-mem", "1000000"}, {"repl-stream-db", "0"},
			{"repl-id", "59d2a520ec9fca14e1316e43958ca79c3b4f425d"}, {"repl-offset", "879788"}, {"aof-base", "0"}}
		for _, kv := range aux {
			b = append(b, 0xFA)
			b = rdbString(b, []byte(kv[0]), StrOpt{})
			b = rdbString(b, []byte(kv[1]), StrOpt{})
		}
	}
	dbs := map[int][]RDBKey{}
	var order []int
	for _, k := range keys {
		if _, ok := dbs[k.DB]; !ok {
			order = append(order, k.DB)
		}
		dbs[k.DB] = append(dbs[k.DB], k)
	}
	sort.Ints(order)
	for _, db := range order {
		b = append(b, 0xFE)
		b = rdbLen(b, uint64(db))
		if opt.Version >= 7 && !opt.NoResizeDB {
			exp := 0
			for _, k := range dbs[db] {
				if k.ExpireAtMs != 0 {
					exp++
				}
			}
			b = append(b, 0xFB)
			b = rdbLen(b, uint64(len(dbs[db])))
			b = rdbLen(b, uint64(exp))
		}
		for _, k := range dbs[db] {
			code, body, err := EncodeValue(k.Val, k.Enc)
			if err != nil {
				return nil, fmt.Errorf("key %q: %v", k.Key, err)
			}
			if RDBTypeMinVersion(code) > opt.Version {
				return nil, fmt.Errorf("key %q: type code %d does not exist in RDB version %d", k.Key, code, opt.Version)
			}
			start := len(b)
			if k.ExpireAtMs != 0 {
				if k.ExpireSec || opt.Version < 3 {
					if k.ExpireAtMs%1000 != 0 {
						return nil, fmt.Errorf("key %q: seconds expiry needs a multiple of 1000 ms", k.Key)
					}
					b = le32(append(b, 0xFD), uint32(k.ExpireAtMs/1000))
				} else {
					b = le64(append(b, 0xFC), uint64(k.ExpireAtMs))
				}
			}
			if k.Idle >= 0 || k.Freq >= 0 {
				if opt.Version < 9 {
					return nil, fmt.Errorf("key %q: IDLE/FREQ opcodes need RDB >= 9", k.Key)
				}
				if k.Idle >= 0 {
					b = append(b, 0xF8)
					b = rdbLen(b, uint64(k.Idle))
				}
				if k.Freq >= 0 {
					b = append(b, 0xF9, byte(k.Freq))
				}
			}
			typeAt := len(b)
			b = append(b, code)
			b = rdbString(b, k.Key, opt.KeyStr)
			b = append(b, body...)
			g.Values = append(g.Values, RDBGenValue{DB: k.DB, Key: k.Key, TypeCode: code, Body: append([]byte{code}, body...), Offset: start, TypeAt: typeAt, End: len(b)})
		}
	}
	b = append(b, 0xFF)
	if opt.Version >= 5 {
		if opt.ZeroCRC {
			b = le64(b, 0)
		} else {
			b = le64(b, RDBCRC64(0, b))
		}
	}
	g.File = b
	return g, nil
}

// DumpPayload appends a DUMP footer to body: RDB version (u16le) and CRC64 (u64le)
// over body+version (createDumpPayload).
func DumpPayload(body []byte, version int) []byte {
	out := append([]byte(nil), body...)
	out = le16(out, uint16(version))
	return le64(out, RDBCRC64(0, out))
}

// Package ref holds the deliberately boring reference models the oracles compare
// against. Nothing here imports repository code.
package ref

// CRC16 is a bitwise CRC16/XMODEM (poly 0x1021, init 0, no reflection, no xorout),
// as specified in the Redis Cluster specification appendix.
func CRC16(p []byte) uint16 {
	var crc uint16
	for _, b := range p {
		crc ^= uint16(b) << 8
		for i := 0; i < 8; i++ {
			if crc&0x8000 != 0 {
				crc = (crc << 1) ^ 0x1021
			} else {
				crc <<= 1
			}
		}
	}
	return crc
}

// HashSlot is Redis Cluster's HASH_SLOT: if the key contains a '{' and there is a
// '}' to the right of the FIRST '{' and there are one or more characters between
// the first '{' and the first following '}', only that substring is hashed;
// otherwise the whole key.
func HashSlot(key []byte) int {
	s := -1
	for i, b := range key {
		if b == '{' {
			s = i
			break
		}
	}
	if s >= 0 {
		e := -1
		for i := s + 1; i < len(key); i++ {
			if key[i] == '}' {
				e = i
				break
			}
		}
		if e > s+1 {
			return int(CRC16(key[s+1:e]) % 16384)
		}
	}
	return int(CRC16(key) % 16384)
}

// HashSlotS is HashSlot for strings.
func HashSlotS(key string) int { return HashSlot([]byte(key)) }

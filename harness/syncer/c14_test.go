package syncer

import (
	"os"
	"encoding/json"
	"fmt"
	"strconv"
	"strings"
	"testing"
	"time"

	"github.com/mgtv-tech/redis-GunYu/verifshim/mc"
	"github.com/mgtv-tech/redis-GunYu/verifshim/redisd"
	"github.com/mgtv-tech/redis-GunYu/verifshim/ref"
	"github.com/mgtv-tech/redis-GunYu/verifshim/vtime"
)

func init() { verifChecks["C14"] = runC14 }

type c14Scenario struct {
	Syms       []string `json:"syms"`
	Cfg        biCfg    `json:"cfg"`
	MaxCrashes int      `json:"max_crashes"`
	Idle       int      `json:"idle_restarts"` // restarts with no traffic after the stream completed
	Preempt    bool     `json:"preempt,omitempty"`
	Plan       []string `json:"plan,omitempty"` // preemption plan over the wake-up statements of syncer/bisync.go
	OtherDB    bool     `json:"other_db,omitempty"`  // the target already holds a key in db 1 and db 3 (start-up visits several databases)
	SnapKeys   int      `json:"snap_keys,omitempty"` // keys in the snapshot the first full sync replays (0 = empty snapshot)
	Bulk       bool     `json:"bulk,omitempty"`      // all items of one symbol arrive in one read
	BigTxn     int      `json:"big_txn,omitempty"`   // commands in the transaction of symbol tL (0 = 1100)
	// Rekey > 0 (family 'failover', c14r_test.go): from start number Rekey on the source reports a new
	// replication id with the previous one as its second id (fail-over, same history, offsets go on).
	// Every start of such a scenario runs (*syncer).updateCheckpoint, StartPoint(ids), SetRunId(ids[0]).
	Rekey int `json:"rekey,omitempty"`
	// SoftStops: a start that follows a run which ended without a crash is an in-process restart (the
	// same RedisOutput is asked for its start point, told the run id and sent the stream again)
	SoftStops bool `json:"soft_stops,omitempty"`
	// StopAt > 0: the first run is stopped (context cancelled, source closed) in front of the first
	// item of symbol number StopAt: the rest of the stream is traffic for the following starts
	StopAt int `json:"stop_at,omitempty"`
	// Lost > 0 (family 'lostreply', c14s_test.go): number of connection losses (the target stays up, every
	// connection is dropped right after the target processed request k of a run), each followed by an
	// in-process restart (same RedisOutput: StartPoint, SetRunId, Send)
	Lost int `json:"lost_conns,omitempty"`
	// Pre (family 'lostreply'): what the first judged start finds on the target: "" = nothing, "root" = only
	// the root checkpoint (a previous process ran the full sync and no unit), "records" = root checkpoint and
	// recovery records (a previous process replayed the stream up to symbol StopAt)
	Pre string `json:"pre,omitempty"`
	// Stops (family 'lives', c14l_test.go): symbol numbers in front of which the run under way is stopped
	// in an orderly way (context cancelled, source closed) once it has replayed at least one item; each
	// number is used by the first run that gets there. The history is a sequence of lives of one
	// namespace, each replaying a part of the stream. In the frontier modes the 100 ms flush fires
	// before the stop (choice 0; the stop without it costs one deviation).
	Stops []int `json:"stops,omitempty"`
	// CrashLives > 0: crash points are enumerated in the first CrashLives starts only
	CrashLives int `json:"crash_lives,omitempty"`
}

type c14Run struct {
	FirstSeq  int
	BootEnd   int // request seq reached when the start sequence had finished
	Offset    int64
	SpOffset  int64
	FullSync  bool
	BootErr   string
	SendErr   string
	Crashed   bool
	Completed bool
	Idle      bool
	Lost      bool // the run (or the in-process start sequence) lost its connections; the target stayed up
}

type c14Rec struct {
	Items  []sItem
	Runs   []c14Run
	Exec   []*redisd.Req
	Events int
	Marks  []string
	Early  *mc.Result
	Seen   []string // preemption points reached
	Hit    []string // planned preemption points reached
}

const c14Target = "bitarget:6379"

func c14Exec(t *testing.T, scn c14Scenario, ch *mc.Chooser) (rec c14Rec, machinery string) {
	bigTxnCmds = 1100
	if scn.BigTxn > 0 {
		bigTxnCmds = scn.BigTxn
	}
	msg := bubble(t, func() {
		var pre *preemptCtl
		if scn.Preempt {
			pre = installPreempt(scn.Plan)
			curPre = pre
			defer func() {
				rec.Seen, rec.Hit = pre.seen, pre.hit
				curPre = nil
				pre.remove()
			}()
		}
		arm := func(on bool) {
			if pre != nil {
				pre.mu.Lock()
				pre.armed = on
				pre.mu.Unlock()
			}
		}
		biEnvReset()
		srv := redisd.New(c14Target)
		if scn.OtherDB {
			srv.Put(1, "resident:1", &redisd.Value{T: 's', Str: []byte("x")})
			srv.Put(3, "resident:3", &redisd.Value{T: 's', Str: []byte("y")})
		}
		var snapRDB []byte
		if scn.SnapKeys > 0 {
			var keys []ref.RDBKey
			for i := 0; i < scn.SnapKeys; i++ {
				keys = append(keys, ref.RDBKey{DB: 0, Key: []byte(fmt.Sprintf("snapkey%d", i)), Val: &ref.RValue{Type: 's', Str: []byte(fmt.Sprintf("sv%d", i))}, Enc: ref.RDBEnc{Kind: "raw"}, Idle: -1, Freq: -1})
			}
			g, gerr := ref.GenRDB(ref.RDBFileOpt{Version: 11, Aux: true}, keys)
			if gerr != nil {
				machinery = "rdb generator: " + gerr.Error()
				return
			}
			snapRDB = g.File
			for _, gv := range g.Values {
				for i := 0; i < scn.SnapKeys; i++ {
					if string(gv.Key) == fmt.Sprintf("snapkey%d", i) {
						srv.RegisterRestorable(gv.Body, &redisd.Value{T: 's', Str: []byte(fmt.Sprintf("sv%d", i))})
					}
				}
			}
		}
		env := &aofEnv{t: t, srv: srv}
		items := buildStream(scn.Syms)
		rec.Items = items
		ctl := &crashCtl{env: env, ch: ch, left: scn.MaxCrashes, marks: &rec.Marks}
		rc := standaloneCfg(c14Target)
		frontierMode := scn.Cfg.Mode != "sync"
		idleLeft := scn.Idle
		streamDone := false
		maxRuns := scn.MaxCrashes + scn.Idle + 2
		if scn.StopAt > 0 {
			maxRuns++
		}
		maxRuns += len(scn.Stops)
		stopUsed := make([]bool, len(scn.Stops))
		var prevRo *RedisOutput // the output of the previous run when that run ended without a crash (SoftStops)
		for runNo := 0; runNo < maxRuns; runNo++ {
			if scn.CrashLives > 0 && runNo >= scn.CrashLives {
				ctl.noCrash = true
			}
			rr := c14Run{FirstSeq: srv.NumReqs() + 1, Idle: streamDone}
			if runNo > 0 {
				srv.Revive()
			}
			ids := c14IDs(scn.Rekey, runNo)
			var boot biBootResult
			crashed := ctl.event(fmt.Sprintf("crash.boot%d", runNo), func() {
				if snapRDB != nil {
					biBootRDB = snapRDB
				}
				if scn.Rekey > 0 {
					var reuse *RedisOutput
					if scn.SoftStops {
						reuse = prevRo
					}
					boot = biBootIDs(scn.Cfg, rc, "src", ids, aofS0, func(string) *redisd.Server { return srv }, reuse)
					return
				}
				boot = biBoot(scn.Cfg, rc, "src", aofRunID, aofS0, true, srv)
			})
			prevRo = nil
			rr.BootEnd = srv.NumReqs()
			if crashed || boot.err != nil {
				rr.Crashed = crashed
				if boot.err != nil {
					rr.BootErr = boot.err.Error()
				}
				rec.Runs = append(rec.Runs, rr)
				if !crashed {
					v := mc.Violation("start-up failed on a healthy target", "C14:boot-error:"+scn.Cfg.Mode, map[string]interface{}{"error": rr.BootErr, "run": runNo})
					rec.Early = &v
					break
				}
				continue
			}
			rr.Offset, rr.SpOffset, rr.FullSync = boot.offset, boot.sp.Offset, boot.fullSync
			startIdx := boundaryIndex(items, boot.offset)
			if startIdx < 0 {
				rec.Runs = append(rec.Runs, rr)
				v := mc.Violation("resume offset is not the end of a replay unit / stream item", "C14:resume-not-boundary:"+scn.Cfg.Mode,
					map[string]interface{}{"offset": boot.offset, "run": runNo})
				rec.Early = &v
				break
			}
			run := biStart(boot.ro, ids[0], boot.offset)
			arm(true)
			pos := startIdx
			stopped := false
			step := 0
			doEvent := func(f func()) bool {
				step++
				env.events++
				return ctl.event(fmt.Sprintf("crash.r%d.e%d", runNo, step), f)
			}
			crashed = false
			for pos < len(items) && !run.ended && !crashed {
				if scn.StopAt > 0 && runNo == 0 && items[pos].Sym == scn.StopAt {
					stopped = true
					break
				}
				if pos > startIdx && c14StopHere(scn.Stops, stopUsed, items[pos].Sym) {
					// family 'lives': an orderly stop between two units; the flush ticker has fired (a life
					// longer than 100 ms) unless the history deviates
					if frontierMode && ch.Choose(fmt.Sprintf("r%d.stopflush", runNo), 2) == 0 {
						crashed = doEvent(func() { vtime.Fire("frontier"); run.wait() })
					}
					stopped = true
					break
				}
				if frontierMode {
					a := ch.Choose(fmt.Sprintf("r%d.pre%d", runNo, pos), 3)
					switch a {
					case 1:
						crashed = doEvent(func() { vtime.Fire("frontier"); run.wait() })
					case 2:
						crashed = doEvent(func() { time.Sleep(150 * time.Millisecond); run.wait() })
					}
					if crashed || run.ended {
						break
					}
				}
				it := items[pos]
				if scn.Bulk {
					raw := append([]byte(nil), it.Raw...)
					n := 1
					for pos+n < len(items) && items[pos+n].Sym == it.Sym {
						raw = append(raw, items[pos+n].Raw...)
						n++
					}
					crashed = doEvent(func() { run.feed(raw) })
					pos += n
					continue
				}
				crashed = doEvent(func() { run.feed(it.Raw) })
				pos++
			}
			if !crashed && !run.ended && frontierMode && !stopped {
				a := ch.Choose(fmt.Sprintf("r%d.post", runNo), 3)
				switch a {
				case 1:
					crashed = doEvent(func() { vtime.Fire("frontier"); run.wait() })
				case 2:
					crashed = doEvent(func() { time.Sleep(150 * time.Millisecond); run.wait() })
				}
			}
			early := run.ended
			if !crashed && !early && frontierMode && !stopped {
				// closing step of every schedule: one frontier tick lets the coordinator persist
				// what it has (the variant without it is the crash point just before)
				crashed = doEvent(func() { vtime.Fire("frontier"); run.wait() })
				early = run.ended
			}
			// stop: context cancelled, source closed (deterministic; an orderly EOF races
			// between the parser closing its channel and the sender noticing the shutdown)
			arm(false)
			run.kill()
			rr.Crashed = crashed
			if run.err != nil {
				rr.SendErr = run.err.Error()
			}
			rr.Completed = !crashed && !early && pos == len(items)
			if !crashed && !early {
				prevRo = boot.ro
			}
			rec.Runs = append(rec.Runs, rr)
			if early && !crashed {
				v := mc.Violation("replay stopped although the target is healthy", "C14:send-returned:"+scn.Cfg.Mode, map[string]interface{}{"error": rr.SendErr, "run": runNo})
				rec.Early = &v
				break
			}
			if rr.Completed {
				streamDone = true
				if idleLeft == 0 {
					break
				}
				idleLeft--
			}
		}
		rec.Exec = srv.ExecLog()
		rec.Events = env.events
		if len(srv.MachineryErrors) > 0 {
			machinery = "double: " + strings.Join(srv.MachineryErrors, "; ")
		}
	})
	if msg != "" {
		machinery = "bubble: " + msg
	}
	return
}

// ---------------------------------------------------------------------------
// oracle

type c14Unit struct {
	End  int64 // absolute end offset
	Cmds []expCmd
	Sym  string
}

func c14Units(scn c14Scenario, items []sItem) []c14Unit {
	exp := expectedReplay(items, modelCfg{TargetDb: -1, StartDB: 0})
	var units []c14Unit
	for _, e := range exp {
		if e.Group != 0 && len(units) > 0 && len(units[len(units)-1].Cmds) > 0 && units[len(units)-1].Cmds[0].Group == e.Group {
			units[len(units)-1].Cmds = append(units[len(units)-1].Cmds, e)
			continue
		}
		units = append(units, c14Unit{Cmds: []expCmd{e}, Sym: scn.Syms[items[e.Item].Sym]})
	}
	for i := range units {
		last := units[i].Cmds[len(units[i].Cmds)-1]
		end := last.End
		if last.Group != 0 {
			for _, it := range items {
				if it.Group == last.Group {
					end = it.End
				}
			}
		}
		units[i].End = end + aofS0
	}
	return units
}

func (rec *c14Rec) describe() map[string]interface{} {
	return map[string]interface{}{"runs": rec.Runs, "target_log": maskedLog(rec.Exec), "events": rec.Marks}
}

func hashField(r *redisd.Req, field string) (string, bool) {
	for i := 2; i+1 < len(r.Argv); i += 2 {
		if string(r.Argv[i]) == field {
			return string(r.Argv[i+1]), true
		}
	}
	return "", false
}

func oracleC14(scn c14Scenario, rec *c14Rec) mc.Result {
	mode := scn.Cfg.Mode
	isSync := mode == "sync" || mode == "cluster-sync"
	if scn.Rekey > 0 {
		// the clauses are the same across the change of the replication id (offsets, records and
		// position writes under both ids are ONE history); the signature names the family
		mode += ":failover"
	}
	if scn.Lost > 0 {
		// family 'lostreply': the same clauses, every in-process start is a start like any other
		mode += ":lostreply"
	}
	if len(scn.Stops) > 0 {
		// family 'lives': the same clauses over a history of several lives with traffic in each
		mode += ":lives"
	}
	if rec.Early != nil {
		r := *rec.Early
		if len(scn.Stops) > 0 {
			r.Sig += ":lives"
		}
		if scn.Rekey > 0 {
			r.Sig += ":failover"
		}
		if scn.Lost > 0 {
			r.Sig += ":lostreply"
		}
		r.Detail = map[string]interface{}{"detail": r.Detail, "history": rec.describe()}
		return r
	}
	units := c14Units(scn, rec.Items)
	// committedAt[u] = exec seq at which unit u was first committed (0 = never)
	committedAt := make([]int, len(units))
	commitCount := make([]int, len(units))
	// group executed requests by target transaction
	type blk struct{ reqs []*redisd.Req }
	blocks := map[int]*blk{}
	var order []int
	for _, r := range rec.Exec {
		if r.Txn == 0 {
			continue
		}
		if blocks[r.Txn] == nil {
			blocks[r.Txn] = &blk{}
			order = append(order, r.Txn)
		}
		blocks[r.Txn].reqs = append(blocks[r.Txn].reqs, r)
	}
	unitOf := func(r *redisd.Req) int {
		for ui, u := range units {
			for _, c := range u.Cmds {
				if sameCmd(c, r) {
					return ui
				}
			}
		}
		return -1
	}
	biz := 0
	for _, r := range rec.Exec {
		name := r.Name()
		if name == "multi" || name == "exec" || name == "select" || name == "ping" || len(r.Argv) < 2 || isBisyncKey(r.Argv[1]) {
			continue
		}
		switch name {
		case "info", "exists", "hgetall", "hget", "zrangebyscore", "command", "hsetnx", "cluster", "asking":
			continue
		}
		if strings.HasPrefix(string(r.Argv[1]), "snapkey") {
			continue // a unit of the snapshot phase (scenario SnapKeys), not of the incremental stream
		}
		ui := unitOf(r)
		if ui < 0 {
			return mc.Violation("the target executed a business command that is not in the source stream", "C14:invented:"+mode, map[string]interface{}{"command": r.String(), "history": rec.describe()})
		}
		biz++
		if r.Txn == 0 {
			return mc.Violation("a unit's command was executed outside a MULTI/EXEC", "C14:not-atomic:"+mode, map[string]interface{}{"command": r.String(), "history": rec.describe()})
		}
	}
	for _, txn := range order {
		b := blocks[txn]
		var us []int
		hasMarker, hasRecord := false, false
		var execSeq int
		for _, r := range b.reqs {
			if r.Name() == "exec" {
				execSeq = r.ExecSeq
			}
			if len(r.Argv) >= 2 && strings.Contains(string(r.Argv[1]), ":marker:{") && r.Name() == "set" {
				hasMarker = true
			}
			if len(r.Argv) >= 2 && r.Name() == "hset" && (strings.Contains(string(r.Argv[1]), ":latest:{") || strings.Contains(string(r.Argv[1]), ":commit:{")) {
				hasRecord = true
			}
			if len(r.Argv) >= 2 && !isBisyncKey(r.Argv[1]) && r.Name() != "multi" && r.Name() != "exec" {
				if ui := unitOf(r); ui >= 0 {
					us = append(us, ui)
				}
			}
		}
		if len(us) == 0 {
			continue
		}
		if execSeq == 0 {
			continue // never executed
		}
		ui := us[0]
		for _, x := range us {
			if x != ui {
				return mc.Violation("one target transaction mixes commands of different replay units", "C14:mixed-units:"+mode, map[string]interface{}{"txn": maskedLog(b.reqs), "history": rec.describe()})
			}
		}
		if len(us) != len(units[ui].Cmds) || !hasMarker || !hasRecord {
			return mc.Violation("a unit's data, marker and recovery record are not in one executed transaction", "C14:not-atomic:"+mode,
				map[string]interface{}{"txn": maskedLog(b.reqs), "marker": hasMarker, "record": hasRecord, "history": rec.describe()})
		}
		commitCount[ui]++
		if committedAt[ui] == 0 {
			committedAt[ui] = execSeq
		}
	}
	committedBefore := func(ui int, seqLimit int) bool {
		// committedAt is an ExecSeq; compare with the ExecSeq of the last request <= seqLimit
		if committedAt[ui] == 0 {
			return false
		}
		lim := 0
		for _, r := range rec.Exec {
			if r.Seq <= seqLimit && r.ExecSeq > lim {
				lim = r.ExecSeq
			}
		}
		return committedAt[ui] <= lim
	}
	// frontier writes never pass an uncommitted unit
	for _, r := range rec.Exec {
		if r.Name() != "hset" || len(r.Argv) < 2 || !strings.HasSuffix(string(r.Argv[1]), ":frontier") {
			continue
		}
		offS, ok := hashField(r, "end_offset")
		if !ok {
			continue
		}
		off, _ := strconv.ParseInt(offS, 10, 64)
		for ui, u := range units {
			if u.End <= off && !(committedAt[ui] != 0 && committedAt[ui] <= r.ExecSeq) {
				return mc.Violation("the stored frontier passes a unit that is not committed", "C14:frontier-passes-gap:"+mode,
					map[string]interface{}{"frontier_offset": off, "unit_end": u.End, "unit": u.Sym, "write": maskVolatile(r.String()), "history": rec.describe()})
			}
		}
	}
	// resume points
	prev := int64(-1)
	prevRun := -1
	for k, rr := range rec.Runs {
		if rr.BootErr != "" || rr.Offset == 0 {
			continue
		}
		for ui, u := range units {
			if u.End <= rr.Offset && !committedBefore(ui, rr.BootEnd) {
				return mc.Violation("the resume offset skips a unit the target has not committed", "C14:skip:"+mode,
					map[string]interface{}{"run": k, "resume": rr.Offset, "unit_end": u.End, "unit": u.Sym, "history": rec.describe()})
			}
		}
		if isSync {
			var last int64 = aofS0
			for ui, u := range units {
				if committedBefore(ui, rr.BootEnd) && u.End > last {
					last = u.End
				}
			}
			if rr.Offset < last {
				return mc.Violation("sync mode resumed before the last committed unit (it would be applied twice)", "C14:repeat:"+mode,
					map[string]interface{}{"run": k, "resume": rr.Offset, "last_committed_end": last, "history": rec.describe()})
			}
		}
		if prev >= 0 && rr.Offset < prev {
			kind := "after-crash"
			if !rec.Runs[prevRun].Crashed {
				kind = "after-clean-stop"
			}
			if rec.Runs[prevRun].Lost {
				kind = "after-lost-connection"
			}
			return mc.Violation("the resume point moved backwards between two successive starts", fmt.Sprintf("C14:resume-regressed:%s:%s", mode, kind),
				map[string]interface{}{"run": k, "resume": rr.Offset, "previous_run": prevRun, "previous_resume": prev, "history": rec.describe()})
		}
		prev, prevRun = rr.Offset, k
	}
	if isSync {
		for ui, n := range commitCount {
			if n > 1 {
				return mc.Violation("sync mode committed a unit twice", "C14:repeat:"+mode, map[string]interface{}{"unit": units[ui].Sym, "times": n, "history": rec.describe()})
			}
		}
	}
	// completeness
	last := rec.Runs[len(rec.Runs)-1]
	if last.Completed {
		for ui, u := range units {
			if committedAt[ui] == 0 {
				return mc.Violation("a unit is missing on the target after the stream completed", "C14:missing:"+mode, map[string]interface{}{"unit": u.Sym, "history": rec.describe()})
			}
		}
	}
	crashes := 0
	for _, r := range rec.Runs {
		if r.Crashed {
			crashes++
		}
	}
	parts := maskedLog(rec.Exec)
	for _, r := range rec.Runs {
		parts = append(parts, fmt.Sprintf("run:%d:%v:%v", r.Offset, r.FullSync, r.Crashed))
		if r.Lost {
			parts = append(parts, "lost")
		}
	}
	return mc.OK(mc.Hash(parts...), biz > 0 && (crashes > 0 || len(rec.Runs) > 1), rec.Events)
}

func runC14(t *testing.T, rep *mc.Reporter) {
	shard, nshards := mc.ShardOf()
	tier := mc.Tier()
	budget := &mc.Budget{Deadline: mc.DeadlineFromEnv()}
	exec := func(scn c14Scenario, ch *mc.Chooser) mc.Result {
		var rec c14Rec
		var mach string
		if scn.Lost > 0 {
			rec, mach = c14sExec(t, scn, ch)
		} else {
			rec, mach = c14Exec(t, scn, ch)
		}
		if mach != "" {
			return mc.Result{Verdict: "machinery", Clause: mach}
		}
		return oracleC14(scn, &rec)
	}
	if rp, err := mc.LoadReplay(); err != nil {
		rep.Machinery("cannot load replay: "+err.Error(), nil)
		return
	} else if rp != nil {
		var cs c14cScenario
		if err := json.Unmarshal(rp.Scenario, &cs); err == nil && cs.Cluster {
			view := c14Scenario{Cfg: biCfg{"cluster-" + cs.Cfg.Mode, 2}, MaxCrashes: cs.MaxCrashes, Idle: cs.Idle, Rekey: cs.Rekey}
			for _, l := range cs.Lanes {
				view.Syms = append(view.Syms, fmt.Sprintf("lane%d", l))
			}
			rec, mach := c14cExec(t, cs, mc.NewChooser(rp.Choices))
			if mach != "" {
				rep.Exec(cs, rp.Choices, mc.Result{Verdict: "machinery", Clause: mach})
				return
			}
			if len(cs.Topo) > 0 {
				rep.Exec(cs, rp.Choices, oracleC19Bi(cs, &rec))
				return
			}
			rep.Exec(cs, rp.Choices, oracleC14(view, &rec))
			return
		}
		var scn c14Scenario
		if err := json.Unmarshal(rp.Scenario, &scn); err != nil {
			rep.Machinery("bad replay scenario: "+err.Error(), nil)
			return
		}
		rep.Exec(scn, rp.Choices, exec(scn, mc.NewChooser(rp.Choices)))
		return
	}
	type plan struct {
		alpha   []string
		L       int
		cfgs    []biCfg
		bound   int
		crashes int
		idle    int
	}
	allCfg := []biCfg{{"sync", 2}, {"pipeline", 1}, {"pipeline", 2}, {"parallel", 2}}
	plans := []plan{
		{[]string{"w1", "t2", "p"}, 3, allCfg, 0, 1, 1},
		{[]string{"w1", "t2"}, 2, allCfg, 1, 1, 2},
	}
	if tier == "thorough" {
		plans = []plan{
			{[]string{"w1", "w2", "t2", "p", "n"}, 3, allCfg, 1, 1, 2},
			{[]string{"w1", "t2", "p"}, 3, allCfg, 0, 2, 1},
			{[]string{"w1", "t2"}, 4, allCfg, 0, 1, 1},
			{[]string{"w1", "t2"}, 2, allCfg, 2, 2, 2},
		}
	}
	idx := 0
	// ---- cluster variant: two parallel lanes, completion order across lanes is explored
	// {0,1,0}: a unit committed and the frontier stored, then one unit per lane in flight - the
	// later one can commit first, so a stop can leave a hole right behind a stored frontier
	laneSeqs := [][]int{{1, 0}}
	cbound, ccrashes := 1, 1
	if tier == "thorough" {
		laneSeqs = append(laneSeqs, []int{0, 1}, []int{1, 0, 1}, []int{0, 1, 0}, []int{0, 0, 1}, []int{0, 1, 1, 0})
		cbound, ccrashes = 2, 1
	}
	type cplan struct {
		lanes []int
		soft  bool
		bound int
		mode  string
		pre   []int
		auto  bool
		same  bool
		topo  []string
		foo   bool
		colo  bool
		burst bool
		// topoPre: the first topoPre steps of topo are applied before the first unit (c14cScenario.TopoPre)
		topoPre int
	}
	var cplans []cplan
	for _, ls := range laneSeqs {
		cplans = append(cplans, cplan{lanes: ls, bound: cbound, mode: "parallel"})
	}
	// {0,1,0} with the frontier stored as soon as possible: a unit committed and the frontier stored,
	// then one unit per lane in flight - the later one can commit first, so a stop can leave a hole
	// right behind a stored frontier
	cplans = append(cplans, cplan{lanes: []int{0, 1, 0}, bound: 1, mode: "parallel", auto: true})
	// the same with the stored frontier coming from earlier units of the same life: the first
	// judged start already resumes from it, so falling back behind it is visible at once
	cplans = append(cplans, cplan{lanes: []int{1, 0}, bound: 1, mode: "parallel", pre: []int{0, 1}, same: true, auto: true})
	// sync mode with an output slot white list and units whose command the static key table does
	// not know (not slot-filtered): every unit's record must be found again at the next start
	cplans = append(cplans, cplan{lanes: []int{0, 1}, bound: 0, mode: "sync", foo: true}, cplan{lanes: []int{1, 1}, bound: 0, mode: "sync", foo: true})
	// sync mode on the cluster, also as the second life of a namespace: three units on one slot,
	// a full resync under the same run id, then fewer units on another slot
	cplans = append(cplans, cplan{lanes: []int{1, 0}, bound: 0, mode: "sync"}, cplan{lanes: []int{1, 1}, bound: 0, mode: "sync", pre: []int{0, 0, 0}})
	if tier == "thorough" {
		cplans = append(cplans, cplan{lanes: []int{1, 0, 1}, bound: 1, mode: "sync"}, cplan{lanes: []int{1, 0}, bound: 1, mode: "sync", pre: []int{0, 0, 0}},
			cplan{lanes: []int{1, 0}, bound: 1, mode: "parallel", pre: []int{0, 1, 0}})
	}
	// in-process restarts (same RedisOutput): stop by lost connections, then StartPoint + Send again
	cplans = append(cplans, cplan{lanes: []int{1, 0}, soft: true, bound: 2, mode: "parallel"})
	if tier == "thorough" {
		cplans = append(cplans, cplan{lanes: []int{1, 0, 1}, soft: true, bound: 2, mode: "parallel"}, cplan{lanes: []int{0, 1, 0}, soft: true, bound: 2, mode: "parallel"})
	}
	// thorough tier: the cluster scenarios get at most 40% of the time budget; what they do not finish is reported as capped
	cbudget := &mc.Budget{Deadline: budget.Deadline}
	if !budget.Deadline.IsZero() && tier == "thorough" {
		cbudget.Deadline = time.Now().Add(time.Until(budget.Deadline) * 2 / 5)
	}
	// bidirectional units while the slot of lane 0 migrates: each unit is a real MULTI/EXEC through
	// the cluster client's transaction batcher, which retries the WHOLE transaction at the node a
	// MOVED/ASK names or reports a restart. Part of C19 (VERIF_FAMILY=ctopo); not run by C14 itself.
	var tplans []cplan
	for _, mode := range []string{"sync", "parallel"} {
		for _, tp := range [][]string{{"O"}, {"M", "F"}, {"M", "K", "F"}, {"M"}} {
			tb := 1
			if tier == "thorough" {
				tb = 2
			}
			tplans = append(tplans, cplan{lanes: []int{0, 1, 0}, bound: tb, mode: mode, topo: tp})
		}
	}
	// both lanes on one node. NOTE: in parallel mode every lane worker owns its OWN cluster client (its own
	// node pipelines) and receives each unit's reply before it dispatches the next, so two transactions are
	// never in flight on one node connection here; the colocated lanes only share the NODE (its slot map
	// and redirect answers). Transactions queued behind one another on one connection: pipeline plans below
	for _, tp := range [][]string{{"O"}, {"M", "F"}} {
		tb := 1
		if tier == "thorough" {
			tb = 2
		}
		tplans = append(tplans, cplan{lanes: []int{0, 1, 0}, bound: tb, mode: "parallel", topo: tp, colo: true},
			cplan{lanes: []int{0, 1}, bound: tb + 1, mode: "parallel", topo: tp, colo: true})
	}
	// pipeline mode: ONE cluster client carries every unit (window 2), so the units of different slots
	// of one node are written to one node connection; with the stream arriving in one read (burst) the
	// second transaction is on the wire before the first one's reply is read
	for _, tp := range [][]string{{"O"}, {"M", "F"}, {"M", "K", "F"}, {"M"}} {
		tb := 1
		if tier == "thorough" {
			tb = 2
		}
		tplans = append(tplans, cplan{lanes: []int{0, 1, 0}, bound: tb, mode: "pipeline", topo: tp},
			cplan{lanes: []int{0, 1, 0}, bound: tb, mode: "pipeline", topo: tp, colo: true, burst: true})
		if tier == "thorough" {
			tplans = append(tplans, cplan{lanes: []int{1, 0, 1, 0}, bound: tb, mode: "pipeline", topo: tp, colo: true, burst: true},
				cplan{lanes: []int{0, 1, 0}, bound: tb, mode: "pipeline", topo: tp, burst: true})
		}
	}
	// family 'stale map': the first steps of the script have taken place between the tool's start (slot map
	// read) and the first unit - one slot, or the slots of BOTH lanes (two different nodes) have a new owner -
	// so the first units are answered MOVED while later units of the same stream are routed on the map the
	// client refreshes in the background. Item arrival between two parked replies is an explorer action, so
	// a later unit of a key can be dispatched on the fresh map while an earlier one still waits for its
	// redirect to be followed. Scripts: {O} / {O,O1} applied up front, {O1,O} with only the first up front
	// (the second placed by the explorer), {M,M1} up front with the finishing steps placed by the explorer
	type stalePlan struct {
		lanes []int
		topo  []string
		pre   int
		bound int
		mode  string
	}
	stale := []stalePlan{
		{[]int{1, 0, 0}, []string{"O", "O1"}, 2, 2, "pipeline"},
		{[]int{0, 1, 0}, []string{"O", "O1"}, 2, 1, "pipeline"},
		{[]int{1, 0, 0}, []string{"O"}, 1, 1, "pipeline"},
		{[]int{1, 0, 0}, []string{"O1", "O"}, 1, 1, "pipeline"},
	}
	if tier == "thorough" {
		stale = nil
		for _, mode := range []string{"pipeline", "parallel", "sync"} {
			for _, ls := range [][]int{{1, 0, 0}, {0, 1, 0}, {0, 0, 1}, {1, 0, 1, 0}} {
				stale = append(stale,
					stalePlan{ls, []string{"O", "O1"}, 2, 2, mode},
					stalePlan{ls, []string{"O"}, 1, 2, mode},
					stalePlan{ls, []string{"O1", "O"}, 1, 2, mode},
					stalePlan{ls, []string{"M", "M1", "F", "F1"}, 2, 2, mode})
			}
		}
	}
	for _, sp := range stale {
		tplans = append(tplans, cplan{lanes: sp.lanes, bound: sp.bound, mode: sp.mode, topo: sp.topo, topoPre: sp.pre})
	}
	fam := os.Getenv("VERIF_FAMILY") // development aid / parts: "cauto" = only the AutoFlush cluster plan
	if fam == "ctopo:stale" { // development aid: only the 'stale map' plans
		var keep []cplan
		for _, cp := range tplans {
			if cp.topoPre > 0 {
				keep = append(keep, cp)
			}
		}
		tplans, fam = keep, "ctopo"
	}
	if strings.HasPrefix(fam, "ctopo:") { // development aid: "ctopo:<mode>" = only the plans of one mode
		var keep []cplan
		for _, cp := range tplans {
			if cp.mode == fam[len("ctopo:"):] {
				keep = append(keep, cp)
			}
		}
		tplans, fam = keep, "ctopo"
	}
	if fam == "cauto" {
		var keep []cplan
		for _, cp := range cplans {
			if cp.same || cp.foo {
				keep = append(keep, cp)
			}
		}
		cplans = keep
		plans = nil
	}
	if fam == "ctopo" {
		cplans = tplans
		plans = nil
	}
	if fam == "big" || fam == "failover" || fam == "failoverc" || fam == "lostreply" || fam == "lives" {
		cplans = nil
	}
	// ---- family 'failover' (c14r_test.go): the source's replication id changes between two starts.
	// First in the order: small (about 10^4 executions in the quick tier), and a deadline reached in the
	// families below must not leave it out
	if fam == "" || fam == "failover" || fam == "failoverc" {
		c14FailoverFamily(t, rep, tier, shard, nshards, &idx, budget, cbudget, exec, fam == "failoverc")
	}
	// ---- family 'lostreply' (c14s_test.go): connection losses with the target staying up (request executed,
	// reply lost), each followed by an in-process restart; its own small share of the deadline
	if fam == "" || fam == "lostreply" {
		c14LostReplyFamily(t, rep, tier, shard, nshards, &idx, budget, exec, fam == "lostreply")
	}
	// ---- family 'lives' (c14l_test.go): several lives with traffic in each (orderly stops between units), a
	// non-empty first snapshot, a crash in the first life; its own small share of the deadline
	if fam == "" || fam == "lives" {
		c14LivesFamily(t, rep, tier, shard, nshards, &idx, budget, exec, fam == "lives")
	}
	for _, cp := range cplans {
		// one execution costs about half a second (every start scans the 16384 slots): all shards
		// share each of these scenarios, divided at the root of its execution tree
		if cbudget.Expired() {
			rep.Capped("cluster scenarios: their share of the deadline is used up")
			break
		}
		cscn := c14cScenario{Lanes: cp.lanes, Cfg: biCfg{cp.mode, 2}, MaxCrashes: ccrashes, Idle: 1, Cluster: true, Soft: cp.soft, Pre: cp.pre, AutoFlush: cp.auto, PreSameLife: cp.same, Topo: cp.topo, Foo: cp.foo, Colo: cp.colo, Burst: cp.burst, TopoPre: cp.topoPre}
		if len(cp.topo) > 0 {
			cscn.MaxCrashes = 0
		}
		if cp.soft {
			cscn.MaxCrashes, cscn.Idle = 0, 0
		}
		view := c14Scenario{Cfg: biCfg{"cluster-" + cp.mode, 2}, MaxCrashes: cscn.MaxCrashes, Idle: cscn.Idle}
		for _, l := range cp.lanes {
			view.Syms = append(view.Syms, fmt.Sprintf("lane%d", l))
		}
		mc.RunScenarioSplit(rep, cscn, cp.bound, cbudget, shard, nshards, func(ch *mc.Chooser) mc.Result {
			rec, mach := c14cExec(t, cscn, ch)
			if mach != "" {
				return mc.Result{Verdict: "machinery", Clause: mach}
			}
			if len(cscn.Topo) > 0 {
				return oracleC19Bi(cscn, &rec)
			}
			return oracleC14(view, &rec)
		})
	}
	// ---- preemption family (standalone target, no crash, one idle restart): every wake-up
	// statement of syncer/bisync.go reached while the stream is replayed is a point at which the
	// running goroutine may be held back until all others block
	pbound := 1
	pseqs := [][]string{{"w1", "t2"}, {"t2", "w1", "w1"}}
	if tier == "thorough" {
		pbound = 2
		pseqs = append(pseqs, []string{"w1", "w2", "t2"}, []string{"w1", "p", "t2", "w1"})
	}
	if fam != "" {
		pseqs = nil
	}
	for _, ps := range pseqs {
		for _, cfg := range allCfg {
			idx++
			if idx%nshards != shard || budget.Expired() {
				continue
			}
			scn := c14Scenario{Syms: append([]string{"s0"}, ps...), Cfg: cfg, MaxCrashes: 0, Idle: 1, Preempt: true}
			rep.Scenario()
			explorePreempt(rep, budget, pbound, func(plan []string, res mc.Result) {
				s := scn
				s.Plan = plan
				rep.Exec(s, nil, res)
			}, func(plan []string) (mc.Result, []string, []string) {
				s := scn
				s.Plan = plan
				rec, mach := c14Exec(t, s, mc.NewChooser(nil))
				if mach != "" {
					return mc.Result{Verdict: "machinery", Clause: mach}, rec.Seen, rec.Hit
				}
				return oracleC14(s, &rec), rec.Seen, rec.Hit
			})
		}
	}
	// ---- initial states other than "empty target, empty snapshot": the target holds keys in other
	// databases (the start sequence visits them) / the first full sync replays a snapshot with keys
	// (its units come before the incremental ones)
	if fam == "" {
		type variant struct {
			other bool
			snap  int
		}
		vars := []variant{{true, 0}, {false, 2}, {true, 1}}
		enumSeqs([]string{"w1", "t2"}, 2, func(seq []string) {
			for _, cfg := range allCfg {
				for _, v := range vars {
					idx++
					if idx%nshards != shard || budget.Expired() {
						continue
					}
					scn := c14Scenario{Syms: append([]string{"s0"}, seq...), Cfg: cfg, MaxCrashes: 1, Idle: 2, OtherDB: v.other, SnapKeys: v.snap}
					if !v.other {
						mc.RunScenario(rep, scn, 0, budget, func(ch *mc.Chooser) mc.Result { return exec(scn, ch) })
						continue
					}
					// several populated databases: the order in which the start sequence visits them is Go map
					// iteration order, which no seam controls. No crash here (a crash point would have to be
					// replayed under the same order); the one execution is repeated so that all orders of three
					// databases come up (6 orders, 24 repetitions); a violation must show again within 200 more.
					scn.MaxCrashes = 0
					rep.Scenario()
					for k := 0; k < 24; k++ {
						res := exec(scn, mc.NewChooser(nil))
						if res.Verdict == "violation" {
							again := false
							for j := 0; j < 200 && !again; j++ {
								r2 := exec(scn, mc.NewChooser(nil))
								again = r2.Verdict == "violation" && r2.Sig == res.Sig
							}
							if !again {
								res = mc.Result{Verdict: "machinery", Clause: "violation did not show again in 200 repetitions: " + res.Sig, Detail: res.Detail}
							}
						}
						rep.Exec(scn, nil, res)
						if res.Verdict != "ok" {
							break
						}
					}
				}
			}
		})
	}
	// ---- one replay unit with far more commands than any batch size or per-transaction constant
	// (symbol tL: a source MULTI/EXEC of 1100 commands arriving in one read), every crash point that
	// changes the target's data, one idle restart
	if fam == "" || fam == "big" {
		sizes := []int{1100}
		if tier == "thorough" {
			sizes = []int{70, 300, 1100, 4100}
		}
		for _, n := range sizes {
			for _, cfg := range allCfg {
				for _, syms := range [][]string{{"s0", "w1", "tL", "w1"}, {"s0", "tL", "t2"}} {
					idx++
					if idx%nshards != shard || budget.Expired() {
						continue
					}
					scn := c14Scenario{Syms: syms, Cfg: cfg, MaxCrashes: 1, Idle: 1, Bulk: true, BigTxn: n}
					mc.RunScenario(rep, scn, 0, budget, func(ch *mc.Chooser) mc.Result { return exec(scn, ch) })
				}
			}
		}
	}
	if fam != "" {
		plans = nil
	}
	for _, pl := range plans {
		pl := pl
		enumSeqs(pl.alpha, pl.L, func(seq []string) {
			for _, cfg := range pl.cfgs {
				idx++
				if idx%nshards != shard || budget.Expired() {
					continue
				}
				scn := c14Scenario{Syms: append([]string{"s0"}, seq...), Cfg: cfg, MaxCrashes: pl.crashes, Idle: pl.idle}
				mc.RunScenario(rep, scn, pl.bound, budget, func(ch *mc.Chooser) mc.Result { return exec(scn, ch) })
			}
		})
	}
	if budget.Expired() {
		rep.Capped("deadline reached before all scenarios were explored")
	}
}

package syncer

import (
	"bytes"
	"encoding/json"
	"fmt"
	"github.com/mgtv-tech/redis-GunYu/config"
	"math"
	"net"
	"os"
	"sort"
	"strings"
	"testing"
	"testing/synctest"
	"time"

	"github.com/mgtv-tech/redis-GunYu/pkg/rdb"
	"github.com/mgtv-tech/redis-GunYu/verifshim/mc"
	"github.com/mgtv-tech/redis-GunYu/verifshim/redisd"
	"github.com/mgtv-tech/redis-GunYu/verifshim/ref"
	"github.com/mgtv-tech/redis-GunYu/verifshim/vnet"
	"github.com/mgtv-tech/redis-GunYu/verifshim/vtime"
)

func init() { verifChecks["C13"] = runC13 }

// ---------------------------------------------------------------------------
// C13: two sites, two links, closed loop through the sites' propagation streams.

type c13Write struct {
	Site int    `json:"site"` // 0 = A, 1 = B
	Sym  string `json:"sym"`
}

type c13Scenario struct {
	Writes     []c13Write `json:"writes"`
	Cfg        biCfg      `json:"cfg"`
	WrapSingle bool       `json:"wrap_single"`    // pre-7 propagation (every transaction wrapped, SELECT before MULTI)
	Snap       *c13Snap   `json:"snap,omitempty"` // nil: both links start from an empty snapshot (incremental phase only)
	Preempt    bool       `json:"preempt,omitempty"`
	Plan       []string   `json:"plan,omitempty"` // preemption plan over the wake-up statements of syncer/bisync.go
	// Whitelist: both links run with a key prefix white list that every client key of the
	// alphabet passes and none of the tool's bookkeeping keys does
	Whitelist bool `json:"whitelist,omitempty"`
	// HashTag: both links run with output.replay.replaceHashTag = true (RedisOutputConfig.ReplaceHashTag).
	// At HEAD the snapshot lane stores a business key under its name without the first '{' and the
	// first '}' (bisyncRdbTargetKey, by design), the incremental lane queues the source's key names
	// as they are; the tool's own bookkeeping keys keep their {slot tag} in both lanes.
	HashTag bool `json:"replace_hash_tag,omitempty"`
	// CmdBlacklist: filter.commandBlacklist (config.FilterConfig.CmdBlacklist) of the links named by
	// CmdListOn (bit 0 = link A->B, bit 1 = link B->A). The names are taken from the commands the
	// tool's own marker / record / index / checkpoint traffic shows up as in a site's propagation
	// stream, so that the list removes bookkeeping commands next to client commands of that name.
	CmdBlacklist []string `json:"cmd_blacklist,omitempty"`
	CmdListOn    int      `json:"cmd_list_on,omitempty"`
}

// c13CmdListed reports whether link li (0 = A->B, 1 = B->A) runs with a command black list that
// names cmd (case-insensitive, as RedisOutput inserts the list).
func c13CmdListed(scn c13Scenario, li int, cmd string) bool {
	if scn.CmdListOn&(1<<uint(li)) == 0 {
		return false
	}
	for _, b := range scn.CmdBlacklist {
		if strings.EqualFold(b, cmd) {
			return true
		}
	}
	return false
}

// c13TargetKey is the reference for the key a snapshot entry is stored under at the target.
func c13TargetKey(key string, replaceHashTag bool) string {
	if !replaceHashTag {
		return key
	}
	key = strings.Replace(key, "{", "", 1)
	return strings.Replace(key, "}", "", 1)
}

// c13Snap is the snapshot part of a scenario: what the sites hold when both links start.
//
//	a2     site A holds three keys (two strings, one small hash), site B holds nothing
//	a2tag  as a2, every key name with a hash tag (snap:{t}s ...)
//	a2b1   as a2, and site B holds a string under the SAME name as one of A's strings
//	a2race as a2, and a client of site B creates that same-named key (the LAST key of the
//	       snapshot) while link A->B is replaying the key: after the link's EXISTS probe,
//	       before its MULTI..EXEC unit (needs KeyExists=ignore and the RESTORE path: the
//	       RESTORE answers BUSYKEY, the marker is the unit's only effective command; the
//	       start sequence stops with that error and is run once more, see c13RaceAbortIsViolation)
//	a2racemid as a2race with the raced key in the middle of the snapshot
//	big    site A holds one string and one collection (Big = hash | list | set | zset) of BigN
//	       elements under snap:big; replayed in expanded form (Restore=false) the key is ONE
//	       record_type=rdb unit of BigN commands (+ a leading DEL under replace)
//	split  site A holds one string and a table-encoded hash of 6 fields; Chunk lowers the
//	       parser's bin size (shipped: 16 MiB) so that the hash reaches the link as several bins
//	       = several units of one key
//
// BulkLen, when > 0, is MaxProtoBulkLen itself (values whose dump is larger are expanded, smaller
// ones go through RESTORE: both forms in one snapshot).
type c13Snap struct {
	Content   string `json:"content"`
	KeyExists string `json:"key_exists"` // replace | ignore
	Restore   bool   `json:"restore"`    // MaxProtoBulkLen = shipped default (RESTORE path) / 0 (expanded commands)
	Big       string `json:"big,omitempty"`
	BigN      int    `json:"big_n,omitempty"`
	Chunk     int    `json:"chunk,omitempty"`
	BulkLen   int    `json:"bulklen,omitempty"`
}

func (sn c13Snap) maxBulk() int {
	if sn.BulkLen > 0 {
		return sn.BulkLen
	}
	if sn.Restore {
		return 512 * 1024 * 1024 // config.go default (proto-max-bulk-len of Redis)
	}
	return 0
}

// c13RaceAbortIsViolation: how the check judges the one way the tool reacts to the a2race
// history today - the start sequence of link A->B returns "exec[1]: BUSYKEY ..." (the txn
// batcher of the real client reports the failed RESTORE inside EXEC as an error before
// validateBisyncRdbExecReplies can tolerate it). false: the harness restarts the link once, as
// the tool's supervisor does, and judges echo / swallow / exactly-once / quiescence on the
// whole history (C13's statement speaks about those, not about a link giving up);
// true: the abort itself is reported as C13:snapshot-abort-busykey:<mode>.
const c13RaceAbortIsViolation = false

const (
	c13KeyS   = "snap:s"
	c13KeyDup = "snap:dup"
	c13KeyH   = "snap:h"
	c13KeyBig = "snap:big"
	c13RaceV  = "B-race"
)

type c13SnapKey struct {
	Key string
	Val *ref.RValue
	Enc ref.RDBEnc
}

func c13Str(k, v string) c13SnapKey {
	return c13SnapKey{Key: k, Val: &ref.RValue{Type: 's', Str: []byte(v)}, Enc: ref.RDBEnc{Kind: "raw"}}
}

// c13BigKey builds a collection of n elements that the parser expands to one command per element.
func c13BigKey(kind string, n int) c13SnapKey {
	k := c13SnapKey{Key: c13KeyBig}
	switch kind {
	case "hash":
		v := &ref.RValue{Type: 'h'}
		for i := 0; i < n; i++ {
			v.Hash = append(v.Hash, ref.HField{Field: []byte(fmt.Sprintf("f%04d", i)), Value: []byte(fmt.Sprintf("v%04d", i))})
		}
		k.Val, k.Enc = v, ref.RDBEnc{Kind: "table"}
	case "list":
		v := &ref.RValue{Type: 'l'}
		for i := 0; i < n; i++ {
			v.List = append(v.List, []byte(fmt.Sprintf("e%04d", i)))
		}
		k.Val, k.Enc = v, ref.RDBEnc{Kind: "quicklist2", Node: 128}
	case "set":
		v := &ref.RValue{Type: 'S'}
		for i := 0; i < n; i++ {
			v.Set = append(v.Set, []byte(fmt.Sprintf("m%04d", i)))
		}
		k.Val, k.Enc = v, ref.RDBEnc{Kind: "table"}
	case "zset":
		v := &ref.RValue{Type: 'z'}
		for i := 0; i < n; i++ {
			v.ZSet = append(v.ZSet, ref.ZMember{Member: []byte(fmt.Sprintf("z%04d", i)), Score: float64(i) + 0.5})
		}
		k.Val, k.Enc = v, ref.RDBEnc{Kind: "skiplist2"}
	default:
		panic("c13BigKey: unknown kind " + kind)
	}
	return k
}

// c13SnapKeys returns what site A and site B hold at snapshot time.
func c13SnapKeys(sn *c13Snap) (a, b []c13SnapKey) {
	switch sn.Content {
	case "big":
		return []c13SnapKey{c13Str(c13KeyS, "A-s"), c13BigKey(sn.Big, sn.BigN)}, nil
	case "split":
		v := &ref.RValue{Type: 'h'}
		for i := 0; i < 6; i++ {
			v.Hash = append(v.Hash, ref.HField{Field: []byte(fmt.Sprintf("field-%02d", i)), Value: []byte(fmt.Sprintf("value-%02d-0123456789abcdef", i))})
		}
		return []c13SnapKey{c13Str(c13KeyS, "A-s"), {Key: c13KeyH, Val: v, Enc: ref.RDBEnc{Kind: "table"}}}, nil
	}
	a = []c13SnapKey{
		c13Str(c13KeyS, "A-s"),
		{Key: c13KeyH, Val: &ref.RValue{Type: 'h', Hash: []ref.HField{{Field: []byte("f1"), Value: []byte("A-1")}, {Field: []byte("f2"), Value: []byte("A-2")}}}, Enc: ref.RDBEnc{Kind: "listpack"}},
		c13Str(c13KeyDup, "A-dup"),
	}
	if sn.Content == "a2tag" {
		// as a2, every key name carries a hash tag
		for i := range a {
			a[i].Key = strings.Replace(a[i].Key, "snap:", "snap:{t}", 1)
		}
	}
	if sn.Content == "a2racemid" {
		// the raced key is not the last one: another unit of the link follows the bare marker
		a[1], a[2] = a[2], a[1]
	}
	if sn.Content == "a2b1" {
		b = []c13SnapKey{c13Str(c13KeyDup, "B-dup")}
	}
	return
}

func c13ToValue(v *ref.RValue) *redisd.Value {
	out := &redisd.Value{T: v.Type}
	switch v.Type {
	case 's':
		out.Str = append([]byte{}, v.Str...)
	case 'h':
		out.Hash = map[string][]byte{}
		for _, f := range v.Hash {
			out.Hash[string(f.Field)] = append([]byte{}, f.Value...)
			out.HOrder = append(out.HOrder, string(f.Field))
		}
	case 'l':
		for _, e := range v.List {
			out.List = append(out.List, append([]byte{}, e...))
		}
	case 'S':
		out.Set = map[string]struct{}{}
		for _, e := range v.Set {
			out.Set[string(e)] = struct{}{}
		}
	case 'z':
		out.ZSet = map[string]float64{}
		for _, m := range v.ZSet {
			out.ZSet[string(m.Member)] = m.Score
		}
	default:
		panic("c13ToValue: unsupported type")
	}
	return out
}

// c13Canon renders type and content of a value of the double (strings and hashes).
func c13Canon(v *redisd.Value) string {
	if v == nil {
		return "<absent>"
	}
	switch v.T {
	case 's':
		return fmt.Sprintf("string %q", v.Str)
	case 'h':
		var fs []string
		for k, x := range v.Hash {
			fs = append(fs, fmt.Sprintf("%q=%q", k, x))
		}
		sort.Strings(fs)
		return "hash " + strings.Join(fs, " ")
	case 'l':
		var fs []string
		for _, e := range v.List {
			fs = append(fs, fmt.Sprintf("%q", e))
		}
		return "list " + strings.Join(fs, " ")
	case 'S':
		var fs []string
		for k := range v.Set {
			fs = append(fs, fmt.Sprintf("%q", k))
		}
		sort.Strings(fs)
		return "set " + strings.Join(fs, " ")
	case 'z':
		var fs []string
		for k, x := range v.ZSet {
			fs = append(fs, fmt.Sprintf("%q=%x", k, math.Float64bits(x)))
		}
		sort.Strings(fs)
		return "zset " + strings.Join(fs, " ")
	}
	return "type " + redisd.TypeName(v.T)
}

// c13GenRDB writes the snapshot of a site (RDB version 11 with AUX fields, as Redis 7.2 does).
func c13GenRDB(keys []c13SnapKey) (*ref.RDBGen, error) {
	var ks []ref.RDBKey
	for _, k := range keys {
		ks = append(ks, ref.RDBKey{DB: 0, Key: []byte(k.Key), Val: k.Val, Enc: k.Enc, Idle: -1, Freq: -1})
	}
	return ref.GenRDB(ref.RDBFileOpt{Version: 11, Aux: true}, ks)
}

const markerLike = `{"version":"1","run_id":"x","syncer_id":"y","unit_seq":1,"start_offset":1,"end_offset":2,"slot":0,"digest":"00"}`

// c13Commands expands a client write symbol into the commands the client sends.
func c13Commands(sym string, i int) [][]string {
	p := fmt.Sprintf("%d", i)
	switch sym {
	case "set":
		return [][]string{{"SET", "k" + p, "v" + p}}
	case "setex":
		return [][]string{{"SET", "k" + p, "v" + p, "EX", "100"}}
	case "delmiss":
		return [][]string{{"DEL", "nokey" + p}}
	case "hset":
		return [][]string{{"HSET", "h" + p, "f", "v" + p}}
	case "txn":
		return [][]string{{"MULTI"}, {"SET", "ta" + p, "1"}, {"SET", "tb" + p, "2"}, {"EXEC"}}
	case "txn1":
		return [][]string{{"MULTI"}, {"SET", "tc" + p, "1"}, {"DEL", "nokey" + p}, {"EXEC"}}
	case "markerval":
		return [][]string{{"SET", "k" + p, markerLike}}
	case "markerkey":
		return [][]string{{"SET", "user:marker:{x}" + p, "v" + p}}
	case "nsval":
		// foreign stand-alone commands whose NON-key arguments (value, list element, set member, field value)
		// are names from the reserved bookkeeping namespaces: a client is free to store such bytes
		return [][]string{{"SET", "kn" + p, "redis-gunyu-checkpoint-hash"}, {"RPUSH", "ln" + p, "redis-gunyu-bisync:redis-gunyu-checkpoint:marker:{slot-0}"},
			{"SADD", "sn" + p, "redis-gunyu-bisync:x"}, {"HSET", "hn" + p, "f", "redis-gunyu-checkpoint"}}
	case "nsdel":
		// a foreign multi-key DEL whose LATER key lies next to (not in) the reserved namespace
		return [][]string{{"SET", "kq" + p, "1"}, {"SET", "redis-gunyu-bisyncx" + p, "1"}, {"DEL", "kq" + p, "redis-gunyu-bisyncx" + p}}
	case "txnmarker":
		// a foreign transaction: ordinary first command, a later command carries marker-like bytes
		return [][]string{{"MULTI"}, {"SET", "td" + p, "1"}, {"SET", "te:marker:{x}" + p, markerLike}, {"EXEC"}}
	case "txnmarkerfirst":
		// a foreign transaction whose FIRST command writes a key that merely contains ":marker:{"
		return [][]string{{"MULTI"}, {"SET", "user:marker:{x}" + p, markerLike}, {"SET", "tf" + p, "1"}, {"EXEC"}}
	case "expire":
		return [][]string{{"SET", "k" + p, "v" + p}, {"EXPIRE", "k" + p, "100"}}
	case "tagset":
		return [][]string{{"SET", "k{t}" + p, "v" + p}}
	case "tagtxn":
		return [][]string{{"MULTI"}, {"SET", "ta{t}" + p, "1"}, {"SET", "tb{t}" + p, "2"}, {"EXEC"}}
	case "burst":
		// more plain writes than bisyncFrontierFlushUnitThreshold (512) between two link steps:
		// the frontier is flushed by count in the middle of one chunk, not by the 100 ms interval
		var out [][]string
		for j := 0; j < 520; j++ {
			out = append(out, []string{"SET", fmt.Sprintf("kb%s.%03d", p, j), "v"})
		}
		return out
	case "otherdb":
		// a client write in another database: the next thing this site propagates from db 0
		// (e.g. a transaction a link wrote) is preceded - Redis >= 7: followed inside the
		// MULTI - by a SELECT
		return [][]string{{"SELECT", "1"}, {"SET", "kd" + p, "v" + p}, {"SELECT", "0"}}
	}
	panic("unknown c13 symbol " + sym)
}

type biSite struct {
	name       string
	addr       string
	runID      string
	srv        *redisd.Server
	cli        net.Conn
	cliID      int
	clientReqs map[int]bool // request seqs issued by the harness client
}

func (s *biSite) client(argv ...string) string {
	before := s.srv.NumReqs()
	s.cli.Write(redisd.EncodeCommandS(argv...))
	l := s.srv.Log()
	var reply string
	for _, r := range l[before:] {
		s.clientReqs[r.Seq] = true
		s.cliID = r.Conn
		reply = r.Reply
	}
	s.cli.(*vnet.Conn).Drain()
	return reply
}

type biLinkT struct {
	from, to *biSite
	run      *biRun
	released int
	s0       int64
	steps    int
	// snapshot phase of this link: request seqs (snapLo, snapHi] of the target's log
	snapLo, snapHi int
	snapKeys       []c13SnapKey // what the snapshot handed to this link holds
	rdb            []byte
}

// step hands the link everything its source has propagated since the last step.
func (l *biLinkT) step() bool {
	b := l.from.srv.ReplBytes()
	if len(b) <= l.released {
		return false
	}
	chunk := b[l.released:]
	l.released = len(b)
	l.steps++
	l.run.feed(chunk)
	// let frontier flush timers (100 ms) elapse in virtual time
	time.Sleep(150 * time.Millisecond)
	vtime.Fire("frontier")
	l.run.wait()
	return true
}

// c13BootRaced runs the start sequence of link A->B in a goroutine while the harness plays a
// client of site B that creates c13KeyDup between the link's EXISTS probe of that key (answer
// 0) and the MULTI of the unit that carries the key: the target parks exactly that MULTI, the
// harness issues the client write and lets the target go on.
func c13BootRaced(scn c13Scenario, l *biLinkT) (boot biBootResult, raced bool) {
	srv := l.to.srv
	armed := false
	plan := srv.PlanRef()
	plan.AfterReq = func(r *redisd.Req) {
		if r.Name() == "exists" && len(r.Argv) == 2 && string(r.Argv[1]) == c13KeyDup && strings.HasPrefix(r.Reply, ":0") {
			armed = true
		}
	}
	plan.ParkFilter = func(argv [][]byte) bool {
		return armed && len(argv) > 0 && strings.EqualFold(string(argv[0]), "multi")
	}
	plan.Park = true
	done := make(chan biBootResult, 1)
	go func() {
		done <- biBoot(scn.Cfg, standaloneCfg(l.to.addr), l.from.name, l.from.runID, l.s0, true, srv)
	}()
	finished := false
	for stalls := 0; !finished; {
		synctest.Wait()
		select {
		case boot = <-done:
			finished = true
			continue
		default:
		}
		if len(srv.ParkedConns()) > 0 {
			if !raced {
				raced = true
				l.to.client("SET", c13KeyDup, c13RaceV)
			}
			armed = false
			srv.Unpark()
			plan.Park = true
			continue
		}
		// nothing parked and the start sequence has not returned: only a timer can wake it up
		stalls++
		if stalls > 120 {
			boot.err = fmt.Errorf("harness: start sequence did not return within 120 virtual seconds")
			// leave the goroutine to the teardown of the bubble: unblock it
			srv.KillConns()
			time.Sleep(time.Minute)
			synctest.Wait()
			break
		}
		time.Sleep(time.Second)
	}
	plan.Park = false
	plan.ParkFilter = nil
	plan.AfterReq = nil
	srv.Unpark()
	return
}

func c13Exec(t *testing.T, scn c13Scenario, ch *mc.Chooser) mc.Result {
	r, _, _ := c13ExecPlan(t, scn, ch)
	return r
}

func c13ExecPlan(t *testing.T, scn c13Scenario, ch *mc.Chooser) (res mc.Result, seen, hit []string) {
	msg := bubble(t, func() {
		if scn.Preempt {
			pre := installPreempt(scn.Plan)
			curPre = pre
			pre.armed = true
			defer func() {
				seen, hit = pre.seen, pre.hit
				curPre = nil
				pre.remove()
			}()
		}
		biEnvReset()
		mk := func(name, addr, runID string) *biSite {
			s := &biSite{name: name, addr: addr, runID: runID, srv: redisd.New(addr), clientReqs: map[int]bool{}}
			s.srv.ReplID = runID
			s.srv.EnableRepl(scn.WrapSingle)
			s.srv.PropagateExpire = true
			c, err := vnet.DialDirect(addr)
			if err != nil {
				panic(err)
			}
			s.cli = c
			return s
		}
		A := mk("siteA", "siteA:6379", "a1a1a1a1a1a1a1a1a1a1a1a1a1a1a1a1a1a1a1a1")
		B := mk("siteB", "siteB:6379", "b2b2b2b2b2b2b2b2b2b2b2b2b2b2b2b2b2b2b2b2")
		sites := []*biSite{A, B}
		links := []*biLinkT{{from: A, to: B}, {from: B, to: A}}
		events := 0
		var fail *mc.Result
		// ---- snapshot part: initial content of the sites, the two snapshots, the positions of
		// the two replication streams at snapshot time
		pre := map[*biSite]map[string]*redisd.Value{A: {}, B: {}} // what a site holds at snapshot time
		raced := false
		raceAborts := 0
		bootOrder := []int{0, 1}
		if scn.Snap != nil && scn.Snap.Chunk > 0 {
			oldMax := rdb.VerifSetMaxBinEntryBuffer(scn.Snap.Chunk)
			defer rdb.VerifSetMaxBinEntryBuffer(oldMax)
		}
		if scn.Snap != nil {
			ka, kb := c13SnapKeys(scn.Snap)
			links[0].snapKeys, links[1].snapKeys = ka, kb
			for _, l := range links {
				for _, k := range l.snapKeys {
					v := c13ToValue(k.Val)
					l.from.srv.Put(0, k.Key, v)
					pre[l.from][k.Key] = v
				}
				g, err := c13GenRDB(l.snapKeys)
				if err != nil {
					res = mc.Result{Verdict: "machinery", Clause: "generator: " + err.Error()}
					for _, s := range sites {
						s.cli.Close()
					}
					return
				}
				l.rdb = g.File
				for _, gv := range g.Values {
					for _, k := range l.snapKeys {
						if k.Key == string(gv.Key) {
							// a RESTORE payload is resolved by its body; both sites know every body so
							// that an echoed RESTORE would be executed (and judged), not rejected
							A.srv.RegisterRestorable(gv.Body, c13ToValue(k.Val))
							B.srv.RegisterRestorable(gv.Body, c13ToValue(k.Val))
						}
					}
				}
			}
			// both positions first: whatever a link writes during its snapshot phase lies
			// behind the start position of the opposite link and is parsed by it
			for _, l := range links {
				l.released = len(l.from.srv.ReplBytes())
				l.s0 = 1000 + int64(l.released)
			}
			if ch.Choose("bootorder", 2) == 1 {
				bootOrder = []int{1, 0}
			}
		}
		for _, li := range bootOrder {
			l := links[li]
			var boot biBootResult
			if scn.Snap == nil {
				l.released = len(l.from.srv.ReplBytes())
				l.s0 = 1000 + int64(l.released)
				if scn.Whitelist || scn.HashTag || scn.CmdListOn&(1<<uint(li)) != 0 {
					wl, ht := scn.Whitelist, scn.HashTag
					var bl []string
					if scn.CmdListOn&(1<<uint(li)) != 0 {
						bl = append(bl, scn.CmdBlacklist...)
					}
					biBootCfgHook = func(c *RedisOutputConfig) {
						if wl {
							c.Filter = config.FilterConfig{KeyFilter: &config.FilterKeyConfig{PrefixKeyWhitelist: []string{"k", "t", "h", "user", "nokey"}}}
						}
						if len(bl) > 0 {
							c.Filter.CmdBlacklist = bl
						}
						c.ReplaceHashTag = ht
					}
				}
				boot = biBoot(scn.Cfg, standaloneCfg(l.to.addr), l.from.name, l.from.runID, l.s0, true, l.to.srv)
			} else {
				sn := *scn.Snap
				biBootRDB = l.rdb
				biBootCfgHook = func(c *RedisOutputConfig) {
					c.KeyExists = sn.KeyExists
					c.MaxProtoBulkLen = sn.maxBulk()
					c.ReplaceHashTag = scn.HashTag
				}
				l.snapLo = l.to.srv.NumReqs()
				if strings.HasPrefix(sn.Content, "a2race") && li == 0 {
					boot, raced = c13BootRaced(scn, l)
					if boot.err != nil && raced && strings.Contains(boot.err.Error(), "BUSYKEY") && !c13RaceAbortIsViolation {
						// the real client turns the BUSYKEY inside the EXEC reply into an error and the
						// whole snapshot replay stops (the marker of that unit was executed all the same).
						// The tool's supervisor starts the link again: one new start sequence, same
						// snapshot, which must succeed.
						raceAborts++
						biBootRDB = l.rdb
						biBootCfgHook = func(c *RedisOutputConfig) {
							c.KeyExists = sn.KeyExists
							c.MaxProtoBulkLen = 512 * 1024 * 1024
							c.ReplaceHashTag = scn.HashTag
						}
						boot = biBoot(scn.Cfg, standaloneCfg(l.to.addr), l.from.name, l.from.runID, l.s0, true, l.to.srv)
						events++
					} else if boot.err != nil && raced && strings.Contains(boot.err.Error(), "BUSYKEY") {
						v := mc.Violation("the snapshot phase of a link stops with an error because a client of the target created a snapshot key between the link's EXISTS probe and its unit (KeyExists=ignore)",
							"C13:snapshot-abort-busykey:"+scn.Cfg.Mode, map[string]interface{}{"error": boot.err.Error(), "link": l.from.name + "->" + l.to.name, "target_log": maskedLog(l.to.srv.ExecLog())})
						fail = &v
						break
					}
				} else {
					boot = biBoot(scn.Cfg, standaloneCfg(l.to.addr), l.from.name, l.from.runID, l.s0, true, l.to.srv)
				}
				l.snapHi = l.to.srv.NumReqs()
				events++
			}
			if boot.err != nil {
				v := mc.Violation("start-up failed on a healthy target", "C13:boot-error:"+scn.Cfg.Mode, map[string]interface{}{"error": boot.err.Error(),
					"link": l.from.name + "->" + l.to.name, "target_log": maskedLog(l.to.srv.ExecLog())})
				fail = &v
				break
			}
			l.run = biStart(boot.ro, l.from.runID, boot.offset)
		}
		if scn.Snap != nil && strings.HasPrefix(scn.Snap.Content, "a2race") && !raced && fail == nil {
			// the link never probed the key before its unit: the client write simply follows the snapshot phase
			B.client("SET", c13KeyDup, c13RaceV)
			events++
		}
		teardown := func() {
			for _, l := range links {
				if l.run != nil {
					l.run.kill()
				}
			}
			for _, s := range sites {
				s.cli.Close()
			}
		}
		if fail != nil {
			teardown()
			res = *fail
			return
		}
		// ---- client writes, with link steps interleaved under explorer control
		for i, w := range scn.Writes {
			for k := 0; k < 2; k++ {
				a := ch.Choose(fmt.Sprintf("pre%d.%d", i, k), 3)
				if a == 0 {
					break
				}
				links[a-1].step()
				events++
			}
			if w.Sym == "idle25h" {
				// nothing happens for longer than the 24 h the bookkeeping markers live
				time.Sleep(25 * time.Hour)
				for _, l := range links {
					l.run.wait()
				}
				events++
				continue
			}
			for _, c := range c13Commands(w.Sym, i) {
				sites[w.Site].client(c...)
			}
			events++
		}
		// ---- run the exchange to quiescence
		quiet := false
		for round := 0; round < 12; round++ {
			moved := false
			order := []int{0, 1}
			if ch.Choose(fmt.Sprintf("order%d", round), 2) == 1 {
				order = []int{1, 0}
			}
			for _, li := range order {
				if links[li].step() {
					moved = true
					events++
				}
			}
			for _, l := range links {
				if l.run.ended {
					moved = false
				}
			}
			if !moved {
				quiet = true
				break
			}
		}
		var ended []string
		for _, l := range links {
			if l.run.ended {
				ended = append(ended, fmt.Sprintf("%s->%s: %v", l.from.name, l.to.name, l.run.err))
			}
		}
		logs := map[string][]*redisd.Req{"A": A.srv.ExecLog(), "B": B.srv.ExecLog()}
		repl := map[string][]redisd.ReplCmd{"A": A.srv.ReplCmds(), "B": B.srv.ReplCmds()}
		teardown()
		if os.Getenv("VERIF_C13_DUMP") != "" {
			fmt.Fprintf(os.Stderr, "---- A stream:\n%s\n---- B stream:\n%s\n---- A log:\n%s\n---- B log:\n%s\n", strings.Join(replStrings(repl["A"]), "\n"), strings.Join(replStrings(repl["B"]), "\n"),
				strings.Join(maskedLog(logs["A"]), "\n"), strings.Join(maskedLog(logs["B"]), "\n"))
		}
		describe := func() map[string]interface{} {
			return map[string]interface{}{"siteA_log": c13Clip(maskedLog(logs["A"])), "siteB_log": c13Clip(maskedLog(logs["B"]))}
		}
		for _, s := range sites {
			if len(s.srv.MachineryErrors) > 0 {
				res = mc.Result{Verdict: "machinery", Clause: "double: " + strings.Join(s.srv.MachineryErrors, "; ")}
				return
			}
		}
		if len(ended) > 0 {
			res = mc.Violation("a link stopped although both sites are healthy", "C13:link-stopped:"+scn.Cfg.Mode, map[string]interface{}{"ended": ended, "history": describe()})
			return
		}
		if !quiet {
			res = mc.Violation("the exchange does not quiesce: traffic keeps travelling between the sites", "C13:no-quiescence:"+scn.Cfg.Mode, map[string]interface{}{"history": describe()})
			return
		}
		// ---- oracle: what link X->Y applied at Y == client-originated business commands propagated by X
		for li, l := range links {
			fromKey, toKey := "A", "B"
			if li == 1 {
				fromKey, toKey = "B", "A"
			}
			var want []redisd.ReplCmd
			for _, c := range repl[fromKey] {
				n := strings.ToLower(string(c.Argv[0]))
				if n == "select" || n == "multi" || n == "exec" {
					continue
				}
				if c.Conn != l.from.cliID {
					continue
				}
				if c13CmdListed(scn, li, n) {
					// a configured-out command: the link's command black list names it, so the link
					// does not replay it (reference: the list applies to the command names of the
					// source's propagation stream); its absence at the target is not 'swallowing',
					// its presence would be reported as applied-but-not-expected
					continue
				}
				want = append(want, c)
			}
			var got []*redisd.Req
			for _, r := range logs[toKey] {
				if l.to.clientReqs[r.Seq] {
					continue
				}
				if r.Seq > l.snapLo && r.Seq <= l.snapHi {
					// written by this link during its own snapshot phase: not a peer's client write
					// (the OPPOSITE link must not send it back: its got list does not exclude it)
					continue
				}
				n := r.Name()
				switch n {
				case "select", "multi", "exec", "ping", "info", "exists", "hgetall", "hget", "zrangebyscore", "command", "hsetnx", "get", "keys", "scan":
					continue
				}
				if redisd.NonData(n) {
					continue
				}
				if len(r.Argv) > 1 && isBisyncKey(r.Argv[1]) {
					continue
				}
				got = append(got, r)
			}
			dir := fmt.Sprintf("%s->%s", fromKey, toKey)
			n := len(want)
			if len(got) < n {
				n = len(got)
			}
			for i := 0; i < n; i++ {
				if !strings.EqualFold(string(want[i].Argv[0]), got[i].Name()) || !sameArgs(want[i].Argv[1:], got[i].Argv[1:]) {
					kind := "altered"
					for j := 0; j < len(want); j++ {
						if strings.EqualFold(string(want[j].Argv[0]), got[i].Name()) && sameArgs(want[j].Argv[1:], got[i].Argv[1:]) {
							kind = "duplicated-or-reordered"
						}
					}
					res = mc.Violation("what a link applied differs from the peer's client writes: "+kind, fmt.Sprintf("C13:%s:%s", kind, scn.Cfg.Mode),
						map[string]interface{}{"link": dir, "at": i, "expected": c13Clip(replStrings(want)), "applied": c13Clip(maskedLog(got)), "history": describe()})
					return
				}
			}
			if len(got) > len(want) {
				kind := "echo-or-invented"
				res = mc.Violation("a link applied more than the peer's client writes (echo of own writes or bookkeeping sent as business)", fmt.Sprintf("C13:%s:%s", kind, scn.Cfg.Mode),
					map[string]interface{}{"link": dir, "expected": c13Clip(replStrings(want)), "applied": c13Clip(maskedLog(got)), "history": describe()})
				return
			}
			if len(got) < len(want) {
				sym := "?"
				res = mc.Violation("a client write of one site is missing at the other (swallowed)", fmt.Sprintf("C13:swallowed:%s:%s", scn.Cfg.Mode, c13SymOf(scn, want[len(got)], &sym)),
					map[string]interface{}{"link": dir, "missing": c13Clip(replStrings(want[len(got):])), "expected": c13Clip(replStrings(want)), "applied": c13Clip(maskedLog(got)), "history": describe()})
				return
			}
			// a client transaction must arrive as one transaction
			_ = li
		}
		// ---- oracle, snapshot part: the target of a link holds the keys of the link's snapshot.
		// KeyExists=replace: with the snapshot's content; KeyExists=ignore: a key the target
		// already held when the link looked keeps the target's content.
		snapApplied := false
		if scn.Snap != nil {
			for li, l := range links {
				dir := "A->B"
				if li == 1 {
					dir = "B->A"
				}
				for _, r := range logs[map[int]string{0: "B", 1: "A"}[li]] {
					if r.Seq > l.snapLo && r.Seq <= l.snapHi && !l.to.clientReqs[r.Seq] && len(r.Argv) > 1 && strings.HasPrefix(string(r.Argv[1]), "snap:") {
						switch r.Name() {
						case "restore", "set", "hset", "hmset", "del", "rpush", "sadd", "zadd":
							snapApplied = true
						}
					}
				}
				for _, k := range l.snapKeys {
					want := c13ToValue(k.Val)
					// the name the configuration maps the key to in the snapshot lane
					tk := c13TargetKey(k.Key, scn.HashTag)
					if scn.Snap.KeyExists == "ignore" {
						if v, ok := pre[l.to][tk]; ok {
							want = v
						} else if raced && l.to == B && tk == c13KeyDup {
							want = &redisd.Value{T: 's', Str: []byte(c13RaceV)}
						}
					}
					got := l.to.srv.Get(0, tk)
					if got == nil {
						res = mc.Violation("a key of the snapshot is missing at the target after the snapshot phase", "C13:snapshot-missing:"+scn.Cfg.Mode,
							map[string]interface{}{"link": dir, "key": k.Key, "target_key": tk, "expected": c13Canon(want), "history": describe()})
						return
					}
					if c13Canon(got) != c13Canon(want) {
						res = mc.Violation("a key of the snapshot has other content at the target than the key-exists policy prescribes", "C13:snapshot-content:"+scn.Cfg.Mode+":"+scn.Snap.KeyExists,
							map[string]interface{}{"link": dir, "key": k.Key, "target_key": tk, "expected": c13Canon(want), "found": c13Canon(got), "history": describe()})
						return
					}
				}
			}
		}
		obs := mc.Hash(append(append(maskedLog(logs["A"]), maskedLog(logs["B"])...), fmt.Sprintf("race-aborts=%d", raceAborts))...)
		if raceAborts > 0 {
			c13RaceAbortCount++
		}
		nontrivial := false
		for _, k := range []string{"A", "B"} {
			for _, c := range repl[k] {
				if c.Conn == sites[map[string]int{"A": 0, "B": 1}[k]].cliID {
					nontrivial = true
				}
			}
		}
		if snapApplied {
			nontrivial = true
		}
		res = mc.OK(obs, nontrivial, events)
	})
	if msg != "" {
		return mc.Result{Verdict: "machinery", Clause: "bubble: " + msg}, seen, hit
	}
	if res.Verdict == "violation" && scn.CmdListOn != 0 {
		// command-list family: the signature names the black-listed command names and the links
		res.Sig += fmt.Sprintf(":cmd-blacklist[%s]@%s", strings.Join(scn.CmdBlacklist, ","), map[int]string{1: "A->B", 2: "B->A", 3: "both"}[scn.CmdListOn])
		res.Clause += " (links run with filter.commandBlacklist naming a command the tool's own bookkeeping traffic uses)"
	}
	return res, seen, hit
}

// c13Clip keeps the head and the tail of a long listing (big snapshot values make logs of
// thousands of lines).
func c13Clip(ss []string) []string {
	if len(ss) <= 240 {
		return ss
	}
	out := append([]string(nil), ss[:80]...)
	out = append(out, fmt.Sprintf("... %d lines omitted ...", len(ss)-200))
	return append(out, ss[len(ss)-120:]...)
}

// c13RaceAbortCount counts executions in which the raced start sequence stopped with BUSYKEY
// and was restarted (reported as counter snapshot_abort_busykey_restarted).
var c13RaceAbortCount int

func c13SymOf(scn c13Scenario, c redisd.ReplCmd, out *string) string {
	if len(c.Argv) > 1 && string(c.Argv[1]) == c13KeyDup {
		*out = "snaprace"
		return *out
	}
	for i, w := range scn.Writes {
		for _, cmd := range c13Commands(w.Sym, i) {
			if len(cmd) > 1 && len(c.Argv) > 1 && cmd[1] == string(c.Argv[1]) {
				*out = w.Sym
				return w.Sym
			}
		}
	}
	return *out
}

func sameArgs(a, b [][]byte) bool {
	if len(a) != len(b) {
		return false
	}
	for i := range a {
		if !bytes.Equal(a[i], b[i]) {
			return false
		}
	}
	return true
}

func replStrings(l []redisd.ReplCmd) []string {
	out := make([]string, len(l))
	for i, c := range l {
		var sb strings.Builder
		for _, a := range c.Argv {
			if len(a) > 48 {
				fmt.Fprintf(&sb, "%q..(%d) ", a[:48], len(a))
			} else {
				fmt.Fprintf(&sb, "%q ", a)
			}
		}
		out[i] = sb.String()
	}
	return out
}

func runC13(t *testing.T, rep *mc.Reporter) {
	shard, nshards := mc.ShardOf()
	tier := mc.Tier()
	budget := &mc.Budget{Deadline: mc.DeadlineFromEnv()}
	if rp, err := mc.LoadReplay(); err != nil {
		rep.Machinery("cannot load replay: "+err.Error(), nil)
		return
	} else if rp != nil {
		var scn c13Scenario
		if err := json.Unmarshal(rp.Scenario, &scn); err != nil {
			rep.Machinery("bad replay scenario: "+err.Error(), nil)
			return
		}
		rep.Exec(scn, rp.Choices, c13Exec(t, scn, mc.NewChooser(rp.Choices)))
		return
	}
	full := []string{"set", "setex", "delmiss", "hset", "txn", "txn1", "markerval", "markerkey", "nsval", "nsdel", "txnmarker", "txnmarkerfirst", "expire", "otherdb"}
	reduced := []string{"set", "setex", "txn", "txn1", "txnmarkerfirst", "otherdb"}
	modes := []biCfg{{"sync", 2}, {"pipeline", 2}, {"parallel", 2}}
	bound := 1
	type plan struct {
		syms []string
		L    int
	}
	plans := []plan{{full, 1}, {reduced, 2}}
	if tier == "thorough" {
		bound = 2
		plans = []plan{{full, 2}, {reduced, 3}}
	}
	var writes [][]c13Write
	seen := map[string]bool{}
	for _, pl := range plans {
		pl := pl
		var rec func(prefix []c13Write)
		rec = func(prefix []c13Write) {
			if len(prefix) > 0 {
				k := fmt.Sprint(prefix)
				if !seen[k] {
					seen[k] = true
					writes = append(writes, append([]c13Write(nil), prefix...))
				}
			}
			if len(prefix) == pl.L {
				return
			}
			for _, s := range pl.syms {
				for site := 0; site < 2; site++ {
					if len(prefix) == 0 && site == 1 {
						continue // symmetry: the first write is at A
					}
					rec(append(prefix, c13Write{site, s}))
				}
			}
		}
		rec(nil)
	}
	// development aid: VERIF_C13_ONLY=incr|snap|idle|size|tag|wl|preempt restricts the enumeration to
	// one family (never set by bin/check; the scenario numbering and sharding differ then)
	only := os.Getenv("VERIF_C13_ONLY")
	fam := func(name string) bool { return only == "" || only == name }
	idx := 0
	if !fam("incr") {
		writes = nil
	}
	for _, ws := range writes {
		for _, m := range modes {
			for _, wrap := range []bool{false, true} {
				idx++
				if idx%nshards != shard || budget.Expired() {
					continue
				}
				scn := c13Scenario{Writes: ws, Cfg: m, WrapSingle: wrap}
				mc.RunScenario(rep, scn, bound, budget, func(ch *mc.Chooser) mc.Result { return c13Exec(t, scn, ch) })
			}
		}
	}
	// ---- snapshot family: the sites hold keys when both links start; each link replays the
	// snapshot of its source through the real SendRdb (one marker transaction per key) while
	// the opposite link's start position lies before those writes.
	snaps := []c13Snap{
		{Content: "a2", KeyExists: "replace", Restore: true}, {Content: "a2", KeyExists: "replace", Restore: false},
		{Content: "a2b1", KeyExists: "ignore", Restore: true},
		{Content: "a2race", KeyExists: "ignore", Restore: true},
	}
	firsts := []string{"txn", "txn1", "txnmarkerfirst", "set"} // first write at the site that received A's snapshot
	seconds := []string{"set", "txn"}
	if tier == "thorough" {
		snaps = append(snaps, c13Snap{Content: "a2", KeyExists: "ignore", Restore: true}, c13Snap{Content: "a2b1", KeyExists: "replace", Restore: true}, c13Snap{Content: "a2b1", KeyExists: "replace", Restore: false}, c13Snap{Content: "a2b1", KeyExists: "ignore", Restore: false}, c13Snap{Content: "a2racemid", KeyExists: "ignore", Restore: true})
		seconds = reduced
	}
	var swrites [][]c13Write
	swrites = append(swrites, nil) // the snapshot phase alone
	for _, f := range firsts {
		swrites = append(swrites, []c13Write{{1, f}})
		for _, s2 := range seconds {
			for site := 0; site < 2; site++ {
				swrites = append(swrites, []c13Write{{1, f}, {site, s2}})
			}
		}
		// a write at A first: B's first write after the snapshot is still f
		pres := []string{"set"}
		if tier == "thorough" {
			pres = reduced
		}
		for _, p0 := range pres {
			swrites = append(swrites, []c13Write{{0, p0}, {1, f}})
		}
	}
	if !fam("snap") {
		swrites = nil
	}
	for _, ws := range swrites {
		for si := range snaps {
			for _, m := range modes {
				for _, wrap := range []bool{false, true} {
					idx++
					if idx%nshards != shard || budget.Expired() {
						continue
					}
					sn := snaps[si]
					scn := c13Scenario{Writes: ws, Cfg: m, WrapSingle: wrap, Snap: &sn}
					mc.RunScenario(rep, scn, bound, budget, func(ch *mc.Chooser) mc.Result { return c13Exec(t, scn, ch) })
				}
			}
		}
	}
	// ---- a day without traffic between two writes: the markers of the earlier units have expired
	// when the next unit arrives (a master deletes an expired key a command touches and propagates a
	// DEL in front of that command's effects)
	iwrites := [][]c13Write{{{0, "set"}, {0, "idle25h"}, {0, "set"}}, {{0, "txn"}, {0, "idle25h"}, {0, "txn"}}, {{0, "set"}, {1, "set"}, {0, "idle25h"}, {1, "txn1"}}}
	if !fam("idle") {
		iwrites = nil
	}
	for _, ws := range iwrites {
		for _, m := range modes {
			for _, wrap := range []bool{false, true} {
				idx++
				if idx%nshards != shard || budget.Expired() {
					continue
				}
				scn := c13Scenario{Writes: ws, Cfg: m, WrapSingle: wrap}
				mc.RunScenario(rep, scn, bound, budget, func(ch *mc.Chooser) mc.Result { return c13Exec(t, scn, ch) })
				// crossed with the key prefix white list: the expiry DEL of the old marker and the new
				// marker both lie in the namespace the link's key filter rejects
				swl := scn
				swl.Whitelist = true
				mc.RunScenario(rep, swl, bound, budget, func(ch *mc.Chooser) mc.Result { return c13Exec(t, swl, ch) })
			}
		}
	}
	// the same after a snapshot phase: the markers of the record_type=rdb units have expired when
	// the first incremental unit of that link arrives at the target
	isnaps := []c13Snap{{Content: "a2", KeyExists: "replace", Restore: true}}
	iswrites := [][]c13Write{{{0, "idle25h"}, {0, "set"}}, {{0, "idle25h"}, {1, "txn"}}}
	if tier == "thorough" {
		isnaps = append(isnaps, c13Snap{Content: "a2", KeyExists: "replace"}, c13Snap{Content: "a2b1", KeyExists: "replace", Restore: true})
		iswrites = append(iswrites, []c13Write{{0, "idle25h"}, {0, "txn"}}, []c13Write{{0, "set"}, {0, "idle25h"}, {1, "txn1"}}, []c13Write{{0, "idle25h"}, {0, "set"}, {1, "set"}})
	}
	if !fam("idle") {
		isnaps = nil
	}
	for _, ws := range iswrites {
		for si := range isnaps {
			for _, m := range modes {
				for _, wrap := range []bool{false, true} {
					idx++
					if idx%nshards != shard || budget.Expired() {
						continue
					}
					sn := isnaps[si]
					scn := c13Scenario{Writes: ws, Cfg: m, WrapSingle: wrap, Snap: &sn}
					mc.RunScenario(rep, scn, bound, budget, func(ch *mc.Chooser) mc.Result { return c13Exec(t, scn, ch) })
				}
			}
		}
	}
	// ---- snapshot family, size boundaries: one collection replayed in expanded form is ONE unit
	// of one command per element (thousands of commands behind one marker); a value split by the
	// parser (bin size lowered from 16 MiB to 64 bytes) is several units of one key; a small
	// MaxProtoBulkLen puts RESTORE units and expanded units into one snapshot; a burst of more
	// plain writes than the frontier flush count (512) in one link step.
	type sizeCase struct {
		sn c13Snap
		ws []c13Write
	}
	var sizes []sizeCase
	afterB := [][]c13Write{nil, {{1, "txn"}}}
	if tier == "thorough" {
		afterB = append(afterB, []c13Write{{1, "set"}}, []c13Write{{0, "set"}, {1, "txn"}})
	}
	bigs := []c13Snap{{Content: "big", KeyExists: "replace", Big: "hash", BigN: 1100}}
	if tier == "thorough" {
		bigs = nil
		for _, kind := range []string{"hash", "list", "set", "zset"} {
			for _, n := range []int{1023, 1024, 1025, 1100} {
				for _, ke := range []string{"replace", "ignore"} {
					bigs = append(bigs, c13Snap{Content: "big", KeyExists: ke, Big: kind, BigN: n})
				}
			}
		}
		// the same value through RESTORE (one command, whatever the size)
		bigs = append(bigs, c13Snap{Content: "big", KeyExists: "replace", Restore: true, Big: "hash", BigN: 1100})
	}
	splits := []c13Snap{{Content: "split", KeyExists: "replace", Chunk: 64}}
	if tier == "thorough" {
		splits = append(splits, c13Snap{Content: "split", KeyExists: "ignore", Chunk: 64}, c13Snap{Content: "split", KeyExists: "replace", Chunk: 32},
			c13Snap{Content: "a2", KeyExists: "replace", BulkLen: 16}, c13Snap{Content: "a2", KeyExists: "ignore", BulkLen: 16}, c13Snap{Content: "a2b1", KeyExists: "replace", BulkLen: 16})
	}
	for _, sn := range append(bigs, splits...) {
		for _, ws := range afterB {
			sizes = append(sizes, sizeCase{sn, ws})
		}
	}
	if !fam("size") {
		sizes = nil
	}
	for _, sc := range sizes {
		for _, m := range modes {
			for _, wrap := range []bool{false, true} {
				idx++
				if idx%nshards != shard || budget.Expired() {
					continue
				}
				sn := sc.sn
				scn := c13Scenario{Writes: sc.ws, Cfg: m, WrapSingle: wrap, Snap: &sn}
				mc.RunScenario(rep, scn, bound, budget, func(ch *mc.Chooser) mc.Result { return c13Exec(t, scn, ch) })
			}
		}
	}
	bursts := [][]c13Write{{{0, "burst"}}}
	if tier == "thorough" {
		bursts = append(bursts, []c13Write{{0, "burst"}, {1, "txn"}}, []c13Write{{1, "set"}, {0, "burst"}})
	}
	if !fam("size") {
		bursts = nil
	}
	for _, ws := range bursts {
		for _, m := range modes {
			for _, wrap := range []bool{false, true} {
				idx++
				if idx%nshards != shard || budget.Expired() {
					continue
				}
				scn := c13Scenario{Writes: ws, Cfg: m, WrapSingle: wrap}
				mc.RunScenario(rep, scn, bound, budget, func(ch *mc.Chooser) mc.Result { return c13Exec(t, scn, ch) })
			}
		}
	}
	// ---- both links run with replay.replaceHashTag = true: client keys with and without a hash
	// tag, incremental phase in all three replay modes and snapshot phase (RESTORE and expanded)
	type tagCase struct {
		sn *c13Snap
		ws []c13Write
	}
	tagCases := []tagCase{
		{nil, []c13Write{{0, "tagset"}}},
		{nil, []c13Write{{0, "txn"}, {1, "tagtxn"}}},
		{&c13Snap{Content: "a2tag", KeyExists: "replace", Restore: true}, []c13Write{{1, "tagtxn"}}},
		{&c13Snap{Content: "a2tag", KeyExists: "replace"}, []c13Write{{1, "set"}}},
	}
	if tier == "thorough" {
		tagCases = nil
		tsyms := []string{"set", "txn", "tagset", "tagtxn"}
		for _, s1 := range append(append([]string(nil), full...), "tagset", "tagtxn") {
			tagCases = append(tagCases, tagCase{nil, []c13Write{{0, s1}}})
		}
		for _, s1 := range tsyms {
			for _, s2 := range tsyms {
				for site := 0; site < 2; site++ {
					tagCases = append(tagCases, tagCase{nil, []c13Write{{0, s1}, {site, s2}}})
				}
			}
		}
		for _, content := range []string{"a2tag", "a2"} {
			for _, ke := range []string{"replace", "ignore"} {
				for _, rst := range []bool{true, false} {
					for _, ws := range [][]c13Write{nil, {{1, "tagtxn"}}, {{1, "set"}}, {{0, "tagset"}, {1, "txn"}}} {
						tagCases = append(tagCases, tagCase{&c13Snap{Content: content, KeyExists: ke, Restore: rst}, ws})
					}
				}
			}
		}
	}
	if !fam("tag") {
		tagCases = nil
	}
	for _, tc := range tagCases {
		for _, m := range modes {
			for _, wrap := range []bool{false, true} {
				idx++
				if idx%nshards != shard || budget.Expired() {
					continue
				}
				scn := c13Scenario{Writes: tc.ws, Cfg: m, WrapSingle: wrap, HashTag: true}
				if tc.sn != nil {
					sn := *tc.sn
					scn.Snap = &sn
				}
				mc.RunScenario(rep, scn, bound, budget, func(ch *mc.Chooser) mc.Result { return c13Exec(t, scn, ch) })
			}
		}
	}
	// ---- both links configured with a key prefix white list (client keys pass, bookkeeping keys do not)
	wwrites := [][]c13Write{{{0, "set"}}, {{0, "txn"}}, {{0, "txn"}, {1, "set"}}, {{0, "hset"}, {1, "txn1"}}, {{0, "txnmarkerfirst"}}}
	if !fam("wl") {
		wwrites = nil
	}
	for _, ws := range wwrites {
		for _, m := range modes {
			for _, wrap := range []bool{false, true} {
				idx++
				if idx%nshards != shard || budget.Expired() {
					continue
				}
				scn := c13Scenario{Writes: ws, Cfg: m, WrapSingle: wrap, Whitelist: true}
				mc.RunScenario(rep, scn, bound, budget, func(ch *mc.Chooser) mc.Result { return c13Exec(t, scn, ch) })
			}
		}
	}
	// ---- command-list family: filter.commandBlacklist on one link / on both links names a command
	// the tool's own traffic appears as in a site's propagation stream: SET (marker), HSET (latest /
	// rdb record, checkpoint hash), DEL / UNLINK (lazy deletion of an expired marker in front of the
	// new one, record clean-up), ZADD / ZREM / HDEL (commit index, checkpoint fields), EXPIRE /
	// PEXPIRE / PEXPIREAT (record expiry). The list removes client commands of that name too: those
	// are configured-out (not expected at the target, see c13CmdListed); everything else must still
	// arrive exactly once and the exchange must quiesce. (config.FilterConfig has no command WHITE
	// list at HEAD - RedisKeyFilter.InsertCmdWhiteList has no caller - so none is enumerated.)
	cmdLists := [][]string{{"set"}, {"del", "unlink"}, {"hset"}, {"expire", "pexpire", "pexpireat"}, {"zadd", "zrem", "hdel"}}
	cmdOn := []int{2, 3}
	cwrites := [][]c13Write{{{0, "hset"}}, {{0, "set"}}, {{0, "txn1"}}, {{0, "expire"}}, {{0, "hset"}, {1, "txn1"}}, {{0, "txn"}, {1, "set"}}, {{0, "set"}, {0, "idle25h"}, {0, "set"}}}
	if tier == "thorough" {
		cmdLists = append(cmdLists, []string{"set", "hset", "del", "unlink", "zadd", "zrem", "hdel", "expire", "pexpire", "pexpireat"}, []string{"SET"})
		cmdOn = []int{1, 2, 3}
		cwrites = nil
		for _, s1 := range full {
			cwrites = append(cwrites, []c13Write{{0, s1}})
		}
		for _, s1 := range []string{"set", "hset", "txn1"} {
			for _, s2 := range []string{"set", "hset", "txn1"} {
				cwrites = append(cwrites, []c13Write{{0, s1}, {0, s2}}, []c13Write{{0, s1}, {1, s2}})
			}
		}
		cwrites = append(cwrites, []c13Write{{0, "set"}, {0, "idle25h"}, {0, "set"}}, []c13Write{{0, "txn"}, {0, "idle25h"}, {1, "txn"}})
	}
	if !fam("cmdlist") {
		cwrites = nil
	}
	for _, ws := range cwrites {
		for _, bl := range cmdLists {
			for _, on := range cmdOn {
				for _, m := range modes {
					for _, wrap := range []bool{false, true} {
						idx++
						if idx%nshards != shard || budget.Expired() {
							continue
						}
						scn := c13Scenario{Writes: ws, Cfg: m, WrapSingle: wrap, CmdBlacklist: bl, CmdListOn: on}
						mc.RunScenario(rep, scn, bound, budget, func(ch *mc.Chooser) mc.Result { return c13Exec(t, scn, ch) })
					}
				}
			}
		}
	}
	// ---- preemption family: default link-step schedule, every wake-up statement of
	// syncer/bisync.go reached by either link is a point at which the running goroutine may be
	// held back until all others block
	pbound := 1
	pwrites := [][]c13Write{{{0, "txn"}, {1, "set"}}, {{0, "set"}, {1, "txnmarkerfirst"}}, {{0, "txn1"}, {0, "otherdb"}}}
	if tier == "thorough" {
		pbound = 2
		pwrites = append(pwrites, []c13Write{{0, "txn"}, {1, "txn"}, {0, "set"}}, []c13Write{{0, "setex"}, {1, "markerval"}})
	}
	if !fam("preempt") {
		pwrites = nil
	}
	for _, ws := range pwrites {
		for _, m := range modes {
			for _, wrap := range []bool{false, true} {
				idx++
				if idx%nshards != shard || budget.Expired() {
					continue
				}
				scn := c13Scenario{Writes: ws, Cfg: m, WrapSingle: wrap, Preempt: true}
				rep.Scenario()
				explorePreempt(rep, budget, pbound, func(plan []string, res mc.Result) {
					sc := scn
					sc.Plan = plan
					rep.Exec(sc, nil, res)
				}, func(plan []string) (mc.Result, []string, []string) {
					sc := scn
					sc.Plan = plan
					return c13ExecPlan(t, sc, mc.NewChooser(nil))
				})
			}
		}
	}
	if c13RaceAbortCount > 0 {
		rep.Count("snapshot_abort_busykey_restarted", int64(c13RaceAbortCount))
	}
	if budget.Expired() {
		rep.Capped("deadline reached before all scenarios were explored")
	}
}

package syncer

import (
	"bytes"
	"encoding/json"
	"fmt"
	"net"
	"strings"
	"testing"
	"time"

	"github.com/mgtv-tech/redis-GunYu/verifshim/mc"
	"github.com/mgtv-tech/redis-GunYu/verifshim/redisd"
	"github.com/mgtv-tech/redis-GunYu/verifshim/vnet"
	"github.com/mgtv-tech/redis-GunYu/verifshim/vtime"
)

func init() { verifChecks["C13"] = runC13 }

// ---------------------------------------------------------------------------
// C13: two sites, two links, closed loop through the sites' propagation streams.

type c13Write struct {
	Site int    `json:"site"` // 0 = A, 1 = B
	Sym  string `json:"sym"`
}

type c13Scenario struct {
	Writes     []c13Write `json:"writes"`
	Cfg        biCfg      `json:"cfg"`
	WrapSingle bool       `json:"wrap_single"` // pre-7 propagation (every transaction wrapped, SELECT before MULTI)
}

const markerLike = `{"version":"1","run_id":"x","syncer_id":"y","unit_seq":1,"start_offset":1,"end_offset":2,"slot":0,"digest":"00"}`

// c13Commands expands a client write symbol into the commands the client sends.
func c13Commands(sym string, i int) [][]string {
	p := fmt.Sprintf("%d", i)
	switch sym {
	case "set":
		return [][]string{{"SET", "k" + p, "v" + p}}
	case "setex":
		return [][]string{{"SET", "k" + p, "v" + p, "EX", "100"}}
	case "delmiss":
		return [][]string{{"DEL", "nokey" + p}}
	case "hset":
		return [][]string{{"HSET", "h" + p, "f", "v" + p}}
	case "txn":
		return [][]string{{"MULTI"}, {"SET", "ta" + p, "1"}, {"SET", "tb" + p, "2"}, {"EXEC"}}
	case "txn1":
		return [][]string{{"MULTI"}, {"SET", "tc" + p, "1"}, {"DEL", "nokey" + p}, {"EXEC"}}
	case "markerval":
		return [][]string{{"SET", "k" + p, markerLike}}
	case "markerkey":
		return [][]string{{"SET", "user:marker:{x}" + p, "v" + p}}
	case "txnmarker":
		// a foreign transaction: ordinary first command, a later command carries marker-like bytes
		return [][]string{{"MULTI"}, {"SET", "td" + p, "1"}, {"SET", "te:marker:{x}" + p, markerLike}, {"EXEC"}}
	case "txnmarkerfirst":
		// a foreign transaction whose FIRST command writes a key that merely contains ":marker:{"
		return [][]string{{"MULTI"}, {"SET", "user:marker:{x}" + p, markerLike}, {"SET", "tf" + p, "1"}, {"EXEC"}}
	case "expire":
		return [][]string{{"SET", "k" + p, "v" + p}, {"EXPIRE", "k" + p, "100"}}
	case "otherdb":
		// a client write in another database: the next thing this site propagates from db 0
		// (e.g. a transaction a link wrote) is preceded - Redis >= 7: followed inside the
		// MULTI - by a SELECT
		return [][]string{{"SELECT", "1"}, {"SET", "kd" + p, "v" + p}, {"SELECT", "0"}}
	}
	panic("unknown c13 symbol " + sym)
}

type biSite struct {
	name   string
	addr   string
	runID  string
	srv    *redisd.Server
	cli    net.Conn
	cliID  int
	clientReqs map[int]bool // request seqs issued by the harness client
}

func (s *biSite) client(argv ...string) string {
	before := s.srv.NumReqs()
	s.cli.Write(redisd.EncodeCommandS(argv...))
	l := s.srv.Log()
	var reply string
	for _, r := range l[before:] {
		s.clientReqs[r.Seq] = true
		s.cliID = r.Conn
		reply = r.Reply
	}
	s.cli.(*vnet.Conn).Drain()
	return reply
}

type biLinkT struct {
	from, to *biSite
	run      *biRun
	released int
	s0       int64
	steps    int
}

// step hands the link everything its source has propagated since the last step.
func (l *biLinkT) step() bool {
	b := l.from.srv.ReplBytes()
	if len(b) <= l.released {
		return false
	}
	chunk := b[l.released:]
	l.released = len(b)
	l.steps++
	l.run.feed(chunk)
	// let frontier flush timers (100 ms) elapse in virtual time
	time.Sleep(150 * time.Millisecond)
	vtime.Fire("frontier")
	l.run.wait()
	return true
}

func c13Exec(t *testing.T, scn c13Scenario, ch *mc.Chooser) mc.Result {
	var res mc.Result
	msg := bubble(t, func() {
		biEnvReset()
		mk := func(name, addr, runID string) *biSite {
			s := &biSite{name: name, addr: addr, runID: runID, srv: redisd.New(addr), clientReqs: map[int]bool{}}
			s.srv.ReplID = runID
			s.srv.EnableRepl(scn.WrapSingle)
			c, err := vnet.DialDirect(addr)
			if err != nil {
				panic(err)
			}
			s.cli = c
			return s
		}
		A := mk("siteA", "siteA:6379", "a1a1a1a1a1a1a1a1a1a1a1a1a1a1a1a1a1a1a1a1")
		B := mk("siteB", "siteB:6379", "b2b2b2b2b2b2b2b2b2b2b2b2b2b2b2b2b2b2b2b2")
		sites := []*biSite{A, B}
		links := []*biLinkT{{from: A, to: B}, {from: B, to: A}}
		events := 0
		var fail *mc.Result
		for _, l := range links {
			l.released = len(l.from.srv.ReplBytes())
			l.s0 = 1000 + int64(l.released)
			boot := biBoot(scn.Cfg, standaloneCfg(l.to.addr), l.from.name, l.from.runID, l.s0, true, l.to.srv)
			if boot.err != nil {
				v := mc.Violation("start-up failed on a healthy target", "C13:boot-error:"+scn.Cfg.Mode, map[string]interface{}{"error": boot.err.Error()})
				fail = &v
				break
			}
			l.run = biStart(boot.ro, l.from.runID, boot.offset)
		}
		teardown := func() {
			for _, l := range links {
				if l.run != nil {
					l.run.kill()
				}
			}
			for _, s := range sites {
				s.cli.Close()
			}
		}
		if fail != nil {
			teardown()
			res = *fail
			return
		}
		// ---- client writes, with link steps interleaved under explorer control
		for i, w := range scn.Writes {
			for k := 0; k < 2; k++ {
				a := ch.Choose(fmt.Sprintf("pre%d.%d", i, k), 3)
				if a == 0 {
					break
				}
				links[a-1].step()
				events++
			}
			for _, c := range c13Commands(w.Sym, i) {
				sites[w.Site].client(c...)
			}
			events++
		}
		// ---- run the exchange to quiescence
		quiet := false
		for round := 0; round < 12; round++ {
			moved := false
			order := []int{0, 1}
			if ch.Choose(fmt.Sprintf("order%d", round), 2) == 1 {
				order = []int{1, 0}
			}
			for _, li := range order {
				if links[li].step() {
					moved = true
					events++
				}
			}
			for _, l := range links {
				if l.run.ended {
					moved = false
				}
			}
			if !moved {
				quiet = true
				break
			}
		}
		var ended []string
		for _, l := range links {
			if l.run.ended {
				ended = append(ended, fmt.Sprintf("%s->%s: %v", l.from.name, l.to.name, l.run.err))
			}
		}
		logs := map[string][]*redisd.Req{"A": A.srv.ExecLog(), "B": B.srv.ExecLog()}
		repl := map[string][]redisd.ReplCmd{"A": A.srv.ReplCmds(), "B": B.srv.ReplCmds()}
		teardown()
		describe := func() map[string]interface{} {
			return map[string]interface{}{"siteA_log": maskedLog(logs["A"]), "siteB_log": maskedLog(logs["B"])}
		}
		for _, s := range sites {
			if len(s.srv.MachineryErrors) > 0 {
				res = mc.Result{Verdict: "machinery", Clause: "double: " + strings.Join(s.srv.MachineryErrors, "; ")}
				return
			}
		}
		if len(ended) > 0 {
			res = mc.Violation("a link stopped although both sites are healthy", "C13:link-stopped:"+scn.Cfg.Mode, map[string]interface{}{"ended": ended, "history": describe()})
			return
		}
		if !quiet {
			res = mc.Violation("the exchange does not quiesce: traffic keeps travelling between the sites", "C13:no-quiescence:"+scn.Cfg.Mode, map[string]interface{}{"history": describe()})
			return
		}
		// ---- oracle: what link X->Y applied at Y == client-originated business commands propagated by X
		for li, l := range links {
			fromKey, toKey := "A", "B"
			if li == 1 {
				fromKey, toKey = "B", "A"
			}
			var want []redisd.ReplCmd
			for _, c := range repl[fromKey] {
				n := strings.ToLower(string(c.Argv[0]))
				if n == "select" || n == "multi" || n == "exec" {
					continue
				}
				if c.Conn != l.from.cliID {
					continue
				}
				want = append(want, c)
			}
			var got []*redisd.Req
			for _, r := range logs[toKey] {
				if l.to.clientReqs[r.Seq] {
					continue
				}
				n := r.Name()
				switch n {
				case "select", "multi", "exec", "ping", "info", "exists", "hgetall", "hget", "zrangebyscore", "command", "hsetnx", "get", "keys", "scan":
					continue
				}
				if len(r.Argv) > 1 && isBisyncKey(r.Argv[1]) {
					continue
				}
				got = append(got, r)
			}
			dir := fmt.Sprintf("%s->%s", fromKey, toKey)
			n := len(want)
			if len(got) < n {
				n = len(got)
			}
			for i := 0; i < n; i++ {
				if !strings.EqualFold(string(want[i].Argv[0]), got[i].Name()) || !sameArgs(want[i].Argv[1:], got[i].Argv[1:]) {
					kind := "altered"
					for j := 0; j < len(want); j++ {
						if strings.EqualFold(string(want[j].Argv[0]), got[i].Name()) && sameArgs(want[j].Argv[1:], got[i].Argv[1:]) {
							kind = "duplicated-or-reordered"
						}
					}
					res = mc.Violation("what a link applied differs from the peer's client writes: "+kind, fmt.Sprintf("C13:%s:%s", kind, scn.Cfg.Mode),
						map[string]interface{}{"link": dir, "at": i, "expected": replStrings(want), "applied": maskedLog(got), "history": describe()})
					return
				}
			}
			if len(got) > len(want) {
				kind := "echo-or-invented"
				res = mc.Violation("a link applied more than the peer's client writes (echo of own writes or bookkeeping sent as business)", fmt.Sprintf("C13:%s:%s", kind, scn.Cfg.Mode),
					map[string]interface{}{"link": dir, "expected": replStrings(want), "applied": maskedLog(got), "history": describe()})
				return
			}
			if len(got) < len(want) {
				sym := "?"
				res = mc.Violation("a client write of one site is missing at the other (swallowed)", fmt.Sprintf("C13:swallowed:%s:%s", scn.Cfg.Mode, c13SymOf(scn, want[len(got)], &sym)),
					map[string]interface{}{"link": dir, "missing": replStrings(want[len(got):]), "expected": replStrings(want), "applied": maskedLog(got), "history": describe()})
				return
			}
			// a client transaction must arrive as one transaction
			_ = li
		}
		obs := mc.Hash(append(maskedLog(logs["A"]), maskedLog(logs["B"])...)...)
		nontrivial := false
		for _, k := range []string{"A", "B"} {
			for _, c := range repl[k] {
				if c.Conn == sites[map[string]int{"A": 0, "B": 1}[k]].cliID {
					nontrivial = true
				}
			}
		}
		res = mc.OK(obs, nontrivial, events)
	})
	if msg != "" {
		return mc.Result{Verdict: "machinery", Clause: "bubble: " + msg}
	}
	return res
}

func c13SymOf(scn c13Scenario, c redisd.ReplCmd, out *string) string {
	for i, w := range scn.Writes {
		for _, cmd := range c13Commands(w.Sym, i) {
			if len(cmd) > 1 && len(c.Argv) > 1 && cmd[1] == string(c.Argv[1]) {
				*out = w.Sym
				return w.Sym
			}
		}
	}
	return *out
}

func sameArgs(a, b [][]byte) bool {
	if len(a) != len(b) {
		return false
	}
	for i := range a {
		if !bytes.Equal(a[i], b[i]) {
			return false
		}
	}
	return true
}

func replStrings(l []redisd.ReplCmd) []string {
	out := make([]string, len(l))
	for i, c := range l {
		var sb strings.Builder
		for _, a := range c.Argv {
			if len(a) > 48 {
				fmt.Fprintf(&sb, "%q..(%d) ", a[:48], len(a))
			} else {
				fmt.Fprintf(&sb, "%q ", a)
			}
		}
		out[i] = sb.String()
	}
	return out
}

func runC13(t *testing.T, rep *mc.Reporter) {
	shard, nshards := mc.ShardOf()
	tier := mc.Tier()
	budget := &mc.Budget{Deadline: mc.DeadlineFromEnv()}
	if rp, err := mc.LoadReplay(); err != nil {
		rep.Machinery("cannot load replay: "+err.Error(), nil)
		return
	} else if rp != nil {
		var scn c13Scenario
		if err := json.Unmarshal(rp.Scenario, &scn); err != nil {
			rep.Machinery("bad replay scenario: "+err.Error(), nil)
			return
		}
		rep.Exec(scn, rp.Choices, c13Exec(t, scn, mc.NewChooser(rp.Choices)))
		return
	}
	full := []string{"set", "setex", "delmiss", "hset", "txn", "txn1", "markerval", "markerkey", "txnmarker", "txnmarkerfirst", "expire", "otherdb"}
	reduced := []string{"set", "setex", "txn", "txn1", "txnmarkerfirst", "otherdb"}
	modes := []biCfg{{"sync", 2}, {"pipeline", 2}, {"parallel", 2}}
	bound := 1
	type plan struct {
		syms []string
		L    int
	}
	plans := []plan{{full, 1}, {reduced, 2}}
	if tier == "thorough" {
		bound = 2
		plans = []plan{{full, 2}, {reduced, 3}}
	}
	var writes [][]c13Write
	seen := map[string]bool{}
	for _, pl := range plans {
		pl := pl
		var rec func(prefix []c13Write)
		rec = func(prefix []c13Write) {
			if len(prefix) > 0 {
				k := fmt.Sprint(prefix)
				if !seen[k] {
					seen[k] = true
					writes = append(writes, append([]c13Write(nil), prefix...))
				}
			}
			if len(prefix) == pl.L {
				return
			}
			for _, s := range pl.syms {
				for site := 0; site < 2; site++ {
					if len(prefix) == 0 && site == 1 {
						continue // symmetry: the first write is at A
					}
					rec(append(prefix, c13Write{site, s}))
				}
			}
		}
		rec(nil)
	}
	idx := 0
	for _, ws := range writes {
		for _, m := range modes {
			for _, wrap := range []bool{false, true} {
				idx++
				if idx%nshards != shard || budget.Expired() {
					continue
				}
				scn := c13Scenario{Writes: ws, Cfg: m, WrapSingle: wrap}
				mc.RunScenario(rep, scn, bound, budget, func(ch *mc.Chooser) mc.Result { return c13Exec(t, scn, ch) })
			}
		}
	}
	if budget.Expired() {
		rep.Capped("deadline reached before all scenarios were explored")
	}
}

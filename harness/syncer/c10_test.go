package syncer

// C10 — filters pass exactly the configured set of commands, keys, slots and databases.
//
// System under test: filter.RedisKeyFilter built with the same calls, in the same
// order, as syncer.NewRedisOutput (output.go:161-183), then FilterDb / FilterCmd /
// FilterCmdKey (composed as parseAofCommand composes them) and FilterKey / FilterSlot
// (composed as the snapshot path composes them).
//
// Oracle: c10Oracle, a literal evaluator of the property statement. It imports no
// repository code: slots come from ref.HashSlot, prefixes are compared on bytes,
// key positions are written down from the Redis command reference.

import (
	"bytes"
	"encoding/json"
	"fmt"
	"strconv"
	"strings"
	"testing"

	"github.com/mgtv-tech/redis-GunYu/config"
	"github.com/mgtv-tech/redis-GunYu/pkg/filter"
	"github.com/mgtv-tech/redis-GunYu/verifshim/mc"
	"github.com/mgtv-tech/redis-GunYu/verifshim/ref"
)

func init() {
	verifChecks["C10"] = func(t *testing.T, rep *mc.Reporter) { c10T = t; runC10(rep) }
}

// bstr is a byte string that survives JSON (Go-quoted inside a JSON string).
type bstr string

func (b bstr) MarshalJSON() ([]byte, error) { return json.Marshal(strconv.Quote(string(b))) }
func (b *bstr) UnmarshalJSON(p []byte) error {
	var s string
	if err := json.Unmarshal(p, &s); err != nil {
		return err
	}
	u, err := strconv.Unquote(s)
	if err != nil {
		return err
	}
	*b = bstr(u)
	return nil
}

// ---------------------------------------------------------------------------
// configuration

type c10Cfg struct {
	SlotWhite [][]uint16 `json:"slot_white,omitempty"` // each entry [lo,hi] or [x], as in the YAML
	SlotBlack [][]uint16 `json:"slot_black,omitempty"`
	PfxWhite  []bstr     `json:"prefix_white,omitempty"`
	PfxBlack  []bstr     `json:"prefix_black,omitempty"`
	DbBlack   []int      `json:"db_black,omitempty"`
	CmdBlack  []string   `json:"cmd_black,omitempty"`
	// only used by the families that go through the tool's own construction (c10e_test.go)
	KeyFilterSet  bool   `json:"key_filter_section,omitempty"`  // keyFilter section present although both lists are empty
	SlotFilterSet bool   `json:"slot_filter_section,omitempty"` // slotFilter section present although both lists are empty
	Cluster       bool   `json:"cluster_output,omitempty"`
	Via           string `json:"via,omitempty"` // NewRedisOutput | yaml:<style> | flags
	// the replay's database mapping (nil / empty = identity); the blacklist names SOURCE databases
	TargetDb    *int        `json:"target_db,omitempty"`
	TargetDbMap map[int]int `json:"target_db_map,omitempty"`
	toolView    interface{}
}

func bs2s(in []bstr) []string {
	out := make([]string, len(in))
	for i, b := range in {
		out[i] = string(b)
	}
	return out
}

// c10Build mirrors syncer.NewRedisOutput line by line.
func c10Build(c *c10Cfg) *filter.RedisKeyFilter {
	f := &filter.RedisKeyFilter{}
	f.InsertCmdBlackList(filter.NoRouteCmds, true)
	f.InsertCmdBlackList(c.CmdBlack, true)

	f.InsertPrefixKeyBlackList([]string{config.CheckpointKey, config.NamespacePrefixKey})
	if len(c.PfxBlack)+len(c.PfxWhite) > 0 { // cfg.Filter.KeyFilter != nil
		f.InsertPrefixKeyBlackList(bs2s(c.PfxBlack))
		f.InsertPrefixKeyWhiteList(bs2s(c.PfxWhite))
	}
	if len(c.SlotWhite)+len(c.SlotBlack) > 0 { // cfg.Filter.SlotFilter != nil
		f.InsertSlotWhiteList(c.SlotWhite)
		f.InsertSlotBlackList(c.SlotBlack)
	}
	if len(c.DbBlack) > 0 {
		f.InsertDbBlackList(c.DbBlack)
	}
	return f
}

// ---------------------------------------------------------------------------
// the oracle

// The tool's bookkeeping key prefixes (README / docs: checkpoint hash and the
// "/redis-gunyu" namespace used for election and registry keys).
var c10Bookkeeping = []string{"redis-gunyu-checkpoint", "/redis-gunyu"}

// Commands the tool documents as never routed to the target (cluster/connection/
// server administration). They are a built-in part of the command blacklist.
var c10BuiltinCmdBlack = map[string]bool{}

func init() {
	for _, c := range strings.Fields("cluster asking readonly readwrite auth client quit reset echo command flushall flushdb latency module psync replconf save shutdown slaveof slowlog swapdb sync bgsave bgrewriteaof opinfo lastsave monitor role debug restore-asking migrate wait pfselftest pfdebug") {
		c10BuiltinCmdBlack[c] = true
	}
}

type c10Oracle struct {
	c *c10Cfg
	// The statement is {emptyPrefixMatches: true, runeFold: false}: the empty string is
	// a prefix of every key and prefixes are compared byte by byte. The other settings
	// are never used to judge, only to name the shape of a violation (they model "an
	// empty prefix matches nothing" and "strings are compared rune by rune, every
	// invalid UTF-8 byte being U+FFFD").
	emptyPrefixMatches bool
	runeFold           bool
}

func c10Statement(c *c10Cfg) c10Oracle { return c10Oracle{c: c, emptyPrefixMatches: true} }

func runesOf(s string) []rune {
	var out []rune
	for _, r := range s {
		out = append(out, r)
	}
	return out
}

func runePrefix(key, p string) bool {
	k, q := runesOf(key), runesOf(p)
	if len(q) > len(k) {
		return false
	}
	for i := range q {
		if k[i] != q[i] {
			return false
		}
	}
	return true
}

func inRanges(rs [][]uint16, slot int) bool {
	for _, r := range rs {
		lo, hi := int(r[0]), int(r[0])
		if len(r) == 2 {
			hi = int(r[1])
		}
		if lo <= slot && slot <= hi {
			return true
		}
	}
	return false
}

func (o c10Oracle) slotOK(key []byte) bool {
	s := ref.HashSlot(key)
	if inRanges(o.c.SlotBlack, s) {
		return false
	}
	if len(o.c.SlotWhite) > 0 && !inRanges(o.c.SlotWhite, s) {
		return false
	}
	return true
}

func (o c10Oracle) hasPrefixIn(list []bstr, key []byte) bool {
	for _, p := range list {
		if len(p) == 0 && !o.emptyPrefixMatches {
			continue
		}
		if o.runeFold {
			if runePrefix(string(key), string(p)) {
				return true
			}
			continue
		}
		if bytes.HasPrefix(key, []byte(p)) {
			return true
		}
	}
	return false
}

func c10IsBookkeeping(key []byte) bool {
	for _, p := range c10Bookkeeping {
		if bytes.HasPrefix(key, []byte(p)) {
			return true
		}
	}
	return false
}

func (o c10Oracle) prefixOK(key []byte) bool {
	if c10IsBookkeeping(key) {
		return false
	}
	if o.hasPrefixIn(o.c.PfxBlack, key) {
		return false
	}
	if len(o.c.PfxWhite) > 0 && !o.hasPrefixIn(o.c.PfxWhite, key) {
		return false
	}
	return true
}

func (o c10Oracle) keyOK(key []byte) bool { return o.prefixOK(key) && o.slotOK(key) }

func (o c10Oracle) dbOK(db int) bool {
	for _, d := range o.c.DbBlack {
		if d == db {
			return false
		}
	}
	return true
}

func (o c10Oracle) cmdOK(cmd string) bool {
	lc := strings.ToLower(cmd)
	if c10BuiltinCmdBlack[lc] {
		return false
	}
	for _, b := range o.c.CmdBlack {
		if strings.ToLower(b) == lc {
			return false
		}
	}
	return true
}

// --- key positions, from the Redis command reference (0-based indexes into the
// arguments that follow the command name).

var c10FirstArgKey = strings.Fields(`set setnx setex psetex getdel getex append setbit bitfield setrange move incr decr
 rpush lpush rpushx lpushx linsert rpop lpop lset ltrim lrem sadd srem spop zadd zincrby zrem zremrangebyscore
 zremrangebyrank zremrangebylex hset hsetnx hmset hincrby hincrbyfloat hdel incrby decrby incrbyfloat getset
 expire expireat pexpire pexpireat persist restore geoadd pfadd xadd xdel xtrim xack xclaim xautoclaim xsetid
 zpopmin zpopmax hexpire hpexpire hexpireat hpexpireat hpersist hsetex hgetdel hgetex
 json.set json.del json.arrappend json.numincrby json.clear json.merge bf.add bf.madd cf.add cms.incrby topk.add tdigest.add
 delex xackdel xdelex json.arrinsert json.arrpop json.arrtrim json.forget json.nummultby json.strappend json.toggle
 bf.insert cf.addnx cf.insert cf.insertnx cms.initbydim cms.initbyprob topk.incrby topk.reserve
 tdigest.create tdigest.reset tdigest.incrby`)

var c10TwoKeys = strings.Fields(`rename renamenx copy smove rpoplpush lmove blmove brpoplpush zrangestore geosearchstore`)
var c10AllArgsKeys = strings.Fields(`sinterstore sunionstore sdiffstore pfmerge`)
var c10KeysThenTimeout = strings.Fields(`blpop brpop bzpopmin bzpopmax`)

var c10KeyRule = map[string]string{}

func init() {
	for _, c := range c10FirstArgKey {
		c10KeyRule[c] = "first"
	}
	for _, c := range c10TwoKeys {
		c10KeyRule[c] = "two"
	}
	for _, c := range c10AllArgsKeys {
		c10KeyRule[c] = "all"
	}
	for _, c := range c10KeysThenTimeout {
		c10KeyRule[c] = "all-but-last"
	}
	for _, c := range []string{"del", "unlink"} {
		c10KeyRule[c] = "all"
	}
	c10KeyRule["mset"] = "even"
	c10KeyRule["msetnx"] = "even"
	c10KeyRule["json.mset"] = "every-third"
	c10KeyRule["bitop"] = "from-1"
	for _, c := range []string{"eval", "evalsha", "fcall"} {
		c10KeyRule[c] = "numkeys@1"
	}
	for _, c := range []string{"zunionstore", "zinterstore", "zdiffstore"} {
		c10KeyRule[c] = "dest+numkeys@1"
	}
	for _, c := range []string{"lmpop", "zmpop"} {
		c10KeyRule[c] = "numkeys@0"
	}
	for _, c := range []string{"blmpop", "bzmpop"} {
		c10KeyRule[c] = "numkeys@1"
	}
	c10KeyRule["msetex"] = "numkeys@0-pairs"
	c10KeyRule["xreadgroup"] = "streams"
	c10KeyRule["sort"] = "first+store"
	c10KeyRule["georadius"] = "first+store"
	c10KeyRule["georadiusbymember"] = "first+store"
	c10KeyRule["xgroup"] = "second"
	for _, c := range []string{"flushall", "publish", "script"} {
		c10KeyRule[c] = "none"
	}
	c10KeyRule["restore-asking"] = "first"
}

// c10Keys returns the key positions of a well-formed command of the enumerated set;
// ok=false means the harness generated something the oracle has no rule for.
func c10Keys(cmd string, args [][]byte) (idx []int, ok bool) {
	n := len(args)
	rng := func(from, to, step int) []int {
		var out []int
		for i := from; i < to; i += step {
			out = append(out, i)
		}
		return out
	}
	num := func(i int) int {
		if i >= n {
			return -1
		}
		v, err := strconv.Atoi(string(args[i]))
		if err != nil {
			return -1
		}
		return v
	}
	switch c10KeyRule[strings.ToLower(cmd)] {
	case "none":
		return nil, true
	case "first":
		return []int{0}, n >= 1
	case "second":
		return []int{1}, n >= 2
	case "two":
		return []int{0, 1}, n >= 2
	case "all":
		return rng(0, n, 1), n >= 1
	case "all-but-last":
		return rng(0, n-1, 1), n >= 2
	case "even":
		return rng(0, n, 2), n >= 2 && n%2 == 0
	case "every-third":
		return rng(0, n, 3), n >= 3 && n%3 == 0
	case "from-1":
		return rng(1, n, 1), n >= 3
	case "numkeys@1":
		k := num(1)
		if k < 0 || 2+k > n {
			return nil, false
		}
		return rng(2, 2+k, 1), true
	case "dest+numkeys@1":
		k := num(1)
		if k < 1 || 2+k > n {
			return nil, false
		}
		return append([]int{0}, rng(2, 2+k, 1)...), true
	case "numkeys@0":
		k := num(0)
		if k < 1 || 1+k > n {
			return nil, false
		}
		return rng(1, 1+k, 1), true
	case "numkeys@0-pairs":
		k := num(0)
		if k < 1 || 1+2*k > n {
			return nil, false
		}
		return rng(1, 1+2*k, 2), true
	case "streams":
		// XREADGROUP GROUP g c [COUNT n] [BLOCK ms] [NOACK] STREAMS key... id...
		for i := 0; i < n; i++ {
			if strings.EqualFold(string(args[i]), "streams") && i >= 3 {
				rest := n - i - 1
				if rest < 2 || rest%2 != 0 {
					return nil, false
				}
				return rng(i+1, i+1+rest/2, 1), true
			}
		}
		return nil, false
	case "first+store":
		out := []int{0}
		for i := 1; i+1 < n; i++ {
			a := strings.ToLower(string(args[i]))
			if a == "store" || a == "storedist" {
				out = append(out, i+1)
			}
		}
		return out, n >= 1
	}
	return nil, false
}

func c10Projectable(cmd string) bool {
	switch strings.ToLower(cmd) {
	case "del", "unlink", "mset":
		return true
	}
	return false
}

// decide is the statement: forwarded?, and with which arguments.
func (o c10Oracle) decide(db int, cmd string, args [][]byte) (fwd bool, out [][]byte, keys []int, ok bool) {
	keys, ok = c10Keys(cmd, args)
	if !ok {
		return false, nil, nil, false
	}
	if !o.cmdOK(cmd) || !o.dbOK(db) {
		return false, nil, keys, true
	}
	acc := make(map[int]bool, len(keys))
	nacc := 0
	for _, k := range keys {
		if o.keyOK(args[k]) {
			acc[k] = true
			nacc++
		}
	}
	if nacc == len(keys) {
		return true, args, keys, true
	}
	if !c10Projectable(cmd) || nacc == 0 {
		return false, nil, keys, true
	}
	if strings.ToLower(cmd) == "mset" {
		for _, k := range keys {
			if acc[k] {
				out = append(out, args[k], args[k+1])
			}
		}
		return true, out, keys, true
	}
	for _, k := range keys {
		if acc[k] {
			out = append(out, args[k])
		}
	}
	return true, out, keys, true
}

// ---------------------------------------------------------------------------
// evaluation

type c10Scn struct {
	Part string `json:"part"`
	Fam  string `json:"fam,omitempty"`
	Cfg  c10Cfg `json:"cfg"`
	What string `json:"what,omitempty"` // which evaluation failed (set on violations): key | db | cmdname | command
	Db   int    `json:"db"`
	Cmd  string `json:"cmd,omitempty"`
	Args []bstr `json:"args,omitempty"`
	Key  *bstr  `json:"key,omitempty"`
	N    int    `json:"n,omitempty"` // evaluations folded into this execution
}

type c10Env struct {
	cfg *c10Cfg
	f   *filter.RedisKeyFilter
	o   c10Oracle
	// running record of one execution
	bits  []byte
	evals int
	fail  *mc.Result
	fscn  c10Scn
}

func newC10Env(cfg *c10Cfg) *c10Env {
	return &c10Env{cfg: cfg, f: c10Build(cfg), o: c10Statement(cfg)}
}

func c10Overlapping(rs [][]uint16) bool {
	for i := range rs {
		for j := i + 1; j < len(rs); j++ {
			a0, a1 := int(rs[i][0]), int(rs[i][len(rs[i])-1])
			b0, b1 := int(rs[j][0]), int(rs[j][len(rs[j])-1])
			if a0 <= b1 && b0 <= a1 {
				return true
			}
		}
	}
	return false
}

func nonASCII(s string) bool {
	for i := 0; i < len(s); i++ {
		if s[i] >= 0x80 {
			return true
		}
	}
	return false
}

// causeOfKey explains a wrong outcome by a wrong primitive verdict on one key, if any.
func (e *c10Env) causeOfKey(key []byte) string {
	ks := string(key)
	if e.f.FilterSlot(ks) != !e.o.slotOK(key) {
		if c10Overlapping(e.cfg.SlotWhite) || c10Overlapping(e.cfg.SlotBlack) {
			return "C10:slot-range:overlapping-ranges"
		}
		return "C10:slot-range:disjoint-ranges"
	}
	if got := e.f.FilterKey(ks); got != !e.o.prefixOK(key) {
		// name the shape: which known trie behaviour (probed on this tree) explains the verdict
		byEmpty := c10TrieIgnoresEmpty && got == !c10Oracle{c: e.cfg}.prefixOK(key)
		byRunes := c10TrieFoldsRunes && got == !c10Oracle{c: e.cfg, emptyPrefixMatches: true, runeFold: true}.prefixOK(key)
		byBoth := c10TrieIgnoresEmpty && c10TrieFoldsRunes && got == !c10Oracle{c: e.cfg, runeFold: true}.prefixOK(key)
		switch {
		case byEmpty:
			return "C10:prefix:empty-prefix"
		case byRunes, byBoth:
			return "C10:prefix:non-utf8-bytes"
		}
		na := nonASCII(ks)
		for _, p := range e.cfg.PfxWhite {
			na = na || nonASCII(string(p))
		}
		for _, p := range e.cfg.PfxBlack {
			na = na || nonASCII(string(p))
		}
		switch {
		case c10IsBookkeeping(key):
			return "C10:prefix:bookkeeping-key"
		case na:
			return "C10:prefix:non-ascii-other"
		}
		return "C10:prefix:ascii"
	}
	return ""
}

// Probes of the tree's prefix trie, used only to name violation shapes.
var c10TrieIgnoresEmpty, c10TrieFoldsRunes bool

func c10ProbeTrie() {
	f := &filter.RedisKeyFilter{}
	f.InsertPrefixKeyBlackList([]string{""})
	c10TrieIgnoresEmpty = !f.FilterKey("x")
	g := &filter.RedisKeyFilter{}
	g.InsertPrefixKeyBlackList([]string{"\xff"})
	c10TrieFoldsRunes = g.FilterKey("\xfe")
}

func (e *c10Env) violate(scn c10Scn, clause, sig string, detail map[string]interface{}) {
	if e.fail != nil {
		return
	}
	r := mc.Violation(clause, sig, detail)
	e.fail = &r
	e.fscn = scn
}

func (e *c10Env) bit(b bool) {
	if b {
		e.bits = append(e.bits, '1')
	} else {
		e.bits = append(e.bits, '0')
	}
}

// evalKey: a snapshot key of database db (rdbReplay: FilterDb, then FilterKey || FilterSlot).
func (e *c10Env) evalKey(part string, db int, key string) {
	e.evals++
	kb := []byte(key)
	want := e.o.dbOK(db) && e.o.keyOK(kb)
	got := !e.f.FilterDb(db) && !(e.f.FilterKey(key) || e.f.FilterSlot(key))
	e.bit(got)
	if got != want {
		sig := e.causeOfKey(kb)
		if sig == "" {
			sig = "C10:snapshot-key:composition"
		}
		k := bstr(key)
		e.violate(c10Scn{Part: part, Cfg: *e.cfg, What: "key", Db: db, Key: &k},
			"snapshot key verdict differs from the configured rules", sig,
			map[string]interface{}{"key": fmt.Sprintf("%q", key), "ref_slot": ref.HashSlot(kb), "db": db, "forwarded": got, "statement_says_forwarded": want,
				"FilterKey": e.f.FilterKey(key), "FilterSlot": e.f.FilterSlot(key), "FilterDb": e.f.FilterDb(db)})
	}
}

func argsEq(a, b [][]byte) bool {
	if len(a) != len(b) {
		return false
	}
	for i := range a {
		if !bytes.Equal(a[i], b[i]) {
			return false
		}
	}
	return true
}

func qArgs(a [][]byte) []string {
	out := make([]string, len(a))
	for i, x := range a {
		out[i] = fmt.Sprintf("%q", x)
	}
	return out
}

// evalCmd: a command of the incremental stream, composed as parseAofCommand does:
// bypass by FilterDb (decided at SELECT), FilterCmd, then FilterCmdKey.
func (e *c10Env) evalCmd(part, fam string, db int, cmd string, args [][]byte) {
	e.evals++
	wantFwd, wantArgs, keys, ok := e.o.decide(db, cmd, args)
	if !ok {
		r := mc.Result{Verdict: "machinery", Clause: fmt.Sprintf("oracle has no key rule for generated command %s %q", cmd, args)}
		e.fail = &r
		return
	}
	saved := make([][]byte, len(args))
	for i, a := range args {
		saved[i] = append([]byte(nil), a...)
	}
	gotFwd := true
	var gotArgs [][]byte
	var what string
	switch {
	case e.f.FilterDb(db):
		gotFwd, what = false, "FilterDb"
	case e.f.FilterCmd(cmd):
		gotFwd, what = false, "FilterCmd"
	default:
		na, reject := e.f.FilterCmdKey(cmd, args)
		if reject {
			gotFwd, what = false, "FilterCmdKey"
		} else {
			gotArgs = na
		}
	}
	e.bit(gotFwd)
	if gotFwd {
		e.bits = append(e.bits, byte('0'+len(gotArgs)%10))
	}
	scn := func() c10Scn {
		s := c10Scn{Part: part, Fam: fam, Cfg: *e.cfg, What: "command", Db: db, Cmd: cmd}
		for _, a := range saved {
			s.Args = append(s.Args, bstr(a))
		}
		return s
	}
	detail := func() map[string]interface{} {
		d := map[string]interface{}{"db": db, "cmd": cmd, "args": qArgs(saved), "key_positions": keys, "forwarded": gotFwd, "statement_says_forwarded": wantFwd, "withheld_by": what}
		if gotFwd {
			d["forwarded_args"] = qArgs(gotArgs)
		}
		if wantFwd {
			d["statement_says_args"] = qArgs(wantArgs)
		}
		var ks []string
		for _, k := range keys {
			ks = append(ks, fmt.Sprintf("%q slot=%d accepted=%v", saved[k], ref.HashSlot(saved[k]), e.o.keyOK(saved[k])))
		}
		d["keys"] = ks
		return d
	}
	if !argsEq(args, saved) {
		e.violate(scn(), "filter modified the caller's argument bytes", "C10:command:"+fam+":args-mutated", detail())
		return
	}
	if gotFwd == wantFwd && (!gotFwd || argsEq(gotArgs, wantArgs)) {
		return
	}
	// classify
	sig := ""
	if e.o.dbOK(db) != !e.f.FilterDb(db) {
		sig = "C10:db"
	} else if e.o.cmdOK(cmd) != !e.f.FilterCmd(cmd) {
		sig = "C10:cmd-blacklist"
	} else {
		for _, k := range keys {
			if sig = e.causeOfKey(saved[k]); sig != "" {
				break
			}
		}
	}
	if sig == "" {
		kind := "wrong-projection"
		if gotFwd && !wantFwd {
			kind = "forwarded-but-must-be-withheld"
		} else if !gotFwd && wantFwd {
			kind = "withheld-but-must-be-forwarded"
		}
		sig = "C10:command:" + fam + ":" + kind
	}
	e.violate(scn(), "command forwarding differs from the configured rules", sig, detail())
}

// finish reports the execution.
func (e *c10Env) finish(rep *mc.Reporter, scn c10Scn) {
	if e.fail != nil {
		if e.fail.Verdict == "machinery" {
			rep.Exec(scn, nil, *e.fail)
		} else {
			rep.Exec(e.fscn, nil, *e.fail)
		}
		return
	}
	scn.N = e.evals
	nontrivial := bytes.IndexByte(e.bits, '1') >= 0 && bytes.Contains(e.bits, []byte("0"))
	cj, _ := json.Marshal(scn.Cfg)
	rep.Exec(scn, nil, mc.OK(mc.Hash(scn.Part, scn.Fam, string(cj), string(e.bits)), nontrivial, e.evals))
}

// ---------------------------------------------------------------------------
// enumeration material

var c10Pivots = []uint16{0, 1, 2, 100, 101, 16382, 16383}

// c10RangeSpecs: every [lo,hi] with lo<=hi over the pivots, plus the one-element form.
func c10RangeSpecs() [][]uint16 {
	var out [][]uint16
	for i, lo := range c10Pivots {
		for _, hi := range c10Pivots[i:] {
			out = append(out, []uint16{lo, hi})
		}
	}
	for _, p := range c10Pivots {
		out = append(out, []uint16{p})
	}
	return out
}

// c10Lists: all ordered lists of <= n specs.
func c10Lists(specs [][]uint16, n int) [][][]uint16 {
	out := [][][]uint16{nil}
	level := [][][]uint16{nil}
	for d := 0; d < n; d++ {
		var next [][][]uint16
		for _, p := range level {
			for _, s := range specs {
				next = append(next, append(append([][]uint16(nil), p...), s))
			}
		}
		out = append(out, next...)
		level = next
	}
	return out
}

// c10SlotKeys: for each target slot, keys of several brace shapes whose reference
// HASH_SLOT is that slot (found by search).
func c10SlotKeys(targets []int) []string {
	forms := []func(n int) string{
		func(n int) string { return fmt.Sprintf("k%d", n) },              // no braces
		func(n int) string { return fmt.Sprintf("{t%d}x", n) },           // one tag
		func(n int) string { return fmt.Sprintf("{t%d}{u}", n) },         // several pairs: first decides
		func(n int) string { return fmt.Sprintf("x{t%d}y{z}w}", n) },     // tag in the middle, later pair and stray brace
		func(n int) string { return fmt.Sprintf("{}{q%d}", n) },          // empty first tag: whole key hashed
		func(n int) string { return fmt.Sprintf("\xff{\xfe%d}\x00", n) }, // binary bytes around and inside the tag
		func(n int) string { return fmt.Sprintf("a}b{t%d}c", n) },          // a closing brace in front of the first opening one
		func(n int) string { return fmt.Sprintf("{{t%d}}", n) },            // nested: the tag starts with a brace
		func(n int) string { return fmt.Sprintf("{t%d", n) },               // unclosed: whole key hashed
	}
	var out []string
	for _, form := range forms {
		need := map[int]bool{}
		for _, t := range targets {
			need[t] = true
		}
		found := map[int]string{}
		for n := 0; len(found) < len(need) && n < 5000000; n++ {
			k := form(n)
			s := ref.HashSlotS(k)
			if need[s] {
				if _, dup := found[s]; !dup {
					found[s] = k
				}
			}
		}
		for _, t := range targets {
			out = append(out, found[t])
		}
	}
	return out
}

var c10PrefixCands = []string{"", "a", "ab", "b", "\xff", "\xfe", "\xc3"}

// subsets of size <= n (as index lists, ascending)
func c10Subsets(m, n int) [][]int {
	out := [][]int{nil}
	var rec func(start int, cur []int)
	rec = func(start int, cur []int) {
		if len(cur) == n {
			return
		}
		for i := start; i < m; i++ {
			nx := append(append([]int(nil), cur...), i)
			out = append(out, nx)
			rec(i+1, nx)
		}
	}
	rec(0, nil)
	return out
}

func c10PrefixList(idx []int, reverse bool) []bstr {
	var out []bstr
	for _, i := range idx {
		out = append(out, bstr(c10PrefixCands[i]))
	}
	if reverse {
		for i, j := 0, len(out)-1; i < j; i, j = i+1, j-1 {
			out[i], out[j] = out[j], out[i]
		}
	}
	return out
}

var c10PrefixKeys = []string{"", "a", "ab", "abc", "b", "ba", "c", "\xff", "\xfe", "\xff\xfe", "\xfe\xff", "\xef\xbf\xbd", "\xc3\xa9", "\xc3", "\xc3\x28", "a\xff",
	"redis-gunyu-checkpoint", "redis-gunyu-checkpoint-hash", "redis-gunyu-checkpointXYZ", "redis-gunyu-checkpoin", "redis-gunyu",
	"/redis-gunyu", "/redis-gunyu/registry/x", "/redis-guny", "a/redis-gunyu"}

// key pool for command enumeration (mixed verdicts under the Part C configurations)
var c10Pool = []string{"a", "abc", "b", "\xff", "\xfe", "", "/redis-gunyu/x", "c"}

func sb(ss ...string) [][]byte {
	out := make([][]byte, len(ss))
	for i, s := range ss {
		out[i] = []byte(s)
	}
	return out
}

type c10Command struct {
	fam, cmd string
	args     [][]byte
}

// c10Commands: the command set of Part C over the key pool.
func c10Commands(pool []string) []c10Command {
	var out []c10Command
	add := func(fam, cmd string, args ...string) { out = append(out, c10Command{fam, cmd, sb(args...)}) }
	var tuples [][]string // all key tuples of length 1..3
	for _, a := range pool {
		tuples = append(tuples, []string{a})
	}
	for _, a := range pool {
		for _, b := range pool {
			tuples = append(tuples, []string{a, b})
		}
	}
	for _, a := range pool {
		for _, b := range pool {
			for _, c := range pool {
				tuples = append(tuples, []string{a, b, c})
			}
		}
	}
	upTo2 := tuples[:len(pool)+len(pool)*len(pool)]
	pairs := tuples[len(pool) : len(pool)+len(pool)*len(pool)]

	for _, c := range c10FirstArgKey {
		for _, k := range pool {
			add("single-key", c, k, "1", "v")
		}
	}
	for _, t := range tuples {
		add("del", "del", t...)
		add("unlink", "unlink", t...)
		var kv []string
		for i, k := range t {
			kv = append(kv, k, fmt.Sprintf("v%d", i))
		}
		add("mset", "mset", kv...)
	}
	for _, c := range c10TwoKeys {
		for _, p := range pairs {
			add("two-key", c, p[0], p[1], "m")
		}
	}
	for _, t := range tuples[len(pool):] {
		add("bitop", "bitop", append([]string{"and"}, t...)...)
	}
	for _, p := range pairs {
		add("bitop", "bitop", "not", p[0], p[1])
		for _, c := range c10AllArgsKeys {
			add("multi-key-store", c, p[0], p[1])
		}
		add("msetnx", "msetnx", p[0], "1", p[1], "2")
		add("sort-store", "sort", p[0], "store", p[1])
		add("sort-store", "sort", p[0], "by", "nosort", "limit", "0", "1", "STORE", p[1])
		add("sort-store", "sort", p[0], "get", "#", "store", p[1])
		add("sort-store", "sort", p[0], "by", "w_*", "store", p[1])
		add("sort-store", "sort", p[0], "by", "w_*->f", "get", "x_*", "desc", "alpha", "STORE", p[1])
		add("geo-store", "georadius", p[0], "1", "2", "3", "km", "store", p[1])
		add("geo-store", "georadiusbymember", p[0], "m", "3", "km", "STOREDIST", p[1])
	}
	for _, t := range tuples[len(pool)+len(pool)*len(pool):] {
		add("multi-key-store", "sunionstore", t...)
	}
	for _, c := range []string{"eval", "evalsha", "fcall"} {
		add("numkeys", c, "s", "0")
		for _, k := range pool {
			add("numkeys", c, "s", "0", k) // ARGV that looks like a key
		}
		for _, t := range upTo2 {
			add("numkeys", c, append([]string{"s", strconv.Itoa(len(t))}, t...)...)
		}
		for _, p := range pairs {
			add("numkeys", c, "s", "1", p[0], p[1]) // one key, one ARGV
		}
		for i := range pool { // two-digit numkeys: ten keys, the i-th pool key among nine "c"
			ten := []string{"s", "10"}
			for j := 0; j < 10; j++ {
				if j == 9-i%10 {
					ten = append(ten, pool[i])
				} else {
					ten = append(ten, "c")
				}
			}
			add("numkeys", c, append(ten, "argv")...)
		}
	}
	for _, t := range tuples[len(pool):] {
		// dest numkeys key...
		add("numkeys", "zunionstore", append([]string{t[0], strconv.Itoa(len(t) - 1)}, t[1:]...)...)
	}
	for _, p := range pairs {
		add("numkeys", "zinterstore", p[0], "1", p[1], "weights", "2")
		add("numkeys", "zdiffstore", p[0], "1", p[1])
	}
	for _, t := range upTo2 {
		n := strconv.Itoa(len(t))
		for _, c := range c10KeysThenTimeout {
			add("blocking-pop", c, append(append([]string(nil), t...), "0")...)
		}
		add("numkeys", "lmpop", append(append([]string{n}, t...), "LEFT")...)
		add("numkeys", "zmpop", append(append([]string{n}, t...), "MIN")...)
		add("numkeys", "blmpop", append(append([]string{"0", n}, t...), "LEFT")...)
		add("numkeys", "bzmpop", append(append([]string{"0", n}, t...), "MAX")...)
		ids := make([]string, len(t))
		for i := range ids {
			ids[i] = ">"
		}
		add("xreadgroup", "xreadgroup", append(append([]string{"group", "g", "c", "STREAMS"}, t...), ids...)...)
		add("xreadgroup", "xreadgroup", append(append([]string{"GROUP", "g", "c", "COUNT", "10", "streams"}, t...), ids...)...)
		var kv, kpv []string
		for i, k := range t {
			kv = append(kv, k, fmt.Sprintf("v%d", i))
			kpv = append(kpv, k, "$", fmt.Sprintf("%d", i))
		}
		add("msetex", "msetex", append([]string{n}, kv...)...)
		add("json.mset", "json.mset", kpv...)
	}
	for _, k := range pool {
		for _, sub := range []string{"create", "SETID", "destroy", "createconsumer", "delconsumer"} {
			add("xgroup", "xgroup", sub, k, "g", "$")
		}
	}
	return out
}

// ---------------------------------------------------------------------------
// driver

// c10T: the test handle, needed by the family that runs the snapshot replay in a bubble.
var c10T *testing.T

func runC10(rep *mc.Reporter) {
	shard, nshards := mc.ShardOf()
	thorough := mc.Tier() == "thorough"
	budget := &mc.Budget{Deadline: mc.DeadlineFromEnv()}

	c10ProbeTrie()
	if config.CheckpointKey != c10Bookkeeping[0] || config.NamespacePrefixKey != c10Bookkeeping[1] {
		// the oracle's literals are the documented names; a tree that renames them is judged against the documented ones
		rep.Note("config bookkeeping prefixes differ from the documented ones")
	}

	if rp, err := mc.LoadReplay(); err != nil {
		rep.Machinery("cannot load replay: "+err.Error(), nil)
		return
	} else if rp != nil {
		var s c10Scn
		if err := json.Unmarshal(rp.Scenario, &s); err != nil {
			rep.Machinery("bad replay scenario: "+err.Error(), nil)
			return
		}
		e := newC10Env(&s.Cfg)
		switch s.What {
		case "config":
			c10ReplayTool(rep, s)
			return
		case "key":
			e.evalKey(s.Part, s.Db, string(*s.Key))
		case "command":
			e.evalCmd(s.Part, s.Fam, s.Db, s.Cmd, sb(bs2s(s.Args)...))
		default:
			rep.Machinery("replay scenario without a single evaluation", nil)
			return
		}
		e.finish(rep, s)
		return
	}

	idx := 0
	mine := func() bool {
		idx++
		return idx%nshards == shard && !budget.Expired()
	}

	// ---- Part A: slot rules alone
	specs := c10RangeSpecs()
	slotTargets := []int{0, 1, 2, 3, 50, 99, 100, 101, 102, 8000, 16381, 16382, 16383}
	slotKeys := c10SlotKeys(slotTargets)
	for _, k := range slotKeys {
		if k == "" {
			rep.Machinery("key search did not find a key for every target slot", nil)
			return
		}
	}
	partA := func(white, black [][]uint16) {
		if !mine() {
			return
		}
		rep.Scenario()
		cfg := &c10Cfg{SlotWhite: white, SlotBlack: black}
		e := newC10Env(cfg)
		for _, k := range slotKeys {
			e.evalKey("slot", 0, k)
			e.evalCmd("slot", "single-key", 0, "set", sb(k, "v"))
		}
		e.finish(rep, c10Scn{Part: "slot", Cfg: *cfg})
	}
	lists3 := c10Lists(specs, 3)
	for _, l := range lists3 {
		partA(l, nil)
		if len(l) > 0 {
			partA(nil, l)
		}
	}
	pureSpecs := specs[:28]
	bothW, bothB := c10Lists(pureSpecs, 2), c10Lists(pureSpecs, 1)
	if thorough {
		bothW, bothB = c10Lists(specs, 2), c10Lists(specs, 2)
	}
	for _, w := range bothW {
		for _, b := range bothB {
			if len(w) == 0 || len(b) == 0 {
				continue
			}
			partA(w, b)
		}
	}

	// ---- Part B: prefix rules alone
	subsets := c10Subsets(len(c10PrefixCands), 3)
	for _, w := range subsets {
		for _, b := range subsets {
			if !mine() {
				continue
			}
			rep.Scenario()
			cfg := &c10Cfg{PfxWhite: c10PrefixList(w, false), PfxBlack: c10PrefixList(b, true)}
			e := newC10Env(cfg)
			for _, k := range c10PrefixKeys {
				e.evalKey("prefix", 0, k)
				e.evalCmd("prefix", "single-key", 0, "hset", sb(k, "f", "v"))
			}
			e.finish(rep, c10Scn{Part: "prefix", Cfg: *cfg})
		}
	}

	// ---- Part C: commands with keys of mixed verdicts
	sA, sB := uint16(ref.HashSlotS("a")), uint16(ref.HashSlotS("b"))
	slotCfgs := []struct{ w, b [][]uint16 }{
		{nil, nil},
		{nil, [][]uint16{{sB, sB}}},
		{[][]uint16{{0, 8191}}, nil},
		{[][]uint16{{0, 16383}, {1, 1}, {2}}, nil},
	}
	if thorough {
		slotCfgs = append(slotCfgs,
			struct{ w, b [][]uint16 }{[][]uint16{{0, 12000}}, [][]uint16{{0, 100}, {16382, 16383}}},
			struct{ w, b [][]uint16 }{[][]uint16{{sA}, {sB}}, nil})
	}
	cmds := c10Commands(c10Pool)
	var famOrder []string
	byFam := map[string][]c10Command{}
	for _, c := range cmds {
		if _, ok := byFam[c.fam]; !ok {
			famOrder = append(famOrder, c.fam)
		}
		byFam[c.fam] = append(byFam[c.fam], c)
	}
	for _, w := range subsets {
		for _, b := range subsets {
			if !thorough && (len(w) > 2 || len(b) > 1) {
				continue
			}
			for _, sc := range slotCfgs {
				for _, fam := range famOrder {
					if !mine() {
						continue
					}
					rep.Scenario()
					cfg := &c10Cfg{PfxWhite: c10PrefixList(w, false), PfxBlack: c10PrefixList(b, false), SlotWhite: sc.w, SlotBlack: sc.b}
					e := newC10Env(cfg)
					for _, c := range byFam[fam] {
						e.evalCmd("command", fam, 0, c.cmd, c.args)
					}
					e.finish(rep, c10Scn{Part: "command", Fam: fam, Cfg: *cfg})
				}
			}
		}
	}

	// ---- Part D: database lists and command blacklists (with one prefix rule so that keys still matter)
	dbSubsets := c10Subsets(3, 3)
	cmdNames := []string{"SET", "del", "FlushAll"}
	dCmds := []c10Command{
		{"db-cmd", "set", sb("a", "v")}, {"db-cmd", "set", sb("b", "v")}, {"db-cmd", "setex", sb("a", "1", "v")}, {"db-cmd", "setnx", sb("a", "v")},
		{"db-cmd", "del", sb("a")}, {"db-cmd", "del", sb("a", "b")}, {"db-cmd", "unlink", sb("a", "b")}, {"db-cmd", "hdel", sb("a", "f")},
		{"db-cmd", "mset", sb("a", "1", "b", "2")}, {"db-cmd", "hset", sb("a", "f", "v")}, {"db-cmd", "incr", sb("a")},
		{"db-cmd", "flushall", sb()}, {"db-cmd", "flushall", sb("async")}, {"db-cmd", "publish", sb("b", "m")}, {"db-cmd", "script", sb("flush")},
	}
	for _, dbs := range dbSubsets {
		for _, cs := range dbSubsets {
			if !mine() {
				continue
			}
			rep.Scenario()
			cfg := &c10Cfg{DbBlack: append([]int(nil), dbs...), PfxBlack: []bstr{"b"}}
			for _, i := range cs {
				cfg.CmdBlack = append(cfg.CmdBlack, cmdNames[i])
			}
			e := newC10Env(cfg)
			for _, db := range []int{-1, 0, 1, 2, 3, 15} { // -1 = the "no database" of snapshot function / aux entries
				for _, c := range dCmds {
					e.evalCmd("db-cmd", c.fam, db, c.cmd, c.args)
				}
				for _, k := range []string{"a", "b"} {
					e.evalKey("db-cmd", db, k)
				}
			}
			e.finish(rep, c10Scn{Part: "db-cmd", Cfg: *cfg})
		}
	}

	// ---- Part E: command blacklists as ORDERED lists of names that are prefixes of one another
	// (the result must not depend on the order, nor un-blacklist a built-in name)
	pnames := []string{"set", "setex", "setnx", "incr", "incrby", "restore", "EVAL", "evalsha"}
	eCmds := []c10Command{
		{"db-cmd", "set", sb("a", "v")}, {"db-cmd", "setex", sb("a", "1", "v")}, {"db-cmd", "setnx", sb("a", "v")}, {"db-cmd", "incr", sb("a")},
		{"db-cmd", "incrby", sb("a", "2")}, {"db-cmd", "restore", sb("a", "0", "x")}, {"db-cmd", "restore-asking", sb("a", "0", "x")},
		{"db-cmd", "eval", sb("return 1", "1", "a")}, {"db-cmd", "evalsha", sb("abc", "1", "a")}, {"db-cmd", "del", sb("a")}, {"db-cmd", "flushall", sb()},
	}
	var lists [][]string
	for i := range pnames {
		lists = append(lists, []string{pnames[i]})
		for j := range pnames {
			if j == i {
				continue
			}
			lists = append(lists, []string{pnames[i], pnames[j]})
			for k := range pnames {
				if k == i || k == j || (mc.Tier() != "thorough" && k > 3) {
					continue
				}
				lists = append(lists, []string{pnames[i], pnames[j], pnames[k]})
			}
		}
	}
	for _, l := range lists {
		if !mine() {
			continue
		}
		rep.Scenario()
		cfg := &c10Cfg{CmdBlack: l}
		e := newC10Env(cfg)
		for _, c := range eCmds {
			e.evalCmd("db-cmd", c.fam, 0, c.cmd, c.args)
		}
		e.finish(rep, c10Scn{Part: "cmd-order", Cfg: *cfg})
	}

	// ---- Parts F-H: the tool's own filter construction, configuration loading and parser
	c10RunToolFamilies(rep, mine, thorough)

	if budget.Expired() {
		rep.Capped("deadline reached during configuration enumeration")
	}
}

package syncer

// C12 — stream decoding is lossless and its offsets equal the bytes consumed.
//
// System under test (real repo code, nothing copied): client.NewDecoder +
// client.MustDecodeOpt + client.ParseArgs (the three calls of
// syncer.parseAofCommand / parseAofReplayUnits), client.Encode, proto.Writer.WriteArgs,
// proto.Reader.ReadReply.
//
// Oracle (written from the RESP specification, no repo code): refEncode builds the
// source stream and therefore knows, for every command, its arguments and the
// stream position right after its last byte; refParse is a strict multi-bulk parser
// used to read what the repo's encoders produced.

import (
	"bufio"
	"bytes"
	"encoding/json"
	"fmt"
	"io"
	"sort"
	"strconv"
	"strings"
	"testing"

	"github.com/mgtv-tech/redis-GunYu/pkg/redis/client"
	"github.com/mgtv-tech/redis-GunYu/pkg/redis/client/proto"
	"github.com/mgtv-tech/redis-GunYu/verifshim/mc"
)

// ---------------------------------------------------------------------------
// argument alphabet

const (
	c12Big  = 7 // index of the 70000-byte argument
	c12Huge = 8 // index of the 5 MiB argument (thorough)
)

var c12Alpha [][]byte

// c12Pattern is a deterministic non-periodic-looking byte pattern that contains
// CR, LF, NUL, 0xff, '$' and '*' many times.
func c12Pattern(n int, seed uint32) []byte {
	b := make([]byte, n)
	x := seed
	for i := range b {
		x = x*1664525 + 1013904223
		switch (x >> 24) % 16 {
		case 0:
			b[i] = '\r'
		case 1:
			b[i] = '\n'
		case 2:
			b[i] = 0
		case 3:
			b[i] = 0xff
		case 4:
			b[i] = '$'
		case 5:
			b[i] = '*'
		default:
			b[i] = byte(x >> 16)
		}
	}
	return b
}

// c12CachedPattern keeps the last generated long argument (boundary cases come in runs
// of the same length).
var c12PatLen int
var c12PatBuf []byte

func c12CachedPattern(n int) []byte {
	if c12PatLen != n || c12PatBuf == nil {
		c12PatBuf, c12PatLen = nil, n
		c12PatBuf = c12Pattern(n, uint32(n))
	}
	return c12PatBuf
}

func c12InitAlpha(withHuge bool) {
	c12Alpha = [][]byte{
		[]byte(""), []byte("a"), []byte("\r\n"), []byte("$3\r\n"), []byte("*1\r\n"), {0}, {0xff},
		c12Pattern(70000, 1),
	}
	if withHuge {
		c12Alpha = append(c12Alpha, c12Pattern(5<<20, 2))
	}
}

// command name by argument count (mixed case: the tool lower-cases the name, which
// is not an argument).
var c12Names = []string{"PING", "Incr", "SET", "hset"}

// ---------------------------------------------------------------------------
// scenario

type c12Scn struct {
	Path string  `json:"path"`           // decode | encode-resp | encode-writer | encode-cluster | parse | resume | encode-typed
	Fam  string  `json:"fam"`            // enumeration family
	Cmds [][]int `json:"cmds"`           // per command: alphabet indexes of its arguments
	HB   []int   `json:"hb"`             // heartbeats ("\n") before command i; last entry = after the last command
	Buf  int     `json:"buf"`            // bufio.Reader size (decode) / bufio.Writer size (encode)
	Frag string  `json:"frag,omitempty"` // "" (all), whole, 1byte, cuts
	Cuts []int   `json:"cuts,omitempty"`
	// boundary families: ONE generated command instead of Cmds (c12e_test.go)
	Count   int `json:"elements,omitempty"`  // DEL with Count-1 generated arguments of 0..8 bytes
	BulkLen int `json:"bulk_len,omitempty"`  // SET k <argument of BulkLen patterned bytes>
	RBuf    int `json:"reply_buf,omitempty"` // proto.Reader size used to read the encoding back (default 32)
	// family "several large values on one decoder": generated commands instead of Cmds, one entry
	// per command = the lengths of its arguments (c12m_test.go); HB applies
	Lens [][]int `json:"arg_lens,omitempty"`
	// path "parse" only (c12e_test.go)
	Start   int64 `json:"start_offset,omitempty"`
	StartDb int   `json:"start_db,omitempty"`
}

type c12Cmd struct {
	name string
	args [][]byte
}

func (s *c12Scn) commands() []c12Cmd {
	// a generated command is followed by two short ones, so that an offset error that starts
	// at the large command shows on the later commands too
	tail := []c12Cmd{{name: "SET", args: [][]byte{[]byte("t1"), []byte("v\r\n")}}, {name: "Incr", args: [][]byte{[]byte("t2")}}}
	if len(s.Lens) > 0 {
		return c12mCommands(s.Lens)
	}
	if s.Count > 0 {
		return append([]c12Cmd{c12ManyArgs(s.Count)}, tail...)
	}
	if s.BulkLen > 0 {
		return append([]c12Cmd{{name: "SET", args: [][]byte{[]byte("k"), c12CachedPattern(s.BulkLen)}}}, tail...)
	}
	out := make([]c12Cmd, len(s.Cmds))
	for i, c := range s.Cmds {
		out[i].name = c12Names[len(c)]
		out[i].args = make([][]byte, len(c))
		for j, a := range c {
			out[i].args[j] = c12Alpha[a]
		}
	}
	return out
}

// refEncode is the RESP multi-bulk encoding of one command (RESP spec: "*<n>\r\n"
// followed by n bulk strings "$<len>\r\n<bytes>\r\n").
func refEncode(dst []byte, c c12Cmd) []byte {
	dst = append(dst, '*')
	dst = strconv.AppendInt(dst, int64(len(c.args)+1), 10)
	dst = append(dst, '\r', '\n')
	put := func(b []byte) {
		dst = append(dst, '$')
		dst = strconv.AppendInt(dst, int64(len(b)), 10)
		dst = append(dst, '\r', '\n')
		dst = append(dst, b...)
		dst = append(dst, '\r', '\n')
	}
	put([]byte(c.name))
	for _, a := range c.args {
		put(a)
	}
	return dst
}

// refParse strictly parses one multi-bulk command at p[0:]; it returns the bulk
// strings and the number of bytes used. Null bulk strings are reported as an error:
// a command argument is never null.
func refParse(p []byte) ([][]byte, int, error) {
	pos := 0
	line := func() ([]byte, error) {
		i := bytes.IndexByte(p[pos:], '\n')
		if i < 1 || p[pos+i-1] != '\r' {
			return nil, fmt.Errorf("no CRLF-terminated line at %d", pos)
		}
		l := p[pos : pos+i-1]
		pos += i + 1
		return l, nil
	}
	num := func(l []byte) (int, error) {
		if len(l) == 0 || len(l) > 10 {
			return 0, fmt.Errorf("bad length %q", l)
		}
		n := 0
		for _, c := range l {
			if c < '0' || c > '9' {
				return 0, fmt.Errorf("bad length %q", l)
			}
			n = n*10 + int(c-'0')
		}
		if len(l) > 1 && l[0] == '0' {
			return 0, fmt.Errorf("length with leading zero %q", l)
		}
		return n, nil
	}
	l, err := line()
	if err != nil {
		return nil, 0, err
	}
	if len(l) < 2 || l[0] != '*' {
		return nil, 0, fmt.Errorf("expected '*', got %.20q", l)
	}
	n, err := num(l[1:])
	if err != nil {
		return nil, 0, err
	}
	out := make([][]byte, 0, n)
	for i := 0; i < n; i++ {
		l, err = line()
		if err != nil {
			return nil, 0, err
		}
		if len(l) < 2 || l[0] != '$' {
			return nil, 0, fmt.Errorf("expected '$<len>', got %.20q", l)
		}
		bl, err := num(l[1:])
		if err != nil {
			return nil, 0, err
		}
		if pos+bl+2 > len(p) || p[pos+bl] != '\r' || p[pos+bl+1] != '\n' {
			return nil, 0, fmt.Errorf("bulk of %d bytes at %d not followed by CRLF", bl, pos)
		}
		out = append(out, p[pos:pos+bl])
		pos += bl + 2
	}
	return out, pos, nil
}

// stream builds the source byte stream, the stream position after each command's
// last byte, and the token boundaries (used to pick split points for long streams).
func (s *c12Scn) stream(cmds []c12Cmd) (data []byte, ends []int64, bounds []int) {
	if len(s.Lens) > 0 {
		data, ends = c12mStream(cmds, s.HB)
		return data, ends, nil
	}
	if s.Count > 0 || s.BulkLen > 0 { // generated command + two short ones, explicit fragmentations only
		data = make([]byte, 0, 16*s.Count+s.BulkLen+128)
		for _, c := range cmds {
			data = refEncode(data, c)
			ends = append(ends, int64(len(data)))
		}
		return data, ends, nil
	}
	for i, c := range cmds {
		for k := 0; k < s.HB[i]; k++ {
			data = append(data, '\n')
			bounds = append(bounds, len(data))
		}
		start := len(data)
		data = refEncode(data, c)
		ends = append(ends, int64(len(data)))
		// token boundaries inside the command
		p := start
		for p < len(data) {
			j := bytes.IndexByte(data[p:], '\n')
			if j < 0 {
				break
			}
			line := data[p : p+j+1]
			p += j + 1
			bounds = append(bounds, p)
			if line[0] == '$' {
				n, _ := strconv.Atoi(string(line[1 : len(line)-2]))
				bounds = append(bounds, p+n) // end of payload
				p += n + 2
				bounds = append(bounds, p)
			}
		}
	}
	for k := 0; k < s.HB[len(cmds)]; k++ {
		data = append(data, '\n')
	}
	return data, ends, bounds
}

// ---------------------------------------------------------------------------
// fragmenting reader: delivers the stream cut at the given positions (or one byte
// per Read), never more than asked for, (0, io.EOF) at the end.

type fragReader struct {
	data    []byte
	pos     int
	cuts    []int // ascending stream positions at which a Read must stop
	oneByte bool
}

func (f *fragReader) Read(p []byte) (int, error) {
	if f.pos >= len(f.data) {
		return 0, io.EOF
	}
	if len(p) == 0 {
		return 0, nil
	}
	n := len(f.data) - f.pos
	if f.oneByte {
		n = 1
	}
	for _, c := range f.cuts {
		if c > f.pos {
			if c-f.pos < n {
				n = c - f.pos
			}
			break
		}
	}
	if n > len(p) {
		n = len(p)
	}
	copy(p, f.data[f.pos:f.pos+n])
	f.pos += n
	return n, nil
}

// ---------------------------------------------------------------------------
// one decoder run

type c12Fail struct {
	clause string
	kind   string
	detail map[string]interface{}
}

func q(b []byte) string {
	if len(b) > 48 {
		return fmt.Sprintf("%q...(%d bytes)", b[:48], len(b))
	}
	return fmt.Sprintf("%q", b)
}

func firstDiff(a, b []byte) int {
	n := len(a)
	if len(b) < n {
		n = len(b)
	}
	for i := 0; i < n; i++ {
		if a[i] != b[i] {
			return i
		}
	}
	if len(a) != len(b) {
		return n
	}
	return -1
}

// c12DecodeRun reads the whole stream through one fresh decoder exactly the way
// parseAofCommand does and compares with the source's view.
func c12DecodeRun(data []byte, cmds []c12Cmd, ends []int64, buf int, fr *fragReader, obs *[]string) *c12Fail {
	const startOffset = int64(1000003) // what the caller adds; any constant
	rd := bufio.NewReaderSize(fr, buf)
	dec := client.NewDecoder(rd)
	type got struct {
		cmd  string
		args [][]byte
		off  int64
	}
	gots := make([]got, 0, len(cmds))
	for i := range cmds {
		resp, incr, err := client.MustDecodeOpt(dec)
		if err != nil {
			return &c12Fail{"decoder fails on a well-formed multi-bulk command", "error", map[string]interface{}{"command_index": i, "err": err.Error()}}
		}
		cmd, args, err := client.ParseArgs(resp)
		if err != nil {
			return &c12Fail{"ParseArgs fails on a well-formed multi-bulk command", "error", map[string]interface{}{"command_index": i, "err": err.Error()}}
		}
		gots = append(gots, got{cmd, args, startOffset + incr})
		// compare right away ...
		if f := c12Compare(i, cmds[i], cmd, args, "args"); f != nil {
			return f
		}
		if startOffset+incr != startOffset+ends[i] {
			return &c12Fail{"offset reported after a command differs from the stream position after its last byte", "offset",
				map[string]interface{}{"command_index": i, "reported_incr_offset": incr, "bytes_up_to_and_including_command": ends[i]}}
		}
	}
	// the stream is over: nothing more may come out of it
	resp, _, err := client.MustDecodeOpt(dec)
	if err == nil {
		_, extra, _ := client.ParseArgs(resp)
		return &c12Fail{"decoder yields a command the source never sent", "phantom", map[string]interface{}{"extra_args": len(extra)}}
	}
	// ... and again after everything was read: earlier results must not have been
	// overwritten by later reads.
	for i := range cmds {
		if f := c12Compare(i, cmds[i], gots[i].cmd, gots[i].args, "args-overwritten-later"); f != nil {
			return f
		}
	}
	if obs != nil {
		for _, g := range gots {
			*obs = append(*obs, g.cmd, strconv.FormatInt(g.off, 10))
			for _, a := range g.args {
				h := a
				if len(h) > 16 {
					h = append(append([]byte(nil), a[:8]...), a[len(a)-8:]...)
				}
				*obs = append(*obs, strconv.Itoa(len(a)), string(h))
			}
		}
	}
	return nil
}

func c12Compare(i int, want c12Cmd, cmd string, args [][]byte, kind string) *c12Fail {
	if cmd != strings.ToLower(want.name) {
		return &c12Fail{"command name differs", kind, map[string]interface{}{"command_index": i, "got": cmd, "want": strings.ToLower(want.name)}}
	}
	if len(args) != len(want.args) {
		return &c12Fail{"argument count differs from what the source sent", kind, map[string]interface{}{"command_index": i, "got": len(args), "want": len(want.args)}}
	}
	for j := range args {
		if args[j] == nil || !bytes.Equal(args[j], want.args[j]) {
			return &c12Fail{"argument bytes differ from what the source sent", kind,
				map[string]interface{}{"command_index": i, "arg_index": j, "got": q(args[j]), "want": q(want.args[j]), "got_nil": args[j] == nil, "first_diff_at": firstDiff(args[j], want.args[j])}}
		}
	}
	return nil
}

// ---------------------------------------------------------------------------
// encode paths

// c12EncodeResp: client.Encode of the command built with client.ChangeArgsToResp and
// client.NewCommand, written through a bufio.Writer of the given size; the bytes must
// parse (RESP spec) to the same arguments and decode (repo decoder) to the same
// arguments with offset == len.
func c12EncodeResp(cmds []c12Cmd, wsize, rsize int) *c12Fail {
	for variant := 0; variant < 2; variant++ {
		var sink bytes.Buffer
		w := bufio.NewWriterSize(&sink, wsize)
		for _, c := range cmds {
			var r client.Resp
			if variant == 0 {
				r = client.ChangeArgsToResp([]byte(c.name), c.args)
			} else {
				ia := make([]interface{}, len(c.args))
				for i, a := range c.args {
					ia[i] = a
				}
				r = client.NewCommand(c.name, ia...)
			}
			if err := client.Encode(w, r, false); err != nil {
				return &c12Fail{"client.Encode fails", "error", map[string]interface{}{"err": err.Error()}}
			}
		}
		if err := w.Flush(); err != nil {
			return &c12Fail{"flush fails", "error", map[string]interface{}{"err": err.Error()}}
		}
		if f := c12CheckEncoded(sink.Bytes(), cmds, false, rsize); f != nil {
			f.detail["constructor"] = []string{"ChangeArgsToResp", "NewCommand"}[variant]
			return f
		}
	}
	return nil
}

// c12EncodeWriter: proto.Writer.WriteArgs exactly as RedisConn.send calls it
// (command name as string, arguments as []byte), all commands through ONE writer.
func c12EncodeWriter(cmds []c12Cmd, wsize, rsize int) *c12Fail {
	var sink bytes.Buffer
	w := proto.NewWriter(&sink, wsize)
	for _, c := range cmds {
		ia := make([]interface{}, 0, len(c.args)+1)
		ia = append(ia, strings.ToLower(c.name))
		for _, a := range c.args {
			ia = append(ia, a)
		}
		if err := w.WriteArgs(ia); err != nil {
			return &c12Fail{"WriteArgs fails", "error", map[string]interface{}{"err": err.Error()}}
		}
	}
	if err := w.Flush(); err != nil {
		return &c12Fail{"flush fails", "error", map[string]interface{}{"err": err.Error()}}
	}
	return c12CheckEncoded(sink.Bytes(), cmds, true, rsize)
}

func c12CheckEncoded(enc []byte, cmds []c12Cmd, lowerName bool, rsize int) *c12Fail {
	if rsize <= 0 {
		rsize = 32
	}
	// (1) RESP-spec parse of the produced bytes
	pos := 0
	ends := make([]int64, 0, len(cmds))
	for i, c := range cmds {
		parts, n, err := refParse(enc[pos:])
		if err != nil {
			return &c12Fail{"encoded command is not a well-formed multi-bulk command", "malformed", map[string]interface{}{"command_index": i, "err": err.Error(), "bytes": q(enc[pos:])}}
		}
		if len(parts) != len(c.args)+1 || !strings.EqualFold(string(parts[0]), c.name) {
			return &c12Fail{"encoded command has a different name or argument count", "args", map[string]interface{}{"command_index": i, "got_parts": len(parts), "want_parts": len(c.args) + 1}}
		}
		for j, a := range c.args {
			if !bytes.Equal(parts[j+1], a) {
				return &c12Fail{"encoded argument bytes differ", "args", map[string]interface{}{"command_index": i, "arg_index": j, "got": q(parts[j+1]), "want": q(a), "first_diff_at": firstDiff(parts[j+1], a)}}
			}
		}
		pos += n
		ends = append(ends, int64(pos))
	}
	if pos != len(enc) {
		return &c12Fail{"encoder wrote bytes beyond the commands", "malformed", map[string]interface{}{"extra": q(enc[pos:])}}
	}
	// (2) decode again with the repo decoder (whole and one byte per read)
	want := cmds
	if lowerName {
		want = make([]c12Cmd, len(cmds))
		for i, c := range cmds {
			want[i] = c12Cmd{strings.ToLower(c.name), c.args}
		}
	}
	for _, one := range []bool{false, true} {
		if f := c12DecodeRun(enc, want, ends, 16, &fragReader{data: enc, oneByte: one}, nil); f != nil {
			f.clause = "encode then decode: " + f.clause
			return f
		}
	}
	// (3) and with the reply reader of the target-side connection
	rd := proto.NewReader(&fragReader{data: enc}, rsize)
	for i, c := range cmds {
		v, err := rd.ReadReply()
		if err != nil {
			return &c12Fail{"proto.Reader cannot read the encoded command", "error", map[string]interface{}{"command_index": i, "err": err.Error()}}
		}
		arr, ok := v.([]interface{})
		if !ok || len(arr) != len(c.args)+1 {
			return &c12Fail{"proto.Reader returns a different element count", "args", map[string]interface{}{"command_index": i}}
		}
		for j, a := range c.args {
			s, ok := arr[j+1].(string)
			if !ok || s != string(a) {
				return &c12Fail{"proto.Reader returns different argument bytes", "args", map[string]interface{}{"command_index": i, "arg_index": j, "want": q(a)}}
			}
		}
	}
	return nil
}

// ---------------------------------------------------------------------------
// split points

func c12Splits(n int, bounds []int, buf int, all bool) []int {
	if all {
		out := make([]int, 0, n)
		for i := 1; i < n; i++ {
			out = append(out, i)
		}
		return out
	}
	set := map[int]struct{}{}
	add := func(p int) {
		if p > 0 && p < n {
			set[p] = struct{}{}
		}
	}
	for _, b := range bounds {
		for d := -2; d <= 2; d++ {
			add(b + d)
		}
	}
	for k := 1; k <= 2; k++ {
		for d := -1; d <= 1; d++ {
			add(k*buf + d)
		}
	}
	add(n - 1)
	add(n / 2)
	out := make([]int, 0, len(set))
	for p := range set {
		out = append(out, p)
	}
	sort.Ints(out)
	return out
}

// ---------------------------------------------------------------------------
// driver

func (s *c12Scn) hasLong() bool {
	if s.BulkLen > 0 || len(s.Lens) > 0 {
		return true
	}
	for _, c := range s.Cmds {
		for _, a := range c {
			if a >= c12Big {
				return true
			}
		}
	}
	return false
}

func (s *c12Scn) nontrivial() bool {
	if s.Count > 0 || s.BulkLen > 0 || len(s.Lens) > 0 {
		return true
	}
	for _, h := range s.HB {
		if h > 0 {
			return true
		}
	}
	for _, c := range s.Cmds {
		for _, a := range c {
			if a != 1 { // anything but the plain "a": empty, CR/LF, RESP look-alikes, NUL, 0xff, long
				return true
			}
		}
	}
	return false
}

func (s *c12Scn) shape() string {
	hb := false
	for _, h := range s.HB {
		if h > 0 {
			hb = true
		}
	}
	switch {
	case len(s.Lens) > 0:
		return "multi-large"
	case s.Count > 0:
		return "many-args"
	case hb:
		return "heartbeat"
	case s.hasLong():
		return "long-arg"
	case len(s.Cmds) > 1:
		return "multi-command"
	}
	return "single-command"
}

// c12Guard turns a panic of the code under test into a finding instead of a dead shard.
func c12Guard(f func() *c12Fail) (out *c12Fail) {
	defer func() {
		if r := recover(); r != nil {
			out = &c12Fail{"the code under test panics on a well-formed command", "panic", map[string]interface{}{"panic": fmt.Sprint(r)}}
		}
	}()
	return f()
}

func c12Result(s *c12Scn, f *c12Fail) mc.Result {
	sig := "C12:" + s.Path + ":" + f.kind
	if (s.Path == "decode" && (f.kind == "offset" || f.kind == "error" || f.kind == "phantom")) || s.Count > 0 {
		sig += ":" + s.shape()
	}
	f.detail["stream_shape"] = s.shape()
	return mc.Violation(f.clause, sig, f.detail)
}

// c12RunDecode runs every fragmentation of one (stream, buffer size) pair; returns
// the result and the number of decoder runs.
func c12RunDecode(s c12Scn, pairs bool) (mc.Result, *c12Scn, int) {
	cmds := s.commands()
	data, ends, bounds := s.stream(cmds)
	runs := 0
	var obs []string
	one := func(frag string, cuts []int, o *[]string) *mc.Result {
		runs++
		fr := &fragReader{data: data, cuts: cuts, oneByte: frag == "1byte"}
		if f := c12Guard(func() *c12Fail { return c12DecodeRun(data, cmds, ends, s.Buf, fr, o) }); f != nil {
			v := s
			v.Frag, v.Cuts = frag, cuts
			f.detail["stream_len"] = len(data)
			f.detail["stream_head"] = q(data)
			r := c12Result(&v, f)
			return &r
		}
		return nil
	}
	fail := func(r *mc.Result, frag string, cuts []int) (mc.Result, *c12Scn, int) {
		v := s
		v.Frag, v.Cuts = frag, cuts
		return *r, &v, runs
	}
	if s.Frag == "mid" { // read boundaries at the middle and before the last byte
		s.Cuts = []int{len(data) / 2, len(data) - 1}
	} else if s.Frag == "pages" { // a read boundary every 4093 bytes
		s.Cuts = nil
		for p := 4093; p < len(data); p += 4093 {
			s.Cuts = append(s.Cuts, p)
		}
	}
	if s.Frag != "" { // one given fragmentation (replay, boundary families)
		po := &obs
		if s.Count > 0 || s.BulkLen > 0 {
			po = nil
			obs = []string{s.Path, strconv.Itoa(s.Count), strconv.Itoa(s.BulkLen), strconv.Itoa(s.Buf), s.Frag, fmt.Sprint(s.Cuts)}
		} else if len(s.Lens) > 0 {
			obs = []string{s.Path, fmt.Sprint(s.Lens), fmt.Sprint(s.HB), strconv.Itoa(s.Buf), s.Frag}
		}
		if r := one(s.Frag, s.Cuts, po); r != nil {
			if s.Frag == "mid" || s.Frag == "pages" {
				return fail(r, s.Frag, nil) // the name alone identifies the fragmentation
			}
			return fail(r, s.Frag, s.Cuts)
		}
		return mc.OK(mc.Hash(obs...), s.nontrivial(), runs), nil, runs
	}
	if r := one("whole", nil, &obs); r != nil {
		return fail(r, "whole", nil)
	}
	if r := one("1byte", nil, nil); r != nil {
		return fail(r, "1byte", nil)
	}
	splits := c12Splits(len(data), bounds, s.Buf, !s.hasLong())
	for _, c := range splits {
		if r := one("cuts", []int{c}, nil); r != nil {
			return fail(r, "cuts", []int{c})
		}
	}
	if pairs && len(data) <= 64 {
		for i := 0; i < len(splits); i++ {
			for j := i + 1; j < len(splits); j++ {
				cuts := []int{splits[i], splits[j]}
				if r := one("cuts", cuts, nil); r != nil {
					return fail(r, "cuts", cuts)
				}
			}
		}
	}
	obs = append(obs, strconv.Itoa(s.Buf))
	return mc.OK(mc.Hash(obs...), s.nontrivial(), runs), nil, runs
}

func c12RunEncode(s c12Scn) mc.Result {
	cmds := s.commands()
	var f *c12Fail
	if s.Path == "encode-resp" {
		f = c12Guard(func() *c12Fail { return c12EncodeResp(cmds, s.Buf, s.RBuf) })
	} else if s.Path == "encode-cluster" {
		f = c12Guard(func() *c12Fail { return c12EncodeCluster(cmds, s.Buf, s.RBuf) })
	} else {
		f = c12Guard(func() *c12Fail { return c12EncodeWriter(cmds, s.Buf, s.RBuf) })
	}
	if f != nil {
		return c12Result(&s, f)
	}
	parts := []string{s.Path, strconv.Itoa(s.Buf), strconv.Itoa(s.Count), strconv.Itoa(s.BulkLen), strconv.Itoa(s.RBuf), fmt.Sprint(s.Lens)}
	for _, c := range s.Cmds {
		parts = append(parts, fmt.Sprint(c))
	}
	return mc.OK(mc.Hash(parts...), s.nontrivial(), 1)
}

// c12Commands: all argument-index tuples of length <= maxArgs over alphabet indexes idx.
func c12Commands(idx []int, maxArgs int) [][]int {
	out := [][]int{{}}
	level := [][]int{{}}
	for d := 0; d < maxArgs; d++ {
		var next [][]int
		for _, p := range level {
			for _, a := range idx {
				next = append(next, append(append([]int(nil), p...), a))
			}
		}
		out = append(out, next...)
		level = next
	}
	return out
}

func init() {
	verifChecks["C12"] = func(t *testing.T, rep *mc.Reporter) { runC12(rep) }
}

func runC12(rep *mc.Reporter) {
	shard, nshards := mc.ShardOf()
	tier := mc.Tier()
	thorough := tier == "thorough"
	budget := &mc.Budget{Deadline: mc.DeadlineFromEnv()}
	c12InitAlpha(thorough)

	if rp, err := mc.LoadReplay(); err != nil {
		rep.Machinery("cannot load replay: "+err.Error(), nil)
		return
	} else if rp != nil {
		var s c12Scn
		if err := json.Unmarshal(rp.Scenario, &s); err != nil {
			rep.Machinery("bad replay scenario: "+err.Error(), nil)
			return
		}
		for _, c := range s.Cmds {
			for _, a := range c {
				if a >= len(c12Alpha) {
					c12InitAlpha(true)
				}
			}
		}
		if s.Path == "resume" {
			rep.Exec(s, nil, c12RunResume(s))
		} else if s.Path == "parse" {
			res, _ := c12RunParse(s)
			rep.Exec(s, nil, res)
		} else if s.Path == "encode-typed" {
			rep.Exec(s, nil, c12RunTyped(s))
		} else if s.Path == "relay" {
			res, _ := c12RunRelay(s)
			rep.Exec(s, nil, res)
		} else if s.Path == "decode" {
			res, v, _ := c12RunDecode(s, false)
			if v != nil {
				s = *v
			}
			rep.Exec(s, nil, res)
		} else {
			rep.Exec(s, nil, c12RunEncode(s))
		}
		return
	}

	small := []int{0, 1, 2, 3, 4, 5, 6}
	withBig := append(append([]int(nil), small...), c12Big)
	bufs := []int{16, 17, 64, 4096}
	idx := 0
	var decoderRuns int64
	mine := func() bool {
		idx++
		return idx%nshards == shard && !budget.Expired()
	}
	var bufsOverride []int
	decode := func(fam string, cmds [][]int, hb []int, pairs bool) {
		if !mine() {
			return
		}
		rep.Scenario()
		s := c12Scn{Path: "decode", Fam: fam, Cmds: cmds, HB: hb}
		bs := bufs
		if bufsOverride != nil {
			bs = bufsOverride
		}
		if s.hasLong() {
			bs = []int{16, 4096, 65536} // 65536 = the size the tool's own pipes use
		}
		for _, b := range bs {
			s.Buf = b
			res, v, runs := c12RunDecode(s, pairs)
			decoderRuns += int64(runs)
			if v != nil {
				rep.Exec(*v, nil, res)
			} else {
				rep.Exec(s, nil, res)
			}
		}
	}
	var parserRuns int64
	parse := func(fam string, cmds [][]int, hb []int) {
		if !mine() {
			return
		}
		rep.Scenario()
		s := c12Scn{Path: "parse", Fam: fam, Cmds: cmds, HB: hb}
		res, runs := c12RunParse(s)
		parserRuns += int64(runs)
		rep.Exec(s, nil, res)
	}
	for _, ws := range []int{16, 64, 4096} {
		for _, fam := range []string{"typed", "typed-cluster"} {
			if mine() {
				rep.Scenario()
				s := c12Scn{Path: "encode-typed", Fam: fam, Buf: ws}
				rep.Exec(s, nil, c12RunTyped(s))
			}
		}
	}
	encode := func(fam string, cmds [][]int) {
		if !mine() {
			return
		}
		rep.Scenario()
		for _, p := range []string{"encode-resp", "encode-writer", "encode-cluster"} {
			for _, ws := range []int{16, 64, 4096} {
				s := c12Scn{Path: p, Fam: fam, Cmds: cmds, HB: make([]int, len(cmds)+1), Buf: ws}
				rep.Exec(s, nil, c12RunEncode(s))
			}
		}
	}

	// F1: every single command with <= 3 arguments over the whole alphabet
	f1 := c12Commands(withBig, 3)
	for _, c := range f1 {
		for _, hb := range [][]int{{0, 0}, {1, 0}, {2, 0}, {0, 1}} {
			decode("single", [][]int{c}, hb, thorough)
			parse("single", [][]int{c}, hb)
		}
		encode("single", [][]int{c})
	}
	// F2: every pair of commands with <= 2 small arguments or the one long argument (quick);
	// <= 2 arguments over the whole alphabet or <= 3 small arguments (thorough)
	f2 := append(c12Commands(small, 2), []int{c12Big})
	nPairSplit := len(f2) // commands short enough for the pair-of-split-points enumeration
	if thorough {
		f2 = c12Commands(withBig, 2)
		nPairSplit = len(f2)
		f2 = append(f2, c12Commands(small, 3)[len(c12Commands(small, 2)):]...)
	}
	hasLong := func(c []int) bool {
		for _, a := range c {
			if a >= c12Big {
				return true
			}
		}
		return false
	}
	for i, a := range f2 {
		for j, b := range f2 {
			if i >= nPairSplit && j >= nPairSplit {
				continue // a 3-argument command is paired with every <=2-argument command, not with another 3-argument one
			}
			if (hasLong(a) || hasLong(b)) && (i >= nPairSplit || j >= nPairSplit) {
				continue // long arguments are paired with the <=2-argument commands only
			}
			for _, hb := range [][]int{{0, 0, 0}, {0, 1, 0}} {
				decode("pair", [][]int{a, b}, hb, thorough && i < nPairSplit && j < nPairSplit)
			}
			if i < nPairSplit && j < nPairSplit {
				encode("pair", [][]int{a, b})
			}
		}
	}
	// F3: every triple of commands with <= 1 argument (quick) / small <= 2 plus long <= 1 (thorough)
	f3 := c12Commands(withBig, 1)
	f3hb := [][]int{{0, 0, 0, 0}, {0, 1, 0, 0}, {0, 0, 1, 0}, {1, 1, 1, 1}}
	if thorough {
		f3 = append(f3, c12Commands(small, 2)[len(c12Commands(small, 1)):]...)
		f3hb = [][]int{{0, 0, 0, 0}, {0, 1, 2, 0}}
	}
	for i, a := range f3 {
		for j, b := range f3 {
			for k, c := range f3 {
				shortOnes := i < 9 && j < 9 && k < 9
				if !shortOnes && (hasLong(a) || hasLong(b) || hasLong(c)) {
					continue // the long argument appears in triples of <=1-argument commands only
				}
				bufsOverride = nil
				if !shortOnes {
					bufsOverride = []int{16, 64} // triples beyond the quick family: two buffer sizes
				}
				for _, hb := range f3hb {
					decode("triple", [][]int{a, b, c}, hb, thorough && shortOnes)
					if shortOnes {
						parse("triple", [][]int{a, b, c}, hb)
					}
				}
				bufsOverride = nil
			}
		}
	}
	// F4 (thorough): the 5 MiB argument
	if thorough {
		few := []int{0, 1, 2}
		var f4 [][]int
		f4 = append(f4, []int{c12Huge})
		for _, x := range few {
			f4 = append(f4, []int{c12Huge, x}, []int{x, c12Huge})
			for _, y := range few {
				f4 = append(f4, []int{c12Huge, x, y}, []int{x, c12Huge, y}, []int{x, y, c12Huge})
			}
		}
		for _, c := range f4 {
			decode("huge-single", [][]int{c}, []int{0, 0}, false)
			decode("huge-single", [][]int{c}, []int{1, 0}, false)
			encode("huge-single", [][]int{c})
		}
		for _, o := range c12Commands(withBig, 1) {
			decode("huge-pair", [][]int{{c12Huge}, o}, []int{0, 1, 0}, false)
			decode("huge-pair", [][]int{o, {c12Huge}}, []int{0, 0, 0}, false)
			encode("huge-pair", [][]int{{c12Huge}, o})
		}
	}
	c12RunBoundaries(rep, mine, thorough, &decoderRuns, &parserRuns)
	c12RunMultiLarge(rep, mine, thorough, &decoderRuns, &parserRuns)
	rep.Count("decoder_runs", decoderRuns)
	rep.Count("parser_runs", parserRuns)
	if budget.Expired() {
		rep.Capped("deadline reached during stream enumeration")
	}
}

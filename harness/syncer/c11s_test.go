package syncer

import (
	"fmt"
	"os"

	"github.com/mgtv-tech/redis-GunYu/config"
	"github.com/mgtv-tech/redis-GunYu/verifshim/mc"
	"github.com/mgtv-tech/redis-GunYu/verifshim/ref"
)

// Family "chose" (a part of C11, run by C18's harness binary): the search that picks the name of the
// checkpoint key for a cluster target whose shard owns only some slots (choseKeyInSlots ->
// choseSlotInRange -> pickSuffixDfs). It asks the key-to-slot function about one candidate after the
// other, every candidate a zero-copy view of ONE buffer that is rewritten in place.
//
// The candidate order is fixed (suffixes of 20 letters in lexicographic order), so for a slot range the
// reference HASH_SLOT says which candidate must be returned and after how many questions. The real
// pickSuffixDfs is run with a judge that counts its questions and gives up (panic, recovered here) after
// a fixed number of them: no wall clock is involved, a search that never ends is a verdict.
// config is only used for the checkpoint key prefix.

type c11sScenario struct {
	Family string `json:"family"`
	Prefix string `json:"prefix"`
	Left   int    `json:"left"`
	Right  int    `json:"right"`
}

type c11sBudget struct{}

const c11sMaxDepth = 20 // the constant of choseKeyInSlots

// c11sRefSearch replays the candidate order with the reference: index (from 1) and name of the first
// candidate whose slot lies in [l,r], looking at most at limit candidates.
func c11sRefSearch(prefix string, l, r, limit int) (int, string) {
	suffix := make([]byte, c11sMaxDepth)
	for i := range suffix {
		suffix[i] = 'a'
	}
	for n := 1; n <= limit; n++ {
		key := prefix + "-" + string(suffix)
		if s := ref.HashSlotS(key); s >= l && s <= r {
			return n, key
		}
		// next candidate in the order of the depth-first search: increment like an odometer over a..z
		i := c11sMaxDepth - 1
		for i >= 0 && suffix[i] == 'z' {
			suffix[i] = 'a'
			i--
		}
		if i < 0 {
			return 0, ""
		}
		suffix[i]++
	}
	return 0, ""
}

// c11sExec runs the search three times in a row (the tool repeats it at every start, and whatever an
// implementation keeps from the previous search is part of the state the next one starts in).
// choseKeyInSlots itself is not called: its judge cannot be bounded from outside, and a search that
// never ends must be a verdict, not a hang; its only own logic is the order of the ranges.
func c11sExec(scn c11sScenario) (res mc.Result) {
	for pass := 0; pass < 3; pass++ {
		res = c11sPass(scn)
		if res.Verdict != "ok" {
			return res
		}
	}
	return res
}

func c11sPass(scn c11sScenario) (res mc.Result) {
	const limit = 400000
	wantN, wantKey := c11sRefSearch(scn.Prefix, scn.Left, scn.Right, limit)
	if wantN == 0 {
		return mc.Result{Verdict: "machinery", Clause: fmt.Sprintf("reference finds no candidate for [%d,%d] within %d", scn.Left, scn.Right, limit)}
	}
	detail := map[string]interface{}{"prefix": scn.Prefix, "range": []int{scn.Left, scn.Right}, "reference_key": wantKey, "reference_questions": wantN}
	calls := 0
	judge := func(slot int) bool {
		calls++
		if calls > wantN+1000 {
			panic(c11sBudget{})
		}
		return slot >= scn.Left && slot <= scn.Right
	}
	var ok bool
	var got string
	gaveUp := false
	func() {
		defer func() {
			if r := recover(); r != nil {
				if _, mine := r.(c11sBudget); !mine {
					panic(r)
				}
				gaveUp = true
			}
		}()
		ok, got = pickSuffixDfs(c11sMaxDepth, 0, judge, []byte(scn.Prefix+"-"))
	}()
	detail["questions_asked"] = calls
	detail["returned"] = got
	switch {
	case gaveUp:
		return mc.Violation("the search for a key in the shard's slots asked about more candidates than the reference needs and had not ended", "choseKeyInSlots:no-end", detail)
	case !ok || got == "":
		return mc.Violation("the search for a key in the shard's slots found none although one exists", "choseKeyInSlots:none", detail)
	}
	if s := ref.HashSlotS(got); s < scn.Left || s > scn.Right {
		detail["returned_slot"] = s
		return mc.Violation("the key chosen for the shard does not hash into the shard's slots", "choseKeyInSlots:wrong-slot", detail)
	}
	if got != wantKey {
		return mc.Violation("the search skipped a candidate that hashes into the shard's slots", "choseKeyInSlots:skipped", detail)
	}
	if os.Getenv("VERIF_TRACE") != "" {
		fmt.Fprintln(os.Stderr, "chose", scn, "wantN", wantN, "calls", calls, "got", got)
	}
	return mc.OK(mc.Hash("chose", scn.Prefix, fmt.Sprint(scn.Left, scn.Right), got), true, calls)
}

func c11sFamily(rep *mc.Reporter, tier string, shard, nshards int, budget *mc.Budget, idx *int) {
	ranges := [][2]int{{0, 16383}, {0, 5460}, {5461, 10922}, {10923, 16383}, {0, 8191}, {8192, 16383}, {0, 0}, {16383, 16383}, {100, 163}, {12000, 12001}}
	if tier == "thorough" {
		for s := 0; s < 16384; s += 331 {
			ranges = append(ranges, [2]int{s, s}, [2]int{s, s + 15})
		}
	}
	for _, prefix := range []string{config.CheckpointKey, "cp:shard-2"} {
		for _, rg := range ranges {
			if rg[1] > 16383 {
				continue
			}
			*idx++
			if *idx%nshards != shard || budget.Expired() {
				continue
			}
			scn := c11sScenario{Family: "chose", Prefix: prefix, Left: rg[0], Right: rg[1]}
			rep.Scenario()
			res := c11sExec(scn)
			if res.Verdict == "violation" {
				if r2 := c11sExec(scn); r2.Verdict != res.Verdict || r2.Sig != res.Sig {
					res = mc.Result{Verdict: "machinery", Clause: fmt.Sprintf("violation not reproducible: %s vs %s/%s", res.Sig, r2.Verdict, r2.Sig)}
				}
			}
			rep.Exec(scn, nil, res)
		}
	}
}

package syncer

import (
	"os"
	"encoding/json"
	"fmt"
	"strings"
	"testing"

	"github.com/mgtv-tech/redis-GunYu/verifshim/mc"
	"github.com/mgtv-tech/redis-GunYu/verifshim/redisd"
)

func init() {
	verifChecks["C02"] = func(t *testing.T, rep *mc.Reporter) { runCrashCheck(t, rep, "C02", oracleC02) }
	verifChecks["C07"] = func(t *testing.T, rep *mc.Reporter) { runCrashCheck(t, rep, "C07", oracleC07) }
	verifChecks["C09"] = func(t *testing.T, rep *mc.Reporter) { runCrashCheck(t, rep, "C09", oracleC09) }
}

type crashPlan struct {
	alpha      []string
	L          int
	cfgs       []aofCfg
	bound      int
	maxTicks   int
	maxCrashes int
	prefix     []string
	bases      bool // also with stream start offsets 0 and 2^32+7
}

func crashConfigs(kind string) []aofCfg {
	switch kind {
	case "probe":
		out := crashConfigs("")
		for i := range out {
			out[i].Probe = true
		}
		return out
	case "db":
		return []aofCfg{
			{Txn: true, Resume: true, Pipeline: false, Count: 2, Bytes: 1 << 20, DbMode: "id"},
			{Txn: false, Resume: true, Pipeline: false, Count: 2, Bytes: 1 << 20, DbMode: "shift"},
		}
	case "txn":
		return []aofCfg{
			{Txn: true, Resume: true, Pipeline: false, Count: 2, Bytes: 1 << 20, DbMode: "id"},
			{Txn: true, Resume: true, Pipeline: true, Count: 1, Bytes: 1 << 20, DbMode: "id"},
			{Txn: true, Resume: true, Pipeline: false, Count: 64, Bytes: 1 << 20, DbMode: "map12"},
			{Txn: true, Resume: true, Pipeline: false, Count: 64, Bytes: 8, DbMode: "id"},
		}
	case "txn-all":
		var out []aofCfg
		for _, pipe := range []bool{false, true} {
			for _, cnt := range []uint{1, 2, 3, 64} {
				for _, db := range []string{"id", "map12"} {
					out = append(out, aofCfg{Txn: true, Resume: true, Pipeline: pipe, Count: cnt, Bytes: 1 << 20, DbMode: db})
				}
			}
			out = append(out, aofCfg{Txn: true, Resume: true, Pipeline: pipe, Count: 64, Bytes: 8, DbMode: "id"}, aofCfg{Txn: true, Resume: true, Pipeline: pipe, Count: 2, Bytes: 40, DbMode: "id"})
		}
		return out
	case "all":
		var out []aofCfg
		for _, txn := range []bool{true, false} {
			for _, pipe := range []bool{false, true} {
				for _, cnt := range []uint{1, 2, 64} {
					for _, db := range []string{"id", "map12"} {
						out = append(out, aofCfg{Txn: txn, Resume: true, Pipeline: pipe, Count: cnt, Bytes: 1 << 20, DbMode: db})
					}
				}
			}
		}
		return out
	}
	return []aofCfg{
		{Txn: true, Resume: true, Pipeline: false, Count: 2, Bytes: 1 << 20, DbMode: "id"},
		{Txn: true, Resume: true, Pipeline: true, Count: 1, Bytes: 1 << 20, DbMode: "map12"},
		{Txn: false, Resume: true, Pipeline: false, Count: 2, Bytes: 1 << 20, DbMode: "map12"},
		{Txn: false, Resume: true, Pipeline: true, Count: 64, Bytes: 1 << 20, DbMode: "id"},
		{Txn: true, Resume: true, Pipeline: false, Count: 64, Bytes: 8, DbMode: "id"},
	}
}

func crashPlans(check, tier string) []crashPlan {
	switch check {
	case "C02":
		alpha := []string{"w1", "w2", "df", "s1", "s0", "t2", "ts", "p", "n", "tp", "wn"}
		if tier == "thorough" {
			return []crashPlan{
				{alpha, 3, crashConfigs(""), 1, 1, 1, []string{"s0"}, false},
				{alpha, 2, crashConfigs("all"), 1, 1, 2, []string{"s0"}, false},
				{alpha, 2, crashConfigs(""), 2, 2, 1, []string{"s0"}, false},
				{[]string{"w1", "s1", "s0", "s2"}, 4, crashConfigs("db"), 1, 1, 1, []string{"s0"}, false},
				{[]string{"w1", "sb", "p", "s0", "s1"}, 4, crashConfigs("db"), 1, 1, 1, []string{"s0"}, false},
			}
		}
		return []crashPlan{
			// targeted plans first: when the deadline cuts the run short it cuts the broad plans
			// database switches around a crash: position stored in a db > 0, then the source returns to db 0
			{[]string{"w1", "s1", "s0"}, 4, crashConfigs("db"), 0, 0, 1, []string{"s0"}, false},
			// a stretch inside a black-listed database (nothing of it reaches the target, the
			// master's keep-alive PINGs still arrive) with a crash in or right after it
			{[]string{"w1", "sb", "p"}, 4, crashConfigs("db"), 1, 1, 1, []string{"s0"}, false},
			// argument shapes (empty string, binary bytes): offsets are byte counts of what was decoded
			{[]string{"we", "t3", "w1"}, 2, crashConfigs(""), 0, 0, 1, []string{"s0"}, true},
			{[]string{"w1", "df", "s1", "s0", "t2", "ts", "p"}, 2, crashConfigs(""), 1, 1, 1, []string{"s0"}, false},
			// transactions whose members the key filter removes (one / all), a nil reply from the target
			{[]string{"tp", "tf", "wn", "w1"}, 2, crashConfigs(""), 1, 1, 1, []string{"s0"}, false},
			{[]string{"w1", "s1", "t2", "p"}, 3, crashConfigs(""), 0, 0, 1, []string{"s0"}, false},
		}
	case "C07":
		alpha := []string{"w1", "s1", "t1", "p", "n", "g"}
		if tier == "thorough" {
			return []crashPlan{
				{append([]string{"we", "w2"}, alpha...), 3, crashConfigs(""), 2, 3, 1, []string{"s0"}, false},
				{alpha, 2, crashConfigs("all"), 2, 3, 2, []string{"s0"}, false},
				{alpha, 1, crashConfigs("all"), 3, 3, 2, nil, false},
			}
		}
		return []crashPlan{
			{alpha, 2, crashConfigs(""), 1, 2, 1, []string{"s0"}, false},
			{alpha, 1, crashConfigs(""), 2, 3, 1, nil, false},
			{[]string{"we", "w2", "w1", "p"}, 2, crashConfigs(""), 0, 1, 1, []string{"s0"}, true},
			// one argument above 1 MiB in front of / behind ordinary items: every stored position is still a command end
			{[]string{"wM", "w1", "t1"}, 2, crashConfigs("")[:3], 0, 1, 1, []string{"s0"}, false},
			// input.syncDelayTestKey configured: the probe is an ordinary stream item with extra handling
			{[]string{"pr", "w1", "t1", "p"}, 2, crashConfigs("probe"), 1, 2, 1, []string{"s0"}, false},
		}
	case "C09":
		alpha := []string{"t1", "t2", "t3", "ts", "w1", "s1", "tp", "tf"}
		if tier == "thorough" {
			return []crashPlan{
				{alpha, 3, crashConfigs("txn-all"), 1, 1, 1, []string{"s0"}, false},
				{alpha, 2, crashConfigs("txn-all"), 2, 2, 2, []string{"s0"}, false},
			}
		}
		return []crashPlan{
			{alpha, 2, crashConfigs("txn"), 1, 1, 1, []string{"s0"}, false},
			{[]string{"t2", "t3", "s1"}, 3, crashConfigs("txn"), 0, 0, 1, []string{"s0"}, false},
		}
	}
	return nil
}

func runCrashCheck(t *testing.T, rep *mc.Reporter, check string, oracle func(scn crashScenario, rec *crashRec) mc.Result) {
	shard, nshards := mc.ShardOf()
	tier := mc.Tier()
	budget := &mc.Budget{Deadline: mc.DeadlineFromEnv()}
	exec := func(scn crashScenario, ch *mc.Chooser) mc.Result {
		rec, mach := crashExec(t, scn, ch)
		if mach != "" {
			return mc.Result{Verdict: "machinery", Clause: mach}
		}
		r := oracle(scn, &rec)
		if r.Verdict == "ok" && os.Getenv("VERIF_REPLAY") != "" {
			r.Detail = rec.describe()
			r.Nontrivial = true
		}
		return r
	}
	if rp, err := mc.LoadReplay(); err != nil {
		rep.Machinery("cannot load replay: "+err.Error(), nil)
		return
	} else if rp != nil {
		var scn crashScenario
		if err := json.Unmarshal(rp.Scenario, &scn); err != nil {
			rep.Machinery("bad replay scenario: "+err.Error(), nil)
			return
		}
		rep.Exec(scn, rp.Choices, exec(scn, mc.NewChooser(rp.Choices)))
		return
	}
	idx := 0
	fam := os.Getenv("VERIF_FAMILY") // "db": only the database-switch plans (C01 includes them as a part)
	for _, pl := range crashPlans(check, tier) {
		pl := pl
		if fam != "" && fam != "db" {
			break
		}
		if fam == "db" {
			isDb := false
			for _, c := range pl.cfgs {
				if c.DbMode == "shift" {
					isDb = true
				}
			}
			if !isDb || pl.bound != 0 {
				continue
			}
		}
		enumSeqs(pl.alpha, pl.L, func(seq []string) {
			for _, cfg := range pl.cfgs {
				idx++
				if only := os.Getenv("VERIF_CRASH_ONLY"); only != "" && only != strings.Join(seq, " ") {
					continue // development aid (never set by bin/check): one stream only
				}
				if idx%nshards != shard || budget.Expired() {
					continue
				}
				scn := crashScenario{Syms: append(append([]string(nil), pl.prefix...), seq...), Cfg: cfg, Max: pl.maxTicks, MaxCrashes: pl.maxCrashes}
				mc.RunScenario(rep, scn, pl.bound, budget, func(ch *mc.Chooser) mc.Result { return exec(scn, ch) })
				if pl.bases {
					// the same histories on streams that start at offset 0 and beyond 2^32
					for _, b := range []string{"0", "big"} {
						sb := scn
						sb.Base = b
						mc.RunScenario(rep, sb, pl.bound, budget, func(ch *mc.Chooser) mc.Result { return exec(sb, ch) })
					}
				}
			}
		})
	}
	runFam := func(name string, scns []crashScenario, bound int) {
		if fam != "" && fam != name {
			return
		}
		for _, scn := range scns {
			scn := scn
			idx++
			if idx%nshards != shard || budget.Expired() {
				continue
			}
			mc.RunScenario(rep, scn, bound, budget, func(ch *mc.Chooser) mc.Result { return exec(scn, ch) })
		}
	}
	if (fam == "" || fam == "rekey") && check != "C09" {
		// ---- family "rekey": from the first restart on the source reports a new replication id for the same
		// history (fail-over: the old id is its second id); the start sequence keeps the checkpoint under the
		// old id until PSYNC is answered, then SetRunId re-keys it; one crash or orderly stop anywhere
		// (also inside the re-keying start sequence of a later run when two faults are allowed)
		var rk []crashScenario
		L, mcr := 2, 1
		if tier == "thorough" {
			L, mcr = 3, 2
		}
		enumSeqs([]string{"w1", "s1", "t1", "p"}, L, func(seq []string) {
			for _, cfg := range crashConfigs("") {
				rk = append(rk, crashScenario{Syms: append([]string{"s0"}, seq...), Cfg: cfg, Max: 1, MaxCrashes: mcr, Stops: true, Rekey: true})
			}
		})
		runFam("rekey", rk, 0)
	}
	if (fam == "" || fam == "gc") && check == "C07" {
		// ---- family "gc": the tool's stale-checkpoint collector (cmd gcStaleCheckpoint, every
		// staleCheckpointDuration/2) passes over the target while the sender lives: between any two stream
		// events of a stream that switches databases, now or after an idle period longer than the stale
		// duration; then a crash or an orderly stop anywhere, and the real restart. What the collector may
		// remove is stale data of OTHER databases - the position a restart finds must not fall behind.
		var gcs []crashScenario
		gcAlpha, L, mcr, passes := []string{"w1", "s1", "s0"}, 4, 1, 1
		if tier == "thorough" {
			gcAlpha, L, mcr, passes = []string{"w1", "s1", "s0", "s2", "t1"}, 5, 2, 2
		}
		gcCfgs := []aofCfg{
			{Txn: true, Resume: true, Pipeline: false, Count: 2, Bytes: 1 << 20, DbMode: "id"},
			{Txn: false, Resume: true, Pipeline: false, Count: 2, Bytes: 1 << 20, DbMode: "shift"},
			{Txn: true, Resume: true, Pipeline: true, Count: 64, Bytes: 1 << 20, DbMode: "map12"},
		}
		enumSeqs(gcAlpha, L, func(seq []string) {
			sw := 0
			for _, s := range seq {
				if strings.HasPrefix(s, "s") {
					sw++
				}
			}
			if sw == 0 {
				return // one database only: nothing but the newest entry exists
			}
			for _, cfg := range gcCfgs {
				gcs = append(gcs, crashScenario{Syms: append([]string{"s0"}, seq...), Cfg: cfg, Max: 1, MaxCrashes: mcr, Stops: true, Gc: passes, NoCrash: tier != "thorough"})
			}
		})
		runFam("gc", gcs, map[bool]int{false: 0, true: 1}[tier == "thorough"])
	}
	if fam == "" || fam == "soft" {
		// ---- family "soft": in-process reconnections - after an orderly stop the SAME RedisOutput is asked for
		// its start point and sent the stream again (what RedisInput.Run does when the source link drops);
		// No crashes.
		var soft []crashScenario
		softCfgs := []aofCfg{
			{Txn: true, Resume: true, Pipeline: false, Count: 2, Bytes: 1 << 20, DbMode: "id"},
			{Txn: true, Resume: true, Pipeline: true, Count: 64, Bytes: 1 << 20, DbMode: "map12"},
			{Txn: false, Resume: true, Pipeline: true, Count: 2, Bytes: 1 << 20, DbMode: "id"},
			{Txn: false, Resume: true, Pipeline: false, Count: 2, Bytes: 1 << 20, DbMode: "map12"},
		}
		// (with resuming switched off the position lives in memory only and a process restart has none: what an
		// in-process reconnection does then is a statement about reconnections - C06 - not about restarts)
		if check == "C09" {
			// C09 also holds for in-process reconnections with resuming switched off (no position on the target:
			// the clause about the position in the block does not apply, the one about whole transactions does)
			softCfgs = append(softCfgs[:2:2], aofCfg{Txn: true, Resume: false, Pipeline: false, Count: 2, Bytes: 1 << 20, DbMode: "id"},
				aofCfg{Txn: true, Resume: false, Pipeline: true, Count: 1, Bytes: 1 << 20, DbMode: "id"})
		}
		L, mcr := 2, 1
		if tier == "thorough" {
			L, mcr = 3, 2
		}
		enumSeqs(map[string][]string{"C02": {"w1", "s1", "t2", "p"}, "C07": {"w1", "s1", "t1", "p"}, "C09": {"t2", "t3", "w1", "s1"}}[check], L, func(seq []string) {
			for _, cfg := range softCfgs {
				soft = append(soft, crashScenario{Syms: append([]string{"s0"}, seq...), Cfg: cfg, Max: 1, MaxCrashes: mcr, Stops: true, Soft: true})
			}
		})
		runFam("soft", soft, 1)
	}
	if fam == "" || fam == "stop" || fam == "kill" || fam == "big" {
		thorough := tier == "thorough"
		// ---- family "stop": a fault may also be an orderly stop (context cancelled and source closed between
		// two stream events: the sender's shutdown path runs against a healthy target), then a restart
		var stops []crashScenario
		stopAlpha := map[string][]string{"C02": {"w1", "s1", "t2", "p"}, "C07": {"w1", "s1", "t1", "p"}, "C09": {"t2", "t3", "w1", "s1"}}[check]
		stopCfgs := crashConfigs("")
		if check == "C09" {
			stopCfgs = crashConfigs("txn")
		}
		L, mcr := 2, 1
		if thorough {
			L, mcr = 3, 2
		}
		enumSeqs(stopAlpha, L, func(seq []string) {
			for _, cfg := range stopCfgs {
				stops = append(stops, crashScenario{Syms: append([]string{"s0"}, seq...), Cfg: cfg, Max: 1, MaxCrashes: mcr, Stops: true})
			}
		})
		runFam("stop", stops, 0)
		// ---- family "big": one source transaction with far more commands than any batch size (symbol tL:
		// 1100 commands, all its items arrive in one read); crash points after every target request that
		// changes the target's data, orderly stops between the stream events
		var bigs []crashScenario
		bigCfgs := []aofCfg{
			{Txn: true, Resume: true, Pipeline: false, Count: 2, Bytes: 1 << 20, DbMode: "id"},
			{Txn: true, Resume: true, Pipeline: true, Count: 64, Bytes: 1 << 20, DbMode: "id"},
		}
		if check != "C09" {
			bigCfgs = append(bigCfgs, aofCfg{Txn: false, Resume: true, Pipeline: false, Count: 64, Bytes: 1 << 20, DbMode: "id"},
				aofCfg{Txn: false, Resume: true, Pipeline: true, Count: 2, Bytes: 1 << 20, DbMode: "id"})
		}
		sizes := []int{1100}
		if thorough {
			sizes = []int{70, 300, 1100, 4100}
		}
		for _, n := range sizes {
			for _, cfg := range bigCfgs {
				for _, syms := range [][]string{{"s0", "w1", "tL", "w1"}, {"s0", "tL", "t2"}} {
					bigs = append(bigs, crashScenario{Syms: syms, Cfg: cfg, Max: 0, MaxCrashes: 1, Bulk: true, BigTxn: n, Stops: true})
				}
			}
		}
		runFam("big", bigs, 0)
		// ---- family "kill" (C02): the connections to the target are lost after any request of the replay while
		// the target stays up: the sender retries inside the run (pipelined sending) or the run ends with an
		// error and the tool is started again. Ticker-driven checkpointing only (a blind retry may repeat).
		if check == "C02" {
			var kills []crashScenario
			killCfgs := []aofCfg{
				{Txn: false, Resume: true, Pipeline: true, Count: 2, Bytes: 1 << 20, DbMode: "id"},
				{Txn: false, Resume: true, Pipeline: true, Count: 64, Bytes: 1 << 20, DbMode: "map12"},
				{Txn: false, Resume: true, Pipeline: false, Count: 2, Bytes: 1 << 20, DbMode: "id"},
			}
			kl := 3
			if thorough {
				kl = 4
			}
			enumSeqs([]string{"w1", "w2", "s1", "t2"}, kl, func(seq []string) {
				for _, cfg := range killCfgs {
					kills = append(kills, crashScenario{Syms: append([]string{"s0"}, seq...), Cfg: cfg, Max: 1, MaxCrashes: 1, Kill: true})
				}
			})
			kb := 1
			if thorough {
				kb = 2
			}
			runFam("kill", kills, kb)
		}
	}
	if budget.Expired() {
		rep.Capped("deadline reached before all scenarios were explored")
	}
}

// ---------------------------------------------------------------------------
// C02

// matchRuns maps each run's business requests onto the expected replay. It returns,
// per run, the slice [a,b) of exp it applied, or a violation.
type seg struct{ run, a, b int }

func symAt(scn crashScenario, items []sItem, itemIdx int) string {
	if itemIdx < 0 || itemIdx >= len(items) {
		return "start"
	}
	it := items[itemIdx]
	s := scn.Syms[it.Sym]
	if it.Argv != nil {
		n := it.name()
		if n == "multi" || n == "exec" || n == "select" {
			s += "/" + n
		}
	}
	return s
}

// resumeShape names the stream item that ends right at the resume offset of a run.
func resumeShape(scn crashScenario, rec *crashRec, run int) string {
	if run >= len(rec.Runs) {
		return "?"
	}
	idx := boundaryIndex(rec.Items, rec.Runs[run].Offset)
	if rec.Runs[run].FullSync {
		return "fullsync"
	}
	return "after:" + symAt(scn, rec.Items, idx-1)
}

func oracleC02(scn crashScenario, rec *crashRec) mc.Result {
	if rec.Early != nil {
		r := *rec.Early
		r.Sig = "C02:" + r.Sig
		r.Detail = map[string]interface{}{"detail": r.Detail, "history": rec.describe()}
		return r
	}
	exp := expectedReplay(rec.Items, scn.Cfg.model(-1))
	biz := businessLog(rec.Exec)
	perRun := make([][]*redisd.Req, len(rec.Runs))
	for _, r := range biz {
		k := rec.runOf(r.Seq)
		perRun[k] = append(perRun[k], r)
	}
	cls := scn.Cfg.class()
	prevEnd := 0
	expIdx := map[int]int{} // req seq -> exp index
	completed := false
	for k, rr := range rec.Runs {
		B := perRun[k]
		if rr.Completed {
			completed = true
		}
		if len(B) == 0 {
			continue
		}
		// candidate starts
		best := -1
		lo, hi := 0, prevEnd
		if scn.Cfg.Txn {
			lo = prevEnd
		}
		for a := hi; a >= lo; a-- {
			if a+len(B) > len(exp) {
				continue
			}
			ok := true
			for i := range B {
				if !sameCmd(exp[a+i], B[i]) {
					ok = false
					break
				}
			}
			if ok {
				best = a
				break
			}
		}
		if best < 0 {
			// classify: does it match anywhere at all?
			clause, kind := "commands applied after a restart are not a contiguous continuation of the source stream", "mismatch"
			for a := 0; a+len(B) <= len(exp); a++ {
				ok := true
				for i := range B {
					if !sameCmd(exp[a+i], B[i]) {
						ok = false
						break
					}
				}
				if ok {
					if a > prevEnd {
						clause, kind = "a restart skipped source writes (resumed beyond what the target had applied)", "skip"
					} else {
						clause, kind = "transactional mode re-executed writes after a restart", "repeat"
					}
					break
				}
			}
			return mc.Violation(clause, fmt.Sprintf("C02:%s:%s:%s", kind, cls, resumeShape(scn, rec, k)),
				map[string]interface{}{"run": k, "applied_in_run": reqStrings(B), "expected": expStrings(exp), "applied_before": prevEnd, "history": rec.describe()})
		}
		for i, r := range B {
			expIdx[r.Seq] = best + i
			if exp[best+i].DB != r.ExecDB {
				return mc.Violation("a command ran in a database other than the one the source intended", fmt.Sprintf("C02:wrong-db:%s:%s", cls, resumeShape(scn, rec, k)),
					map[string]interface{}{"run": k, "command": r.String(), "intended_db": exp[best+i].DB, "history": rec.describe()})
			}
		}
		if best+len(B) > prevEnd {
			prevEnd = best + len(B)
		}
	}
	if completed && prevEnd != len(exp) {
		return mc.Violation("source writes are missing on the target after the final run completed", fmt.Sprintf("C02:incomplete:%s", cls),
			map[string]interface{}{"applied": prevEnd, "expected": expStrings(exp), "history": rec.describe()})
	}
	// the stored position never covers an unapplied write
	high := 0
	cpAt := map[int]int64{}
	for _, c := range rec.Cp {
		cpAt[c.Seq] = c.Value
	}
	for _, r := range rec.Exec {
		if i, ok := expIdx[r.Seq]; ok && i+1 > high {
			high = i + 1
		}
		if v, ok := cpAt[r.Seq]; ok && r.Txn == 0 {
			if res := cpCovers(scn, rec, exp, v, high, cls); res != nil {
				return *res
			}
		}
		if r.Name() == "exec" && r.Txn != 0 {
			// transactional checkpoint: judge at EXEC, when the block's writes are in
			for _, c := range rec.Cp {
				if c.Txn == r.Txn {
					if res := cpCovers(scn, rec, exp, c.Value, high, cls); res != nil {
						return *res
					}
				}
			}
		}
	}
	// transactional mode: a stored position (and hence a resume point) must not lie strictly
	// inside a source transaction - it would cover the MULTI bracket without its effect
	if scn.Cfg.Txn {
		for _, c := range rec.Cp {
			if g, sym := insideGroup(scn, rec.Items, c.Value); g != 0 {
				return mc.Violation("the stored resume position covers a transaction bracket the target has not absorbed (it lies inside a source MULTI..EXEC)", fmt.Sprintf("C02:cp-inside-txn:%s:%s", cls, sym),
					map[string]interface{}{"position": c.Value, "write": c, "history": rec.describe()})
			}
		}
	}
	return mc.OK(rec.obs(), len(biz) > 0 && rec.crashes() > 0, rec.Events)
}

// insideGroup reports the source transaction group (and its symbol) that strictly
// contains the absolute offset off: MULTI consumed, EXEC not yet.
func insideGroup(scn crashScenario, items []sItem, off int64) (int, string) {
	rel := off - aofS0
	type span struct {
		multiEnd, execEnd int64
		sym               string
	}
	spans := map[int]*span{}
	for _, it := range items {
		if it.Group == 0 {
			continue
		}
		sp := spans[it.Group]
		if sp == nil {
			sp = &span{multiEnd: -1, sym: scn.Syms[it.Sym]}
			spans[it.Group] = sp
		}
		if it.name() == "multi" && sp.multiEnd < 0 {
			sp.multiEnd = it.End
		}
		if it.name() == "exec" {
			sp.execEnd = it.End
		}
	}
	for g, sp := range spans {
		if sp.multiEnd >= 0 && rel >= sp.multiEnd && rel < sp.execEnd {
			return g, sp.sym
		}
	}
	return 0, ""
}

func cpCovers(scn crashScenario, rec *crashRec, exp []expCmd, v int64, high int, cls string) *mc.Result {
	need := 0
	for _, e := range exp {
		if e.End+aofS0 <= v {
			need++
		}
	}
	if need > high {
		at := boundaryIndex(rec.Items, v)
		r := mc.Violation("the stored resume position covers a write the target has not executed", fmt.Sprintf("C02:cp-covers-unapplied:%s:after:%s", cls, symAt(scn, rec.Items, at-1)),
			map[string]interface{}{"position": v, "writes_needed": need, "writes_applied": high, "history": rec.describe()})
		return &r
	}
	return nil
}

// ---------------------------------------------------------------------------
// C07

func oracleC07(scn crashScenario, rec *crashRec) mc.Result {
	cls := scn.Cfg.class()
	if rec.Early != nil && strings.HasPrefix(rec.Early.Sig, "resume") {
		r := *rec.Early
		r.Sig = "C07:" + r.Sig
		r.Detail = map[string]interface{}{"detail": r.Detail, "history": rec.describe()}
		return r
	}
	if scn.Gc > 0 {
		// family "gc": a restart that finds no usable position (none, or one without a run id it knows)
		// although an earlier run stored one and only the collector touched the target in between
		for k := 1; k < len(rec.Runs); k++ {
			rr := rec.Runs[k]
			if !rr.FullSync || rr.BootErr != "" {
				continue
			}
			for _, c := range rec.Cp {
				if c.Run < k && c.Value >= aofS0 {
					return mc.Violation("a restart found no usable resume position (full resynchronisation) although one was stored before and only the tool's own stale-checkpoint collector touched the target in between", fmt.Sprintf("C07:gc-position-lost:%s", cls),
						map[string]interface{}{"stored": c.Value, "start_point": rr.StartPoint, "start_run_id": rr.StartRunId, "start_db": rr.StartDb, "run": k, "collector_passes": rec.Gcs, "history": rec.describe()})
				}
			}
		}
	}
	last := int64(-1)
	have := false
	for _, c := range rec.Cp {
		if c.Value == -1 && !have {
			continue // the initial 'none yet' marker
		}
		if boundaryIndex(rec.Items, c.Value) < 0 {
			kind := "not-a-boundary"
			if c.Value < 0 {
				kind = "undefined"
			}
			return mc.Violation("a stored resume position is not a source command boundary", fmt.Sprintf("C07:%s:%s", kind, cls),
				map[string]interface{}{"value": c.Value, "write": c, "history": rec.describe()})
		}
		if have && c.Value < last {
			return mc.Violation("the stored resume position decreased", fmt.Sprintf("C07:decrease:%s", cls),
				map[string]interface{}{"from": last, "to": c.Value, "write": c, "history": rec.describe()})
		}
		last, have = c.Value, true
		// a later restart must not start below it
		for k := c.Run + 1; k < len(rec.Runs); k++ {
			rr := rec.Runs[k]
			if rr.BootErr != "" || rr.Offset == 0 {
				continue
			}
			if rr.StartPoint < c.Value {
				return mc.Violation("a restart found a smaller (or no) resume position than the one stored before", fmt.Sprintf("C07:restart-below-stored:%s", cls),
					map[string]interface{}{"stored": c.Value, "start_point": rr.StartPoint, "run": k, "history": rec.describe()})
			}
		}
	}
	return mc.OK(rec.obs(), len(rec.Cp) > 1, rec.Events)
}

// ---------------------------------------------------------------------------
// C09

func oracleC09(scn crashScenario, rec *crashRec) mc.Result {
	cls := scn.Cfg.class()
	exp := expectedReplay(rec.Items, scn.Cfg.model(-1))
	groups := map[int][]expCmd{}
	for _, e := range exp {
		if e.Group != 0 {
			groups[e.Group] = append(groups[e.Group], e)
		}
	}
	biz := businessLog(rec.Exec)
	// walk the executed business requests; every request that belongs to a source
	// group must sit in a target transaction that contains the complete group
	type blk struct {
		reqs []*redisd.Req
		cp   []int64
	}
	blocks := map[int]*blk{}
	for _, r := range rec.Exec {
		if r.Txn == 0 {
			continue
		}
		b := blocks[r.Txn]
		if b == nil {
			b = &blk{}
			blocks[r.Txn] = b
		}
		b.reqs = append(b.reqs, r)
	}
	for _, c := range rec.Cp {
		if c.Txn != 0 && blocks[c.Txn] != nil {
			blocks[c.Txn].cp = append(blocks[c.Txn].cp, c.Value)
		}
	}
	grouped := 0
	cmdKey := func(name string, args [][]byte) string {
		var sb strings.Builder
		sb.WriteString(name)
		for _, a := range args {
			fmt.Fprintf(&sb, " %d:", len(a))
			sb.Write(a)
		}
		return sb.String()
	}
	firstOf := map[string]expCmd{} // first expected command (of a source transaction) with this text
	for _, e := range exp {
		if e.Group != 0 {
			if _, ok := firstOf[cmdKey(e.Name, e.Args)]; !ok {
				firstOf[cmdKey(e.Name, e.Args)] = e
			}
		}
	}
	judged := map[[2]int]bool{} // (target transaction, source group) pairs already found complete
	for _, r := range biz {
		// which group does this request belong to?
		ge, ok := firstOf[cmdKey(r.Name(), r.Argv[1:])]
		if !ok {
			continue
		}
		g := ge.Group
		grouped++
		shape := scn.Syms[rec.Items[ge.Item].Sym]
		if r.Txn == 0 {
			return mc.Violation("a command of a source transaction was executed outside any target transaction", fmt.Sprintf("C09:outside-txn:%s:%s", cls, shape),
				map[string]interface{}{"command": r.String(), "run": rec.runOf(r.Seq), "history": rec.describe()})
		}
		if judged[[2]int{r.Txn, g}] {
			continue
		}
		judged[[2]int{r.Txn, g}] = true
		b := blocks[r.Txn]
		inBlock := map[string]bool{}
		for _, br := range b.reqs {
			inBlock[cmdKey(br.Name(), br.Argv[1:])] = true
		}
		for _, e := range groups[g] {
			if !inBlock[cmdKey(e.Name, e.Args)] {
				return mc.Violation("a source transaction was split: the target transaction holds only part of it", fmt.Sprintf("C09:split:%s:%s", cls, shape),
					map[string]interface{}{"missing": e.String(), "target_txn": reqStrings(b.reqs), "run": rec.runOf(r.Seq), "history": rec.describe()})
			}
		}
		// the block's resume position must cover the group (>= end of its EXEC item)
		var groupEnd int64
		for _, it := range rec.Items {
			if it.Group == g {
				groupEnd = it.End
			}
		}
		ok = !scn.Cfg.Resume // with resuming switched off the tool stores no position on the target
		for _, v := range b.cp {
			if v >= groupEnd+aofS0 {
				ok = true
			}
		}
		if !ok {
			return mc.Violation("the target transaction does not carry a resume position covering the source transaction", fmt.Sprintf("C09:cp-not-covering:%s:%s", cls, shape),
				map[string]interface{}{"group_end": groupEnd + aofS0, "positions_in_block": b.cp, "target_txn": reqStrings(b.reqs), "history": rec.describe()})
		}
	}
	return mc.OK(rec.obs(), grouped > 0, rec.Events)
}

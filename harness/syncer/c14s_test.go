package syncer

import (
	"fmt"
	"os"
	"strconv"
	"strings"
	"testing"
	"time"

	"github.com/mgtv-tech/redis-GunYu/verifshim/mc"
	"github.com/mgtv-tech/redis-GunYu/verifshim/redisd"
	"github.com/mgtv-tech/redis-GunYu/verifshim/vtime"
)

// ---------------------------------------------------------------------------
// C14, family 'lostreply': the target stays up, the link loses its connections in the middle of a
// run, and the replay is started again INSIDE the process - what RedisInput.Run does after a
// non-fatal error of the output: the SAME RedisOutput is asked for its start point (StartPoint(ids)),
// told the run id (SetRunId) and sent the stream from the returned offset (Send). Everything the
// output keeps in memory between two starts (bisyncSeq / bisyncOffset, the cached "no recovery
// record yet" answer, lane and coordinator state) takes part in the next start, which no restart in
// a new process can show.
//
// Fault = every connection dropped right after the target processed request k of the run, for every
// k of the run's request sequence (redisd Plan.KillAt through lostCtl below): position 1 of a burst
// drops the connections in front of its first request (request lost), position j+1 right after the
// j-th request took effect with its reply discarded (request executed, reply lost - for an EXEC:
// the unit, its marker and its recovery record are on the target, the tool has not seen the reply),
// the last request of the burst included.
// Faults are also placed inside the in-process start sequence itself (a start that fails on the lost
// connection is followed by another in-process start).
//
// Dimensions: unit sequence x mode configuration x what the first start finds on the target
// (Pre: "" nothing - full sync of an empty snapshot; "root" - only the root checkpoint, the state
// after a full sync and before the first incremental unit; "records" - root checkpoint and recovery
// records of a previous life that replayed the stream up to symbol StopAt) x fault position(s) x
// frontier-flush timing (deviation-bounded, as in the other standalone plans). After the stream has
// completed the tool is stopped and started in a NEW process with no traffic: that start judges what
// the target really holds against what the in-process starts answered.
//
// The oracle is C14's (oracleC14) over the whole history, every in-process start being a start like
// any other: repeat:<mode> in sync mode (resume point exactly the last committed unit, no unit
// committed twice), skip, resume-not-boundary, resume-regressed, frontier-passes-gap, not-atomic,
// missing. Signatures carry the suffix ":lostreply".

// lostCtl places the connection losses. Like crashCtl{kill} it measures the burst of b requests an event
// causes in the parent execution and registers a free choice; unlike it the choice has b+2 alternatives:
// 0 = no loss here, j = 1..b+1 = every connection dropped once j-1 requests of the burst were processed.
// j = 1: in front of the first request (it is lost with the connection); j = b+1: right after the LAST
// request of the burst took effect, its reply discarded - the position of an EXEC whose reply the tool is
// waiting for (a link that waits for each reply before it goes on never sends another request after it,
// so this position is not "the first of the next burst": there the reply has been read already).
type lostCtl struct {
	srv   *redisd.Server
	ch    *mc.Chooser
	left  int
	marks *[]string
}

func (x *lostCtl) event(tag string, do func()) bool {
	srv := x.srv
	if x.marks != nil {
		defer func() { *x.marks = append(*x.marks, fmt.Sprintf("%s->%d", tag, srv.NumReqs())) }()
	}
	seq0 := srv.NumReqs()
	if x.left <= 0 {
		do()
		return false
	}
	if j, n := x.ch.Peek(tag); j > 0 {
		k0 := srv.Killed
		srv.PlanRef().KillAt = seq0 + j - 1
		do()
		x.ch.ChooseCost(tag, make([]int, n))
		if srv.Killed == k0 {
			panic(fmt.Sprintf("connection-loss point %s=%d/%d not reached (burst shorter than recorded)", tag, j, n))
		}
		x.left--
		return true
	}
	do()
	b := srv.NumReqs() - seq0
	costs := make([]int, 1)
	if b > 0 {
		costs = make([]int, b+2)
		if seq0 == 0 {
			costs[1] = 1 << 20 // KillAt 0 means never
		}
	}
	x.ch.ChooseCost(tag, costs)
	return false
}

func c14sExec(t *testing.T, scn c14Scenario, ch *mc.Chooser) (rec c14Rec, machinery string) {
	msg := bubble(t, func() {
		biEnvReset()
		srv := redisd.New(c14Target)
		env := &aofEnv{t: t, srv: srv}
		items := buildStream(scn.Syms)
		rec.Items = items
		ctl := &lostCtl{srv: srv, ch: ch, left: scn.Lost, marks: &rec.Marks}
		rc := standaloneCfg(c14Target)
		frontierMode := scn.Cfg.Mode != "sync"
		ids := c14IDs(0, 0)
		nodeOf := func(string) *redisd.Server { return srv }
		fail := func(clause, sig string, detail map[string]interface{}) {
			v := mc.Violation(clause, sig, detail)
			rec.Early = &v
		}
		drive := func() {
			// ---- the previous life (a process that has ended before the judged history begins)
			if scn.Pre != "" {
				rr := c14Run{FirstSeq: srv.NumReqs() + 1}
				boot := biBootIDs(scn.Cfg, rc, "src", ids, aofS0, nodeOf, nil)
				rr.BootEnd = srv.NumReqs()
				if boot.err != nil {
					rr.BootErr = boot.err.Error()
					rec.Runs = append(rec.Runs, rr)
					fail("start-up failed on a healthy target", "C14:boot-error:"+scn.Cfg.Mode, map[string]interface{}{"error": rr.BootErr, "run": "previous life"})
					return
				}
				rr.Offset, rr.SpOffset, rr.FullSync = boot.offset, boot.sp.Offset, boot.fullSync
				run := biStart(boot.ro, ids[0], boot.offset)
				if scn.Pre == "records" {
					for pos := 0; pos < len(items) && items[pos].Sym < scn.StopAt && !run.ended; pos++ {
						env.events++
						run.feed(items[pos].Raw)
					}
					// the frontier of what was replayed is stored (default) or only the journal exists
					if frontierMode && !run.ended && ch.Choose("pre.flush", 2) == 0 {
						vtime.Fire("frontier")
						run.wait()
					}
				}
				early := run.ended
				run.kill()
				if run.err != nil {
					rr.SendErr = run.err.Error()
				}
				rec.Runs = append(rec.Runs, rr)
				if early {
					fail("replay stopped although the target is healthy", "C14:send-returned:"+scn.Cfg.Mode, map[string]interface{}{"error": rr.SendErr, "run": "previous life"})
					return
				}
			}
			// ---- the judged process: starts, connection losses, in-process restarts; then new processes
			var prevRo *RedisOutput // the output of the run that ended on a lost connection
			streamDone := false
			idleLeft := scn.Idle
			maxRuns := 2*scn.Lost + scn.Idle + 3
			for runNo := 0; runNo < maxRuns; runNo++ {
				rr := c14Run{FirstSeq: srv.NumReqs() + 1, Idle: streamDone}
				reuse := prevRo
				prevRo = nil
				var boot biBootResult
				bootDo := func() { boot = biBootIDs(scn.Cfg, rc, "src", ids, aofS0, nodeOf, reuse) }
				bootHit := false
				if reuse != nil {
					// the in-process start sequence talks to the target too: it can lose its connection
					bootHit = ctl.event(fmt.Sprintf("crash.boot%d", runNo), bootDo)
				} else {
					bootDo()
				}
				rr.BootEnd = srv.NumReqs()
				if boot.err != nil {
					rr.BootErr = boot.err.Error()
					rr.Lost = bootHit
					rec.Runs = append(rec.Runs, rr)
					if !bootHit {
						fail("start-up failed on a healthy target", "C14:boot-error:"+scn.Cfg.Mode, map[string]interface{}{"error": rr.BootErr, "run": runNo, "in_process": reuse != nil})
						return
					}
					// the start failed on the lost connection: RedisInput.Run tries again, same output
					prevRo = reuse
					continue
				}
				rr.Offset, rr.SpOffset, rr.FullSync = boot.offset, boot.sp.Offset, boot.fullSync
				startIdx := boundaryIndex(items, boot.offset)
				if startIdx < 0 {
					rec.Runs = append(rec.Runs, rr)
					fail("resume offset is not the end of a replay unit / stream item", "C14:resume-not-boundary:"+scn.Cfg.Mode, map[string]interface{}{"offset": boot.offset, "run": runNo, "in_process": reuse != nil})
					return
				}
				run := biStart(boot.ro, ids[0], boot.offset)
				pos := startIdx
				step := 0
				lost := false
				doEvent := func(f func()) {
					step++
					env.events++
					if ctl.event(fmt.Sprintf("crash.r%d.e%d", runNo, step), f) {
						lost = true
						// the connections are gone, the target is up: let the link's retry sleeps elapse
						time.Sleep(5 * time.Second)
						aofWait()
						run.poll()
					}
				}
				flushChoice := func(tag string) {
					switch ch.Choose(tag, 3) {
					case 1:
						doEvent(func() { vtime.Fire("frontier"); run.wait() })
					case 2:
						doEvent(func() { time.Sleep(150 * time.Millisecond); run.wait() })
					}
				}
				for pos < len(items) && !run.ended {
					if frontierMode {
						flushChoice(fmt.Sprintf("r%d.pre%d", runNo, pos))
						if run.ended {
							break
						}
					}
					it := items[pos]
					doEvent(func() { run.feed(it.Raw) })
					pos++
				}
				if !run.ended && frontierMode {
					flushChoice(fmt.Sprintf("r%d.post", runNo))
				}
				if !run.ended && frontierMode {
					// closing step of every schedule: one frontier tick lets the coordinator persist what it has
					doEvent(func() { vtime.Fire("frontier"); run.wait() })
				}
				early := run.ended
				run.kill()
				rr.Lost = lost
				if run.err != nil {
					rr.SendErr = run.err.Error()
				}
				rr.Completed = !early && pos == len(items)
				rec.Runs = append(rec.Runs, rr)
				if early {
					if !lost {
						fail("replay stopped although the target is healthy", "C14:send-returned:"+scn.Cfg.Mode, map[string]interface{}{"error": rr.SendErr, "run": runNo})
						return
					}
					// Send returned an error after the connection loss: in-process restart
					prevRo = boot.ro
					continue
				}
				if rr.Completed {
					streamDone = true
					if idleLeft == 0 {
						break
					}
					idleLeft--
				}
			}
		}
		drive()
		rec.Exec = srv.ExecLog()
		rec.Events = env.events
		if len(srv.MachineryErrors) > 0 {
			machinery = "double: " + strings.Join(srv.MachineryErrors, "; ")
		}
	})
	if msg != "" {
		machinery = "bubble: " + msg
	}
	return
}

// c14LostReplyFamily enumerates the scenarios of family 'lostreply'.
func c14LostReplyFamily(t *testing.T, rep *mc.Reporter, tier string, shard, nshards int, idx *int, budget *mc.Budget,
	exec func(scn c14Scenario, ch *mc.Chooser) mc.Result, only bool) {
	allCfg := []biCfg{{"sync", 2}, {"pipeline", 1}, {"pipeline", 2}, {"parallel", 2}}
	type plan struct {
		alpha   []string
		minL, L int
		lost    int
		bound   int
	}
	plans := []plan{
		{[]string{"w1", "t2"}, 1, 2, 1, 1},
	}
	share := 45 * time.Second
	if tier == "thorough" {
		plans = []plan{
			// two losses (the second one also inside the in-process start sequence that follows the first)
			{[]string{"w1", "t2"}, 1, 3, 2, 0},
			// one loss: longer sequences with fillers; frontier-flush timing
			{[]string{"w1", "t2", "p"}, 1, 3, 1, 0},
			{[]string{"w1", "t2", "p"}, 1, 2, 1, 1},
		}
		share = 0
	}
	// the family has its own share of the deadline (quick: 45 s, thorough: 15%); what it does not
	// finish is reported as capped
	if !budget.Deadline.IsZero() && !only { // only: development aid (VERIF_FAMILY=lostreply), the whole deadline
		if share == 0 {
			share = time.Until(budget.Deadline) * 15 / 100
		}
		if d := time.Now().Add(share); d.Before(budget.Deadline) {
			fb := &mc.Budget{Deadline: d}
			budget = fb
		}
		fb := budget
		defer func() {
			if fb.Expired() {
				rep.Capped("family 'lostreply': its share of the deadline is used up")
			}
		}()
	}
	if k, err := strconv.Atoi(os.Getenv("VERIF_LOSTREPLY_PLAN")); err == nil && k >= 0 && k < len(plans) {
		plans = plans[k : k+1] // development aid: one plan only
	}
	type pre struct {
		kind   string
		stopAt int
	}
	for _, pl := range plans {
		pl := pl
		enumSeqs(pl.alpha, pl.L, func(seq []string) {
			if len(seq) < pl.minL {
				return
			}
			pres := []pre{{"", 0}, {"root", 0}}
			// a previous life that replayed the stream up to (not including) symbol number k
			for k := 2; k <= len(seq); k++ {
				pres = append(pres, pre{"records", k})
			}
			for _, cfg := range allCfg {
				for _, p := range pres {
					*idx++
					if *idx%nshards != shard || budget.Expired() {
						continue
					}
					scn := c14Scenario{Syms: append([]string{"s0"}, seq...), Cfg: cfg, Idle: 1, Lost: pl.lost, Pre: p.kind, StopAt: p.stopAt}
					mc.RunScenario(rep, scn, pl.bound, budget, func(ch *mc.Chooser) mc.Result { return exec(scn, ch) })
				}
			}
		})
	}
}

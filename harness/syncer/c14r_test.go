package syncer

import (
	"context"
	"fmt"
	"os"
	"strconv"
	"testing"
	"time"

	"github.com/mgtv-tech/redis-GunYu/config"
	"github.com/mgtv-tech/redis-GunYu/pkg/log"
	"github.com/mgtv-tech/redis-GunYu/pkg/redis/checkpoint"
	"github.com/mgtv-tech/redis-GunYu/pkg/redis/client"
	usync "github.com/mgtv-tech/redis-GunYu/pkg/sync"
	"github.com/mgtv-tech/redis-GunYu/verifshim/mc"
	"github.com/mgtv-tech/redis-GunYu/verifshim/redisd"
)

// ---------------------------------------------------------------------------
// C14, family 'failover': the source's replication id changes between two starts of one history
// (fail-over: the promoted replica reports a new id and the previous one as its second id, offsets
// go on). The root checkpoint and the recovery records do not change their id together - the root
// checkpoint is re-keyed by SetRunId as soon as the source granted the partial resynchronisation,
// a latest record when a unit of its slot commits again, the stored frontier at the next flush, a
// journal record never - so every start after the change has to put records of both ids together.
//
// Dimensions: start number from which the new id is reported (Rekey) x what follows the change
// (idle restarts only / the rest of the stream: StopAt, or a crash earlier in the stream) x kind of
// restart after a clean stop (new process / the same RedisOutput: SoftStops) x crash points (every
// request of the history, i.e. also the requests of (*syncer).updateCheckpoint, of start-up
// recovery and of SetRunId's re-key) x mode configuration x unit sequence.
// The oracle is C14's (oracleC14) over the whole history: one unit sequence, one offset space.

// c14IDs: the ids the source reports at start number runNo.
func c14IDs(rekey, runNo int) []string {
	if rekey > 0 && runNo >= rekey {
		return []string{rekeyID, aofRunID}
	}
	return []string{aofRunID, biRunID2}
}

// biBootIDs is the start sequence of a bidirectional link for a source that reports ids: what
// syncer.newOutput does - resolve the namespace, (*syncer).updateCheckpoint (the checkpoint keeps the
// id it is stored under, retry wrapper included), NewRedisOutput with that id - and then what
// RedisInput.syncMeta does: StartPoint(ids), SetRunId(ids[0]) once the source has answered PSYNC, a
// full sync of an (empty) snapshot when there is no position. With reuse != nil the start is the
// in-process one (RedisInput.Run loop): the same output, StartPoint and SetRunId only.
func biBootIDs(c biCfg, rc config.RedisConfig, inputName string, ids []string, s0 int64, nodeOf func(key string) *redisd.Server, reuse *RedisOutput) (res biBootResult) {
	bootRDB, cfgHook := biBootRDB, biBootCfgHook
	biBootRDB, biBootCfgHook = nil, nil
	if cfgHook == nil {
		cfgHook = biBootCfgHookAll
	}
	ro := reuse
	if ro == nil {
		if srv := nodeOf(config.CheckpointKeyHashKey); srv != nil {
			// a namespace name already registered for the id of the first start (see biBootWith)
			if v := srv.Get(0, config.CheckpointKeyHashKey); v == nil {
				srv.Put(0, config.CheckpointKeyHashKey, &redisd.Value{T: 'h', Hash: map[string][]byte{ids[0]: []byte(biFixedCpName + inputName)}, HOrder: []string{ids[0]}})
				if rc.IsCluster() {
					name := biFixedCpName + inputName
					nodeOf(name).Put(0, name, &redisd.Value{T: 'h', Hash: map[string][]byte{"bisync_mode": []byte(c.Mode), "bisync_mode_mtime": []byte("1")}, HOrder: []string{"bisync_mode", "bisync_mode_mtime"}})
				}
			}
		}
		sy := &syncer{cfg: SyncerConfig{Output: rc}, logger: log.WithLogger("[verif] ")}
		cli, err := client.NewRedis(rc)
		if err != nil {
			res.err = err
			return
		}
		cpName, err := sy.resolveBisyncCheckpointNameWithClient(cli, ids, checkpoint.BisyncModeFromReplayMode(c.replayMode()), bisyncRecoverySlotsForConfig(rc))
		cli.Close()
		if err != nil {
			res.err = err
			return
		}
		cpRunID, err := sy.updateCheckpoint(usync.NewWaitCloser(nil), cpName, ids)
		if err != nil {
			res.err = err
			return
		}
		res.cpName = cpName
		ocfg := biOutputConfig(c, rc, inputName, cpRunID, cpName)
		if rc.IsCluster() {
			ocfg.Parallelism = 2
		}
		if cfgHook != nil {
			cfgHook(&ocfg)
		}
		ro = NewRedisOutput(ocfg)
	} else {
		res.cpName = ro.cfg.CheckpointName
	}
	res.ro = ro
	sp, err := ro.StartPoint(context.Background(), ids)
	if err != nil {
		res.err = err
		return
	}
	res.sp = sp
	res.offset = sp.Offset
	known := false
	for _, id := range ids {
		known = known || id == sp.RunId
	}
	full := sp.IsInitial() || sp.Offset < 0 || !known
	// the source answered PSYNC: input.syncMeta -> output.SetRunId (ResetRunId = SetRunId for a
	// bidirectional output), before any data flows
	if res.err = ro.SetRunId(context.Background(), ids[0]); res.err != nil {
		return
	}
	if full {
		res.fullSync = true
		g := newGate()
		rdb := emptyRDB()
		if bootRDB != nil {
			rdb = bootRDB
		}
		g.Release(rdb)
		g.Close(nil)
		rd := newHReader(g, ids[0], s0, int64(len(rdb)), false)
		if err = ro.Send(context.Background(), rd); err != nil {
			res.err = fmt.Errorf("full sync of snapshot (%d bytes): %w", len(rdb), err)
			return
		}
		res.offset = s0
	}
	return
}

// c14FailoverFamily enumerates the scenarios of family 'failover'.
func c14FailoverFamily(t *testing.T, rep *mc.Reporter, tier string, shard, nshards int, idx *int, budget, cbudget *mc.Budget,
	exec func(scn c14Scenario, ch *mc.Chooser) mc.Result, clusterOnly bool) {
	allCfg := []biCfg{{"sync", 2}, {"pipeline", 1}, {"pipeline", 2}, {"parallel", 2}}
	type plan struct {
		alpha   []string
		minL, L int
		rekeys  []int
		bound   int
		crashes int
		idle    int
		soft    bool
		stops   bool // id change at start 1: also the variants with the first run stopped in front of each later symbol (traffic after the change)
	}
	plans := []plan{
		// crash points of the whole history (incl. updateCheckpoint, recovery, the re-key), up to three idle restarts
		{[]string{"w1", "t2"}, 1, 2, []int{1, 2}, 0, 1, 3, false, true},
		// the same histories without crashes, every restart after a clean stop in-process
		{[]string{"w1", "t2"}, 1, 2, []int{1, 2}, 1, 0, 3, true, true},
	}
	if tier == "thorough" {
		plans = []plan{
			{[]string{"w1", "t2", "p"}, 1, 3, []int{1, 2}, 0, 1, 3, false, true},
			{[]string{"w1", "t2", "p"}, 1, 3, []int{1, 2}, 1, 0, 3, true, true},
			{[]string{"w1", "t2"}, 1, 2, []int{1, 2}, 0, 1, 3, true, true},
			{[]string{"w1", "t2"}, 1, 2, []int{1, 2, 3}, 1, 1, 3, false, false},
			{[]string{"w1", "t2"}, 2, 2, []int{1}, 0, 2, 2, false, false},
		}
		// the family gets at most 30% of the time budget; what it does not finish is reported as capped
		if !budget.Deadline.IsZero() {
			fb := &mc.Budget{Deadline: time.Now().Add(time.Until(budget.Deadline) * 3 / 10)}
			budget, cbudget = fb, fb
			defer func() {
				if fb.Expired() {
					rep.Capped("family 'failover': its share of the deadline is used up")
				}
			}()
		}
	}
	if clusterOnly { // development aid (VERIF_FAMILY=failoverc)
		plans = nil
	}
	if k, err := strconv.Atoi(os.Getenv("VERIF_FAILOVER_PLAN")); err == nil && k >= 0 && k < len(plans) {
		plans = plans[k : k+1] // development aid: one plan only
	}
	for _, pl := range plans {
		pl := pl
		enumSeqs(pl.alpha, pl.L, func(seq []string) {
			if len(seq) < pl.minL {
				return
			}
			for _, cfg := range allCfg {
				for _, rk := range pl.rekeys {
					stopAts := []int{0}
					if pl.stops && rk == 1 {
						// (with a later change the start after the stop replays the rest under the old id)
						for k := 2; k <= len(seq); k++ {
							stopAts = append(stopAts, k)
						}
					}
					for _, st := range stopAts {
						*idx++
						if *idx%nshards != shard || budget.Expired() {
							continue
						}
						idle := pl.idle
						if idle < rk+1 {
							idle = rk + 1 // at least one start after the start that re-keys
						}
						scn := c14Scenario{Syms: append([]string{"s0"}, seq...), Cfg: cfg, MaxCrashes: pl.crashes, Idle: idle, Rekey: rk, SoftStops: pl.soft, StopAt: st}
						mc.RunScenario(rep, scn, pl.bound, budget, func(ch *mc.Chooser) mc.Result { return exec(scn, ch) })
					}
				}
			}
		})
	}
	// ---- cluster variant: records of the old id spread over the slots of two lanes, the id changes,
	// idle restarts (each start scans the 16384 slots for records of either id)
	type cplan struct {
		lanes   []int
		mode    string
		rekey   int
		bound   int
		crashes int
		idle    int
	}
	cplans := []cplan{
		{[]int{1, 0}, "sync", 1, 0, 0, 2},
		{[]int{1, 0}, "parallel", 1, 0, 0, 2},
	}
	if tier == "thorough" {
		cplans = []cplan{
			{[]int{1, 0}, "sync", 1, 0, 1, 2}, {[]int{1, 0}, "parallel", 1, 1, 1, 2},
			{[]int{1, 0, 1}, "sync", 2, 0, 1, 3}, {[]int{0, 1, 0}, "parallel", 2, 1, 1, 3},
		}
	}
	for _, cp := range cplans {
		if cbudget.Expired() {
			rep.Capped("cluster scenarios of family 'failover': their share of the deadline is used up")
			break
		}
		cscn := c14cScenario{Lanes: cp.lanes, Cfg: biCfg{cp.mode, 2}, MaxCrashes: cp.crashes, Idle: cp.idle, Cluster: true, Rekey: cp.rekey}
		view := c14Scenario{Cfg: biCfg{"cluster-" + cp.mode, 2}, MaxCrashes: cp.crashes, Idle: cp.idle, Rekey: cp.rekey}
		for _, l := range cp.lanes {
			view.Syms = append(view.Syms, fmt.Sprintf("lane%d", l))
		}
		mc.RunScenarioSplit(rep, cscn, cp.bound, cbudget, shard, nshards, func(ch *mc.Chooser) mc.Result {
			rec, mach := c14cExec(t, cscn, ch)
			if mach != "" {
				return mc.Result{Verdict: "machinery", Clause: mach}
			}
			return oracleC14(view, &rec)
		})
	}
}

package syncer

import (
	"bytes"
	"fmt"
	"strconv"
	"strings"

	"github.com/mgtv-tech/redis-GunYu/verifshim/redisd"
)

// ---------------------------------------------------------------------------
// Replication-stream alphabet shared by C01/C02/C07/C09.

// sItem is one stream item: a command (or a bare heartbeat) with its end offset
// relative to the start of the stream.
type sItem struct {
	Raw   []byte
	Argv  [][]byte // nil for a heartbeat
	End   int64
	Sym   int // index of the symbol it came from
	Group int // source transaction group (0 = none); MULTI/EXEC carry it too
}

func (it sItem) name() string {
	if len(it.Argv) == 0 {
		return ""
	}
	return strings.ToLower(string(it.Argv[0]))
}

// bigTxnCmds is the number of commands in the transaction of symbol "tL" (scenarios set it).
var bigTxnCmds = 1100

const (
	fltPrefix    = "flt:"
	blackDB      = 5
	blackCmd     = "incr"
	binaryMarker = "\r\n\x00$3\r\n*1\r\n"
)

// symbolCommands expands a symbol at stream position i into commands. Values carry
// the position so that drops, duplicates and reorderings are all visible.
func symbolCommands(sym string, i int) [][]string {
	p := strconv.Itoa(i)
	switch sym {
	case "w1":
		return [][]string{{"SET", "k1", "v" + p}}
	case "w2":
		return [][]string{{"SET", "k2", "b" + p + binaryMarker}}
	case "we":
		return [][]string{{"HSET", "h1", "", "e" + p}}
	case "pr":
		// the tool's own sync-delay probe (input.syncDelayTestKey): SET <key> <host>_<nanoseconds>
		return [][]string{{"SET", probeKey, "host" + p + "_1700000000" + p + "00000000"}}
	case "wx":
		return [][]string{{"SET", "k1", "x" + p, "EX", "100"}}
	case "wL":
		// a value far larger than any small-argument shortcut, still inside one read buffer
		return [][]string{{"SET", "k1", "L" + p + ":" + strings.Repeat("0123456789abcdef", 1250)}}
	case "wM":
		// one argument just above 1 MiB (above every read-chunk / preallocation constant of the decoders)
		return [][]string{{"SET", "k1", "M" + p + ":" + strings.Repeat("0123456789abcdef", 65536+1)}}
	case "wH":
		// a value larger than the 64 KiB replication read buffer
		return [][]string{{"SET", "k2", "H" + p + ":" + strings.Repeat("fedcba9876543210", 4500)}}
	case "tL":
		// a source transaction with far more commands than any batch size or per-transaction constant
		cmds := [][]string{{"MULTI"}}
		for i := 0; i < bigTxnCmds; i++ {
			cmds = append(cmds, []string{"SET", "k" + strconv.Itoa(1+i%2), "B" + p + "_" + strconv.Itoa(i)})
		}
		return append(cmds, []string{"EXEC"})
	case "d":
		return [][]string{{"DEL", "k1", "k2"}}
	case "df":
		return [][]string{{"DEL", "k1", fltPrefix + "k", "k2"}}
	case "mf":
		return [][]string{{"MSET", "k1", "m" + p, fltPrefix + "k", "zz", "k2", "n" + p}}
	case "s0":
		return [][]string{{"SELECT", "0"}}
	case "s1":
		return [][]string{{"SELECT", "1"}}
	case "s2":
		return [][]string{{"select", "2"}}
	case "sb":
		return [][]string{{"SELECT", strconv.Itoa(blackDB)}}
	case "t1":
		return [][]string{{"MULTI"}, {"SET", "k1", "t" + p}, {"EXEC"}}
	case "t2":
		return [][]string{{"MULTI"}, {"SET", "k1", "t" + p + "a"}, {"SET", "k2", "t" + p + "b"}, {"EXEC"}}
	case "t3":
		return [][]string{{"multi"}, {"SET", "k1", "u" + p + "a"}, {"LPUSH", "l1", "u" + p + "b"}, {"SET", "k2", "u" + p + "c"}, {"exec"}}
	case "ts":
		return [][]string{{"MULTI"}, {"SELECT", "1"}, {"SET", "k1", "s" + p}, {"EXEC"}}
	case "tb":
		// a source transaction that switches INTO the black-listed database: what Redis propagates for a
		// MULTI/script writing in an allowed database first and in the black-listed one last (the EXEC
		// travels while the black-listed database is selected; the stream stays there afterwards)
		return [][]string{{"MULTI"}, {"SET", "k1", "c" + p + "a"}, {"SELECT", strconv.Itoa(blackDB)}, {"SET", "k2", "c" + p + "b"}, {"EXEC"}}
	case "tb2":
		// a source transaction that visits the black-listed database and leaves it again before its EXEC
		return [][]string{{"MULTI"}, {"SELECT", strconv.Itoa(blackDB)}, {"SET", "k2", "c" + p + "c"}, {"SELECT", "0"}, {"SET", "k1", "c" + p + "d"}, {"EXEC"}}
	case "to":
		// a source transaction that switches to database 0 in its middle: after "sb"/"tb" its MULTI travels
		// while the black-listed database is selected and its EXEC does not
		return [][]string{{"MULTI"}, {"SET", "k2", "o" + p + "a"}, {"SELECT", "0"}, {"SET", "k1", "o" + p + "b"}, {"EXEC"}}
	case "wn":
		// a command a healthy target answers with a nil reply (the list does not exist)
		return [][]string{{"RPOPLPUSH", "l9", "l8:" + p}}
	case "tn":
		// a nil reply nested in an EXEC array
		return [][]string{{"MULTI"}, {"RPOPLPUSH", "l9", "l8:" + p}, {"SET", "k1", "q" + p}, {"EXEC"}}
	case "tf":
		// a source transaction all of whose members are removed by the key filter
		return [][]string{{"MULTI"}, {"SET", fltPrefix + "k", "v" + p}, {"EXEC"}}
	case "tp":
		// a source transaction of which the key filter removes one member
		return [][]string{{"MULTI"}, {"SET", fltPrefix + "k", "v" + p}, {"SET", "k1", "r" + p}, {"EXEC"}}
	case "p":
		return [][]string{{"PING"}}
	case "g":
		return [][]string{{"REPLCONF", "GETACK", "*"}}
	case "b":
		return [][]string{{"FLUSHALL"}}
	case "bc":
		return [][]string{{"INCR", "ctr"}}
	case "f":
		return [][]string{{"SET", fltPrefix + "k", "v" + p}}
	case "h":
		return [][]string{{"PUBLISH", "__sentinel__:hello", "x"}}
	case "n":
		return [][]string{nil}
	}
	panic("unknown symbol " + sym)
}

func buildStream(syms []string) []sItem {
	var items []sItem
	var off int64
	group := 0
	for si, sym := range syms {
		cmds := symbolCommands(sym, si)
		for _, c := range cmds {
			var it sItem
			it.Sym = si
			if c == nil {
				it.Raw = []byte("\n")
			} else {
				it.Raw = redisd.EncodeCommandS(c...)
				for _, a := range c {
					it.Argv = append(it.Argv, []byte(a))
				}
			}
			n := it.name()
			if n == "multi" {
				group++
			}
			if len(cmds) > 1 {
				it.Group = group
			}
			off += int64(len(it.Raw))
			it.End = off
			items = append(items, it)
		}
	}
	return items
}

// ---------------------------------------------------------------------------
// Expected-replay model (the reference): which commands must reach the target, in
// which database, in which order.

type modelCfg struct {
	TargetDb int         // -1 = none
	DbMap    map[int]int // source db -> target db
	StartDB  int         // source db in force at the start of this (resumed) stream; -1 unknown
}

type expCmd struct {
	DB    int
	Name  string
	Args  [][]byte
	Item  int   // index of the stream item
	Group int   // source transaction group
	End   int64 // end offset of the stream item
}

func (e expCmd) String() string {
	var sb strings.Builder
	fmt.Fprintf(&sb, "db%d %s", e.DB, e.Name)
	for _, a := range e.Args {
		fmt.Fprintf(&sb, " %q", a)
	}
	return sb.String()
}

func mapDB(m modelCfg, src int) int {
	if m.TargetDb != -1 {
		return m.TargetDb
	}
	if t, ok := m.DbMap[src]; ok {
		return t
	}
	return src
}

var noRouteCmds = map[string]bool{}

func init() {
	for _, c := range []string{"CLUSTER", "ASKING", "READONLY", "READWRITE", "AUTH", "CLIENT", "QUIT", "RESET", "ECHO",
		"COMMAND", "FLUSHALL", "FLUSHDB", "LATENCY", "MODULE", "PSYNC", "REPLCONF", "SAVE", "SHUTDOWN", "SLAVEOF",
		"SLOWLOG", "SWAPDB", "SYNC", "BGSAVE", "BGREWRITEAOF", "OPINFO", "LASTSAVE", "MONITOR", "ROLE", "DEBUG",
		"RESTORE-ASKING", "MIGRATE", "WAIT", "PFSELFTEST", "PFDEBUG", blackCmd} {
		noRouteCmds[strings.ToLower(c)] = true
	}
}

func keyRejected(k []byte) bool {
	return bytes.HasPrefix(k, []byte(fltPrefix)) || bytes.HasPrefix(k, []byte("redis-gunyu-checkpoint")) || bytes.HasPrefix(k, []byte("/redis-gunyu"))
}

// expectedReplay evaluates the statement of C01 literally on a stream.
func expectedReplay(items []sItem, m modelCfg) []expCmd {
	var out []expCmd
	src := m.StartDB
	bypass := false
	for idx, it := range items {
		if it.Argv == nil {
			continue
		}
		name := it.name()
		args := it.Argv[1:]
		switch name {
		case "ping":
			continue
		case "select":
			n, _ := strconv.Atoi(string(args[0]))
			src = n
			bypass = n == blackDB
			continue
		case "multi", "exec":
			continue
		}
		if bypass || noRouteCmds[name] {
			continue
		}
		if name == "publish" && strings.EqualFold(string(args[0]), "__sentinel__:hello") {
			continue
		}
		// key filter
		switch name {
		case "del", "unlink":
			var kept [][]byte
			for _, k := range args {
				if !keyRejected(k) {
					kept = append(kept, k)
				}
			}
			if len(kept) == 0 {
				continue
			}
			args = kept
		case "mset":
			var kept [][]byte
			for i := 0; i+1 < len(args); i += 2 {
				if !keyRejected(args[i]) {
					kept = append(kept, args[i], args[i+1])
				}
			}
			if len(kept) == 0 {
				continue
			}
			args = kept
		default:
			if len(args) > 0 && keyRejected(args[0]) {
				continue
			}
		}
		out = append(out, expCmd{DB: mapDB(m, src), Name: name, Args: args, Item: idx, Group: it.Group, End: it.End})
	}
	return out
}

// ---------------------------------------------------------------------------
// Target-side view.

func isBookkeepingKey(k []byte) bool {
	return bytes.HasPrefix(k, []byte("redis-gunyu-checkpoint")) || bytes.HasPrefix(k, []byte("/redis-gunyu")) || bytes.HasPrefix(k, []byte("redis-gunyu-bisync"))
}

// businessLog extracts the executed data-modifying requests outside the reserved
// namespace, in execution order.
func businessLog(execLog []*redisd.Req) []*redisd.Req {
	var out []*redisd.Req
	for _, r := range execLog {
		switch r.Name() {
		case "select", "multi", "exec", "ping", "info", "exists", "hgetall", "hget", "get", "eval", "script", "keys", "scan", "type", "command":
			continue
		}
		if redisd.NonData(r.Name()) {
			continue
		}
		if len(r.Argv) > 1 && isBookkeepingKey(r.Argv[1]) {
			continue
		}
		out = append(out, r)
	}
	return out
}

func sameCmd(e expCmd, r *redisd.Req) bool {
	if e.Name != r.Name() || len(e.Args) != len(r.Argv)-1 {
		return false
	}
	for i, a := range e.Args {
		if !bytes.Equal(a, r.Argv[i+1]) {
			return false
		}
	}
	return true
}

func reqStrings(l []*redisd.Req) []string {
	out := make([]string, len(l))
	for i, r := range l {
		out[i] = r.String()
	}
	return out
}

func expStrings(l []expCmd) []string {
	out := make([]string, len(l))
	for i, e := range l {
		out[i] = e.String()
	}
	return out
}

// compareReplay classifies the first difference between expected and applied.
// It returns "" when they are equal.
func compareReplay(exp []expCmd, got []*redisd.Req) (class string, at int) {
	n := len(exp)
	if len(got) < n {
		n = len(got)
	}
	for i := 0; i < n; i++ {
		if !sameCmd(exp[i], got[i]) {
			// classify
			for j := 0; j < i; j++ {
				if sameCmd(exp[j], got[i]) {
					return "duplicated-or-reordered", i
				}
			}
			for j := i + 1; j < len(exp); j++ {
				if sameCmd(exp[j], got[i]) {
					return "dropped-or-reordered", i
				}
			}
			return "altered-or-invented", i
		}
		if exp[i].DB != got[i].ExecDB {
			return "wrong-db", i
		}
	}
	if len(got) < len(exp) {
		return "dropped", len(got)
	}
	if len(got) > len(exp) {
		for j := 0; j < len(exp); j++ {
			if sameCmd(exp[j], got[len(exp)]) {
				return "duplicated", len(exp)
			}
		}
		return "invented", len(exp)
	}
	return "", -1
}

// enumSeqs calls f for every sequence over alpha of length 1..L.
func enumSeqs(alpha []string, L int, f func([]string)) {
	var rec func(prefix []string)
	rec = func(prefix []string) {
		if len(prefix) > 0 {
			f(append([]string(nil), prefix...))
		}
		if len(prefix) == L {
			return
		}
		for _, a := range alpha {
			rec(append(prefix, a))
		}
	}
	rec(nil)
}


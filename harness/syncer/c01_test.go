package syncer

import (
	"encoding/json"
	"fmt"
	"strings"
	"testing"

	"github.com/mgtv-tech/redis-GunYu/verifshim/mc"
)

func init() { verifChecks["C01"] = runC01 }

type c01Scenario struct {
	Syms []string `json:"syms"`
	Cfg  aofCfg   `json:"cfg"`
	Max  int      `json:"max_ticks"`
	Base    string `json:"base,omitempty"` // stream start offset: "" = 1000, "0", "big" = 2^32+7
	Preempt bool  `json:"preempt,omitempty"`
	RBuf    int   `json:"rbuf,omitempty"` // size of the buffered reader the stream is read through (0 = 4096)
	Split   bool  `json:"split,omitempty"` // every stream item arrives in two reads
	Hold    bool  `json:"hold,omitempty"`  // the target withholds every reply until the whole stream was fed (sender blocked on a full pipeline / on its first batch while tickers fire)
	Plan []string `json:"plan,omitempty"` // preemption plan: "<file:line>#<occurrence>" wake-up statements of syncer/output.go
}

var c01Alphabet = []string{"w1", "w2", "we", "wx", "d", "df", "mf", "s1", "s0", "sb", "t1", "t2", "t3", "ts", "tb", "p", "g", "b", "bc", "f", "h", "n", "wn", "tn", "tf", "tp"}

// c01Reduced keeps one representative per behaviour class for the deeper plans.
var c01Reduced = []string{"w1", "w2", "df", "s1", "sb", "t2", "ts", "p", "f", "n"}

func c01Configs(tier string) []aofCfg {
	var out []aofCfg
	if tier == "thorough" {
		for _, txn := range []bool{true, false} {
			for _, pipe := range []bool{false, true} {
				for _, cnt := range []uint{1, 2, 64} {
					for _, bytes := range []uint64{8, 1 << 20} {
						for _, db := range []string{"id", "map12", "all0", "shift", "swap"} {
							out = append(out, aofCfg{Txn: txn, Resume: true, Pipeline: pipe, Count: cnt, Bytes: bytes, DbMode: db})
						}
					}
				}
			}
		}
		out = append(out, aofCfg{Txn: false, Resume: false, Pipeline: false, Count: 2, Bytes: 1 << 20, DbMode: "id"})
		out = append(out, aofCfg{Txn: false, Resume: false, Pipeline: true, Count: 2, Bytes: 1 << 20, DbMode: "id"})
		return out
	}
	return []aofCfg{
		{Txn: true, Resume: true, Pipeline: false, Count: 2, Bytes: 1 << 20, DbMode: "id"},
		{Txn: true, Resume: true, Pipeline: true, Count: 1, Bytes: 1 << 20, DbMode: "map12"},
		{Txn: false, Resume: true, Pipeline: false, Count: 2, Bytes: 8, DbMode: "map12"},
		{Txn: false, Resume: true, Pipeline: true, Count: 64, Bytes: 1 << 20, DbMode: "id"},
		{Txn: true, Resume: true, Pipeline: false, Count: 64, Bytes: 1 << 20, DbMode: "all0"},
		{Txn: false, Resume: false, Pipeline: false, Count: 2, Bytes: 1 << 20, DbMode: "id"},
		{Txn: true, Resume: true, Pipeline: false, Count: 2, Bytes: 1 << 20, DbMode: "shift"},
		{Txn: false, Resume: true, Pipeline: true, Count: 2, Bytes: 1 << 20, DbMode: "swap"},
		// transactional replay with resuming switched off (the position is kept in memory only)
		{Txn: true, Resume: false, Pipeline: false, Count: 2, Bytes: 1 << 20, DbMode: "id"},
	}
}

func runC01(t *testing.T, rep *mc.Reporter) {
	shard, nshards := mc.ShardOf()
	tier := mc.Tier()
	budget := &mc.Budget{Deadline: mc.DeadlineFromEnv()}

	if rp, err := mc.LoadReplay(); err != nil {
		rep.Machinery("cannot load replay: "+err.Error(), nil)
		return
	} else if rp != nil {
		var scn c01Scenario
		if err := json.Unmarshal(rp.Scenario, &scn); err != nil {
			rep.Machinery("bad replay scenario: "+err.Error(), nil)
			return
		}
		res := c01Exec(t, scn, mc.NewChooser(rp.Choices))
		rep.Exec(scn, rp.Choices, res)
		return
	}

	type plan struct {
		alpha    []string
		L        int
		cfgs     []aofCfg
		bound    int
		maxTicks int
	}
	quickCfgs := c01Configs("quick")
	allCfgs := c01Configs("thorough")
	plans := []plan{
		{c01Alphabet, 2, quickCfgs, 1, 1},
		{c01Reduced, 3, quickCfgs, 1, 1},
		// idle gaps on both sides of a write: two ticks (e.g. keep-alive, write, keep-alive)
		{[]string{"w1", "bc", "p"}, 2, quickCfgs, 2, 1},
	}
	if tier == "thorough" {
		plans = []plan{
			{c01Alphabet, 3, quickCfgs, 1, 1},
			{c01Reduced, 3, allCfgs, 1, 1},
			{c01Reduced, 2, allCfgs, 2, 2},
			{c01Alphabet, 2, quickCfgs, 3, 2},
		}
	}
	idx := 0
	for _, pl := range plans {
		pl := pl
		enumSeqs(pl.alpha, pl.L, func(seq []string) {
			for _, cfg := range pl.cfgs {
				idx++
				if idx%nshards != shard || budget.Expired() {
					continue
				}
				scn := c01Scenario{Syms: append([]string{"s0"}, seq...), Cfg: cfg, Max: pl.maxTicks}
				mc.RunScenario(rep, scn, pl.bound, budget, func(ch *mc.Chooser) mc.Result { return c01Exec(t, scn, ch) })
			}
		})
	}
	// ---- stream start offsets 0 and 2^32+7 (every other plan starts at 1000)
	for _, base := range []string{"0", "big"} {
		base := base
		enumSeqs([]string{"w1", "s1", "t2", "p", "t3"}, 2, func(seq []string) {
			for _, cfg := range quickCfgs {
				idx++
				if idx%nshards != shard || budget.Expired() {
					continue
				}
				scn := c01Scenario{Syms: append([]string{"s0"}, seq...), Cfg: cfg, Max: 1, Base: base}
				mc.RunScenario(rep, scn, 1, budget, func(ch *mc.Chooser) mc.Result { return c01Exec(t, scn, ch) })
			}
		})
	}
	// ---- database switches against mappings that are not one-to-one: an allowed source database mapped
	// onto the number of the black-listed one, two source databases sharing a target database, one target
	// database > 0 for everything; the stream's FIRST switch may be the black-listed database (no leading s0)
	for _, dbm := range []string{"onto5", "merge", "all3"} {
		dbm := dbm
		enumSeqs([]string{"sb", "s1", "s0", "s2", "w1", "t2"}, 4, func(seq []string) {
			if len(seq) < 2 || seq[0][0] != 's' {
				return
			}
			nw, nsw := 0, 0
			for _, s := range seq {
				if s[0] == 's' {
					nsw++
				} else {
					nw++
				}
			}
			if nw == 0 || nsw < 2 && len(seq) > 2 {
				return
			}
			for _, base := range []aofCfg{{Txn: true, Resume: true, Count: 2, Bytes: 1 << 20}, {Txn: false, Resume: true, Pipeline: true, Count: 64, Bytes: 1 << 20}} {
				idx++
				if idx%nshards != shard || budget.Expired() {
					continue
				}
				cfg := base
				cfg.DbMode = dbm
				scn := c01Scenario{Syms: seq, Cfg: cfg, Max: 1}
				mc.RunScenario(rep, scn, 0, budget, func(ch *mc.Chooser) mc.Result { return c01Exec(t, scn, ch) })
			}
		})
	}
	// ---- filter x transaction: source transactions whose brackets and members lie on different sides of the
	// database black-list (tb: switches into the black-listed database before its EXEC; tb2: visits it and
	// leaves; to after sb/tb: its MULTI lies inside, its EXEC outside), in every order with plain switches,
	// plain writes and ordinary transactions around them. Every sequence holds at least one such transaction;
	// the writes that follow it must still arrive (a sender left waiting for an EXEC shows as "dropped")
	{
		alpha, L, bound := []string{"tb", "tb2", "to", "sb", "s0", "w1", "t2"}, 3, 1
		if tier == "thorough" {
			alpha, L, bound = []string{"tb", "tb2", "to", "sb", "s0", "s1", "w1", "t2", "ts", "tp", "p"}, 3, 2
		}
		enumSeqs(alpha, L, func(seq []string) {
			crossing := false
			for _, s := range seq {
				if s == "tb" || s == "tb2" || s == "to" {
					crossing = true
				}
			}
			if !crossing {
				return
			}
			for _, cfg := range quickCfgs {
				idx++
				if idx%nshards != shard || budget.Expired() {
					continue
				}
				scn := c01Scenario{Syms: append([]string{"s0"}, seq...), Cfg: cfg, Max: 1}
				mc.RunScenario(rep, scn, bound, budget, func(ch *mc.Chooser) mc.Result { return c01Exec(t, scn, ch) })
			}
		})
	}
	// ---- input.syncDelayTestKey configured: the stream carries the tool's own delay probe
	enumSeqs([]string{"pr", "w1", "t2", "s1", "p"}, 2, func(seq []string) {
		for _, cfg := range quickCfgs {
			idx++
			if idx%nshards != shard || budget.Expired() {
				continue
			}
			cfg.Probe = true
			scn := c01Scenario{Syms: append([]string{"s0"}, seq...), Cfg: cfg, Max: 1}
			mc.RunScenario(rep, scn, 1, budget, func(ch *mc.Chooser) mc.Result { return c01Exec(t, scn, ch) })
		}
	})
	// ---- large arguments: a value of 20 KB (inside one read buffer) and one of 72 KB (larger than the 64 KiB
	// replication buffer), read through a 4 KiB and through a 1 MiB buffered reader (the size the tool's
	// channels use), followed or preceded by other items while the batch that holds them is still pending
	for _, rbuf := range []int{0, 1 << 20} {
		enumSeqs([]string{"wL", "wH", "wM", "w1", "t2", "mf"}, 2, func(seq []string) {
			big := false
			for _, s := range seq {
				if s == "wL" || s == "wH" || s == "wM" {
					big = true
				}
			}
			if !big {
				return
			}
			for _, cfg := range quickCfgs {
				idx++
				if idx%nshards != shard || budget.Expired() {
					continue
				}
				scn := c01Scenario{Syms: append([]string{"s0"}, seq...), Cfg: cfg, Max: 1, RBuf: rbuf}
				mc.RunScenario(rep, scn, 1, budget, func(ch *mc.Chooser) mc.Result { return c01Exec(t, scn, ch) })
			}
		})
	}
	// ---- arrival in pieces / withheld replies: every item arrives in two reads; the target answers nothing
	// until the whole stream was fed (blocking sender stuck on its first batch, pipelined sender on a full
	// pipeline) while tickers fire
	for _, variant := range []string{"split", "hold"} {
		enumSeqs([]string{"w1", "w2", "t2", "s1", "p", "n", "df"}, 3, func(seq []string) {
			if len(seq) < 2 {
				return
			}
			for _, cfg := range quickCfgs {
				idx++
				if idx%nshards != shard || budget.Expired() {
					continue
				}
				scn := c01Scenario{Syms: append([]string{"s0"}, seq...), Cfg: cfg, Max: 1, Split: variant == "split", Hold: variant == "hold"}
				mc.RunScenario(rep, scn, 1, budget, func(ch *mc.Chooser) mc.Result { return c01Exec(t, scn, ch) })
			}
		})
	}
	// ---- preemption family: default feeding schedule, every wake-up statement of syncer/output.go
	// (close, channel send, go, Unlock, Done, Close) reached is a point at which the running
	// goroutine may be held back until all others block; all placements of up to pbound preemptions
	pbound := 1
	pstreams := [][]string{{"w1", "t2"}, {"s1", "w1"}, {"t2", "p"}, {"w1", "df"}}
	if tier == "thorough" {
		pbound = 2
		pstreams = append(pstreams, []string{"w1", "w2", "t2"}, []string{"ts", "w1", "p"}, []string{"t2", "t2", "s1"})
	}
	for _, ps := range pstreams {
		for _, cfg := range quickCfgs {
			idx++
			if idx%nshards != shard || budget.Expired() {
				continue
			}
			scn := c01Scenario{Syms: append([]string{"s0"}, ps...), Cfg: cfg, Max: 1, Preempt: true}
			rep.Scenario()
			explorePreempt(rep, budget, pbound, func(plan []string, res mc.Result) {
				s := scn
				s.Plan = plan
				rep.Exec(s, nil, res)
			}, func(plan []string) (mc.Result, []string, []string) {
				s := scn
				s.Plan = plan
				return c01ExecPlan(t, s, mc.NewChooser(nil))
			})
		}
	}
	if budget.Expired() {
		rep.Capped("deadline reached before all scenarios were explored")
	}
}

func c01Exec(t *testing.T, scn c01Scenario, ch *mc.Chooser) mc.Result {
	r, _, _ := c01ExecPlan(t, scn, ch)
	return r
}

// c01ExecPlan: with scn.Plan the wake-up statements of syncer/output.go named in the plan hold
// their goroutine back until everything else has run until it blocked.
func c01ExecPlan(t *testing.T, scn c01Scenario, ch *mc.Chooser) (res mc.Result, seen, hit []string) {
	setBase(scn.Base)
	hReaderBuf = 4096
	if scn.RBuf > 0 {
		hReaderBuf = scn.RBuf
	}
	defer func() { hReaderBuf = 4096 }()
	msg := bubble(t, func() {
		if scn.Plan != nil || scn.Preempt {
			pre := installPreempt(scn.Plan)
			pre.armed = true
			curPre = pre
			defer func() {
				seen, hit = pre.seen, pre.hit
				curPre = nil
				pre.remove()
			}()
		}
		env := newAofEnv(t)
		items := buildStream(scn.Syms)
		ro := NewRedisOutput(scn.Cfg.outputConfig("redis-gunyu-checkpoint"))
		run := env.start(ro, items, aofS0)
		run.drive(ch, scn.Cfg, scn.Max, len(items))
		// closing step of every schedule: one batch tick flushes whatever is pending
		if !run.ended {
			run.tick("batch")
		}
		earlyErr := run.err
		early := run.ended
		execLog := env.srv.ExecLog()
		run.stop()
		if len(env.srv.MachineryErrors) > 0 {
			res = mc.Result{Verdict: "machinery", Clause: "double: " + strings.Join(env.srv.MachineryErrors, "; ")}
			return
		}
		exp := expectedReplay(items, scn.Cfg.model(-1))
		got := businessLog(execLog)
		obs := mc.Hash(reqStrings(execLog)...)
		if early {
			res = mc.Violation("replay stopped although the target is healthy", "C01:send-returned:"+scn.Cfg.class(),
				map[string]interface{}{"error": fmt.Sprint(earlyErr), "expected": expStrings(exp), "applied": reqStrings(got)})
			return
		}
		if class, at := compareReplay(exp, got); class != "" {
			sym := "?"
			if at < len(exp) {
				sym = scn.Syms[items[exp[at].Item].Sym]
			} else if len(exp) > 0 {
				sym = "after:" + scn.Syms[items[exp[len(exp)-1].Item].Sym]
			}
			res = mc.Violation("applied commands differ from the source stream: "+class, fmt.Sprintf("C01:%s:%s:%s", class, scn.Cfg.class(), sym),
				map[string]interface{}{"at": at, "expected": expStrings(exp), "applied": reqStrings(got), "target_log": reqStrings(execLog)})
			return
		}
		res = mc.OK(obs, len(got) > 0, env.events)
	})
	if msg != "" {
		return mc.Result{Verdict: "machinery", Clause: "bubble: " + msg}, seen, hit
	}
	return res, seen, hit
}

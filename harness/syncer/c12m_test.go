package syncer

// C12, family "several large values on one decoder".
//
// The other families put at most ONE argument above 70000 bytes into a stream (or follow it
// with short commands only). A decoder is a long-lived object though (parseAofCommand,
// parseAofReplayUnits and cmd/aof.go create one and call MustDecodeOpt in a loop) and the
// commands it hands out wait in sendBuf / cmdQueue while it goes on decoding, so whatever a
// decoder (or a reader below it) keeps between two values - a scratch buffer, a pooled slice,
// a bytes.Buffer that is Reset - is only visible when a LATER value of the right size is
// decoded while the EARLIER one is still held. Which sizes are "the right size" depends on the
// size-dependent constants of the code, so the arguments come from a ladder around every one
// of them, in every order.
//
//	ladder   for c in {32 KiB (the chunk of io.Copy/io.CopyN/bytes.Buffer.ReadFrom), 64 KiB (the
//	         stream readers of syncer/replica.go), 1 MiB (pipe size, readBufSize of pkg/store and
//	         the memory channel, conn.WriterBufferSize); thorough: + 4 KiB (bufio default:
//	         cmd/aof.go, cluster/node.go), 512 KiB (conn.ReaderBufferSize, end of the encoder's
//	         integer table)}: c-1, c, c+1, 2c+3; plus 1 MiB-2 and 1 MiB+2
//	streams  SET k <a> / SET k <b>           for every ordered pair (a, b) of the ladder
//	         MSET k <a> k <b>                 (two large values inside ONE command), same pairs
//	         thorough: SET k <a> / <middle> / SET k <b> with the middle command one of
//	         PING, Incr "", Incr <1 byte>, SET k <m> for every m of the ladder; pairs also with
//	         a heartbeat between the two commands
//	content  every argument is a different window of one pseudo-random byte sequence (contains
//	         CR, LF, NUL, 0xff, '$', '*'): its bytes depend on its position in the stream, so a
//	         value that shows up in another value's place is seen
//	paths    decode  client.NewDecoder/MustDecodeOpt/ParseArgs, readers 4 KiB whole and 1 MiB cut
//	                 every 4093 bytes (thorough: + 64 KiB cut at the middle and before the last
//	                 byte, 16 bytes one byte per read)
//	         parse   the real parseAofCommand, its queue emptied only after the parser returned
//	         relay   parse, then every queued command is written the way RedisConn.send and the
//	                 cluster connection's send write it (cmdExecution.Cmd + Args through ONE
//	                 proto.Writer / ONE cluster connection) and what arrives is read with the
//	                 RESP-spec parser: the command that reaches the target is the command the
//	                 source sent
//	         encode  client.Encode, proto.Writer, cluster writer: all commands through one writer,
//	                 read back by the RESP-spec parser, ONE repo decoder (whole and one byte per
//	                 read) and ONE proto.Reader
//
// Oracle: the clauses of the other families, unchanged - every decoded command is kept until
// the whole stream was decoded and then compared byte for byte with what was sent
// (`args-overwritten-later` on the decode path; the parse and relay paths judge what is in the
// queue after the parser returned), offsets = start offset + stream position after the
// command's last byte.

import (
	"bufio"
	"bytes"
	"errors"
	"fmt"
	"io"
	"sort"
	"strconv"
	"strings"

	cluster "github.com/mgtv-tech/redis-GunYu/pkg/redis/client/cluster"
	"github.com/mgtv-tech/redis-GunYu/pkg/redis/client/conn"
	"github.com/mgtv-tech/redis-GunYu/pkg/redis/client/proto"
	usync "github.com/mgtv-tech/redis-GunYu/pkg/sync"
	"github.com/mgtv-tech/redis-GunYu/verifshim/mc"
)

// ---------------------------------------------------------------------------
// arguments: windows of one pseudo-random sequence

var c12mBase []byte

const c12mStride = 4099 // window start of argument (command i, argument j) = 1 + c12mStride*(8*i+j)

// c12mArg returns n bytes whose content depends on the position (ci, ai) of the argument.
// The result is a read-only view of c12mBase: nothing writes to it.
func c12mArg(n, ci, ai int) []byte {
	off := 1 + c12mStride*(8*ci+ai)
	if len(c12mBase) < off+n {
		c12mBase = c12Pattern(off+n+(1<<16), 12) // the sequence is prefix-stable: growing it changes nothing
	}
	return c12mBase[off : off+n : off+n]
}

var c12mNames = []string{"PING", "Incr", "SET", "hset", "MSET"}

func c12mCommands(lens [][]int) []c12Cmd {
	out := make([]c12Cmd, len(lens))
	for i, l := range lens {
		if len(l) < len(c12mNames) {
			out[i].name = c12mNames[len(l)]
		} else {
			out[i].name = "DEL"
		}
		out[i].args = make([][]byte, len(l))
		for j, n := range l {
			out[i].args[j] = c12mArg(n, i, j)
		}
	}
	return out
}

// c12mScratch holds the source stream of the execution that is running; executions are
// sequential and nothing keeps the stream after its execution, so the storage is reused
// (a few MiB per shard instead of a few MiB per stream for the collector to chase).
var c12mScratch []byte

func c12mStream(cmds []c12Cmd, hb []int) (data []byte, ends []int64) {
	need := 64
	for _, c := range cmds {
		need += 64
		for _, a := range c.args {
			need += len(a) + 32
		}
	}
	for _, h := range hb {
		need += h
	}
	if cap(c12mScratch) < need {
		c12mScratch = make([]byte, 0, need)
	}
	data = c12mScratch[:0]
	beats := func(i int) {
		if i < len(hb) {
			for k := 0; k < hb[i]; k++ {
				data = append(data, '\n')
			}
		}
	}
	for i, c := range cmds {
		beats(i)
		data = refEncode(data, c)
		ends = append(ends, int64(len(data)))
	}
	beats(len(cmds))
	return data, ends
}

// c12mLadder: the argument lengths around every size-dependent constant.
func c12mLadder(thorough bool) []int {
	consts := []int{32 << 10, 64 << 10, 1 << 20, conn.WriterBufferSize}
	if thorough {
		consts = append(consts, 4096, 512<<10, conn.ReaderBufferSize)
	}
	set := map[int]struct{}{1<<20 - 2: {}, 1<<20 + 2: {}}
	for _, c := range consts {
		for _, n := range []int{c - 1, c, c + 1, 2*c + 3} {
			set[n] = struct{}{}
		}
	}
	out := make([]int, 0, len(set))
	for n := range set {
		out = append(out, n)
	}
	sort.Ints(out)
	return out
}

// ---------------------------------------------------------------------------
// relay: decode -> queue -> encode, judged on what arrives at the target

func c12RelayRun(data []byte, cmds []c12Cmd, ends []int64, buf int, fr *fragReader, start int64) *c12Fail {
	ro := c12Output(0)
	sendBuf := make(chan cmdExecution, len(cmds)+4) // never blocks: the call is synchronous
	wc := usync.NewWaitCloser(func(error) {})
	err := ro.parseAofCommand(wc, bufio.NewReaderSize(fr, buf), start, sendBuf)
	wc.Close(nil)
	close(sendBuf)
	var queue []cmdExecution
	for c := range sendBuf {
		queue = append(queue, c)
	}
	if !errors.Is(err, io.EOF) {
		return &c12Fail{"the parser does not end with io.EOF on a well-formed stream", "error", map[string]interface{}{"err": fmt.Sprint(err)}}
	}
	if len(queue) != len(cmds) {
		kind := "phantom"
		if len(queue) < len(cmds) {
			kind = "lost"
		}
		return &c12Fail{"the parser hands over a different number of commands than the source sent", kind, map[string]interface{}{"got": len(queue), "want": len(cmds)}}
	}
	// the whole queue goes out now, the way the senders write a command
	var wsink bytes.Buffer
	w := proto.NewWriter(&wsink, conn.WriterBufferSize)
	csink := &c12Sink{}
	cc := cluster.VerifNewConn(csink, 4096)
	for i, x := range queue {
		if x.Offset != start+ends[i] {
			return &c12Fail{"offset attached to a command differs from start offset + bytes up to and including the command", "offset",
				map[string]interface{}{"command_index": i, "start_offset": start, "attached_offset": x.Offset, "want": start + ends[i]}}
		}
		ai := make([]interface{}, len(x.Args)+1) // RedisConn.send
		ai[0] = x.Cmd
		copy(ai[1:], x.Args)
		if err := w.WriteArgs(ai); err != nil {
			return &c12Fail{"WriteArgs fails on a queued command", "error", map[string]interface{}{"command_index": i, "err": err.Error()}}
		}
		if err := cc.Send(x.Cmd, x.Args...); err != nil {
			return &c12Fail{"cluster connection send fails on a queued command", "error", map[string]interface{}{"command_index": i, "err": err.Error()}}
		}
	}
	if err := w.Flush(); err != nil {
		return &c12Fail{"flush fails", "error", map[string]interface{}{"err": err.Error()}}
	}
	if err := cc.Flush(); err != nil {
		return &c12Fail{"flush fails", "error", map[string]interface{}{"err": err.Error()}}
	}
	for _, out := range []struct {
		via string
		enc []byte
	}{{"proto.Writer", wsink.Bytes()}, {"cluster connection", csink.buf.Bytes()}} {
		pos := 0
		for i, c := range cmds {
			parts, n, err := refParse(out.enc[pos:])
			if err != nil {
				return &c12Fail{"what reaches the target is not a well-formed multi-bulk command", "malformed", map[string]interface{}{"via": out.via, "command_index": i, "err": err.Error(), "bytes": q(out.enc[pos:])}}
			}
			if len(parts) != len(c.args)+1 || string(parts[0]) != strings.ToLower(c.name) {
				return &c12Fail{"the command that reaches the target has a different name or argument count than the source sent", "args", map[string]interface{}{"via": out.via, "command_index": i, "got_parts": len(parts), "want_parts": len(c.args) + 1}}
			}
			for j, a := range c.args {
				if !bytes.Equal(parts[j+1], a) {
					return &c12Fail{"an argument reaches the target with other bytes than the source sent", "args",
						map[string]interface{}{"via": out.via, "command_index": i, "arg_index": j, "got": q(parts[j+1]), "want": q(a), "first_diff_at": firstDiff(parts[j+1], a)}}
				}
			}
			pos += n
		}
		if pos != len(out.enc) {
			return &c12Fail{"bytes beyond the commands reach the target", "malformed", map[string]interface{}{"via": out.via, "extra": q(out.enc[pos:])}}
		}
	}
	return nil
}

func c12RunRelay(s c12Scn) (mc.Result, int) {
	cmds := s.commands()
	data, ends, _ := s.stream(cmds)
	start := s.Start
	if f := c12Guard(func() *c12Fail {
		return c12RelayRun(data, cmds, ends, s.Buf, &fragReader{data: data, oneByte: s.Frag == "1byte"}, start)
	}); f != nil {
		f.detail["start_offset"] = start
		f.detail["stream_len"] = len(data)
		f.detail["stream_head"] = q(data)
		return c12Result(&s, f), 1
	}
	return mc.OK(mc.Hash("relay", fmt.Sprint(s.Lens), fmt.Sprint(s.Cmds), fmt.Sprint(s.HB), strconv.Itoa(s.Buf), s.Frag), true, 1), 1
}

// ---------------------------------------------------------------------------
// enumeration

func c12RunMultiLarge(rep *mc.Reporter, mine func() bool, thorough bool, decoderRuns, parserRuns *int64) {
	const fam = "multi-large"
	dec := func(lens [][]int, hb []int, r c12Reader) {
		if !mine() {
			return
		}
		rep.Scenario()
		s := c12Scn{Path: "decode", Fam: fam, Lens: lens, HB: hb, Buf: r.buf, Frag: r.frag}
		res, v, runs := c12RunDecode(s, false)
		*decoderRuns += int64(runs)
		if v != nil {
			s = *v
		}
		rep.Exec(s, nil, res)
	}
	par := func(lens [][]int, hb []int, r c12Reader, start int64, startDb int) {
		if !mine() {
			return
		}
		rep.Scenario()
		s := c12Scn{Path: "parse", Fam: fam, Lens: lens, HB: hb, Buf: r.buf, Frag: r.frag, Start: start, StartDb: startDb}
		res, runs := c12RunParse(s)
		*parserRuns += int64(runs)
		rep.Exec(s, nil, res)
	}
	relay := func(lens [][]int, hb []int, r c12Reader, start int64) {
		if !mine() {
			return
		}
		rep.Scenario()
		s := c12Scn{Path: "relay", Fam: fam, Lens: lens, HB: hb, Buf: r.buf, Frag: r.frag, Start: start}
		res, runs := c12RunRelay(s)
		*parserRuns += int64(runs)
		rep.Exec(s, nil, res)
	}
	enc := func(lens [][]int, path string, wsize, rsize int) {
		if !mine() {
			return
		}
		rep.Scenario()
		s := c12Scn{Path: path, Fam: fam, Lens: lens, HB: make([]int, len(lens)+1), Buf: wsize, RBuf: rsize}
		rep.Exec(s, nil, c12RunEncode(s))
	}

	ladder := c12mLadder(thorough)
	// pairs, every order: two commands, and both values inside one command
	for _, a := range ladder {
		for _, b := range ladder {
			for _, lens := range [][][]int{{{2, a}, {2, b}}, {{2, a, 2, b}}} {
				none := make([]int, len(lens)+1)
				dec(lens, none, c12Reader{4096, "whole"})
				dec(lens, none, c12Reader{1 << 20, "pages"})
				par(lens, none, c12Reader{1 << 20, "whole"}, 1<<32+7, 0)
				relay(lens, none, c12Reader{64 << 10, "whole"}, 1000)
				enc(lens, "encode-resp", 4096, 32)
				enc(lens, "encode-writer", conn.WriterBufferSize, conn.ReaderBufferSize)
				enc(lens, "encode-cluster", 4096, conn.ReaderBufferSize)
				if !thorough {
					continue
				}
				dec(lens, none, c12Reader{64 << 10, "mid"})
				dec(lens, none, c12Reader{16, "1byte"})
				par(lens, none, c12Reader{4096, "whole"}, 0, 2)
				par(lens, none, c12Reader{17, "1byte"}, 1000, 0)
				relay(lens, none, c12Reader{1 << 20, "whole"}, 1<<32+7)
				enc(lens, "encode-resp", 1<<20, conn.ReaderBufferSize)
				enc(lens, "encode-writer", 4096, 32)
				enc(lens, "encode-cluster", 1<<20, 32)
				if len(lens) == 2 {
					beat := []int{0, 1, 0}
					dec(lens, beat, c12Reader{4096, "whole"})
					par(lens, beat, c12Reader{1 << 20, "whole"}, 1<<32+7, 0)
				}
			}
		}
	}
	if !thorough {
		return
	}
	// large - anything - large: three commands on one decoder
	middles := [][]int{{}, {0}, {1}}
	for _, m := range ladder {
		middles = append(middles, []int{2, m})
	}
	for _, a := range ladder {
		for _, m := range middles {
			for _, b := range ladder {
				lens := [][]int{{2, a}, m, {2, b}}
				none := make([]int, 4)
				dec(lens, none, c12Reader{4096, "whole"})
				par(lens, none, c12Reader{1 << 20, "whole"}, 1<<32+7, 0)
				relay(lens, none, c12Reader{64 << 10, "whole"}, 0)
			}
		}
	}
}

//go:debug asynctimerchan=0
package syncer

import (
	"bufio"
	"fmt"
	"io"
	"os"
	"runtime"
	"runtime/debug"
	"strings"
	"sync"
	"testing"
	"testing/synctest"

	"github.com/mgtv-tech/redis-GunYu/config"
	"github.com/mgtv-tech/redis-GunYu/pkg/log"
	usync "github.com/mgtv-tech/redis-GunYu/pkg/sync"
	"github.com/mgtv-tech/redis-GunYu/verifshim/mc"
	"github.com/mgtv-tech/redis-GunYu/verifshim/vsel"
)

var verifLogOnce sync.Once

func verifInitLog() {
	verifLogOnce.Do(func() {
		f := false
		lvl := os.Getenv("VERIF_LOGLEVEL")
		if lvl == "" {
			lvl = "fatal"
		}
		if err := log.InitLog(config.LogConfig{LevelStr: lvl, Handler: config.LogHandlerConfig{StdOut: true}, Caller: &f, Func: &f}); err != nil {
			panic(err)
		}
	})
}

// TestVerif dispatches on VERIF_CHECK (one test binary serves every check whose
// harness lives in package syncer).
func TestVerif(t *testing.T) {
	check := os.Getenv("VERIF_CHECK")
	if check == "" {
		t.Skip("VERIF_CHECK not set")
	}
	verifInitLog()
	rep, err := mc.NewReporter(check)
	if err != nil {
		t.Fatal(err)
	}
	defer rep.Close(nil)
	h, ok := verifChecks[check]
	if !ok {
		rep.Machinery("unknown check "+check, nil)
		return
	}
	h(t, rep)
}

var verifChecks = map[string]func(t *testing.T, rep *mc.Reporter){}

// bubble runs f inside a fresh synctest bubble and converts panics (including the
// bubble's own deadlock panic when goroutines are left blocked) into a string.
func bubble(t *testing.T, f func()) (panicMsg string) {
	defer func() {
		if r := recover(); r != nil {
			panicMsg = fmt.Sprintf("%v", r)
			if strings.Contains(panicMsg, "deadlock") {
				buf := make([]byte, 1<<20)
				n := runtime.Stack(buf, true)
				panicMsg += "\n" + blockedStacks(string(buf[:n]))
			}
		}
	}()
	synctest.Test(t, func(t *testing.T) {
		defer func() {
			if r := recover(); r != nil {
				panicMsg = fmt.Sprintf("panic in harness: %v\n%s", r, debug.Stack())
			}
		}()
		f()
	})
	return
}

// gate is an io.Reader whose bytes are released by the harness.
type gate struct {
	mu   sync.Mutex
	cond *sync.Cond
	buf  []byte
	err  error
	read int64
}

func newGate() *gate {
	g := &gate{}
	g.cond = sync.NewCond(&g.mu)
	return g
}

func (g *gate) Read(p []byte) (int, error) {
	g.mu.Lock()
	defer g.mu.Unlock()
	for len(g.buf) == 0 && g.err == nil {
		g.cond.Wait()
	}
	if len(g.buf) > 0 {
		n := copy(p, g.buf)
		g.buf = g.buf[n:]
		g.read += int64(n)
		return n, nil
	}
	return 0, g.err
}

func (g *gate) Release(b []byte) {
	g.mu.Lock()
	g.buf = append(g.buf, b...)
	g.cond.Broadcast()
	g.mu.Unlock()
}

func (g *gate) Close(err error) {
	g.mu.Lock()
	if g.err == nil {
		if err == nil {
			err = io.EOF
		}
		g.err = err
	}
	g.cond.Broadcast()
	g.mu.Unlock()
}

// hReader is a ChannelReader over a gate.
type hReader struct {
	g     *gate
	br    *bufio.Reader
	left  int64
	size  int64
	runID string
	aof   bool
}

// hReaderBuf is the size of the buffered reader the replay reads the stream through (scenarios may
// set it to the 1 MiB the tool's channels use; 4096 keeps refills frequent).
var hReaderBuf = 4096

func newHReader(g *gate, runID string, left, size int64, aof bool) *hReader {
	return &hReader{g: g, br: bufio.NewReaderSize(g, hReaderBuf), left: left, size: size, runID: runID, aof: aof}
}

func (r *hReader) Start(wait usync.WaitCloser) {}
func (r *hReader) Left() int64                 { return r.left }
func (r *hReader) RunId() string               { return r.runID }
func (r *hReader) Size() int64                 { return r.size }
func (r *hReader) IoReader() *bufio.Reader     { return r.br }
func (r *hReader) IsAof() bool                 { return r.aof }
func (r *hReader) Close()                      {}

// blockedStacks keeps the stacks of goroutines that are durably blocked inside a
// synctest bubble (the leaked ones), trimmed.
func blockedStacks(all string) string {
	var keep []string
	for _, g := range strings.Split(all, "\n\n") {
		if strings.Contains(g, "(durable)") || strings.Contains(g, "synctest") {
			if len(g) > 1500 {
				g = g[:1500]
			}
			keep = append(keep, g)
		}
		if len(keep) >= 6 {
			break
		}
	}
	return strings.Join(keep, "\n\n")
}

// ---------------------------------------------------------------------------
// Preemption points. Files rewritten with the `yield` transform call vsel.Yield after every
// statement that makes another goroutine runnable. While armed, every such point is recorded as
// "<file:line>#<k>" (k-th time that statement is reached in this execution). A point named in the
// plan is a preemption: the goroutine is held back until every other goroutine has run until it
// blocked, i.e. the goroutine it has just woken - and everything that follows from it - runs
// first. settle() replaces synctest.Wait() while armed: it waits for quiescence, lets the oldest
// held goroutine go on, and repeats. explorePreempt enumerates all plans up to a preemption bound:
// first the execution without preemption, then one execution per point it reached, then (bound 2)
// one per point reached after the first preemption, and so on. Naming points by statement and
// occurrence instead of by global position keeps a plan meaningful when unrelated goroutines are
// scheduled in a different order.
type preemptCtl struct {
	mu     sync.Mutex
	plan   map[string]bool
	counts map[string]int
	seen   []string
	hit    []string
	armed  bool
	parked []chan struct{}
}

func installPreempt(plan []string) *preemptCtl {
	p := &preemptCtl{plan: map[string]bool{}, counts: map[string]int{}}
	for _, k := range plan {
		p.plan[k] = true
	}
	vsel.SetYielder(func(site string) {
		p.mu.Lock()
		if !p.armed {
			p.mu.Unlock()
			return
		}
		p.counts[site]++
		key := fmt.Sprintf("%s#%d", site, p.counts[site])
		p.seen = append(p.seen, key)
		var c chan struct{}
		if p.plan[key] {
			p.hit = append(p.hit, key)
			c = make(chan struct{})
			p.parked = append(p.parked, c)
		}
		p.mu.Unlock()
		if c != nil {
			<-c
		}
	})
	return p
}

func (p *preemptCtl) settle() {
	for {
		synctest.Wait()
		p.mu.Lock()
		if len(p.parked) == 0 {
			p.mu.Unlock()
			return
		}
		c := p.parked[0]
		p.parked = p.parked[1:]
		p.mu.Unlock()
		close(c)
	}
}

func (p *preemptCtl) remove() {
	vsel.SetYielder(nil)
	for _, c := range p.parked {
		close(c)
	}
	p.parked = nil
}

// explorePreempt runs exec for every preemption plan up to bound preemptions (breadth first).
// exec returns the verdict, the points reached (in order) and the planned points that were reached.
func explorePreempt(rep *mc.Reporter, budget *mc.Budget, bound int, report func(plan []string, res mc.Result), exec func(plan []string) (mc.Result, []string, []string)) {
	queue := [][]string{nil}
	for len(queue) > 0 {
		if budget.Expired() {
			rep.Capped("deadline reached inside a preemption exploration")
			return
		}
		plan := queue[0]
		queue = queue[1:]
		res, seen, hit := exec(plan)
		if res.Verdict == "violation" {
			r2, _, _ := exec(plan)
			if r2.Verdict != res.Verdict || r2.Sig != res.Sig {
				res = mc.Result{Verdict: "machinery", Clause: fmt.Sprintf("violation not reproducible with the same preemption plan %v: %s vs %s/%s", plan, res.Sig, r2.Verdict, r2.Sig)}
			}
		}
		if len(hit) < len(plan) {
			rep.Count("preemption_plans_not_reached", 1)
		}
		report(plan, res)
		if len(plan) >= bound || len(hit) < len(plan) {
			continue
		}
		start := 0
		if len(plan) > 0 {
			last := plan[len(plan)-1]
			for i, k := range seen {
				if k == last {
					start = i + 1
				}
			}
		}
		for _, k := range seen[start:] {
			child := append(append([]string(nil), plan...), k)
			queue = append(queue, child)
		}
	}
}

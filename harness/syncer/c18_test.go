package syncer

import (
	"strconv"
	"os"
	"context"
	"encoding/json"
	"fmt"
	"strings"
	"testing"
	"testing/synctest"

	"github.com/mgtv-tech/redis-GunYu/config"
	"github.com/mgtv-tech/redis-GunYu/verifshim/clusterd"
	"github.com/mgtv-tech/redis-GunYu/verifshim/mc"
	"github.com/mgtv-tech/redis-GunYu/verifshim/redisd"
	"github.com/mgtv-tech/redis-GunYu/verifshim/ref"
)

func init() { verifChecks["C18"] = runC18 }

// ---------------------------------------------------------------------------
// C18: bidirectional replay into a cluster double. Every MULTI/EXEC a node receives
// must be single-slot by the REFERENCE hash slot; multi-slot or unroutable source
// units must stop the replay before anything of them is sent; single-slot units must
// never be refused.

var clusterAddrs = []string{"n0:7000", "n1:7001", "n2:7002"}

func clusterCfg() config.RedisConfig {
	rc := config.RedisConfig{Addresses: append([]string(nil), clusterAddrs...), Type: config.RedisTypeCluster, Otype: config.RedisTypeCluster, Version: "7.2.0",
		ClusterOptions: &config.RedisClusterOptions{HandleMoveErr: true, HandleAskErr: true}}
	var shards []*config.RedisClusterShard
	lay := clusterd.EvenLayout(len(clusterAddrs))
	start := 0
	for s := 1; s <= 16384; s++ {
		if s == 16384 || lay(s) != lay(start) {
			shards = append(shards, &config.RedisClusterShard{Slots: config.RedisSlots{Ranges: []config.RedisSlotRange{{Left: start, Right: s - 1}}}, Master: config.RedisNode{Address: clusterAddrs[lay(start)]}})
			start = s
		}
	}
	rc.SetClusterShards(shards)
	return rc
}

type c18Unit struct {
	Kind string   `json:"kind"`
	Keys []string `json:"keys"`
}

// c18BigN is the number of commands in the transaction of kind "txnbig" (scenario field Big).
var c18BigN = 1100

type c18Scenario struct {
	Big    int     `json:"big,omitempty"` // commands in the transaction of kind txnbig
	Unit   c18Unit `json:"unit"`
	Cfg    biCfg   `json:"cfg"`
	Filter bool    `json:"filter"`
	Preempt bool     `json:"preempt,omitempty"` // wake-up statements of syncer/bisync.go are preemption points
	Plan    []string `json:"plan,omitempty"`    // "<file:line>#<occurrence>" points at which the running goroutine is held back
	// snapshot lane: the unit under test is a snapshot entry (key Unit.Keys[0]) replayed by the
	// start sequence's full sync; HashTag = replay.replaceHashTag, Restore = RESTORE path
	Snap    bool `json:"snap,omitempty"`
	HashTag bool `json:"hash_tag,omitempty"`
	Restore bool `json:"restore,omitempty"`
}

// keys longer than any buffer constant on the routing path: the tag lies behind byte 1024 / no tag at all
var (
	c18LongTagged = strings.Repeat("x", 1100) + "{t}y"
	c18LongPlain  = strings.Repeat("k", 1500)
)

var c18KeyPool = []string{c18LongTagged, c18LongPlain, "{t}x", "y{t}", "{t}{u}", "{}{t}", "{{t}}", "}{t}", "plain", "{u}z", "{t", "t}{", "\u7528\u6237:1", "{\u8ba2\u5355}x", "caf\xe9", "{\xff\x80}y"}

// c18Commands returns the stream commands of a unit and, per command, its keys.
func c18Commands(u c18Unit) (cmds [][]string, keys [][]string, txn bool) {
	k := u.Keys
	switch u.Kind {
	case "set":
		return [][]string{{"SET", k[0], "v"}}, [][]string{{k[0]}}, false
	case "del":
		return [][]string{{"DEL", k[0], k[1]}}, [][]string{{k[0], k[1]}}, false
	case "mset":
		return [][]string{{"MSET", k[0], "a", k[1], "b"}}, [][]string{{k[0], k[1]}}, false
	case "rename":
		return [][]string{{"RENAME", k[0], k[1]}}, [][]string{{k[0], k[1]}}, false
	case "smove":
		return [][]string{{"SMOVE", k[0], k[1], "m"}}, [][]string{{k[0], k[1]}}, false
	case "bitop":
		return [][]string{{"BITOP", "AND", k[0], k[1]}}, [][]string{{k[0], k[1]}}, false
	case "xgroup":
		// container command: the key is the argument behind the subcommand
		return [][]string{{"XGROUP", "CREATE", k[0], "g", "$", "MKSTREAM"}}, [][]string{{k[0]}}, false
	case "sortstore":
		// key positions that are not a fixed (first, last, step) range: option-introduced destinations,
		// numkeys-counted lists, destination in front of a counted list
		return [][]string{{"SORT", k[0], "LIMIT", "0", "5", "ALPHA", "STORE", k[1]}}, [][]string{{k[0], k[1]}}, false
	case "sortstore2":
		// STORE repeated: Redis takes the LAST destination
		return [][]string{{"SORT", k[0], "STORE", k[0], "STORE", k[1]}}, [][]string{{k[0], k[1]}}, false
	case "zunionstore":
		return [][]string{{"ZUNIONSTORE", k[0], "2", k[1], k[0], "WEIGHTS", "1", "2"}}, [][]string{{k[0], k[1]}}, false
	case "zinterstore1":
		// numkeys 1: the argument behind the counted list is an option, not a key
		return [][]string{{"ZINTERSTORE", k[0], "1", k[1], "AGGREGATE", "MAX"}}, [][]string{{k[0], k[1]}}, false
	case "sunionstore":
		return [][]string{{"SUNIONSTORE", k[0], k[1], k[0]}}, [][]string{{k[0], k[1]}}, false
	case "pfmerge":
		return [][]string{{"PFMERGE", k[0], k[1]}}, [][]string{{k[0], k[1]}}, false
	case "lmpop":
		return [][]string{{"LMPOP", "2", k[0], k[1], "LEFT", "COUNT", "1"}}, [][]string{{k[0], k[1]}}, false
	case "geostore":
		return [][]string{{"GEORADIUS", k[0], "0", "0", "1", "km", "COUNT", "3", "STOREDIST", k[1]}}, [][]string{{k[0], k[1]}}, false
	case "copy":
		return [][]string{{"COPY", k[0], k[1], "REPLACE"}}, [][]string{{k[0], k[1]}}, false
	case "lmove":
		return [][]string{{"LMOVE", k[0], k[1], "LEFT", "RIGHT"}}, [][]string{{k[0], k[1]}}, false
	case "eval":
		return [][]string{{"EVAL", "return 1", "2", k[0], k[1], "arg"}}, [][]string{{k[0], k[1]}}, false
	case "evalA":
		// preceded (see c18Prelude) by an EVAL of the same arity with ONE key: key positions depend
		// on the numkeys argument, not on (command, arity)
		return [][]string{{"EVAL", "return 1", "2", k[0], k[1], "arg"}}, [][]string{{k[0], k[1]}}, false
	case "evalB":
		// preceded by an EVAL of the same arity with TWO keys; here k[1] is an argument, not a key
		return [][]string{{"EVAL", "return 1", "1", k[0], k[1], "arg"}}, [][]string{{k[0]}}, false
	case "foo":
		// unknown to the static table: resolved through COMMAND GETKEYS (first argument)
		return [][]string{{"FOO.SET", k[0], "v"}}, [][]string{{k[0]}}, false
	case "txn":
		return [][]string{{"MULTI"}, {"SET", k[0], "a"}, {"SET", k[1], "b"}, {"EXEC"}}, [][]string{nil, {k[0]}, {k[1]}, nil}, true
	case "txndel":
		return [][]string{{"MULTI"}, {"SET", k[0], "a"}, {"DEL", k[0], k[1]}, {"EXEC"}}, [][]string{nil, {k[0]}, {k[0], k[1]}, nil}, true
	case "txnbig":
		// a transaction with far more commands than any per-transaction constant; whether its keys
		// share a slot depends on the two keys alone
		cmds = append(cmds, []string{"MULTI"})
		keys = append(keys, nil)
		for i := 0; i < c18BigN; i++ {
			kk := k[i%2]
			cmds = append(cmds, []string{"SET", kk, "b" + strconv.Itoa(i)})
			keys = append(keys, []string{kk})
		}
		cmds = append(cmds, []string{"EXEC"})
		keys = append(keys, nil)
		return cmds, keys, true
	case "txnflt":
		// second command is removed by the key filter; what remains is single-slot
		return [][]string{{"MULTI"}, {"SET", k[0], "a"}, {"SET", fltPrefix + k[1], "b"}, {"EXEC"}}, [][]string{nil, {k[0]}, nil, nil}, true
	case "delflt":
		// the key filter removes the second key; the command is forwarded restricted to the first
		return [][]string{{"DEL", k[0], fltPrefix + k[1]}}, [][]string{{k[0]}}, false
	case "msetflt":
		return [][]string{{"MSET", k[0], "a", fltPrefix + k[1], "b"}}, [][]string{{k[0]}}, false
	case "txndelflt":
		return [][]string{{"MULTI"}, {"SET", k[0], "a"}, {"UNLINK", fltPrefix + k[1], k[0]}, {"EXEC"}}, [][]string{nil, {k[0]}, {k[0]}, nil}, true
	}
	panic("unknown c18 kind " + u.Kind)
}

func c18Exec(t *testing.T, scn c18Scenario) mc.Result {
	r, _, _ := c18ExecPlan(t, scn)
	return r
}

// c18ExecPlan: the wake-up statements of syncer/bisync.go are preemption points from the moment
// the stream is handed over until Send has settled; scn.Plan names the points that preempt.
func c18ExecPlan(t *testing.T, scn c18Scenario) (res mc.Result, seen, hit []string) {
	if scn.Big > 0 {
		c18BigN = scn.Big
	}
	msg := bubble(t, func() {
		pre := installPreempt(scn.Plan)
		defer pre.remove()
		defer func() { seen, hit = pre.seen, pre.hit }()
		biEnvReset()
		cl := clusterd.New(clusterAddrs, clusterd.EvenLayout(len(clusterAddrs)))
		rc := clusterCfg()
		cfg := biOutputConfig(scn.Cfg, rc, "src", aofRunID, biFixedCpName)
		cfg.Parallelism = 2
		if scn.Filter {
			cfg.Filter = config.FilterConfig{KeyFilter: &config.FilterKeyConfig{PrefixKeyBlacklist: []string{fltPrefix}}}
		}
		ro := NewRedisOutput(cfg)
		// a replication stream only carries commands that succeeded at the source: give
		// the target the data those commands need
		switch scn.Unit.Kind {
		case "rename":
			k := scn.Unit.Keys[0]
			cl.Nodes[cl.Owner(ref.HashSlotS(k))].Put(0, k, &redisd.Value{T: 's', Str: []byte("old")})
		case "smove":
			k := scn.Unit.Keys[0]
			cl.Nodes[cl.Owner(ref.HashSlotS(k))].Put(0, k, &redisd.Value{T: 'S', Set: map[string]struct{}{"m": {}}})
		}
		// stream: a good single-key unit, then the unit under test, then another good unit
		var raw []byte
		add := func(c []string) { raw = append(raw, redisd.EncodeCommandS(c...)...) }
		add([]string{"SET", "before{t}", "1"})
		switch scn.Unit.Kind {
		case "evalA":
			add([]string{"EVAL", "return 1", "1", "pre{t}", "x", "arg"})
		case "evalB":
			add([]string{"EVAL", "return 1", "2", "pre{t}", "pre2{t}", "arg"})
		}
		cmds, keys, _ := c18Commands(scn.Unit)
		for _, c := range cmds {
			add(c)
		}
		add([]string{"SET", "after{u}", "2"})
		g := newGate()
		ctx, cancel := context.WithCancel(context.Background())
		done := make(chan error, 1)
		rd := newHReader(g, aofRunID, aofS0, -1, true)
		go func() { done <- ro.Send(ctx, rd) }()
		synctest.Wait()
		pre.armed = true
		g.Release(raw)
		pre.settle()
		pre.armed = false
		var sendErr error
		ended := false
		select {
		case sendErr = <-done:
			ended = true
		default:
		}
		glog := cl.GlobalLog()
		cancel()
		g.Close(nil)
		synctest.Wait()
		if !ended {
			<-done
		}
		for _, n := range cl.Nodes {
			if len(n.MachineryErrors) > 0 {
				res = mc.Result{Verdict: "machinery", Clause: "double: " + strings.Join(n.MachineryErrors, "; ")}
				return
			}
		}
		// ---- reference verdict for the unit under test
		var all []string
		for _, ks := range keys {
			all = append(all, ks...)
		}
		single := true
		for _, k := range all[1:] {
			if ref.HashSlotS(k) != ref.HashSlotS(all[0]) {
				single = false
			}
		}
		slot := ref.HashSlotS(all[0])
		allSet := map[string]bool{}
		for _, k := range all {
			allSet[k] = true
		}
		if len(all) > 64 {
			all = all[:64] // what describe() prints
		}
		describe := func() map[string]interface{} {
			var lines []string
			for _, r := range glog {
				if r.Name() == "cluster" || r.Name() == "ping" {
					continue
				}
				lines = append(lines, fmt.Sprintf("n%d %s -> %s", r.Node, maskVolatile(r.String()), r.Reply))
			}
			return map[string]interface{}{"log": lines, "send_error": fmt.Sprint(sendErr), "ended": ended, "unit_keys": all, "ref_single_slot": single, "preempted_after": pre.hit}
		}
		shape := fmt.Sprintf("%s:%s", scn.Unit.Kind, scn.Cfg.Mode)
		// ---- every MULTI..EXEC block: single slot by the reference, on the owner, executed
		type blk struct {
			node int
			reqs []*redisd.Req
			exec *redisd.Req
		}
		blocks := map[string]*blk{}
		var order []string
		for _, r := range glog {
			if r.Txn == 0 {
				continue
			}
			id := fmt.Sprintf("%d/%d", r.Node, r.Txn)
			if blocks[id] == nil {
				blocks[id] = &blk{node: r.Node}
				order = append(order, id)
			}
			blocks[id].reqs = append(blocks[id].reqs, r)
			if r.Name() == "exec" {
				blocks[id].exec = r
			}
		}
		unitSeen, unitExecuted := false, false
		afterSeen := false
		for _, id := range order {
			b := blocks[id]
			bslot := -1
			for _, r := range b.reqs {
				n := r.Name()
				if n == "multi" || n == "exec" {
					continue
				}
				ks, ok := redisd.CommandKeys(r.Argv)
				if !ok {
					continue
				}
				for _, k := range ks {
					s := ref.HashSlot(k)
					if bslot == -1 {
						bslot = s
					} else if s != bslot {
						res = mc.Violation("a transaction sent to the cluster addresses more than one slot", "C18:multi-slot-block:"+shape, describe())
						return
					}
					if allSet[string(k)] {
						unitSeen = true
						if r.Executed {
							unitExecuted = true
						}
					}
					if string(k) == "after{u}" && r.Executed {
						afterSeen = true
					}
				}
			}
			if bslot >= 0 && cl.Owner(bslot) != b.node {
				res = mc.Violation("a transaction was sent to a node that does not own its slot", "C18:wrong-node:"+shape, describe())
				return
			}
			if b.exec != nil && b.exec.Failed {
				res = mc.Violation("the cluster rejected a transaction the replay sent", "C18:block-rejected:"+shape, describe())
				return
			}
		}
		// business commands outside any transaction
		for _, r := range glog {
			if r.Txn != 0 || !r.Executed {
				continue
			}
			n := r.Name()
			switch n {
			case "cluster", "ping", "info", "command", "hgetall", "hget", "exists", "zrangebyscore", "select", "asking":
				continue
			}
			if redisd.NonData(n) {
				continue
			}
			if len(r.Argv) > 1 && isBisyncKey(r.Argv[1]) {
				continue
			}
			res = mc.Violation("a business command reached the cluster outside a transaction", "C18:outside-txn:"+shape, describe())
			return
		}
		if single {
			if ended && !unitExecuted {
				res = mc.Violation("a unit whose keys share one slot was refused", "C18:single-slot-refused:"+shape, describe())
				return
			}
			if !unitExecuted {
				res = mc.Violation("a single-slot unit was not applied", "C18:single-slot-missing:"+shape, describe())
				return
			}
			if !afterSeen {
				res = mc.Violation("replay did not continue after a single-slot unit", "C18:stalled:"+shape, describe())
				return
			}
		} else {
			if unitSeen {
				res = mc.Violation("part of a multi-slot unit was sent to the cluster", "C18:multi-slot-partially-sent:"+shape, describe())
				return
			}
			if !ended || sendErr == nil {
				res = mc.Violation("a multi-slot unit did not stop the replay with an error", "C18:multi-slot-not-refused:"+shape, describe())
				return
			}
			if afterSeen {
				res = mc.Violation("replay went on past a multi-slot unit", "C18:multi-slot-skipped:"+shape, describe())
				return
			}
		}
		_ = slot
		var lines []string
		for _, r := range glog {
			if r.Name() != "cluster" {
				lines = append(lines, fmt.Sprintf("n%d %s", r.Node, maskVolatile(r.String())))
			}
		}
		res = mc.OK(mc.Hash(lines...), true, 3)
	})
	if msg != "" {
		return mc.Result{Verdict: "machinery", Clause: "bubble: " + msg}, seen, hit
	}
	return res, seen, hit
}

// c18SnapExec: a snapshot with three string keys is replayed through the real start sequence
// (SendRdb in bidirectional mode) into the cluster double. Every transaction the cluster
// receives must address one slot by the reference, go to that slot's owner and succeed, and
// afterwards every snapshot key must be held - under the name the configuration asks for - by
// the node that owns that name's slot.
func c18SnapExec(t *testing.T, scn c18Scenario) mc.Result {
	var res mc.Result
	msg := bubble(t, func() {
		biEnvReset()
		cl := clusterd.New(clusterAddrs, clusterd.EvenLayout(len(clusterAddrs)))
		rc := clusterCfg()
		nodeOf := func(key string) *redisd.Server { return cl.Nodes[cl.Owner(ref.HashSlotS(key))] }
		var keys []ref.RDBKey
		names := append([]string{"first"}, scn.Unit.Keys...)
		for i, k := range names {
			keys = append(keys, ref.RDBKey{DB: 0, Key: []byte(k), Val: &ref.RValue{Type: 's', Str: []byte(fmt.Sprintf("v%d", i))}, Enc: ref.RDBEnc{Kind: "raw"}, Idle: -1, Freq: -1})
		}
		g, err := ref.GenRDB(ref.RDBFileOpt{Version: 11, Aux: true}, keys)
		if err != nil {
			res = mc.Result{Verdict: "machinery", Clause: "rdb generator: " + err.Error()}
			return
		}
		for _, gv := range g.Values {
			for i, k := range names {
				if k == string(gv.Key) {
					for _, n := range cl.Nodes {
						n.RegisterRestorable(gv.Body, &redisd.Value{T: 's', Str: []byte(fmt.Sprintf("v%d", i))})
					}
				}
			}
		}
		biBootRDB = g.File
		biBootCfgHook = func(c *RedisOutputConfig) {
			c.ReplaceHashTag = scn.HashTag
			if scn.Restore {
				c.MaxProtoBulkLen = 512 * 1024 * 1024
			}
		}
		boot := biBootWith(scn.Cfg, rc, "src", aofRunID, aofS0, true, nodeOf)
		glog := cl.GlobalLog()
		describe := func() map[string]interface{} {
			var lines []string
			for _, r := range glog {
				if r.Name() == "cluster" || r.Name() == "ping" || r.Name() == "hgetall" || r.Name() == "exists" && len(r.Argv) > 1 && isBisyncKey(r.Argv[1]) {
					continue
				}
				if len(r.Argv) > 1 && isBisyncKey(r.Argv[1]) && r.Txn == 0 {
					continue
				}
				lines = append(lines, fmt.Sprintf("n%d %s -> %s", r.Node, maskVolatile(r.String()), r.Reply))
			}
			return map[string]interface{}{"log": lines, "boot_error": fmt.Sprint(boot.err), "snapshot_keys": names, "replace_hash_tag": scn.HashTag}
		}
		shape := fmt.Sprintf("snap:%s", scn.Cfg.Mode)
		for _, n := range cl.Nodes {
			if len(n.MachineryErrors) > 0 {
				res = mc.Result{Verdict: "machinery", Clause: "double: " + strings.Join(n.MachineryErrors, "; ")}
				return
			}
		}
		type blk struct {
			node int
			slot int
			exec *redisd.Req
		}
		blocks := map[string]*blk{}
		for _, r := range glog {
			if r.Txn == 0 {
				continue
			}
			id := fmt.Sprintf("%d/%d", r.Node, r.Txn)
			b := blocks[id]
			if b == nil {
				b = &blk{node: r.Node, slot: -1}
				blocks[id] = b
			}
			if r.Name() == "exec" {
				b.exec = r
				continue
			}
			ks, ok := redisd.CommandKeys(r.Argv)
			if !ok {
				continue
			}
			for _, k := range ks {
				sl := ref.HashSlot(k)
				if b.slot == -1 {
					b.slot = sl
				} else if sl != b.slot {
					res = mc.Violation("a transaction sent to the cluster addresses more than one slot", "C18:multi-slot-block:"+shape, describe())
					return
				}
			}
		}
		for _, b := range blocks {
			if b.slot >= 0 && cl.Owner(b.slot) != b.node {
				res = mc.Violation("a transaction was sent to a node that does not own its slot", "C18:wrong-node:"+shape, describe())
				return
			}
			if b.exec != nil && b.exec.Failed {
				res = mc.Violation("the cluster rejected a transaction the replay sent", "C18:block-rejected:"+shape, describe())
				return
			}
		}
		if boot.err != nil {
			res = mc.Violation("a snapshot of single-key entries was refused", "C18:single-slot-refused:"+shape, describe())
			return
		}
		for i, k := range names {
			want := k
			if scn.HashTag {
				want = strings.Replace(strings.Replace(k, "{", "", 1), "}", "", 1)
			}
			v := nodeOf(want).Get(0, want)
			if v == nil || string(v.Str) != fmt.Sprintf("v%d", i) {
				res = mc.Violation("a snapshot key is not held by the owner of its slot after the replay", "C18:snapshot-key-missing:"+shape, describe())
				return
			}
		}
		var lines []string
		for _, r := range glog {
			if r.Txn != 0 {
				lines = append(lines, fmt.Sprintf("n%d %s", r.Node, maskVolatile(r.String())))
			}
		}
		res = mc.OK(mc.Hash(lines...), true, len(names))
	})
	if msg != "" {
		return mc.Result{Verdict: "machinery", Clause: "bubble: " + msg}
	}
	return res
}

func runC18(t *testing.T, rep *mc.Reporter) {
	shard, nshards := mc.ShardOf()
	tier := mc.Tier()
	budget := &mc.Budget{Deadline: mc.DeadlineFromEnv()}
	if rp, err := mc.LoadReplay(); err != nil {
		rep.Machinery("cannot load replay: "+err.Error(), nil)
		return
	} else if rp != nil {
		var cs c11sScenario
		if json.Unmarshal(rp.Scenario, &cs) == nil && cs.Family == "chose" {
			rep.Exec(cs, nil, c11sExec(cs))
			return
		}
		var xs c18xScenario
		if json.Unmarshal(rp.Scenario, &xs) == nil && xs.Family == "xafterx" {
			rep.Exec(xs, nil, c18xExec(t, xs))
			return
		}
		var scn c18Scenario
		if err := json.Unmarshal(rp.Scenario, &scn); err != nil {
			rep.Machinery("bad replay scenario: "+err.Error(), nil)
			return
		}
		if scn.Snap {
			rep.Exec(scn, nil, c18SnapExec(t, scn))
			return
		}
		rep.Exec(scn, nil, c18Exec(t, scn))
		return
	}
	pool := c18KeyPool
	modes := []biCfg{{"sync", 2}, {"pipeline", 2}, {"parallel", 2}}
	if tier != "thorough" {
		pool = []string{"{t}x", "y{t}", "{t}{u}", "{}{t}", "{{t}}", "plain", "{u}z", "{\u8ba2\u5355}x", "caf\xe9", c18LongTagged}
	}
	var units []c18Unit
	for _, k := range pool {
		units = append(units, c18Unit{"set", []string{k}}, c18Unit{"foo", []string{k}}, c18Unit{"xgroup", []string{k}})
	}
	for _, kind := range []string{"del", "mset", "rename", "smove", "bitop", "eval", "evalA", "evalB", "txn", "txndel", "txnflt", "delflt", "msetflt", "txndelflt",
		"sortstore", "sortstore2", "zunionstore", "zinterstore1", "sunionstore", "pfmerge", "lmpop", "geostore", "copy", "lmove"} {
		for _, a := range pool {
			for _, b := range pool {
				units = append(units, c18Unit{kind, []string{a, b}})
			}
		}
	}
	// VERIF_FAMILY restricts the run to one family: other checks include families of this harness
	// as parts (C11 includes "snap": the slot a snapshot unit is given is a key-to-slot computation)
	fam := os.Getenv("VERIF_FAMILY")
	idx := 0
	if fam != "" {
		units = nil
	}
	for _, u := range units {
		for _, m := range modes {
			idx++
			if idx%nshards != shard || budget.Expired() {
				continue
			}
			scn := c18Scenario{Unit: u, Cfg: m, Filter: strings.HasSuffix(u.Kind, "flt")}
			rep.Scenario()
			res := c18Exec(t, scn)
			if res.Verdict == "violation" {
				r2 := c18Exec(t, scn)
				if r2.Verdict != res.Verdict || r2.Sig != res.Sig {
					res = mc.Result{Verdict: "machinery", Clause: fmt.Sprintf("violation not reproducible: %s vs %s/%s", res.Sig, r2.Verdict, r2.Sig)}
				}
			}
			rep.Exec(scn, nil, res)
		}
	}
	// ---- family "big": one source transaction with far more commands than any per-transaction or
	// buffer constant (1100 and 70 000; 300 000 in thorough), keys in one slot (never refused, one
	// block) and in two slots (refused before anything of it is sent)
	if fam == "" || fam == "big" {
		sizes := []int{1100, 70000}
		if tier == "thorough" {
			sizes = append(sizes, 300000)
		}
		for _, n := range sizes {
			for _, ks := range [][]string{{"{t}x", "y{t}"}, {"{t}x", "{u}z"}} {
				for _, m := range modes {
					idx++
					if idx%nshards != shard || budget.Expired() {
						continue
					}
					scn := c18Scenario{Unit: c18Unit{"txnbig", ks}, Cfg: m, Big: n}
					rep.Scenario()
					res := c18Exec(t, scn)
					if res.Verdict == "violation" {
						r2 := c18Exec(t, scn)
						if r2.Verdict != res.Verdict || r2.Sig != res.Sig {
							res = mc.Result{Verdict: "machinery", Clause: fmt.Sprintf("violation not reproducible: %s vs %s/%s", res.Sig, r2.Verdict, r2.Sig)}
						}
					}
					rep.Exec(scn, nil, res)
				}
			}
		}
	}
	// ---- family "X after X": a later command of the same name and argument count with its keys at
	// other positions, in one run of the tool (c18x_test.go)
	if fam == "" || fam == "xafterx" {
		c18xFamily(t, rep, tier, shard, nshards, budget, &idx)
	}
	// ---- family "chose" (part of C11 only): the checkpoint-key search over a reused buffer (c11s_test.go)
	if fam == "snap" || fam == "chose" {
		c11sFamily(rep, tier, shard, nshards, budget, &idx)
	}
	// ---- snapshot lane: entries of a snapshot are replay units too; with replay.replaceHashTag the
	// key that is written differs from the key in the snapshot
	snapKeys := [][]string{{"user{tag}", "{t}x"}, {"order{42", "a}b{c}"}, {"plain", "{}{t}"}, {c18LongTagged, c18LongPlain}}
	if tier == "thorough" {
		snapKeys = append(snapKeys, []string{"{{t}}", "}{t}"}, []string{"t}{", "y{t}"}, []string{"{t}{u}", "{u}z"})
	}
	if fam != "" && fam != "snap" {
		snapKeys = nil
	}
	for _, ks := range snapKeys {
		for _, m := range modes {
			for _, ht := range []bool{false, true} {
				for _, rs := range []bool{true, false} {
					idx++
					if idx%nshards != shard || budget.Expired() {
						continue
					}
					scn := c18Scenario{Unit: c18Unit{"snapshot", ks}, Cfg: m, Snap: true, HashTag: ht, Restore: rs}
					rep.Scenario()
					res := c18SnapExec(t, scn)
					if res.Verdict == "violation" {
						r2 := c18SnapExec(t, scn)
						if r2.Verdict != res.Verdict || r2.Sig != res.Sig {
							res = mc.Result{Verdict: "machinery", Clause: fmt.Sprintf("violation not reproducible: %s vs %s/%s", res.Sig, r2.Verdict, r2.Sig)}
						}
					}
					rep.Exec(scn, nil, res)
				}
			}
		}
	}
	// ---- preemption family: every wake-up statement of syncer/bisync.go (close, send, go, Unlock,
	// Done, Close) is a point at which the running goroutine may step aside for the one it woke;
	// all placements of up to `pbound` preemptions, for refused and accepted units in every mode
	pbound := 1
	pkinds := []string{"mset", "txn"}
	ppool := []string{"{t}x", "{u}z"}
	if tier == "thorough" {
		pbound = 2
		pkinds = []string{"set", "mset", "eval", "txn", "txnflt"}
	}
	if fam != "" && fam != "preempt" {
		pkinds = nil
	}
	for _, kind := range pkinds {
		for _, a := range ppool {
			for _, b := range ppool {
				for _, m := range modes {
					idx++
					if idx%nshards != shard || budget.Expired() {
						continue
					}
					scn := c18Scenario{Unit: c18Unit{kind, []string{a, b}}, Cfg: m, Filter: kind == "txnflt", Preempt: true}
					rep.Scenario()
					explorePreempt(rep, budget, pbound, func(plan []string, res mc.Result) {
						s := scn
						s.Plan = plan
						rep.Exec(s, nil, res)
					}, func(plan []string) (mc.Result, []string, []string) {
						s := scn
						s.Plan = plan
						return c18ExecPlan(t, s)
					})
				}
			}
		}
	}
	if budget.Expired() {
		rep.Capped("deadline reached before all scenarios were explored")
	}
}

package syncer

import (
	"testing"
	"time"

	"github.com/mgtv-tech/redis-GunYu/verifshim/mc"
)

// ---------------------------------------------------------------------------
// C14, family 'lives': a namespace lives through SEVERAL processes, each of which replays a part of the
// stream. The other standalone plans end a life either by a crash (one or two per history) or after the
// whole stream; every later start is idle. Here the history is cut into lives by orderly stops between
// units (scenario field Stops: the run under way is stopped in front of symbol k once it has replayed
// at least one item; the 100 ms frontier flush has fired before the stop, the stop without it costs a
// deviation), combined with
//   - a first full sync that replays a snapshot of SnapKeys keys (its units come before the
//     incremental ones and take part in whatever the tool numbers its units with),
//   - one crash at every request position of the FIRST life (CrashLives = 1; the start sequence and the
//     snapshot phase included), so that the later lives start from whatever recovery records a crashed
//     first life leaves behind and then add, store and collect records of their own,
//   - one idle restart after the stream has completed.
// What one life stores (frontier, journal records, sequence numbers handed out) is input of every later
// life, not only of the next one: a record that is harmless at the next start can meet the numbering of
// a later life.
//
// Dimensions: unit sequence (alphabet {w1, t2}, exact length L) x every non-empty set of stop positions
// (2..L) x SnapKeys x mode configuration x crash point in life 1 x (deviation-bounded) frontier-flush
// timing. Oracle: oracleC14 over the whole history; signatures carry ":lives" behind the mode
// (C14:resume-regressed:<mode>:lives:<kind>, C14:skip:<mode>:lives, C14:repeat:sync:lives, ...).

func c14StopHere(stops []int, used []bool, sym int) bool {
	for i, s := range stops {
		if s == sym && !used[i] {
			used[i] = true
			return true
		}
	}
	return false
}

// c14LivesFamily enumerates the scenarios of family 'lives'.
func c14LivesFamily(t *testing.T, rep *mc.Reporter, tier string, shard, nshards int, idx *int, budget *mc.Budget,
	exec func(scn c14Scenario, ch *mc.Chooser) mc.Result, only bool) {
	allCfg := []biCfg{{"pipeline", 2}, {"parallel", 2}, {"pipeline", 1}, {"sync", 2}}
	type plan struct {
		alpha []string
		L     int
		snaps []int
		bound int
		cfgs  []biCfg
	}
	plans := []plan{
		{[]string{"w1", "t2"}, 3, []int{3, 4}, 0, allCfg},
		{[]string{"w1"}, 4, []int{4}, 0, allCfg[:2]},
	}
	share := 40 * time.Second
	if tier == "thorough" {
		plans = []plan{
			{[]string{"w1", "t2"}, 3, []int{0, 1, 2, 3, 4, 5}, 1, allCfg},
			{[]string{"w1", "t2"}, 4, []int{2, 3, 4, 5}, 0, allCfg},
			{[]string{"w1"}, 5, []int{3, 4, 5, 6}, 0, allCfg},
		}
		share = 0
	}
	// the family has its own share of the deadline (quick: 40 s, thorough: 15%); what it does not finish
	// is reported as capped
	if !budget.Deadline.IsZero() && !only { // only: development aid (VERIF_FAMILY=lives), the whole deadline
		if share == 0 {
			share = time.Until(budget.Deadline) * 15 / 100
		}
		if d := time.Now().Add(share); d.Before(budget.Deadline) {
			budget = &mc.Budget{Deadline: d}
		}
		fb := budget
		defer func() {
			if fb.Expired() {
				rep.Capped("family 'lives': its share of the deadline is used up")
			}
		}()
	}
	for _, pl := range plans {
		pl := pl
		enumSeqs(pl.alpha, pl.L, func(seq []string) {
			if len(seq) != pl.L {
				return
			}
			// every non-empty set of stop positions 2..L (a stop in front of symbol 1 would be a life
			// without traffic: the idle restarts of the other plans)
			for mask := 1; mask < 1<<uint(pl.L-1); mask++ {
				var stops []int
				for k := 2; k <= pl.L; k++ {
					if mask&(1<<uint(k-2)) != 0 {
						stops = append(stops, k)
					}
				}
				for _, snap := range pl.snaps {
					for _, cfg := range pl.cfgs {
						*idx++
						if *idx%nshards != shard || budget.Expired() {
							continue
						}
						scn := c14Scenario{Syms: append([]string{"s0"}, seq...), Cfg: cfg, MaxCrashes: 1, CrashLives: 1, Idle: 1, SnapKeys: snap, Stops: stops}
						mc.RunScenario(rep, scn, pl.bound, budget, func(ch *mc.Chooser) mc.Result { return exec(scn, ch) })
					}
				}
			}
		})
	}
}

package syncer

import (
	"bytes"
	"context"
	"crypto/sha1"
	"encoding/hex"
	"fmt"
	"strconv"
	"strings"
	"testing"
	"testing/synctest"

	"github.com/mgtv-tech/redis-GunYu/verifshim/clusterd"
	"github.com/mgtv-tech/redis-GunYu/verifshim/mc"
	"github.com/mgtv-tech/redis-GunYu/verifshim/redisd"
	"github.com/mgtv-tech/redis-GunYu/verifshim/ref"
)

// ---------------------------------------------------------------------------
// C18, family "X after X": state carried from one command to a LATER command of the same name and
// the same argument count in ONE run of the tool.
//
// A stream of two units (three in thorough) of one command kind is replayed by one RedisOutput into
// the cluster double. Every unit is a shape of that kind: the shapes of a kind have the same
// command name and the same number of arguments, but their keys sit at different argument positions
// (an option moved, another numkeys value, another place of STREAMS / KEYS / TO). The earlier units
// have their keys in one slot, so they are accepted - whatever the tool has derived from them is in
// place when the last unit arrives. The arguments of the last unit that are keys or free strings
// in its shape (BY/GET pattern, script argument, value, note) take every value of a key pool, so
// that it has (a) keys of two slots while the arguments at another shape's key positions share a
// slot, (b) keys of one slot while the arguments at another shape's key positions are spread over
// two slots, and everything between. Every ordered sequence of shapes is enumerated, the same shape
// twice included.
//
// The reference is the cluster double's own key table (redisd.CommandKeysSpec, written from the
// Redis key specs; it also answers COMMAND GETKEYS) with the reference HASH_SLOT. Oracle = the
// clauses of C18: every MULTI/EXEC block a node receives addresses one slot, goes to the owner and
// is accepted; nothing outside a transaction; a stream of single-slot units is never refused and
// applied completely; the first unit with keys of two slots stops Send with an error, nothing of it
// is received by any node (COMMAND GETKEYS apart) and nothing behind it is applied.

type c18xKind struct {
	Name   string
	Quick  bool
	Shapes [][]string // "$0".."$n": arguments that are keys or free strings of the shape
}

// SHA1 of the script "return 1"; every node has it in its script cache (a SCRIPT LOAD replicated earlier)
const c18xScript = "return 1"

var c18xSha = func() string { s := sha1.Sum([]byte(c18xScript)); return hex.EncodeToString(s[:]) }()

var c18xKinds = []c18xKind{
	// SORT: the extractor gives up on BY/GET patterns (COMMAND GETKEYS decides); STORE anywhere
	{"sortby", true, [][]string{{"SORT", "$0", "BY", "$1", "STORE", "$2"}, {"SORT", "$0", "STORE", "$1", "BY", "$2"}}},
	{"sortget", true, [][]string{{"SORT", "$0", "GET", "$1", "STORE", "$2"}, {"SORT", "$0", "STORE", "$1", "GET", "$2"}}},
	{"sortlimit", true, [][]string{{"SORT", "$0", "LIMIT", "0", "5", "STORE", "$1"}, {"SORT", "$0", "STORE", "$1", "LIMIT", "0", "5"}, {"SORT", "$0", "ALPHA", "DESC", "LIMIT", "0", "5"}}},
	// STORE repeated: the LAST destination counts
	{"sortstore3", true, [][]string{{"SORT", "$0", "STORE", "$1", "STORE", "$2"}, {"SORT", "$0", "ALPHA", "DESC", "STORE", "$1"}}},
	{"sortstore2", true, [][]string{{"SORT", "$0", "STORE", "$0", "STORE", "$1"}, {"SORT", "$0", "ALPHA", "DESC", "STORE", "$1"}, {"SORT", "$0", "STORE", "$1", "ALPHA", "DESC"}}},
	// numkeys-counted lists
	{"eval", true, [][]string{{"EVAL", "return 1", "1", "$0", "$1"}, {"EVAL", "return 1", "2", "$0", "$1"}}},
	{"evalsha", true, [][]string{{"EVALSHA", c18xSha, "1", "$0", "$1"}, {"EVALSHA", c18xSha, "2", "$0", "$1"}}},
	{"fcall", true, [][]string{{"FCALL", "fn", "1", "$0", "$1"}, {"FCALL", "fn", "2", "$0", "$1"}}},
	{"zunionstore", true, [][]string{{"ZUNIONSTORE", "$0", "2", "$1", "$2", "WEIGHTS", "1", "2"}, {"ZUNIONSTORE", "$0", "1", "$1", "WEIGHTS", "1", "AGGREGATE", "MAX"}}},
	{"zinterstore", true, [][]string{{"ZINTERSTORE", "$0", "2", "$1", "$2", "WEIGHTS", "1", "2"}, {"ZINTERSTORE", "$0", "1", "$1", "WEIGHTS", "1", "AGGREGATE", "MAX"}}},
	{"lmpop", true, [][]string{{"LMPOP", "1", "$0", "LEFT", "COUNT", "5"}, {"LMPOP", "3", "$0", "$1", "$2", "LEFT"}}},
	{"zmpop", true, [][]string{{"ZMPOP", "1", "$0", "MIN", "COUNT", "5"}, {"ZMPOP", "3", "$0", "$1", "$2", "MIN"}}},
	{"blmpop", true, [][]string{{"BLMPOP", "0", "1", "$0", "LEFT", "COUNT", "5"}, {"BLMPOP", "0", "3", "$0", "$1", "$2", "LEFT"}}},
	{"bzmpop", false, [][]string{{"BZMPOP", "0", "1", "$0", "MAX", "COUNT", "5"}, {"BZMPOP", "0", "3", "$0", "$1", "$2", "MAX"}}},
	// option-introduced destination
	{"georadius", true, [][]string{{"GEORADIUS", "$0", "0", "0", "1", "km", "ASC", "STORE", "$1"}, {"GEORADIUS", "$0", "0", "0", "1", "km", "STOREDIST", "$1", "ASC"}, {"GEORADIUS", "$0", "0", "0", "1", "km", "ASC", "COUNT", "3"}}},
	{"georadiusbymember", false, [][]string{{"GEORADIUSBYMEMBER", "$0", "$1", "1", "km", "ASC", "STORE", "$2"}, {"GEORADIUSBYMEMBER", "$0", "$1", "1", "km", "STOREDIST", "$2", "ASC"}, {"GEORADIUSBYMEMBER", "$0", "$1", "1", "km", "ASC", "COUNT", "3"}}},
	// keys behind a marker word
	{"xreadgroup", true, [][]string{{"XREADGROUP", "GROUP", "g", "c", "STREAMS", "$0", "$1", "0", "0"}, {"XREADGROUP", "GROUP", "g", "c", "COUNT", "5", "STREAMS", "$0", "0"}}},
	// module commands: unknown to every static table, keys only through COMMAND GETKEYS. FOO.MIGRATE
	// has MIGRATE's layout (one key, or "" and a KEYS list at the end; MIGRATE itself is on the tool's
	// list of commands that are never replayed), FOO.COPY a destination behind the word TO
	{"foomigrate", true, [][]string{{"FOO.MIGRATE", "h", "6379", "", "0", "100", "KEYS", "$0", "$1"}, {"FOO.MIGRATE", "h", "6379", "$0", "0", "100", "COPY", "AUTH", "pw"}}},
	{"foocopy", true, [][]string{{"FOO.COPY", "$0", "NOTE", "$1", "TO", "$2"}, {"FOO.COPY", "$0", "TO", "$1", "NOTE", "$2"}}},
	{"fooset", true, [][]string{{"FOO.SET", "$0", "$1"}}},
	// container commands: the key follows the subcommand
	{"memory", true, [][]string{{"MEMORY", "USAGE", "$0", "SAMPLES", "5"}}},
	{"object", true, [][]string{{"OBJECT", "FREQ", "$0"}}},
}

// the earlier units' values: unit 0 entirely in the slot of tag t, unit 1 in the slot of tag u;
// none of them is a member of the pool of the last unit
var c18xFixed = [][]string{
	{"a{t}", "{t}b", "c{t}{u}", "{t}d"},
	{"{u}a", "b{u}", "{u}c{t}", "d{u}"},
}

type c18xScenario struct {
	Family string   `json:"family"` // "xafterx"
	Kind   string   `json:"kind"`
	Seq    []int    `json:"seq"`    // shape of every unit of the stream
	Assign []string `json:"assign"` // values of "$0".. of the LAST unit
	Wrap   string   `json:"wrap"`   // "" = the command alone, "txn" = MULTI, SET <its first key>, the command, EXEC
	Cfg    biCfg    `json:"cfg"`
}

func c18xKindOf(name string) *c18xKind {
	for i := range c18xKinds {
		if c18xKinds[i].Name == name {
			return &c18xKinds[i]
		}
	}
	return nil
}

func c18xSlots(shape []string) int {
	n := 0
	for _, a := range shape {
		if strings.HasPrefix(a, "$") {
			if i, err := strconv.Atoi(a[1:]); err == nil && i+1 > n {
				n = i + 1
			}
		}
	}
	return n
}

func c18xFill(shape []string, vals []string) []string {
	out := make([]string, len(shape))
	for i, a := range shape {
		out[i] = a
		if strings.HasPrefix(a, "$") {
			if j, err := strconv.Atoi(a[1:]); err == nil {
				out[i] = vals[j]
			}
		}
	}
	return out
}

func c18xRefKeys(argv []string) ([]string, bool) {
	b := make([][]byte, len(argv))
	for i, a := range argv {
		b[i] = []byte(a)
	}
	ks, ok := redisd.CommandKeysSpec(b)
	if !ok {
		return nil, false
	}
	out := make([]string, len(ks))
	for i, k := range ks {
		out[i] = string(k)
	}
	return out, true
}

type c18xUnit struct {
	stream [][]string // what the source sends
	biz    [][]string // its business commands
	keys   []string   // reference keys of the business commands
	single bool
}

func c18xBuild(scn c18xScenario) ([]c18xUnit, string) {
	kind := c18xKindOf(scn.Kind)
	if kind == nil {
		return nil, "unknown kind " + scn.Kind
	}
	for _, sh := range kind.Shapes {
		if len(sh) != len(kind.Shapes[0]) || !strings.EqualFold(sh[0], kind.Shapes[0][0]) {
			return nil, fmt.Sprintf("template error: the shapes of kind %s differ in name or argument count", kind.Name)
		}
	}
	var units []c18xUnit
	for i, si := range scn.Seq {
		if si < 0 || si >= len(kind.Shapes) {
			return nil, "bad shape index"
		}
		shape := kind.Shapes[si]
		vals := scn.Assign
		if i < len(scn.Seq)-1 {
			if i >= len(c18xFixed) {
				return nil, "stream longer than the fixed values"
			}
			vals = c18xFixed[i]
		}
		if len(vals) < c18xSlots(shape) {
			return nil, "too few values for the shape"
		}
		x := c18xFill(shape, vals)
		ks, ok := c18xRefKeys(x)
		if !ok || len(ks) == 0 {
			return nil, fmt.Sprintf("the reference key table has no keys for %q", x)
		}
		u := c18xUnit{}
		if scn.Wrap == "txn" {
			set := []string{"SET", ks[0], "w" + strconv.Itoa(i)}
			u.stream = [][]string{{"MULTI"}, set, x, {"EXEC"}}
			u.biz = [][]string{set, x}
		} else {
			u.stream = [][]string{x}
			u.biz = [][]string{x}
		}
		u.keys = ks
		u.single = true
		for _, k := range ks[1:] {
			if ref.HashSlotS(k) != ref.HashSlotS(ks[0]) {
				u.single = false
			}
		}
		if i < len(scn.Seq)-1 && !u.single {
			return nil, fmt.Sprintf("template error: earlier unit %q is not single-slot", x)
		}
		units = append(units, u)
	}
	return units, ""
}

func c18xSame(argv [][]byte, cmd []string) bool {
	if len(argv) != len(cmd) || len(argv) == 0 {
		return false
	}
	if !strings.EqualFold(string(argv[0]), cmd[0]) {
		return false
	}
	for i := 1; i < len(cmd); i++ {
		if !bytes.Equal(argv[i], []byte(cmd[i])) {
			return false
		}
	}
	return true
}

func c18xExec(t *testing.T, scn c18xScenario) mc.Result {
	units, bad := c18xBuild(scn)
	if bad != "" {
		return mc.Result{Verdict: "machinery", Clause: "c18x: " + bad}
	}
	var res mc.Result
	msg := bubble(t, func() {
		biEnvReset()
		cl := clusterd.New(clusterAddrs, clusterd.EvenLayout(len(clusterAddrs)))
		cl.UseKeySpecs(redisd.CommandKeysSpec)
		for _, n := range cl.Nodes {
			n.CacheScript(c18xScript)
		}
		rc := clusterCfg()
		cfg := biOutputConfig(scn.Cfg, rc, "src", aofRunID, biFixedCpName)
		cfg.Parallelism = 2
		ro := NewRedisOutput(cfg)
		var raw []byte
		add := func(c []string) { raw = append(raw, redisd.EncodeCommandS(c...)...) }
		before := []string{"SET", "before{t}", "1"}
		after := []string{"SET", "after{u}", "2"}
		add(before)
		for _, u := range units {
			for _, c := range u.stream {
				add(c)
			}
		}
		add(after)
		g := newGate()
		ctx, cancel := context.WithCancel(context.Background())
		done := make(chan error, 1)
		rd := newHReader(g, aofRunID, aofS0, -1, true)
		go func() { done <- ro.Send(ctx, rd) }()
		synctest.Wait()
		g.Release(raw)
		synctest.Wait()
		var sendErr error
		ended := false
		select {
		case sendErr = <-done:
			ended = true
		default:
		}
		glog := cl.GlobalLog()
		cancel()
		g.Close(nil)
		synctest.Wait()
		if !ended {
			<-done
		}
		for _, n := range cl.Nodes {
			if len(n.MachineryErrors) > 0 {
				res = mc.Result{Verdict: "machinery", Clause: "double: " + strings.Join(n.MachineryErrors, "; ")}
				return
			}
		}
		firstMulti := -1
		for i, u := range units {
			if !u.single {
				firstMulti = i
				break
			}
		}
		describe := func() map[string]interface{} {
			var lines, us []string
			for _, r := range glog {
				if r.Name() == "cluster" || r.Name() == "ping" {
					continue
				}
				lines = append(lines, fmt.Sprintf("n%d %s -> %s", r.Node, maskVolatile(r.String()), r.Reply))
			}
			for i, u := range units {
				us = append(us, fmt.Sprintf("unit %d: %q reference keys %q single-slot=%v", i, u.stream, u.keys, u.single))
			}
			return map[string]interface{}{"log": lines, "send_error": fmt.Sprint(sendErr), "ended": ended, "units": us, "first_multi_slot_unit": firstMulti}
		}
		shape := fmt.Sprintf("xafterx:%s:%s", scn.Kind, scn.Cfg.Mode)
		// ---- every MULTI..EXEC block: one slot by the reference key table, on the owner, accepted
		type blk struct {
			node int
			reqs []*redisd.Req
			exec *redisd.Req
		}
		blocks := map[string]*blk{}
		var order []string
		for _, r := range glog {
			if r.Txn == 0 {
				continue
			}
			id := fmt.Sprintf("%d/%d", r.Node, r.Txn)
			if blocks[id] == nil {
				blocks[id] = &blk{node: r.Node}
				order = append(order, id)
			}
			blocks[id].reqs = append(blocks[id].reqs, r)
			if r.Name() == "exec" {
				blocks[id].exec = r
			}
		}
		for _, id := range order {
			b := blocks[id]
			bslot := -1
			for _, r := range b.reqs {
				n := r.Name()
				if n == "multi" || n == "exec" {
					continue
				}
				ks, ok := redisd.CommandKeysSpec(r.Argv)
				if !ok {
					continue
				}
				for _, k := range ks {
					s := ref.HashSlot(k)
					if bslot == -1 {
						bslot = s
					} else if s != bslot {
						res = mc.Violation("a transaction sent to the cluster addresses more than one slot", "C18:multi-slot-block:"+shape, describe())
						return
					}
				}
			}
			if bslot >= 0 && cl.Owner(bslot) != b.node {
				res = mc.Violation("a transaction was sent to a node that does not own its slot", "C18:wrong-node:"+shape, describe())
				return
			}
			if b.exec != nil && b.exec.Failed {
				res = mc.Violation("the cluster rejected a transaction the replay sent", "C18:block-rejected:"+shape, describe())
				return
			}
		}
		// ---- which commands of the stream were received / applied
		seen := func(cmd []string) bool {
			for _, r := range glog {
				if c18xSame(r.Argv, cmd) {
					return true
				}
			}
			return false
		}
		applied := func(cmd []string) bool {
			for _, r := range glog {
				if r.Txn != 0 && r.Executed && c18xSame(r.Argv, cmd) {
					return true
				}
			}
			return false
		}
		isStream := func(r *redisd.Req) bool {
			if c18xSame(r.Argv, before) || c18xSame(r.Argv, after) {
				return true
			}
			for _, u := range units {
				for _, c := range u.biz {
					if c18xSame(r.Argv, c) {
						return true
					}
				}
			}
			return false
		}
		for _, r := range glog {
			if r.Txn != 0 || !r.Executed {
				continue
			}
			n := r.Name()
			switch n {
			case "cluster", "ping", "info", "command", "hgetall", "hget", "exists", "zrangebyscore", "select", "asking":
				continue
			}
			if len(r.Argv) > 1 && isBisyncKey(r.Argv[1]) {
				continue
			}
			if redisd.NonData(n) && !isStream(r) {
				continue
			}
			res = mc.Violation("a business command reached the cluster outside a transaction", "C18:outside-txn:"+shape, describe())
			return
		}
		unitApplied := func(u c18xUnit) bool {
			for _, c := range u.biz {
				if !applied(c) {
					return false
				}
			}
			return true
		}
		if firstMulti < 0 {
			for _, u := range units {
				if unitApplied(u) {
					continue
				}
				if ended {
					res = mc.Violation("a unit whose keys share one slot was refused", "C18:single-slot-refused:"+shape, describe())
				} else {
					res = mc.Violation("a single-slot unit was not applied", "C18:single-slot-missing:"+shape, describe())
				}
				return
			}
			if ended {
				res = mc.Violation("the replay of single-slot units ended", "C18:single-slot-refused:"+shape, describe())
				return
			}
			if !applied(after) {
				res = mc.Violation("replay did not continue after single-slot units", "C18:stalled:"+shape, describe())
				return
			}
		} else {
			for _, c := range units[firstMulti].biz {
				if seen(c) {
					res = mc.Violation("part of a multi-slot unit was sent to the cluster", "C18:multi-slot-partially-sent:"+shape, describe())
					return
				}
			}
			if !ended || sendErr == nil {
				res = mc.Violation("a multi-slot unit did not stop the replay with an error", "C18:multi-slot-not-refused:"+shape, describe())
				return
			}
			for _, u := range units[firstMulti+1:] {
				for _, c := range u.biz {
					if seen(c) {
						res = mc.Violation("replay went on past a multi-slot unit", "C18:multi-slot-skipped:"+shape, describe())
						return
					}
				}
			}
			if seen(after) {
				res = mc.Violation("replay went on past a multi-slot unit", "C18:multi-slot-skipped:"+shape, describe())
				return
			}
		}
		var lines []string
		for _, r := range glog {
			if r.Name() != "cluster" {
				lines = append(lines, fmt.Sprintf("n%d %s", r.Node, maskVolatile(r.String())))
			}
		}
		res = mc.OK(mc.Hash(lines...), true, len(units)+2)
	})
	if msg != "" {
		return mc.Result{Verdict: "machinery", Clause: "bubble: " + msg}
	}
	return res
}

// c18xFamily enumerates kind x ordered shape sequence x values of the last unit x wrap x mode.
func c18xFamily(t *testing.T, rep *mc.Reporter, tier string, shard, nshards int, budget *mc.Budget, idx *int) {
	modes := []biCfg{{"sync", 2}, {"pipeline", 2}, {"parallel", 2}}
	// two keys of slot(t) in different brace arrangements, one of slot(u), one plain with a byte >= 0x80
	pool := []string{"{t}x", "{t}{u}", "{u}z", "caf\xe9"}
	lengths := []int{2}
	if tier == "thorough" {
		pool = []string{"{t}x", "{t}{u}", "{u}z", "caf\xe9", "y{t}", "{订单}x"}
		lengths = []int{2, 3}
	}
	for ki := range c18xKinds {
		kind := &c18xKinds[ki]
		if tier != "thorough" && !kind.Quick {
			continue
		}
		ns := len(kind.Shapes)
		for _, ln := range lengths {
			total := 1
			for i := 0; i < ln; i++ {
				total *= ns
			}
			for code := 0; code < total; code++ {
				seq := make([]int, ln)
				c := code
				for i := 0; i < ln; i++ {
					seq[i] = c % ns
					c /= ns
				}
				f := c18xSlots(kind.Shapes[seq[ln-1]])
				na := 1
				for i := 0; i < f; i++ {
					na *= len(pool)
				}
				for ac := 0; ac < na; ac++ {
					assign := make([]string, f)
					a := ac
					for i := 0; i < f; i++ {
						assign[i] = pool[a%len(pool)]
						a /= len(pool)
					}
					for _, wrap := range []string{"", "txn"} {
						for _, m := range modes {
							*idx++
							if *idx%nshards != shard || budget.Expired() {
								continue
							}
							scn := c18xScenario{Family: "xafterx", Kind: kind.Name, Seq: seq, Assign: assign, Wrap: wrap, Cfg: m}
							rep.Scenario()
							res := c18xExec(t, scn)
							if res.Verdict == "violation" {
								r2 := c18xExec(t, scn)
								if r2.Verdict != res.Verdict || r2.Sig != res.Sig {
									res = mc.Result{Verdict: "machinery", Clause: fmt.Sprintf("violation not reproducible: %s vs %s/%s", res.Sig, r2.Verdict, r2.Sig)}
								}
							}
							rep.Exec(scn, nil, res)
						}
					}
				}
			}
		}
	}
}

package syncer

// C12, parts that need the tool's own code around the decoder:
//
//	parse:        the stream goes through the real RedisOutput.parseAofCommand (NewDecoder,
//	              MustDecodeOpt, ParseArgs and the tool's own `startOffset + incrOffset`,
//	              output.go:703/:775/:793) with start offsets 0, 1000 and 2^32+7 and with
//	              and without a start database; judged on the cmdExecution values it emits.
//	encode-typed: proto.Writer.WriteArgs with the typed arguments the tool itself sends
//	              (the checkpoint offset is an int64: `hset <key> <runid>_offset <int64>`),
//	              and client.NewCommand with an int64 (`replconf ack <offset>`).

import (
	"bufio"
	"bytes"
	"errors"
	"fmt"
	"io"
	"math"
	"net"
	"strconv"
	"strings"
	"time"

	"github.com/mgtv-tech/redis-GunYu/config"
	"github.com/mgtv-tech/redis-GunYu/pkg/redis/client"
	cluster "github.com/mgtv-tech/redis-GunYu/pkg/redis/client/cluster"
	"github.com/mgtv-tech/redis-GunYu/pkg/redis/client/proto"
	usync "github.com/mgtv-tech/redis-GunYu/pkg/sync"
	"github.com/mgtv-tech/redis-GunYu/verifshim/mc"
)

var c12Starts = []int64{0, 1000, 1<<32 + 7}

func c12Output(startDb int) *RedisOutput {
	rc := config.RedisConfig{Addresses: []string{"target:6379"}, Type: config.RedisTypeStandalone, Otype: config.RedisTypeStandalone, Version: "7.2.0"}
	ro := NewRedisOutput(RedisOutputConfig{InputName: "src", CheckpointName: config.CheckpointKey, Redis: rc, KeyExists: "replace", TargetDb: -1,
		ReplayRdbParallel: 1, ReplayRdbEnableRestore: true, Stats: config.OutputStats{DisableLog: true}})
	ro.startDbId = startDb // what StartPoint() sets from the stored checkpoint
	return ro
}

// c12ParseRun: one pass of the real parser over the stream.
func c12ParseRun(data []byte, cmds []c12Cmd, ends []int64, buf int, fr *fragReader, start int64, startDb int) *c12Fail {
	ro := c12Output(startDb)
	sendBuf := make(chan cmdExecution, len(cmds)+4) // never blocks: the call is synchronous
	wc := usync.NewWaitCloser(func(error) {})
	err := ro.parseAofCommand(wc, bufio.NewReaderSize(fr, buf), start, sendBuf)
	wc.Close(nil)
	close(sendBuf)
	var outs []cmdExecution
	for c := range sendBuf {
		outs = append(outs, c)
	}
	if !errors.Is(err, io.EOF) {
		return &c12Fail{"the parser does not end with io.EOF on a well-formed stream", "error", map[string]interface{}{"err": fmt.Sprint(err)}}
	}
	db := -1
	if startDb > 0 {
		if len(outs) == 0 || outs[0].Cmd != "select" || outs[0].Offset != start || outs[0].Db != startDb {
			return &c12Fail{"the SELECT of the start database does not carry the start offset", "offset", map[string]interface{}{"start": start, "outputs": len(outs)}}
		}
		outs = outs[1:]
	}
	if len(outs) != len(cmds) {
		kind := "phantom"
		if len(outs) < len(cmds) {
			kind = "lost"
		}
		return &c12Fail{"the parser hands over a different number of commands than the source sent", kind, map[string]interface{}{"got": len(outs), "want": len(cmds)}}
	}
	for i, x := range outs {
		args := make([][]byte, len(x.Args))
		for j, a := range x.Args {
			b, ok := a.([]byte)
			if !ok {
				return &c12Fail{"argument handed to the sender is not the source's byte string", "args", map[string]interface{}{"command_index": i, "arg_index": j, "type": fmt.Sprintf("%T", a)}}
			}
			args[j] = b
		}
		if f := c12Compare(i, cmds[i], x.Cmd, args, "args"); f != nil {
			return f
		}
		if x.Offset != start+ends[i] {
			return &c12Fail{"offset attached to a command differs from start offset + bytes up to and including the command", "offset",
				map[string]interface{}{"command_index": i, "start_offset": start, "attached_offset": x.Offset, "want": start + ends[i]}}
		}
		if x.Db != db {
			return &c12Fail{"command attached to a database the stream never selected", "args", map[string]interface{}{"command_index": i, "db": x.Db}}
		}
	}
	return nil
}

// c12RunParse: all (start offset, start database, reader) variants of one stream.
func c12RunParse(s c12Scn) (mc.Result, int) {
	cmds := s.commands()
	data, ends, _ := s.stream(cmds)
	type rd struct {
		buf int
		one bool
	}
	readers := []rd{{16, false}, {17, true}, {4096, false}}
	starts, dbs := c12Starts, []int{0, 2}
	if s.Frag != "" { // replay of one variant
		readers = []rd{{s.Buf, s.Frag == "1byte"}}
		starts, dbs = []int64{s.Start}, []int{s.StartDb}
	}
	runs := 0
	for _, st := range starts {
		for _, sdb := range dbs {
			for _, r := range readers {
				runs++
				rr, stt, sd := r, st, sdb
				if f := c12Guard(func() *c12Fail {
					return c12ParseRun(data, cmds, ends, rr.buf, &fragReader{data: data, oneByte: rr.one}, stt, sd)
				}); f != nil {
					v := s
					v.Start, v.StartDb, v.Buf, v.Frag = st, sdb, r.buf, "whole"
					if r.one {
						v.Frag = "1byte"
					}
					f.detail["start_offset"] = st
					f.detail["start_db"] = sdb
					f.detail["stream_head"] = q(data)
					res := c12Result(&v, f)
					if f.kind == "offset" {
						res.Sig = "C12:parse:offset:start=" + map[bool]string{true: "0", false: "nonzero"}[st == 0]
						if st > math.MaxInt32 {
							res.Sig = "C12:parse:offset:start>2^31"
						}
					}
					res.Detail = f.detail
					return res, runs
				}
			}
		}
	}
	parts := []string{"parse"}
	for _, c := range s.Cmds {
		parts = append(parts, fmt.Sprint(c))
	}
	parts = append(parts, fmt.Sprint(s.HB))
	if len(s.Lens) > 0 {
		parts = append(parts, fmt.Sprint(s.Lens), strconv.Itoa(s.Buf), s.Frag, strconv.FormatInt(s.Start, 10), strconv.Itoa(s.StartDb))
	}
	return mc.OK(mc.Hash(parts...), true, runs), runs
}

// ---------------------------------------------------------------------------
// typed arguments

type c12Typed struct {
	v    interface{}
	want string // exact text, or "" for floats (judged by value)
}

func c12TypedArgs(off int64) []c12Typed {
	return []c12Typed{
		{"k", "k"}, {"aaaa_offset", "aaaa_offset"},
		{off, strconv.FormatInt(off, 10)}, // the checkpoint offset, an int64
		{int64(0), "0"}, {int64(-1), "-1"}, {int64(1) << 31, "2147483648"}, {int64(1)<<32 + 5, "4294967301"}, {int64(1)<<53 + 1, "9007199254740993"},
		{int64(math.MaxInt64), "9223372036854775807"}, {int64(math.MinInt64), "-9223372036854775808"},
		{uint64(math.MaxUint64), "18446744073709551615"}, {uint64(1) << 63, "9223372036854775808"},
		{int(7), "7"}, {int(-7), "-7"}, {int32(math.MinInt32), "-2147483648"}, {int16(-300), "-300"}, {int8(-128), "-128"},
		{uint(9), "9"}, {uint32(math.MaxUint32), "4294967295"}, {uint16(65535), "65535"}, {uint8(255), "255"},
		{float64(1.5), ""}, {float64(0.1), ""}, {float64(-2.5e-7), ""}, {float64(1e21), ""}, {float64(9007199254740993), ""}, {float32(0.25), ""},
		{[]byte("b\r\n"), "b\r\n"}, {"", ""}, {int64(12), "12"}, // a short number after long ones: the scratch buffer must not leak
	}
}

// c12EncodeTyped: two commands with typed arguments through ONE proto.Writer, read back
// with the RESP-spec parser; integers must be their plain decimal text, floats must
// parse back to the same value.
func c12EncodeTyped(wsize int) *c12Fail {
	var sink bytes.Buffer
	w := proto.NewWriter(&sink, wsize)
	offs := []int64{1<<32 + 7 + 1234, 0}
	for _, off := range offs {
		ta := c12TypedArgs(off)
		ia := []interface{}{"hset"}
		for _, t := range ta {
			ia = append(ia, t.v)
		}
		if err := w.WriteArgs(ia); err != nil {
			return &c12Fail{"WriteArgs fails on a typed argument", "error", map[string]interface{}{"err": err.Error()}}
		}
	}
	if err := w.Flush(); err != nil {
		return &c12Fail{"flush fails", "error", map[string]interface{}{"err": err.Error()}}
	}
	enc := sink.Bytes()
	pos := 0
	for ci, off := range offs {
		ta := c12TypedArgs(off)
		parts, n, err := refParse(enc[pos:])
		if err != nil {
			return &c12Fail{"encoded command is not a well-formed multi-bulk command", "malformed", map[string]interface{}{"command_index": ci, "err": err.Error(), "bytes": q(enc[pos:])}}
		}
		pos += n
		if len(parts) != len(ta)+1 || string(parts[0]) != "hset" {
			return &c12Fail{"encoded command has a different name or argument count", "args", map[string]interface{}{"command_index": ci, "got_parts": len(parts)}}
		}
		for j, t := range ta {
			got := string(parts[j+1])
			bad := false
			switch v := t.v.(type) {
			case float64:
				f, err := strconv.ParseFloat(got, 64)
				bad = err != nil || f != v
			case float32:
				f, err := strconv.ParseFloat(got, 64)
				bad = err != nil || f != float64(v)
			case []byte:
				bad = got != string(v)
			default:
				bad = got != t.want
			}
			if bad {
				return &c12Fail{"typed argument is not encoded as its decimal text", "typed-arg",
					map[string]interface{}{"command_index": ci, "arg_index": j, "go_value": fmt.Sprintf("%T(%v)", t.v, t.v), "encoded": fmt.Sprintf("%q", got), "want": t.want}}
			}
		}
	}
	if pos != len(enc) {
		return &c12Fail{"encoder wrote bytes beyond the commands", "malformed", map[string]interface{}{"extra": q(enc[pos:])}}
	}
	// client.NewCommand + client.Encode, as used for `replconf ack <offset>` / `listening-port <int>`
	for _, off := range []int64{0, 1000, 1<<40 + 3, math.MaxInt64} {
		var b bytes.Buffer
		bw := bufio.NewWriterSize(&b, wsize)
		if err := client.Encode(bw, client.NewCommand("replconf", "ack", off, "port", 6379, []byte("x")), true); err != nil {
			return &c12Fail{"client.Encode fails", "error", map[string]interface{}{"err": err.Error()}}
		}
		parts, n, err := refParse(b.Bytes())
		want := []string{"replconf", "ack", strconv.FormatInt(off, 10), "port", "6379", "x"}
		if err != nil || n != b.Len() || len(parts) != len(want) {
			return &c12Fail{"encoded command is not a well-formed multi-bulk command", "malformed", map[string]interface{}{"bytes": q(b.Bytes())}}
		}
		for i := range want {
			if string(parts[i]) != want[i] {
				return &c12Fail{"typed argument is not encoded as its decimal text", "typed-arg", map[string]interface{}{"arg_index": i, "encoded": fmt.Sprintf("%q", parts[i]), "want": want[i], "via": "client.NewCommand"}}
			}
		}
	}
	return nil
}

// ---------------------------------------------------------------------------
// the cluster connection's own RESP writer (pkg/redis/client/cluster/conn.go): a third
// encoder of the same wire format, used for every send to a cluster target

// c12Sink is an in-memory net.Conn that keeps what is written to it.
type c12Sink struct{ buf bytes.Buffer }

func (s *c12Sink) Read(p []byte) (int, error)         { return 0, io.EOF }
func (s *c12Sink) Write(p []byte) (int, error)        { return s.buf.Write(p) }
func (s *c12Sink) Close() error                       { return nil }
func (s *c12Sink) LocalAddr() net.Addr                { return &net.TCPAddr{} }
func (s *c12Sink) RemoteAddr() net.Addr               { return &net.TCPAddr{} }
func (s *c12Sink) SetDeadline(t time.Time) error      { return nil }
func (s *c12Sink) SetReadDeadline(t time.Time) error  { return nil }
func (s *c12Sink) SetWriteDeadline(t time.Time) error { return nil }

// c12EncodeCluster: redisConn.send exactly as the cluster batchers call it (command name
// as string, arguments as []byte), all commands through ONE connection, then flush.
func c12EncodeCluster(cmds []c12Cmd, wsize, rsize int) *c12Fail {
	sink := &c12Sink{}
	conn := cluster.VerifNewConn(sink, wsize)
	for _, c := range cmds {
		ia := make([]interface{}, 0, len(c.args))
		for _, a := range c.args {
			ia = append(ia, a)
		}
		if err := conn.Send(strings.ToLower(c.name), ia...); err != nil {
			return &c12Fail{"cluster connection send fails", "error", map[string]interface{}{"err": err.Error()}}
		}
	}
	if err := conn.Flush(); err != nil {
		return &c12Fail{"flush fails", "error", map[string]interface{}{"err": err.Error()}}
	}
	return c12CheckEncoded(sink.buf.Bytes(), cmds, true, rsize)
}

// c12ClusterTyped: the typed arguments the cluster writer accepts (int8/32/int/int64,
// uint8/32/uint/uint64, float64, string, []byte); a type it does not accept must be refused
// with an error, never written in some other form.
func c12ClusterTyped(wsize int) *c12Fail {
	sink := &c12Sink{}
	conn := cluster.VerifNewConn(sink, wsize)
	offs := []int64{1<<32 + 7 + 1234, 0}
	var wants [][]c12Typed
	for _, off := range offs {
		var ta []c12Typed
		for _, t := range c12TypedArgs(off) {
			switch t.v.(type) {
			case int8, int32, int, int64, uint8, uint32, uint, uint64, float64, string, []byte:
				ta = append(ta, t)
			}
		}
		ta = append(ta, c12Typed{int64(-9), "-9"}, c12Typed{"", ""}, c12Typed{[]byte{}, ""}, c12Typed{strings.Repeat("x", 10), strings.Repeat("x", 10)}, c12Typed{int64(100), "100"})
		wants = append(wants, ta)
		ia := make([]interface{}, 0, len(ta))
		for _, t := range ta {
			ia = append(ia, t.v)
		}
		if err := conn.Send("hset", ia...); err != nil {
			return &c12Fail{"cluster connection send fails on a supported argument type", "error", map[string]interface{}{"err": err.Error()}}
		}
	}
	if err := conn.Flush(); err != nil {
		return &c12Fail{"flush fails", "error", map[string]interface{}{"err": err.Error()}}
	}
	enc := sink.buf.Bytes()
	pos := 0
	for ci, ta := range wants {
		parts, n, err := refParse(enc[pos:])
		if err != nil {
			return &c12Fail{"encoded command is not a well-formed multi-bulk command", "malformed", map[string]interface{}{"command_index": ci, "err": err.Error(), "bytes": q(enc[pos:])}}
		}
		pos += n
		if len(parts) != len(ta)+1 || string(parts[0]) != "hset" {
			return &c12Fail{"encoded command has a different name or argument count", "args", map[string]interface{}{"command_index": ci, "got_parts": len(parts)}}
		}
		for j, t := range ta {
			got := string(parts[j+1])
			bad := false
			switch v := t.v.(type) {
			case float64:
				f, err := strconv.ParseFloat(got, 64)
				bad = err != nil || f != v
			case []byte:
				bad = got != string(v)
			default:
				bad = got != t.want
			}
			if bad {
				return &c12Fail{"typed argument is not encoded as its decimal text", "typed-arg",
					map[string]interface{}{"command_index": ci, "arg_index": j, "go_value": fmt.Sprintf("%T(%v)", t.v, t.v), "encoded": fmt.Sprintf("%q", got), "want": t.want}}
			}
		}
	}
	if pos != len(enc) {
		return &c12Fail{"encoder wrote bytes beyond the commands", "malformed", map[string]interface{}{"extra": q(enc[pos:])}}
	}
	// unsupported types: an error, or nothing wrong on the wire
	for _, v := range []interface{}{nil, true, int16(5), float32(1.5), uint16(7), time.Second} {
		s2 := &c12Sink{}
		c2 := cluster.VerifNewConn(s2, wsize)
		err := c2.Send("set", "k", v)
		c2.Flush()
		if err == nil {
			if _, n, perr := refParse(s2.buf.Bytes()); perr != nil || n != s2.buf.Len() {
				return &c12Fail{"an argument type the writer does not support is neither refused nor written as a well-formed command", "malformed", map[string]interface{}{"go_value": fmt.Sprintf("%T(%v)", v, v), "bytes": q(s2.buf.Bytes())}}
			}
		}
	}
	return nil
}

func c12RunTyped(s c12Scn) mc.Result {
	if s.Fam == "typed-cluster" {
		if f := c12Guard(func() *c12Fail { return c12ClusterTyped(s.Buf) }); f != nil {
			f.detail["stream_shape"] = "typed"
			return mc.Violation(f.clause, "C12:encode-cluster:"+f.kind+":typed", f.detail)
		}
		return mc.OK(mc.Hash("encode-typed-cluster", strconv.Itoa(s.Buf)), true, 1)
	}
	if f := c12Guard(func() *c12Fail { return c12EncodeTyped(s.Buf) }); f != nil {
		f.detail["stream_shape"] = "typed"
		return mc.Violation(f.clause, "C12:encode-typed:"+f.kind, f.detail)
	}
	return mc.OK(mc.Hash("encode-typed", strconv.Itoa(s.Buf)), true, 1)
}

// ---------------------------------------------------------------------------
// boundary families: argument counts and bulk lengths next to powers of two and next to
// the numeric constants of pkg/redis/client (encoder.go itos table: 512*1024+1024 entries
// = values -1024..524287) and of its users (conn.ReaderBufferSize 512 KiB,
// conn.WriterBufferSize 1 MiB, the 64 KiB / 1 MiB readers of the tool's pipes).

// c12ManyArgs: DEL with elements-1 arguments of 0..8 bytes ("k<i>", every 97th one empty,
// every 101st one a bare CRLF), all carved out of one backing array.
func c12ManyArgs(elements int) c12Cmd {
	n := elements - 1
	back := make([]byte, 0, 9*n)
	args := make([][]byte, n)
	for i := 0; i < n; i++ {
		st := len(back)
		switch {
		case i%97 == 96:
		case i%101 == 100:
			back = append(back, '\r', '\n')
		default:
			back = append(back, 'k')
			back = strconv.AppendInt(back, int64(i), 10)
		}
		args[i] = back[st:len(back):len(back)]
	}
	return c12Cmd{name: "DEL", args: args}
}

type c12Reader struct {
	buf  int
	frag string // whole | 1byte | mid | pages
}

// c12RunResume: the offset reported for the end of the first (large) command is used the way
// a checkpoint is - a fresh decoder / a fresh parser is started on the stream at exactly that
// position and must deliver exactly the remaining commands with the right end offsets.
func c12RunResume(s c12Scn) mc.Result {
	f := c12Guard(func() *c12Fail {
		cmds := s.commands()
		data, ends, _ := s.stream(cmds)
		fail := func(via, clause string, d map[string]interface{}) *c12Fail {
			d["via"] = via
			d["end_of_first_command"] = ends[0]
			d["stream_len"] = len(data)
			return &c12Fail{clause, via, d}
		}
		// decoder
		dec := client.NewDecoder(bufio.NewReaderSize(&fragReader{data: data}, 4096))
		_, off, err := client.MustDecodeOpt(dec)
		if err != nil {
			return fail("decoder", "decoder fails on a well-formed multi-bulk command", map[string]interface{}{"err": err.Error()})
		}
		if off < 0 || off > int64(len(data)) {
			return fail("decoder", "offset reported for the end of a command lies outside the stream", map[string]interface{}{"reported": off})
		}
		rest := data[off:]
		restEnds := make([]int64, 0, len(ends)-1)
		for _, e := range ends[1:] {
			restEnds = append(restEnds, e-off)
		}
		if f := c12DecodeRun(rest, cmds[1:], restEnds, 4096, &fragReader{data: rest}, nil); f != nil {
			f.clause = "a decoder started at the offset reported for the end of the previous command: " + f.clause
			f.detail["resumed_at"] = off
			f.detail["next_bytes"] = q(rest)
			return fail("decoder", f.clause, f.detail)
		}
		// parser (the tool's own adder)
		const start = int64(1<<32 + 7)
		ro := c12Output(0)
		sendBuf := make(chan cmdExecution, len(cmds)+4)
		wc := usync.NewWaitCloser(func(error) {})
		perr := ro.parseAofCommand(wc, bufio.NewReaderSize(&fragReader{data: data}, 65536), start, sendBuf)
		wc.Close(nil)
		close(sendBuf)
		var first *cmdExecution
		for c := range sendBuf {
			if first == nil {
				cc := c
				first = &cc
			}
		}
		if first == nil {
			return fail("parser", "the parser hands over nothing for a well-formed stream", map[string]interface{}{"err": fmt.Sprint(perr)})
		}
		at := first.Offset - start
		if at < 0 || at > int64(len(data)) {
			return fail("parser", "offset attached to a command lies outside the stream", map[string]interface{}{"attached": first.Offset, "start_offset": start})
		}
		rest = data[at:]
		restEnds = restEnds[:0]
		for _, e := range ends[1:] {
			restEnds = append(restEnds, e-at)
		}
		if f := c12ParseRun(rest, cmds[1:], restEnds, 4096, &fragReader{data: rest}, first.Offset, 0); f != nil {
			f.detail["resumed_at"] = first.Offset
			f.detail["next_bytes"] = q(rest)
			return fail("parser", "a parser started at the offset attached to the previous command: "+f.clause, f.detail)
		}
		return nil
	})
	if f != nil {
		f.detail["stream_shape"] = s.shape()
		return mc.Violation(f.clause, "C12:resume:"+f.kind+":"+s.shape(), f.detail)
	}
	return mc.OK(mc.Hash("resume", strconv.Itoa(s.Count), strconv.Itoa(s.BulkLen)), true, 2)
}

// c12RunBoundaries enumerates the boundary cases; every case is ONE decoder / parser /
// encoder run and one execution. A regression can bring its own threshold, so the sweep
// follows the powers of two, not only the constants that exist in the tree today.
func c12RunBoundaries(rep *mc.Reporter, mine func() bool, thorough bool, decoderRuns, parserRuns *int64) {
	dec := func(s c12Scn, r c12Reader) {
		if !mine() {
			return
		}
		rep.Scenario()
		s.Path, s.Fam, s.Buf, s.Frag, s.HB = "decode", "boundary", r.buf, r.frag, []int{0, 0}
		res, v, runs := c12RunDecode(s, false)
		*decoderRuns += int64(runs)
		if v != nil {
			s = *v
		}
		rep.Exec(s, nil, res)
	}
	par := func(s c12Scn, buf int, start int64, startDb int) {
		if !mine() {
			return
		}
		rep.Scenario()
		s.Path, s.Fam, s.Buf, s.Frag, s.HB, s.Start, s.StartDb = "parse", "boundary", buf, "whole", []int{0, 0}, start, startDb
		res, runs := c12RunParse(s)
		*parserRuns += int64(runs)
		rep.Exec(s, nil, res)
	}
	enc := func(s c12Scn, path string, wsize, rsize int) {
		if !mine() {
			return
		}
		rep.Scenario()
		s.Path, s.Fam, s.Buf, s.RBuf, s.HB = path, "boundary", wsize, rsize, []int{0, 0}
		rep.Exec(s, nil, c12RunEncode(s))
		if path == "encode-writer" { // the cluster connection's writer gets the same inputs
			s.Path = "encode-cluster"
			rep.Exec(s, nil, c12RunEncode(s))
		}
	}
	resume := func(s c12Scn) {
		if !mine() {
			return
		}
		rep.Scenario()
		s.Path, s.Fam, s.HB = "resume", "boundary", []int{0, 0}
		rep.Exec(s, nil, c12RunResume(s))
	}
	around := func(ks []int) []int {
		var out []int
		for _, k := range ks {
			out = append(out, 1<<uint(k)-1, 1<<uint(k), 1<<uint(k)+1)
		}
		return out
	}
	seq := func(lo, hi int) []int {
		var out []int
		for k := lo; k <= hi; k++ {
			out = append(out, k)
		}
		return out
	}

	// (1) element counts 2^k-1, 2^k, 2^k+1: k in {16, 20} (quick), 10..21 (thorough); short arguments
	cks := []int{16, 20}
	if thorough {
		cks = seq(10, 21)
	}
	for _, e := range around(cks) {
		big := e >= 1<<20-1
		dec(c12Scn{Count: e}, c12Reader{4096, "whole"})
		if big {
			par(c12Scn{Count: e}, 65536, 1<<32+7, 0)
		} else {
			par(c12Scn{Count: e}, 65536, 1000, 0)
			enc(c12Scn{Count: e}, "encode-resp", 4096, 32)
		}
		if thorough {
			dec(c12Scn{Count: e}, c12Reader{16, "mid"})
			dec(c12Scn{Count: e}, c12Reader{65536, "pages"})
			resume(c12Scn{Count: e})
			if e >= 1<<16-1 {
				dec(c12Scn{Count: e}, c12Reader{1 << 20, "1byte"})
				par(c12Scn{Count: e}, 16, 0, 2)
				enc(c12Scn{Count: e}, "encode-writer", 1<<20, 512*1024)
				if big {
					enc(c12Scn{Count: e}, "encode-resp", 4096, 32)
				}
			}
		}
	}
	// (2) bulk lengths 2^k-1, 2^k, 2^k+1: k in {16, 19, 20, 24, 25} (quick), 16..26 (thorough);
	// one large argument per stream. 2^19 = the end of the encoder's integer table (524287).
	lks := []int{16, 19, 20, 24, 25}
	if thorough {
		lks = seq(16, 26)
	}
	for _, l := range around(lks) {
		dec(c12Scn{BulkLen: l}, c12Reader{4096, "whole"})
		dec(c12Scn{BulkLen: l}, c12Reader{65536, "mid"})
		par(c12Scn{BulkLen: l}, 1<<20, 1<<32+7, 0)
		resume(c12Scn{BulkLen: l})
		if l <= 1<<20+1 || (thorough && l <= 1<<24+1) {
			enc(c12Scn{BulkLen: l}, "encode-resp", 4096, 32)
			enc(c12Scn{BulkLen: l}, "encode-writer", 4096, 512*1024)
		}
		if thorough {
			dec(c12Scn{BulkLen: l}, c12Reader{16, "1byte"})
			dec(c12Scn{BulkLen: l}, c12Reader{1 << 20, "pages"})
			par(c12Scn{BulkLen: l}, 16, 0, 2)
		}
	}
	// (4) decimal digits of lengths and counts (the cluster writer formats them itself): argument
	// lengths and element counts next to the powers of ten, through all three encoders
	for _, p := range []int{10, 100, 1000, 10000, 100000, 1000000} {
		for _, l := range []int{p - 1, p, p + 1} {
			enc(c12Scn{BulkLen: l}, "encode-resp", 4096, 32)
			enc(c12Scn{BulkLen: l}, "encode-writer", 4096, 32)
		}
		if p <= 10000 || thorough {
			for _, e := range []int{p - 1, p, p + 1, p + 2} {
				enc(c12Scn{Count: e}, "encode-resp", 4096, 32)
				enc(c12Scn{Count: e}, "encode-writer", 4096, 32)
				dec(c12Scn{Count: e}, c12Reader{4096, "whole"})
			}
		}
	}
	for _, e := range []int{1, 2, 3} { // a command of its name alone, one and two arguments
		enc(c12Scn{Count: e}, "encode-resp", 16, 32)
		enc(c12Scn{Count: e}, "encode-writer", 16, 32)
	}
	// (3) the connection's buffer sizes: writer 1 MiB, reply reader 512 KiB, stream reader 64 KiB;
	// the argument (plus the few header bytes before it) ends just below, at and above each of them
	for d := -24; d <= 2; d++ {
		if !thorough && d < -16 && d%4 != 0 {
			continue
		}
		enc(c12Scn{BulkLen: 1<<20 + d}, "encode-writer", 1<<20, 512*1024)
		enc(c12Scn{BulkLen: 512*1024 + d}, "encode-writer", 1<<20, 512*1024)
		dec(c12Scn{BulkLen: 65536 + d}, c12Reader{65536, "whole"})
	}
}

package syncer

// C12, parts that need the tool's own code around the decoder:
//
//	parse:        the stream goes through the real RedisOutput.parseAofCommand (NewDecoder,
//	              MustDecodeOpt, ParseArgs and the tool's own `startOffset + incrOffset`,
//	              output.go:703/:775/:793) with start offsets 0, 1000 and 2^32+7 and with
//	              and without a start database; judged on the cmdExecution values it emits.
//	encode-typed: proto.Writer.WriteArgs with the typed arguments the tool itself sends
//	              (the checkpoint offset is an int64: `hset <key> <runid>_offset <int64>`),
//	              and client.NewCommand with an int64 (`replconf ack <offset>`).

import (
	"bufio"
	"bytes"
	"errors"
	"fmt"
	"io"
	"math"
	"strconv"

	"github.com/mgtv-tech/redis-GunYu/config"
	"github.com/mgtv-tech/redis-GunYu/pkg/redis/client"
	"github.com/mgtv-tech/redis-GunYu/pkg/redis/client/proto"
	usync "github.com/mgtv-tech/redis-GunYu/pkg/sync"
	"github.com/mgtv-tech/redis-GunYu/verifshim/mc"
)

var c12Starts = []int64{0, 1000, 1<<32 + 7}

func c12Output(startDb int) *RedisOutput {
	rc := config.RedisConfig{Addresses: []string{"target:6379"}, Type: config.RedisTypeStandalone, Otype: config.RedisTypeStandalone, Version: "7.2.0"}
	ro := NewRedisOutput(RedisOutputConfig{InputName: "src", CheckpointName: config.CheckpointKey, Redis: rc, KeyExists: "replace", TargetDb: -1,
		ReplayRdbParallel: 1, ReplayRdbEnableRestore: true, Stats: config.OutputStats{DisableLog: true}})
	ro.startDbId = startDb // what StartPoint() sets from the stored checkpoint
	return ro
}

// c12ParseRun: one pass of the real parser over the stream.
func c12ParseRun(data []byte, cmds []c12Cmd, ends []int64, buf int, fr *fragReader, start int64, startDb int) *c12Fail {
	ro := c12Output(startDb)
	sendBuf := make(chan cmdExecution, len(cmds)+4) // never blocks: the call is synchronous
	wc := usync.NewWaitCloser(func(error) {})
	err := ro.parseAofCommand(wc, bufio.NewReaderSize(fr, buf), start, sendBuf)
	wc.Close(nil)
	close(sendBuf)
	var outs []cmdExecution
	for c := range sendBuf {
		outs = append(outs, c)
	}
	if !errors.Is(err, io.EOF) {
		return &c12Fail{"the parser does not end with io.EOF on a well-formed stream", "error", map[string]interface{}{"err": fmt.Sprint(err)}}
	}
	db := -1
	if startDb > 0 {
		if len(outs) == 0 || outs[0].Cmd != "select" || outs[0].Offset != start || outs[0].Db != startDb {
			return &c12Fail{"the SELECT of the start database does not carry the start offset", "offset", map[string]interface{}{"start": start, "outputs": len(outs)}}
		}
		outs = outs[1:]
	}
	if len(outs) != len(cmds) {
		kind := "phantom"
		if len(outs) < len(cmds) {
			kind = "lost"
		}
		return &c12Fail{"the parser hands over a different number of commands than the source sent", kind, map[string]interface{}{"got": len(outs), "want": len(cmds)}}
	}
	for i, x := range outs {
		args := make([][]byte, len(x.Args))
		for j, a := range x.Args {
			b, ok := a.([]byte)
			if !ok {
				return &c12Fail{"argument handed to the sender is not the source's byte string", "args", map[string]interface{}{"command_index": i, "arg_index": j, "type": fmt.Sprintf("%T", a)}}
			}
			args[j] = b
		}
		if f := c12Compare(i, cmds[i], x.Cmd, args, "args"); f != nil {
			return f
		}
		if x.Offset != start+ends[i] {
			return &c12Fail{"offset attached to a command differs from start offset + bytes up to and including the command", "offset",
				map[string]interface{}{"command_index": i, "start_offset": start, "attached_offset": x.Offset, "want": start + ends[i]}}
		}
		if x.Db != db {
			return &c12Fail{"command attached to a database the stream never selected", "args", map[string]interface{}{"command_index": i, "db": x.Db}}
		}
	}
	return nil
}

// c12RunParse: all (start offset, start database, reader) variants of one stream.
func c12RunParse(s c12Scn) (mc.Result, int) {
	cmds := s.commands()
	data, ends, _ := s.stream(cmds)
	type rd struct {
		buf int
		one bool
	}
	readers := []rd{{16, false}, {17, true}, {4096, false}}
	starts, dbs := c12Starts, []int{0, 2}
	if s.Frag != "" { // replay of one variant
		readers = []rd{{s.Buf, s.Frag == "1byte"}}
		starts, dbs = []int64{s.Start}, []int{s.StartDb}
	}
	runs := 0
	for _, st := range starts {
		for _, sdb := range dbs {
			for _, r := range readers {
				runs++
				if f := c12ParseRun(data, cmds, ends, r.buf, &fragReader{data: data, oneByte: r.one}, st, sdb); f != nil {
					v := s
					v.Start, v.StartDb, v.Buf, v.Frag = st, sdb, r.buf, "whole"
					if r.one {
						v.Frag = "1byte"
					}
					f.detail["start_offset"] = st
					f.detail["start_db"] = sdb
					f.detail["stream_head"] = q(data)
					res := c12Result(&v, f)
					if f.kind == "offset" {
						res.Sig = "C12:parse:offset:start=" + map[bool]string{true: "0", false: "nonzero"}[st == 0]
						if st > math.MaxInt32 {
							res.Sig = "C12:parse:offset:start>2^31"
						}
					}
					res.Detail = f.detail
					return res, runs
				}
			}
		}
	}
	parts := []string{"parse"}
	for _, c := range s.Cmds {
		parts = append(parts, fmt.Sprint(c))
	}
	parts = append(parts, fmt.Sprint(s.HB))
	return mc.OK(mc.Hash(parts...), true, runs), runs
}

// ---------------------------------------------------------------------------
// typed arguments

type c12Typed struct {
	v    interface{}
	want string // exact text, or "" for floats (judged by value)
}

func c12TypedArgs(off int64) []c12Typed {
	return []c12Typed{
		{"k", "k"}, {"aaaa_offset", "aaaa_offset"},
		{off, strconv.FormatInt(off, 10)}, // the checkpoint offset, an int64
		{int64(0), "0"}, {int64(-1), "-1"}, {int64(1) << 31, "2147483648"}, {int64(1)<<32 + 5, "4294967301"}, {int64(1)<<53 + 1, "9007199254740993"},
		{int64(math.MaxInt64), "9223372036854775807"}, {int64(math.MinInt64), "-9223372036854775808"},
		{uint64(math.MaxUint64), "18446744073709551615"}, {uint64(1) << 63, "9223372036854775808"},
		{int(7), "7"}, {int(-7), "-7"}, {int32(math.MinInt32), "-2147483648"}, {int16(-300), "-300"}, {int8(-128), "-128"},
		{uint(9), "9"}, {uint32(math.MaxUint32), "4294967295"}, {uint16(65535), "65535"}, {uint8(255), "255"},
		{float64(1.5), ""}, {float64(0.1), ""}, {float64(-2.5e-7), ""}, {float64(1e21), ""}, {float64(9007199254740993), ""}, {float32(0.25), ""},
		{[]byte("b\r\n"), "b\r\n"}, {"", ""}, {int64(12), "12"}, // a short number after long ones: the scratch buffer must not leak
	}
}

// c12EncodeTyped: two commands with typed arguments through ONE proto.Writer, read back
// with the RESP-spec parser; integers must be their plain decimal text, floats must
// parse back to the same value.
func c12EncodeTyped(wsize int) *c12Fail {
	var sink bytes.Buffer
	w := proto.NewWriter(&sink, wsize)
	offs := []int64{1<<32 + 7 + 1234, 0}
	for _, off := range offs {
		ta := c12TypedArgs(off)
		ia := []interface{}{"hset"}
		for _, t := range ta {
			ia = append(ia, t.v)
		}
		if err := w.WriteArgs(ia); err != nil {
			return &c12Fail{"WriteArgs fails on a typed argument", "error", map[string]interface{}{"err": err.Error()}}
		}
	}
	if err := w.Flush(); err != nil {
		return &c12Fail{"flush fails", "error", map[string]interface{}{"err": err.Error()}}
	}
	enc := sink.Bytes()
	pos := 0
	for ci, off := range offs {
		ta := c12TypedArgs(off)
		parts, n, err := refParse(enc[pos:])
		if err != nil {
			return &c12Fail{"encoded command is not a well-formed multi-bulk command", "malformed", map[string]interface{}{"command_index": ci, "err": err.Error(), "bytes": q(enc[pos:])}}
		}
		pos += n
		if len(parts) != len(ta)+1 || string(parts[0]) != "hset" {
			return &c12Fail{"encoded command has a different name or argument count", "args", map[string]interface{}{"command_index": ci, "got_parts": len(parts)}}
		}
		for j, t := range ta {
			got := string(parts[j+1])
			bad := false
			switch v := t.v.(type) {
			case float64:
				f, err := strconv.ParseFloat(got, 64)
				bad = err != nil || f != v
			case float32:
				f, err := strconv.ParseFloat(got, 64)
				bad = err != nil || f != float64(v)
			case []byte:
				bad = got != string(v)
			default:
				bad = got != t.want
			}
			if bad {
				return &c12Fail{"typed argument is not encoded as its decimal text", "typed-arg",
					map[string]interface{}{"command_index": ci, "arg_index": j, "go_value": fmt.Sprintf("%T(%v)", t.v, t.v), "encoded": fmt.Sprintf("%q", got), "want": t.want}}
			}
		}
	}
	if pos != len(enc) {
		return &c12Fail{"encoder wrote bytes beyond the commands", "malformed", map[string]interface{}{"extra": q(enc[pos:])}}
	}
	// client.NewCommand + client.Encode, as used for `replconf ack <offset>` / `listening-port <int>`
	for _, off := range []int64{0, 1000, 1<<40 + 3, math.MaxInt64} {
		var b bytes.Buffer
		bw := bufio.NewWriterSize(&b, wsize)
		if err := client.Encode(bw, client.NewCommand("replconf", "ack", off, "port", 6379, []byte("x")), true); err != nil {
			return &c12Fail{"client.Encode fails", "error", map[string]interface{}{"err": err.Error()}}
		}
		parts, n, err := refParse(b.Bytes())
		want := []string{"replconf", "ack", strconv.FormatInt(off, 10), "port", "6379", "x"}
		if err != nil || n != b.Len() || len(parts) != len(want) {
			return &c12Fail{"encoded command is not a well-formed multi-bulk command", "malformed", map[string]interface{}{"bytes": q(b.Bytes())}}
		}
		for i := range want {
			if string(parts[i]) != want[i] {
				return &c12Fail{"typed argument is not encoded as its decimal text", "typed-arg", map[string]interface{}{"arg_index": i, "encoded": fmt.Sprintf("%q", parts[i]), "want": want[i], "via": "client.NewCommand"}}
			}
		}
	}
	return nil
}

func c12RunTyped(s c12Scn) mc.Result {
	if f := c12EncodeTyped(s.Buf); f != nil {
		f.detail["stream_shape"] = "typed"
		return mc.Violation(f.clause, "C12:encode-typed:"+f.kind, f.detail)
	}
	return mc.OK(mc.Hash("encode-typed", strconv.Itoa(s.Buf)), true, 1)
}

package syncer

// C16 - "a follower's cache is a faithful copy of the leader's stream".
//
// Option A of the design: no sockets. The REAL ReplicaFollower.Run() loop (dial, state
// machine, back-offs, error classification) talks through the REAL generated gRPC stubs
// of pkg/api/golang to the REAL syncer.ServiceReplica -> ReplicaLeader.Handle/sendData,
// all inside one testing/synctest bubble. Only the HTTP/2 transport is replaced:
// syncer/replica.go is built with its import "google.golang.org/grpc" swapped for the shim
// verifshim/vgrpc (DialContext returns an in-memory ClientConn whose NewStream runs the
// generated service handler on an in-memory ServerStream, messages proto-marshalled).
// The harness owns delivery of every server->client message: after each
// synctest.Wait() it delivers exactly one parked Send, or breaks the stream there.
//
// Both caches are real (MemoryChannel / StoreChannel on a scratch directory) and are
// pre-filled through their writer API with bytes that are a function of
// (history, kind, absolute offset), so every byte the follower holds is attributable.

import (
	"context"
	"encoding/binary"
	"encoding/json"
	"errors"
	"fmt"
	"os"
	"path/filepath"
	"sort"
	"strconv"
	"strings"
	"sync"
	"testing"
	"testing/synctest"
	"time"

	"github.com/mgtv-tech/redis-GunYu/config"
	pb "github.com/mgtv-tech/redis-GunYu/pkg/api/golang"
	"github.com/mgtv-tech/redis-GunYu/pkg/cluster"
	"github.com/mgtv-tech/redis-GunYu/pkg/log"
	usync "github.com/mgtv-tech/redis-GunYu/pkg/sync"
	"github.com/mgtv-tech/redis-GunYu/verifshim/mc"
	"github.com/mgtv-tech/redis-GunYu/verifshim/ref"
	"github.com/mgtv-tech/redis-GunYu/verifshim/vgrpc"
	"google.golang.org/protobuf/proto"
)

func init() { verifChecks["C16"] = runC16 }

const (
	c16LeaderAddr = "leader.verif:18001"
	c16InputAddr  = "redis.verif:6379"
	c16Base       = int64(1000) // first offset of the leader's log / offset of its snapshot
	c16Step       = 250 * time.Millisecond
	c16Horizon    = 30 * time.Second // virtual time a follower gets to re-synchronise
	c16NoneSpan   = 12 * time.Second // virtual time observed when no synchronisation is possible
	c16ReadSpan   = 3 * time.Second  // virtual time a read-back gets to deliver bytes that are present
	c16BufSize    = 64 * 1024
	// hard bounds of one execution, independent of the virtual clock (a follower that loops
	// without ever sleeping keeps messages flowing at one virtual instant): the longest
	// legitimate execution of the thorough tier delivers 25 messages (measured on the fixed
	// tree) and takes a few hundred loop iterations
	c16MaxWire   = 120  // server->client messages
	c16MaxSteps  = 1500 // iterations of the event loop
	c16MaxFaultK = 8    // interruption points enumerated below a run that already fails (and no second fault)
)

// run ids of history 1 (the leader's), 2 (another one a follower may hold), 3 (the one a
// leader adopts when it re-synchronises with its source under a new run id)
var c16IDs = []string{"", strings.Repeat("a", 40), strings.Repeat("b", 40), strings.Repeat("c", 40), strings.Repeat("d", 40)}

// c16ForkAt: history 4 is history 1 up to this offset and a history of its own from there on
// (a replica of history 1's master promoted at that offset: its source's fail-over). Set by the
// "continue-new-id" switch of the execution under way, far away otherwise.
var c16ForkAt = int64(1) << 60

func c16HistOf(id string) int {
	for h, x := range c16IDs {
		if h > 0 && x == id {
			return h
		}
	}
	return 0
}

// c16Byte: the source byte of a history at an absolute offset (kind 0 = log; kind k >= 1 =
// body of the history's k-th snapshot, index from 0). Histories and kinds differ at
// every offset; a shift by any distance below 251*256 changes the byte.
func c16Byte(hist, kind int, off int64) byte {
	if hist == 4 && (kind > 0 || off < c16ForkAt) {
		hist = 1 // snapshots taken before the fork and the log in front of it are history 1's
	}
	return byte(off%251) + byte(off/251)*7 + byte(hist*83) + byte(kind*41)
}

// c16SnapBody: the body of a snapshot of a history: as in an RDB file the last 8 bytes are
// the CRC-64 (little endian) of everything before them - the trailer a verifying snapshot
// reader (Channel.VerifyCrc) checks.
var c16SnapBodies = map[[3]int64][]byte{}

func c16SnapBody(hist, kind int, size int64) []byte {
	key := [3]int64{int64(hist), int64(kind), size}
	if b, ok := c16SnapBodies[key]; ok {
		return b
	}
	b := c16Bytes(hist, kind, 0, size)
	if size > 8 {
		binary.LittleEndian.PutUint64(b[size-8:], ref.RDBCRC64(0, b[:size-8]))
	}
	c16SnapBodies[key] = b
	return b
}

func c16Bytes(hist, kind int, from, n int64) []byte {
	b := make([]byte, n)
	for i := int64(0); i < n; i++ {
		b[i] = c16Byte(hist, kind, from+i)
	}
	return b
}

// ---------------------------------------------------------------------------
// scenarios

type c16Side struct {
	Backend string `json:"be"`   // "mem" | "disk"
	Hist    int    `json:"hist"` // 0 = nothing stored, no run id; 1 = the leader's history; 2 = another history
	Snap    int64  `json:"snap"` // snapshot size (0 = none); its offset is Left
	Left    int64  `json:"left"` // first log offset
	Len     int64  `json:"len"`  // log bytes, -1 = no log
	Chunk   int64  `json:"chunk"`
	Seg     int64  `json:"seg"`
	Reopen  bool   `json:"reopen,omitempty"` // disk: the cache object is re-created over the directory before the run
}

func (s c16Side) right() int64 {
	if s.Hist == 0 {
		return -1
	}
	if s.Len >= 0 {
		return s.Left + s.Len
	}
	if s.Snap > 0 {
		return s.Left
	}
	return -1
}

type c16Scenario struct {
	LKind    string  `json:"leader_kind"`
	FKind    string  `json:"follower_kind"`
	Leader   c16Side `json:"leader"`
	Follower c16Side `json:"follower"`
	Extra    int64   `json:"extra"` // bytes the leader appends (once the follower has caught up, or at the first fault)
	// Faults: the K-th server->client message of the run (counted over all streams) is lost.
	// mode "break": its stream breaks like a dead transport; mode "restart" (disk follower): the
	// follower is stopped there and a new follower object over a re-opened cache directory runs.
	Faults        []c16Fault `json:"faults,omitempty"`
	AppendAtFault bool       `json:"append_at_fault,omitempty"`
	// Switch: once the follower tails the leader, the leader re-synchronises with its source
	// the way RedisInput does on a full sync (writer ended, DelRunId, SetRunId, new snapshot,
	// new log): "resync-same-id" keeps the run id (snapshot at a later offset),
	// "resync-new-id" adopts run id 3 (another history, offsets overlapping the old ones).
	// "continue-new-id": the leader's source failed over and GRANTED a partial resynchronisation
	// under a new id (run id 4 = history 1 up to the leader's newest byte, its own bytes from
	// there): as RedisInput does then, the log writer ends, the input reports [id 4, id 1], the
	// cache is re-keyed to id 4 WITHOUT being dropped, a new log writer continues at the same offset.
	// Window: virtual seconds between SetRunId and the arrival of the new snapshot (the
	// leader has a run id and no data meanwhile).
	Switch string `json:"switch,omitempty"`
	Window int    `json:"window_s,omitempty"`
	// Crc: Channel.VerifyCrc (the disk cache verifies the checksum of every sealed segment and
	// snapshot a reader opens); only set on scenarios with a disk cache.
	Crc bool `json:"verify_crc,omitempty"`
	// SwitchAt "handshake": the leader's re-synchronisation happens while the reply to the
	// follower's handshake is in flight (the follower then asks with a run id the leader has
	// just left: ERROR reply) instead of when the follower tails the leader.
	SwitchAt string `json:"switch_at,omitempty"`
	// NotReady: for the first Window seconds the leader is in a state in which it cannot serve:
	// "no-ids" (its input knows no run id yet: FAILURE), "role" (its syncer is not running as
	// leader: FAILURE), "stopped" (ReplicaLeader stopped: plain gRPC error), "stale-channel-id"
	// (input already reports a new first run id, the cache is still keyed by the old one:
	// CLEAR "wait a moment").
	NotReady string `json:"not_ready,omitempty"`
	// PrevID: the leader's input reports the FOLLOWER's run id as its previous id (its source failed
	// over: it continued history 2 as history 1; what the follower holds under id 2 is, in this
	// harness's byte model, the old master's own tail - bytes the leader does not have). Only on
	// scenarios whose follower holds data of history 2.
	PrevID bool `json:"prev_id,omitempty"`
}

type c16Fault struct {
	K    int    `json:"k"`
	Mode string `json:"mode"`
}

func (s c16Scenario) fault(k int) *c16Fault {
	for i := range s.Faults {
		if s.Faults[i].K == k {
			return &s.Faults[i]
		}
	}
	return nil
}

// group is the coarse relation of the two caches (part of violation signatures).
func (s c16Scenario) group(switched bool, leaderEmpty bool) string {
	switch {
	case strings.HasPrefix(s.FKind, "other-id"), switched && s.Switch == "resync-new-id":
		return "other-id"
	case s.LKind == "empty", leaderEmpty:
		return "leader-empty"
	case switched:
		return "collected-at-leader"
	case s.expect() == "takeover":
		return "follower-ahead"
	case strings.HasPrefix(s.FKind, "collected"):
		return "collected-at-leader"
	}
	return "joinable"
}

// expect: "takeover" = the follower holds more of the leader's history than the leader;
// "none" = the leader has nothing to copy; "sync" otherwise.
func (s c16Scenario) expect() string {
	if s.Switch != "" {
		return "sync"
	}
	lr := s.Leader.right()
	if s.AppendAtFault && len(s.Faults) > 0 && s.Leader.Len >= 0 {
		lr += s.Extra // every fault precedes the delivery of a HANDOVER: the leader has grown by then
	}
	if s.Follower.Hist == 1 && s.Follower.right() > lr {
		return "takeover"
	}
	if s.Leader.right() < 0 {
		return "none"
	}
	return "sync"
}

// singleFaultInQuick: the option / boundary families added on top of the cache-pair
// catalogue get every single interruption point in the quick tier, pairs of them only in
// the thorough tier.
func (s c16Scenario) singleFaultInQuick() bool {
	return s.Crc || s.NotReady != "" || s.SwitchAt != "" || s.Leader.Left < c16Base
}

func (s c16Scenario) fclass() string {
	b := s.Follower.Backend
	if s.Follower.Reopen {
		b += "-reopened"
	}
	return b
}

func c16SnapFor(n int64) int64 {
	switch n {
	case 100:
		return 700
	case 4096:
		return 4096
	case 5000:
		return 9000
	case 8192:
		return 700
	case 8193:
		return 4097
	}
	return 8192
}

func c16Scenarios(tier string) []c16Scenario {
	var out []c16Scenario
	lens := []int64{100, 4096, 5000, 8192, 9000}
	if tier == "thorough" {
		lens = []int64{1, 100, 4095, 4096, 4097, 5000, 8192, 8193, 9000, 13000}
	}
	type chunking struct{ chunk, seg int64 }
	chunkings := func(n int64) []chunking {
		cs := []chunking{{1 << 20, 1 << 20}}
		if n == 5000 || n == 9000 || (tier == "thorough" && n >= 4096) {
			cs = append(cs, chunking{1000, 3000})
		}
		if tier == "thorough" && (n == 4097 || n == 9000 || n == 13000) {
			cs = append(cs, chunking{4096, 4096}, chunking{333, 1000})
		}
		return cs
	}
	type be struct {
		l, f   string
		reopen bool
	}
	var bes []be
	for _, l := range []string{"mem", "disk"} {
		bes = append(bes, be{l, "mem", false}, be{l, "disk", false}, be{l, "disk", true})
	}
	for _, n := range lens {
		for _, ck := range chunkings(n) {
			for _, b := range bes {
				for _, lk := range []string{"snap+log", "log", "empty"} {
					if lk == "empty" && (n != lens[0] || ck.seg != 1<<20) {
						continue // an empty leader has no length / chunking dimension
					}
					L := c16Side{Backend: b.l, Hist: 1, Left: c16Base, Len: n, Chunk: ck.chunk, Seg: ck.seg}
					switch lk {
					case "snap+log":
						L.Snap = c16SnapFor(n)
					case "empty":
						L.Len = -1
					}
					lr := L.right()
					mk := func(fk string, hist int, snap, left, ln int64) {
						F := c16Side{Backend: b.f, Hist: hist, Snap: snap, Left: left, Len: ln, Chunk: ck.chunk, Seg: ck.seg, Reopen: b.reopen}
						if hist == 0 {
							F.Left, F.Len = 0, -1
						}
						extra := int64(5000)
						if lk == "empty" {
							extra = 0
						}
						out = append(out, c16Scenario{LKind: lk, FKind: fk, Leader: L, Follower: F, Extra: extra})
						// checksum verification on: where a disk cache holds sealed (rotated) segments
						if ck.seg == 3000 && (b.l == "disk" || b.f == "disk") && (n == 5000 || tier == "thorough") {
							out = append(out, c16Scenario{LKind: lk, FKind: fk, Leader: L, Follower: F, Extra: extra, Crc: true})
						}
					}
					mk("empty", 0, 0, 0, -1)
					if lk == "empty" {
						mk("ahead", 1, 0, c16Base, 100)
						mk("ahead-snap-only", 1, 700, c16Base, -1)
						mk("other-id", 2, 0, c16Base, 100)
						continue
					}
					half := n / 2
					mk("prefix", 1, L.Snap, c16Base, half)
					mk("equal", 1, L.Snap, c16Base, n)
					mk("ahead", 1, L.Snap, c16Base, n+100)
					if lk == "snap+log" {
						mk("prefix-without-snapshot", 1, 0, c16Base, half) // the follower no longer has the snapshot
						mk("snapshot-only", 1, L.Snap, c16Base, -1)        // the follower has the snapshot and no log
					} else {
						mk("prefix-with-snapshot", 1, 700, c16Base, half) // the leader no longer has the snapshot
					}
					mk("inside", 1, 0, c16Base+n/4, half)              // same id, starts later than the leader, ends inside its log
					mk("beyond-gap", 1, 0, lr+50, 100)                 // same id, starts after a gap behind the leader's newest byte
					mk("collected", 1, 0, c16Base-300, 200)            // same id, ends before the leader's oldest log byte
					mk("touching", 1, 0, c16Base-300, 300)             // same id, ends exactly where the leader's log starts
					mk("other-id-shorter", 2, 0, c16Base, half)        // other history, ends before the leader's newest byte
					mk("other-id-longer", 2, 0, c16Base, n+100)        // other history, ends behind the leader's newest byte
					mk("other-id-equal-end", 2, 0, c16Base+n/4, n-n/4) // other history, ends exactly at the leader's newest byte
					mk("other-id-snapshot", 2, 500, c16Base+n, 100)    // other history with a snapshot at the leader's newest offset
					mk("other-id-collected", 2, 0, c16Base-300, 200)   // other history, ends before the leader's oldest byte
					// a cache that holds ONLY a snapshot (the state between the last snapshot chunk and the
					// first log byte), relative to the leader's oldest retained byte
					if tier != "thorough" && !(ck.seg == 1<<20 && (n == 100 || n == 5000)) {
						continue // (the leader's log length and chunking hardly matter to these)
					}
					mk("collected-snapshot-only", 1, 700, c16Base-300, -1)         // same id: snapshot ends before the leader's oldest byte
					mk("collected-snapshot-and-empty-log", 1, 700, c16Base-300, 0) // ... and a log writer that never received a byte
					mk("snapshot-only-inside", 1, 700, c16Base+n/4, -1)            // same id: snapshot at an offset the leader's log still covers
					mk("other-id-collected-snapshot-only", 2, 500, c16Base-300, -1)
				}
			}
		}
	}
	// histories that start at offset 0 / 1 (a young source: snapshot at offset 0, log from 0;
	// the disk cache treats a newest offset of 0 specially, the wire uses -1 for "nothing")
	for _, base := range []int64{0, 1} {
		for _, b := range bes {
			for _, lk := range []string{"snap+log", "log", "empty"} {
				at := fmt.Sprintf("-from-offset-%d", base)
				side := func(be string, hist int, snap, left, ln int64, reopen bool) c16Side {
					return c16Side{Backend: be, Hist: hist, Snap: snap, Left: left, Len: ln, Chunk: 1 << 20, Seg: 1 << 20, Reopen: reopen}
				}
				if lk == "empty" {
					L := side(b.l, 1, 0, base, -1, false)
					out = append(out,
						c16Scenario{LKind: lk, FKind: "ahead" + at, Leader: L, Follower: side(b.f, 1, 0, base, 100, b.reopen)},
						c16Scenario{LKind: lk, FKind: "ahead-snap-only" + at, Leader: L, Follower: side(b.f, 1, 700, base, -1, b.reopen)},
						c16Scenario{LKind: lk, FKind: "other-id" + at, Leader: L, Follower: side(b.f, 2, 0, base, 100, b.reopen)})
					continue
				}
				snap := int64(0)
				if lk == "snap+log" {
					snap = 700
				}
				L := side(b.l, 1, snap, base, 100, false)
				add := func(fk string, f c16Side) {
					out = append(out, c16Scenario{LKind: lk, FKind: fk + at, Leader: L, Follower: f, Extra: 5000})
				}
				add("empty", c16Side{Backend: b.f, Hist: 0, Len: -1, Chunk: 1 << 20, Seg: 1 << 20, Reopen: b.reopen})
				add("prefix", side(b.f, 1, snap, base, 50, b.reopen))
				add("equal", side(b.f, 1, snap, base, 100, b.reopen))
				add("ahead", side(b.f, 1, snap, base, 200, b.reopen))
				if lk == "snap+log" {
					add("snapshot-only", side(b.f, 1, snap, base, -1, b.reopen))
					add("prefix-without-snapshot", side(b.f, 1, 0, base, 50, b.reopen))
				}
				add("other-id-shorter", side(b.f, 2, 0, base, 50, b.reopen))
				add("other-id-longer", side(b.f, 2, 0, base, 200, b.reopen))
				add("other-id-snapshot", side(b.f, 2, 500, base, -1, b.reopen))
			}
		}
	}
	// distance between the two newest offsets around the follower's "gap too large" constant
	// (preSync: 10 MiB), in both directions. The caches hold a few bytes each: only the offsets
	// are far apart (both back ends take any int64 start offset; nothing large is written).
	//   ahead, same id, by any amount  -> the follower is offered leadership, its cache stays intact
	//   behind, same id (its newest byte is below the leader's oldest retained one) -> not
	//       joinable: whether the follower discards at once (gap above the constant) or after the
	//       leader answered from its own position, it must end as a faithful copy
	//   other id at either distance -> discarded, faithful copy
	const gapConst = int64(10 * 1024 * 1024)
	for _, b := range bes {
		for _, lk := range []string{"snap+log", "log", "empty"} {
			for _, d := range []int64{-1, 0, 1} {
				dn := map[int64]string{-1: "just-below-10MiB", 0: "exactly-10MiB", 1: "just-above-10MiB"}[d]
				side := func(be string, hist int, snap, left, ln int64, reopen bool) c16Side {
					return c16Side{Backend: be, Hist: hist, Snap: snap, Left: left, Len: ln, Chunk: 1 << 20, Seg: 1 << 20, Reopen: reopen}
				}
				if lk == "empty" {
					// the leader reports -1: distance = follower's newest offset + 1
					L := side(b.l, 1, 0, c16Base, -1, false)
					fr := gapConst + d - 1
					out = append(out, c16Scenario{LKind: lk, FKind: "ahead-" + dn, Leader: L, Follower: side(b.f, 1, 0, fr-8, 8, b.reopen)})
					continue
				}
				snap := int64(0)
				if lk == "snap+log" {
					snap = 700
				}
				// follower beyond the leader: leader at the usual offsets
				L := side(b.l, 1, snap, c16Base, 100, false)
				fr := L.right() + gapConst + d
				out = append(out,
					c16Scenario{LKind: lk, FKind: "ahead-" + dn, Leader: L, Follower: side(b.f, 1, 0, fr-8, 8, b.reopen), Extra: 5000},
					c16Scenario{LKind: lk, FKind: "other-id-ahead-" + dn, Leader: L, Follower: side(b.f, 2, 0, fr-8, 8, b.reopen), Extra: 5000})
				// follower behind the leader: leader at far offsets
				L = side(b.l, 1, snap, c16Base+gapConst+5000, 100, false)
				fr = L.right() - gapConst - d
				out = append(out,
					c16Scenario{LKind: lk, FKind: "collected-behind-" + dn, Leader: L, Follower: side(b.f, 1, 0, fr-8, 8, b.reopen), Extra: 5000},
					c16Scenario{LKind: lk, FKind: "other-id-behind-" + dn, Leader: L, Follower: side(b.f, 2, 0, fr-8, 8, b.reopen), Extra: 5000})
			}
		}
	}
	// a leader that is not ready for the first 5 s, and a leader that re-synchronises while its
	// handshake reply is in flight (replies FAILURE, ERROR, CLEAR "wait a moment", gRPC error)
	for _, b := range bes {
		for _, lk := range []string{"snap+log", "log"} {
			side := func(be string, hist int, snap, left, ln int64, reopen bool) c16Side {
				return c16Side{Backend: be, Hist: hist, Snap: snap, Left: left, Len: ln, Chunk: 1 << 20, Seg: 1 << 20, Reopen: reopen}
			}
			snap := int64(0)
			if lk == "snap+log" {
				snap = 700
			}
			L := side(b.l, 1, snap, c16Base, 100, false)
			fs := map[string]c16Side{
				"empty":  {Backend: b.f, Hist: 0, Len: -1, Chunk: 1 << 20, Seg: 1 << 20, Reopen: b.reopen},
				"prefix": side(b.f, 1, snap, c16Base, 50, b.reopen),
				"equal":  side(b.f, 1, snap, c16Base, 100, b.reopen),
				"ahead":  side(b.f, 1, snap, c16Base, 200, b.reopen),
			}
			for _, nr := range []string{"no-ids", "role", "stopped", "stale-channel-id"} {
				for _, fk := range []string{"empty", "prefix", "ahead"} {
					out = append(out, c16Scenario{LKind: lk, FKind: fk, Leader: L, Follower: fs[fk], Extra: 600, NotReady: nr, Window: 5})
				}
			}
			for _, w := range []int{0, 5} {
				for _, fk := range []string{"empty", "equal"} {
					out = append(out, c16Scenario{LKind: lk, FKind: fk, Leader: L, Follower: fs[fk], Extra: 600, Switch: "resync-new-id", SwitchAt: "handshake", Window: w})
				}
				for _, fk := range []string{"empty", "prefix", "equal", "ahead"} {
					out = append(out, c16Scenario{LKind: lk, FKind: fk, Leader: L, Follower: fs[fk], Extra: 600, Switch: "continue-new-id", SwitchAt: "handshake", Window: w})
				}
			}
		}
	}
	// the leader loses its snapshot and old log while a transfer is interrupted: at the first
	// fault it comes back with the same run id and only a log that starts 500 bytes beyond its
	// previous newest byte (a restarted memory leader that continues its source's stream, or a
	// collector that has run). Every interruption point is enumerated, in particular the one
	// right after the last snapshot chunk and before the first log chunk: the follower then
	// holds exactly a snapshot and opens a NEW session against the collected leader.
	for _, n := range []int64{100, 5000} {
		for _, b := range bes {
			L := c16Side{Backend: b.l, Hist: 1, Snap: c16SnapFor(n), Left: c16Base, Len: n, Chunk: 1 << 20, Seg: 1 << 20}
			for _, fk := range []string{"collected", "empty"} {
				F := c16Side{Backend: b.f, Hist: 1, Left: c16Base - 300, Len: 200, Chunk: 1 << 20, Seg: 1 << 20, Reopen: b.reopen}
				if fk == "empty" {
					F = c16Side{Backend: b.f, Hist: 0, Len: -1, Chunk: 1 << 20, Seg: 1 << 20, Reopen: b.reopen}
				}
				out = append(out, c16Scenario{LKind: "snap+log", FKind: fk, Leader: L, Follower: F, Extra: 600, Switch: "relog-same-id", SwitchAt: "fault"})
			}
		}
	}
	// the leader re-synchronises with its source while the follower tails it
	for _, n := range []int64{100, 5000} {
		for _, b := range bes {
			for _, lk := range []string{"snap+log", "log"} {
				for _, sw := range []struct {
					mode   string
					window int
				}{{"resync-same-id", 0}, {"resync-new-id", 0}, {"resync-new-id", 5}, {"continue-new-id", 0}, {"continue-new-id", 5}} {
					if tier != "thorough" && lk == "log" && n == 5000 {
						continue
					}
					L := c16Side{Backend: b.l, Hist: 1, Left: c16Base, Len: n, Chunk: 1 << 20, Seg: 1 << 20}
					if lk == "snap+log" {
						L.Snap = c16SnapFor(n)
					}
					if n == 5000 {
						L.Chunk, L.Seg = 1000, 3000
					}
					for _, fk := range []string{"equal", "empty"} {
						F := c16Side{Backend: b.f, Hist: 1, Snap: L.Snap, Left: c16Base, Len: n, Chunk: L.Chunk, Seg: L.Seg, Reopen: b.reopen}
						if fk == "empty" {
							F = c16Side{Backend: b.f, Hist: 0, Len: -1, Chunk: L.Chunk, Seg: L.Seg, Reopen: b.reopen}
						}
						out = append(out, c16Scenario{LKind: lk, FKind: fk, Leader: L, Follower: F, Extra: 600, Switch: sw.mode, Window: sw.window})
					}
				}
			}
		}
	}
	// the follower's id as the leader's previous id (see PrevID)
	for _, sc := range append([]c16Scenario(nil), out...) {
		if strings.HasPrefix(sc.FKind, "other-id") && sc.Follower.Hist == 2 && sc.NotReady == "" && sc.Switch == "" {
			sc.PrevID = true
			out = append(out, sc)
		}
	}
	return out
}

// ---------------------------------------------------------------------------
// a pre-filled cache

type c16Chan struct {
	side    c16Side
	ch      Channel
	dir     string
	id      string
	aofGate *gate // live log writer (leader only)
	aofW    AofChannelWriter
	right   int64
	feeds   int
}

func c16NewChannel(side c16Side, dir string) Channel {
	if side.Backend == "disk" {
		ch := NewStoreChannel(StorerConf{InputId: "c16", Dir: dir, MaxSize: 0, LogSize: side.Seg})
		ch.(*StoreChannel).storer.VerifC16SetReadBufSize(c16BufSize)
		return ch
	}
	ch := NewMemoryChannel(MemoryConf{InputId: "c16", MaxSize: 0, LogSize: side.Seg})
	ch.(*MemoryChannel).readBufSize = c16BufSize
	return ch
}

func c16Feed(g *gate, hist, kind int, from, n, chunk int64) int {
	k := 0
	for done := int64(0); done < n; {
		c := chunk
		if c > n-done {
			c = n - done
		}
		if kind >= 1 { // snapshots are always fed whole (from == 0, n == size)
			g.Release(c16SnapBody(hist, kind, n)[done : done+c])
		} else {
			g.Release(c16Bytes(hist, kind, from+done, c))
		}
		done += c
		k++
		synctest.Wait()
	}
	return k
}

// c16Build creates a cache and fills it through its writer API.
func c16Build(side c16Side, dir string, keepOpen bool) (*c16Chan, error) {
	c := &c16Chan{side: side, dir: dir, right: -1}
	if side.Backend == "disk" {
		if err := os.MkdirAll(dir, 0o777); err != nil {
			return nil, err
		}
	}
	c.ch = c16NewChannel(side, dir)
	if side.Hist == 0 {
		return c, nil
	}
	c.id = c16IDs[side.Hist]
	if err := c.ch.SetRunId(c.id); err != nil {
		return nil, err
	}
	if side.Snap > 0 {
		g := newGate()
		w, err := c.ch.NewRdbWriter(g, side.Left, side.Snap)
		if err != nil {
			return nil, err
		}
		w.Start()
		c.feeds += c16Feed(g, side.Hist, 1, 0, side.Snap, side.Chunk)
		if err := w.Wait(context.Background()); err != nil {
			return nil, fmt.Errorf("snapshot pre-fill: %v", err)
		}
		w.Close()
		g.Close(nil)
		c.right = side.Left
		synctest.Wait()
	}
	if side.Len >= 0 {
		g := newGate()
		w, err := c.ch.NewAofWritter(g, side.Left)
		if err != nil {
			return nil, err
		}
		w.Start()
		c.feeds += c16Feed(g, side.Hist, 0, side.Left, side.Len, side.Chunk)
		c.right = side.Left + side.Len
		if keepOpen {
			c.aofGate, c.aofW = g, w
		} else {
			g.Close(nil)
			w.Wait(context.Background())
			w.Close()
			synctest.Wait()
		}
	}
	l, r := c.ch.GetOffsetRange(c.id)
	wl, wr := int64(-1), int64(-1)
	if side.Snap > 0 || side.Len >= 0 {
		wl, wr = side.Left, c.right
	}
	if !keepOpen && side.Len == 0 && side.Snap == 0 {
		wl, wr = -1, -1
	}
	if l != wl || r != wr {
		return nil, fmt.Errorf("pre-fill of %+v reports range [%d,%d], want [%d,%d]", side, l, r, wl, wr)
	}
	if side.Reopen && side.Backend == "disk" {
		c.ch.Close()
		synctest.Wait()
		c.ch = c16NewChannel(side, dir)
	}
	return c, nil
}

func (c *c16Chan) close() {
	if c.aofGate != nil {
		c.aofGate.Close(nil)
		c.aofW.Close()
	}
	c.ch.Close()
}

// ---------------------------------------------------------------------------
// white-box view of what a cache holds under one run id

type c16Seg struct {
	Left int64
	Data []byte
	Name string
}

type c16SnapHeld struct {
	Left, Size int64
	Data       []byte
	Partial    bool // disk: still *.rdb.tmp
	Name       string
}

type c16Held struct {
	Segs  []c16Seg
	Snaps []c16SnapHeld
}

func (h c16Held) digest() string {
	var sb strings.Builder
	for _, s := range h.Snaps {
		fmt.Fprintf(&sb, "snap(%d,%d,%v,%x)", s.Left, s.Size, s.Partial, mc.Hash(string(s.Data)))
	}
	for _, s := range h.Segs {
		fmt.Fprintf(&sb, "[%d+%d:%x]", s.Left, len(s.Data), mc.Hash(string(s.Data)))
	}
	return sb.String()
}

func (h c16Held) shape() string {
	var sb strings.Builder
	for _, s := range h.Snaps {
		fmt.Fprintf(&sb, "snap(%d,%d,have=%d,partial=%v)", s.Left, s.Size, len(s.Data), s.Partial)
	}
	for _, s := range h.Segs {
		fmt.Fprintf(&sb, "[%d,%d)", s.Left, s.Left+int64(len(s.Data)))
	}
	if sb.Len() == 0 {
		return "nothing"
	}
	return sb.String()
}

func (c *c16Chan) held(id string) c16Held {
	var h c16Held
	if id == "" {
		return h
	}
	switch ch := c.ch.(type) {
	case *MemoryChannel:
		ch.mux.RLock()
		defer ch.mux.RUnlock()
		if ch.runId != id {
			return h
		}
		blobCopy := func(b *appendBlob) []byte {
			b.mu.Lock()
			defer b.mu.Unlock()
			return append([]byte(nil), b.data...)
		}
		if ch.rdb != nil {
			s := c16SnapHeld{Left: ch.rdb.left, Size: ch.rdb.size, Name: "rdb", Partial: !ch.rdb.replayable}
			for _, seg := range ch.rdb.segments {
				s.Data = append(s.Data, blobCopy(seg.blob)...)
			}
			h.Snaps = append(h.Snaps, s)
		}
		for _, seg := range ch.aofSegs {
			h.Segs = append(h.Segs, c16Seg{Left: seg.left, Data: blobCopy(seg.blob), Name: "seg"})
		}
	case *StoreChannel:
		d := filepath.Join(c.dir, id)
		ents, err := os.ReadDir(d)
		if err != nil {
			return h
		}
		for _, e := range ents {
			name := e.Name()
			b, err := os.ReadFile(filepath.Join(d, name))
			if err != nil {
				continue
			}
			switch {
			case strings.HasSuffix(name, ".aof"):
				left, err := strconv.ParseInt(strings.TrimSuffix(name, ".aof"), 10, 64)
				if err != nil {
					continue
				}
				if len(b) >= 16 {
					b = b[16:]
				} else {
					b = nil
				}
				h.Segs = append(h.Segs, c16Seg{Left: left, Data: b, Name: name})
			case strings.HasSuffix(name, ".rdb"), strings.HasSuffix(name, ".rdb.tmp"):
				base := strings.TrimSuffix(strings.TrimSuffix(name, ".tmp"), ".rdb")
				p := strings.Split(base, "_")
				if len(p) != 2 {
					continue
				}
				left, e1 := strconv.ParseInt(p[0], 10, 64)
				size, e2 := strconv.ParseInt(p[1], 10, 64)
				if e1 != nil || e2 != nil {
					continue
				}
				h.Snaps = append(h.Snaps, c16SnapHeld{Left: left, Size: size, Data: b, Partial: strings.HasSuffix(name, ".tmp"), Name: name})
			}
		}
	}
	sort.Slice(h.Segs, func(i, j int) bool { return h.Segs[i].Left < h.Segs[j].Left })
	return h
}

// ---------------------------------------------------------------------------
// the leader's side of the wire

type c16Input struct {
	mu  sync.Mutex
	ids []string
}

func (i *c16Input) Id() string                              { return c16InputAddr }
func (i *c16Input) Run() error                              { return nil }
func (i *c16Input) Stop() error                             { return nil }
func (i *c16Input) SetOutput(output Output)                 {}
func (i *c16Input) SetChannel(ch Channel)                   {}
func (i *c16Input) StateNotify(SyncState) usync.WaitChannel { return nil }
func (i *c16Input) RunIds() []string {
	i.mu.Lock()
	defer i.mu.Unlock()
	return append([]string(nil), i.ids...)
}
func (i *c16Input) setRunIds(ids []string) {
	i.mu.Lock()
	i.ids = ids
	i.mu.Unlock()
}

// c16Server is what cmd.SyncerCmd.Sync is for the real binary: the registered gRPC
// service that forwards to the syncer of the requested input.
type c16Server struct{ sy *syncer }

func (s *c16Server) Sync(req *pb.SyncRequest, stream pb.ApiService_SyncServer) error {
	s.sy.wait.WgAdd(1)
	defer s.sy.wait.WgDone()
	return s.sy.ServiceReplica(req, stream)
}

// ---------------------------------------------------------------------------
// one execution

// c16SnapID: a snapshot that exists in some history (kind = its serial in that history).
type c16SnapID struct {
	hist, kind int
	left, size int64
}

// c16Leader is the model of what the leader's cache currently holds.
type c16Leader struct {
	id    string
	hist  int
	right int64 // -1 = nothing
	snap  *c16SnapID
}

type c16Run struct {
	scn      c16Scenario
	net      *vgrpc.Net
	lch      *c16Chan
	fch      *c16Chan
	input    *c16Input
	rf       *ReplicaFollower
	done     chan error
	ended    bool
	runErr   error
	wire     int
	data     int // data bytes delivered to the follower
	trace    []string
	virt     time.Duration
	deadline time.Duration
	viol     *mc.Result
	soft     *mc.Result // first invariant violation seen while the follower was still running
	inRun    bool       // observations made now are intermediate (recorded, the run goes on)
	L        c16Leader
	snaps    []c16SnapID // every snapshot any history has
	extra    int64       // bytes the leader is to append in total
	appended int64       // ... and has appended so far
	appends  int
	events   int
	restarts int
	faulted  bool
	// the append that follows the first fault is a separate event (after quiescence)
	wantAppend bool
	wantSwitch bool
	relogLeft  int64 // "relog-same-id": where the leader's new log starts
	leader     *ReplicaLeader
	sy         *syncer
	notReady   bool
	// leader re-synchronisation: 0 = not yet, 1 = run id set, cache empty, 2 = new data present
	switchPhase int
	switchAt    time.Duration
}

func (r *c16Run) logf(f string, a ...interface{}) {
	r.trace = append(r.trace, fmt.Sprintf("t=%v ", r.virt)+fmt.Sprintf(f, a...))
}

func (r *c16Run) group() string {
	return r.scn.group(r.switchPhase > 0, r.L.right < 0)
}

func (r *c16Run) fail(clause, kind string, detail map[string]interface{}) {
	if r.viol != nil {
		return
	}
	if detail == nil {
		detail = map[string]interface{}{}
	}
	tr := append([]string(nil), r.trace...)
	if len(tr) > 70 {
		tr = append(append(append([]string(nil), tr[:35]...), fmt.Sprintf("... %d lines ...", len(tr)-70)), tr[len(tr)-35:]...)
	}
	detail["trace"] = tr
	detail["expect"] = r.scn.expect()
	detail["leader_run_id"] = r.L.id[:4]
	for h := 1; h < len(c16IDs); h++ {
		if sh := r.fch.held(c16IDs[h]).shape(); sh != "nothing" {
			detail["follower_holds_under_"+c16IDs[h][:4]] = sh
		}
	}
	if r.ended {
		detail["run_returned"] = fmt.Sprint(r.runErr)
	}
	if r.inRun {
		// an invariant broken at an intermediate quiescent point: remember the first one and let
		// the run go on, so that the report can say what the follower ends up with
		if r.soft == nil {
			detail["observed"] = "at an intermediate quiescent point (a stop of the process here leaves the cache like this)"
			v := mc.Violation(clause, r.sig(kind+"-transient"), detail)
			r.soft = &v
		}
		return
	}
	detail["observed"] = "final state"
	if r.soft != nil {
		detail["first_intermediate_violation"] = map[string]interface{}{"clause": r.soft.Clause, "detail": r.soft.Detail}
	}
	v := mc.Violation(clause, r.sig(kind), detail)
	r.viol = &v
}

// sig: which clause failed on which coarse shape. Two clauses name their shape themselves:
// an empty snapshot nobody sent (whatever the caches were), and an incomplete snapshot left
// behind by an interrupted transfer (a matter of the follower's cache back end).
func (r *c16Run) sig(kind string) string {
	switch kind {
	case "phantom-snapshot":
		return "C16:phantom-snapshot"
	case "snapshot-incomplete":
		return "C16:snapshot-incomplete:" + r.scn.Follower.Backend
	case "no-convergence":
		return "C16:no-convergence:" + r.scn.Follower.Backend
	}
	return fmt.Sprintf("C16:%s:%s", kind, r.group())
}

func (r *c16Run) poll() {
	if r.ended {
		return
	}
	select {
	case err := <-r.done:
		r.ended, r.runErr = true, err
		r.logf("follower Run() returned: %v", err)
	default:
	}
}

func c16Describe(p *vgrpc.Send) (string, *pb.SyncResponse) {
	var m pb.SyncResponse
	if err := proto.Unmarshal(p.Bytes, &m); err != nil {
		return "undecodable", nil
	}
	s := fmt.Sprintf("stream%d#%d %s off=%d size=%d", p.Stream.ID, p.Seq, m.GetCode(), m.GetOffset(), m.GetSize())
	if m.GetCode() == pb.SyncResponse_META {
		if m.GetMeta().GetRunId() != "" {
			s += " runid=" + m.GetMeta().GetRunId()[:4]
		} else if m.GetMeta().GetAof() {
			s += " aof"
		} else {
			s += " rdb"
		}
	}
	if m.GetMeta().GetMsg() != "" {
		s += " msg=" + m.GetMeta().GetMsg()
	}
	return s, &m
}

func (r *c16Run) snapOf(hist int, left, size int64) *c16SnapID {
	for i := range r.snaps {
		if s := &r.snaps[i]; s.hist == hist && s.left == left && s.size == size {
			return s
		}
	}
	return nil
}

// whose names the history (and kind) a byte at a position belongs to, for reports.
func c16Whose(b byte, off int64, snapshot bool) string {
	for h := 1; h < len(c16IDs); h++ {
		if !snapshot && b == c16Byte(h, 0, off) {
			return fmt.Sprintf("the log byte of history %d (run id %s) at this offset", h, c16IDs[h][:4])
		}
		for k := 1; snapshot && k <= 2; k++ {
			if b == c16Byte(h, k, off) {
				return fmt.Sprintf("the byte of snapshot %d of history %d (run id %s) at this index", k, h, c16IDs[h][:4])
			}
		}
	}
	return "no history's byte at this position (shifted or damaged)"
}

// observe is the invariant part of the oracle; it runs at every quiescent point and looks
// at everything the follower holds under every run id: each stored byte must be the byte
// of THAT run id's history at that offset, the log must be contiguous, every snapshot must
// be one that history has.
func (r *c16Run) observe() {
	if r.viol != nil || (r.inRun && r.soft != nil) {
		return
	}
	for hist := 1; hist < len(c16IDs); hist++ {
		id := c16IDs[hist]
		h := r.fch.held(id)
		under := "under run id " + id[:4]
		if id == r.L.id {
			under = "under the leader's run id"
		}
		for _, s := range h.Segs {
			for i := range s.Data {
				off := s.Left + int64(i)
				if s.Data[i] == c16Byte(hist, 0, off) {
					continue
				}
				whose := c16Whose(s.Data[i], off, false)
				kind := "wrong-byte"
				if strings.HasPrefix(whose, "the ") {
					kind = "foreign-byte"
				}
				r.fail("the follower holds, "+under+", a log byte that is not that history's byte at that offset",
					kind, map[string]interface{}{"run_id": id[:4], "segment": s.Name, "segment_left": s.Left, "offset": off, "got": s.Data[i], "want": c16Byte(hist, 0, off), "it_is": whose})
				return
			}
		}
		for _, s := range h.Snaps {
			known := r.snapOf(hist, s.Left, s.Size)
			if known == nil {
				if len(s.Data) == 0 && s.Size == 0 {
					continue // an empty body holds no byte: judged at the end through the reader API
				}
				// whose bytes are they?
				whose := "unknown"
				if len(s.Data) > 0 {
					whose = c16Whose(s.Data[0], 0, true)
				}
				kind := "foreign-snapshot"
				if strings.HasPrefix(whose, "the ") {
					kind = "foreign-byte"
				}
				for _, k := range r.snaps {
					if k.hist == hist && k.size == s.Size && (len(s.Data) == 0 || s.Data[0] == c16Byte(hist, k.kind, 0)) {
						kind = "snapshot-misplaced" // that history's snapshot, filed under an offset it does not have
						whose = fmt.Sprintf("this history's snapshot of offset %d", k.left)
					}
				}
				r.fail("the follower holds, "+under+", a snapshot that history does not have",
					kind, map[string]interface{}{"run_id": id[:4], "snapshot": s.Name, "left": s.Left, "size": s.Size, "first_byte_is": whose})
				return
			}
			for i := range s.Data {
				if int64(i) >= s.Size {
					r.fail("a stored snapshot is longer than its declared size", "snapshot-overrun", map[string]interface{}{"snapshot": s.Name, "have": len(s.Data)})
					return
				}
				if s.Data[i] != c16SnapBody(hist, known.kind, known.size)[i] {
					whose := c16Whose(s.Data[i], int64(i), true)
					kind := "wrong-byte"
					if strings.HasPrefix(whose, "the ") {
						kind = "foreign-byte"
					}
					r.fail("the follower holds, "+under+", a snapshot byte that is not that snapshot's byte at that index",
						kind, map[string]interface{}{"run_id": id[:4], "snapshot": s.Name, "index": i, "got": s.Data[i], "want": c16SnapBody(hist, known.kind, known.size)[i], "it_is": whose})
					return
				}
			}
		}
		// contiguity of the non-empty segments
		var prev *c16Seg
		for i := range h.Segs {
			s := &h.Segs[i]
			if len(s.Data) == 0 {
				continue
			}
			if prev != nil {
				pr := prev.Left + int64(len(prev.Data))
				if s.Left != pr {
					kind := "gap"
					if s.Left < pr {
						kind = "overlap"
					}
					r.fail("the log the follower holds "+under+" is not contiguous",
						kind, map[string]interface{}{"run_id": id[:4], "segment": prev.Name, "ends_at": pr, "next_segment": s.Name, "starts_at": s.Left})
					return
				}
			}
			prev = s
		}
		// a complete snapshot that is followed by log bytes must be followed gap-free: the log has
		// to cover the snapshot's offset (a reader continues there after the snapshot body)
		var first, last *c16Seg
		for i := range h.Segs {
			if len(h.Segs[i].Data) > 0 {
				if first == nil {
					first = &h.Segs[i]
				}
				last = &h.Segs[i]
			}
		}
		for _, sn := range h.Snaps {
			if first == nil || sn.Partial || int64(len(sn.Data)) < sn.Size || r.snapOf(hist, sn.Left, sn.Size) == nil {
				continue
			}
			if lr := last.Left + int64(len(last.Data)); first.Left > sn.Left || lr < sn.Left {
				r.fail("the follower holds "+under+" a snapshot and a log that does not continue at the snapshot's offset",
					"gap", map[string]interface{}{"run_id": id[:4], "snapshot": sn.Name, "snapshot_offset": sn.Left, "log_from": first.Left, "log_to": lr})
				return
			}
		}
	}
}

func (r *c16Run) followerRight() int64 {
	_, right := r.fch.ch.GetOffsetRange(r.L.id)
	return right
}

func (r *c16Run) synced() bool {
	return r.L.right >= 0 && r.net.ClientWaiting() != nil && r.followerRight() == r.L.right
}

// append lets the leader's live log writer receive the next piece of the extra bytes. A
// piece is what reaches the leader's reader as ONE write: at most 4096 bytes (the writers
// ingest 4 KiB at a time) and, for the memory cache, not across a segment boundary.
// Larger appends would let the leader's copier and sender goroutines race for how the
// bytes are cut into messages; piece by piece the message sequence is a function of the
// scenario (every piece is one event, followed by quiescence).
func (r *c16Run) append() bool {
	rem := r.extra - r.appended
	if r.lch.aofGate == nil || rem <= 0 || r.L.right < 0 {
		return false
	}
	piece := rem
	if piece > 4096 {
		piece = 4096
	}
	if mch, ok := r.lch.ch.(*MemoryChannel); ok && mch.logSize > 0 {
		mch.mux.RLock()
		space := mch.logSize
		if n := len(mch.aofSegs); n > 0 {
			if used := int64(mch.aofSegs[n-1].blob.len()); used < mch.logSize {
				space = mch.logSize - used
			}
		}
		mch.mux.RUnlock()
		if piece > space {
			piece = space
		}
	}
	r.appends++
	r.events++
	r.logf("leader appends %d bytes at %d", piece, r.L.right)
	r.lch.aofGate.Release(c16Bytes(r.L.hist, 0, r.L.right, piece))
	r.L.right += piece
	r.appended += piece
	return true
}

// setReady puts the leader into / takes it out of the scenario's not-ready state.
func (r *c16Run) setReady(ready bool) {
	r.events++
	switch r.scn.NotReady {
	case "no-ids":
		if ready {
			r.input.setRunIds([]string{c16IDs[1], strings.Repeat("0", 40)})
		} else {
			r.input.setRunIds(nil)
		}
	case "role":
		r.sy.guard.Lock()
		if ready {
			r.sy.state = SyncerStateRun
		} else {
			r.sy.state = SyncerStatePause
		}
		r.sy.guard.Unlock()
	case "stopped":
		if ready {
			r.leader.Start()
		} else {
			r.leader.Stop()
		}
	case "stale-channel-id":
		if ready {
			r.input.setRunIds([]string{c16IDs[1], strings.Repeat("0", 40)})
		} else {
			r.input.setRunIds([]string{c16IDs[3], c16IDs[1]})
		}
	}
	r.notReady = !ready
	if ready {
		r.logf("leader becomes ready (was: %s)", r.scn.NotReady)
		r.deadline = r.virt + c16Horizon
	}
}

// switchBegin: the leader's input lost its source connection and starts a full sync, as
// RedisInput does: the log writer ends, setRunIds, channel.DelRunId(old), channel.SetRunId(new).
func (r *c16Run) switchBegin() {
	r.events++
	newHist := 1
	if r.scn.Switch == "resync-new-id" {
		newHist = 3
	}
	if r.scn.Switch == "relog-same-id" {
		r.logf("leader loses its cache and continues its source's stream later: log writer ends, DelRunId(%s), SetRunId(%s)", r.L.id[:4], r.L.id[:4])
	} else {
		r.logf("leader starts a full re-synchronisation with its source: log writer ends, run ids := [%s], DelRunId(%s), SetRunId(%s)", c16IDs[newHist][:4], r.L.id[:4], c16IDs[newHist][:4])
	}
	if r.lch.aofGate != nil {
		r.lch.aofGate.Close(nil)
		r.lch.aofW.Close()
		r.lch.aofGate, r.lch.aofW = nil, nil
		synctest.Wait()
	}
	if r.scn.Switch == "continue-new-id" {
		r.logf("leader's source failed over and granted a partial resynchronisation: log writer ends, run ids := [%s, %s], SetRunId(%s), cache kept", c16IDs[4][:4], r.L.id[:4], c16IDs[4][:4])
		c16ForkAt = r.L.right
		r.input.setRunIds([]string{c16IDs[4], r.L.id})
		r.lch.ch.SetRunId(c16IDs[4])
		r.L.id, r.L.hist = c16IDs[4], 4
		for _, sn := range append([]c16SnapID(nil), r.snaps...) {
			if sn.hist == 1 {
				sn.hist = 4
				r.snaps = append(r.snaps, sn)
			}
		}
		if r.L.snap != nil {
			r.L.snap = r.snapOf(4, r.L.snap.left, r.L.snap.size)
		}
		r.switchPhase, r.switchAt = 1, r.virt
		r.deadline = r.virt + c16Horizon
		return
	}
	r.input.setRunIds([]string{c16IDs[newHist]})
	r.lch.ch.DelRunId(r.lch.ch.RunId())
	r.lch.ch.SetRunId(c16IDs[newHist])
	oldRight := r.L.right
	r.L = c16Leader{id: c16IDs[newHist], hist: newHist, right: -1}
	// where the new snapshot will be
	kind, left := 1, c16Base+50 // another history: its offsets overlap the old ones
	if newHist == 1 {
		kind, left = 2, oldRight+500 // same history, later snapshot
	}
	if r.scn.Switch == "relog-same-id" {
		r.relogLeft = oldRight + 500 // no snapshot: only a log from a later offset
		if oldRight < 0 {
			r.relogLeft = c16Base + 500
		}
	} else {
		r.snaps = append(r.snaps, c16SnapID{hist: newHist, kind: kind, left: left, size: 700})
	}
	r.switchPhase, r.switchAt = 1, r.virt
	r.deadline = r.virt + c16Horizon
}

// switchData: the new snapshot and the first log bytes arrive at the leader.
func (r *c16Run) switchData() bool {
	r.events++
	if r.scn.Switch == "relog-same-id" {
		r.logf("leader's log restarts at offset %d with 300 bytes, no snapshot", r.relogLeft)
		g2 := newGate()
		aw, err := r.lch.ch.NewAofWritter(g2, r.relogLeft)
		if err != nil {
			return false
		}
		aw.Start()
		c16Feed(g2, r.L.hist, 0, r.relogLeft, 300, 1<<20)
		r.lch.aofGate, r.lch.aofW = g2, aw
		r.L.snap = nil
		r.L.right = r.relogLeft + 300
		r.extra = r.appended + 600
		r.switchPhase = 2
		r.deadline = r.virt + c16Horizon
		return true
	}
	if r.scn.Switch == "continue-new-id" {
		r.logf("leader's log continues at offset %d with 300 bytes of the promoted master", r.L.right)
		g2 := newGate()
		aw, err := r.lch.ch.NewAofWritter(g2, r.L.right)
		if err != nil {
			return false
		}
		aw.Start()
		c16Feed(g2, 4, 0, r.L.right, 300, 1<<20)
		r.lch.aofGate, r.lch.aofW = g2, aw
		r.L.right += 300
		r.extra = r.appended + 600
		r.switchPhase = 2
		r.deadline = r.virt + c16Horizon
		return true
	}
	sn := r.snaps[len(r.snaps)-1]
	r.logf("leader receives its new snapshot (offset %d, %d bytes) and 300 log bytes", sn.left, sn.size)
	g := newGate()
	w, err := r.lch.ch.NewRdbWriter(g, sn.left, sn.size)
	if err != nil {
		return false
	}
	w.Start()
	c16Feed(g, sn.hist, sn.kind, 0, sn.size, 1<<20)
	if err := w.Wait(context.Background()); err != nil {
		return false
	}
	w.Close()
	g.Close(nil)
	synctest.Wait()
	g2 := newGate()
	aw, err := r.lch.ch.NewAofWritter(g2, sn.left)
	if err != nil {
		return false
	}
	aw.Start()
	c16Feed(g2, sn.hist, 0, sn.left, 300, 1<<20)
	r.lch.aofGate, r.lch.aofW = g2, aw
	snc := sn
	r.L.snap = &snc
	r.L.right = sn.left + 300
	r.extra = r.appended + 600 // one more live append once the follower tails the new data
	r.switchPhase = 2
	r.deadline = r.virt + c16Horizon
	return true
}

func (r *c16Run) startFollower() {
	r.rf = NewReplicaFollower(1, c16InputAddr, r.fch.ch, &cluster.RoleInfo{Address: c16LeaderAddr, Role: cluster.RoleLeader})
	r.done = make(chan error, 1)
	r.ended, r.runErr = false, nil
	rf, done := r.rf, r.done
	go func() { done <- rf.Run() }()
}

// restart stops the follower the way syncer.runFollower does on shutdown, closes its cache,
// re-creates the cache object over the same directory (what a new process finds) and runs
// a new follower.
func (r *c16Run) restart() {
	r.rf.Stop()
	synctest.Wait()
	r.fch.ch.Close()
	synctest.Wait()
	r.fch.ch = c16NewChannel(r.fch.side, r.fch.dir)
	r.restarts++
	r.startFollower()
}

// drive is the event loop: one environment event, then quiescence, then the invariants.
// Result: "" (ended: follower returned, or tails the leader with nothing left to do),
// "timeout" (deadline of virtual time passed), "no-convergence" (message / step bound
// exceeded), "machinery".
func (r *c16Run) drive() string {
	expect := r.scn.expect()
	r.deadline = c16Horizon
	if expect == "none" {
		r.deadline = c16NoneSpan
	}
	for steps := 0; ; steps++ {
		synctest.Wait()
		r.poll()
		r.observe()
		if r.viol != nil || r.ended {
			return ""
		}
		if r.wire >= c16MaxWire || steps >= c16MaxSteps {
			return "no-convergence"
		}
		if r.wantSwitch {
			r.wantSwitch = false
			if r.switchPhase == 0 {
				r.switchBegin()
				continue
			}
		}
		if r.wantAppend {
			r.wantAppend = false
			if r.append() {
				continue
			}
		}
		if r.notReady && r.virt >= time.Duration(r.scn.Window)*time.Second {
			r.setReady(true)
			continue
		}
		if r.switchPhase == 1 && r.virt >= r.switchAt+time.Duration(r.scn.Window)*time.Second {
			if !r.switchData() {
				return "machinery"
			}
			continue
		}
		if p := r.net.Next(); p != nil {
			if r.scn.Switch != "" && r.scn.SwitchAt == "handshake" && r.switchPhase == 0 && r.wire == 0 {
				r.switchBegin() // the reply to the handshake stays in flight meanwhile
				continue
			}
			r.wire++
			r.events++
			desc, m := c16Describe(p)
			if f := r.scn.fault(r.wire); f != nil {
				if f.Mode == "restart" {
					r.logf("msg %d LOST, follower stopped and restarted over its re-opened cache directory: %s", r.wire, desc)
					r.restart()
				} else {
					r.logf("msg %d LOST, stream broken: %s", r.wire, desc)
					p.Break()
				}
				if !r.faulted && r.scn.AppendAtFault {
					r.wantAppend = true // the next event, after quiescence
				}
				if !r.faulted && r.scn.Switch != "" && r.scn.SwitchAt == "fault" {
					r.wantSwitch = true // the next event, after quiescence
				}
				r.faulted = true
			} else {
				r.logf("msg %d delivered: %s", r.wire, desc)
				if m != nil && m.GetCode() == pb.SyncResponse_CONTINUE {
					r.data += int(m.GetSize())
				}
				p.Deliver()
			}
			continue
		}
		if expect != "none" && r.synced() {
			if r.append() {
				continue
			}
			if r.scn.Switch != "" && r.scn.SwitchAt == "" && r.switchPhase == 0 {
				r.switchBegin()
				continue
			}
			return ""
		}
		if r.virt >= r.deadline {
			return "timeout"
		}
		time.Sleep(c16Step)
		r.virt += c16Step
	}
}

// readBack reads what the follower's cache offers under the leader's run id through its
// reader API and compares it with the leader's history.
func (r *c16Run) readBack(mustReach int64) {
	y, hist := r.L.id, r.L.hist
	ch := r.fch.ch
	l, right := ch.GetOffsetRange(y)
	rdbL, rdbS := ch.GetRdb(y)
	d := map[string]interface{}{"follower_range": []int64{l, right}, "follower_snapshot": []int64{rdbL, rdbS}, "leader_right": r.L.right}
	if mustReach >= 0 && right != mustReach && !(right < 0 && len(r.fch.held(y).Segs) == 0) {
		// (a follower that joined at the leader's newest byte and has received nothing yet reports no range)
		r.fail("the follower was idle on an open stream at the leader's newest offset, but after stopping its cache ends elsewhere", "stale", d)
		return
	}
	read := func(off int64, want int64) (cr ChannelReader, got []byte, err error) {
		cr, err = ch.NewReader(Offset{RunId: y, Offset: off})
		if err != nil || cr == nil {
			return nil, nil, fmt.Errorf("NewReader: %v", err)
		}
		wait := usync.NewWaitCloser(nil)
		cr.Start(wait)
		var mu sync.Mutex
		br := cr.IoReader()
		go func() {
			buf := make([]byte, 4096)
			for {
				n, e := br.Read(buf)
				mu.Lock()
				got = append(got, buf[:n]...)
				mu.Unlock()
				if e != nil {
					return
				}
			}
		}()
		for el := time.Duration(0); el < c16ReadSpan; el += 50 * time.Millisecond {
			synctest.Wait()
			mu.Lock()
			n := int64(len(got))
			mu.Unlock()
			if n >= want {
				break
			}
			time.Sleep(50 * time.Millisecond)
		}
		wait.Close(nil)
		cr.Close()
		synctest.Wait()
		time.Sleep(20 * time.Millisecond)
		synctest.Wait()
		mu.Lock()
		defer mu.Unlock()
		return cr, append([]byte(nil), got...), nil
	}
	if rdbL >= 0 {
		known := r.snapOf(hist, rdbL, rdbS)
		if known == nil {
			kind := "foreign-snapshot"
			if rdbS == 0 {
				kind = "phantom-snapshot" // an empty snapshot nobody ever sent
			}
			r.fail("the follower offers, under the leader's run id, a snapshot the leader's history does not have", kind, d)
			return
		}
		// a snapshot is served for offsets in front of the log (the log wins at its own first offset)
		at := rdbL - 1
		if l >= 0 && l <= at {
			at = l - 1
		}
		cr, got, err := read(at, rdbS)
		if err != nil || cr.IsAof() || cr.Size() != rdbS {
			d["error"] = fmt.Sprint(err)
			r.fail("the follower offers a snapshot that cannot be opened as such", "snapshot-unreadable", d)
			return
		}
		if int64(len(got)) != rdbS {
			d["delivered"] = len(got)
			r.fail("the follower offers a snapshot whose body is incomplete", "snapshot-incomplete", d)
			return
		}
		for i := range got {
			if got[i] != c16SnapBody(hist, known.kind, known.size)[i] {
				d["index"] = i
				d["it_is"] = c16Whose(got[i], int64(i), true)
				r.fail("the follower's snapshot differs from the leader's", "wrong-byte", d)
				return
			}
		}
	}
	if l >= 0 && right > l {
		cr, got, err := read(l, right-l)
		if err != nil {
			d["error"] = err.Error()
			r.fail("the follower reports a log range whose first offset cannot be opened", "range-unreadable", d)
			return
		}
		if !cr.IsAof() {
			// the range starts with the snapshot; read the log from the snapshot's offset
			if rdbL < 0 || rdbL > right {
				r.fail("the follower reports a log range that is served by no log segment", "range-unreadable", d)
				return
			}
			l = rdbL
			if right > l {
				cr, got, err = read(l, right-l)
				if err != nil || !cr.IsAof() {
					d["error"] = fmt.Sprint(err)
					r.fail("the follower's log after its snapshot cannot be opened", "range-unreadable", d)
					return
				}
			} else {
				got = nil
			}
		}
		if int64(len(got)) < right-l {
			d["delivered"] = len(got)
			d["from"] = l
			r.fail("the follower reports a log range that its reader cannot deliver contiguously", "range-not-contiguous", d)
			return
		}
		for i := int64(0); i < right-l; i++ {
			if got[i] != c16Byte(hist, 0, l+i) {
				d["offset"] = l + i
				d["got"], d["want"] = got[i], c16Byte(hist, 0, l+i)
				whose := c16Whose(got[i], l+i, false)
				d["it_is"] = whose
				kind := "wrong-byte"
				if strings.HasPrefix(whose, "the ") {
					kind = "foreign-byte"
				}
				r.fail("a reader of the follower's cache delivers, under the leader's run id, a byte that is not the leader's byte at that offset", kind, d)
				return
			}
		}
	}
}

var c16Seq int

var c16Root string

// c16ScratchRoot: the cache directories live on tmpfs when there is one (every segment
// rotation fsyncs; durability is not part of this property), else under VERIF_SCRATCH.
func c16ScratchRoot() string {
	if c16Root != "" {
		return c16Root
	}
	if st, err := os.Stat("/dev/shm"); err == nil && st.IsDir() && os.Getenv("VERIF_NO_SHM") == "" {
		cand := filepath.Join("/dev/shm", fmt.Sprintf("verif-c16-%d", os.Getpid()))
		if os.MkdirAll(cand, 0o777) == nil {
			c16Root = cand
			return c16Root
		}
	}
	base := os.Getenv("VERIF_SCRATCH")
	if base == "" {
		base = os.TempDir()
	}
	c16Root = filepath.Join(base, fmt.Sprintf("c16-%d", os.Getpid()))
	os.MkdirAll(c16Root, 0o777)
	return c16Root
}

func c16Exec(t *testing.T, scn c16Scenario) (res mc.Result, wire int) {
	c16Seq++
	base := filepath.Join(c16ScratchRoot(), fmt.Sprintf("x%d", c16Seq))
	defer os.RemoveAll(base)
	if config.GetSyncerConfig().Channel == nil {
		config.GetSyncerConfig().Channel = &config.ChannelConfig{}
	}
	config.GetSyncerConfig().Channel.VerifyCrc = scn.Crc
	if os.Getenv("VERIF_C16_TRACE") != "" {
		t0 := time.Now()
		defer func() {
			b, _ := json.Marshal(scn)
			tr := ""
			if m, ok := res.Detail.(map[string]interface{}); ok && os.Getenv("VERIF_C16_TRACE") == "full" {
				tr = fmt.Sprint(m["trace"])
			}
			fmt.Fprintf(os.Stderr, "c16 exec %6.1fms wire=%d %s obs=%x %s %s\n", float64(time.Since(t0).Microseconds())/1000, wire, res.Verdict, res.Obs, b, tr)
		}()
	}
	c16ForkAt = int64(1) << 60
	msg := bubble(t, func() {
		r := &c16Run{scn: scn, net: vgrpc.Reset(), extra: scn.Extra}
		var err error
		if r.lch, err = c16Build(scn.Leader, filepath.Join(base, "leader"), true); err != nil {
			res = mc.Result{Verdict: "machinery", Clause: "leader pre-fill: " + err.Error()}
			return
		}
		if r.fch, err = c16Build(scn.Follower, filepath.Join(base, "follower"), false); err != nil {
			r.lch.close()
			res = mc.Result{Verdict: "machinery", Clause: "follower pre-fill: " + err.Error()}
			return
		}
		r.L = c16Leader{id: c16IDs[1], hist: 1, right: r.lch.right}
		for _, side := range []c16Side{scn.Leader, scn.Follower} {
			if side.Hist > 0 && side.Snap > 0 && r.snapOf(side.Hist, side.Left, side.Snap) == nil {
				r.snaps = append(r.snaps, c16SnapID{hist: side.Hist, kind: 1, left: side.Left, size: side.Snap})
			}
		}
		if scn.Leader.Snap > 0 {
			r.L.snap = r.snapOf(1, scn.Leader.Left, scn.Leader.Snap)
		}
		fid := c16IDs[scn.Follower.Hist]
		before := r.fch.held(fid)
		bl, br := int64(-1), int64(-1)
		if !scn.Follower.Reopen {
			bl, br = r.fch.ch.GetOffsetRange(fid)
		}

		// the leader: real ReplicaLeader behind the real syncer.ServiceReplica
		// (a leader that continued its source's stream reports two ids: the current one and the previous / all-zero one)
		r.input = &c16Input{ids: []string{c16IDs[1], strings.Repeat("0", 40)}}
		if scn.PrevID {
			r.input.ids[1] = c16IDs[2]
		}
		leader := NewReplicaLeader(r.input, r.lch.ch)
		leader.Start()
		sy := &syncer{logger: log.WithLogger("[c16] "), wait: usync.NewWaitCloser(nil), leader: leader, state: SyncerStateRun, role: SyncerRoleLeader}
		r.net.Serve(c16LeaderAddr, &c16Server{sy: sy})

		r.leader, r.sy = leader, sy
		if scn.NotReady != "" {
			r.setReady(false)
		}

		// the follower: real Run()
		r.startFollower()

		r.inRun = true
		how := r.drive()
		r.inRun = false
		timedOut := how == "timeout"
		expect := scn.expect()
		if r.viol == nil {
			switch {
			case how == "no-convergence":
				r.fail(fmt.Sprintf("after %d server->client messages (%v of virtual time) the follower neither tails the leader nor has returned: transfers repeat without converging", r.wire, r.virt),
					"no-convergence", map[string]interface{}{"follower_right": r.followerRight(), "leader_right": r.L.right, "messages": r.wire})
			case timedOut && expect != "none":
				what := "re-synchronised"
				if expect == "takeover" {
					what = "been offered leadership"
				}
				r.fail(fmt.Sprintf("the follower has neither %s nor returned within %v of virtual time", what, c16Horizon),
					"no-resync", map[string]interface{}{"follower_right": r.followerRight(), "leader_right": r.L.right})
			case expect == "takeover":
				if scn.NotReady != "" && r.ended && errors.Is(r.runErr, ErrBreak) {
					// the leader answered FAILURE: the follower asks for a restart of the process, which is
					// an accepted end; what it holds must still be there to be offered later
					if after := r.fch.held(fid); after.digest() != before.digest() {
						r.fail("a follower that holds more than the leader lost data although no transfer took place", "takeover-data-changed",
							map[string]interface{}{"before": before.shape(), "after": after.shape()})
					}
				} else if !errors.Is(r.runErr, ErrLeaderTakeover) {
					r.fail("a follower that holds more of the leader's history than the leader was not offered leadership", "no-takeover", nil)
				} else {
					after := r.fch.held(fid)
					al, ar := r.fch.ch.GetOffsetRange(fid)
					if after.digest() != before.digest() || (!scn.Follower.Reopen && r.restarts == 0 && (al != bl || ar != br)) {
						r.fail("a follower that was offered leadership no longer holds exactly what it held before", "takeover-data-changed",
							map[string]interface{}{"before": before.shape(), "after": after.shape(), "range_before": []int64{bl, br}, "range_after": []int64{al, ar}})
					}
				}
			}
		}
		// stop the follower, then read back what it offers
		r.rf.Stop()
		synctest.Wait()
		r.poll()
		if r.viol == nil {
			r.observe()
		}
		if r.viol == nil && expect != "takeover" && how != "machinery" {
			must := int64(-1)
			if expect == "sync" && !timedOut && r.runErr == nil {
				must = r.L.right
			}
			r.readBack(must)
		}

		// teardown
		sy.wait.Close(nil)
		r.net.Shutdown()
		r.lch.close()
		r.fch.close()
		synctest.Wait()
		time.Sleep(50 * time.Millisecond)
		synctest.Wait()

		wire = r.wire
		if how == "machinery" {
			res = mc.Result{Verdict: "machinery", Clause: "the leader's cache refused the re-synchronisation writers", Detail: r.trace}
			return
		}
		if r.viol == nil && r.soft != nil {
			r.viol = r.soft
		}
		if r.viol != nil {
			res = *r.viol
			return
		}
		outcome := "running"
		if r.ended {
			switch {
			case errors.Is(r.runErr, ErrLeaderTakeover):
				outcome = "takeover"
			case errors.Is(r.runErr, ErrRole):
				outcome = "role"
			case errors.Is(r.runErr, ErrBreak):
				outcome = "break"
			case r.runErr == nil:
				outcome = "nil"
			default:
				outcome = "error"
			}
		}
		fl, fr := r.fch.ch.GetOffsetRange(r.L.id)
		obs := mc.Hash(scn.LKind, scn.FKind, scn.Leader.Backend, scn.fclass(), scn.Switch, outcome, fmt.Sprint(fl, fr, r.wire, r.data, scn.Faults, scn.AppendAtFault, scn.Window, scn.Crc, scn.NotReady, scn.SwitchAt), strings.Join(r.trace, "\n"))
		res = mc.OK(obs, r.wire > 1, r.events)
		res.Detail = map[string]interface{}{"outcome": outcome, "messages": r.wire, "data_bytes": r.data, "follower_range": []int64{fl, fr}, "virtual_time": r.virt.String(), "trace": r.trace}
	})
	if msg != "" {
		if len(msg) > 4000 {
			msg = msg[:4000]
		}
		res = mc.Result{Verdict: "machinery", Clause: "bubble: " + msg}
	}
	return
}

func runC16(t *testing.T, rep *mc.Reporter) {
	shard, nshards := mc.ShardOf()
	tier := mc.Tier()
	budget := &mc.Budget{Deadline: mc.DeadlineFromEnv()}
	defer func() { os.RemoveAll(c16ScratchRoot()) }()

	if rp, err := mc.LoadReplay(); err != nil {
		rep.Machinery("cannot load replay: "+err.Error(), nil)
		return
	} else if rp != nil {
		var scn c16Scenario
		if err := json.Unmarshal(rp.Scenario, &scn); err != nil {
			rep.Machinery("bad replay scenario: "+err.Error(), nil)
			return
		}
		res, _ := c16Exec(t, scn)
		rep.Exec(scn, nil, res)
		return
	}

	run := func(scn c16Scenario) (mc.Result, int, bool) {
		res, m := c16Exec(t, scn)
		if res.Verdict == "violation" {
			for k := 0; k < 2; k++ {
				r2, _ := c16Exec(t, scn)
				if r2.Verdict != "violation" || r2.Sig != res.Sig {
					rep.Exec(scn, nil, mc.Result{Verdict: "machinery", Clause: fmt.Sprintf("violation not reproducible: first=%s now=%s/%s", res.Sig, r2.Verdict, r2.Sig), Detail: res.Detail})
					return res, m, false
				}
			}
		}
		if res.Verdict == "ok" {
			res.Detail = nil
		}
		rep.Exec(scn, nil, res)
		return res, m, true
	}

	skipped := 0
	for idx, scn := range c16Scenarios(tier) {
		// (hashed: the enumeration is regular, idx%nshards would give some shards all the long logs)
		if int(mc.Hash(strconv.Itoa(idx))%uint64(nshards)) != shard {
			continue
		}
		if budget.Expired() {
			skipped++
			continue
		}
		rep.Scenario()
		res0, m, ok := run(scn)
		if !ok {
			return
		}
		if res0.Verdict != "ok" && m > c16MaxFaultK {
			m = c16MaxFaultK // the pair fails without any fault: a prefix of its interruption points is enough
		}
		// m = messages of the fault-free run (up to its violation, if it has one)
		modes := []string{"break"}
		if scn.Follower.Backend == "disk" {
			modes = append(modes, "restart")
		}
		for k := 1; k <= m; k++ {
			for _, mode := range modes {
				for _, app := range []bool{false, true} {
					if app && (scn.Extra == 0 || (tier != "thorough" && scn.singleFaultInQuick())) {
						continue
					}
					if budget.Expired() {
						skipped++
						continue
					}
					s2 := scn
					s2.Faults = []c16Fault{{K: k, Mode: mode}}
					s2.AppendAtFault = app
					res1, m1, ok := run(s2)
					if !ok {
						return
					}
					if res0.Verdict != "ok" || res1.Verdict != "ok" {
						continue // the pair already fails with fewer faults: second faults add cost, not information
					}
					// a second lost message anywhere after the first one
					// (quick: transport breaks only, no append at the fault)
					if app || (tier != "thorough" && (mode != "break" || scn.singleFaultInQuick())) {
						continue
					}
					modes2 := []string{"break"}
					if tier == "thorough" && scn.Follower.Backend == "disk" {
						modes2 = append(modes2, "restart")
					}
					for k2 := k + 1; k2 <= m1; k2++ {
						for _, mode2 := range modes2 {
							if budget.Expired() {
								skipped++
								continue
							}
							s3 := s2
							s3.Faults = []c16Fault{{K: k, Mode: mode}, {K: k2, Mode: mode2}}
							if _, _, ok := run(s3); !ok {
								return
							}
						}
					}
				}
			}
		}
	}
	if skipped > 0 || budget.Expired() {
		rep.Capped(fmt.Sprintf("deadline reached: %d scenario(s) of this shard not (completely) enumerated", skipped))
	}
}

package syncer

// C04, family "bisync into a cluster": bidirectional snapshot replay (BisyncEnabled) into a
// CLUSTER target. This is the only combination in which sendRdb runs N+2 tasks: the
// distributor, the N replay workers and the "global lane" (rdbReplayBisyncGlobal) that fans
// function libraries and lua scripts out to every primary over its own per-node connections.
//
// The target is the clusterd double with every node in Park mode: no node processes a request
// before every goroutine of the tool is blocked, and the harness decides which pending request
// is processed next (canonical order: by request text, then node). Faults, each at EVERY
// request index of the undisturbed run (so on every node and in every lane, the FUNCTION
// RESTORE / SCRIPT LOAD transactions of the global lane and the checkpoint write included):
//
//	target-error   the request is answered with an error reply
//	exec-error     the k-th command a node EXECUTES fails (an error element of an EXEC reply)
//	drop           every connection of every node is dropped before the request
//	node-down      one node (each in turn) goes down before the request and stays unreachable
//	cancel         the replay context is cancelled before the request
//	slow           the request is the LAST one answered: its connection is not served until no
//	               other request is pending and every goroutine of the tool is blocked - the task
//	               that waits for it is the last of the N+2 to report, whichever task that is
//	slow-error     the same, and the late answer is an error reply
//	slow-down      the same, and instead of an answer the node goes down
//	slow-node      from the request on, one node (each in turn) is served only when no other node has a
//	               request pending (replies of one node withheld: whatever task needs that node reports last)
//
// Oracle (C04's): recorded as complete - Send returned nil, or a node executed the checkpoint
// write with the snapshot's offset, or the output's in-memory resume position (bisyncOffset)
// equals the snapshot's offset - implies that, AT THAT INSTANT, every snapshot key is held with
// the right content by the node that owns its slot and every function library / script has been
// executed successfully by every primary. Requests still pending in a node are not applied.

import (
	"context"
	"encoding/json"
	"fmt"
	"os"
	"sort"
	"strings"
	"testing"
	"testing/synctest"
	"time"

	"github.com/mgtv-tech/redis-GunYu/config"
	"github.com/mgtv-tech/redis-GunYu/pkg/rdb"
	"github.com/mgtv-tech/redis-GunYu/pkg/util"
	"github.com/mgtv-tech/redis-GunYu/verifshim/clusterd"
	"github.com/mgtv-tech/redis-GunYu/verifshim/mc"
	"github.com/mgtv-tech/redis-GunYu/verifshim/redisd"
	"github.com/mgtv-tech/redis-GunYu/verifshim/ref"
	"github.com/mgtv-tech/redis-GunYu/verifshim/vnet"
	"github.com/mgtv-tech/redis-GunYu/verifshim/vsel"
	"github.com/mgtv-tech/redis-GunYu/verifshim/vtime"
)

const c04bFamilyName = "bisync-cluster"

var c04bAddrs = []string{"c0:7100", "c1:7101", "c2:7102"}

type c04bScenario struct {
	rdbScenario
	Family    string `json:"family"`    // always c04bFamilyName (tells a replay file of this family from the others)
	Nodes     int    `json:"nodes"`     // primaries of the target cluster (even slot layout)
	Functions int    `json:"functions"` // function libraries in the snapshot (opcode 0xF5, in front of the first database)
	Lua       int    `json:"lua"`       // AUX "lua" script fields in the snapshot (behind the last database)
	Mode      string `json:"mode"`      // clean | target-error | exec-error | drop | node-down | cancel | slow | slow-error | slow-down | slow-node
	At        int    `json:"at"`        // 0-based index (canonical order, cluster-wide) of the request the fault is attached to; exec-error: 1-based count of executed commands
	Node      int    `json:"node"`      // node-down: the node that goes down; slow-node: the node that is served last
}

func c04bFunction(i int) []byte {
	return []byte(fmt.Sprintf("#!lua name=lib%d\nredis.register_function('fn%d', function(keys, args) return %d end)", i, i, i))
}

func c04bScript(i int) []byte {
	return []byte(fmt.Sprintf("return redis.call('incrby', KEYS[1], %d)", i+1))
}

// c04bFunctionBody is the serialization a FUNCTION RESTORE payload must start with (opcode + code).
func c04bFunctionBody(file []byte, e ref.RDBGlobalEntry) []byte { return file[e.Offset:e.End] }

func c04bClusterCfg(n int) config.RedisConfig {
	addrs := c04bAddrs[:n]
	rc := config.RedisConfig{Addresses: append([]string(nil), addrs...), Type: config.RedisTypeCluster, Otype: config.RedisTypeCluster, Version: "7.2.0",
		ClusterOptions: &config.RedisClusterOptions{HandleMoveErr: true, HandleAskErr: true}}
	var shards []*config.RedisClusterShard
	lay := clusterd.EvenLayout(n)
	start := 0
	for s := 1; s <= 16384; s++ {
		if s == 16384 || lay(s) != lay(start) {
			shards = append(shards, &config.RedisClusterShard{Slots: config.RedisSlots{Ranges: []config.RedisSlotRange{{Left: start, Right: s - 1}}}, Master: config.RedisNode{Address: addrs[lay(start)]}})
			start = s
		}
	}
	rc.SetClusterShards(shards)
	return rc
}

// c04bSnapshots: keys of different types whose slots lie on different nodes (cross-checked by the
// undisturbed run), all in database 0. One file for the RESTORE path (RDB 11, function
// libraries stand in front of the keys) and one for the expansion path with a hash split into
// chunks (RDB 9, script fields stand behind the keys).
func c04bSnapshots(tier string) []c04bScenario {
	e := func(kind string) ref.RDBEnc { return ref.RDBEnc{Kind: kind} }
	a := rdbScenario{Version: 11, Aux: true, Keys: []rdbKeySpec{
		c04Key("k1", "string/short", e("raw")),
		c04Key("k2", "hash/small", e("listpack")),
		c04Key("k3", "list/small", ref.RDBEnc{Kind: "quicklist2", Node: 2}),
		c04Key("k4", "zset/small", e("listpack")),
		c04Key("k5", "set/int16", e("intset16")),
	}}
	a.Cfg = rdbCfg{Restore: true, BulkLen: c03BigBulk, DbMode: "id", Resume: true, Bisync: true}
	b := rdbScenario{Version: 9, Aux: true, ChunkAt: 64, Keys: []rdbKeySpec{
		c04Key("k1", "string/short", e("raw")),
		c04Key("big", "chunk/h/4", e("table")),
		c04Key("k3", "set/small", e("table")),
		c04Key("k6", "string/int:300", e("int")),
	}}
	b.Cfg = rdbCfg{Restore: false, BulkLen: c03BigBulk, DbMode: "id", Resume: true, Bisync: true}
	out := []c04bScenario{
		{rdbScenario: a, Nodes: 3},
		{rdbScenario: a, Nodes: 3, Functions: 1},
		{rdbScenario: b, Nodes: 3},
		{rdbScenario: b, Nodes: 3, Lua: 1},
	}
	if tier == "thorough" {
		out = append(out,
			c04bScenario{rdbScenario: a, Nodes: 3, Functions: 2, Lua: 1},
			c04bScenario{rdbScenario: b, Nodes: 2, Lua: 2},
			c04bScenario{rdbScenario: a, Nodes: 2, Functions: 1})
	}
	for i := range out {
		out[i].Family = c04bFamilyName
	}
	return out
}

type c04bBuilt struct {
	*rdbBuilt
	Globals []ref.RDBGlobalEntry
}

func c04bBuild(scn c04bScenario, now int64) (*c04bBuilt, error) {
	built, err := rdbBuild(scn.rdbScenario, now)
	if err != nil {
		return nil, err
	}
	var gl ref.RDBGlobals
	for i := 0; i < scn.Functions; i++ {
		gl.Functions = append(gl.Functions, c04bFunction(i))
	}
	for i := 0; i < scn.Lua; i++ {
		gl.LuaScripts = append(gl.LuaScripts, c04bScript(i))
	}
	opt := ref.RDBFileOpt{Version: scn.Version, Aux: scn.Aux, ZeroCRC: scn.ZeroCRC, KeyStr: ref.StrOpt{LZF: scn.KeyLZF}}
	file, _, entries, err := ref.AddRDBGlobals(built.File, opt, gl)
	if err != nil {
		return nil, err
	}
	built.File = file
	built.TypeAt = nil // offsets of the key-only file; not used by this family
	return &c04bBuilt{rdbBuilt: built, Globals: entries}, nil
}

type c04bStep struct {
	Node int
	Head string
}

type c04bOutcome struct {
	Cl        *clusterd.Cluster
	Output    *RedisOutput
	Ended     bool
	Err       error
	Stalls    int
	Requests  int
	Steps     []c04bStep // the requests in the order the nodes processed them
	Withheld  bool       // slow*: the request was held back and released when nothing else was pending
	Released  bool
	Pending   int // connections with requests still pending in some node at the instant Send returned
	LeakCheck string
	Runaway   bool
}

type c04bConn struct {
	node, conn int
	head       string
}

func c04bHead(argv [][]byte) string {
	var sb strings.Builder
	for _, a := range argv {
		fmt.Fprintf(&sb, "%d:%s ", len(a), a)
	}
	return sb.String()
}

// c04bParked lists the connections of all nodes that hold unprocessed requests, ordered by their
// head request, then by node (connection ids depend on which task dialled first, the head
// request does not; equal heads on one node are interchangeable).
func c04bParked(cl *clusterd.Cluster) []c04bConn {
	var out []c04bConn
	for i, n := range cl.Nodes {
		for _, c := range n.ParkedConns() {
			out = append(out, c04bConn{node: i, conn: c, head: c04bHead(n.PeekParked(c))})
		}
	}
	sort.SliceStable(out, func(i, j int) bool {
		if out[i].head != out[j].head {
			return out[i].head < out[j].head
		}
		return out[i].node < out[j].node
	})
	return out
}

const c04bErrText = "ERR injected target error"

// c04bRun runs one Send to completion inside the current bubble.
func c04bRun(scn c04bScenario, built *c04bBuilt) *c04bOutcome {
	vnet.Reset()
	vtime.Reset()
	vsel.SetPicker(nil)
	n := scn.Nodes
	cl := clusterd.New(c04bAddrs[:n], clusterd.EvenLayout(n))
	for _, nd := range cl.Nodes {
		for _, e := range built.Expect {
			nd.RegisterRestorable(e.Body, e.Value)
		}
		nd.PlanRef().Park = true
	}
	max := scn.ChunkAt
	if max <= 0 {
		max = rdbDefaultMax
	}
	old := rdb.VerifSetMaxBinEntryBuffer(max)
	defer rdb.VerifSetMaxBinEntryBuffer(old)
	if scn.Cfg.PipeSize > 0 {
		oldPipe := config.RdbPipeSize
		config.RdbPipeSize = scn.Cfg.PipeSize
		defer func() { config.RdbPipeSize = oldPipe }()
	}
	{
		gc := config.GetSyncerConfig()
		oldCh := gc.Channel
		ch := &config.ChannelConfig{}
		if oldCh != nil {
			ch = oldCh.Clone()
		}
		ch.VerifyCrc = scn.Cfg.VerifyCrc
		gc.Channel = ch
		defer func() { gc.Channel = oldCh }()
	}
	if scn.Mode == "exec-error" {
		// the k-th command executed anywhere in the cluster answers an error when it runs
		count := 0
		for _, nd := range cl.Nodes {
			inner := nd.Extra
			nd.Extra = func(s *redisd.Server, cs *redisd.ConnState, argv [][]byte) []byte {
				count++
				if count == scn.At {
					return []byte("-ERR injected error at execution time\r\n")
				}
				if inner != nil {
					return inner(s, cs, argv)
				}
				return nil
			}
		}
	}

	out := &c04bOutcome{Cl: cl}
	oc := scn.outputConfig()
	oc.Redis = c04bClusterCfg(n)
	ro := NewRedisOutput(oc)
	out.Output = ro
	g := newGate()
	g.Release(built.File)
	g.Close(nil)
	ctx, cancel := context.WithCancel(context.Background())
	defer cancel()
	done := make(chan error, 1)
	rd := newHReader(g, rdbRunID, rdbSnapOffset, int64(len(built.File)), false)
	go func() { done <- ro.Send(ctx, rd) }()

	idx := 0
	const maxReq = 20000
	var held *c04bConn
	release := func() {
		// the withheld request is the only thing left: answer it now (or fail / go down instead)
		nd := cl.Nodes[held.node]
		switch scn.Mode {
		case "slow-error":
			nd.PlanRef().FailAt = map[int]string{nd.NumReqs() + 1: c04bErrText}
		case "slow-down":
			nd.Crash()
		}
		out.Steps = append(out.Steps, c04bStep{Node: held.node, Head: "(late) " + held.head})
		nd.Step(held.conn, 1)
		held = nil
		out.Released = true
	}
	for {
		synctest.Wait()
		select {
		case err := <-done:
			out.Ended, out.Err = true, err
		default:
		}
		if out.Ended {
			break
		}
		if idx > maxReq && !out.Runaway {
			out.Runaway = true
			cancel()
			for _, nd := range cl.Nodes {
				nd.KillConns()
			}
			continue
		}
		var conns []c04bConn
		for _, c := range c04bParked(cl) {
			if held != nil && c.node == held.node && c.conn == held.conn {
				continue
			}
			conns = append(conns, c)
		}
		if scn.Mode == "slow-node" && idx >= scn.At {
			// the slow node is served only when no other node has anything pending
			var others []c04bConn
			for _, c := range conns {
				if c.node != scn.Node {
					others = append(others, c)
				}
			}
			if len(others) > 0 {
				conns = others
			}
		}
		if len(conns) == 0 {
			if held != nil {
				release()
				continue
			}
			// nothing pending and Send has not returned: only a timer can wake the tool up
			out.Stalls++
			if out.Stalls > 90 {
				break
			}
			time.Sleep(time.Second)
			continue
		}
		// one connection per quiescent point: everything it has pending, one request at a time
		c := conns[0]
		nd := cl.Nodes[c.node]
		for {
			argv := nd.PeekParked(c.conn)
			if argv == nil {
				break
			}
			at := idx == scn.At
			if at && !out.Withheld && (scn.Mode == "slow" || scn.Mode == "slow-error" || scn.Mode == "slow-down") {
				out.Withheld = true
				hc := c
				hc.head = c04bHead(argv)
				held = &hc
				idx++
				break
			}
			if at {
				switch scn.Mode {
				case "target-error":
					nd.PlanRef().FailAt = map[int]string{nd.NumReqs() + 1: c04bErrText}
				case "drop":
					for _, x := range cl.Nodes {
						x.KillConns()
					}
				case "node-down":
					cl.Nodes[scn.Node].Crash()
				case "cancel":
					cancel()
				}
			}
			out.Steps = append(out.Steps, c04bStep{Node: c.node, Head: c04bHead(argv)})
			nd.Step(c.conn, 1)
			idx++
			if scn.Mode == "slow-node" && idx == scn.At {
				break
			}
		}
	}
	out.Requests = idx
	for _, nd := range cl.Nodes {
		out.Pending += len(nd.ParkedConns())
	}
	if !out.Ended {
		// unblock whatever is left so that the bubble can end
		cancel()
		for _, nd := range cl.Nodes {
			nd.DropParked()
			nd.KillConns()
		}
		time.Sleep(2 * time.Minute)
		synctest.Wait()
		select {
		case err := <-done:
			out.Err = err
		default:
			out.LeakCheck = "Send did not return even after cancellation"
		}
	}
	return out
}

// c04bTeardown ends whatever the tool left running (a task that sendRdb did not wait for, zombie
// connections): pending requests are lost with their connections.
func c04bTeardown(out *c04bOutcome) {
	for _, nd := range out.Cl.Nodes {
		nd.PlanRef().Park = false
		nd.DropParked()
		nd.KillConns()
	}
	synctest.Wait()
}

func c04bReqFailed(r *redisd.Req) bool { return r.Failed || strings.HasPrefix(r.Reply, "-") }

// c04bMissing names the first snapshot entry that the cluster does not hold (keys) / has not
// executed successfully on every primary (function libraries, scripts); "" = complete.
func c04bMissing(scn c04bScenario, built *c04bBuilt, cl *clusterd.Cluster) (string, string) {
	for _, e := range built.Expect {
		if e.Filtered || e.Past {
			continue
		}
		owner := cl.Nodes[cl.Owner(ref.HashSlotS(e.TargetKey))]
		got := owner.Get(e.TargetDB, e.TargetKey)
		if got == nil {
			return "key:" + rdbContainer(e), fmt.Sprintf("snapshot key %q is not held by the owner of its slot (%s)", e.Spec.Key, owner.Name)
		}
		want := e.Value.Clone()
		rdbNormalise(want, got, false)
		if strings.Join(rdbCanon(want), "\n") != strings.Join(rdbCanon(got), "\n") {
			return "content:" + rdbContainer(e), fmt.Sprintf("snapshot key %q on %s differs from the snapshot (%s)", e.Spec.Key, owner.Name, rdbDiffClass(e, got))
		}
	}
	for _, gl := range built.Globals {
		for i, nd := range cl.Nodes {
			ok := false
			for _, r := range nd.Log() {
				if !r.Executed || c04bReqFailed(r) || len(r.Argv) < 3 {
					continue
				}
				switch gl.Kind {
				case "function":
					body := c04bFunctionBody(built.File, gl)
					if r.Name() == "function" && strings.EqualFold(string(r.Argv[1]), "restore") && len(r.Argv[2]) == len(body)+10 && string(r.Argv[2][:len(body)]) == string(body) {
						ok = true
					}
				case "lua":
					if r.Name() == "script" && strings.EqualFold(string(r.Argv[1]), "load") && string(r.Argv[2]) == string(gl.Text) {
						ok = true
					}
				}
			}
			if !ok {
				return gl.Kind, fmt.Sprintf("%s entry %q was not executed successfully by primary n%d", gl.Kind, rdbTailStr(string(gl.Text), 40), i)
			}
		}
	}
	return "", ""
}

func c04bLog(cl *clusterd.Cluster) []string {
	var lines []string
	for _, r := range cl.GlobalLog() {
		if r.Name() == "cluster" || r.Name() == "ping" {
			continue
		}
		lines = append(lines, fmt.Sprintf("n%d %s -> %s", r.Node, r.String(), r.Reply))
	}
	return lines
}

func c04bOracle(scn c04bScenario, built *c04bBuilt, out *c04bOutcome) mc.Result {
	cl := out.Cl
	for _, nd := range cl.Nodes {
		if len(nd.MachineryErrors) > 0 {
			return mc.Result{Verdict: "machinery", Clause: "double: " + strings.Join(nd.MachineryErrors, "; ")}
		}
	}
	cp := false
	for _, nd := range cl.Nodes {
		if rdbCpWritten(nd.ExecLog()) {
			cp = true
		}
	}
	inMem := out.Output.bisyncOffset.Load() == rdbSnapOffset
	lines := c04bLog(cl)
	prefix := "C04:" + scn.Mode + ":" + c04bFamilyName
	sigMiss, missing := c04bMissing(scn, built, cl)
	detail := func(extra map[string]interface{}) map[string]interface{} {
		var steps []string
		for i, s := range out.Steps {
			steps = append(steps, fmt.Sprintf("%d n%d %s", i, s.Node, rdbTailStr(s.Head, 90)))
		}
		m := map[string]interface{}{"cluster_log": rdbTail(lines, 60), "send_error": fmt.Sprint(out.Err), "send_returned": out.Ended,
			"checkpoint_with_snapshot_offset": cp, "in_memory_resume_position_is_snapshot_offset": inMem, "requests_still_pending_in_a_node": out.Pending,
			"request_order": rdbTail(steps, 40), "rdb_hex": fmt.Sprintf("%x", rdbClip(built.File)), "workers": scn.Cfg.Parallel, "fault_request_withheld": out.Withheld, "fault_request_released": out.Released}
		for k, v := range extra {
			m[k] = v
		}
		return m
	}
	if out.Runaway {
		return mc.Violation("the replay sent more than 20000 requests for a tiny snapshot and was stopped by the harness", prefix+":runaway-commands", detail(nil))
	}
	if !out.Ended {
		return mc.Violation("the replay neither finished nor failed within 90 virtual seconds without any pending request", prefix+":hang", detail(map[string]interface{}{"leak": out.LeakCheck}))
	}
	recorded := out.Err == nil || cp || inMem
	how := "send-nil"
	switch {
	case cp:
		how = "checkpoint"
	case out.Err != nil && inMem:
		how = "bisync-offset"
	}
	if recorded && missing != "" {
		return mc.Violation("the replay is recorded as complete ("+how+") although a snapshot entry has not been applied by the cluster: "+missing,
			prefix+":recorded-complete:"+how, detail(map[string]interface{}{"missing": missing, "missing_kind": sigMiss}))
	}
	if scn.Mode == "clean" {
		// no fault: the replay must succeed and record the offset (otherwise the family would be vacuous)
		if out.Err != nil {
			return mc.Violation("Send returned an error on a valid snapshot without any fault", prefix+":send-error", detail(nil))
		}
		if !cp {
			return mc.Violation("a complete replay did not record the snapshot offset", prefix+":no-checkpoint", detail(nil))
		}
	}
	// observation: what each node executed (without connection numbering) + outcome
	var obs []string
	for i, nd := range cl.Nodes {
		for _, r := range nd.ExecLog() {
			if r.Name() == "cluster" || r.Name() == "ping" {
				continue
			}
			var sb strings.Builder
			fmt.Fprintf(&sb, "n%d", i)
			for _, a := range r.Argv {
				if len(a) > 64 {
					fmt.Fprintf(&sb, " %q..%d/%x", a[:32], len(a), mc.Hash(string(a)))
				} else {
					fmt.Fprintf(&sb, " %q", a)
				}
			}
			obs = append(obs, sb.String())
		}
	}
	sort.Strings(obs)
	obs = append(obs, fmt.Sprint(out.Err != nil), fmt.Sprint(cp), fmt.Sprint(missing == ""))
	return mc.OK(mc.Hash(obs...), out.Requests > 0, len(out.Steps))
}

func c04bExec(t *testing.T, scn c04bScenario) (res mc.Result, out *c04bOutcome) {
	msg := bubble(t, func() {
		time.Sleep(1234567 * time.Microsecond)
		if time.Now().UnixMilli() != c04Now {
			res = mc.Result{Verdict: "machinery", Clause: fmt.Sprintf("bubble clock is %d, expected %d", time.Now().UnixMilli(), c04Now)}
			return
		}
		built, err := c04bBuild(scn, c04Now)
		if err != nil {
			res = mc.Result{Verdict: "machinery", Clause: "generator: " + err.Error()}
			return
		}
		out = c04bRun(scn, built)
		res = c04bOracle(scn, built, out)
		c04bTeardown(out)
	})
	if msg != "" {
		if strings.Contains(msg, "blocked goroutines remain") && res.Verdict != "" {
			c04Leaks++
			if os.Getenv("VERIF_C04B_DEBUG") != "" {
				fmt.Fprintf(os.Stderr, "LEAK mode=%s at=%d node=%d\n%s\n", scn.Mode, scn.At, scn.Node, rdbTailStr(msg, 3000))
			}
			return res, out
		}
		return mc.Result{Verdict: "machinery", Clause: "bubble: " + msg}, out
	}
	return res, out
}

// c04bIsReplay tells whether a replay file belongs to this family.
func c04bIsReplay(raw json.RawMessage) (c04bScenario, bool) {
	var scn c04bScenario
	if err := json.Unmarshal(raw, &scn); err != nil || scn.Family != c04bFamilyName {
		return scn, false
	}
	return scn, true
}

// c04bCoverage checks what the undisturbed run of a configuration must show for the family to
// mean anything: data transactions on at least two nodes, with two workers on at least two
// connections of the tool, and the global lane's transactions on every primary.
func c04bCoverage(scn c04bScenario, out *c04bOutcome) string {
	nodes := 0
	for i, nd := range out.Cl.Nodes {
		data, global := 0, 0
		for _, r := range nd.ExecLog() {
			if r.Txn == 0 || r.Queued == false {
				continue
			}
			switch r.Name() {
			case "function", "script":
				global++
			case "set":
				if len(r.Argv) > 1 && isBisyncKeyC04b(r.Argv[1]) {
					continue
				}
				data++
			default:
				data++
			}
		}
		if data > 0 {
			nodes++
		}
		if want := scn.Functions + scn.Lua; global != want {
			return fmt.Sprintf("node n%d executed %d function/script commands, the snapshot carries %d", i, global, want)
		}
	}
	if nodes < 2 {
		return fmt.Sprintf("the snapshot's keys reached %d node(s), at least 2 are wanted", nodes)
	}
	// one cluster client per replay worker, one for the global lane, one for the checkpoint write
	clients := 0
	for _, st := range out.Steps {
		if strings.HasPrefix(st.Head, "7:CLUSTER 5:SLOTS") {
			clients++
		}
	}
	if clients != scn.Cfg.Parallel+2 {
		return fmt.Sprintf("%d cluster clients were opened, %d workers + global lane + checkpoint writer were expected", clients, scn.Cfg.Parallel)
	}
	// the distributor spreads keys over the workers by a hash of the key: every worker must get one
	// (the tool's own hash is used for this cross-check of the scenario only, never by the oracle)
	seen := map[uint32]bool{}
	for _, k := range scn.Keys {
		seen[util.FnvHash([]byte(k.Key))%uint32(scn.Cfg.Parallel)] = true
	}
	if len(seen) != scn.Cfg.Parallel {
		return fmt.Sprintf("the snapshot's keys reach %d of %d workers", len(seen), scn.Cfg.Parallel)
	}
	return ""
}

func isBisyncKeyC04b(k []byte) bool {
	return strings.HasPrefix(string(k), "redis-gunyu-bisync:") || strings.HasPrefix(string(k), "redis-gunyu-checkpoint") || strings.HasPrefix(string(k), "/redis-gunyu") || strings.Contains(string(k), "redis-gunyu")
}

// c04bEnumerate runs the family. mine() is the shard filter of runC04 (one shared counter).
func c04bEnumerate(t *testing.T, rep *mc.Reporter, budget *mc.Budget, tier string, mine func() bool) {
	for _, base := range c04bSnapshots(tier) {
		for _, par := range []int{1, 2} {
			// RdbPipeSize 1: the distributor waits for the workers (it is then among the last tasks to report)
			pipes := []int{1024}
			if tier == "thorough" || (par == 2 && base.Functions+base.Lua > 0) {
				pipes = []int{1, 1024}
			}
			for _, ps := range pipes {
				if budget.Expired() {
					return
				}
				scn0 := base
				scn0.Mode, scn0.At = "clean", -1
				scn0.Cfg.Parallel, scn0.Cfg.PipeSize = par, ps
				// the undisturbed run: number of requests / executed commands (cheap, every shard does it)
				cleanRes, cleanOut := c04bExec(t, scn0)
				if cleanRes.Verdict == "ok" {
					if why := c04bCoverage(scn0, cleanOut); why != "" {
						cleanRes = mc.Result{Verdict: "machinery", Clause: "undisturbed run: " + why}
					}
				}
				if os.Getenv("VERIF_C04B_DEBUG") != "" && cleanOut != nil {
					fmt.Fprintf(os.Stderr, "=== functions=%d lua=%d parallel=%d pipe=%d requests=%d err=%v\n", scn0.Functions, scn0.Lua, par, ps, cleanOut.Requests, cleanOut.Err)
					for i, st := range cleanOut.Steps {
						fmt.Fprintf(os.Stderr, "%3d n%d %s\n", i, st.Node, rdbTailStr(st.Head, 100))
					}
				}
				if mine() || cleanRes.Verdict != "ok" {
					rep.Scenario()
					rep.Exec(scn0, nil, cleanRes)
				}
				if cleanRes.Verdict != "ok" {
					continue
				}
				requests := cleanOut.Requests
				executed := 0
				for _, nd := range cleanOut.Cl.Nodes {
					for _, r := range nd.ExecLog() {
						if n := r.Name(); n != "multi" && n != "exec" {
							executed++
						}
					}
				}
				// N+2 tasks of the tool run side by side: when a fault makes several of them fail between two
				// harness events the order in which they report is decided by the Go scheduler. The oracle must
				// hold for every such order, so a violation is reported from ONE observation; it is run twice
				// more only to tell the reader how often it shows.
				run := func(scn c04bScenario) {
					rep.Count("bisync_cluster_executions", 1)
					rep.Scenario()
					r, _ := c04bExec(t, scn)
					if r.Verdict == "violation" {
						again := 0
						for i := 0; i < 2; i++ {
							if r2, _ := c04bExec(t, scn); r2.Verdict == "violation" && r2.Sig == r.Sig {
								again++
							}
						}
						if m, ok := r.Detail.(map[string]interface{}); ok {
							m["reproduced_in_two_more_runs"] = again
						}
					}
					rep.Exec(scn, nil, r)
				}
				for _, mode := range []string{"target-error", "drop", "cancel", "slow", "slow-error", "slow-down"} {
					for k := 0; k < requests; k++ {
						if !mine() {
							continue
						}
						scn := scn0
						scn.Mode, scn.At = mode, k
						run(scn)
					}
				}
				for k := 1; k <= executed; k++ {
					if !mine() {
						continue
					}
					scn := scn0
					scn.Mode, scn.At = "exec-error", k
					run(scn)
				}
				for _, mode := range []string{"node-down", "slow-node"} {
					for node := 0; node < scn0.Nodes; node++ {
						for k := 0; k < requests; k++ {
							if !mine() {
								continue
							}
							scn := scn0
							scn.Mode, scn.At, scn.Node = mode, k, node
							run(scn)
						}
					}
				}
			}
		}
	}
}

package syncer

import (
	"context"
	"encoding/binary"
	"fmt"
	"regexp"
	"strings"
	"testing"
	"time"

	"github.com/mgtv-tech/redis-GunYu/config"
	"github.com/mgtv-tech/redis-GunYu/pkg/log"
	"github.com/mgtv-tech/redis-GunYu/pkg/redis/checkpoint"
	"github.com/mgtv-tech/redis-GunYu/pkg/redis/client"
	"github.com/mgtv-tech/redis-GunYu/verifshim/mc"
	"github.com/mgtv-tech/redis-GunYu/verifshim/redisd"
	"github.com/mgtv-tech/redis-GunYu/verifshim/vnet"
	"github.com/mgtv-tech/redis-GunYu/verifshim/vtime"
)

// ---------------------------------------------------------------------------
// H-bisync: one bidirectional link = the real RedisOutput{BisyncEnabled} fed from a
// source stream and writing to a target double. The start sequence replays what
// syncer.newOutput does with the real functions: resolveBisyncCheckpointNameWithClient,
// UpdateCheckpoint, NewRedisOutput, StartPoint, (full sync of an empty snapshot through
// the real SendRdb when no position exists), SetRunId, Send.

const (
	biRunID2      = "0000000000000000000000000000000000000000"
	durFrontier   = 100 * time.Millisecond // bisyncFrontierFlushInterval
	biFixedCpName = "redis-gunyu-checkpoint-bisync:verif000000000000000000"
)

type biCfg struct {
	Mode  string `json:"mode"`  // sync | pipeline | parallel
	Count uint   `json:"count"` // BatchCmdCount (pipeline window / lane buffer)
}

func (c biCfg) replayMode() config.ReplayMode {
	switch c.Mode {
	case "pipeline":
		return config.ReplayModePipeline
	case "parallel":
		return config.ReplayModeParallel
	}
	return config.ReplayModeSync
}

func biOutputConfig(c biCfg, rc config.RedisConfig, inputName, runID, cpName string) RedisOutputConfig {
	return RedisOutputConfig{
		InputName:                  inputName,
		CheckpointName:             cpName,
		RunId:                      runID,
		BisyncEnabled:              true,
		CanTransaction:             true,
		Redis:                      rc,
		EnableResumeFromBreakPoint: true,
		KeyExists:                  "replace",
		TargetDb:                   -1,
		BatchCmdCount:              c.Count,
		BatchTicker:                durBatch,
		BatchBufferSize:            1 << 20,
		KeepaliveTicker:            durKeep,
		ReplayRdbParallel:          1,
		ReplayRdbEnableRestore:     true,
		ReplayMode:                 c.replayMode(),
		ReplayPipeline:             c.replayMode() == config.ReplayModePipeline,
		UpdateCheckpointTicker:     durCp,
		Stats:                      config.OutputStats{DisableLog: true},
	}
}

func standaloneCfg(addr string) config.RedisConfig {
	return config.RedisConfig{Addresses: []string{addr}, Type: config.RedisTypeStandalone, Otype: config.RedisTypeStandalone, Version: "7.2.0"}
}

// emptyRDB is a valid snapshot without keys: magic, version 9, EOF, CRC64 footer.
func emptyRDB() []byte {
	b := []byte("REDIS0009\xff")
	var f [8]byte
	binary.LittleEndian.PutUint64(f[:], redisd.CRC64Jones(0, b))
	return append(b, f[:]...)
}

// biForceFull makes the next start sequence run a full sync although a position exists: the
// source answered the partial-resync request with a new snapshot under the same run id.
var biForceFull bool

// biBootRDB, when non-nil, is the snapshot the NEXT start sequence replays instead of the
// empty one; biBootCfgHook, when non-nil, may adjust the output configuration of the NEXT
// start sequence (KeyExists policy, MaxProtoBulkLen ...). Both are consumed (reset) at the
// entry of that call, so nothing leaks into later executions or other checks.
var (
	biBootRDB     []byte
	biBootCfgHook func(*RedisOutputConfig)
	biBootCfgHookAll func(*RedisOutputConfig)
)

// biBoot runs the start sequence against the target. It returns the output and the
// offset the incremental replay has to start from.
type biBootResult struct {
	ro       *RedisOutput
	cpName   string
	sp       StartPoint
	fullSync bool
	offset   int64
	err      error
}

func biBoot(c biCfg, rc config.RedisConfig, inputName, runID string, s0 int64, presetName bool, srv *redisd.Server) (res biBootResult) {
	return biBootWith(c, rc, inputName, runID, s0, presetName, func(string) *redisd.Server { return srv })
}

// biBootWith is biBoot for any topology: nodeOf returns the double that stores a key.
func biBootWith(c biCfg, rc config.RedisConfig, inputName, runID string, s0 int64, presetName bool, nodeOf func(key string) *redisd.Server) (res biBootResult) {
	bootRDB, cfgHook := biBootRDB, biBootCfgHook
	biBootRDB, biBootCfgHook = nil, nil
	if cfgHook == nil {
		cfgHook = biBootCfgHookAll // stays installed for every start sequence of an execution
	}
	srv := nodeOf(config.CheckpointKeyHashKey)
	ids := []string{runID, biRunID2}
	sy := &syncer{cfg: SyncerConfig{Output: rc}, logger: log.WithLogger("[verif] ")}
	cli, err := client.NewRedis(rc)
	if err != nil {
		res.err = err
		return
	}
	if presetName && srv != nil {
		// a namespace name already registered for this run id is a legal initial state and
		// keeps key names deterministic (NewBisyncCheckpointName uses crypto/rand)
		if v := srv.Get(0, config.CheckpointKeyHashKey); v == nil {
			srv.Put(0, config.CheckpointKeyHashKey, &redisd.Value{T: 'h', Hash: map[string][]byte{runID: []byte(biFixedCpName + inputName)}, HOrder: []string{runID}})
			if rc.IsCluster() {
				// a namespace whose mode marker is already stored (as after any earlier start):
				// skips the legacy-mode inference, which scans 16384 slots
				name := biFixedCpName + inputName
				nodeOf(name).Put(0, name, &redisd.Value{T: 'h', Hash: map[string][]byte{"bisync_mode": []byte(c.Mode), "bisync_mode_mtime": []byte("1")}, HOrder: []string{"bisync_mode", "bisync_mode_mtime"}})
			}
		}
	}
	cpName, err := sy.resolveBisyncCheckpointNameWithClient(cli, ids, checkpoint.BisyncModeFromReplayMode(c.replayMode()), bisyncRecoverySlotsForConfig(rc))
	if err == nil {
		err = checkpoint.UpdateCheckpoint(cli, cpName, ids)
	}
	cli.Close()
	if err != nil {
		res.err = err
		return
	}
	res.cpName = cpName
	ocfg := biOutputConfig(c, rc, inputName, runID, cpName)
	if rc.IsCluster() {
		ocfg.Parallelism = 2
	}
	if cfgHook != nil {
		cfgHook(&ocfg)
	}
	ro := NewRedisOutput(ocfg)
	res.ro = ro
	sp, err := ro.StartPoint(context.Background(), ids)
	if err != nil {
		res.err = err
		return
	}
	res.sp = sp
	res.offset = sp.Offset
	if sp.IsInitial() || sp.Offset < 0 || biForceFull {
		// no position: full sync of an (empty) snapshot ending at s0 through the real SendRdb
		res.fullSync = true
		g := newGate()
		rdb := emptyRDB()
		if bootRDB != nil {
			rdb = bootRDB
		}
		g.Release(rdb)
		g.Close(nil)
		rd := newHReader(g, runID, s0, int64(len(rdb)), false)
		if err = ro.Send(context.Background(), rd); err != nil {
			res.err = fmt.Errorf("full sync of snapshot (%d bytes): %w", len(rdb), err)
			return
		}
		res.offset = s0
	}
	res.err = ro.SetRunId(context.Background(), runID)
	return
}

// biEnvReset prepares the per-execution globals.
func biEnvReset() {
	vnet.Reset()
	vtime.Reset()
	vtime.Register(durFrontier, "frontier")
}

// biRun is one running Send of a bisync link.
type biRun struct {
	ro     *RedisOutput
	g      *gate
	cancel context.CancelFunc
	done   chan error
	ended  bool
	err    error
}

func biStart(ro *RedisOutput, runID string, offset int64) *biRun {
	g := newGate()
	ctx, cancel := context.WithCancel(context.Background())
	r := &biRun{ro: ro, g: g, cancel: cancel, done: make(chan error, 1)}
	rd := newHReader(g, runID, offset, -1, true)
	go func() { r.done <- ro.Send(ctx, rd) }()
	aofWait()
	r.poll()
	return r
}

func (r *biRun) poll() {
	if r.ended {
		return
	}
	select {
	case err := <-r.done:
		r.ended, r.err = true, err
	default:
	}
}

func (r *biRun) feed(b []byte) {
	r.g.Release(b)
	aofWait()
	r.poll()
}

func (r *biRun) wait() {
	aofWait()
	r.poll()
}

// finish closes the source stream (EOF): the link drains what it has, flushes its
// frontier and returns; then everything is torn down.
func (r *biRun) finish() {
	r.g.Close(nil)
	aofWait()
	r.poll()
	if !r.ended {
		time.Sleep(5 * time.Second)
		aofWait()
		r.poll()
	}
	r.cancel()
	aofWait()
	r.poll()
}

// kill is the abrupt end (after a crash of the target connection set).
func (r *biRun) kill() {
	r.cancel()
	r.g.Close(nil)
	aofWait()
	r.poll()
	if !r.ended {
		time.Sleep(30 * time.Second)
		aofWait()
		r.poll()
	}
}

var cpNameRe = regexp.MustCompile(`redis-gunyu-checkpoint-bisync:[0-9a-f]{24}`)
var mtimeRe = regexp.MustCompile(`"(mtime|bisync_mode_mtime|[0-9a-f]{40}_mtime)" "[0-9]+"`)

// maskVolatile removes random namespace names and timestamps from a log line.
func maskVolatile(s string) string {
	s = cpNameRe.ReplaceAllString(s, "redis-gunyu-checkpoint-bisync:NAME")
	s = mtimeRe.ReplaceAllString(s, `"$1" "T"`)
	return s
}

func maskedLog(l []*redisd.Req) []string {
	out := reqStrings(l)
	for i := range out {
		out[i] = maskVolatile(out[i])
	}
	return out
}

// isBisyncKey reports keys of the reserved bookkeeping namespace.
func isBisyncKey(k []byte) bool {
	return strings.HasPrefix(string(k), "redis-gunyu-bisync:") || strings.HasPrefix(string(k), "redis-gunyu-checkpoint") || strings.HasPrefix(string(k), "/redis-gunyu")
}

var _ = mc.Hash
var _ testing.T

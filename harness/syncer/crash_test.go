package syncer

import (
	"context"
	"slices"
	"fmt"
	"strconv"
	"strings"
	"testing"
	"time"

	"github.com/mgtv-tech/redis-GunYu/config"
	"github.com/mgtv-tech/redis-GunYu/pkg/redis/checkpoint"
	"github.com/mgtv-tech/redis-GunYu/pkg/redis/client"
	"github.com/mgtv-tech/redis-GunYu/verifshim/mc"
	"github.com/mgtv-tech/redis-GunYu/verifshim/redisd"
)

// ---------------------------------------------------------------------------
// H-aof + restart. A crash is the tool dying: the target has processed exactly a
// prefix of the requests the tool sent (a MULTI without EXEC is discarded), all
// connections fail, the tool instance is torn down, and the start sequence of
// syncer.newOutput/syncMeta is replayed with the real functions.
//
// Crash points are explorer choices placed inside the burst of requests that one
// harness event causes: the parent execution (no crash in this burst) measures the
// burst size b and registers a free choice point with b+1 alternatives; a child
// replays up to that event with "crash after the j-th request of the burst".

const cpKeyName = "redis-gunyu-checkpoint"

type crashScenario struct {
	Syms       []string `json:"syms"`
	Cfg        aofCfg   `json:"cfg"`
	Max        int      `json:"max_ticks"`
	MaxCrashes int      `json:"max_crashes"`
	IdleBias   bool     `json:"idle_bias,omitempty"`
	Base       string   `json:"base,omitempty"` // stream start offset: "" = 1000, "0", "big" = 2^32+7
	Stops      bool     `json:"stops,omitempty"` // a fault may also be an orderly stop (context cancelled, source closed) between two stream events
	Kill       bool     `json:"kill,omitempty"`  // the faults are connection losses (the target stays up, the tool keeps running) instead of crashes
	Bulk       bool     `json:"bulk,omitempty"`  // all items of one symbol arrive in one read
	BigTxn     int      `json:"big_txn,omitempty"` // commands in the transaction of symbol tL (0 = 1100)
	Soft       bool     `json:"soft,omitempty"`    // after an orderly stop the SAME RedisOutput is used again (in-process reconnection: StartPoint, SetRunId, Send), no crashes
	Rekey      bool     `json:"rekey,omitempty"`   // from the first restart on the source reports a new replication id (fail-over, same history): the stored position is re-keyed
	NoCrash    bool     `json:"no_crash,omitempty"` // the fault budget is spent on orderly stops only
	Gc         int      `json:"gc,omitempty"`      // up to this many passes of the stale-checkpoint collector (what cmd gcStaleCheckpoint does on the target) between stream events while the sender lives, now or after an idle period longer than the stale duration
}

type runRec struct {
	FirstSeq   int    // first request seq of this run (boot included)
	Offset     int64  // offset Send started from
	StartPoint int64  // what StartPoint returned
	StartDb    int    // database StartPoint designated
	FullSync   bool   // start point was "none": emulated full sync from S0
	BootErr    string // boot failed (e.g. crashed during boot)
	SendErr    string
	Crashed    bool
	Stopped    bool   // ended by an orderly stop
	Retry      bool   // not a restart: the same run going on after a connection loss (the sender retried)
	Completed  bool // stream fed to the end and flushed
	StartRunId string `json:",omitempty"` // run id of the position StartPoint returned ("?" = a position without an id)
}

type cpWrite struct {
	ExecSeq int
	Seq     int
	Value   int64
	DB      int
	Txn     int
	Run     int
}

type crashRec struct {
	Items  []sItem
	Runs   []runRec
	Exec   []*redisd.Req
	Cp     []cpWrite
	Events int
	Early  *mc.Result // a violation detected while driving (e.g. resume offset not a boundary)
	Marks  []string   // event -> request seq reached (debugging aid, part of replay output)
	Merged int        // crash points represented by their predecessor (no effect on the target's data)
	Gcs    int        // collector passes that ran
}

type crashCtl struct {
	env     *aofEnv
	ch      *mc.Chooser
	left    int // crashes still allowed
	marks   *[]string
	nEvents int
	kill    bool // faults are connection losses
	noCrash bool // no crash points at all (the fault budget is spent on orderly stops)
	merged  int  // crash points not explored because the target holds the same data as at the point before
}

// event runs do() as one crashable step. It returns true when the crash point
// chosen for this step was reached.
func (x *crashCtl) event(tag string, do func()) bool {
	srv := x.env.srv
	if x.marks != nil {
		defer func() { *x.marks = append(*x.marks, fmt.Sprintf("%s->%d", tag, srv.NumReqs())) }()
	}
	seq0 := srv.NumReqs()
	if x.left <= 0 || x.noCrash {
		do()
		return false
	}
	j, n := x.ch.Peek(tag)
	if j > 0 && x.kill {
		k0 := srv.Killed
		srv.PlanRef().KillAt = seq0 + j - 1
		do()
		x.ch.ChooseCost(tag, make([]int, n))
		if srv.Killed == k0 {
			panic(fmt.Sprintf("connection-loss point %s=%d/%d not reached (burst shorter than recorded)", tag, j, n))
		}
		x.left--
		return true
	}
	if j > 0 {
		srv.PlanRef().CrashAfter = seq0 + j - 1 // j=1: before the first request of the burst
		do()
		costs := make([]int, n)
		x.ch.ChooseCost(tag, costs)
		if !srv.Crashed() {
			// the burst was shorter than recorded: harness nondeterminism
			panic(fmt.Sprintf("crash point %s=%d/%d not reached (burst shorter than recorded)", tag, j, n))
		}
		x.left--
		return true
	}
	do()
	b := srv.NumReqs() - seq0
	costs := make([]int, b+1)
	if x.kill && seq0 == 0 && b > 0 {
		costs[1] = 1 << 20 // KillAt 0 means never
	}
	if !x.kill {
		// a crash right after a MULTI or a queued command leaves the target with the same data as a
		// crash right before it (the open transaction is discarded and the tool is gone): such points
		// are represented by the point in front of them
		ne := srv.NoEffect(seq0)
		for j := 2; j <= b && j-2 < len(ne); j++ {
			if ne[j-2] {
				costs[j] = 1 << 20
				x.merged++
			}
		}
	}
	x.ch.ChooseCost(tag, costs)
	return false
}

func cpOffsetField() string { return aofRunID + "_offset" }

// rekeyID is the replication id the source reports after a fail-over (scenario field Rekey): the
// history continues, the previous id becomes the second id.
const rekeyID = "bbbbbbbbbbbbbbbbbbbbbbbbbbbbbbbbbbbbbbbb"

// collectCp extracts executed writes of <runid>_offset from the exec log.
func collectCp(exec []*redisd.Req, runs []runRec) []cpWrite {
	var out []cpWrite
	for _, r := range exec {
		if r.Name() != "hset" || len(r.Argv) < 4 || string(r.Argv[1]) != cpKeyName {
			continue
		}
		for i := 2; i+1 < len(r.Argv); i += 2 {
			if string(r.Argv[i]) == cpOffsetField() || string(r.Argv[i]) == rekeyID+"_offset" {
				v, err := strconv.ParseInt(string(r.Argv[i+1]), 10, 64)
				if err != nil {
					v = -999
				}
				run := 0
				for k, rr := range runs {
					if r.Seq >= rr.FirstSeq {
						run = k
					}
				}
				out = append(out, cpWrite{ExecSeq: r.ExecSeq, Seq: r.Seq, Value: v, DB: r.ExecDB, Txn: r.Txn, Run: run})
			}
		}
	}
	return out
}

// boundaryIndex returns the index of the first item that starts at offset off
// (relative to S0), or -1 when off is not an item boundary of the stream.
func boundaryIndex(items []sItem, off int64) int {
	rel := off - aofS0
	if rel == 0 {
		return 0
	}
	for i, it := range items {
		if it.End == rel {
			return i + 1
		}
	}
	return -1
}

// crashExec runs one complete history: start, feed under explorer control, crash
// where the explorer says, restart, ... until a run completes the stream.
func crashExec(t *testing.T, scn crashScenario, ch *mc.Chooser) (rec crashRec, machinery string) {
	setBase(scn.Base)
	bigTxnCmds = 1100
	if scn.BigTxn > 0 {
		bigTxnCmds = scn.BigTxn
	}
	msg := bubble(t, func() {
		env := newAofEnv(t)
		items := buildStream(scn.Syms)
		rec.Items = items
		ctl := &crashCtl{env: env, ch: ch, left: scn.MaxCrashes, marks: &rec.Marks, kill: scn.Kill, noCrash: scn.Soft || scn.NoCrash}
		defer func() { rec.Merged = ctl.merged }()
		ticks := tickNames(scn.Cfg)
		cfg := scn.Cfg.outputConfig(cpKeyName)
		var prevRo *RedisOutput // the output of the previous run when that run ended by an orderly stop
		gcLeft := scn.Gc
		var srcIds []string // the ids the source reports in the run under way
		// gcHere offers one pass of the stale-checkpoint collector at this point of the history
		// (0 = none, 1 = a pass now, 2 = a pass after an idle period longer than the stale duration)
		gcHere := func(tag string) {
			if gcLeft <= 0 || machinery != "" {
				return
			}
			a := ch.ChooseFree("gc."+tag, 3)
			if a == 0 {
				return
			}
			gcLeft--
			rec.Gcs++
			n0 := env.srv.NumReqs()
			if err := gcStalePass(cfg, srcIds, a == 2); err != nil {
				machinery = "collector pass failed on a healthy target: " + err.Error()
			}
			aofWait()
			rec.Marks = append(rec.Marks, fmt.Sprintf("gc.%s(%d)->%d..%d", tag, a, n0+1, env.srv.NumReqs()))
		}
		for runNo := 0; runNo < scn.MaxCrashes+2; runNo++ {
			rr := runRec{FirstSeq: env.srv.NumReqs() + 1, StartDb: -1}
			if runNo > 0 {
				env.srv.Revive()
			}
			// ---- boot: what syncer.newOutput + RedisInput.syncMeta do before Send
			var ro *RedisOutput
			var sp StartPoint
			var bootErr error
			bootEvent := ctl.event
			if scn.Kill {
				// connection losses are placed in the replay only (a start-up that fails is reported, C02 says nothing about it)
				bootEvent = func(tag string, do func()) bool { do(); return false }
			}
			crashed := bootEvent(fmt.Sprintf("crash.boot%d", runNo), func() {
				ids := []string{aofRunID, "0000000000000000000000000000000000000000"}
				if scn.Rekey && runNo >= 1 {
					ids = []string{rekeyID, aofRunID}
				}
				env.runID = ids[0]
				srcIds = ids
				if scn.Soft && prevRo != nil {
					// in-process reconnection (RedisInput.Run loop): the same output is asked for its start
					// point, told the run id, and sent the stream again
					ro = prevRo
					var err error
					sp, err = ro.StartPoint(context.Background(), ids)
					if err != nil {
						bootErr = err
						return
					}
					rr.StartPoint, rr.StartDb = sp.Offset, sp.DbId
					if sp.IsInitial() || sp.Offset < 0 || !slices.Contains(ids, sp.RunId) {
						rr.FullSync = true
						if err = ro.setCheckpoint(context.Background(), ids[0], aofS0, config.Version); err != nil {
							bootErr = err
							return
						}
						sp.Offset = aofS0
					}
					bootErr = ro.SetRunId(context.Background(), ids[0])
					return
				}
				cli, err := client.NewRedis(cfg.Redis)
				if err != nil {
					bootErr = err
					return
				}
				// (*syncer).updateCheckpoint: a checkpoint still stored under the source's second id keeps
				// that id until the source has answered PSYNC
				cpIds := ids
				if scn.Rekey {
					_, cpRunId, herr := checkpoint.GetCheckpointHash(cli, ids)
					if herr != nil {
						cli.Close()
						bootErr = herr
						return
					}
					if cpRunId != "" && cpRunId == ids[1] {
						cpIds = []string{ids[1], ids[0]}
					}
				}
				err = checkpoint.UpdateCheckpoint(cli, cpKeyName, cpIds)
				cli.Close()
				if err != nil {
					bootErr = err
					return
				}
				cfgRun := cfg
				cfgRun.RunId = cpIds[0]
				ro = NewRedisOutput(cfgRun)
				sp, err = ro.StartPoint(context.Background(), ids)
				if err != nil {
					bootErr = err
					return
				}
				rr.StartPoint, rr.StartDb, rr.StartRunId = sp.Offset, sp.DbId, sp.RunId
				if sp.IsInitial() || sp.Offset < 0 || !slices.Contains(ids, sp.RunId) {
					// no usable position: the tool takes a full sync; the (empty) snapshot
					// ends at S0 and its completion stores S0 (sendRdb -> setCheckpoint)
					rr.FullSync = true
					if err = ro.setCheckpoint(context.Background(), ids[0], aofS0, config.Version); err != nil {
						bootErr = err
						return
					}
					sp.Offset = aofS0
				}
				// the source answered PSYNC (+CONTINUE <current id>): input.syncMeta -> output.SetRunId
				bootErr = ro.SetRunId(context.Background(), ids[0])
			})
			if crashed || bootErr != nil {
				rr.Crashed = crashed
				if bootErr != nil {
					rr.BootErr = bootErr.Error()
				}
				rec.Runs = append(rec.Runs, rr)
				if !crashed {
					// boot failed without a crash on a healthy target
					v := mc.Violation("start-up failed on a healthy target", "boot-error:"+scn.Cfg.class(), map[string]interface{}{"error": rr.BootErr})
					rec.Early = &v
					break
				}
				continue
			}
			rr.Offset = sp.Offset
			startIdx := boundaryIndex(items, sp.Offset)
			if startIdx < 0 {
				rec.Runs = append(rec.Runs, rr)
				v := mc.Violation("resume position is not a command boundary of the stream", "resume-not-boundary:"+scn.Cfg.class(),
					map[string]interface{}{"offset": sp.Offset, "S0": aofS0, "run": runNo})
				rec.Early = &v
				break
			}
			// ---- replay
			run := env.start(ro, items, sp.Offset)
			run.pos = startIdx
			crashed = false
			step := 0
			doEvent := func(f func()) bool {
				step++
				hit := ctl.event(fmt.Sprintf("crash.r%d.e%d", runNo, step), f)
				if hit && scn.Kill {
					// the connections are gone, the target is up: let the sender's retry sleeps elapse
					time.Sleep(5 * time.Second)
					aofWait()
					run.poll()
					if !run.ended {
						// the run goes on after the sender retried: what it applies from here on is
						// judged like a resumed run (it may repeat what the lost attempt had sent)
						cut := rr
						cut.Crashed = true
						rec.Runs = append(rec.Runs, cut)
						rr.FirstSeq = env.srv.NumReqs() + 1
						rr.Retry = true
						return false
					}
				}
				return hit
			}
			stopHere := func() bool {
				if !scn.Stops || ctl.left <= 0 || run.pos == startIdx {
					return false
				}
				if ch.ChooseFree(fmt.Sprintf("r%d.stop%d", runNo, run.pos), 2) == 1 {
					ctl.left--
					return true
				}
				return false
			}
			maxTicks := scn.Max
			stopped := false
			for run.pos < len(items) && !run.ended && !crashed {
				if stopped = stopHere(); stopped {
					break
				}
				gcHere(fmt.Sprintf("r%d.p%d", runNo, run.pos))
				fired := 0
				for fired < maxTicks && !crashed && !run.ended {
					a := ch.Choose(fmt.Sprintf("r%d.pre%d.%d", runNo, run.pos, fired), 1+len(ticks))
					if a == 0 {
						break
					}
					crashed = doEvent(func() { run.tick(ticks[a-1]) })
					fired++
				}
				if crashed || run.ended {
					break
				}
				if scn.Bulk {
					n := 1
					for run.pos+n < len(items) && items[run.pos+n].Sym == items[run.pos].Sym {
						n++
					}
					crashed = doEvent(func() { run.release(n) })
					continue
				}
				two := 0
				if run.pos+1 < len(items) {
					two = ch.Choose(fmt.Sprintf("r%d.two%d", runNo, run.pos), 2)
				}
				crashed = doEvent(func() { run.release(1 + two) })
			}
			if !stopped && !crashed && !run.ended {
				gcHere(fmt.Sprintf("r%d.end", runNo))
				stopped = stopHere()
			}
			fired := 0
			for fired < maxTicks && !crashed && !run.ended && !stopped {
				a := ch.Choose(fmt.Sprintf("r%d.post.%d", runNo, fired), 1+len(ticks))
				if a == 0 {
					break
				}
				crashed = doEvent(func() { run.tick(ticks[a-1]) })
				fired++
			}
			if !crashed && !run.ended && !stopped {
				crashed = doEvent(func() { run.tick("batch") })
			}
			if !crashed && !run.ended && !scn.Cfg.Txn && !stopped {
				// ticker mode: let the checkpoint ticker store the final position
				crashed = doEvent(func() { run.tick("cp") })
			}
			rr.Stopped = stopped
			prevRo = nil
			if stopped {
				prevRo = ro
			}
			rr.Crashed = crashed
			early := run.ended
			rr.Completed = !crashed && !early && !stopped && run.pos == len(items)
			run.stop()
			if run.err != nil {
				rr.SendErr = run.err.Error()
			}
			rec.Runs = append(rec.Runs, rr)
			if early && !crashed {
				v := mc.Violation("replay stopped although the target is healthy", "send-returned:"+scn.Cfg.class(), map[string]interface{}{"error": rr.SendErr, "run": runNo})
				rec.Early = &v
				break
			}
			if rr.Completed {
				break
			}
		}
		rec.Exec = env.srv.ExecLog()
		rec.Cp = collectCp(rec.Exec, rec.Runs)
		rec.Events = env.events
		if len(env.srv.MachineryErrors) > 0 {
			machinery = "double: " + strings.Join(env.srv.MachineryErrors, "; ")
		}
	})
	if msg != "" {
		machinery = "bubble: " + msg
	}
	return
}

// gcStaleDur is the stale duration the collector passes of the H-aof harness use (the tool's default).
const gcStaleDur = 12 * time.Hour

// gcStalePass is one pass of the stale-checkpoint collector over the target, the way
// (*SyncerCmd).gcStaleCheckpoint of package cmd does it for a stand-alone target: every entry of the
// checkpoint index is handed to the real checkpoint.DelStaleCheckpoint (the newest database of an id
// the source still reports is spared), an index entry of an unknown id whose data is gone is dropped.
// idle: the (bubble's) clock first advances beyond the stale duration - the sender's own tickers are
// harness events and do not fire.
func gcStalePass(cfg RedisOutputConfig, srcIds []string, idle bool) error {
	if idle {
		time.Sleep(gcStaleDur + time.Minute)
	}
	cli, err := client.NewRedis(cfg.Redis)
	if err != nil {
		return err
	}
	defer cli.Close()
	data, err := checkpoint.GetAllCheckpointHash(cli)
	if err != nil {
		return err
	}
	for i := 0; i+1 < len(data); i += 2 {
		runId, cpn := data[i], data[i+1]
		exist := slices.Contains(srcIds, runId)
		total, deleted, err := checkpoint.DelStaleCheckpoint(cli, cpn, runId, gcStaleDur, exist)
		if err != nil {
			return err
		}
		if !exist && total == deleted {
			if err := checkpoint.DelCheckpointHash(cli, runId); err != nil {
				return err
			}
		}
	}
	return nil
}

// runOf returns the index of the run a request belongs to.
func (rec *crashRec) runOf(seq int) int {
	run := 0
	for k, rr := range rec.Runs {
		if seq >= rr.FirstSeq {
			run = k
		}
	}
	return run
}

func (rec *crashRec) describe() map[string]interface{} {
	return map[string]interface{}{"runs": rec.Runs, "target_log": reqStrings(rec.Exec), "checkpoint_writes": rec.Cp, "events": rec.Marks}
}

func (rec *crashRec) obs() uint64 {
	parts := reqStrings(rec.Exec)
	for _, r := range rec.Runs {
		parts = append(parts, fmt.Sprintf("run:%d:%v:%v:%v", r.Offset, r.FullSync, r.Crashed, r.Stopped))
	}
	// mtime values depend on jittered virtual sleeps: mask them
	for i, p := range parts {
		if k := strings.Index(p, "_mtime\" \""); k >= 0 {
			e := strings.Index(p[k+9:], "\"")
			if e >= 0 {
				parts[i] = p[:k+9] + "T" + p[k+9+e:]
			}
		}
	}
	return mc.Hash(parts...)
}

func (rec *crashRec) crashes() int {
	n := 0
	for _, r := range rec.Runs {
		if r.Crashed || r.Stopped {
			n++
		}
	}
	return n
}

package syncer

import (
	"bytes"
	"context"
	"encoding/json"
	"fmt"
	"io"
	"math/rand"
	"os"
	"path/filepath"
	"sort"
	"strconv"
	"strings"
	"sync"
	"testing"
	"testing/synctest"
	"time"

	"github.com/mgtv-tech/redis-GunYu/config"
	"github.com/mgtv-tech/redis-GunYu/pkg/redis/checkpoint"
	"github.com/mgtv-tech/redis-GunYu/pkg/redis/client"
	usync "github.com/mgtv-tech/redis-GunYu/pkg/sync"
	"github.com/mgtv-tech/redis-GunYu/verifshim/mc"
	"github.com/mgtv-tech/redis-GunYu/verifshim/redisd"
	"github.com/mgtv-tech/redis-GunYu/verifshim/sourced"
	"github.com/mgtv-tech/redis-GunYu/verifshim/vnet"
	"github.com/mgtv-tech/redis-GunYu/verifshim/vsel"
)

// ---------------------------------------------------------------------------
// H-input: the real syncer (NewSyncer + RunLeader: newOutput with its start-up
// UpdateCheckpoint, NewRedisOutput, NewRedisInput, SetOutput/SetChannel, Run) and
// therefore the real RedisInput.Run loop (fetchInput, syncMeta, pSync, syncData,
// readChannel, sendOutput, 2 s back-off, 1 s ACK ticker) with a real channel (disk
// store or memory), the real RedisOutput writing to the redisd target, and the
// sourced replication-source double. Everything runs on the bubble's virtual clock.
//
// One execution = one history: an initial triple (source state, stored checkpoint,
// cache content), the tool's start sequence, then a sequence of environment events,
// each followed by a settling period, then an epilogue (two more source writes).

func init() { verifChecks["C06"] = runC06 }

const (
	c06SrcAddr  = "source:6379"
	c06TgtAddr  = "target:6379"
	c06Base     = int64(1000) // first stream offset unless the scenario says otherwise
	c06OldLen   = 8           // commands of history h1 (the one the tool followed before the scenario starts)
	c06Settle   = 8 * time.Second
	c06Final    = 20 * time.Second
	c06TagZ     = 9  // a history the source never heard of
	c06CutSteps = 16 // target requests of one checkpoint re-keying (output.SetRunId -> UpdateCheckpoint), with margin
)

type c06Scenario struct {
	Chan      string   `json:"chan"`               // disk | mem
	LogSize   int64    `json:"log_size"`           // cache segment size
	Base      string   `json:"base,omitempty"`     // offset of the first stream byte: "" = 1000, "0", "1"
	Src       string   `json:"src"`                // same | fo | new
	ForkAt    int      `json:"fork_at,omitempty"`  // fo: commands shared by old and new master
	CurLen    int      `json:"cur_len"`            // commands in the current history at start
	Trim      int      `json:"trim,omitempty"`     // backlog starts at this command
	CpID      string   `json:"cp_id,omitempty"`    // "" | A (h1) | B (h2, fo only) | Z (unknown history)
	CpAt      int      `json:"cp_at,omitempty"`    // stored resume position (command index; -1 = the "nothing yet" placeholder offset -1)
	CacheID   string   `json:"cache_id,omitempty"` // "" | A | B | Z
	CacheSnap bool     `json:"cache_snap,omitempty"`
	CacheL    int      `json:"cache_l,omitempty"`
	CacheR    int      `json:"cache_r,omitempty"`
	Crc       bool     `json:"crc,omitempty"`     // Channel.VerifyCrc (disk readers verify sealed segments / snapshot files when opening them)
	Corrupt   string   `json:"corrupt,omitempty"` // "" | log | snap: one byte of the cached log segment / snapshot file was altered on disk before the start
	CacheByCmd bool    `json:"cache_by_cmd,omitempty"` // the cached log was written command by command (as a live stream arrives): the segment size decides where its segments end; Corrupt is then "log:<j>" | "open:<j>" for damage to the j-th segment (see c06DamageSegment)
	Prep      bool     `json:"prep,omitempty"`    // the source prepares a snapshot for 4 s (LF heartbeats) before +FULLRESYNC and before $<len>
	NoResume  bool     `json:"no_resume,omitempty"` // output.replay.resumeFromBreakPoint=false: the position lives in the process only (ticker-mode output, CanTransaction=false)
	Burst     string   `json:"burst,omitempty"`    // the master takes 2 writes during every snapshot; payload + those commands arrive as one write ("one") or split "inpay" | "atend" | "incmd"
	MaxSize   int64    `json:"max_size,omitempty"` // cache MaxSize (disk: what the 30 s collector trims to; memory: hard limit, appends evict the head); 0 = unlimited
	Hold      string   `json:"hold,omitempty"`     // step of a connection attempt behind which the input goroutine is held: pos | psync | chanid | outid | writer | reader
	HoldFor   string   `json:"hold_for,omitempty"` // burst: until what the source sent behind the PSYNC reply has reached the cache writer; tick: until the disk collector's next 30 s tick has fired
	HoldAt    int      `json:"hold_at,omitempty"`  // the n-th time that step is reached in the history (1 = first connection attempt)
	Events    []string `json:"events,omitempty"`
}

func (s c06Scenario) base() int64 {
	if s.Base == "" {
		return c06Base
	}
	n, err := strconv.ParseInt(s.Base, 10, 64)
	if err != nil {
		panic("bad base in scenario: " + s.Base)
	}
	return n
}

func (s c06Scenario) String() string {
	b, _ := json.Marshal(s)
	return string(b)
}

// c06Obs is what the harness records at the instant a PSYNC reaches the source.
type c06Obs struct {
	TgtReqs   int              `json:"target_requests_so_far"`
	Stored    map[string]int64 `json:"stored_positions"` // replication id -> offset, read from the target's checkpoint hash
	ChanRun   string           `json:"cache_id"`
	ChanLeft  int64            `json:"cache_left"`
	ChanRight int64            `json:"cache_right"`
	RdbLeft   int64            `json:"cache_rdb_left"`
	Boot      int              `json:"tool_incarnation"`
	AtMs      int64            `json:"virtual_ms"`
}

type c06Tool struct {
	sy    *syncer
	done  chan error
	ended bool
	err   error
}

type c06Env struct {
	t         *testing.T
	scn       c06Scenario
	tgt       *redisd.Server
	src       *sourced.Server
	hist      map[int]*sourced.History
	nextTag   int
	dir       string
	ch        Channel
	tool      *c06Tool
	boots     int
	events    int
	t0        time.Time
	base      int // target requests issued while preparing the initial state
	marks     []string
	exits     []string // RunLeader() returned by itself: error texts
	applied0  *c06Pos  // initial true position of the target
	stuck     string
	prefill   func(ch Channel) error
	prepErr   error
	cut       *c06Cut // armed interruption of the next +FULLRESYNC attempt
	cutMissed bool    // the interruption point does not exist in this history
	bootAt    time.Time      // creation of the current channel object (phase of the disk collector's ticker)
	holdSeen  map[string]int // connection steps reached so far, by class
	holding   bool           // the input goroutine is being held at a step right now
	held      int            // holds carried out
}

// c06Cut interrupts a connection attempt between the +FULLRESYNC reply and the first
// snapshot byte: the target stops answering after the k-th request the tool sends to it
// from then on (the re-keying of the checkpoint in output.SetRunId).
type c06Cut struct {
	k         int
	mode      byte // 's' process stop, 'd' target unreachable, 'e' k-th request answered with an error once
	armedAt   time.Time
	armed     bool
	seen      int
	triggered bool
}

type c06Pos struct {
	H *sourced.History
	N int
}

func (p *c06Pos) String() string {
	if p == nil {
		return "none"
	}
	return fmt.Sprintf("h%d@%d", p.H.Tag, p.N)
}

func c06RedisCfg(addr string) config.RedisConfig {
	return config.RedisConfig{Addresses: []string{addr}, Type: config.RedisTypeStandalone, Otype: config.RedisTypeStandalone, Version: "7.2.0"}
}

// c06GlobalConfig fills the process-wide configuration the code under test reads
// (what the YAML loader would have produced): transactional checkpoints, resume from
// break point, no RESTORE (snapshot keys are replayed as plain SETs).
func c06GlobalConfig(crc bool, resume bool) error {
	gc := config.GetSyncerConfig()
	rc := c06RedisCfg(c06SrcAddr)
	// one snapshot slot (a deployment with one input): a slot that is not given back by any
	// path of fetchInput/syncData blocks the next (re)connection, which the horizon check
	// reports; with the default of 100 a leak could never show within one history
	gc.Input = &config.InputConfig{Redis: &rc, RdbParallel: 1}
	if err := config.VerifFixInput(gc.Input); err != nil {
		return err
	}
	gc.Channel = &config.ChannelConfig{VerifyCrc: crc}
	gc.Server.ListenPort = 18001
	yes, no := true, false
	cpTick := time.Hour // transactional mode: the position travels inside every MULTI/EXEC
	if !resume {
		cpTick = time.Second // in-memory position, ticker mode
	}
	tc := c06RedisCfg(c06TgtAddr)
	gc.Output = &config.OutputConfig{Redis: &tc, Replay: config.ReplayConfig{
		ResumeFromBreakPoint:   &resume,
		KeyExists:              "replace",
		TargetDb:               -1,
		BatchCmdCount:          64,
		BatchTicker:            100 * time.Millisecond,
		BatchBufferSize:        1 << 20,
		KeepaliveTicker:        time.Hour,
		ReplayRdbParallel:      1,
		ReplayRdbEnableRestore: &no,
		UpdateCheckpointTicker: cpTick,
		ReplayTransaction:      &yes,
		BisyncEnabled:          &no,
		Stats:                  config.OutputStats{DisableLog: true},
	}}
	return nil
}

func (e *c06Env) syncerConfig() SyncerConfig {
	cc := config.ChannelConfig{Type: config.ChannelTypeStorer, Storer: &config.StorerConfig{DirPath: e.dir, MaxSize: e.scn.MaxSize, LogSize: e.scn.LogSize}}
	if e.scn.Chan == "mem" {
		cc = config.ChannelConfig{Type: config.ChannelTypeMemory, Memory: &config.MemoryConfig{MaxSize: e.scn.MaxSize, LogSize: e.scn.LogSize}}
	}
	return SyncerConfig{Id: 1, Input: c06RedisCfg(c06SrcAddr), Output: c06RedisCfg(c06TgtAddr), Channel: cc, CanTransaction: !e.scn.NoResume}
}

func (e *c06Env) mark(format string, a ...interface{}) {
	e.marks = append(e.marks, fmt.Sprintf("%6dms ", time.Since(e.t0).Milliseconds())+fmt.Sprintf(format, a...))
}

func (e *c06Env) histOf(name string) *sourced.History {
	switch name {
	case "A":
		return e.hist[1]
	case "B":
		return e.hist[2]
	case "Z":
		return e.hist[c06TagZ]
	}
	return nil
}

// prepare builds the initial triple.
func (e *c06Env) prepare() error {
	scn := e.scn
	if err := c06GlobalConfig(scn.Crc, !scn.NoResume); err != nil {
		return err
	}

	base := scn.base()
	h1 := sourced.NewHistory(1, base)
	h1.Append(c06OldLen)
	hz := sourced.NewHistory(c06TagZ, base)
	hz.Append(c06OldLen)
	e.hist = map[int]*sourced.History{1: h1, c06TagZ: hz}
	e.nextTag = 4
	var cur *sourced.History
	switch scn.Src {
	case "same":
		cur = h1
		if scn.CurLen > c06OldLen {
			h1.Append(scn.CurLen - c06OldLen)
		}
	case "fo":
		cur = h1.Fork(2, scn.ForkAt)
		cur.Append(scn.CurLen - scn.ForkAt)
		e.hist[2] = cur
	case "new":
		cur = sourced.NewHistory(3, base)
		cur.Append(scn.CurLen)
		e.hist[3] = cur
	default:
		return fmt.Errorf("unknown source kind %q", scn.Src)
	}
	e.src = sourced.New(c06SrcAddr, cur)
	// virtual; see sourced.Server.DataDelay. Longer than any chain of target round trips
	// (1 ms each) between the PSYNC reply and the start of cache writer and reader, and
	// off the 1 ms / 10 ms grid of reply timers and reader polls, so the payload never
	// arrives at the same virtual instant as a poll.
	e.src.DataDelay = 200*time.Millisecond + 500*time.Microsecond
	if scn.Prep {
		e.src.PrepDelay = 2500 * time.Millisecond
	}
	if scn.Burst != "" {
		e.src.SnapWrites, e.src.Burst = 2, scn.Burst
	}
	if scn.Src == "fo" {
		e.src.SetLineage(h1.ReplID, cur.Off(scn.ForkAt)+1)
	}
	if scn.Trim > 0 {
		e.src.TrimBacklog(cur.Off(scn.Trim))
	}
	e.src.OnPSync = func(p *sourced.PSync) {
		o := &c06Obs{TgtReqs: e.tgt.NumReqs(), Stored: c06Stored(e.tgt), Boot: e.boots, AtMs: time.Since(e.t0).Milliseconds(), ChanLeft: -1, ChanRight: -1, RdbLeft: -1}
		if e.ch != nil {
			o.ChanRun = e.ch.RunId()
			if sp, err := e.ch.StartPoint(nil); err == nil {
				o.ChanRight = sp.Offset
			}
			o.ChanLeft, _ = e.ch.GetOffsetRange(o.ChanRun)
			o.RdbLeft, _ = e.ch.GetRdb(o.ChanRun)
		}
		p.Note = o
		if c := e.cut; c != nil && p.Full && !c.armed {
			c.armed, c.armedAt = true, time.Now()
			plan := e.tgt.PlanRef()
			if c.mode == 'e' {
				plan.FailAt = map[int]string{o.TgtReqs + c.k: "ERR injected by the harness"}
				c.triggered = true
			} else if c.k == 0 {
				plan.Park = true
				c.triggered = true
			} else {
				plan.OnRequest = func(r *redisd.Req) {
					if c.triggered {
						return
					}
					c.seen++
					if c.seen == c.k {
						plan.Park = true // the k-th request is still answered, nothing after it
						c.triggered = true
					}
				}
			}
		}
	}

	// stored checkpoint (real checkpoint functions) + the data the target had applied
	if scn.CpID != "" {
		h := e.histOf(scn.CpID)
		if h == nil || scn.CpAt > h.NumCmds() || scn.CpAt < -1 {
			return fmt.Errorf("inconsistent checkpoint in scenario")
		}
		cpOff := int64(-1) // the placeholder the start-up sequence itself writes: no position yet
		if scn.CpAt >= 0 {
			cpOff = h.Off(scn.CpAt)
		}
		cli, err := client.NewRedis(c06RedisCfg(c06TgtAddr))
		if err != nil {
			return err
		}
		err = checkpoint.SetCheckpoint(cli, &checkpoint.CheckpointInfo{Key: config.CheckpointKey, RunId: h.ReplID, Offset: cpOff, Version: config.Version})
		if err == nil {
			err = checkpoint.SetCheckpointHash(cli, h.ReplID, config.CheckpointKey)
		}
		cli.Close()
		if err != nil {
			return err
		}
		if scn.CpAt >= 0 {
			// the target holds what it applied: the master's pre-stream data and the writes
			e.tgt.Put(0, h.PreKey(), &redisd.Value{T: 's', Str: []byte("v")})
			for i := 0; i < scn.CpAt; i++ {
				e.tgt.Put(0, h.Key(i), &redisd.Value{T: 's', Str: []byte("v")})
			}
			e.applied0 = &c06Pos{H: h, N: scn.CpAt}
		}
	}
	e.base = e.tgt.NumReqs()

	// cache content, written through the channel's own writers. Disk: files found by
	// the next process start. Memory: the content of the syncer's channel object when
	// its leader loop is (re)entered.
	if scn.CacheID != "" {
		h := e.histOf(scn.CacheID)
		if h == nil || scn.CacheR > h.NumCmds() || scn.CacheL > scn.CacheR {
			return fmt.Errorf("inconsistent cache in scenario")
		}
		if scn.Chan == "disk" {
			ch := NewChannel(e.syncerConfig().Channel, c06SrcAddr)
			chunk := 0
			if scn.CacheByCmd {
				chunk = sourced.CmdLen
			}
			err := c06FillCacheBy(ch, h, scn.CacheSnap, scn.CacheL, scn.CacheR, chunk)
			ch.Close()
			if err != nil {
				return fmt.Errorf("building the cache: %w", err)
			}
			if scn.Corrupt != "" {
				if err := c06CorruptCache(filepath.Join(e.dir, h.ReplID), scn.Corrupt); err != nil {
					return fmt.Errorf("altering the cache: %w", err)
				}
			}
		} else {
			e.prefill = func(ch Channel) error { return c06FillCache(ch, h, scn.CacheSnap, scn.CacheL, scn.CacheR) }
		}
	}
	return nil
}

// c06CorruptCache alters one byte of a cached file the way a failing disk would: in the
// last command of the (single, sealed) log segment the history tag digit of the key
// becomes '7' ("h1:006" -> "h7:006": still a well-formed command, but of no history),
// or in the snapshot file the same digit of the first key. File sizes do not change.
func c06CorruptCache(dir string, what string) error {
	if i := strings.IndexByte(what, ':'); i > 0 {
		j, err := strconv.Atoi(what[i+1:])
		if err != nil {
			return fmt.Errorf("bad segment number in %q", what)
		}
		return c06DamageSegment(dir, what[:i], j)
	}
	ents, err := os.ReadDir(dir)
	if err != nil {
		return err
	}
	suffix := ".aof"
	if what == "snap" {
		suffix = ".rdb"
	}
	for _, en := range ents {
		if !strings.HasSuffix(en.Name(), suffix) {
			continue
		}
		fn := filepath.Join(dir, en.Name())
		b, err := os.ReadFile(fn)
		if err != nil {
			return err
		}
		at := -1
		if what == "snap" {
			at = bytes.Index(b, []byte("pre:h"))
			if at >= 0 {
				at += 5
			}
		} else {
			at = bytes.LastIndex(b, []byte("\r\nh"))
			if at >= 0 {
				at += 3
			}
		}
		if at < 0 || at >= len(b) {
			return fmt.Errorf("no key found in %s", fn)
		}
		b[at] = '7'
		return os.WriteFile(fn, b, 0666)
	}
	return fmt.Errorf("no %s file in %s", suffix, dir)
}

// c06DamageSegment damages the j-th log segment of a cache directory (segments counted from
// the oldest, 0-based; the cache has several because the segment size is a command or two):
//   - kind "log":  one byte of the segment's last command is altered as in c06CorruptCache
//     (the history tag digit of the key becomes '7'); size and header stay as they were;
//   - kind "open": the segment looks the way a segment looks that the tool was writing when
//     its process was killed: the bytes are there, the header still carries the placeholder
//     (checksum 0, size 0) that the writer replaces only when it closes the segment. Later
//     segments behind it: what a later incarnation of the tool appended.
func c06DamageSegment(dir string, kind string, j int) error {
	segs, err := c06LogSegments(dir)
	if err != nil {
		return err
	}
	if j < 0 || j >= len(segs) {
		return fmt.Errorf("the cache in %s has %d log segments, no segment %d", dir, len(segs), j)
	}
	fn := filepath.Join(dir, fmt.Sprintf("%d.aof", segs[j]))
	b, err := os.ReadFile(fn)
	if err != nil {
		return err
	}
	switch kind {
	case "log":
		at := bytes.LastIndex(b, []byte("\r\nh"))
		if at < 0 || at+3 >= len(b) {
			return fmt.Errorf("no key found in %s", fn)
		}
		b[at+3] = '7'
	case "open":
		if len(b) < 13 {
			return fmt.Errorf("%s is shorter than a segment header", fn)
		}
		for i := 1; i < 13; i++ { // version(1) | checksum(8) | size(4) | reserved
			b[i] = 0
		}
	default:
		return fmt.Errorf("unknown kind of damage %q", kind)
	}
	return os.WriteFile(fn, b, 0666)
}

// c06LogSegments lists the left offsets of the log segments in a cache directory, ascending.
func c06LogSegments(dir string) ([]int64, error) {
	ents, err := os.ReadDir(dir)
	if err != nil {
		return nil, err
	}
	var segs []int64
	for _, en := range ents {
		if !strings.HasSuffix(en.Name(), ".aof") {
			continue
		}
		off, err := strconv.ParseInt(strings.TrimSuffix(en.Name(), ".aof"), 10, 64)
		if err != nil {
			continue
		}
		segs = append(segs, off)
	}
	sort.Slice(segs, func(a, b int) bool { return segs[a] < segs[b] })
	return segs, nil
}

func c06FillCache(ch Channel, h *sourced.History, snap bool, l, r int) error {
	return c06FillCacheBy(ch, h, snap, l, r, 0)
}

// c06ChunkReader hands its bytes out at most n per Read (a stream that arrived command by
// command: the cache writer then closes a segment wherever the segment size says).
type c06ChunkReader struct {
	b []byte
	n int
}

func (c *c06ChunkReader) Read(p []byte) (int, error) {
	if len(c.b) == 0 {
		return 0, io.EOF
	}
	k := c.n
	if k > len(c.b) {
		k = len(c.b)
	}
	if k > len(p) {
		k = len(p)
	}
	copy(p, c.b[:k])
	c.b = c.b[k:]
	return k, nil
}

// c06FillCacheBy: chunk > 0 feeds the log writer chunk bytes per read.
func c06FillCacheBy(ch Channel, h *sourced.History, snap bool, l, r int, chunk int) error {
	if err := ch.SetRunId(h.ReplID); err != nil {
		return err
	}
	ctx := context.Background()
	if snap {
		rdb := h.Snapshot(l)
		w, err := ch.NewRdbWriter(bytes.NewReader(rdb), h.Off(l), int64(len(rdb)))
		if err != nil {
			return err
		}
		w.Start()
		if err := w.Wait(ctx); err != nil {
			return err
		}
		w.Close()
	}
	if r > l {
		var src io.Reader = bytes.NewReader(h.Bytes(h.Off(l), h.Off(r)))
		if chunk > 0 {
			src = &c06ChunkReader{b: h.Bytes(h.Off(l), h.Off(r)), n: chunk}
		}
		w, err := ch.NewAofWritter(src, h.Off(l))
		if err != nil {
			return err
		}
		w.Start()
		w.Wait(ctx) // ends with "reader error: EOF" once the bytes are in
		w.Close()
		if w.Right() != h.Off(r) {
			return fmt.Errorf("aof writer stopped at %d, want %d", w.Right(), h.Off(r))
		}
	}
	return nil
}

// c06Stored reads the resume positions stored on the target (db 0), by id.
func c06Stored(tgt *redisd.Server) map[string]int64 {
	out := map[string]int64{}
	v := tgt.Get(0, config.CheckpointKey)
	if v == nil || v.T != 'h' {
		return out
	}
	for f, val := range v.Hash {
		if strings.HasSuffix(f, "_offset") {
			n, err := strconv.ParseInt(string(val), 10, 64)
			if err != nil {
				n = -999
			}
			out[strings.TrimSuffix(f, "_offset")] = n
		}
	}
	return out
}

// boot starts one incarnation of the tool the way cmd/syncer does: NewSyncer (which
// creates the channel object) and RunLeader (newOutput: source run ids, start-up
// UpdateCheckpoint, NewRedisOutput; then NewRedisInput, SetOutput, SetChannel, Run).
func (e *c06Env) boot() {
	e.boots++
	e.bootAt = time.Now()
	sy := NewSyncer(e.syncerConfig()).(*syncer)
	e.ch = sy.channel
	if e.prefill != nil {
		f := e.prefill
		e.prefill = nil
		if err := f(e.ch); err != nil {
			e.prepErr = fmt.Errorf("building the cache: %w", err)
		}
	}
	tl := &c06Tool{sy: sy, done: make(chan error, 1)}
	go func() { tl.done <- sy.RunLeader() }()
	e.tool = tl
	e.mark("start %d", e.boots)
}

func (tl *c06Tool) poll() {
	if tl == nil || tl.ended {
		return
	}
	select {
	case err := <-tl.done:
		tl.ended, tl.err = true, err
	default:
	}
}

// stopTool is a process stop: Stop(), wait for RunLeader to return (it closes the channel).
func (e *c06Env) stopTool() {
	tl := e.tool
	if tl == nil {
		return
	}
	tl.sy.Stop()
	for i := 0; i < 6 && !tl.ended; i++ {
		synctest.Wait()
		tl.poll()
		if !tl.ended {
			time.Sleep(5 * time.Second)
		}
	}
	if !tl.ended {
		e.stuck = "RunLeader() did not return within 30 virtual seconds after Stop()"
	}
	e.tool = nil
	e.ch = nil
}

// restart is a process restart: new objects on the same cache directory and target
// (a memory cache does not survive it).
func (e *c06Env) restart(why string) {
	e.stopTool()
	e.mark("restart (%s)", why)
	e.boot()
}

// settle lets virtual time pass. When Run() returns by itself (or the start sequence
// failed) the command loop of the tool would wait 2 s and start new objects: the
// harness does the same, a bounded number of times.
func (e *c06Env) settle(d time.Duration) {
	for round := 0; round < 4; round++ {
		time.Sleep(d)
		synctest.Wait()
		if e.holding {
			// a connection attempt is being held at one of its steps (up to one collector
			// period): the settling period starts when it goes on
			for i := 0; i < 40 && e.holding; i++ {
				time.Sleep(time.Second)
				synctest.Wait()
			}
			time.Sleep(d)
			synctest.Wait()
		}
		if e.tool != nil {
			e.tool.poll()
			if !e.tool.ended {
				return
			}
			msg := "nil"
			if e.tool.err != nil {
				msg = e.tool.err.Error()
			}
			if len(msg) > 300 {
				msg = msg[:300]
			}
			e.exits = append(e.exits, msg)
			e.mark("RunLeader returned: %s", msg)
		}
		time.Sleep(2 * time.Second)
		e.restart("run loop ended")
	}
}

// applyCut is the event "new:<mode><k>": the source is replaced by a master with a
// brand-new id whose backlog contains the tool's position, and the connection attempt
// that is answered +FULLRESYNC is interrupted after the k-th target request that follows
// the reply: mode s = the process is stopped there and started again, d = the target is
// unreachable from there until the tool has given the attempt up, e = the k-th request
// fails once.
func (e *c06Env) applyCut(ev string) error {
	mode := ev[4]
	k, err := strconv.Atoi(ev[5:])
	if err != nil || (mode != 's' && mode != 'd' && mode != 'e') {
		return fmt.Errorf("bad event %q", ev)
	}
	cur := e.src.Current()
	tag := e.nextTag
	e.nextTag++
	h := sourced.NewHistory(tag, e.scn.base())
	h.Append(cur.NumCmds())
	e.hist[tag] = h
	c := &c06Cut{k: k, mode: mode}
	e.cut = c
	e.src.Replace(h)
	// the tool notices the dead connection, backs off 2 s, reconnects, gets +FULLRESYNC
	time.Sleep(3 * time.Second)
	synctest.Wait()
	plan := e.tgt.PlanRef()
	plan.OnRequest = nil
	if !c.triggered || mode == 'e' {
		if !c.triggered {
			e.cutMissed = true // fewer than k requests between the reply and the snapshot
		}
		e.cut = nil
		return nil
	}
	e.mark("attempt interrupted after target request %d of the re-keying (%c)", k, mode)
	switch mode {
	case 's':
		e.tgt.KillConns()
		plan.Park = false
		e.restart("stopped between +FULLRESYNC and the snapshot")
	case 'd':
		e.tgt.Crash()
		plan.Park = false
		for i := 0; i < 200 && len(e.src.Replicas()) > 0; i++ {
			time.Sleep(100 * time.Millisecond)
			synctest.Wait()
		}
		e.tgt.Revive()
		e.tgt.PlanRef().Hold = true
		e.mark("target reachable again")
	}
	e.cut = nil
	return nil
}

func (e *c06Env) apply(ev string) error {
	e.events++
	if strings.HasPrefix(ev, "new:") {
		err := e.applyCut(ev)
		c := e.src.Current()
		e.mark("event %s -> source h%d len %d", ev, c.Tag, c.NumCmds())
		return err
	}
	cur := e.src.Current()
	if strings.HasPrefix(ev, "lag+") {
		// the target stops processing requests (they pile up in its receive buffer), the
		// master takes a burst of writes larger than a small cache, then the inner event
		// happens, then the target works off what it has received and answers again
		e.tgt.PlanRef().Park = true
		e.src.Append(c06BurstCmds)
		time.Sleep(300 * time.Millisecond)
		synctest.Wait()
		e.events--
		if err := e.apply(ev[4:]); err != nil {
			return err
		}
		time.Sleep(300 * time.Millisecond)
		synctest.Wait()
		e.tgt.Unpark()
		c := e.src.Current()
		e.mark("event %s -> source h%d len %d", ev, c.Tag, c.NumCmds())
		return nil
	}
	if len(ev) > 1 && ev[0] == 'b' && (ev == "bdrop" || ev == "bfo" || ev == "brs") {
		// a burst of writes larger than a small cache reaches the cache, and the inner event
		// happens before the output's batch timer has forwarded any of it to the target
		e.src.Append(c06BurstCmds)
		synctest.Wait()
		e.events--
		return e.apply(ev[1:])
	}
	switch ev {
	case "app":
		e.src.Append(2)
	case "app6":
		// a burst larger than a small cache while the connection is up
		e.src.Append(c06BurstCmds)
	case "tick":
		// virtual time passes until the disk collector's 30 s ticker has fired once more
		time.Sleep(c06UntilTick(e.bootAt))
		synctest.Wait()
	case "drop":
		e.src.DropConns(false)
	case "rst":
		e.src.DropConns(true)
	case "fo", "foe":
		at := cur.NumCmds()
		if ev == "foe" {
			at -= 2
			if at < 0 {
				at = 0
			}
		}
		tag := e.nextTag
		e.nextTag++
		e.hist[tag] = e.src.Failover(tag, at)
		if ev == "foe" {
			e.src.Append(3)
		}
	case "trim":
		n := cur.NumCmds() - 1
		if n < 0 {
			n = 0
		}
		e.src.TrimBacklog(cur.Off(n))
	case "new":
		tag := e.nextTag
		e.nextTag++
		h := sourced.NewHistory(tag, e.scn.base())
		h.Append(cur.NumCmds())
		e.hist[tag] = h
		e.src.Replace(h)
	case "newp":
		// brand-new master with overlapping offsets whose first snapshot transfer dies in
		// the middle of the payload (connection lost); the next one is served normally
		tag := e.nextTag
		e.nextTag++
		h := sourced.NewHistory(tag, e.scn.base())
		h.Append(cur.NumCmds())
		e.hist[tag] = h
		e.src.CutNextPayload = true
		e.src.Replace(h)
	case "down2", "down6":
		// the source's address refuses connections for 2 s (inside the tool's 3 x 1 s
		// connection retries) or 6 s (beyond them: the run loop ends, the process restarts)
		e.src.SetDown(true)
		d := 2 * time.Second
		if ev == "down6" {
			d = 6 * time.Second
		}
		time.Sleep(d)
		synctest.Wait()
		e.src.SetDown(false)
	case "rs":
		e.restart("event")
	default:
		return fmt.Errorf("unknown event %q", ev)
	}
	c := e.src.Current()
	e.mark("event %s -> source h%d len %d", ev, c.Tag, c.NumCmds())
	return nil
}

var c06Names = map[string]string{sourced.ZeroID: "zero", "?": "?"}

func init() {
	for tag := 1; tag < 40; tag++ {
		c06Names[sourced.ReplIDOf(tag)] = fmt.Sprintf("h%d", tag)
	}
}

func c06Name(id string) string {
	if n, ok := c06Names[id]; ok {
		return n
	}
	if id == "" {
		return "-"
	}
	return "id(" + id + ")"
}

// ---------------------------------------------------------------------------
// Small caches and collector activity: steps of a connection attempt at which the input
// goroutine can be held while the rest of the tool (the new connection's cache writer,
// the disk collector) goes on.
//
// syncer/input.go is built with the rewriter's yield-calls transform: a point behind the
// statements that call getOutputStartPoint, pSync, (channel|output).SetRunId / ResetRunId,
// fetchInput and readChannel. A point is named "input.go:<line>"; the class of a point is
// read off the text of that source line in the tree under test.

const (
	c06BurstCmds   = 6                // commands of a burst (192 bytes: more than every small MaxSize)
	c06GcPeriod    = 30 * time.Second // pkg/store gcLogJob ticker
	c06HoldBurst   = 250*time.Millisecond + 250*time.Microsecond
	c06TickMargin  = time.Millisecond + 250*time.Microsecond
	c06InputSource = "syncer/input.go"
)

var c06HoldSites = []string{"pos", "psync", "chanid", "outid", "writer", "reader"}

// c06UntilTick: virtual time from now until just behind the next tick of a 30 s ticker
// created at t0.
func c06UntilTick(t0 time.Time) time.Duration {
	el := time.Since(t0)
	return c06GcPeriod - el%c06GcPeriod + c06TickMargin
}

var (
	c06SiteOnce  sync.Once
	c06SiteLines []string
)

// c06SiteClass maps a yield point to the step of the connection attempt it follows.
func c06SiteClass(site string) string {
	c06SiteOnce.Do(func() {
		root := os.Getenv("VERIF_REPO")
		if root == "" {
			root = "/repo"
		}
		b, err := os.ReadFile(filepath.Join(root, c06InputSource))
		if err == nil {
			c06SiteLines = strings.Split(string(b), "\n")
		}
	})
	if !strings.HasPrefix(site, "input.go:") {
		return ""
	}
	n, err := strconv.Atoi(site[len("input.go:"):])
	if err != nil || n < 1 || n > len(c06SiteLines) {
		return ""
	}
	line := c06SiteLines[n-1]
	switch {
	case strings.Contains(line, "getOutputStartPoint("):
		return "pos" // the target's stored position has been read; the cache has not been looked at yet
	case strings.Contains(line, ".pSync("):
		return "psync" // the PSYNC reply has arrived (the cache was validated before the request)
	case strings.Contains(line, "channel.SetRunId("):
		return "chanid"
	case strings.Contains(line, "output.SetRunId("), strings.Contains(line, ".ResetRunId("):
		return "outid"
	case strings.Contains(line, ".fetchInput("):
		return "writer" // the connection's cache writer has been started, the reader does not exist yet
	case strings.Contains(line, ".readChannel("):
		return "reader" // the reader exists (and pins its segment); nothing has been handed to the output yet
	}
	return ""
}

// c06SitesPresent lists the classes for which the tree under test has a point.
func c06SitesPresent() map[string]bool {
	c06SiteClass("input.go:1")
	out := map[string]bool{}
	for i := range c06SiteLines {
		if !strings.Contains(c06SiteLines[i], "func ") {
			if c := c06SiteClass(fmt.Sprintf("input.go:%d", i+1)); c != "" {
				out[c] = true
			}
		}
	}
	return out
}

// yield is the preemption procedure: called by the tool's goroutine that reached a point.
func (e *c06Env) yield(site string) {
	cls := c06SiteClass(site)
	if cls == "" {
		return
	}
	e.holdSeen[cls]++
	if cls != e.scn.Hold || e.holdSeen[cls] != e.scn.HoldAt {
		return
	}
	d := c06HoldBurst
	if e.scn.HoldFor == "tick" {
		d = c06UntilTick(e.bootAt)
	}
	e.holding = true
	e.held++
	e.mark("input goroutine held behind step %s for %v", cls, d)
	time.Sleep(d)
	e.holding = false
	e.mark("input goroutine goes on")
}

// ---------------------------------------------------------------------------
// One execution.

// c06Stats summarises one execution for the evidence counters.
type c06Stats struct {
	conns, cont, full, refusedPartial, cachedSnap, fullSnap, starts, exits, held, small, empty int
}

var c06Last c06Stats
var c06LastObs string

type c06Item struct {
	Seq  int
	Snap bool // executed outside MULTI/EXEC: snapshot replay
	Key  string
}

type c06Record struct {
	scn     c06Scenario
	env     *c06Env
	psyncs  []*sourced.PSync
	items   []c06Item
	cur     *sourced.History
	final   map[string]interface{}
	auditEr string
}

func c06Exec(t *testing.T, scn c06Scenario, scratch string, n int) mc.Result {
	var res mc.Result
	dir := filepath.Join(scratch, fmt.Sprintf("c06-%d", n))
	os.RemoveAll(dir)
	defer os.RemoveAll(dir)
	msg := bubble(t, func() {
		vnet.Reset()
		rand.Seed(1) // the tool's retry jitter (util.jitterUp) draws from the global source
		env := &c06Env{t: t, scn: scn, dir: dir, t0: time.Now(), holdSeen: map[string]int{}}
		env.tgt = redisd.New(c06TgtAddr)
		if scn.Hold != "" {
			vsel.SetYielder(env.yield)
			defer vsel.SetYielder(nil)
		}
		// Every reply of the target arrives one VIRTUAL millisecond after the request.
		// The virtual clock only moves when every goroutine of the bubble is durably
		// blocked, and a goroutine inside a file-system call is not: so every round trip
		// to the target is a point where all pending file work (the snapshot writer's
		// fsync/close/rename, which the tool does not wait for when a run scope is
		// cancelled) has completed. Without it the order "rename <n>.rdb.tmp -> <n>.rdb"
		// versus "next connection re-scans the cache directory" was decided by how long
		// the OS kept the writer's thread inside fsync (load dependent), and the same
		// history could take two different paths through syncMeta.
		env.tgt.PlanRef().Hold = true
		env.tgt.PlanRef().AfterReq = func(r *redisd.Req) {
			conn := r.Conn
			time.AfterFunc(time.Millisecond, func() { env.tgt.Release(conn, 0) })
		}
		if scn.Chan == "disk" {
			if err := os.MkdirAll(dir, 0777); err != nil {
				res = mc.Result{Verdict: "machinery", Clause: err.Error()}
				return
			}
		}
		defer env.stopTool()
		if err := env.prepare(); err != nil {
			res = mc.Result{Verdict: "machinery", Clause: "prepare: " + err.Error()}
			return
		}
		env.events++ // the initial (re)connection
		env.boot()
		if env.prepErr != nil {
			res = mc.Result{Verdict: "machinery", Clause: "prepare: " + env.prepErr.Error()}
			return
		}
		env.settle(c06Settle)
		for _, ev := range scn.Events {
			if err := env.apply(ev); err != nil {
				res = mc.Result{Verdict: "machinery", Clause: err.Error()}
				return
			}
			env.settle(c06Settle)
		}
		// epilogue: two more writes at the source must reach the target
		env.events++
		env.src.Append(2)
		env.mark("epilogue: source h%d len %d", env.src.Current().Tag, env.src.Current().NumCmds())
		env.settle(c06Final)
		rec := &c06Record{scn: scn, env: env, psyncs: env.src.PSyncs(), cur: env.src.Current()}
		// the cache is audited while the tool is still up (stopping closes the channel,
		// and a memory cache forgets everything then); the environment is quiescent
		rec.auditCache()
		env.stopTool()
		// a key replayed from a snapshot is preceded, on the same connection, by EXISTS
		// of that key (replay without RESTORE); a stream command never is
		probed := map[int]string{} // connection -> key of its last request if that was EXISTS
		snapSeq := map[int]bool{}
		for _, r := range env.tgt.Log() {
			if r.Name() == "set" && len(r.Argv) >= 3 && probed[r.Conn] == string(r.Argv[1]) {
				snapSeq[r.Seq] = true
			}
			if r.Name() == "exists" && len(r.Argv) == 2 {
				probed[r.Conn] = string(r.Argv[1])
			} else if r.Name() != "del" {
				delete(probed, r.Conn)
			}
		}
		for _, r := range env.tgt.ExecLog() {
			if r.Seq <= env.base || r.Name() != "set" || len(r.Argv) < 3 {
				continue
			}
			k := string(r.Argv[1])
			if strings.HasPrefix(k, "snap:") || strings.HasPrefix(k, "pre:") || (len(k) > 1 && k[0] == 'h' && k[1] >= '0' && k[1] <= '9') {
				rec.items = append(rec.items, c06Item{Seq: r.Seq, Snap: snapSeq[r.Seq], Key: k})
			}
		}
		if len(env.tgt.MachineryErrors) > 0 || len(env.src.MachineryErrors) > 0 {
			res = mc.Result{Verdict: "machinery", Clause: "double: " + strings.Join(append(env.tgt.MachineryErrors, env.src.MachineryErrors...), "; ")}
			return
		}
		res = rec.judge()
		if os.Getenv("VERIF_C06_DUMP") != "" && res.Verdict == "ok" {
			b, _ := json.MarshalIndent(rec.describe(nil), "", " ")
			fmt.Fprintf(os.Stderr, "%s\n", b)
		}
	})
	if msg != "" {
		if len(msg) > 3000 {
			msg = msg[:3000]
		}
		return mc.Result{Verdict: "machinery", Clause: "bubble: " + msg}
	}
	return res
}

// auditCache reads the cache back through the channel's own reader once everything is
// quiescent: what it reports under the current id must be bytes of the current history.
func (rec *c06Record) auditCache() {
	e := rec.env
	ch := e.ch
	cur := rec.cur
	fin := map[string]interface{}{}
	rec.final = fin
	if ch == nil {
		return
	}
	run := ch.RunId()
	l, r := ch.GetOffsetRange(run)
	rl, rs := ch.GetRdb(run)
	fin["cache_id"], fin["cache_left"], fin["cache_right"], fin["cache_rdb_left"] = c06Name(run), l, r, rl
	fin["source"] = fmt.Sprintf("h%d len %d (offset %d)", cur.Tag, cur.NumCmds(), cur.Len())
	if run != cur.ReplID {
		rec.auditEr = fmt.Sprintf("id:cache is filed under %s, the source's current id is %s", c06Name(run), c06Name(cur.ReplID))
		return
	}
	if r != cur.Len() {
		rec.auditEr = fmt.Sprintf("range:cache ends at %d, the source's stream ends at %d", r, cur.Len())
		return
	}
	read := func(off int64, n int64, wantAof bool) ([]byte, ChannelReader, string) {
		rd, err := ch.NewReader(Offset{RunId: run, Offset: off})
		if err != nil {
			return nil, nil, fmt.Sprintf("read:cache reports [%d,%d] but a reader at %d fails: %v", l, r, off, err)
		}
		w := usync.NewWaitCloser(nil)
		rd.Start(w)
		if !wantAof && !rd.IsAof() {
			n = rd.Size()
		}
		buf := make([]byte, n)
		type rres struct {
			n   int
			err error
		}
		got := make(chan rres, 1)
		go func() {
			k, err := io.ReadFull(rd.IoReader(), buf)
			got <- rres{k, err}
		}()
		var x rres
		stalled := false
		select {
		case x = <-got:
		case <-time.After(5 * time.Second): // virtual: the bytes are there or they never come
			stalled = true
		}
		w.Close(nil)
		rd.Close()
		if stalled {
			x = <-got
			x.err = fmt.Errorf("reader stalls after %d bytes", x.n)
		}
		w.WgWait()
		if x.err != nil {
			if !stalled && x.n > 0 && wantAof {
				// an explicit read error after some bytes: the tool would deliver those
				// bytes, fail, back off and come back with a new reader right behind them
				return buf[:x.n], rd, ""
			}
			return nil, rd, fmt.Sprintf("read:cache reports [%d,%d] but reading %d bytes at %d fails: %v", l, r, n, off, x.err)
		}
		return buf, rd, ""
	}
	aofFrom := l
	if rl >= 0 && rs > 0 && l <= rl {
		// snapshot part
		buf, rd, msg := read(rl, 0, false)
		if msg != "" {
			rec.auditEr = msg
			return
		}
		if rd.IsAof() {
			// a log segment also covers the snapshot offset: the reader prefers it
			aofFrom = l
		} else {
			n, ok := cur.CmdIndex(rl)
			match := false
			if ok {
				for _, h := range e.hist {
					if cur.OnLineage(h, n) && bytes.Equal(buf, h.Snapshot(n)) {
						match = true
					}
				}
			}
			if !match {
				rec.auditEr = fmt.Sprintf("snapshot:cached snapshot at %d is not a snapshot of the current history's lineage", rl)
				return
			}
			aofFrom = rl
		}
	}
	if aofFrom >= 0 && r > aofFrom {
		if aofFrom < cur.Base {
			rec.auditEr = fmt.Sprintf("range:cache starts at %d, before the stream's first offset %d", aofFrom, cur.Base)
			return
		}
		var buf []byte
		retries := 0
		for int64(len(buf)) < r-aofFrom {
			part, _, msg := read(aofFrom+int64(len(buf)), r-aofFrom-int64(len(buf)), true)
			if msg != "" {
				rec.auditEr = msg
				return
			}
			buf = append(buf, part...)
			if int64(len(buf)) < r-aofFrom {
				retries++
			}
		}
		if retries > 0 {
			fin["cache_read_retries"] = retries
		}
		want := cur.Bytes(aofFrom, r)
		if !bytes.Equal(buf, want) {
			at := 0
			for at < len(buf) && buf[at] == want[at] {
				at++
			}
			rec.auditEr = fmt.Sprintf("bytes:cache bytes under the current id differ from the current history at offset %d", aofFrom+int64(at))
			return
		}
	}
	fin["cache_audit"] = "ok"
}

func c06ParseKey(k string) (snap bool, tag int, idx int, ok bool) {
	s := k
	if strings.HasPrefix(s, "snap:") {
		snap = true
		s = s[5:]
	}
	if len(s) < 4 || s[0] != 'h' {
		return
	}
	c := strings.IndexByte(s, ':')
	if c < 0 {
		return
	}
	t, err1 := strconv.Atoi(s[1:c])
	i, err2 := strconv.Atoi(s[c+1:])
	if err1 != nil || err2 != nil {
		return
	}
	return snap, t, i, true
}

func (rec *c06Record) describe(extra map[string]interface{}) map[string]interface{} {
	e := rec.env
	var ps []map[string]interface{}
	for _, p := range rec.psyncs {
		o, _ := p.Note.(*c06Obs)
		reply := "+CONTINUE " + c06Name(p.ReplyID)
		if p.Full {
			reply = fmt.Sprintf("+FULLRESYNC %s %d", c06Name(p.ReplyID), p.From)
		}
		args := p.Raw
		if f := strings.Fields(p.Raw); len(f) == 2 {
			args = c06Name(f[0]) + " " + f[1]
		}
		m := map[string]interface{}{"n": p.Seq, "psync": args, "reply": reply, "refused_because": p.Why,
			"source": fmt.Sprintf("h%d cmds=%d backlog_from=%d id2=%s second_off=%d", p.Hist.Tag, p.HistCmds, p.BacklogStart, c06Name(p.ID2), p.SecondOff)}
		if o != nil {
			st := map[string]int64{}
			for id, off := range o.Stored {
				st[c06Name(id)] = off
			}
			m["seen"] = map[string]interface{}{"stored": st, "cache": fmt.Sprintf("%s [%d,%d] rdb@%d", c06Name(o.ChanRun), o.ChanLeft, o.ChanRight, o.RdbLeft), "tool": o.Boot, "ms": o.AtMs}
		}
		ps = append(ps, m)
	}
	var del []string
	for _, it := range rec.items {
		s := it.Key
		if it.Snap {
			s = "rdb:" + s
		}
		del = append(del, fmt.Sprintf("#%d %s", it.Seq, s))
	}
	d := map[string]interface{}{"psyncs": ps, "delivered": del, "timeline": e.marks, "final": rec.final, "run_exits": e.exits,
		"offsets": fmt.Sprintf("command i occupies [%d+%d*i, +%d)", e.scn.base(), sourced.CmdLen, sourced.CmdLen)}
	for k, v := range extra {
		d[k] = v
	}
	return d
}

// judge is the oracle. The reference model is the set of history objects: what the
// target has applied is a position (history, command count); a position lies on the
// current history iff that prefix is byte-identical in both.
func (rec *c06Record) judge() mc.Result {
	e := rec.env
	cls := rec.scn.Chan
	if rec.scn.MaxSize > 0 {
		cls += ":small-cache" // histories in which the cache collects its head
	}
	for _, ev := range rec.scn.Events {
		if strings.HasPrefix(ev, "new:") {
			cls += ":after-cut-fullresync" // histories with an interrupted +FULLRESYNC attempt
			break
		}
	}
	viol := func(clause, sig string, extra map[string]interface{}) mc.Result {
		return mc.Violation(clause, "C06:"+sig+":"+cls, rec.describe(extra))
	}
	if e.stuck != "" {
		return viol("the tool did not stop", "hang:stop", map[string]interface{}{"what": e.stuck})
	}
	for _, x := range e.exits {
		if strings.Contains(x, "panic") {
			return viol("a goroutine of the tool panicked", "panic", map[string]interface{}{"error": x})
		}
	}
	applied := e.applied0
	var obsParts []string
	prevBoot := 0
	for k, p := range rec.psyncs {
		o, _ := p.Note.(*c06Obs)
		if o == nil {
			return mc.Result{Verdict: "machinery", Clause: "PSYNC without observation"}
		}
		hi := int(^uint(0) >> 1)
		if k+1 < len(rec.psyncs) {
			hi = rec.psyncs[k+1].Note.(*c06Obs).TgtReqs
		}
		var snap, stream []c06Item
		disorder := false
		for _, it := range rec.items {
			if it.Seq <= o.TgtReqs || it.Seq > hi {
				continue
			}
			if it.Snap {
				if len(stream) > 0 {
					disorder = true
				}
				snap = append(snap, it)
			} else {
				stream = append(stream, it)
			}
		}
		C := p.Hist
		phase := "live"
		if o.Boot != prevBoot {
			phase = "start"
		}
		prevBoot = o.Boot
		reply := "cont"
		if p.Full {
			reply = "full"
		}
		shape := phase + ":" + reply
		ctx := map[string]interface{}{"connection": p.Seq, "target_position_before": applied.String()}

		// the stored position is the position of what the target applied
		if applied != nil {
			// (no stored position at all is fine: the tool has declared what the target holds
			// unusable, e.g. when a snapshot of another history is about to be loaded)
			ok, any := false, false
			for _, off := range o.Stored {
				if off >= 0 {
					any = true
				}
				if off == applied.H.Off(applied.N) {
					ok = true
				}
			}
			if any && !ok {
				return viol("the resume position stored on the target is not the position of what the target has applied", "stored-position-differs:"+shape, ctx)
			}
		}
		// PSYNC arguments: a full-sync request (offset -1, which no master ever grants:
		// "? -1" or "<id> -1") or <id> <p+1> for a position (id,p) the tool holds
		if p.ReqOff != -1 {
			held := func(id string, pos int64) bool {
				if pos < 0 {
					return false
				}
				if off, ok := o.Stored[id]; ok && off == pos {
					return true
				}
				if rec.scn.NoResume && applied != nil && pos == applied.H.Off(applied.N) {
					// the position is kept in the process: it is the position of what the
					// target has applied (whether its id may be used is judged by what is
					// delivered after the reply)
					return true
				}
				return o.ChanRun == id && o.ChanRight == pos
			}
			if !held(p.ReqID, p.ReqOff-1) {
				kind := "unheld-position"
				if held(p.ReqID, p.ReqOff) {
					kind = "offset-not-incremented"
				}
				return viol("PSYNC was not requested as <id> <position+1> for a position the tool holds (nor as ? -1)", "psync-args:"+kind, ctx)
			}
		}
		if disorder {
			return viol("snapshot keys were replayed after stream commands of the same connection", "snapshot-after-stream:"+shape, ctx)
		}
		start := -1
		if len(snap) > 0 {
			var mk []c06Item
			for _, it := range snap {
				if strings.HasPrefix(it.Key, "snap:") {
					mk = append(mk, it)
				}
			}
			if len(mk) == 0 && len(stream) == 0 && p.Full && rec.midFlightFault() && c06Subset(snap, C.SnapshotKeys(p.HistCmds)) {
				// the harness interrupted this attempt while the served snapshot was being
				// loaded: the target now holds a part of it. Nothing may be continued from
				// here; the next connection has to bring a complete snapshot.
				applied = nil
				obsParts = append(obsParts, fmt.Sprintf("%s|%s|partial-snapshot=%d", shape, c06NameArgs(p.Raw), len(snap)))
				continue
			}
			if len(mk) != 1 {
				return viol("the snapshot replayed after a (re)connection is not one complete snapshot", "incomplete-snapshot:"+shape, ctx)
			}
			_, tag, ns, ok := c06ParseKey(mk[0].Key)
			hs := e.hist[tag]
			if !ok || hs == nil || ns > hs.NumCmds() {
				return mc.Result{Verdict: "machinery", Clause: "unparsable snapshot marker " + mk[0].Key}
			}
			want := hs.SnapshotKeys(ns)
			got := make([]string, 0, len(snap))
			for _, it := range snap {
				got = append(got, it.Key)
			}
			sort.Strings(want)
			sort.Strings(got)
			if strings.Join(want, ",") != strings.Join(got, ",") {
				return viol("the snapshot replayed after a (re)connection is not one complete snapshot", "incomplete-snapshot:"+shape, ctx)
			}
			if p.Full {
				if hs != C || ns != p.HistCmds {
					return viol("after +FULLRESYNC a snapshot other than the one just served was replayed", "stale-snapshot:"+shape, ctx)
				}
			} else if !C.OnLineage(hs, ns) {
				return viol("a cached snapshot that does not belong to the source's current history was replayed", "stale-snapshot:"+shape, ctx)
			}
			start = ns
		} else if len(stream) > 0 {
			if p.Full {
				return viol("after +FULLRESYNC stream commands were delivered without the snapshot", "fullresync-without-snapshot:"+shape, ctx)
			}
			if applied == nil {
				return viol("the stream was continued although the target has no resume position", "continued-without-position:"+shape, ctx)
			}
			if !C.OnLineage(applied.H, applied.N) {
				ctx["why"] = fmt.Sprintf("target holds %s; current history h%d shares only %d commands with h%d", applied, C.Tag, C.SharedCmds(applied.H), applied.H.Tag)
				return viol("the stream of the source's current history was continued from a position of another replication history", "other-history-continued:"+shape, ctx)
			}
			start = applied.N
		}
		for j, it := range stream {
			i := start + j
			_, tag, idx, ok := c06ParseKey(it.Key)
			if !ok {
				return mc.Result{Verdict: "machinery", Clause: "unparsable key " + it.Key}
			}
			if i < C.NumCmds() && it.Key == C.Key(i) {
				continue
			}
			ctx["delivered"] = it.Key
			ctx["expected_index"] = i
			switch {
			case idx < C.NumCmds() && tag != C.TagAt(idx) || idx >= C.NumCmds():
				return viol("bytes that do not belong to the source's current history were delivered", "dead-branch-bytes:"+shape, ctx)
			case idx > i:
				return viol("delivery continued from a later position: stream commands were skipped", "gap:"+shape, ctx)
			default:
				return viol("delivery went back: stream commands already applied were delivered again", "repeat:"+shape, ctx)
			}
		}
		if start >= 0 {
			applied = &c06Pos{H: C, N: start + len(stream)}
		}
		obsParts = append(obsParts, fmt.Sprintf("%s|%s|%s|%d|%d|snap=%d|from=%d|n=%d", shape, c06NameArgs(p.Raw), c06Name(p.ReplyID), p.From, p.HistCmds, len(snap), start, len(stream)))
	}
	c06Last = c06Stats{starts: e.boots, exits: len(e.exits), held: e.held}
	if rec.scn.MaxSize > 0 {
		c06Last.small = 1
	}
	for _, p := range rec.psyncs {
		c06Last.conns++
		if p.Full {
			c06Last.full++
			if p.ReqOff != -1 {
				c06Last.refusedPartial++
			}
		} else {
			c06Last.cont++
		}
	}
	for _, part := range obsParts {
		if strings.Contains(part, ":cont|") && !strings.Contains(part, "|snap=0|") {
			c06Last.cachedSnap++
		}
		if strings.Contains(part, ":full|") && !strings.Contains(part, "|snap=0|") {
			c06Last.fullSnap++
		}
		if rec.scn.MaxSize > 0 && strings.HasSuffix(part, "|snap=0|from=-1|n=0") {
			c06Last.empty++ // a connection that delivered nothing (the round failed) and was repaired by the next one
		}
	}
	cur := rec.cur
	fin := map[string]interface{}{"target_position": applied.String(), "source": fmt.Sprintf("h%d@%d", cur.Tag, cur.NumCmds())}
	// liveness within the horizon: the source's writes reached the target
	if applied == nil || applied.N != cur.NumCmds() || !cur.OnLineage(applied.H, applied.N) {
		kind := "behind"
		if len(e.exits) > 0 {
			kind = "run-loop-ended"
		}
		if rec.scn.Corrupt != "" {
			kind = "altered-cache"
		}
		if c06DamageIsLater(rec.scn) {
			kind = "damaged-later-segment"
		}
		return viol("the target was not brought up to the source's current position within the horizon", "not-caught-up:"+kind, fin)
	}
	var missing []string
	if e.tgt.Get(0, cur.PreKey()) == nil {
		missing = append(missing, cur.PreKey())
	}
	for i := 0; i < cur.NumCmds(); i++ {
		if e.tgt.Get(0, cur.Key(i)) == nil {
			missing = append(missing, cur.Key(i))
		}
	}
	if len(missing) > 0 {
		fin["missing_keys"] = missing
		return viol("writes of the source's current history are missing on the target", "target-missing-writes", fin)
	}
	if rec.auditEr != "" && rec.scn.Corrupt != "" && strings.HasPrefix(rec.auditEr, "read:") && strings.Contains(rec.auditEr, "corrupted") {
		// the altered file is still in the cache but was never needed (the target was
		// already past it); the verifying reader refuses it, which is all C06 asks
		rec.final["cache_audit"] = "altered file still cached, refused by the verifying reader"
		rec.auditEr = ""
	}
	if rec.auditEr != "" {
		kind := rec.auditEr[:strings.IndexByte(rec.auditEr, ':')]
		fin["audit"] = rec.auditEr
		return viol("the cache's reported content does not match the source's current history", "cache-mismatch:"+kind, fin)
	}
	// (whether the disk index still lists the snapshot file at the end depends on a race
	// between the writer's rename and the directory re-scan of the next connection: not hashed)
	obsParts = append(obsParts, fmt.Sprintf("final|%v|%v", rec.final["cache_left"], rec.final["cache_right"]), fmt.Sprintf("exits=%d", len(e.exits)))
	c06LastObs = strings.Join(obsParts, " ; ") + " ; ms"
	for _, p := range rec.psyncs {
		c06LastObs += fmt.Sprintf(" %d", p.Note.(*c06Obs).AtMs)
	}
	c06LastObs += fmt.Sprintf(" ; target requests %d", e.tgt.NumReqs())
	return mc.OK(mc.Hash(obsParts...), len(rec.psyncs) > 0 && len(rec.items) > 0, e.events)
}

// midFlightFault: the history contains an event that interrupts a connection attempt
// between +FULLRESYNC and the end of the snapshot replay.
func (rec *c06Record) midFlightFault() bool {
	for _, ev := range rec.scn.Events {
		if strings.HasPrefix(ev, "new:") || ev == "newp" {
			return true
		}
	}
	return false
}

func c06Subset(items []c06Item, of []string) bool {
	set := map[string]bool{}
	for _, k := range of {
		set[k] = true
	}
	for _, it := range items {
		if !set[it.Key] {
			return false
		}
		delete(set, it.Key)
	}
	return true
}

func c06NameArgs(raw string) string {
	if f := strings.Fields(raw); len(f) == 2 {
		return c06Name(f[0]) + " " + f[1]
	}
	return raw
}

// ---------------------------------------------------------------------------
// Enumeration.

type c06CacheSpec struct {
	ID   string
	Snap bool
	L, R int
}

type c06CpSpec struct {
	ID string
	At int
}

type c06SrcSpec struct {
	Kind   string
	ForkAt int
	CurLen int
	Trim   int
}

func c06Consistent(s c06SrcSpec, cp c06CpSpec, ca c06CacheSpec) bool {
	if s.Kind != "fo" && (cp.ID == "B" || ca.ID == "B") {
		return false
	}
	if cp.ID == "B" && cp.At > s.CurLen {
		return false
	}
	if ca.ID == "B" && ca.R > s.CurLen {
		return false
	}
	if (cp.ID == "A" || cp.ID == "Z") && cp.At > c06OldLen {
		return false
	}
	if (ca.ID == "A" || ca.ID == "Z") && ca.R > c06OldLen {
		return false
	}
	// the cache is renamed to the new id before the checkpoint is re-keyed, never the
	// other way round
	if ca.ID == "A" && cp.ID == "B" {
		return false
	}
	if ca.ID == "B" && cp.ID == "A" && cp.At > s.ForkAt {
		return false
	}
	return true
}

func c06Triples(tier string) []c06Scenario {
	srcs := []c06SrcSpec{{"same", 0, 8, 0}, {"same", 0, 8, 5}, {"fo", 4, 9, 0}, {"fo", 4, 9, 5}, {"new", 0, 8, 0}}
	cps := []c06CpSpec{{"", 0}, {"A", 2}, {"A", 4}, {"A", 6}, {"B", 6}, {"Z", 4}}
	caches := []c06CacheSpec{{"", false, 0, 0},
		{"A", false, 3, 5}, {"A", false, 1, 3}, {"A", false, 5, 7}, {"A", false, 3, 7}, {"A", true, 3, 5}, {"A", true, 5, 7},
		{"B", false, 3, 7}, {"B", true, 5, 7},
		{"Z", false, 3, 5}, {"Z", true, 3, 5}}
	logSizes := []int64{1 << 20}
	if tier == "thorough" {
		srcs = append(srcs, c06SrcSpec{"fo", 4, 5, 0}, c06SrcSpec{"fo", 4, 9, 3}, c06SrcSpec{"fo", 6, 9, 0}, c06SrcSpec{"same", 0, 8, 3}, c06SrcSpec{"same", 0, 10, 0}, c06SrcSpec{"new", 0, 3, 0})
		cps = append(cps, c06CpSpec{"A", 8}, c06CpSpec{"A", 0}, c06CpSpec{"B", 4}, c06CpSpec{"B", 9})
		caches = append(caches, c06CacheSpec{"A", true, 4, 4}, c06CacheSpec{"A", false, 0, 8}, c06CacheSpec{"A", true, 1, 7}, c06CacheSpec{"A", false, 2, 4},
			c06CacheSpec{"B", false, 3, 9}, c06CacheSpec{"B", true, 4, 4}, c06CacheSpec{"B", false, 1, 4})
		logSizes = append(logSizes, 100)
	}
	var out []c06Scenario
	for _, chn := range []string{"disk", "mem"} {
		for _, ls := range logSizes {
			for _, s := range srcs {
				for _, cp := range cps {
					for _, ca := range caches {
						if !c06Consistent(s, cp, ca) {
							continue
						}
						out = append(out, c06Scenario{Chan: chn, LogSize: ls, Src: s.Kind, ForkAt: s.ForkAt, CurLen: s.CurLen, Trim: s.Trim,
							CpID: cp.ID, CpAt: cp.At, CacheID: ca.ID, CacheSnap: ca.Snap, CacheL: ca.L, CacheR: ca.R})
					}
				}
			}
		}
	}
	// Young masters: the stream starts at offset 0 (a master that never had a replica
	// answers +FULLRESYNC <id> 0) or 1. Snapshot offsets 0 and 1, positions 0 and -1:
	// the values where "nothing applied yet" and "at the first offset" are neighbours.
	lowSrcs := []c06SrcSpec{{"same", 0, 8, 0}, {"fo", 4, 9, 0}, {"new", 0, 0, 0}}
	lowCps := []c06CpSpec{{"", 0}, {"A", -1}, {"A", 0}, {"A", 1}}
	lowCaches := []c06CacheSpec{{"", false, 0, 0}, {"A", true, 0, 0}, {"A", true, 0, 2}, {"A", false, 0, 2}}
	if tier == "thorough" {
		lowSrcs = append(lowSrcs, c06SrcSpec{"same", 0, 8, 2}, c06SrcSpec{"fo", 0, 3, 0}, c06SrcSpec{"new", 0, 8, 0})
		lowCps = append(lowCps, c06CpSpec{"A", 2}, c06CpSpec{"B", 0}, c06CpSpec{"B", -1}, c06CpSpec{"Z", 0})
		lowCaches = append(lowCaches, c06CacheSpec{"A", true, 0, 8}, c06CacheSpec{"A", true, 1, 1}, c06CacheSpec{"A", true, 1, 3}, c06CacheSpec{"B", true, 0, 2}, c06CacheSpec{"Z", true, 0, 2})
	}
	for _, chn := range []string{"disk", "mem"} {
		for _, base := range []string{"0", "1"} {
			for _, s := range lowSrcs {
				for _, cp := range lowCps {
					for _, ca := range lowCaches {
						if !c06Consistent(s, cp, ca) {
							continue
						}
						out = append(out, c06Scenario{Chan: chn, LogSize: 1 << 20, Base: base, Src: s.Kind, ForkAt: s.ForkAt, CurLen: s.CurLen, Trim: s.Trim,
							CpID: cp.ID, CpAt: cp.At, CacheID: ca.ID, CacheSnap: ca.Snap, CacheL: ca.L, CacheR: ca.R})
					}
				}
			}
		}
	}
	return out
}

// c06Seed selects the triples that get the deeper event sequences: one representative
// per (source kind, checkpoint class, cache class).
func c06Seed(s c06Scenario) bool {
	if s.LogSize != 1<<20 || s.Trim != 0 || s.Base != "" {
		return false
	}
	switch {
	case s.CpID == "" && s.CacheID == "":
		return true
	case s.CpID == "A" && s.CpAt == 4 && s.CacheID == "":
		return true
	case s.CpID == "A" && s.CpAt == 6 && s.CacheID == "":
		return true
	case s.CpID == "A" && s.CpAt == 4 && s.CacheID == "A" && s.CacheL == 3 && s.CacheR == 5:
		return true
	case s.CpID == "A" && s.CpAt == 6 && s.CacheID == "A" && !s.CacheSnap && s.CacheL == 3 && s.CacheR == 7:
		return true
	case s.CpID == "" && s.CacheID == "A" && s.CacheSnap && s.CacheL == 3:
		return true
	}
	return false
}

func c06Sequences(alpha []string, depth int) [][]string {
	out := [][]string{nil}
	level := [][]string{nil}
	for d := 0; d < depth; d++ {
		var next [][]string
		for _, p := range level {
			for _, a := range alpha {
				q := append(append([]string(nil), p...), a)
				next = append(next, q)
			}
		}
		out = append(out, next...)
		level = next
	}
	return out
}

type c06Family struct {
	tr   c06Scenario
	seqs [][]string
}

func c06WithEvent(alpha []string, ev string) [][]string {
	var out [][]string
	for _, a := range alpha {
		out = append(out, []string{ev, a}, []string{a, ev})
	}
	return out
}

func c06Histories(tier string) []c06Scenario {
	triples := c06Triples(tier)
	base := []string{"app", "drop", "fo", "foe", "trim", "rs"}
	wide := []string{"app", "drop", "rst", "fo", "foe", "trim", "rs", "new"}
	thorough := tier == "thorough"
	// event sequences, by length, for ordinary triples and for seed triples
	var plain, seed [][]string
	if thorough {
		plain = c06Sequences(wide, 1)
		seed = c06Sequences(wide, 2)
		for _, sq := range c06Sequences(base, 3) {
			if len(sq) == 3 {
				seed = append(seed, sq)
			}
		}
	} else {
		plain = c06Sequences(base, 1)
		seed = c06Sequences(base, 2)
	}
	var fams []c06Family
	for _, tr := range triples {
		if c06Seed(tr) {
			fams = append(fams, c06Family{tr, seed})
		} else {
			fams = append(fams, c06Family{tr, plain})
		}
	}
	// source unreachable for 2 s / 6 s (connection retries, run-loop exit, process restart)
	down1 := [][]string{{"down2"}, {"down6"}}
	down2 := c06WithEvent([]string{"app", "fo", "foe"}, "down6")
	if thorough {
		down2 = c06WithEvent(base, "down6")
		down2 = append(down2, c06WithEvent(base, "down2")...)
		down2 = append(down2, []string{"down6", "down6"}, []string{"down2", "down6"})
	}
	for _, tr := range triples {
		if tr.Trim != 0 || tr.LogSize != 1<<20 || (tr.Base != "" && !thorough) {
			continue
		}
		fams = append(fams, c06Family{tr, down1})
		if c06Seed(tr) {
			fams = append(fams, c06Family{tr, down2})
		}
	}
	// checksum verification of cached files (disk), two segment sizes
	for _, tr := range triples {
		if tr.Chan != "disk" || tr.Base != "" || tr.LogSize != 1<<20 {
			continue
		}
		isSeed := c06Seed(tr)
		if isSeed || (thorough && tr.Trim == 0) {
			for _, ls := range []int64{1 << 20, 100} {
				v := tr
				v.Crc, v.LogSize = true, ls
				switch {
				case isSeed && thorough && ls == 1<<20:
					fams = append(fams, c06Family{v, c06Sequences(wide, 2)})
				case isSeed:
					fams = append(fams, c06Family{v, plain})
				default:
					fams = append(fams, c06Family{v, [][]string{nil}})
				}
			}
		}
		// ... and a cached file altered on disk since it was written
		if tr.Trim == 0 && tr.CacheID != "" {
			seqs := [][]string{nil}
			if isSeed {
				seqs = plain
			}
			if tr.CacheR > tr.CacheL {
				v := tr
				v.Crc, v.Corrupt = true, "log"
				fams = append(fams, c06Family{v, seqs})
			}
			if tr.CacheSnap {
				v := tr
				v.Crc, v.Corrupt = true, "snap"
				fams = append(fams, c06Family{v, seqs})
			}
		}
	}
	// a master that takes seconds to produce the snapshot (heartbeats, late $<len>)
	for _, tr := range triples {
		if tr.LogSize != 1<<20 || tr.Trim != 0 {
			continue
		}
		switch {
		case c06Seed(tr) && !thorough:
			fams = append(fams, c06Family{c06Prep(tr), [][]string{nil, {"drop"}, {"foe"}, {"rs"}}})
		case c06Seed(tr):
			fams = append(fams, c06Family{c06Prep(tr), plain})
		case tr.Base != "" && tr.CpID == "" && tr.CacheID == "":
			fams = append(fams, c06Family{c06Prep(tr), [][]string{nil}})
		case thorough && tr.CacheID == "":
			fams = append(fams, c06Family{c06Prep(tr), plain})
		}
	}
	// the master takes writes while the snapshot is on its way: they sit in the socket
	// right behind the payload (one write), or the connection's writes are cut inside the
	// payload / exactly behind it / inside the first stream command
	for _, tr := range triples {
		if tr.LogSize != 1<<20 {
			continue
		}
		isSeed := c06Seed(tr)
		v := tr
		v.Burst = "one"
		switch {
		case isSeed:
			fams = append(fams, c06Family{v, plain})
		default:
			fams = append(fams, c06Family{v, [][]string{nil}})
		}
		if isSeed || (tr.CpID == "" && tr.CacheID == "") {
			for _, b := range []string{"inpay", "atend", "incmd"} {
				w := tr
				w.Burst = b
				if isSeed && thorough {
					fams = append(fams, c06Family{w, plain})
				} else {
					fams = append(fams, c06Family{w, [][]string{nil}})
				}
			}
		}
	}
	// the source is replaced by a master with a brand-new id and overlapping offsets, and
	// the attempt answered +FULLRESYNC is interrupted at every step of the checkpoint
	// re-keying (process stop / target unreachable / one failing request)
	var cuts [][]string
	for k := 0; k <= c06CutSteps; k++ {
		cuts = append(cuts, []string{fmt.Sprintf("new:s%d", k)}, []string{fmt.Sprintf("new:d%d", k)})
		if k > 0 {
			cuts = append(cuts, []string{fmt.Sprintf("new:e%d", k)})
		}
	}
	// ... also while the served snapshot is being loaded into the target (target outage at
	// a later request), and a snapshot transfer that dies in the middle of the payload
	var late [][]string
	for k := c06CutSteps + 2; k <= 40; k += 2 {
		late = append(late, []string{fmt.Sprintf("new:d%d", k)})
	}
	late = append(late, []string{"newp"}, []string{"newp", "app"})
	// resumeFromBreakPoint=false: the position lives in the process only. All in-process
	// reconnection kinds (+CONTINUE, +CONTINUE <new id>, +FULLRESYNC same / brand-new id,
	// interrupted attempts) with that configuration; a process restart then has no position
	for _, tr := range triples {
		if tr.Base != "" || tr.LogSize != 1<<20 || tr.Trim != 0 || tr.CpID != "" || !c06Seed(tr) {
			continue
		}
		v := tr
		v.NoResume = true
		seqs := append([][]string{}, c06Sequences(base, 2)...)
		seqs = append(seqs, []string{"new"}, []string{"rst"}, []string{"new", "drop"}, []string{"fo", "new"})
		if tr.Src != "new" {
			for _, c := range cuts {
				if c[0][4] != 's' || c[0] == "new:s8" || c[0] == "new:s16" {
					seqs = append(seqs, c)
				}
			}
			seqs = append(seqs, late...)
		}
		fams = append(fams, c06Family{v, seqs})
	}
	for _, tr := range triples {
		if c06Seed(tr) && tr.Src != "new" {
			fams = append(fams, c06Family{tr, late})
			fams = append(fams, c06Family{tr, cuts})
			if thorough && tr.Chan == "disk" {
				v := tr
				v.Crc = true
				fams = append(fams, c06Family{v, cuts})
			}
		}
	}
	fams = append(fams, c06SmallCacheFamilies(tier)...)
	fams = append(fams, c06DamagedSegmentFamilies(tier)...)
	var out []c06Scenario
	// breadth-first: all histories of length d before any of length d+1
	for d := 0; d <= 3; d++ {
		for _, f := range fams {
			for _, sq := range f.seqs {
				if len(sq) != d {
					continue
				}
				s := f.tr
				s.Events = sq
				out = append(out, s)
			}
		}
	}
	return out
}

// c06SmallCacheFamilies: caches that are smaller than what passes through them. Segment
// size one or two commands, MaxSize two to eight commands; the target's stored position
// lags inside the cached range at the start, the master is several commands ahead of the
// cache (the first +CONTINUE is followed by a burst larger than MaxSize). Events: the base
// events, a burst larger than the cache on the live connection (app6), the same burst with
// the connection lost / a fail-over / a process restart before the output's batch timer has
// forwarded any of it (bdrop, bfo, brs: an in-process reconnection with the target behind
// the cache's right edge and possibly behind its left edge), the burst and the connection
// loss while the target does not process requests (lag+drop), and for the disk cache a
// tick of its 30 s collector at a quiescent point (tick). Every history is also run with
// the input goroutine held behind one step of its n-th connection attempt - until the
// bytes behind the PSYNC reply have reached the new cache writer (burst), or until the
// collector's next tick has fired (tick, disk only) - so that the cache collects its head
// at every point of the (re)connection procedure: before the cache is validated, between
// the PSYNC reply and the creation of the reader that feeds the target, and behind it.
func c06SmallCacheFamilies(tier string) []c06Family {
	thorough := tier == "thorough"
	logSizes := []int64{32, 64}
	maxSizes := []int64{64, 128}
	srcs := []c06SrcSpec{{"same", 0, 12, 0}}
	cps := []c06CpSpec{{"A", 4}, {"A", 6}}
	caches := []c06CacheSpec{{"A", false, 3, 7}, {"A", true, 3, 7}}
	alpha := []string{"app", "app6", "drop", "fo", "rs", "bdrop", "bfo", "brs", "lag+drop"}
	ats := []int{1, 2}
	if thorough {
		logSizes = append(logSizes, 100)
		maxSizes = append(maxSizes, 256)
		srcs = append(srcs, c06SrcSpec{"fo", 7, 12, 0})
		cps = append(cps, c06CpSpec{"A", 3})
	}
	reconnects := func(sq []string) int {
		n := 0
		for _, ev := range sq {
			switch ev {
			case "app", "app6", "tick", "trim":
			default:
				n++
			}
		}
		return n
	}
	type hold struct{ site, what string }
	var fams []c06Family
	for _, chn := range []string{"disk", "mem"} {
		al := alpha
		holds := []hold{{"writer", "burst"}, {"reader", "burst"}}
		if chn == "disk" {
			al = append(append([]string(nil), alpha...), "tick")
			for _, site := range c06HoldSites {
				holds = append(holds, hold{site, "tick"})
			}
		}
		seqs1 := c06Sequences(al, 1)
		seqs2 := c06Sequences(al, 2)
		type combo struct {
			s  c06SrcSpec
			cp c06CpSpec
			ca c06CacheSpec
		}
		var combos []combo
		for _, s := range srcs {
			for _, cp := range cps {
				for _, ca := range caches {
					if c06Consistent(s, cp, ca) {
						combos = append(combos, combo{s, cp, ca})
					}
				}
			}
		}
		// a first connection that takes a snapshot larger than the cache (nothing stored, nothing cached)
		combos = append(combos, combo{c06SrcSpec{"new", 0, 8, 0}, c06CpSpec{"", 0}, c06CacheSpec{"", false, 0, 0}})
		for _, ls := range logSizes {
			for _, ms := range maxSizes {
				if ls > ms {
					continue // a segment larger than the whole cache
				}
				for _, cb := range combos {
					s, cp, ca := cb.s, cb.cp, cb.ca
					tr := c06Scenario{Chan: chn, LogSize: ls, MaxSize: ms, Src: s.Kind, ForkAt: s.ForkAt, CurLen: s.CurLen, Trim: s.Trim,
						CpID: cp.ID, CpAt: cp.At, CacheID: ca.ID, CacheSnap: ca.Snap, CacheL: ca.L, CacheR: ca.R}
					deep := thorough && ls == 32 && ms == 128 && s.Kind == "same"
					seqs, hseqs, hats := seqs1, seqs1, ats
					if deep {
						seqs = seqs2
					}
					if s.Kind == "new" && !thorough {
						seqs, hseqs, hats = [][]string{nil, {"drop"}, {"bdrop"}}, [][]string{nil}, []int{1}
					}
					fams = append(fams, c06Family{tr, seqs})
					for _, h := range holds {
						for _, at := range hats {
							var sel [][]string
							for _, sq := range hseqs {
								if reconnects(sq)+1 >= at {
									sel = append(sel, sq)
								}
							}
							v := tr
							v.Hold, v.HoldFor, v.HoldAt = h.site, h.what, at
							fams = append(fams, c06Family{v, sel})
						}
					}
				}
			}
		}
	}
	return fams
}

// c06DamagedSegmentFamilies: a verifying disk cache (VerifyCrc) whose log consists of several
// segments (written command by command, segment size one or two commands, no size limit),
// one of which - ANY of them, not only the one the reader is opened in - fails verification:
// one byte altered, or left without its final header by a process that was killed while
// writing it (later segments: what the next incarnation appended). The target's stored
// position takes every command boundary of the cached range, so the damaged segment is
// the one the reader is opened in, an earlier one (never read), or a later one (reached
// by the reader when it moves from one segment to the next, while it is feeding the target).
// The master is at the cache's end or four commands ahead. Oracle: unchanged (every
// connection continues gap-free from the target's position or brings a snapshot, no
// altered byte reaches the target, the target catches up within the horizon).
func c06DamagedSegmentFamilies(tier string) []c06Family {
	thorough := tier == "thorough"
	logSizes := []int64{32, 64}
	srcs := []c06SrcSpec{{"same", 0, 8, 0}, {"same", 0, 12, 0}}
	caches := []c06CacheSpec{{"A", false, 2, 8}, {"A", true, 2, 8}}
	short := [][]string{{"app"}, {"drop"}, {"fo"}, {"rs"}}
	if thorough {
		logSizes = append(logSizes, 100)
		srcs = append(srcs, c06SrcSpec{"fo", 8, 12, 0}, c06SrcSpec{"same", 0, 12, 3})
		caches = append(caches, c06CacheSpec{"A", false, 0, 8}, c06CacheSpec{"A", true, 4, 8})
		short = c06Sequences([]string{"app", "drop", "fo", "foe", "trim", "rs"}, 1)[1:]
	}
	var fams []c06Family
	for _, ls := range logSizes {
		for _, s := range srcs {
			for _, ca := range caches {
				nseg := (ca.R - ca.L + c06CmdsPerSegment(ls) - 1) / c06CmdsPerSegment(ls)
				hi := ca.R - 1
				if thorough {
					hi = ca.R // the position at the cache's right edge: nothing cached is read
				}
				for at := ca.L; at <= hi; at++ {
					cp := c06CpSpec{"A", at}
					if !c06Consistent(s, cp, ca) {
						continue
					}
					tr := c06Scenario{Chan: "disk", LogSize: ls, Crc: true, CacheByCmd: true, Src: s.Kind, ForkAt: s.ForkAt, CurLen: s.CurLen, Trim: s.Trim,
						CpID: cp.ID, CpAt: cp.At, CacheID: ca.ID, CacheSnap: ca.Snap, CacheL: ca.L, CacheR: ca.R}
					// control: the same cache, every segment intact
					fams = append(fams, c06Family{tr, [][]string{nil}})
					for j := 0; j < nseg; j++ {
						for _, kind := range []string{"log", "open"} {
							v := tr
							v.Corrupt = fmt.Sprintf("%s:%d", kind, j)
							seqs := [][]string{nil}
							if thorough || (s.CurLen == 8 && !ca.Snap && (at-ca.L)%3 == 0) {
								seqs = append(seqs, short...)
							}
							fams = append(fams, c06Family{v, seqs})
						}
					}
				}
			}
		}
	}
	return fams
}

// c06CmdsPerSegment: the cache writer closes a segment once header + data exceed LogSize.
func c06CmdsPerSegment(logSize int64) int {
	const header = 16
	n := 1
	for header+int64(n)*sourced.CmdLen <= logSize {
		n++
	}
	return n
}

// c06DamageIsLater: the damaged segment of a "log:<j>" / "open:<j>" scenario lies behind the
// segment that holds the target's stored position.
func c06DamageIsLater(scn c06Scenario) bool {
	i := strings.IndexByte(scn.Corrupt, ':')
	if i < 0 || scn.CpID != scn.CacheID || scn.CpAt < scn.CacheL || scn.CpAt >= scn.CacheR {
		return false
	}
	j, err := strconv.Atoi(scn.Corrupt[i+1:])
	if err != nil {
		return false
	}
	return j > (scn.CpAt-scn.CacheL)/c06CmdsPerSegment(scn.LogSize)
}

func c06Prep(tr c06Scenario) c06Scenario {
	tr.Prep = true
	return tr
}

func runC06(t *testing.T, rep *mc.Reporter) {
	shard, nshards := mc.ShardOf()
	tier := mc.Tier()
	budget := &mc.Budget{Deadline: mc.DeadlineFromEnv()}
	scratch := os.Getenv("VERIF_SCRATCH")
	if scratch == "" {
		scratch = t.TempDir()
	}
	// The cache directories live on tmpfs when there is one: on the shared ext4 volume an
	// fsync or rename takes milliseconds under load, the Go runtime then hands the
	// processor to another goroutine of the tool, and which of two goroutines that the
	// tool started at the same instant gets ahead is no longer decided by the bubble.
	if st, err := os.Stat("/dev/shm"); err == nil && st.IsDir() {
		if old, _ := filepath.Glob("/dev/shm/verif-c06-*"); len(old) > 0 {
			for _, d := range old { // leftovers of killed runs
				if fi, err := os.Stat(d); err == nil && time.Since(fi.ModTime()) > time.Hour {
					os.RemoveAll(d)
				}
			}
		}
		if d, err := os.MkdirTemp("/dev/shm", "verif-c06-"); err == nil {
			scratch = d
			defer os.RemoveAll(d)
		}
	}
	if rp, err := mc.LoadReplay(); err != nil {
		rep.Machinery("cannot load replay: "+err.Error(), nil)
		return
	} else if rp != nil {
		var scn c06Scenario
		if err := json.Unmarshal(rp.Scenario, &scn); err != nil {
			rep.Machinery("bad replay scenario: "+err.Error(), nil)
			return
		}
		rep.Exec(scn, nil, c06Exec(t, scn, scratch, 0))
		return
	}
	all := c06Histories(tier)
	if shard == 0 {
		seeds := 0
		trs := c06Triples(tier)
		for _, tr := range trs {
			if c06Seed(tr) {
				seeds++
			}
		}
		rep.Note(fmt.Sprintf("%d histories enumerated in tier %s (%d initial triples, %d of them seed triples with the longer event sequences)", len(all), tier, len(trs), seeds))
		present := c06SitesPresent()
		for _, site := range c06HoldSites {
			if !present[site] {
				rep.Note("the tree under test has no connection step of class " + site + " in " + c06InputSource + ": histories that hold the input goroutine there run without a hold")
			}
		}
	}
	done := 0
	seen := map[string]int{}
	only := os.Getenv("VERIF_C06_ONLY") // development aid: "small" = the small-cache families only
	for idx, scn := range all {
		if idx%nshards != shard {
			continue
		}
		if only == "small" && scn.MaxSize == 0 {
			continue
		}
		if only == "dseg" && !scn.CacheByCmd { // the damaged-segment families only
			continue
		}
		if budget.Expired() {
			break
		}
		rep.Scenario()
		if os.Getenv("VERIF_C06_DUMP") == "scn" { // development aid: which history is running
			fmt.Fprintf(os.Stderr, "SCN %s\n", scn)
		}
		res := c06Exec(t, scn, scratch, idx)
		if res.Verdict == "violation" {
			seen[res.Sig]++
		}
		if res.Verdict == "violation" && seen[res.Sig] <= 3 {
			// a violation must reproduce twice more, otherwise the harness is at fault (done
			// for the first three executions of every signature in this shard). On the
			// unchanged tree every history has exactly one execution; a CHANGED tool can
			// contain races of its own that no harness owns (which of two of its goroutines
			// gets past a file-system call first), so up to six re-runs are allowed to
			// produce the two reproductions, and diverging re-runs are counted.
			same, other, others := 0, "", 0
			var last mc.Result
			for k := 0; k < 6 && same < 2; k++ {
				r2 := c06Exec(t, scn, scratch, idx)
				if r2.Verdict == res.Verdict && r2.Sig == res.Sig {
					same++
				} else {
					if others > 0 && r2.Verdict+"/"+r2.Sig != other {
						other = "several"
					} else if others == 0 {
						other = r2.Verdict + "/" + r2.Sig
					}
					others++
					last = r2
				}
			}
			if others > 0 {
				rep.Count("violations_with_diverging_reruns", 1)
			}
			switch {
			case same >= 2:
			case same == 0 && others == 6 && other != "several" && last.Verdict == "ok":
				// the first execution was the odd one out: six identical executions say this
				// history is fine. Counted and noted, not reported as a violation.
				rep.Count("unreproducible_first_outcomes", 1)
				rep.Note(fmt.Sprintf("history %s: first execution gave %s, six re-runs gave ok", scn, res.Sig))
				res = last
			default:
				res = mc.Result{Verdict: "machinery", Clause: fmt.Sprintf("violation not reproducible: first=%s/%s, reproduced %d times in 6 re-runs, otherwise %s", res.Verdict, res.Sig, same, other), Detail: res.Detail}
			}
		}
		rep.Exec(scn, nil, res)
		if os.Getenv("VERIF_C06_DUMP") == "obs" {
			fmt.Fprintf(os.Stderr, "OBS %s %x %s\n", scn, res.Obs, c06LastObs)
		}
		if res.Verdict == "ok" {
			st := c06Last
			rep.Count("connections", int64(st.conns))
			rep.Count("psync_continue_granted", int64(st.cont))
			rep.Count("psync_fullresync", int64(st.full))
			rep.Count("psync_partial_refused", int64(st.refusedPartial))
			rep.Count("cached_snapshot_replays", int64(st.cachedSnap))
			rep.Count("served_snapshot_replays", int64(st.fullSnap))
			rep.Count("tool_starts", int64(st.starts))
			rep.Count("run_loop_exits", int64(st.exits))
			rep.Count("small_cache_histories", int64(st.small))
			rep.Count("connection_steps_held", int64(st.held))
			rep.Count("small_cache_connections_without_delivery", int64(st.empty))
		}
		rep.Count("states", 1)
		rep.Count("transitions", int64(len(scn.Events)+2))
		done++
	}
	if budget.Expired() {
		rep.Capped(fmt.Sprintf("deadline reached: shard %d executed %d of its share of %d histories (breadth-first order)", shard, done, len(all)))
	}
}

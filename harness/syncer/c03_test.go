package syncer

// C03 - a full sync reproduces the source snapshot's dataset on the target.
// Enumeration over (logical value x on-disk encoding x RDB version x expiry x replay
// configuration), database layouts, and values split into chunks (with the explorer
// letting time pass between two target requests). Harness: rdb_test.go.

import (
	"encoding/json"
	"fmt"
	"strings"
	"testing"

	"github.com/mgtv-tech/redis-GunYu/verifshim/mc"
	"github.com/mgtv-tech/redis-GunYu/verifshim/ref"
)

func init() { verifChecks["C03"] = runC03 }

const (
	c03MinVersion = 1
	c03MaxVersion = 13 // what Loader.Header accepts: 1..rdb.RdbVersion
	c03BigBulk    = 512 * 1024 * 1024
)

// c03PathCfgs: the three ways a value can travel.
func c03PathCfgs() []rdbCfg {
	return []rdbCfg{
		{Restore: true, BulkLen: c03BigBulk, Parallel: 1, DbMode: "id", Resume: true},  // opaque RESTORE
		{Restore: false, BulkLen: c03BigBulk, Parallel: 1, DbMode: "id", Resume: true}, // expansion into native commands
		{Restore: true, BulkLen: 48, Parallel: 1, DbMode: "id", Resume: false},         // RESTORE only for tiny values, expansion forced by max bulk length
	}
}

// c03LayoutEnc picks, for the multi-key layout scenarios, the encoding a writer of
// that RDB version would use for a small value of the type.
func c03LayoutEnc(t byte, version int) ref.RDBEnc {
	switch t {
	case 's':
		return ref.RDBEnc{Kind: "int"}
	case 'l':
		switch {
		case version < 6:
			return ref.RDBEnc{Kind: "ziplist", LegacyInts: true}
		case version < 7:
			return ref.RDBEnc{Kind: "ziplist"}
		case version < 10:
			return ref.RDBEnc{Kind: "quicklist", Node: 2}
		}
		return ref.RDBEnc{Kind: "quicklist2", Node: 2}
	case 'S':
		return ref.RDBEnc{Kind: "intset32"}
	case 'z':
		switch {
		case version < 6:
			return ref.RDBEnc{Kind: "ziplist", LegacyInts: true}
		case version < 10:
			return ref.RDBEnc{Kind: "ziplist"}
		}
		return ref.RDBEnc{Kind: "listpack"}
	case 'h':
		switch {
		case version < 4:
			return ref.RDBEnc{Kind: "zipmap"}
		case version < 6:
			return ref.RDBEnc{Kind: "ziplist", LegacyInts: true}
		case version < 10:
			return ref.RDBEnc{Kind: "ziplist"}
		}
		return ref.RDBEnc{Kind: "listpack"}
	case 'x':
		switch {
		case version < 10:
			return ref.RDBEnc{Kind: "v1"}
		case version < 11:
			return ref.RDBEnc{Kind: "v2"}
		}
		return ref.RDBEnc{Kind: "v3"}
	}
	return ref.RDBEnc{}
}

// c03Layout builds the multi-key dataset: two databases (or one), a key whose name is
// written with the integer encoding, a key filtered by prefix, a black-listed database.
func c03Layout(version int, twoDBs bool, expMode string, lru string, noStream bool) []rdbKeySpec {
	idle, freq := int64(-1), -1
	if version >= 9 {
		switch lru {
		case "idle":
			idle = 12345
		case "freq":
			freq = 200
		}
	}
	exp := func(i int) string {
		switch expMode {
		case "mixed":
			return []string{"", "future", "past", "futsec"}[i%4]
		case "none":
			return ""
		}
		return expMode
	}
	db2 := 0
	if twoDBs {
		db2 = 3
	}
	ks := []rdbKeySpec{
		{DB: 0, Key: "123", Case: "string/int:300", Enc: c03LayoutEnc('s', version), Exp: exp(0)},
		{DB: 0, Key: "list:a", Case: "list/small", Enc: c03LayoutEnc('l', version), Exp: exp(1)},
		{DB: 0, Key: rdbFltPrefix + "secret", Case: "string/short", Enc: ref.RDBEnc{Kind: "raw"}, Exp: exp(1)},
		{DB: 0, Key: "hash:a", Case: "hash/small", Enc: c03LayoutEnc('h', version), Exp: exp(2)},
		{DB: db2, Key: "zset:b", Case: "zset/small", Enc: c03LayoutEnc('z', version), Exp: exp(3)},
		{DB: db2, Key: "set:b", Case: "set/int32", Enc: c03LayoutEnc('S', version), Exp: exp(1)},
		{DB: db2, Key: "str:b", Case: "string/run60", Enc: ref.RDBEnc{Kind: "lzf"}, Exp: exp(0)},
		{DB: rdbBlackDB, Key: "black", Case: "string/short", Enc: ref.RDBEnc{Kind: "raw"}, Exp: exp(0)},
	}
	if version >= 9 && !noStream {
		ks = append(ks, rdbKeySpec{DB: db2, Key: "stream:b", Case: "stream/samefields", Enc: c03LayoutEnc('x', version), Exp: exp(1)})
	}
	for i := range ks {
		ks[i].Idle, ks[i].Freq = idle, freq
	}
	return ks
}

type c03Item struct {
	scn   rdbScenario
	bound int
}

// c03Enumerate calls f for every scenario of the tier, in a fixed order.
func c03Enumerate(tier string, f func(c03Item)) {
	thorough := tier == "thorough"
	one := func(k rdbKeySpec, version int, cfg rdbCfg, aux bool) rdbScenario {
		return rdbScenario{Keys: []rdbKeySpec{k}, Version: version, Aux: aux, Cfg: cfg}
	}
	// ---- plan A: every case x encoding x version x expiry x path
	exps := []string{"", "future", "past"}
	if thorough {
		exps = []string{"", "future", "past", "futsec", "pastsec"}
	}
	targetVers := []string{"4.0.0", "5.0.0", "6.2.0", "7.2.0"}
	for _, c := range ref.RDBCatalogue() {
		if c.Heavy && !thorough && c.Name != "string/len1048577" {
			continue // megabyte values: one in the quick tier, all in the thorough tier
		}
		for _, e := range c.Encs {
			vers, err := ref.RDBEncVersions(c.Val, e, c03MinVersion, c03MaxVersion)
			if err != nil {
				panic(err)
			}
			if c.Heavy {
				// values above the loader's 1 MiB read chunk: newest (thorough: also oldest) version, no expiry, RESTORE and expansion
				for vi, v := range vers {
					if vi != len(vers)-1 && !(thorough && vi == 0) {
						continue
					}
					for _, cfg := range c03PathCfgs()[:2] {
						k := rdbKeySpec{DB: 0, Key: "k:" + c.Name, Case: c.Name, Enc: e, Idle: -1, Freq: -1}
						f(c03Item{scn: one(k, v, cfg, v >= 7)})
					}
				}
				continue
			}
			if c.Core && len(vers) > 0 {
				// plan V: the target's version gates. Newest RDB version of the encoding (thorough: also the oldest)
				// x target version x expiry x {RESTORE, expansion}; a 4.0 target has no streams
				for vi, v := range vers {
					if vi != len(vers)-1 && !(thorough && vi == 0) {
						continue
					}
					for _, tv := range targetVers {
						if c.Val.Type == 'x' && tv == "4.0.0" {
							continue
						}
						for _, x := range []string{"", "future", "past"} {
							for _, cfg := range c03PathCfgs()[:2] {
								cfg.TargetVer = tv
								k := rdbKeySpec{DB: 0, Key: "k:" + c.Name, Case: c.Name, Enc: e, Exp: x, Idle: -1, Freq: -1}
								if v >= 9 && x == "future" {
									k.Idle = 9 // IDLETIME must not be sent to a target before 5.0
								}
								f(c03Item{scn: one(k, v, cfg, v >= 7)})
							}
						}
					}
				}
			}
			for _, v := range vers {
				xs := exps
				if c.Core {
					xs = append(append([]string(nil), exps...), "now") // expiry at the very millisecond of the replay
				}
				for _, x := range xs {
					for ci, cfg := range c03PathCfgs() {
						k := rdbKeySpec{DB: 0, Key: "k:" + c.Name, Case: c.Name, Enc: e, Exp: x, Idle: -1, Freq: -1}
						f(c03Item{scn: one(k, v, cfg, v >= 7)})
						if thorough && c.Core && ci < 2 {
							// file-level variations: no AUX fields, LZF key names, checksum disabled, LRU/LFU opcodes, other database
							if v >= 7 {
								f(c03Item{scn: one(k, v, cfg, false)})
							}
							s := one(k, v, cfg, v >= 7)
							s.ZeroCRC = v >= 5
							s.KeyLZF = v >= 2
							s.Keys[0].Key = "a-long-key-name-that-lzf-will-compress:" + c.Name
							s.Keys[0].DB = 3
							s.Cfg.DbMode = "map31"
							f(c03Item{scn: s})
							if v >= 9 {
								k2 := k
								k2.Idle = 7
								f(c03Item{scn: one(k2, v, cfg, true)})
								k2.Idle, k2.Freq = -1, 255
								f(c03Item{scn: one(k2, v, cfg, true)})
							}
						}
					}
				}
			}
		}
	}
	// ---- plan H: ReplaceHashTag - the first "{" and the first "}" of a key name are dropped on the target;
	// the value, its expiry and the policy-free replace handling must follow the rewritten name on every path
	for _, key := range []string{"{t}subj", "user{tag}", "order{42", "a}b{c", "plain"} {
		for _, cs := range []struct {
			c string
			e ref.RDBEnc
			v int
		}{{"string/short", ref.RDBEnc{Kind: "raw"}, 9}, {"hash/small", ref.RDBEnc{Kind: "listpack"}, 11}, {"list/small", ref.RDBEnc{Kind: "quicklist2", Node: 2}, 10}, {"stream/samefields", ref.RDBEnc{Kind: "v3"}, 11}} {
			for _, x := range []string{"", "future", "past"} {
				for _, restore := range []bool{true, false} {
					for _, bi := range []bool{false, true} {
						cfg := rdbCfg{Restore: restore, BulkLen: c03BigBulk, Parallel: 1, DbMode: "id", Resume: true, HashTag: true, Bisync: bi}
						k := rdbKeySpec{DB: 0, Key: key, Case: cs.c, Enc: cs.e, Exp: x, Idle: -1, Freq: -1}
						f(c03Item{scn: one(k, cs.v, cfg, true)})
					}
				}
			}
		}
	}
	// ---- plan B: database layouts x replay configurations
	versions := []int{6, 9, 11, 13}
	lrus := []string{"", "idle"}
	resumes := []bool{true}
	if thorough {
		versions = []int{2, 4, 5, 6, 7, 8, 9, 10, 11, 12, 13}
		lrus = []string{"", "idle", "freq"}
		resumes = []bool{true, false}
	}
	for _, v := range versions {
		for _, two := range []bool{false, true} {
			for _, xm := range []string{"none", "mixed"} {
				for _, lru := range lrus {
					if lru != "" && v < 9 {
						continue
					}
					for _, restore := range []bool{true, false} {
						for _, par := range []int{1, 2} {
							for _, dbm := range []string{"id", "map31", "all0"} {
								for _, res := range resumes {
									for _, bi := range []bool{false, true} {
										cfg := rdbCfg{Restore: restore, BulkLen: c03BigBulk, Parallel: par, DbMode: dbm, Resume: res, Bisync: bi}
										f(c03Item{scn: rdbScenario{Keys: c03Layout(v, two, xm, lru, false), Version: v, Aux: v >= 7, Cfg: cfg}})
										if lru != "" && (thorough || (dbm == "id" && par == 1)) {
											// LRU/LFU opcodes meet the target's version gate for RESTORE ... IDLETIME/FREQ
											for _, tv := range targetVers {
												c2 := cfg
												c2.TargetVer = tv
												f(c03Item{scn: rdbScenario{Keys: c03Layout(v, two, xm, lru, tv == "4.0.0"), Version: v, Aux: v >= 7, Cfg: c2}})
											}
										}
									}
								}
							}
						}
					}
				}
			}
		}
	}
	// ---- plan E: filters x database layouts. Three source databases (0, 1, 3), in each a
	// pattern of kept (K) and dropped (D) keys - dropped key first / last / in the middle,
	// every key of a database dropped, a whole database black-listed - x filter kind x
	// database map x restore on/off x 1/2 workers (with 2 workers three sets of key names,
	// because the worker of a key is FNV(key) mod 2). Exactly the kept keys must exist, each
	// in its mapped database, and nothing else anywhere.
	planE := func(pats [3]string, filter string, filterDB int, dbm string, restore bool, par, names int) {
		planE1(f, pats, filter, filterDB, dbm, restore, par, names, false)
		if par == 1 && names == 0 {
			// the bidirectional replay loop has its own copy of the filter / SELECT logic
			planE1(f, pats, filter, filterDB, dbm, restore, par, names, true)
		}
	}
	pat0 := []string{"KK", "DK", "KD", "DD"}
	pat1 := []string{"K", "DK", "KD", "DKK", "KDK", "DD"}
	pat3 := []string{"K", "DK", "KD", "DD"}
	for _, dbm := range []string{"id", "map1739", "all0"} {
		for _, restore := range []bool{true, false} {
			for _, par := range []int{1, 2} {
				nameSets := 1
				if par == 2 {
					nameSets = 3
				}
				for names := 0; names < nameSets; names++ {
					for _, filter := range []string{"prefix-black", "prefix-white", "slot-white"} {
						for _, p0 := range pat0 {
							for _, p1 := range pat1 {
								for _, p3 := range pat3 {
									if !thorough && par == 2 && names > 0 && (p0 == "KK" || p3 == "K") && p1 != "DKK" {
										continue
									}
									if filter == "slot-white" && !strings.Contains(p0+p1+p3, "K") {
										continue // no kept key = an empty white list = no filter at all
									}
									planE([3]string{p0, p1, p3}, filter, 0, dbm, restore, par, names)
								}
							}
						}
					}
					// a whole database black-listed: first, middle, last
					for _, bdb := range []int{0, 1, 3} {
						for _, size := range []string{"K", "KK"} {
							pats := [3]string{size, size, size}
							for di, d := range []int{0, 1, 3} {
								if d == bdb {
									pats[di] = map[string]string{"K": "D", "KK": "DD"}[size]
								}
							}
							planE(pats, "db-black", bdb, dbm, restore, par, names)
						}
					}
				}
			}
		}
	}
	// ---- plan C: values around the chunking threshold; one deviation = 2 ms pass before one target request
	thresholds := []int{64}
	bound := 1
	if thorough {
		thresholds = []int{64, 32}
		bound = 2
	}
	for _, th := range thresholds {
		for _, t := range []byte{'h', 'l', 'S', 'z'} {
			for n := 1; n <= 6; n++ {
				if t != 'h' && n != 1 && n != 3 && n != 6 {
					continue
				}
				name := fmt.Sprintf("chunk/%c/%d", t, n)
				c := ref.RDBCaseByName(name)
				vs := []int{8, 11}
				if t == 'l' { // a plain linked list is only written below RDB 7
					vs = []int{6}
				}
				for _, v := range vs {
					for _, x := range []string{"", "future", "past"} {
						for _, restore := range []bool{true, false} {
							for _, par := range []int{1, 2} {
								cfg := rdbCfg{Restore: restore, BulkLen: c03BigBulk, Parallel: par, DbMode: "id", Resume: par == 1}
								k := rdbKeySpec{DB: 0, Key: "big", Case: name, Enc: c.Encs[0], Exp: x, Idle: -1, Freq: -1}
								s := rdbScenario{Keys: []rdbKeySpec{k}, Version: v, Aux: v >= 7, Cfg: cfg, ChunkAt: th, Advance: par == 1}
								b := 0
								if par == 1 {
									b = bound
								}
								f(c03Item{scn: s, bound: b})
								if t == 'h' && (n == 4 || n == 6) && par == 1 {
									// the split value between two other keys: parser state must not leak into the next key
									s2 := s
									s2.Advance = false
									s2.Keys = []rdbKeySpec{
										{DB: 0, Key: "before", Case: "string/short", Enc: ref.RDBEnc{Kind: "raw"}, Exp: "future", Idle: -1, Freq: -1},
										k,
										{DB: 0, Key: "after", Case: "hash/small", Enc: ref.RDBEnc{Kind: "table"}, Exp: "", Idle: -1, Freq: -1},
										{DB: 3, Key: "after3", Case: "string/int:300", Enc: ref.RDBEnc{Kind: "int"}, Exp: "future", Idle: -1, Freq: -1},
									}
									f(c03Item{scn: s2})
								}
							}
						}
					}
				}
			}
		}
	}
	// ---- plan D: a hash of 65535 / 40000 small fields: the real ziplist header then
	// necessarily says zllen = 65535, and a listpack of 80000 elements says 65535
	for _, d := range []struct {
		name string
		enc  string
		v    int
	}{{"bighash/65535", "ziplist", 8}, {"bighash/40000", "listpack", 10}, {"bighash/32767", "ziplist", 9}} {
		for _, restore := range []bool{false, true} {
			if restore && !thorough {
				continue
			}
			k := rdbKeySpec{DB: 0, Key: "huge", Case: d.name, Enc: ref.RDBEnc{Kind: d.enc}, Idle: -1, Freq: -1}
			f(c03Item{scn: rdbScenario{Keys: []rdbKeySpec{k}, Version: d.v, Aux: true, Cfg: rdbCfg{Restore: restore, BulkLen: c03BigBulk, Parallel: 1, DbMode: "id", Resume: true}}})
		}
	}
}

// planE1 emits one scenario of plan E (filters x database layouts).
func planE1(f func(c03Item), pats [3]string, filter string, filterDB int, dbm string, restore bool, par, names int, bi bool) {
	dbs := [3]int{0, 1, 3}
	cases := []struct {
		c string
		e ref.RDBEnc
	}{{"string/short", ref.RDBEnc{Kind: "raw"}}, {"hash/small", ref.RDBEnc{Kind: "listpack"}}, {"list/small", ref.RDBEnc{Kind: "quicklist2", Node: 2}}}
	var keys []rdbKeySpec
	n := 0
	for di, pat := range pats {
		for i, ch := range pat {
			drop := ch == 'D'
			prefix := rdbKeepPrefix
			if drop {
				switch filter {
				case "prefix-black":
					prefix = rdbFltPrefix
				case "db-black":
					prefix = rdbKeepPrefix // dropped because of its database, not its name
				default:
					prefix = "drop:"
				}
			}
			cs := cases[n%len(cases)]
			n++
			name := fmt.Sprintf("%sd%d.%d%s", prefix, dbs[di], i, []string{"", "-x", "-yz"}[names])
			keys = append(keys, rdbKeySpec{DB: dbs[di], Key: name, Case: cs.c, Enc: cs.e, Idle: -1, Freq: -1, Drop: drop})
		}
	}
	cfg := rdbCfg{Restore: restore, BulkLen: c03BigBulk, Parallel: par, DbMode: dbm, Resume: true, Filter: filter, FilterDB: filterDB, Bisync: bi}
	f(c03Item{scn: rdbScenario{Keys: keys, Version: 11, Aux: true, Cfg: cfg}})
}

func runC03(t *testing.T, rep *mc.Reporter) {
	shard, nshards := mc.ShardOf()
	tier := mc.Tier()
	budget := &mc.Budget{Deadline: mc.DeadlineFromEnv()}

	if rp, err := mc.LoadReplay(); err != nil {
		rep.Machinery("cannot load replay: "+err.Error(), nil)
		return
	} else if rp != nil {
		var scn rdbScenario
		if err := json.Unmarshal(rp.Scenario, &scn); err != nil {
			rep.Machinery("bad replay scenario: "+err.Error(), nil)
			return
		}
		res := rdbExec(t, "C03", scn, mc.NewChooser(rp.Choices), nil)
		rep.Exec(scn, rp.Choices, res)
		return
	}
	idx := 0
	c03Enumerate(tier, func(it c03Item) {
		idx++
		if idx%nshards != shard || budget.Expired() {
			return
		}
		scn := it.scn
		mc.RunScenario(rep, scn, it.bound, budget, func(ch *mc.Chooser) mc.Result {
			r := rdbExec(t, "C03", scn, ch, nil)
			if r.Verdict == "ok" && r.Detail == rdbRefusedOlderTarget {
				rep.Count("reported_refusal_older_target", 1)
				r.Detail = nil
			}
			return r
		})
	})
	rep.Count("scenarios_enumerated", int64(idx)/int64(nshards))
	if budget.Expired() {
		rep.Capped("deadline reached before all scenarios were explored")
	}
}

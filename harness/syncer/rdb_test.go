package syncer

// H-rdb: the real RedisOutput.Send on a snapshot (ChannelReader with IsAof()=false):
// rdb.ParseRdb goroutine, distributor, replay workers, rdbrestore.Replay, RedisConn,
// against the redisd double, inside a synctest bubble. The target runs in Park mode:
// the harness processes every request itself, one at a time, so request order is
// deterministic even with several replay workers, and the explorer can let virtual
// time pass between two requests.
//
// Three separate layers so that C20 / C04 can reuse them:
//   rdbBuild   scenario -> RDB bytes + expected target content (from ref.GenRDB)
//   rdbRun     runs Send to completion (hooks for pre-population / faults)
//   rdbOracle  compares the target with the logical dataset

import (
	"context"
	"fmt"
	"math"
	"sort"
	"strings"
	"testing"
	"testing/synctest"
	"time"

	"github.com/mgtv-tech/redis-GunYu/config"
	"github.com/mgtv-tech/redis-GunYu/pkg/rdb"
	"github.com/mgtv-tech/redis-GunYu/verifshim/mc"
	"github.com/mgtv-tech/redis-GunYu/verifshim/redisd"
	"github.com/mgtv-tech/redis-GunYu/verifshim/ref"
	"github.com/mgtv-tech/redis-GunYu/verifshim/vnet"
	"github.com/mgtv-tech/redis-GunYu/verifshim/vsel"
	"github.com/mgtv-tech/redis-GunYu/verifshim/vtime"
)

const (
	rdbTarget     = "target:6379"
	rdbRunID      = "bbbbbbbbbbbbbbbbbbbbbbbbbbbbbbbbbbbbbbbb"
	rdbCpName     = "redis-gunyu-checkpoint"
	rdbBiCpName   = "redis-gunyu-checkpoint-bisync:verif0000000000000000rdb"
	rdbSnapOffset = int64(4242) // replication offset the snapshot stands for (reader.Left())
	rdbFltPrefix  = "flt:"      // key prefix black list
	rdbBlackDB    = 5           // database black list
	rdbDefaultMax = 16 * 1024 * 1024
)

// rdbKeySpec describes one snapshot key by names (JSON-able, replayable).
type rdbKeySpec struct {
	DB   int        `json:"db"`
	Key  string     `json:"key"`
	Case string     `json:"case"` // ref catalogue case name
	Enc  ref.RDBEnc `json:"enc"`
	Exp  string     `json:"exp"`            // "" none | "future" | "past" | "futsec" | "pastsec" (seconds opcode)
	Idle int64      `json:"idle"`           // < 0 absent
	Freq int        `json:"freq"`           // < 0 absent
	Drop bool       `json:"drop,omitempty"` // the scenario's author expects the configured filter to drop this key (cross-checked)
}

type rdbCfg struct {
	Restore        bool    `json:"restore"`                   // ReplayRdbEnableRestore
	BulkLen        int     `json:"bulklen"`                   // MaxProtoBulkLen
	Parallel       int     `json:"parallel"`                  // ReplayRdbParallel
	DbMode         string  `json:"dbmode"`                    // "id" | "map31" | "all0"
	Resume         bool    `json:"resume"`                    // EnableResumeFromBreakPoint (final checkpoint written to the target)
	Policy         string  `json:"policy,omitempty"`          // KeyExists: "" = replace | ignore | error
	Bisync         bool    `json:"bisync,omitempty"`          // bidirectional replay (rdbReplayBisync, one MULTI/EXEC unit per entry)
	PipeSize       int     `json:"pipesize,omitempty"`        // config.RdbPipeSize for this execution (0 = shipped value)
	Filter         string  `json:"filter,omitempty"`          // "" (db 5 + prefix flt: black-listed) | prefix-black | prefix-white | slot-white | db-black
	FilterDB       int     `json:"filterdb,omitempty"`        // the black-listed database of Filter db-black
	TargetVer      string  `json:"targetver,omitempty"`       // Redis.Version of the target; "" = 7.2.0 without version gating in the double (legacy scenarios)
	PolicyVerbatim *string `json:"policy_verbatim,omitempty"` // KeyExists exactly as the tool's configuration loader produced it (overrides Policy in the output configuration; Policy stays what the oracle judges)
	VerifyCrc      bool    `json:"verifycrc,omitempty"`       // the global channel.verifyCrc flag (config.GetSyncerConfig().Channel.VerifyCrc) during this execution
	HashTag        bool    `json:"hashtag,omitempty"`         // ReplaceHashTag: the first "{" and the first "}" of a key name are removed on the target
}

func (c rdbCfg) targetVer() string {
	if c.TargetVer == "" {
		return "7.2.0"
	}
	return c.TargetVer
}

// rdbVerGE compares "major.minor.patch" strings numerically on major.minor.
func rdbVerGE(v string, major, minor int) bool {
	var a, b int
	fmt.Sscanf(v, "%d.%d", &a, &b)
	return a > major || (a == major && b >= minor)
}

// targetKey is the name a snapshot key has on the target.
func (c rdbCfg) targetKey(key string) string {
	if !c.HashTag {
		return key
	}
	key = strings.Replace(key, "{", "", 1)
	return strings.Replace(key, "}", "", 1)
}

func (c rdbCfg) policy() string {
	if c.Policy == "" {
		return "replace"
	}
	return c.Policy
}

func (c rdbCfg) keyExistsForTool() string {
	if c.PolicyVerbatim != nil {
		return *c.PolicyVerbatim
	}
	return c.policy()
}

func (c rdbCfg) cpName() string {
	if c.Bisync {
		return rdbBiCpName
	}
	return rdbCpName
}

func (c rdbCfg) mapDB(db int) int {
	switch c.DbMode {
	case "map31":
		if db == 3 {
			return 1
		}
	case "map1739":
		switch db {
		case 1:
			return 7
		case 3:
			return 9
		}
	case "all0":
		return 0
	}
	return db
}

func (c rdbCfg) outputConfig() RedisOutputConfig {
	rc := config.RedisConfig{Addresses: []string{rdbTarget}, Type: config.RedisTypeStandalone, Otype: config.RedisTypeStandalone, Version: c.targetVer()}
	oc := RedisOutputConfig{
		ReplaceHashTag:             c.HashTag,
		InputName:                  "src",
		CheckpointName:             c.cpName(),
		RunId:                      rdbRunID,
		BisyncEnabled:              c.Bisync,
		CanTransaction:             c.Bisync,
		ReplayMode:                 config.ReplayModeSync,
		Redis:                      rc,
		EnableResumeFromBreakPoint: c.Resume,
		KeyExists:                  c.keyExistsForTool(),
		TargetDb:                   -1,
		MaxProtoBulkLen:            c.BulkLen,
		BatchCmdCount:              64,
		BatchTicker:                time.Second,
		BatchBufferSize:            1 << 20,
		KeepaliveTicker:            3 * time.Second,
		ReplayRdbParallel:          c.Parallel,
		ReplayRdbEnableRestore:     c.Restore,
		UpdateCheckpointTicker:     7 * time.Second,
		Stats:                      config.OutputStats{DisableLog: true},
		Filter: config.FilterConfig{
			DbBlacklist: []int{rdbBlackDB},
			KeyFilter:   &config.FilterKeyConfig{PrefixKeyBlacklist: []string{rdbFltPrefix}},
		},
	}
	switch c.DbMode {
	case "map31":
		oc.TargetDbMap = map[int]int{3: 1}
	case "map1739":
		oc.TargetDbMap = map[int]int{1: 7, 3: 9}
	case "all0":
		oc.TargetDb = 0
	}
	return oc
}

// Filter kinds of rdbCfg.Filter ("" = the fixed default: database 5 black-listed,
// key prefix "flt:" black-listed).
const (
	rdbKeepPrefix = "keep:"
)

// rdbFiltered is the reference evaluation of the configured filter for one snapshot key.
func (scn rdbScenario) rdbFiltered(db int, key string) bool {
	switch scn.Cfg.Filter {
	case "prefix-black":
		return strings.HasPrefix(key, rdbFltPrefix)
	case "prefix-white":
		return !strings.HasPrefix(key, rdbKeepPrefix)
	case "slot-white":
		for _, s := range scn.keptSlots() {
			if s == ref.HashSlotS(key) {
				return false
			}
		}
		return true
	case "db-black":
		return db == scn.Cfg.FilterDB
	}
	return db == rdbBlackDB || strings.HasPrefix(key, rdbFltPrefix)
}

// keptSlots: the white-listed slots of a slot-white scenario = slots of the keys not marked Drop.
func (scn rdbScenario) keptSlots() []int {
	seen := map[int]bool{}
	var out []int
	for _, k := range scn.Keys {
		if !k.Drop && !seen[ref.HashSlotS(k.Key)] {
			seen[ref.HashSlotS(k.Key)] = true
			out = append(out, ref.HashSlotS(k.Key))
		}
	}
	sort.Ints(out)
	return out
}

func (scn rdbScenario) outputConfig() RedisOutputConfig {
	oc := scn.Cfg.outputConfig()
	switch scn.Cfg.Filter {
	case "prefix-black":
		oc.Filter = config.FilterConfig{KeyFilter: &config.FilterKeyConfig{PrefixKeyBlacklist: []string{rdbFltPrefix}}}
	case "prefix-white":
		oc.Filter = config.FilterConfig{KeyFilter: &config.FilterKeyConfig{PrefixKeyWhitelist: []string{rdbKeepPrefix}}}
	case "slot-white":
		var ranges config.DoubleSliceUint16
		for _, s := range scn.keptSlots() {
			ranges = append(ranges, []uint16{uint16(s), uint16(s)})
		}
		oc.Filter = config.FilterConfig{SlotFilter: &config.FilterSlotConfig{KeySlotWhitelist: ranges}}
	case "db-black":
		oc.Filter = config.FilterConfig{DbBlacklist: []int{scn.Cfg.FilterDB}}
	}
	return oc
}

type rdbScenario struct {
	Keys    []rdbKeySpec `json:"keys"`
	Version int          `json:"version"`
	Aux     bool         `json:"aux"`
	KeyLZF  bool         `json:"keylzf,omitempty"`
	ZeroCRC bool         `json:"zerocrc,omitempty"`
	Cfg     rdbCfg       `json:"cfg"`
	ChunkAt int          `json:"chunk_at"` // maxBinEntryBuffer for this execution (0 = the shipped 16 MiB)
	Advance bool         `json:"advance"`  // explorer may let 2 ms pass before any one target request
}

// rdbExpect is what the oracle wants to find for one snapshot key.
type rdbExpect struct {
	Spec      rdbKeySpec
	Case      *ref.RDBCase
	Filtered  bool
	TargetDB  int
	TargetKey string        // name on the target (differs from Spec.Key with ReplaceHashTag)
	Value     *redisd.Value // content (ExpireAt = source's absolute expiry, 0 = none)
	Body      []byte        // serialized value bytes a RESTORE payload must carry
	Past      bool
}

type rdbBuilt struct {
	File     []byte
	Expect   []*rdbExpect
	ByKey    map[string]*rdbExpect
	ByTarget map[string]*rdbExpect // by name on the target
	Allow    map[string]bool       // "<db>/<key>" the target may hold besides the snapshot's keys (pre-populated by a check)
	TypeAt   []int                 // file offsets of the value type bytes, in file order
}

var rdbCaseCache = map[string]*ref.RDBCase{}

func rdbCase(name string) *ref.RDBCase {
	if c, ok := rdbCaseCache[name]; ok {
		return c
	}
	c := ref.RDBCaseByName(name)
	rdbCaseCache[name] = c
	return c
}

func rdbSID(id ref.SID) redisd.StreamID { return redisd.StreamID{Ms: id.Ms, Seq: id.Seq} }

// rdbToValue converts a logical value of the generator into the double's value model.
// streamVer is the stream encoding version (1..4): a v1 dump carries no first-id /
// max-deleted-id / entries-added, Redis derives entries-added = length on load.
func rdbToValue(v *ref.RValue, streamVer int) *redisd.Value {
	out := &redisd.Value{}
	switch v.Type {
	case 's':
		out.T, out.Str = 's', append([]byte{}, v.Str...)
	case 'l':
		out.T = 'l'
		for _, e := range v.List {
			out.List = append(out.List, append([]byte{}, e...))
		}
	case 'S':
		out.T, out.Set = 'S', map[string]struct{}{}
		for _, e := range v.Set {
			out.Set[string(e)] = struct{}{}
		}
	case 'z':
		out.T, out.ZSet = 'z', map[string]float64{}
		for _, m := range v.ZSet {
			out.ZSet[string(m.Member)] = m.Score
		}
	case 'h':
		out.T, out.Hash = 'h', map[string][]byte{}
		for _, f := range v.Hash {
			out.Hash[string(f.Field)] = append([]byte{}, f.Value...)
			out.HOrder = append(out.HOrder, string(f.Field))
		}
	case 'x':
		s := v.Stream
		st := &redisd.Stream{LastID: rdbSID(s.LastID), FirstID: rdbSID(s.FirstID), MaxDelID: rdbSID(s.MaxDeletedID), Added: int64(s.EntriesAdded), HasXSetID: true}
		for _, e := range s.Live() {
			st.Entries = append(st.Entries, redisd.StreamEntry{ID: rdbSID(e.ID), Fields: e.Fields})
		}
		if streamVer < 2 {
			st.Added, st.MaxDelID, st.FirstID = int64(len(st.Entries)), redisd.StreamID{}, redisd.StreamID{}
		}
		for _, g := range s.Groups {
			ng := &redisd.Group{Name: string(g.Name), LastID: rdbSID(g.LastID), EntriesRd: int64(g.EntriesRead)}
			if streamVer < 2 {
				ng.EntriesRd = rdbEntriesReadNotCarried
			}
			for _, c := range g.Consumers {
				ng.Consumers = append(ng.Consumers, string(c.Name))
			}
			for _, p := range g.PEL {
				ng.PEL = append(ng.PEL, redisd.PEL{ID: rdbSID(p.ID), Consumer: p.Consumer, Time: p.DeliveryTime, Count: int64(p.DeliveryCount)})
			}
			st.Groups = append(st.Groups, ng)
		}
		out.T, out.Stream = 'x', st
	}
	return out
}

func rdbStreamVer(enc ref.RDBEnc) int {
	switch enc.Kind {
	case "v1":
		return 1
	case "v2":
		return 2
	case "v3":
		return 3
	case "v4":
		return 4
	}
	return 0
}

// rdbBuild generates the snapshot. now is the virtual clock (ms) at the start of the
// execution; expiries are placed relative to it.
func rdbBuild(scn rdbScenario, now int64) (*rdbBuilt, error) {
	var keys []ref.RDBKey
	b := &rdbBuilt{ByKey: map[string]*rdbExpect{}, ByTarget: map[string]*rdbExpect{}}
	for _, k := range scn.Keys {
		c := rdbCase(k.Case)
		if c == nil {
			return nil, fmt.Errorf("unknown case %q", k.Case)
		}
		var at int64
		sec := false
		switch k.Exp {
		case "future":
			at = now + 100003
		case "past":
			at = now - 5003
		case "futsec":
			at, sec = (now/1000+100)*1000, true
		case "pastsec":
			at, sec = (now/1000-5)*1000, true
		case "now":
			at = now // expires at the very millisecond the replay runs
		case "":
		default:
			return nil, fmt.Errorf("unknown expiry mode %q", k.Exp)
		}
		if scn.Version < 3 && at != 0 {
			at, sec = at/1000*1000, true
		}
		keys = append(keys, ref.RDBKey{DB: k.DB, Key: []byte(k.Key), Val: c.Val, Enc: k.Enc, ExpireAtMs: at, ExpireSec: sec, Idle: k.Idle, Freq: k.Freq})
		val := rdbToValue(c.Val, rdbStreamVer(k.Enc))
		val.ExpireAt = at
		e := &rdbExpect{Spec: k, Case: c, TargetDB: scn.Cfg.mapDB(k.DB), TargetKey: scn.Cfg.targetKey(k.Key), Value: val, Past: at != 0 && at <= now,
			Filtered: scn.rdbFiltered(k.DB, k.Key)}
		if scn.Cfg.Filter != "" && e.Filtered != k.Drop {
			return nil, fmt.Errorf("key %q: scenario says drop=%v but the reference filter evaluation says %v", k.Key, k.Drop, e.Filtered)
		}
		b.Expect = append(b.Expect, e)
		if _, dup := b.ByKey[k.Key]; dup {
			return nil, fmt.Errorf("key name %q used twice in one scenario", k.Key)
		}
		b.ByKey[k.Key] = e
		if _, dup := b.ByTarget[e.TargetKey]; dup {
			return nil, fmt.Errorf("target key name %q used twice in one scenario", e.TargetKey)
		}
		b.ByTarget[e.TargetKey] = e
	}
	g, err := ref.GenRDB(ref.RDBFileOpt{Version: scn.Version, Aux: scn.Aux, ZeroCRC: scn.ZeroCRC, KeyStr: ref.StrOpt{LZF: scn.KeyLZF}}, keys)
	if err != nil {
		return nil, err
	}
	b.File = g.File
	for _, v := range g.Values {
		b.ByKey[string(v.Key)].Body = v.Body
		b.TypeAt = append(b.TypeAt, v.TypeAt)
	}
	return b, nil
}

// rdbHooks let other checks intervene without copying the driver.
type rdbHooks struct {
	Prepare   func(srv *redisd.Server)                         // before Send starts (pre-population, fault plan)
	BeforeReq func(srv *redisd.Server, idx int, argv [][]byte) // before request idx (0-based, global) is processed
	Feed      func(g *gate, file []byte)                       // how the bytes reach the reader (default: all, then EOF)
	OnStart   func(cancel context.CancelFunc)                  // receives the cancel function of the replay context
	Picker    vsel.Picker                                      // decides rewritten selects with several ready cases (builds with the select transform)
	MaxReq    int                                              // give up (Runaway) after this many target requests (0 = 300000)
	Preempt   *preemptCtl                                      // preemption plan (builds with the yield transform): armed while Send runs, settle() replaces synctest.Wait()
	NoPark    bool                                             // the target answers every request at once (it keeps up with the parser) instead of being stepped at quiescence
	OutputCfg func(oc RedisOutputConfig) RedisOutputConfig     // last word on the output configuration (C10: arbitrary filter / database mapping)
}

type rdbOutcome struct {
	Srv       *redisd.Server
	Ended     bool
	Err       error
	Stalls    int   // times the driver had to let a whole virtual second pass because nothing was runnable
	Advanced  int64 // virtual ms that passed while Send was running
	Requests  int
	Events    int
	StartMs   int64
	EndMs     int64
	Output    *RedisOutput
	LeakCheck string
	Runaway   bool // the request cap was hit: the driver killed the connections and cancelled
}

// rdbRun runs one Send to completion inside the current bubble.
func rdbRun(scn rdbScenario, built *rdbBuilt, ch *mc.Chooser, hooks *rdbHooks) *rdbOutcome {
	vnet.Reset()
	srv := redisd.New(rdbTarget)
	for _, e := range built.Expect {
		srv.RegisterRestorable(e.Body, e.Value)
	}
	max := scn.ChunkAt
	if max <= 0 {
		max = rdbDefaultMax
	}
	old := rdb.VerifSetMaxBinEntryBuffer(max)
	defer rdb.VerifSetMaxBinEntryBuffer(old)
	if scn.Cfg.PipeSize > 0 {
		oldPipe := config.RdbPipeSize
		config.RdbPipeSize = scn.Cfg.PipeSize
		defer func() { config.RdbPipeSize = oldPipe }()
	}
	{
		// channel.verifyCrc is a process-wide setting the replay may look at; the harness reader
		// stands for a snapshot that is replayed while its transfer is still running, i.e. nothing
		// upstream has verified the file, whatever the flag says
		gc := config.GetSyncerConfig()
		oldCh := gc.Channel
		ch := &config.ChannelConfig{}
		if oldCh != nil {
			ch = oldCh.Clone()
		}
		ch.VerifyCrc = scn.Cfg.VerifyCrc
		gc.Channel = ch
		defer func() { gc.Channel = oldCh }()
	}
	vtime.Reset()
	vsel.SetPicker(nil)
	if hooks != nil && hooks.Picker != nil {
		vsel.SetPicker(hooks.Picker)
		defer vsel.SetPicker(nil)
	}
	// RESTORE of a value type the target's version does not know: a server looks at the key first (BUSYKEY
	// when it exists and REPLACE is not given) and at the payload second ("Bad data format"). Whether the key
	// exists is looked up by the driver just before it lets the request through (gateBad), the refusal itself
	// is issued when the command executes (possibly inside EXEC).
	gateBad := map[string]bool{}
	connDB := map[int]int{}
	if scn.Cfg.TargetVer != "" {
		srv.Version = scn.Cfg.TargetVer
		srv.Extra = rdbVersionGate(scn.Cfg.TargetVer, gateBad)
	}
	if hooks != nil && hooks.Prepare != nil {
		hooks.Prepare(srv)
	}
	srv.PlanRef().Park = hooks == nil || !hooks.NoPark

	out := &rdbOutcome{Srv: srv, StartMs: time.Now().UnixMilli()}
	oc := scn.outputConfig()
	if hooks != nil && hooks.OutputCfg != nil {
		oc = hooks.OutputCfg(oc)
	}
	ro := NewRedisOutput(oc)
	out.Output = ro
	g := newGate()
	if hooks != nil && hooks.Feed != nil {
		hooks.Feed(g, built.File)
	} else {
		g.Release(built.File)
		g.Close(nil)
	}
	ctx, cancel := context.WithCancel(context.Background())
	defer cancel()
	if hooks != nil && hooks.OnStart != nil {
		hooks.OnStart(cancel)
	}
	done := make(chan error, 1)
	rd := newHReader(g, rdbRunID, rdbSnapOffset, int64(len(built.File)), false)
	wait := synctest.Wait
	if hooks != nil && hooks.Preempt != nil {
		hooks.Preempt.armed = true
		wait = hooks.Preempt.settle
		defer func() { hooks.Preempt.armed = false }()
	}
	go func() { done <- ro.Send(ctx, rd) }()

	idx := 0
	maxReq := 300000
	if hooks != nil && hooks.MaxReq > 0 {
		maxReq = hooks.MaxReq
	}
	for {
		wait()
		select {
		case err := <-done:
			out.Ended, out.Err = true, err
		default:
		}
		if out.Ended {
			break
		}
		if idx > maxReq && !out.Runaway {
			out.Runaway = true
			cancel()
			srv.KillConns()
			continue
		}
		conns := rdbCanonConns(srv)
		if len(conns) == 0 {
			// nothing to do for the target and Send has not returned: only a timer can
			// wake the tool up. Let one virtual second pass, give up after a minute.
			out.Stalls++
			if out.Stalls > 60 {
				break
			}
			time.Sleep(time.Second)
			continue
		}
		for _, c := range conns {
			for {
				argv := srv.PeekParked(c)
				if argv == nil || out.Ended {
					break
				}
				if scn.Advance && ch != nil {
					if ch.Choose(fmt.Sprintf("adv%d", idx), 2) == 1 {
						time.Sleep(2 * time.Millisecond)
					}
				}
				if len(argv) > 1 && strings.EqualFold(string(argv[0]), "select") {
					var n int
					if _, err := fmt.Sscanf(string(argv[1]), "%d", &n); err == nil {
						connDB[c] = n
					}
				}
				if scn.Cfg.TargetVer != "" && len(argv) > 3 && strings.EqualFold(string(argv[0]), "restore") && len(argv[3]) > 0 && !rdbKnownType(scn.Cfg.TargetVer, argv[3][0]) {
					replace := false
					for _, a := range argv[4:] {
						if strings.EqualFold(string(a), "REPLACE") {
							replace = true
						}
					}
					if replace || srv.Get(connDB[c], string(argv[1])) == nil {
						gateBad[string(argv[1])] = true
					}
				}
				if hooks != nil && hooks.BeforeReq != nil {
					hooks.BeforeReq(srv, idx, argv)
				}
				srv.Step(c, 1)
				idx++
				out.Events++
			}
		}
	}
	out.Requests = idx
	out.EndMs = time.Now().UnixMilli()
	out.Advanced = out.EndMs - out.StartMs
	if !out.Ended {
		// unblock whatever is left so that the bubble can end
		cancel()
		g.Close(nil)
		srv.PlanRef().Park = false
		srv.Unpark()
		srv.KillConns()
		time.Sleep(time.Minute)
		wait()
		select {
		case err := <-done:
			out.Err = err
		default:
			out.LeakCheck = "Send did not return even after cancellation"
		}
	}
	srv.PlanRef().Park = false
	srv.Unpark()
	return out
}

// rdbVersionGate makes the double behave like a server of the given version where the tool's
// own version gates matter: RESTORE knows IDLETIME/FREQ from 5.0 and only the value type codes
// of its own RDB version (an unknown one is "Bad data format"), streams exist from 5.0, XSETID
// takes ENTRIESADDED/MAXDELETEDID and XGROUP CREATE takes ENTRIESREAD from 7.0, FUNCTION
// exists from 7.0. Everything else falls through to the double.
func rdbKnownType(ver string, t byte) bool {
	switch {
	case t <= 7 || (t >= 9 && t <= 14):
		return true
	case t == 15:
		return rdbVerGE(ver, 5, 0)
	case t >= 16 && t <= 19:
		return rdbVerGE(ver, 7, 0)
	case t == 20 || t == 21:
		return rdbVerGE(ver, 7, 2)
	}
	return false
}

func rdbVersionGate(ver string, bad map[string]bool) func(s *redisd.Server, cs *redisd.ConnState, argv [][]byte) []byte {
	errReply := func(msg string) []byte { return []byte("-" + msg + "\r\n") }
	return func(s *redisd.Server, cs *redisd.ConnState, argv [][]byte) []byte {
		name := strings.ToLower(string(argv[0]))
		switch name {
		case "restore":
			for _, a := range argv[4:] {
				o := strings.ToUpper(string(a))
				if (o == "IDLETIME" || o == "FREQ" || o == "ABSTTL") && !rdbVerGE(ver, 5, 0) {
					return errReply("ERR syntax error")
				}
			}
			if len(argv) > 1 && bad[string(argv[1])] {
				delete(bad, string(argv[1]))
				return errReply("ERR Bad data format")
			}
		case "xadd", "xsetid", "xgroup", "xclaim":
			if !rdbVerGE(ver, 5, 0) {
				return errReply("ERR unknown command '" + name + "'")
			}
			if name == "xsetid" && len(argv) > 3 && !rdbVerGE(ver, 7, 0) {
				return errReply("ERR wrong number of arguments for 'xsetid' command")
			}
			if name == "xgroup" && !rdbVerGE(ver, 7, 0) {
				for _, a := range argv[1:] {
					if strings.ToUpper(string(a)) == "ENTRIESREAD" {
						return errReply("ERR syntax error")
					}
				}
			}
		case "function":
			if !rdbVerGE(ver, 7, 0) {
				return errReply("ERR unknown command 'function'")
			}
		}
		return nil
	}
}

// rdbCanonConns orders the connections that have parked requests by their head
// request (connection ids depend on which worker dialled first, the head request does
// not; equal heads are interchangeable).
func rdbCanonConns(srv *redisd.Server) []int {
	conns := srv.ParkedConns()
	if len(conns) < 2 {
		return conns
	}
	head := map[int]string{}
	for _, c := range conns {
		var sb strings.Builder
		for _, a := range srv.PeekParked(c) {
			fmt.Fprintf(&sb, "%d:%s ", len(a), a)
		}
		head[c] = sb.String()
	}
	sort.SliceStable(conns, func(i, j int) bool { return head[conns[i]] < head[conns[j]] })
	return conns
}

// ---------------------------------------------------------------------------
// oracle

func rdbScore(f float64) string {
	if math.IsInf(f, 1) {
		return "+inf"
	}
	if math.IsInf(f, -1) {
		return "-inf"
	}
	return fmt.Sprintf("%x", math.Float64bits(f))
}

// rdbCanon renders what the property compares. For streams only what the expansion
// commands XADD / XSETID / XGROUP CREATE / XCLAIM can carry is rendered: pending
// entries whose ID is no longer in the stream cannot be claimed (Redis drops them in
// XCLAIM ... FORCE), and a consumer exists on the target only if something was claimed
// for it.
func rdbCanon(v *redisd.Value) []string {
	var out []string
	if v == nil {
		return []string{"<absent>"}
	}
	out = append(out, "type="+redisd.TypeName(v.T))
	switch v.T {
	case 's':
		out = append(out, fmt.Sprintf("%q", v.Str))
	case 'l':
		for i, e := range v.List {
			out = append(out, fmt.Sprintf("[%d]%q", i, e))
		}
	case 'S':
		for k := range v.Set {
			out = append(out, fmt.Sprintf("%q", k))
		}
		sort.Strings(out[1:])
	case 'z':
		for k, s := range v.ZSet {
			out = append(out, fmt.Sprintf("%q=%s", k, rdbScore(s)))
		}
		sort.Strings(out[1:])
	case 'h':
		for k, s := range v.Hash {
			out = append(out, fmt.Sprintf("%q=%q", k, s))
		}
		sort.Strings(out[1:])
	case 'x':
		st := v.Stream
		live := map[redisd.StreamID]bool{}
		for _, e := range st.Entries {
			live[e.ID] = true
			var fs []string
			for _, f := range e.Fields {
				fs = append(fs, fmt.Sprintf("%q", f))
			}
			out = append(out, "entry "+e.ID.String()+" "+strings.Join(fs, " "))
		}
		out = append(out, "last-id "+st.LastID.String(), fmt.Sprintf("entries-added %d", st.Added), "max-deleted-id "+st.MaxDelID.String())
		gs := append([]*redisd.Group(nil), st.Groups...)
		sort.Slice(gs, func(i, j int) bool { return gs[i].Name < gs[j].Name })
		for _, g := range gs {
			line := fmt.Sprintf("group %q last-delivered %s", g.Name, g.LastID)
			if g.EntriesRd >= 0 {
				line += fmt.Sprintf(" entries-read %d", g.EntriesRd)
			}
			out = append(out, line)
			pel := append([]redisd.PEL(nil), g.PEL...)
			sort.Slice(pel, func(i, j int) bool { return pel[i].ID.Less(pel[j].ID) })
			for _, p := range pel {
				if live[p.ID] {
					out = append(out, fmt.Sprintf("group %q pending %s consumer %q time %d count %d", g.Name, p.ID, p.Consumer, p.Time, p.Count))
				}
			}
		}
	case 'm':
		out = append(out, v.Opaque)
	}
	return out
}

// rdbEntriesReadNotCarried marks, in an expected value, a group of a v1 stream dump: the dump
// has no entries-read counter at all (the reader estimates one). It is different from -1
// (SCG_INVALID_ENTRIES_READ), which a v2+ dump carries as a value of its own.
const rdbEntriesReadNotCarried = -2

// rdbNormalise drops from got what the source dump did not carry: a v1 stream dump has
// no entries-read counters (the loader of the target estimates them). A v2+ dump carries the
// counter, and -1 ("unknown", what XGROUP CREATE without ENTRIESREAD leaves and what Redis keeps
// for groups of a fragmented stream) is a value like any other: a faithful copy has -1 on the
// target as well (XGROUP CREATE ... ENTRIESREAD -1, or the option left out - both store -1), so
// that the target's XINFO/lag answers are the source's; it is compared strictly.
func rdbNormalise(want, got *redisd.Value, pre7 bool) {
	if want.T != 'x' || got.T != 'x' || want.Stream == nil || got.Stream == nil {
		return
	}
	if pre7 {
		// a target before 7.0 has no entries-added / max-deleted-id / entries-read: XSETID key id and
		// XGROUP CREATE key group id are all that exists there
		for _, v := range []*redisd.Value{want, got} {
			v.Stream.Added, v.Stream.MaxDelID = 0, redisd.StreamID{}
			for _, g := range v.Stream.Groups {
				g.EntriesRd = -1
			}
		}
	}
	unknown := map[string]bool{}
	for _, g := range want.Stream.Groups {
		if g.EntriesRd == rdbEntriesReadNotCarried {
			unknown[g.Name] = true
		}
	}
	for _, g := range got.Stream.Groups {
		if unknown[g.Name] {
			g.EntriesRd = -1
		}
	}
}

// rdbContainer names the physical format a value was stored in (finding signatures).
func rdbContainer(e *rdbExpect) string {
	k := e.Spec.Enc.Kind
	s := ""
	switch e.Case.Val.Type {
	case 's':
		s = "string-" + k
	case 'l':
		s = map[string]string{"linked": "list-linked", "ziplist": "ziplist", "quicklist": "ziplist", "quicklist2": "listpack"}[k]
	case 'S':
		s = map[string]string{"table": "set-table", "listpack": "listpack", "intset16": "intset", "intset32": "intset", "intset64": "intset"}[k]
	case 'z':
		s = map[string]string{"skiplist": "zset-text", "skiplist2": "zset-binary", "ziplist": "ziplist", "listpack": "listpack"}[k]
	case 'h':
		s = map[string]string{"table": "hash-table", "zipmap": "zipmap", "ziplist": "ziplist", "listpack": "listpack"}[k]
	case 'x':
		s = "stream"
	}
	n := len(e.Case.Val.List) + len(e.Case.Val.Set) + 2*len(e.Case.Val.ZSet) + 2*len(e.Case.Val.Hash)
	if s == "ziplist" && (e.Spec.Enc.UnknownLen || n >= 65535) {
		s += "-zllen65535"
	}
	if s == "listpack" && n >= 65535 && k != "quicklist2" {
		s += "-numele65535"
	}
	return s
}

// rdbElemClass classifies an element by the entry encoding it had in its container.
func rdbElemClass(container string, e string) string {
	n, err := parseCanonInt(e)
	isInt := err == nil
	switch {
	case strings.HasPrefix(container, "ziplist") && isInt && len(e) < 32:
		w := "int64"
		switch {
		case n >= 0 && n <= 12:
			w = "int4"
		case n >= -128 && n <= 127:
			w = "int8"
		case n >= -32768 && n <= 32767:
			w = "int16"
		case n >= -8388608 && n <= 8388607:
			w = "int24"
		case n >= math.MinInt32 && n <= math.MaxInt32:
			w = "int32"
		}
		if n < 0 {
			w += "-negative"
		}
		return w
	case container == "listpack" && isInt:
		w := "int64"
		switch {
		case n >= 0 && n <= 127:
			w = "uint7"
		case n >= -4096 && n <= 4095:
			w = "int13"
		case n >= -32768 && n <= 32767:
			w = "int16"
		case n >= -8388608 && n <= 8388607:
			w = "int24"
		case n >= math.MinInt32 && n <= math.MaxInt32:
			w = "int32"
		}
		if n < 0 {
			w += "-negative"
		}
		return w
	}
	switch {
	case len(e) < 64:
		return "string"
	case len(e) < 254:
		return "string-64+"
	case len(e) < 4096:
		return "string-254+"
	}
	return "string-4096+"
}

func parseCanonInt(s string) (int64, error) {
	var n int64
	if _, err := fmt.Sscanf(s, "%d", &n); err != nil {
		return 0, err
	}
	if fmt.Sprintf("%d", n) != s {
		return 0, fmt.Errorf("not canonical")
	}
	return n, nil
}

// rdbDiffClass names the first difference between expected and found content.
func rdbDiffClass(e *rdbExpect, got *redisd.Value) string {
	want := e.Value
	cont := rdbContainer(e)
	if got.T != want.T {
		return "type"
	}
	if strings.HasSuffix(cont, "65535") {
		// a header that says "count by traversal": elements are missing and which one is an
		// accident of the layout - unless the first wrong element is an integer entry, then
		// it is the integer decoding that failed
		e2 := *e
		e2.Spec.Enc.UnknownLen = false
		if c := rdbDiffClass(&e2, got); strings.Contains(c, "int") && rdbContainer(&e2) == "ziplist" {
			return c
		}
		return "truncated"
	}
	switch want.T {
	case 's':
		return "value"
	case 'l':
		for i, w := range want.List {
			if i >= len(got.List) {
				return "truncated"
			}
			if string(got.List[i]) != string(w) {
				return rdbElemClass(cont, string(w))
			}
		}
		return "surplus"
	case 'S':
		for _, m := range e.Case.Val.Set {
			if _, ok := got.Set[string(m)]; !ok {
				return rdbElemClass(cont, string(m))
			}
		}
		return "surplus"
	case 'z':
		for _, m := range e.Case.Val.ZSet {
			s, ok := got.ZSet[string(m.Member)]
			if !ok {
				return rdbElemClass(cont, string(m.Member))
			}
			if rdbScore(s) != rdbScore(m.Score) {
				return "score"
			}
		}
		return "surplus"
	case 'h':
		for _, f := range e.Case.Val.Hash {
			v, ok := got.Hash[string(f.Field)]
			if !ok {
				return rdbElemClass(cont, string(f.Field))
			}
			if string(v) != string(f.Value) {
				return rdbElemClass(cont, string(f.Value))
			}
		}
		return "surplus"
	case 'x':
		a, b := rdbCanon(want), rdbCanon(got)
		for i := range a {
			if i >= len(b) || a[i] != b[i] {
				return strings.SplitN(a[i], " ", 2)[0]
			}
		}
		return "surplus"
	}
	return "content"
}

func rdbReqStrings(l []*redisd.Req) []string {
	out := make([]string, len(l))
	for i, r := range l {
		out[i] = r.String()
	}
	return out
}

func rdbTail(ss []string, n int) []string {
	if len(ss) > n {
		return append([]string{fmt.Sprintf("... %d earlier lines", len(ss)-n)}, ss[len(ss)-n:]...)
	}
	return ss
}

func rdbPath(e *rdbExpect, scn rdbScenario, out *rdbOutcome) string {
	for _, r := range out.Srv.Restores() {
		if r.Key == e.TargetKey {
			return "restore"
		}
	}
	for _, q := range out.Srv.ExecLog() {
		if q.Name() == "restore" && len(q.Argv) > 1 && string(q.Argv[1]) == e.TargetKey && strings.Contains(q.Reply, "Bad data format") {
			return "bad-data-fallback" // the target did not know the encoding, the tool fell back to native commands
		}
	}
	if scn.ChunkAt > 0 && e.Case.Val.Type == 'h' && e.Spec.Enc.Kind == "table" {
		return "chunked"
	}
	return "expanded"
}

// rdbOracle judges a finished run against the logical dataset. prefix is the check id.
func rdbOracle(prefix string, scn rdbScenario, built *rdbBuilt, out *rdbOutcome) mc.Result {
	srv := out.Srv
	if len(srv.MachineryErrors) > 0 {
		return mc.Result{Verdict: "machinery", Clause: "double: " + strings.Join(srv.MachineryErrors, "; ")}
	}
	execLog := srv.ExecLog()
	logStr := rdbReqStrings(execLog)
	first := built.Expect[0]
	shape := rdbContainer(first)
	if len(built.Expect) > 1 {
		shape = "multi-key"
	}
	if scn.Version < 5 && out.Err != nil && strings.Contains(out.Err.Error(), "parse rdb checksum error") {
		shape = "rdb-version-below-5"
	}
	detail := func(extra map[string]interface{}) map[string]interface{} {
		m := map[string]interface{}{"target_log": rdbTail(logStr, 40), "rdb_bytes": len(built.File), "send_error": fmt.Sprint(out.Err)}
		if len(built.File) <= 600 {
			m["rdb_hex"] = fmt.Sprintf("%x", built.File)
		}
		for k, v := range extra {
			m[k] = v
		}
		return m
	}
	// A parse error ends the run through cancellation, which races with the workers: what
	// they had sent by then is not a function of the scenario, so judge the error first.
	if out.Ended && out.Err != nil && strings.Contains(out.Err.Error(), "parse rdb") {
		return mc.Violation("Send returned an error on a valid snapshot", prefix+":send-error:"+shape, detail(nil))
	}
	// RESTORE payloads
	// (with two workers the connection numbering and therefore the order of the log is
	// not a function of the scenario: judge in key order, name the shape coarsely)
	restores := srv.Restores()
	sort.SliceStable(restores, func(i, j int) bool { return restores[i].Key < restores[j].Key })
	busy := map[string]bool{} // keys for which a RESTORE was refused with BUSYKEY (the double records those without looking at the payload)
	for _, q := range execLog {
		if q.Name() == "restore" && len(q.Argv) > 1 && strings.HasPrefix(q.Reply, "-BUSYKEY") {
			busy[string(q.Argv[1])] = true
		}
	}
	for _, r := range restores {
		if r.Body == nil && !r.FooterOK && busy[r.Key] {
			continue
		}
		e := built.ByTarget[r.Key]
		sh := "unknown-key"
		if e != nil {
			sh = rdbContainer(e)
		}
		if len(built.Expect) > 1 {
			sh = "multi-key"
		}
		if !r.FooterOK {
			return mc.Violation("RESTORE payload without a valid version/CRC64 footer", prefix+":restore-footer", detail(map[string]interface{}{"key": r.Key}))
		}
		if e == nil || !r.Known || string(r.Body) != string(e.Body) {
			return mc.Violation("RESTORE payload is not the value's serialization", prefix+":restore-body:"+sh, detail(map[string]interface{}{"key": r.Key, "payload_body": fmt.Sprintf("%x", rdbClip(r.Body)), "expected_body": fmt.Sprintf("%x", rdbClip(bodyOf(e)))}))
		}
	}
	if !out.Ended {
		return mc.Violation("replay of a valid snapshot did not finish (no target request pending, 60 virtual seconds passed)", prefix+":hang:"+shape, detail(map[string]interface{}{"leak": out.LeakCheck}))
	}
	if out.Err != nil {
		if strings.Contains(out.Err.Error(), "Bad data format") {
			shape = "bad-data-format"
			// Bidirectional replay has no native-command fallback: against a target that does not know the
			// value's encoding it stops with a reported error. The property speaks about a replay that
			// COMPLETES, so a reported refusal is accepted - as long as it is not recorded as complete.
			refused := false
			for _, q := range execLog {
				if q.Name() == "restore" && strings.Contains(q.Reply, "Bad data format") {
					refused = true
				}
			}
			if scn.Cfg.Bisync && scn.Cfg.TargetVer != "" && refused {
				if rdbCpWritten(execLog) {
					return mc.Violation("the replay failed (target does not know the encoding) but the snapshot offset was recorded as resume position", prefix+":refusal-recorded-complete", detail(nil))
				}
				r := mc.OK(mc.Hash(append(logStr, "refused")...), true, out.Events)
				r.Detail = rdbRefusedOlderTarget
				return r
			}
		}
		// the error is the target's refusal of one native command of the expansion: name the command
		for i := len(execLog) - 1; i >= 0; i-- {
			q := execLog[i]
			msg := strings.TrimSpace(strings.TrimPrefix(q.Reply, "-"))
			if strings.HasPrefix(q.Reply, "-") && msg != "" && strings.Contains(out.Err.Error(), msg) && len(q.Argv) > 0 {
				cmd := q.Name()
				if cmd == "xgroup" && len(q.Argv) > 1 {
					cmd += "-" + strings.ToLower(string(q.Argv[1]))
				}
				return mc.Violation("the target refused a command the tool built from a valid snapshot value, Send returned its error", prefix+":target-refused:"+cmd+":"+shape,
					detail(map[string]interface{}{"refused_request": rdbReqStrings([]*redisd.Req{q}), "reply": q.Reply}))
			}
		}
		return mc.Violation("Send returned an error on a valid snapshot", prefix+":send-error:"+shape, detail(nil))
	}
	// keys that must be present now
	for _, e := range built.Expect {
		got := srv.Get(e.TargetDB, e.TargetKey)
		sh := rdbContainer(e)
		path := rdbPath(e, scn, out)
		if e.Filtered {
			if got != nil {
				return mc.Violation("a filtered key reached the target", prefix+":filtered-present:"+sh, detail(map[string]interface{}{"key": e.Spec.Key}))
			}
			continue
		}
		if e.Past {
			continue
		}
		if got == nil {
			if e.TargetKey != e.Spec.Key && srv.Get(e.TargetDB, e.Spec.Key) != nil {
				return mc.Violation("ReplaceHashTag: the value was written under the source key name, not under the rewritten one", prefix+":hashtag-not-applied",
					detail(map[string]interface{}{"key": e.Spec.Key, "target_key": e.TargetKey, "path": path}))
			}
			for db := 0; db < 16; db++ {
				if db != e.TargetDB && srv.Get(db, e.TargetKey) != nil {
					return mc.Violation("a snapshot key was written into another database than the mapped one", prefix+":wrong-database",
						detail(map[string]interface{}{"key": e.Spec.Key, "source_db": e.Spec.DB, "mapped_db": e.TargetDB, "found_in_db": db, "path": path}))
				}
			}
			return mc.Violation("snapshot key missing on the target", prefix+":missing:"+sh, detail(map[string]interface{}{"key": e.Spec.Key, "db": e.TargetDB, "path": path}))
		}
		rdbNormalise(e.Value, got, !rdbVerGE(scn.Cfg.targetVer(), 7, 0))
		a, b := rdbCanon(e.Value), rdbCanon(got)
		if strings.Join(a, "\n") != strings.Join(b, "\n") {
			class := rdbDiffClass(e, got)
			if class != "truncated" {
				sh = strings.TrimSuffix(sh, "-zllen65535")
			}
			return mc.Violation("content on the target differs from the snapshot", prefix+":content:"+sh+":"+class,
				detail(map[string]interface{}{"key": e.Spec.Key, "path": path, "case": e.Spec.Case, "enc": e.Spec.Enc, "expected": rdbClipLines(a), "found": rdbClipLines(b)}))
		}
		lo, hi := e.Value.ExpireAt, e.Value.ExpireAt
		if hi != 0 {
			hi += out.Advanced // a relative TTL computed by the tool legitimately ages by the time that passed before the target ran it
		}
		if got.ExpireAt < lo || got.ExpireAt > hi {
			return mc.Violation("absolute expiry on the target differs from the source's", prefix+":expiry:"+path+":"+rdbExpClass(e.Spec.Exp),
				detail(map[string]interface{}{"key": e.Spec.Key, "source_expire_at": e.Value.ExpireAt, "target_expire_at": got.ExpireAt, "virtual_ms_passed": out.Advanced, "path": path}))
		}
	}
	// keys already past their expiry must be gone 2 ms later
	time.Sleep(2 * time.Millisecond)
	for _, e := range built.Expect {
		if e.Filtered || !e.Past {
			continue
		}
		if got := srv.Get(e.TargetDB, e.TargetKey); got != nil {
			return mc.Violation("a key whose source expiry is in the past is still alive 2 ms after the replay", prefix+":expired-alive:"+rdbPath(e, scn, out),
				detail(map[string]interface{}{"key": e.Spec.Key, "source_expire_at": e.Value.ExpireAt, "target_expire_at": got.ExpireAt, "found": rdbClipLines(rdbCanon(got)), "now": time.Now().UnixMilli()}))
		}
	}
	// nothing else may exist
	want := map[string]bool{}
	for _, e := range built.Expect {
		if !e.Filtered && !e.Past {
			want[fmt.Sprintf("%d/%s", e.TargetDB, e.TargetKey)] = true
		}
	}
	for db := 0; db < 16; db++ {
		for _, k := range srv.Keys(db) {
			if strings.HasPrefix(k, "redis-gunyu") || strings.HasPrefix(k, "/redis-gunyu") {
				continue // checkpoint / bisync bookkeeping namespace
			}
			if e := built.ByKey[k]; e != nil && e.TargetKey != k && !built.Allow[fmt.Sprintf("%d/%s", db, k)] {
				return mc.Violation("ReplaceHashTag: the value was written under the source key name, not under the rewritten one", prefix+":hashtag-not-applied",
					detail(map[string]interface{}{"key": k, "target_key": e.TargetKey, "db": db}))
			}
			if !want[fmt.Sprintf("%d/%s", db, k)] && !built.Allow[fmt.Sprintf("%d/%s", db, k)] {
				return mc.Violation("the target holds a key the snapshot does not put there", prefix+":surplus-key", detail(map[string]interface{}{"key": k, "db": db}))
			}
		}
	}
	touched := false
	for _, r := range execLog {
		if len(r.Argv) > 1 {
			if _, ok := built.ByKey[string(r.Argv[1])]; ok {
				touched = true
			}
			if _, ok := built.ByTarget[string(r.Argv[1])]; ok {
				touched = true
			}
		}
	}
	// observation: what the target executed, without connection numbering / global order
	var obs []string
	for _, r := range execLog {
		var sb strings.Builder
		fmt.Fprintf(&sb, "db%d", r.ExecDB)
		for _, a := range r.Argv {
			if len(a) > 64 {
				fmt.Fprintf(&sb, " %q..%d/%x", a[:32], len(a), mc.Hash(string(a)))
			} else {
				fmt.Fprintf(&sb, " %q", a)
			}
		}
		obs = append(obs, sb.String())
	}
	if scn.Cfg.Parallel > 1 {
		sort.Strings(obs)
	}
	return mc.OK(mc.Hash(obs...), touched, out.Events)
}

// rdbRefusedOlderTarget marks (in Result.Detail) an accepted execution in which a bidirectional replay
// reported an error because the target does not know the value's encoding.
const rdbRefusedOlderTarget = "reported-refusal-older-target"

// rdbCpWritten reports whether the target executed a checkpoint write that carries the snapshot's offset
// as resume position.
func rdbCpWritten(log []*redisd.Req) bool {
	want := fmt.Sprintf("%d", rdbSnapOffset)
	for _, r := range log {
		if !r.Executed || r.Failed || r.Name() != "hset" || len(r.Argv) < 4 {
			continue
		}
		if !strings.HasPrefix(string(r.Argv[1]), "redis-gunyu-checkpoint") {
			continue
		}
		for i := 2; i+1 < len(r.Argv); i += 2 {
			if string(r.Argv[i]) == rdbRunID+"_offset" && string(r.Argv[i+1]) == want {
				return true
			}
		}
	}
	return false
}

func bodyOf(e *rdbExpect) []byte {
	if e == nil {
		return nil
	}
	return e.Body
}

func rdbClip(b []byte) []byte {
	if len(b) > 200 {
		return b[:200]
	}
	return b
}

func rdbClipLines(ss []string) []string {
	var out []string
	for i, s := range ss {
		if i >= 60 {
			out = append(out, fmt.Sprintf("... %d more", len(ss)-i))
			break
		}
		if len(s) > 160 {
			s = s[:160] + fmt.Sprintf("...(%d bytes)", len(s))
		}
		out = append(out, s)
	}
	return out
}

func rdbExpClass(x string) string {
	if x == "" {
		return "none"
	}
	return x
}

// rdbExec is one complete execution: bubble, build, run, judge.
func rdbExec(t *testing.T, prefix string, scn rdbScenario, ch *mc.Chooser, hooks *rdbHooks) mc.Result {
	var res mc.Result
	msg := bubble(t, func() {
		// the bubble's clock starts at a round second; move to an instant that is neither a
		// whole second nor a whole millisecond so that unit mix-ups cannot hide
		time.Sleep(1234567 * time.Microsecond)
		built, err := rdbBuild(scn, time.Now().UnixMilli())
		if err != nil {
			res = mc.Result{Verdict: "machinery", Clause: "generator: " + err.Error()}
			return
		}
		out := rdbRun(scn, built, ch, hooks)
		res = rdbOracle(prefix, scn, built, out)
		out.Srv.KillConns()
	})
	if msg != "" {
		return mc.Result{Verdict: "machinery", Clause: "bubble: " + msg}
	}
	return res
}

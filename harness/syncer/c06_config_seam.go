package config

// Verification seam for C06 (overlaid as config/zz_verif_c06_seam.go at build time;
// never part of the repository). One-line forwarder: the input configuration's RDB
// concurrency limiter is only created by the unexported fix().

// VerifFixInput runs the same normalisation the YAML loader applies to the input section.
func VerifFixInput(c *InputConfig) error { return c.fix() }

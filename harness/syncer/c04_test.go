package syncer

// C04 - an incomplete snapshot replay is never recorded as a completed full sync.
// H-rdb (rdb_test.go) with faults:
//   (a) damage:  every truncation length and every single-byte alteration of small
//                checksummed snapshots (one per encoding). A cheap probe child process
//                (loader + ExecCmd only, tight address-space limit) first finds the
//                variants that kill the process or allocate gigabytes, the others run
//                through the real Send in a bubble;
//   (b) target error: the double answers -ERR to the k-th request, every k;
//   (c) cancellation: the replay context is cancelled before the k-th target request,
//                every k; syncer/output.go and bisync_rdb.go are built with the `select`
//                transform, and with one worker the preference among simultaneously
//                ready select cases of the worker loop is an explorer choice.
// Oracle: "recorded as complete" (Send == nil, or a checkpoint write carrying the
// snapshot offset) implies every non-filtered snapshot entry is on the target.

import (
	"bytes"
	"context"
	"encoding/binary"
	"encoding/json"
	"errors"
	"fmt"
	"os"
	"os/exec"
	"path/filepath"
	"runtime"
	"runtime/debug"
	"runtime/metrics"
	"strconv"
	"strings"
	"sync"
	"testing"
	"time"

	"github.com/mgtv-tech/redis-GunYu/pkg/rdb"
	"github.com/mgtv-tech/redis-GunYu/verifshim/mc"
	"github.com/mgtv-tech/redis-GunYu/verifshim/redisd"
	"github.com/mgtv-tech/redis-GunYu/verifshim/ref"
	"github.com/mgtv-tech/redis-GunYu/verifshim/vsel"
)

func init() { verifChecks["C04"] = runC04 }

const (
	c04Now        = int64(946684801234) // virtual clock (ms) at which every execution builds its snapshot
	c04ProbeLimit = 12 * 1024 * 1024    // address-space limit of the probe child, KiB
	c04BigAlloc   = 64 << 20            // a parse that allocates more than this for a <= 400 byte input is counted
	c04CrashAlloc = uint64(1) << 40     // a single allocation request of at least this size is taken to kill the process anywhere
	c04MaxCmds    = 100000              // commands one entry of a <= 400 byte snapshot may expand into before it counts as runaway
	c04MaxReq     = 150000              // target requests of one damaged-snapshot execution before the driver gives up
	c04MaxObjects = 3000000             // heap objects the decoders may allocate for one <= 400 byte input before it counts as an endless loop
)

type c04Runaway struct{}

type c04Scenario struct {
	rdbScenario
	Mode string `json:"mode"` // damage | target-error | cancel
	// damage
	Trunc   int    `json:"trunc"`             // >= 0: only the first Trunc bytes arrive, then the source ends
	ErrKind string `json:"errkind,omitempty"` // how the source ends after a truncation: "" = EOF | "reset"
	Pos     int    `json:"pos"`               // >= 0: byte Pos is replaced by Val
	Val     int    `json:"val"`
	// target error
	FailAt  int    `json:"fail_at"`            // 1-based request sequence number answered with an error (0 = none)
	ErrText string `json:"err_text,omitempty"` // the error text (without the leading '-'); "" = "ERR injected target error"
	// target-exec-error: the ExecAt-th command the target EXECUTES (1-based; queued commands count when their
	// EXEC runs) answers -ERR, so that inside MULTI/EXEC the error is an element of a successful EXEC reply
	ExecAt int `json:"exec_at,omitempty"`
	// target-drop: every connection is dropped just before the target would process its DropAt-th request (0-based)
	DropAt int `json:"drop_at,omitempty"`
	// cancellation
	CancelAt int `json:"cancel_at"` // the replay context is cancelled just before the target processes its CancelAt-th request (0-based; -1 = never)
	Bound    int `json:"bound"`
	// damage under back-pressure
	Tail  int  `json:"tail,omitempty"`  // > 0: the variant comes from the tail family (only the last Tail covered bytes / last 40 lengths are damaged)
	Eager bool `json:"eager,omitempty"` // the target answers at once (keeps up with the parser); default: no request is processed before everything else is blocked
	// preemption family
	Preempt bool     `json:"preempt,omitempty"` // built with the yield transform: Plan names the wake-up statements at which the running goroutine steps aside
	Plan    []string `json:"plan,omitempty"`
	// cancellation placed at a wake-up statement instead of before a target request: the goroutine that
	// reaches CancelPoint ("<file:line>#<k>") cancels the replay context and then steps aside (CancelPoint is
	// also the only element of Plan), so that every other goroutine reacts to the cancellation first
	CancelPoint string `json:"cancel_point,omitempty"`
}

// ---------------------------------------------------------------------------
// snapshots

func c04Key(key, cs string, enc ref.RDBEnc) rdbKeySpec {
	return rdbKeySpec{DB: 0, Key: key, Case: cs, Enc: enc, Idle: -1, Freq: -1}
}

// c04DamageSnapshots: every encoding once, small files, RDB version >= 5.
func c04DamageSnapshots() []rdbScenario {
	cfg := rdbCfg{Restore: false, BulkLen: c03BigBulk, Parallel: 1, DbMode: "id", Resume: true}
	one := func(version int, cs string, enc ref.RDBEnc) rdbScenario {
		return rdbScenario{Keys: []rdbKeySpec{c04Key("k", cs, enc)}, Version: version, Cfg: cfg}
	}
	e := func(kind string) ref.RDBEnc { return ref.RDBEnc{Kind: kind} }
	out := []rdbScenario{
		one(9, "string/short", e("raw")),
		one(6, "string/int:300", e("int")),
		one(11, "string/run60", e("lzf")),
		one(6, "list/small", e("linked")),
		one(6, "list/small", e("ziplist")),
		one(5, "list/small", ref.RDBEnc{Kind: "ziplist", LegacyInts: true}),
		one(8, "list/ziplist-ints", ref.RDBEnc{Kind: "quicklist", Node: 12}),
		one(10, "list/small", ref.RDBEnc{Kind: "quicklist2", Node: 2}),
		one(10, "list/small", ref.RDBEnc{Kind: "quicklist2", PlainMin: 1}),
		one(12, "list/listpack-ints", e("quicklist2")),
		one(9, "set/small", e("table")),
		one(8, "set/int16", e("intset16")),
		one(9, "set/int32", e("intset32")),
		one(11, "set/int64", e("intset64")),
		one(11, "set/small", e("listpack")),
		one(7, "zset/small", e("skiplist")),
		one(6, "zset/inf", e("skiplist")),
		one(8, "zset/small", e("skiplist2")),
		one(9, "zset/small", e("ziplist")),
		one(10, "zset/inf", e("listpack")),
		one(9, "hash/small", e("table")),
		one(8, "hash/small", e("ziplist")),
		one(10, "hash/small", e("listpack")),
		one(9, "stream/samefields", e("v1")),
		one(10, "stream/otherfields-then-same", e("v2")),
		one(11, "stream/deleted", e("v3")),
		one(12, "stream/groups", ref.RDBEnc{Kind: "v3", Node: 3}),
		one(13, "stream/empty", e("v4")),
	}
	// opcodes: expiry, idle, two databases, RESIZEDB (no AUX to keep it small)
	multi := rdbScenario{Version: 9, Cfg: cfg, Keys: []rdbKeySpec{
		{DB: 0, Key: "a", Case: "string/short", Enc: e("raw"), Exp: "future", Idle: 7, Freq: -1},
		{DB: 0, Key: "123", Case: "set/int16", Enc: e("intset16"), Idle: -1, Freq: -1},
		{DB: 3, Key: "c", Case: "hash/small", Enc: e("ziplist"), Exp: "futsec", Idle: -1, Freq: -1},
	}}
	out = append(out, multi)
	// a hash that the parser splits into chunks
	ch := one(9, "chunk/h/4", e("table"))
	ch.ChunkAt = 64
	out = append(out, ch)
	// the RESTORE path forwards the damaged bytes instead of decoding them
	r := one(10, "hash/small", e("listpack"))
	r.Cfg.Restore = true
	out = append(out, r)
	return out
}

// c04FaultSnapshots: several keys of all types, for target errors and cancellation.
func c04FaultSnapshots() []rdbScenario {
	e := func(kind string) ref.RDBEnc { return ref.RDBEnc{Kind: kind} }
	keys := []rdbKeySpec{
		c04Key("k1", "string/short", e("raw")),
		c04Key("k2", "list/small", ref.RDBEnc{Kind: "quicklist2", Node: 2}),
		c04Key("k3", "hash/small", e("listpack")),
		c04Key("k4", "zset/small", e("listpack")),
		c04Key("k5", "set/int16", e("intset16")),
		c04Key("k6", "stream/samefields", e("v3")),
		{DB: 3, Key: "k7", Case: "string/int:300", Enc: e("int"), Exp: "future", Idle: -1, Freq: -1},
	}
	a := rdbScenario{Keys: keys, Version: 11, Aux: true}
	// a split hash between other keys: losing its second chunk leaves half a hash
	b := rdbScenario{Version: 9, Aux: true, ChunkAt: 64, Keys: []rdbKeySpec{
		c04Key("k1", "string/short", e("raw")),
		c04Key("big", "chunk/h/6", e("table")),
		c04Key("k3", "set/small", e("table")),
	}}
	return []rdbScenario{a, b}
}

// c04PreemptSnapshots: small snapshots for the preemption family - three keys of different
// types in two databases (RESTORE path), and a string, a hash split into two chunks and a set
// (expansion path).
func c04PreemptSnapshots() []rdbScenario {
	e := func(kind string) ref.RDBEnc { return ref.RDBEnc{Kind: kind} }
	a := rdbScenario{Version: 11, Keys: []rdbKeySpec{
		c04Key("k1", "string/short", e("raw")),
		c04Key("k2", "hash/small", e("listpack")),
		{DB: 3, Key: "k3", Case: "list/small", Enc: ref.RDBEnc{Kind: "quicklist2", Node: 2}, Exp: "future", Idle: -1, Freq: -1},
		c04Key("k4", "zset/small", e("listpack")),
	}}
	b := rdbScenario{Version: 9, ChunkAt: 64, Keys: []rdbKeySpec{
		c04Key("k1", "string/short", e("raw")),
		c04Key("big", "chunk/h/4", e("table")),
		c04Key("k3", "set/small", e("table")),
	}}
	return []rdbScenario{a, b}
}

// c04PressureSnapshots: many small keys before the damaged tail, so that with
// RdbPipeSize 1 or 2 and one worker every queue between parser, distributor and worker
// is full (and the parser blocked on its send) when the parser reaches the damage:
// in flight = 1 (worker) + pipe + 1 (distributor) + pipe <= 6 entries, at least 9
// entries that each need a target request precede the last 60 bytes.
func c04PressureSnapshots() []rdbScenario {
	e := func(kind string) ref.RDBEnc { return ref.RDBEnc{Kind: kind} }
	var a, b []rdbKeySpec
	for i := 1; i <= 9; i++ {
		a = append(a, c04Key(fmt.Sprintf("s%02d", i), "string/short", e("raw")))
	}
	a = append(a, c04Key("k10", "list/small", ref.RDBEnc{Kind: "quicklist2", Node: 2}), c04Key("k11", "hash/small", e("listpack")), c04Key("k12", "set/int16", e("intset16")))
	for i := 1; i <= 8; i++ {
		b = append(b, c04Key(fmt.Sprintf("s%02d", i), "string/short", e("raw")))
	}
	b = append(b, c04Key("big", "chunk/h/6", e("table")), c04Key("k10", "zset/small", e("listpack")), c04Key("k11", "string/int:300", e("int")))
	return []rdbScenario{{Keys: a, Version: 11}, {Keys: b, Version: 11, ChunkAt: 64}}
}

// ---------------------------------------------------------------------------
// damage variants

type c04Variant struct {
	Trunc   int
	ErrKind string
	Pos     int
	Val     int
}

func (v c04Variant) apply(file []byte) []byte {
	if v.Trunc >= 0 {
		return file[:v.Trunc]
	}
	out := append([]byte(nil), file...)
	out[v.Pos] = byte(v.Val)
	return out
}

func (v c04Variant) String() string {
	if v.Trunc >= 0 {
		return fmt.Sprintf("first %d bytes then %s", v.Trunc, map[string]string{"": "EOF", "reset": "read error"}[v.ErrKind])
	}
	return fmt.Sprintf("byte %d = 0x%02x", v.Pos, v.Val)
}

// c04Variants: every truncation length, then every alteration of every byte that
// the checksum covers (quick: the 8 one-bit flips, and all 255 other values of the value
// type bytes; thorough: all 255 other values everywhere).
func c04Variants(file []byte, tier string, tail int, typeAt []int) []c04Variant {
	var out []c04Variant
	firstLen, firstPos := 0, 0
	if tail > 0 {
		// tail family: truncation at every length of the last 40 bytes (footer included) and
		// alterations of the last `tail` bytes the checksum covers
		if firstLen = len(file) - 40; firstLen < 0 {
			firstLen = 0
		}
		if firstPos = len(file) - 8 - tail; firstPos < 0 {
			firstPos = 0
		}
	}
	for l := firstLen; l < len(file); l++ {
		out = append(out, c04Variant{Trunc: l, Pos: -1})
		if tier == "thorough" {
			out = append(out, c04Variant{Trunc: l, ErrKind: "reset", Pos: -1})
		}
	}
	allValues := map[int]bool{}
	if tail == 0 {
		// a value type byte decides how everything after it is read: all 255 other values in
		// every tier (this is where a misread length field can claim terabytes)
		for _, p := range typeAt {
			allValues[p] = true
		}
	}
	// the 8 footer bytes themselves are altered too (they are what the check compares with): last = len(file)
	for p := firstPos; p < len(file); p++ {
		if tier == "thorough" || allValues[p] {
			for d := 1; d < 256; d++ {
				out = append(out, c04Variant{Trunc: -1, Pos: p, Val: int(file[p]) ^ d})
			}
		} else {
			for bit := 0; bit < 8; bit++ {
				out = append(out, c04Variant{Trunc: -1, Pos: p, Val: int(file[p]) ^ (1 << uint(bit))})
			}
		}
	}
	return out
}

// ---------------------------------------------------------------------------
// probe child: parse every variant the way the replay does (ParseRdb, then ExecCmd
// and DumpValue of every entry) without any target, and write one class byte each.

type c04ProbeIn struct {
	Scn      rdbScenario `json:"scn"`
	Tier     string      `json:"tier"`
	IdxBase  int         `json:"idx_base"`
	Shard    int         `json:"shard"`
	NShards  int         `json:"nshards"`
	Start    int         `json:"start"`
	Tail     int         `json:"tail"`
	Progress string      `json:"progress"`
	Result   string      `json:"result"`
}

func c04ParseOnce(data []byte) (sawErr, runaway bool) {
	pipe := rdb.ParseRdb(bytes.NewReader(data), nil, 1024, rdb.WithTargetRedisVersion("7.2.0"), rdb.WithFailOnModuleAux())
	for e := range pipe {
		if e.Err != nil {
			sawErr = true
			continue
		}
		if e.Done || e.ObjectParser == nil {
			continue
		}
		func() {
			n := 0
			defer func() {
				if r := recover(); r != nil {
					sawErr = true
					if _, ok := r.(c04Runaway); ok {
						runaway = true
					}
				}
			}()
			e.ObjectParser.ExecCmd(func(cmd string, args ...interface{}) error {
				n++
				if n > c04MaxCmds {
					panic(c04Runaway{})
				}
				return nil
			})
			_ = e.DumpValue()
		}()
	}
	return
}

func TestVerifC04Probe(t *testing.T) {
	path := os.Getenv("VERIF_C04_PROBE")
	if path == "" {
		t.Skip("probe child only")
	}
	verifInitLog()
	raw, err := os.ReadFile(path)
	if err != nil {
		t.Fatal(err)
	}
	var in c04ProbeIn
	if err := json.Unmarshal(raw, &in); err != nil {
		t.Fatal(err)
	}
	debug.SetMemoryLimit(1 << 30)
	built, err := rdbBuild(in.Scn, c04Now)
	if err != nil {
		t.Fatal(err)
	}
	old := rdb.VerifSetMaxBinEntryBuffer(rdbDefaultMax)
	if in.Scn.ChunkAt > 0 {
		rdb.VerifSetMaxBinEntryBuffer(in.Scn.ChunkAt)
	}
	defer rdb.VerifSetMaxBinEntryBuffer(old)
	vars := c04Variants(built.File, in.Tier, in.Tail, built.TypeAt)
	pf, err := os.OpenFile(in.Progress, os.O_CREATE|os.O_WRONLY, 0o644)
	if err != nil {
		t.Fatal(err)
	}
	rf, err := os.OpenFile(in.Result, os.O_CREATE|os.O_WRONLY, 0o644)
	if err != nil {
		t.Fatal(err)
	}
	sample := []metrics.Sample{{Name: "/gc/heap/allocs:bytes"}, {Name: "/gc/heap/allocs:objects"}}
	var b8 [8]byte
	for i := in.Start; i < len(vars); i++ {
		if (in.IdxBase+i)%in.NShards != in.Shard {
			continue
		}
		binary.LittleEndian.PutUint64(b8[:], uint64(i))
		pf.WriteAt(b8[:], 0)
		metrics.Read(sample)
		before := sample[0].Value.Uint64()
		objBefore := sample[1].Value.Uint64()
		type pres struct{ sawErr, runaway bool }
		doneCh := make(chan pres, 1)
		data := vars[i].apply(built.File)
		go func() {
			a, b := c04ParseOnce(data)
			doneCh <- pres{a, b}
		}()
		var sawErr, runaway bool
		tick := time.NewTicker(5 * time.Millisecond)
		began := time.Now()
	waitParse:
		for {
			select {
			case r := <-doneCh:
				sawErr, runaway = r.sawErr, r.runaway
				break waitParse
			case <-tick.C:
				// a loop that never ends inside the repository's decoders cannot be stopped from
				// outside: measure the work done (heap objects allocated by the decoders), fall back
				// to wall-clock time for loops that do not allocate, and end the process
				metrics.Read(sample)
				if sample[1].Value.Uint64()-objBefore > c04MaxObjects || time.Since(began) > 20*time.Second {
					rf.WriteAt([]byte{'S'}, int64(i))
					os.Exit(4)
				}
			}
		}
		tick.Stop()
		metrics.Read(sample)
		big := sample[0].Value.Uint64()-before > c04BigAlloc
		cls := byte('k')
		switch {
		case runaway:
			cls = 'R'
		case big && sawErr:
			cls = 'b'
		case big:
			cls = 'B'
		case sawErr:
			cls = 'e'
		}
		rf.WriteAt([]byte{cls}, int64(i))
		if big {
			// a reused span would have to be zeroed (gigabytes of resident memory): start over in a fresh process
			os.Exit(3)
		}
	}
	binary.LittleEndian.PutUint64(b8[:], ^uint64(0))
	pf.WriteAt(b8[:], 0)
	pf.Close()
	rf.Close()
}

type c04ProbeOut struct {
	class   []byte         // per variant: 0 = not this shard's, e/k/b/B, 'X' = child died, 'S' = child made no progress
	stderr  map[int]string // for X / S
	spawned int
}

// c04Probe runs the child (restarting it after every death) over this shard's variants.
func c04Probe(scn rdbScenario, tier string, tail, idxBase, shard, nshards, n int) (*c04ProbeOut, error) {
	dir := os.Getenv("VERIF_SCRATCH")
	if dir == "" {
		dir = os.TempDir()
	}
	out := &c04ProbeOut{class: make([]byte, n), stderr: map[int]string{}}
	in := c04ProbeIn{Scn: scn, Tier: tier, Tail: tail, IdxBase: idxBase, Shard: shard, NShards: nshards,
		Progress: filepath.Join(dir, "c04.progress"), Result: filepath.Join(dir, "c04.result")}
	os.Remove(in.Result)
	inPath := filepath.Join(dir, "c04.in.json")
	for in.Start < n {
		os.Remove(in.Progress)
		raw, _ := json.Marshal(in)
		if err := os.WriteFile(inPath, raw, 0o644); err != nil {
			return nil, err
		}
		cmd := exec.Command("bash", "-c", fmt.Sprintf("ulimit -v %d; exec %q -test.run '^TestVerifC04Probe$' -test.timeout 0", c04ProbeLimit, os.Args[0]))
		cmd.Env = append(os.Environ(), "VERIF_C04_PROBE="+inPath, "VERIF_CHECK=", "GOMAXPROCS=2")
		var errBuf bytes.Buffer
		cmd.Stderr, cmd.Stdout = &errBuf, &errBuf
		if err := cmd.Start(); err != nil {
			return nil, err
		}
		out.spawned++
		exited := make(chan error, 1)
		go func() { exited <- cmd.Wait() }()
		readProgress := func() (uint64, bool) {
			b, err := os.ReadFile(in.Progress)
			if err != nil || len(b) < 8 {
				return 0, false
			}
			return binary.LittleEndian.Uint64(b), true
		}
		last, lastChange := uint64(1<<63), time.Now()
		var werr error
		stuck := false
	wait:
		for {
			select {
			case werr = <-exited:
				break wait
			case <-time.After(200 * time.Millisecond):
				if p, ok := readProgress(); ok && p != last {
					last, lastChange = p, time.Now()
				} else if time.Since(lastChange) > 30*time.Second {
					// a 400-byte input that keeps the parser busy for a wall-clock minute
					stuck = true
					cmd.Process.Kill()
					werr = <-exited
					break wait
				}
			}
		}
		if res, err := os.ReadFile(in.Result); err == nil {
			for i, c := range res {
				if i < n && c != 0 {
					out.class[i] = c
				}
			}
		}
		p, ok := readProgress()
		if werr == nil && ok && p == ^uint64(0) {
			break
		}
		if !ok || p >= uint64(n) {
			return nil, fmt.Errorf("probe child failed before its first variant: %v\n%s", werr, rdbTailStr(errBuf.String(), 1500))
		}
		i := int(p)
		if out.class[i] == 0 || stuck {
			out.class[i] = 'X'
			if stuck {
				out.class[i] = 'S'
			}
			out.stderr[i] = rdbTailStr(c04FirstLines(errBuf.String(), 12), 1500)
		}
		in.Start = i + 1
		if out.spawned > 3000 {
			return nil, fmt.Errorf("probe child ended more than 3000 times for one snapshot")
		}
	}
	return out, nil
}

// c04AllocRequest extracts N from the runtime's "cannot allocate N-byte block".
func c04AllocRequest(stderr string) (uint64, bool) {
	i := strings.Index(stderr, "cannot allocate ")
	if i < 0 {
		return 0, false
	}
	rest := stderr[i+len("cannot allocate "):]
	j := strings.Index(rest, "-byte")
	if j < 0 {
		return 0, false
	}
	n, err := strconv.ParseUint(rest[:j], 10, 64)
	return n, err == nil
}

func c04FirstLines(s string, n int) string {
	lines := strings.Split(s, "\n")
	if len(lines) > n {
		lines = lines[:n]
	}
	return strings.Join(lines, "\n")
}

func rdbTailStr(s string, n int) string {
	if len(s) > n {
		return s[:n]
	}
	return s
}

// ---------------------------------------------------------------------------
// execution + oracle

// c04ErrorTexts: error replies a Redis server (or a proxy in front of it) sends for reasons that have
// nothing to do with the key: the script-busy state shares its first four letters with BUSYKEY, the last one
// carries the fragment of the RESTORE refusal although the payload is fine for this target.
var c04ErrorTexts = []string{
	"BUSY Redis is busy running a script. You can only call SCRIPT KILL or SHUTDOWN NOSAVE.",
	"LOADING Redis is loading the dataset in memory",
	"OOM command not allowed when used memory > 'maxmemory'.",
	"READONLY You can't write against a read only replica.",
	"MISCONF Redis is configured to save RDB snapshots, but it's currently unable to persist to disk.",
	"NOAUTH Authentication required.",
	"ERR Bad data format",
}

// c04CpWritten reports whether the target executed a checkpoint write that carries
// the snapshot's offset as resume position.
func c04CpWritten(log []*redisd.Req) bool { return rdbCpWritten(log) }

func c04Exec(t *testing.T, scn c04Scenario, ch *mc.Chooser) mc.Result {
	res, _, _ := c04ExecPlan(t, scn, ch)
	return res
}

// c04ExecPlan is c04Exec that also reports the preemption points reached and hit.
func c04ExecPlan(t *testing.T, scn c04Scenario, ch *mc.Chooser) (res mc.Result, seen, hit []string) {
	msg := bubble(t, func() {
		var pre *preemptCtl
		var cancelAtPoint func()
		if scn.Preempt {
			pre = installPreempt(scn.Plan)
			defer pre.remove()
			defer func() { seen, hit = pre.seen, pre.hit }()
			if scn.CancelPoint != "" {
				// wrap the controller's yielder: count arrivals the same way and cancel at the planned one
				var mu sync.Mutex
				counts := map[string]int{}
				inner := vsel.CurrentYielder()
				vsel.SetYielder(func(site string) {
					mu.Lock()
					armed := pre.armed
					var fire bool
					if armed {
						counts[site]++
						fire = fmt.Sprintf("%s#%d", site, counts[site]) == scn.CancelPoint
					}
					mu.Unlock()
					if fire && cancelAtPoint != nil {
						cancelAtPoint()
					}
					if inner != nil {
						inner(site)
					}
				})
			}
		}
		time.Sleep(1234567 * time.Microsecond)
		if time.Now().UnixMilli() != c04Now {
			res = mc.Result{Verdict: "machinery", Clause: fmt.Sprintf("bubble clock is %d, expected %d", time.Now().UnixMilli(), c04Now)}
			return
		}
		built, err := rdbBuild(scn.rdbScenario, c04Now)
		if err != nil {
			res = mc.Result{Verdict: "machinery", Clause: "generator: " + err.Error()}
			return
		}
		hooks := &rdbHooks{Preempt: pre}
		if scn.Mode == "damage" {
			hooks.MaxReq = c04MaxReq
			hooks.NoPark = scn.Eager
		}
		damaged := false
		switch scn.Mode {
		case "damage":
			v := c04Variant{Trunc: scn.Trunc, ErrKind: scn.ErrKind, Pos: scn.Pos, Val: scn.Val}
			data := v.apply(built.File)
			damaged = true
			hooks.Feed = func(g *gate, file []byte) {
				g.Release(data)
				if v.Trunc >= 0 && v.ErrKind == "reset" {
					g.Close(errors.New("read tcp: connection reset by peer"))
				} else {
					g.Close(nil)
				}
			}
		case "target-error":
			hooks.Prepare = func(srv *redisd.Server) {
				text := scn.ErrText
				if text == "" {
					text = "ERR injected target error"
				}
				srv.PlanRef().FailAt = map[int]string{scn.FailAt: text}
			}
		case "target-exec-error":
			hooks.Prepare = func(srv *redisd.Server) {
				n := 0
				srv.Extra = func(s *redisd.Server, cs *redisd.ConnState, argv [][]byte) []byte {
					n++
					if n == scn.ExecAt {
						return []byte("-ERR injected error at execution time\r\n")
					}
					return nil
				}
			}
		case "target-drop":
			hooks.BeforeReq = func(srv *redisd.Server, idx int, argv [][]byte) {
				if idx == scn.DropAt {
					srv.KillConns()
				}
			}
		case "cancel-at-point":
			hooks.OnStart = func(c context.CancelFunc) { cancelAtPoint = c }
		case "cancel":
			var cancel context.CancelFunc
			hooks.OnStart = func(c context.CancelFunc) { cancel = c }
			hooks.BeforeReq = func(srv *redisd.Server, idx int, argv [][]byte) {
				if idx == scn.CancelAt {
					cancel()
				}
			}
			if scn.Cfg.Parallel == 1 && ch != nil && !scn.Preempt {
				var mu sync.Mutex
				n := 0
				hooks.Picker = func(site string, ready []int) int {
					if !c04InWorkerLoop() {
						return ready[0]
					}
					mu.Lock()
					defer mu.Unlock()
					n++
					return ready[ch.Choose(fmt.Sprintf("sel%d", n), len(ready))]
				}
			}
		}
		out := rdbRun(scn.rdbScenario, built, ch, hooks)
		if scn.Mode == "clean" {
			// no fault: the full-sync oracle (a preemption must not make a valid replay fail, hang or lose a key)
			res = rdbOracle("C04:clean", scn.rdbScenario, built, out)
			if res.Verdict == "ok" && scn.Cfg.Resume && !c04CpWritten(out.Srv.ExecLog()) {
				res = mc.Violation("a complete replay did not record the snapshot offset", "C04:clean:no-checkpoint", map[string]interface{}{"target_log": rdbTail(rdbReqStrings(out.Srv.ExecLog()), 30)})
			}
		} else {
			res = c04Oracle(scn, built, out, damaged)
		}
		out.Srv.KillConns()
	})
	if msg != "" {
		if strings.Contains(msg, "blocked goroutines remain") && res.Verdict != "" {
			// the verdict was reached; some goroutine of the tool is left blocked for ever (for
			// instance the parser on a pipe nobody reads any more): counted, not judged
			c04Leaks++
			return res, seen, hit
		}
		return mc.Result{Verdict: "machinery", Clause: "bubble: " + msg}, seen, hit
	}
	return res, seen, hit
}

var c04Leaks int64

// c04InWorkerLoop reports whether the select being decided belongs to a replay worker
// loop (rdbReplay / rdbReplayBisync): only those run on a single goroutine whose
// choice points are ordered.
func c04InWorkerLoop() bool {
	pcs := make([]uintptr, 12)
	n := runtime.Callers(2, pcs)
	frames := runtime.CallersFrames(pcs[:n])
	for {
		f, more := frames.Next()
		if strings.Contains(f.Function, ").rdbReplay") {
			return true
		}
		if !more {
			return false
		}
	}
}

func c04Oracle(scn c04Scenario, built *rdbBuilt, out *rdbOutcome, damaged bool) mc.Result {
	srv := out.Srv
	if len(srv.MachineryErrors) > 0 {
		return mc.Result{Verdict: "machinery", Clause: "double: " + strings.Join(srv.MachineryErrors, "; ")}
	}
	mode := "plain"
	if scn.Cfg.Bisync {
		mode = "bisync"
	}
	prefix := "C04:" + scn.Mode
	execLog := srv.ExecLog()
	logStr := rdbReqStrings(execLog)
	cp := c04CpWritten(execLog)
	detail := func(extra map[string]interface{}) map[string]interface{} {
		m := map[string]interface{}{"target_log": rdbTail(logStr, 40), "send_error": fmt.Sprint(out.Err), "send_returned": out.Ended,
			"checkpoint_with_snapshot_offset": cp, "rdb_bytes": len(built.File), "rdb_hex": fmt.Sprintf("%x", rdbClip(built.File)), "replay_mode": mode}
		for k, v := range extra {
			m[k] = v
		}
		return m
	}
	if out.Runaway {
		return mc.Violation(fmt.Sprintf("the replay sent more than %d requests for a snapshot of %d bytes and was stopped by the harness", c04MaxReq, len(built.File)), prefix+":runaway-commands", detail(nil))
	}
	if !out.Ended {
		return mc.Violation("the replay neither finished nor failed within 60 virtual seconds", prefix+":hang", detail(map[string]interface{}{"leak": out.LeakCheck}))
	}
	recorded := out.Err == nil || cp
	// is everything there? (the C03 oracle on the final state, whatever Send said)
	judge := *out
	judge.Err = nil
	state := rdbOracle("C03", scn.rdbScenario, built, &judge)
	complete := state.Verdict == "ok"
	if state.Verdict == "machinery" {
		return state
	}
	obs := mc.Hash(append(logStr, fmt.Sprint(out.Err != nil), fmt.Sprint(cp))...)
	if damaged {
		switch {
		case cp && !complete:
			return mc.Violation("damaged snapshot: resume position advanced to the snapshot offset although entries are missing", prefix+":checkpoint-written", detail(map[string]interface{}{"missing": state.Clause, "state_sig": state.Sig}))
		case out.Err == nil && !complete:
			return mc.Violation("damaged snapshot: Send returned nil although entries are missing", prefix+":accepted-incomplete", detail(map[string]interface{}{"missing": state.Clause, "state_sig": state.Sig}))
		case out.Err == nil:
			// accepted, and the dataset is complete and correct: legitimate only when the alteration turns
			// the header into an RDB version that has no checksum by definition (1-4)
			if scn.Trunc < 0 && scn.Pos >= 5 && scn.Pos <= 8 {
				hdr := append([]byte(nil), built.File[5:9]...)
				hdr[scn.Pos-5] = byte(scn.Val)
				if v, err := strconv.Atoi(string(hdr)); err == nil && v >= 1 && v <= 4 {
					r := mc.OK(obs, true, out.Events)
					r.Detail = "accepted-complete"
					return r
				}
			}
			return mc.Violation("damaged snapshot: an altered byte was not noticed (Send returned nil and the snapshot offset was recorded)", prefix+":accepted-unverified", detail(nil))
		}
		return mc.OK(obs, len(execLog) > 1, out.Events)
	}
	if recorded && !complete {
		how := "send-nil"
		if cp {
			how = "checkpoint"
		}
		return mc.Violation("the replay is recorded as complete ("+how+") although snapshot entries are missing on the target", prefix+":"+mode+":recorded-complete:"+how,
			detail(map[string]interface{}{"missing": state.Clause, "state_sig": state.Sig, "state_detail": state.Detail}))
	}
	return mc.OK(obs, true, out.Events)
}

// ---------------------------------------------------------------------------
// enumeration

func c04FaultConfigs(tier string) []rdbCfg {
	var out []rdbCfg
	pars, pipes := []int{1, 2, 3}, []int{1, 2, 1024}
	for _, bi := range []bool{false, true} {
		for _, restore := range []bool{true, false} {
			for _, par := range pars {
				for _, ps := range pipes {
					if tier != "thorough" && ((par == 3 && ps == 2) || (par == 2 && ps == 1 && restore)) {
						continue
					}
					out = append(out, rdbCfg{Restore: restore, BulkLen: c03BigBulk, Parallel: par, DbMode: "id", Resume: true, Bisync: bi, PipeSize: ps})
				}
			}
		}
	}
	return out
}

func runC04(t *testing.T, rep *mc.Reporter) {
	shard, nshards := mc.ShardOf()
	tier := mc.Tier()
	budget := &mc.Budget{Deadline: mc.DeadlineFromEnv()}
	if rp, err := mc.LoadReplay(); err != nil {
		rep.Machinery("cannot load replay: "+err.Error(), nil)
		return
	} else if rp != nil {
		if bscn, ok := c04bIsReplay(rp.Scenario); ok {
			// family "bisync into a cluster" (c04b_test.go)
			r, _ := c04bExec(t, bscn)
			rep.Exec(bscn, rp.Choices, r)
			return
		}
		var scn c04Scenario
		if err := json.Unmarshal(rp.Scenario, &scn); err != nil {
			rep.Machinery("bad replay scenario: "+err.Error(), nil)
			return
		}
		rep.Exec(scn, rp.Choices, c04Exec(t, scn, mc.NewChooser(rp.Choices)))
		return
	}
	idx := 0
	mine := func() bool { idx++; return idx%nshards == shard && !budget.Expired() }
	// development aid: VERIF_C04_FAMILY=damage|fault|preempt|cluster restricts a run to one family
	// (never set by bin/check; evidence is always produced from the full enumeration)
	only := os.Getenv("VERIF_C04_FAMILY")

	// ---- (a) damage
	type dmg struct {
		base  rdbScenario
		tail  int
		eager []bool
	}
	var plan []dmg
	for _, base := range c04DamageSnapshots() {
		plan = append(plan, dmg{base, 0, []bool{false}})
	}
	// the same damage with channel.verifyCrc switched on, for five snapshots: whatever the flag says about
	// the cache layer, a snapshot replayed from a reader that verified nothing must still be checked
	for i, base := range c04DamageSnapshots() {
		switch base.Keys[0].Case + "/" + base.Keys[0].Enc.Kind {
		case "string/short/raw", "hash/small/listpack", "stream/samefields/v1", "chunk/h/4/table", "set/int16/intset16":
			if i >= 0 && len(base.Keys) >= 1 && !base.Cfg.Restore {
				b := base
				b.Cfg.VerifyCrc = true
				plan = append(plan, dmg{b, 0, []bool{false}})
			}
		}
	}
	for _, base := range c04DamageSnapshots() {
		if len(base.Keys) > 1 { // the multi-key file with expiry / idle / two databases
			b := base
			b.Cfg.VerifyCrc = true
			plan = append(plan, dmg{b, 0, []bool{false}})
		}
	}
	// (a2) damage near the end of multi-key snapshots while the pipes between parser,
	// distributor and worker are full: RdbPipeSize 1 and 2, one worker, with a target that
	// processes nothing until every goroutine of the tool is blocked (default stepping:
	// deterministic, see c04PressureSnapshots) and with a target that answers at once (the
	// goroutines of the tool then race; the oracle holds for every interleaving, so such an
	// execution is judged from a single observation and not re-run)
	for _, base := range c04PressureSnapshots() {
		for _, ps := range []int{1, 2} {
			for _, restore := range []bool{true, false} {
				b := base
				b.Cfg = rdbCfg{Restore: restore, BulkLen: c03BigBulk, Parallel: 1, DbMode: "id", Resume: true, PipeSize: ps}
				plan = append(plan, dmg{b, 60, []bool{false, true}})
			}
		}
		if tier == "thorough" {
			b := base
			b.Cfg = rdbCfg{Restore: true, BulkLen: c03BigBulk, Parallel: 2, DbMode: "id", Resume: true, PipeSize: 2, Bisync: true}
			plan = append(plan, dmg{b, 60, []bool{false}})
		}
	}
	for _, d := range plan {
		base := d.base
		if budget.Expired() || (only != "" && only != "damage") {
			break
		}
		built, err := rdbBuild(base, c04Now)
		if err != nil {
			rep.Machinery("generator: "+err.Error(), nil)
			return
		}
		vars := c04Variants(built.File, tier, d.tail, built.TypeAt)
		// the probe only looks at the bytes: its shard filter follows the first pass over the variants
		pr, err := c04Probe(base, tier, d.tail, idx+1, shard, nshards, len(vars))
		if err != nil {
			rep.Machinery("probe: "+err.Error(), nil)
			return
		}
		rep.Count("probe_children", int64(pr.spawned))
		for pass, eager := range d.eager {
			for i, v := range vars {
				var take bool
				if pass == 0 {
					take = mine()
				} else {
					// later passes run the variants the first pass (and therefore the probe) covered in this shard
					take = pr.class[i] != 0 && !budget.Expired()
				}
				if !take {
					continue
				}
				scn := c04Scenario{rdbScenario: base, Mode: "damage", Trunc: v.Trunc, ErrKind: v.ErrKind, Pos: v.Pos, Val: v.Val, CancelAt: -1, Tail: d.tail, Eager: eager}
				det := map[string]interface{}{"variant": v.String(), "rdb_hex": fmt.Sprintf("%x", rdbClip(built.File)), "damaged_hex": fmt.Sprintf("%x", rdbClip(v.apply(built.File)))}
				if d.tail == 0 {
					det["rdb_hex"], det["damaged_hex"] = fmt.Sprintf("%x", built.File), fmt.Sprintf("%x", v.apply(built.File))
				}
				switch pr.class[i] {
				case 0:
					rep.Machinery(fmt.Sprintf("probe child skipped variant %d of %s", i, base.Keys[0].Case), nil)
					return
				case 'X':
					if pass > 0 {
						continue
					}
					det["child_stderr"] = pr.stderr[i]
					det["address_space_limit_kib"] = c04ProbeLimit
					rep.Scenario()
					if n, ok := c04AllocRequest(pr.stderr[i]); ok {
						det["allocation_request_bytes"] = n
						if n < c04CrashAlloc {
							// refused only because of the probe's own address-space limit: counted, not judged
							rep.Count("huge_alloc_variants", 1)
							rep.Exec(scn, nil, mc.OK(mc.Hash("huge-alloc", base.Keys[0].Case, v.String()), true, 0))
							continue
						}
						rep.Exec(scn, nil, mc.Violation("parsing a damaged snapshot asks for a terabyte-sized allocation, which kills the process", "C04:damage:crash-out-of-memory", det))
						continue
					}
					rep.Exec(scn, nil, mc.Violation("parsing a damaged snapshot kills the process", "C04:damage:crash", det))
					continue
				case 'R':
					if pass > 0 {
						continue
					}
					rep.Scenario()
					det["commands_before_giving_up"] = c04MaxCmds
					rep.Exec(scn, nil, mc.Violation("one entry of a damaged snapshot expands into an unbounded stream of commands (the replay would never end)", "C04:damage:runaway-commands", det))
					continue
				case 'S':
					if pass > 0 {
						continue
					}
					det["child_stderr"] = pr.stderr[i]
					rep.Scenario()
					det["objects_allocated_before_giving_up"] = c04MaxObjects
					rep.Exec(scn, nil, mc.Violation("a decoder loops without end on a damaged snapshot (the replay worker would spin for ever and Send never return)", "C04:damage:endless-loop", det))
					continue
				case 'b', 'B':
					if pass > 0 {
						continue
					}
					// more than 64 MiB allocated for a tiny input, but the parse came back: an
					// observation, not run again in this process
					rep.Count("big_alloc_variants", 1)
					rep.Scenario()
					rep.Exec(scn, nil, mc.OK(mc.Hash("big-alloc", base.Keys[0].Case, v.String()), true, 0))
					continue
				}
				if d.tail > 0 {
					rep.Count("tail_damage_executions", 1)
				}
				if eager || base.Cfg.Parallel > 1 {
					rep.Scenario()
					r := c04Exec(t, scn, nil)
					if r.Verdict == "ok" && r.Detail == "accepted-complete" {
						rep.Count("damage_accepted_but_complete", 1)
						r.Detail = nil
					}
					rep.Exec(scn, nil, r)
					continue
				}
				mc.RunScenario(rep, scn, 0, budget, func(ch *mc.Chooser) mc.Result {
					r := c04Exec(t, scn, ch)
					if r.Verdict == "ok" && r.Detail == "accepted-complete" {
						rep.Count("damage_accepted_but_complete", 1)
						r.Detail = nil
					}
					return r
				})
			}
		}
	}

	// ---- (b) target errors, (c) cancellation
	for _, base := range c04FaultSnapshots() {
		for _, cfg := range c04FaultConfigs(tier) {
			if budget.Expired() || (only != "" && only != "fault") {
				break
			}
			scn0 := c04Scenario{rdbScenario: base, Mode: "clean", Trunc: -1, Pos: -1, CancelAt: -1}
			scn0.Cfg = cfg
			// learn the number of target requests of the undisturbed run (cheap, every shard does it)
			var requests int
			var cleanRes mc.Result
			msg := bubble(t, func() {
				time.Sleep(1234567 * time.Microsecond)
				built, err := rdbBuild(scn0.rdbScenario, c04Now)
				if err != nil {
					cleanRes = mc.Result{Verdict: "machinery", Clause: err.Error()}
					return
				}
				out := rdbRun(scn0.rdbScenario, built, nil, nil)
				requests = out.Requests
				cleanRes = rdbOracle("C04:clean", scn0.rdbScenario, built, out)
				if cleanRes.Verdict == "ok" && !c04CpWritten(out.Srv.ExecLog()) {
					cleanRes = mc.Result{Verdict: "machinery", Clause: "undisturbed run wrote no checkpoint with the snapshot offset"}
				}
				out.Srv.KillConns()
			})
			if msg != "" {
				cleanRes = mc.Result{Verdict: "machinery", Clause: "bubble: " + msg}
			}
			if cleanRes.Verdict != "ok" {
				// an undisturbed run that already fails is C03's business; report once
				if mine() {
					rep.Scenario()
					rep.Exec(scn0, nil, cleanRes)
				}
				continue
			}
			for k := 1; k <= requests; k++ {
				if !mine() {
					continue
				}
				scn := scn0
				scn.Mode, scn.FailAt = "target-error", k
				mc.RunScenario(rep, scn, 0, budget, func(ch *mc.Chooser) mc.Result { return c04Exec(t, scn, ch) })
			}
			// the error TEXT and the key-exists policy: the replay classifies some replies by their text (RESTORE:
			// "BUSYKEY Target key name already exists" / "Target key name is busy" = the key is there, "Bad data
			// format" = fall back to native commands). Every text a server can send while the key does NOT exist -
			// among them near-misses of those fragments - at every request, under every policy, for the
			// one-worker configurations. The target is empty, so none of them may be taken for "key exists".
			if cfg.Parallel == 1 && cfg.PipeSize == 1024 {
				for _, text := range c04ErrorTexts {
					for _, policy := range []string{"replace", "ignore", "error"} {
						for k := 1; k <= requests; k++ {
							if !mine() {
								continue
							}
							scn := scn0
							scn.Mode, scn.FailAt, scn.ErrText = "target-error", k, text
							scn.Cfg.Policy = policy
							rep.Count("target_error_text_executions", 1)
							mc.RunScenario(rep, scn, 0, budget, func(ch *mc.Chooser) mc.Result { return c04Exec(t, scn, ch) })
						}
					}
				}
			}
			// the k-th executed command fails when it runs (inside EXEC for bidirectional units); the connections
			// are lost before the k-th request
			for k := 1; k <= requests; k++ {
				if !mine() {
					continue
				}
				scn := scn0
				scn.Mode, scn.ExecAt = "target-exec-error", k
				mc.RunScenario(rep, scn, 0, budget, func(ch *mc.Chooser) mc.Result { return c04Exec(t, scn, ch) })
			}
			for k := 0; k < requests; k++ {
				if !mine() {
					continue
				}
				scn := scn0
				scn.Mode, scn.DropAt = "target-drop", k
				mc.RunScenario(rep, scn, 0, budget, func(ch *mc.Chooser) mc.Result { return c04Exec(t, scn, ch) })
			}
			for k := 0; k < requests; k++ {
				if !mine() {
					continue
				}
				scn := scn0
				scn.Mode, scn.CancelAt = "cancel", k
				if cfg.Parallel == 1 {
					scn.Bound = 2
				}
				mc.RunScenario(rep, scn, scn.Bound, budget, func(ch *mc.Chooser) mc.Result { return c04Exec(t, scn, ch) })
			}
		}
	}
	// ---- (d) preemption family: pkg/rdb/rdb.go, syncer/output.go and syncer/bisync_rdb.go are
	// built with the yield transform; at every wake-up statement reached (channel send/receive,
	// chosen select case, go, close, Unlock, Done, ...) the running goroutine may step aside
	// until every other goroutine is blocked. All placements of up to pbound preemptions, for
	// an undisturbed replay, a target error at one entry and a cancellation while workers
	// still hold queued entries.
	pbound := 1
	if tier == "thorough" {
		pbound = 2
	}
	for si, base := range c04PreemptSnapshots() {
		if only != "" && only != "preempt" {
			break
		}
		for _, bi := range []bool{false, true} {
			for _, par := range []int{1, 2, 3} {
				for _, ps := range []int{1, 1024} {
					type flt struct {
						mode string
						at   int
					}
					// target error at the 3rd / 5th request (connection set-up, then requests of the first
					// entries); cancellation before the 1st / 3rd request, i.e. after the last snapshot byte
					// was parsed (small files are parsed before the first reply) with entries still queued
					for _, fl := range []flt{{"clean", 0}, {"target-error", 3}, {"target-error", 5}, {"cancel", 1}, {"cancel", 3}} {
						if tier != "thorough" && ((par == 3 && ps == 1024 && si == 1) || (par == 2 && ps == 1 && bi)) {
							continue
						}
						if !mine() {
							continue
						}
						scn := c04Scenario{rdbScenario: base, Mode: fl.mode, Trunc: -1, Pos: -1, CancelAt: -1, Preempt: true}
						scn.Cfg = rdbCfg{Restore: si == 0, BulkLen: c03BigBulk, Parallel: par, DbMode: "id", Resume: true, Bisync: bi, PipeSize: ps}
						switch fl.mode {
						case "target-error":
							scn.FailAt = fl.at
						case "cancel":
							scn.CancelAt = fl.at
						}
						rep.Scenario()
						explorePreempt(rep, budget, pbound, func(plan []string, res mc.Result) {
							s := scn
							s.Plan = plan
							rep.Count("preemption_executions", 1)
							rep.Exec(s, nil, res)
						}, func(plan []string) (mc.Result, []string, []string) {
							s := scn
							s.Plan = plan
							return c04ExecPlan(t, s, nil)
						})
					}
				}
			}
		}
	}
	// ---- (d2) cancellation at every wake-up statement: an undisturbed run collects the points reached;
	// then one execution per point in which the goroutine arriving there cancels the replay context and
	// steps aside until every other goroutine has reacted
	for si, base := range c04PreemptSnapshots() {
		if only != "" && only != "preempt" {
			break
		}
		for _, bi := range []bool{false, true} {
			for _, par := range []int{1, 2, 3} {
				for _, ps := range []int{1, 1024} {
					if tier != "thorough" && par == 3 && ps == 1024 {
						continue
					}
					if !mine() {
						continue
					}
					scn := c04Scenario{rdbScenario: base, Mode: "clean", Trunc: -1, Pos: -1, CancelAt: -1, Preempt: true}
					scn.Cfg = rdbCfg{Restore: si == 0, BulkLen: c03BigBulk, Parallel: par, DbMode: "id", Resume: true, Bisync: bi, PipeSize: ps}
					rep.Scenario()
					res, seen, _ := c04ExecPlan(t, scn, nil)
					rep.Exec(scn, nil, res)
					if res.Verdict != "ok" {
						continue
					}
					for _, pt := range seen {
						if budget.Expired() {
							break
						}
						s2 := scn
						s2.Mode, s2.CancelPoint, s2.Plan = "cancel-at-point", pt, []string{pt}
						r, _, hit := c04ExecPlan(t, s2, nil)
						if r.Verdict == "violation" {
							if r2, _, _ := c04ExecPlan(t, s2, nil); r2.Verdict != r.Verdict || r2.Sig != r.Sig {
								r = mc.Result{Verdict: "machinery", Clause: fmt.Sprintf("violation not reproducible with cancellation at %s: %s vs %s/%s", pt, r.Sig, r2.Verdict, r2.Sig)}
							}
						}
						if len(hit) == 0 {
							rep.Count("cancel_points_not_reached", 1)
						}
						rep.Count("cancel_at_point_executions", 1)
						rep.Exec(s2, nil, r)
					}
				}
			}
		}
	}
	// ---- (e) bidirectional replay into a cluster: the only combination with the extra "global lane" task
	// (function libraries / scripts fanned out to every primary); see c04b_test.go
	if only == "" || only == "cluster" {
		c04bEnumerate(t, rep, budget, tier, mine)
	}
	rep.Count("executions_leaving_a_blocked_goroutine", c04Leaks)
	if budget.Expired() {
		rep.Capped("deadline reached before all scenarios were explored")
	}
}

package syncer

// C05 - "the local cache returns exactly the bytes written, at the offsets written".
//
// Explicit-state breadth-first search over cache OPERATION SEQUENCES executed on the
// real objects through the Channel interface (StoreChannel on a scratch directory and
// MemoryChannel). A state is the operation sequence that reaches it (live objects cannot
// be cloned: every execution replays its sequence on fresh objects inside one synctest
// bubble). Sequences reaching an already seen canonical state are not extended.
//
// Reference model: per history a byte function byte = f(history, kind, offset); the
// model keeps the label (run id), the history number, the optional snapshot and the
// [aofStart,right) range that was fed. Every byte any reader delivers is compared with
// f at the reader's history and offset.

import (
	"context"
	"encoding/binary"
	"errors"
	"encoding/json"
	"fmt"
	"os"
	"path/filepath"
	"runtime"
	"runtime/debug"
	"sort"
	"strings"
	"sync"
	"syscall"
	"testing"
	"testing/synctest"
	"time"

	"github.com/mgtv-tech/redis-GunYu/config"
	"github.com/mgtv-tech/redis-GunYu/pkg/common"
	"github.com/mgtv-tech/redis-GunYu/pkg/store"
	usync "github.com/mgtv-tech/redis-GunYu/pkg/sync"
	"github.com/mgtv-tech/redis-GunYu/verifshim/mc"
	"github.com/mgtv-tech/redis-GunYu/verifshim/ref"
	"github.com/mgtv-tech/redis-GunYu/verifshim/vpoll"
)

func init() { verifChecks["C05"] = runC05 }

const (
	c05Base     = int64(96) // first offset; 96+L.. crosses the 2->3 digit boundary of file names
	c05MaxRd    = 3         // reader slots (a configuration uses 2 or 3 of them)
	c05Horizon  = 40 // poll periods (ticks) a reader gets to deliver bytes that are present
	c05Settle   = 3  // poll periods after every event
	c05Sweeps   = 6  // rounds of "every parked poller polls once" an operation gets before it counts as dead-locked
)

type c05Cfg struct {
	Backend string `json:"backend"`         // "disk" | "mem"
	L       int64  `json:"L"`               // data bytes per segment before rotation
	Max     int64  `json:"max"`             // MaxSize of the cache
	Crc     bool   `json:"crc,omitempty"`   // config Channel.VerifyCrc (disk: readers verify sealed segments / snapshots)
	Slots   int    `json:"slots,omitempty"` // readers a sequence may hold open (0 = 2)
	Alpha   string `json:"alpha,omitempty"` // "" = full alphabet | "r3" = reduced alphabet of the three-reader configuration | "big" = reduced alphabet of the large-block configuration
	Foot    string `json:"foot,omitempty"`  // last 8 snapshot bytes: "" = CRC-64 of the rest | "zero" = all zero (source with rdbchecksum no) | "bad" = a wrong checksum
	Shift   int64  `json:"shift,omitempty"` // first offset = 96 + Shift (-91 => 5: rdb.left-size is negative; -96 => 0: every "0 means none" default is a real offset)
}

func (c c05Cfg) base() int64 { return c05Base + c.Shift }

func (c c05Cfg) String() string {
	s := fmt.Sprintf("%s,L=%d,max=%d", c.Backend, c.L, c.Max)
	if c.Crc {
		s += ",crc"
	}
	if c.Slots > 0 {
		s += fmt.Sprintf(",slots=%d", c.Slots)
	}
	if c.Alpha != "" {
		s += ",alpha=" + c.Alpha
	}
	if c.Shift != 0 {
		s += fmt.Sprintf(",base=%d", c.base())
	}
	if c.Foot != "" {
		s += ",foot=" + c.Foot
	}
	return s
}

func (c c05Cfg) slots() int {
	if c.Slots > 0 && c.Slots <= c05MaxRd {
		return c.Slots
	}
	return 2
}

// c05R3 is the alphabet of the three-reader configuration: enough to put three started
// (or unstarted) readers on one segment and then reset, switch id, replace the writer or
// append/rotate.
// c05Big is the alphabet of the large-block configuration (L = 9000: every append, snapshot,
// segment and verification pass spans several 4 KiB / 8 KiB buffers; the reader pipe is one
// 8 KiB ring, so it wraps, and "PL" starts a reader whose consumer is held back until the
// final probes, so its pump stalls in a full pipe).
var c05Big = map[string]bool{"aof+": true, "delX": true, "rdbF": true, "rdbH": true, "aof": true, "aofD": true, "f1": true, "fb": true, "fc": true, "fd": true, "eof": true,
	"oL": true, "OL": true, "PL": true, "OR": true, "oS-": true, "oM": true, "c0": true, "s0": true, "del": true, "sidN": true, "reo": true, "rdbF~": true}

var c05R3 = map[string]bool{"aof-": true, "aof+": true, "delX": true, "aof": true, "aofD": true, "fb": true, "fd": true, "eof": true, "OL": true, "OR": true, "oL": true, "oR": true,
	"s0": true, "c0": true, "c1": true, "rdbF": true, "rdbF~": true, "del": true, "del~": true, "sidN": true, "reo": true}
func (c c05Cfg) large() bool    { return c.Max >= 1<<20 || c.Max < 0 }

type c05Scenario struct {
	Cfg c05Cfg   `json:"cfg"`
	Ops []string `json:"ops"`
	// preemption family (disk): fixed script Pre, preemption plan Plan ("<file:line>#<k>")
	Pre  string   `json:"pre,omitempty"`
	Plan []string `json:"plan,omitempty"`
}

func c05Byte(hist int, kind int, idx int64) byte {
	return byte(41*(2*(hist%3)+kind) + int(idx%41))
}

func c05Bytes(hist, kind int, from, n int64) []byte {
	b := make([]byte, n)
	for i := int64(0); i < n; i++ {
		b[i] = c05Byte(hist, kind, from+i)
	}
	return b
}

// c05Snap: the snapshot of a history: size-8 pattern bytes followed by their CRC-64/Jones
// (little endian) - the trailer a verifying snapshot reader (Channel.VerifyCrc) checks.
func c05SnapBytes(hist int, size int64) []byte {
	b := c05Bytes(hist, 1, 0, size)
	if size > 8 {
		switch c05Foot {
		case "zero":
			binary.LittleEndian.PutUint64(b[size-8:], 0)
		case "bad":
			binary.LittleEndian.PutUint64(b[size-8:], ref.RDBCRC64(0, b[:size-8])^0x5a5a)
		default:
			binary.LittleEndian.PutUint64(b[size-8:], ref.RDBCRC64(0, b[:size-8]))
		}
	}
	return b
}

// c05Foot is the footer shape of the execution that is running (set from its configuration;
// executions of one process run one after the other).
var c05Foot string

// ---------------------------------------------------------------------------
// environment of one execution

type c05Snap struct {
	left, size, written int64
	complete            bool
}

type c05Writer struct {
	kind  string // "rdb" | "aof"
	g     *gate
	h     RdbChannelWriter
	mu    sync.Mutex
	done  bool
	err   error
	stale bool
}

func (w *c05Writer) isDone() bool {
	w.mu.Lock()
	defer w.mu.Unlock()
	return w.done
}

type c05Reader struct {
	cr      ChannelReader
	wait    usync.WaitCloser
	aof     bool
	hist    int
	pos     int64 // offset of the first byte it delivers (aof) / 0 (rdb)
	size    int64
	started bool
	probe   bool
	// oracle state
	invalid    bool  // opened before a history-changing reset
	paused     bool  // started, but the harness does not read from it yet (pump stalls once the pipe is full)
	rescanned  bool  // a SetRunId (directory re-scan) happened while it was open
	mustEnd    bool  // invalidated by a reset (new snapshot, DelRunId): once started it has to end or fail
	rxFailed   bool  // it read a snapshot whose reception failed (the snapshot left the cache): the end of what it reads
	limit      int64 // when invalid: first offset/index it may NOT deliver
	mustFollow bool
	checked    int
	mu         sync.Mutex
	got        []byte
	ended      bool
	rerr       error
	exited     bool
	label      string
}

func (r *c05Reader) snapshot() (n int, ended bool) {
	r.mu.Lock()
	defer r.mu.Unlock()
	return len(r.got), r.ended
}

type c05Env struct {
	t   *testing.T
	cfg c05Cfg
	dir string
	ch  Channel

	runID  string
	lastID string
	prevID string // the id selected before the current one (renamed away or deleted)
	idSeq  int
	hist   int
	snap   *c05Snap
	// aof model: [aofStart,right) fed, -1 = none
	aofStart int64
	right    int64
	hi       int64
	w        *c05Writer
	stales   []*c05Writer
	readers  [c05MaxRd]*c05Reader
	allRd    []*c05Reader

	wedged    func(mc.Result) // reports a wedged execution and never returns
	refusals  int // opens of the stored snapshot refused with a corruption error (footer shapes, verification on)
	graced    bool
	leakedRdbReader bool // a never-started disk snapshot reader was closed by its owner (still registered in the data set)
	gen       uint64 // vpoll generation of this execution
	loose     bool            // a writer away from the right edge was accepted: no exact range equality any more
	snapOnlyLoose bool        // ... accepted on a cache that held only a snapshot, and its log has no byte yet
	gapLo, gapHi int64        // hole left by such a writer [gapLo,gapHi): offsets in it were never written
	wakeDesc  bool            // during the current operation poll timers fire in reverse park order
	snapStalled bool          // memory snapshot writer is waiting for space with all bytes handed over
	lastOp    string          // last structural op (signature context)
	events    int
	delivered int
	viol      *mc.Result
	trace     []string
}

func (e *c05Env) disk() bool { return e.cfg.Backend == "disk" }

// exact: the reported view must equal the model (nothing can be collected, no writer was
// accepted away from the right edge).
func (e *c05Env) exact() bool { return e.cfg.large() && !e.loose }

// hiRight: one past the highest offset ever fed in the current history (the cache may
// have been emptied by the collector and refilled from a lower offset since).
func (e *c05Env) hiRight() int64 {
	if e.right > e.hi {
		e.hi = e.right
	}
	return e.hi
}

func (e *c05Env) fail(clause, kind string, detail map[string]interface{}) {
	if e.viol != nil {
		return
	}
	if detail == nil {
		detail = map[string]interface{}{}
	}
	detail["trace"] = append([]string(nil), e.trace...)
	detail["cfg"] = e.cfg.String()
	ctx := e.lastOp
	if kind == "rdb-offer" || kind == "rdb-offered-unreadable" {
		ctx = "snapshot" // one signature per back end, whatever operation made the snapshot incomplete
	}
	v := mc.Violation(clause, fmt.Sprintf("C05:%s:%s:%s", kind, e.cfg.Backend, ctx), detail)
	e.viol = &v
}

func wallNow() int64 {
	var tv syscall.Timeval
	syscall.Gettimeofday(&tv)
	return tv.Sec*1e6 + int64(tv.Usec)
}

func wallSince(t0 int64) time.Duration { return time.Duration(wallNow()-t0) * time.Microsecond }

func (e *c05Env) logf(format string, a ...interface{}) {
	e.trace = append(e.trace, fmt.Sprintf(format, a...))
}

// stillCurrent parks the calling (main) goroutine of an execution that the driver has
// given up on (watchdog): it must not touch the poll timers of a later execution.
func (e *c05Env) stillCurrent() {
	if vpoll.Gen() != e.gen {
		<-c05Never
	}
}

// tickSeq lets one poll period elapse for every parked poller, one poller at a time in
// park order (so that the park order - and with it every later wake order - stays a
// deterministic function of the operation sequence).
func (e *c05Env) tickSeq() {
	e.stillCurrent()
	for _, t := range vpoll.Tickets() {
		vpoll.Wake(t)
		synctest.Wait()
	}
}

func (e *c05Env) settle() {
	synctest.Wait()
	if e.disk() {
		for i := 0; i < c05Settle; i++ {
			e.tickSeq()
		}
	}
}

// waitUntil lets poll periods elapse until cond holds or the horizon is reached.
func (e *c05Env) waitUntil(cond func() bool) bool {
	synctest.Wait()
	if cond() {
		return true
	}
	if !e.disk() {
		return false
	}
	for i := 0; i < c05Horizon; i++ {
		e.tickSeq()
		if cond() {
			return true
		}
	}
	return false
}

// polling: a started disk segment reader whose pump may be parked in its poll loop
// (it holds the reader's mutex while parked).
func (r *c05Reader) polling() bool {
	if !r.started || !r.aof {
		return false
	}
	sr, ok := r.cr.(*store.Reader)
	if !ok {
		return false
	}
	r.mu.Lock()
	ex := r.exited
	r.mu.Unlock()
	return !ex && !sr.VerifAofClosed()
}

func (r *c05Reader) closedByImpl() bool {
	sr, ok := r.cr.(*store.Reader)
	return ok && sr.VerifAofClosed()
}

// call runs one cache operation that may close started disk readers synchronously.
// Such a Close blocks on the mutex a parked poller holds, so the operation runs in a
// helper goroutine while this goroutine lets poll periods elapse (see spinUntil for
// when).
func (e *c05Env) call(resetLike bool, f func()) {
	if !e.disk() {
		f()
		return
	}
	done := make(chan struct{})
	started := make(chan struct{})
	go func() {
		defer close(done)
		close(started)
		f()
	}()
	<-started // the helper is running before its state is sampled
	e.spinUntil(func() bool {
		select {
		case <-done:
			return true
		default:
			return false
		}
	})
}

// awaitExit lets poll periods elapse until the reader's goroutines are gone.
func (e *c05Env) awaitExit(r *c05Reader) {
	if !r.started {
		return
	}
	if !e.disk() {
		synctest.Wait()
	}
	e.spinUntil(func() bool {
		r.mu.Lock()
		defer r.mu.Unlock()
		return r.exited
	})
}

// spinUntil waits until cond holds while a cache operation (or a Close) runs on another
// goroutine. synctest.Wait cannot be used here: the operation may be blocked on the
// mutex of a parked poller, which is not "durably blocked". Quiescence is therefore
// observed through the goroutine states of the bubble (all others blocked). At every
// quiescent point where cond does not hold yet, ONE parked poller's period elapses, in
// park order (or reverse park order when e.wakeDesc is set: the order in which the
// timers of concurrently polling readers fire is the environment's choice). If all
// parked pollers have had their turn c05Sweeps times and cond still does not hold while
// some goroutine sits on a lock, nothing in the closed system can make progress any
// more: dead-lock. That is reported as a violation and this goroutine parks for ever
// (the bubble is abandoned).
func (e *c05Env) spinUntil(cond func() bool) {
	var queue []uint64
	sweeps := 0
	var stuckSince int64
	for round := 1; ; round++ {
		if cond() {
			return
		}
		e.stillCurrent()
		if round%64 != 0 {
			runtime.Gosched()
			continue
		}
		if round > 64*40 {
			<-c05Pulse // real-time pause (channel fed from outside the bubble), pacing only
		}
		all, mtx := bubbleBlocked()
		if !all {
			continue
		}
		if cond() {
			return
		}
		// quiescent, cond false: let the next poller's period elapse
		if len(queue) == 0 {
			if sweeps >= c05Sweeps && len(mtx) > 0 {
				// a real dead-lock persists; a goroutine caught for an instant in front of a lock
				// does not: require the same picture again after 100 ms of real time (pacing,
				// not an oracle: the verdict is the blocked-goroutine picture)
				if stuckSince == 0 {
					stuckSince = wallNow()
				}
				if wallNow()-stuckSince < 100000 {
					<-c05Pulse
					continue
				}
			}
			if sweeps >= c05Sweeps {
				if len(mtx) == 0 && !e.graced {
					// diagnostic grace: does cond become true by itself a little later?
					e.graced = true
					t0 := wallNow()
					for wallNow()-t0 < 2000000 {
						if cond() {
							c05LateConds++
							e.graced = false
							return
						}
						<-c05Pulse
					}
				}
				if len(mtx) == 0 {
					buf := make([]byte, 1<<20)
					buf = buf[:runtime.Stack(buf, true)]
					var hdrs []string
					for _, b := range strings.Split(string(buf), "\n\n") {
						if !strings.Contains(b, "synctest bubble") {
							ls := strings.Split(b, "\n")
							k := len(ls)
							if k > 7 {
								k = 7
							}
							hdrs = append(hdrs, "UNTAGGED "+strings.Join(ls[:k], " | "))
						}
						if strings.Contains(b, "synctest bubble") {
							ls := strings.Split(b, "\n")
							k := len(ls)
							if k > 9 {
								k = 9
							}
							hdrs = append(hdrs, strings.Join(ls[:k], " | "))
						}
					}
					panic("c05: operation does not return although no goroutine is blocked on a lock; parked=" + fmt.Sprint(vpoll.Parked()) + " round=" + fmt.Sprint(round) + " sample=" + strings.Join(c05LastSample, " ;; ") + "\n" + strings.Join(hdrs, "\n"))
				}
				cls := "other"
				joined := strings.Join(mtx, " | ")
				switch {
				case strings.Contains(joined, "dataSetRdb).DelReader"), strings.Contains(joined, "dataSetRdb).DelWriter"):
					cls = "rdb-close"
				case strings.Contains(joined, "AofRotateReader).close"):
					cls = "aof-reader-close"
				}
				e.lastOp = cls // signature: one per lock cycle, not per operation that runs into it
				e.fail("a cache operation never returns: every goroutine of the cache is blocked, at least one on a lock that can no longer be released (dead-lock); readers neither end nor fail",
					"deadlock", map[string]interface{}{"blocked_on_lock": mtx})
				e.wedged(*e.viol)
			}
			sweeps++
			queue = vpoll.Tickets()
			if e.wakeDesc {
				for i, j := 0, len(queue)-1; i < j; i, j = i+1, j-1 {
					queue[i], queue[j] = queue[j], queue[i]
				}
			}
			if len(queue) == 0 {
				continue
			}
		}
		vpoll.Wake(queue[0])
		queue = queue[1:]
	}
}

// c05Pulse is fed in real time from a goroutine outside every bubble.
var c05Pulse = make(chan struct{})

func init() {
	go func() {
		for {
			time.Sleep(50 * time.Microsecond)
			select {
			case c05Pulse <- struct{}{}:
			default:
			}
		}
	}()
}

var c05StackBuf []byte
var c05LastSample []string
var c05LateConds int64

var c05Never = make(chan struct{}) // created outside every bubble: parking on it is not "durably blocked"

// bubbleBlocked inspects the goroutines of the calling goroutine's bubble: are all the
// others blocked, and which of them are blocked on a mutex (their repo frames)?
func bubbleBlocked() (all bool, mutexBlocked []string) {
	if c05StackBuf == nil {
		c05StackBuf = make([]byte, 4<<20)
	}
	buf := c05StackBuf[:runtime.Stack(c05StackBuf, true)]
	blocks := strings.Split(string(buf), "\n\n")
	tag := ""
	if i := strings.Index(blocks[0], "synctest bubble "); i >= 0 {
		tag = blocks[0][i:]
		if j := strings.IndexAny(tag, "],"); j >= 0 {
			tag = tag[:j]
		}
	}
	if tag == "" {
		return false, nil
	}
	all = true
	c05LastSample = c05LastSample[:0]
	for _, b := range blocks[1:] {
		nl := strings.Index(b, "\n")
		if nl < 0 {
			continue
		}
		hdr := b[:nl]
		lb := strings.Index(hdr, "[")
		if lb < 0 || !strings.Contains(hdr, tag+"]") && !strings.Contains(hdr, tag+",") {
			continue
		}
		st := hdr[lb+1:]
		c05LastSample = append(c05LastSample, hdr)
		switch {
		case strings.HasPrefix(st, "sync.Mutex.Lock"), strings.HasPrefix(st, "sync.RWMutex.RLock"), strings.HasPrefix(st, "sync.RWMutex.Lock"), strings.HasPrefix(st, "semacquire"):
			var frames []string
			for _, ln := range strings.Split(b[nl+1:], "\n") {
				if strings.HasPrefix(ln, "\t") || !strings.Contains(ln, "redis-GunYu/") || strings.Contains(ln, "verif") {
					continue
				}
				fn := ln
				if k := strings.Index(fn, "redis-GunYu/"); k >= 0 {
					fn = fn[k+len("redis-GunYu/"):]
				}
				if k := strings.LastIndex(fn, "("); k > 0 {
					fn = fn[:k]
				}
				frames = append(frames, fn)
				if len(frames) == 8 {
					break
				}
			}
			mutexBlocked = append(mutexBlocked, strings.Join(frames, " <- "))
		case strings.HasPrefix(st, "chan receive"), strings.HasPrefix(st, "chan send"), strings.HasPrefix(st, "select"), strings.HasPrefix(st, "sync.Cond.Wait"),
			strings.HasPrefix(st, "sync.WaitGroup.Wait"), strings.HasPrefix(st, "sleep"), strings.HasPrefix(st, "synctest"):
		default:
			all = false
		}
	}
	sort.Strings(mutexBlocked)
	return
}

func (e *c05Env) newChannel() Channel {
	if e.disk() {
		ch := NewStoreChannel(StorerConf{InputId: "c05", Dir: e.dir, MaxSize: e.cfg.Max, LogSize: e.cfg.L + 16})
		ch.(*StoreChannel).storer.VerifSetReadBufSize(8192)
		return ch
	}
	ch := NewMemoryChannel(MemoryConf{InputId: "c05", MaxSize: e.cfg.Max, LogSize: e.cfg.L})
	ch.(*MemoryChannel).readBufSize = 8192
	return ch
}

func (e *c05Env) newID() string {
	e.idSeq++
	return fmt.Sprintf("run%c", 'A'+e.idSeq-1)
}

// reported view of the cache
type c05View struct {
	l, r, rdbL, rdbS int64
	spID             string
	spOff            int64
}

func (e *c05Env) view() c05View {
	var v c05View
	v.l, v.r = e.ch.GetOffsetRange(e.runID)
	v.rdbL, v.rdbS = e.ch.GetRdb(e.runID)
	sp, _ := e.ch.StartPoint(nil)
	v.spID, v.spOff = sp.RunId, sp.Offset
	return v
}

func (e *c05Env) expected() (l, r int64, rdbOffered bool) {
	l, r = -1, -1
	if e.snap != nil {
		l, r = e.snap.left, e.snap.left
		rdbOffered = true
	}
	if e.aofStart >= 0 {
		if l < 0 || e.aofStart < l {
			l = e.aofStart
		}
		if e.right > r {
			r = e.right
		}
	}
	return
}

// memBlocked reports whether the memory writer may legitimately be waiting for space.
func (e *c05Env) memBlocked() bool {
	m, ok := e.ch.(*MemoryChannel)
	if !ok || m.maxSize <= 0 {
		return false
	}
	m.mux.RLock()
	defer m.mux.RUnlock()
	return m.totalSize+e.cfg.L > m.maxSize
}

// checkView compares the reported range / snapshot / start point with the model.
func (e *c05Env) checkView() {
	if e.viol != nil || e.runID == "" {
		return
	}
	v := e.view()
	l, r, offered := e.expected()
	d := map[string]interface{}{"reported_range": []int64{v.l, v.r}, "model_range": []int64{l, r}, "reported_rdb": []int64{v.rdbL, v.rdbS},
		"startpoint": fmt.Sprintf("%s:%d", v.spID, v.spOff)}
	if v.spID != e.runID {
		e.fail("StartPoint names another run id than the one selected", "startpoint-id", d)
		return
	}
	// questions asked with an id that is not the selected one: nothing is offered for it
	for _, id := range []string{"zz", e.prevID} {
		if id == "" || id == e.runID {
			continue
		}
		fl, fr := e.ch.GetOffsetRange(id)
		rl, rs := e.ch.GetRdb(id)
		anyValid := false
		for _, x := range []int64{-1, v.l, v.r, v.rdbL} {
			if e.ch.IsValidOffset(Offset{RunId: id, Offset: x}) {
				anyValid = true
			}
		}
		if fl != -1 || fr != -1 || rl != -1 || rs != -1 || anyValid {
			d["foreign_id"] = id
			d["foreign_answers"] = fmt.Sprintf("range=(%d,%d) rdb=(%d,%d) valid=%v", fl, fr, rl, rs, anyValid)
			e.fail("the cache answers for a run id that is not the selected one", "foreign-id", d)
			return
		}
	}
	// the unknown id "?" is valid exactly when no snapshot could be replayed (channel.go)
	if e.exact() {
		if q := e.ch.IsValidOffset(Offset{RunId: "?", Offset: -1}); q != (e.snap == nil) {
			d["question_mark_valid"] = q
			e.fail("the answer for the unknown run id \"?\" does not match the snapshot on offer", "foreign-id", d)
			return
		}
	}
	// StartPoint(ids) (the callers' way to select an id: skips \"\" and \"?\" and unknown ids)
	// must land on the selected id with the same position as StartPoint(nil)
	sp2, err := e.ch.StartPoint([]string{"", "?", "zz", e.runID})
	sp3, _ := e.ch.StartPoint([]string{"zz"})
	if err != nil || sp2.Offset != v.spOff || (sp2.RunId != e.runID && !(sp2.RunId == "?" && v.spOff < 0)) || sp3.RunId != "?" || sp3.Offset != -1 || e.ch.RunId() != e.runID {
		d["startpoint_ids"] = fmt.Sprintf("%s:%d err=%v", sp2.RunId, sp2.Offset, err)
		d["startpoint_foreign"] = fmt.Sprintf("%s:%d", sp3.RunId, sp3.Offset)
		d["selected"] = e.ch.RunId()
		e.fail("StartPoint(ids) does not select the cached id at its newest byte (or answers for an unknown id)", "startpoint-ids", d)
		return
	}
	if (v.l < 0) != (v.r < 0) || v.l > v.r {
		e.fail("reported range is not a range", "range-shape", d)
		return
	}
	if v.rdbL >= 0 && (e.snap == nil || v.rdbL != e.snap.left || v.rdbS != e.snap.size) {
		e.fail("a snapshot is offered for replay although it was not (completely) written", "rdb-offer", d)
		return
	}
	if e.loose && e.hiRight() > r {
		r = e.hiRight() // bytes right of an accepted inner writer were written once
	}
	if v.r > r && !(v.r == v.l && e.snap != nil && v.r == e.snap.left) {
		e.fail("reported right edge is beyond the bytes written", "range-beyond", d)
		return
	}
	if e.exact() {
		// no collection can happen: the reported view must equal the model
		if v.l != l || (v.r != r && !e.memBlocked()) {
			e.fail("reported range differs from the bytes written (no collection possible)", "range", d)
			return
		}
		if offered != (v.rdbL >= 0) || (offered && (v.rdbL != e.snap.left || v.rdbS != e.snap.size)) {
			d["model_rdb"] = offered
			e.fail("snapshot offer differs from the snapshot written (no collection possible)", "rdb-offer", d)
			return
		}
		if v.spOff != r && !e.memBlocked() {
			e.fail("StartPoint offset differs from the newest byte written", "startpoint", d)
			return
		}
	} else {
		if v.r >= 0 && e.aofStart >= 0 && v.l < e.aofStart && !(e.snap != nil && v.l == e.snap.left) {
			e.fail("reported left edge precedes the bytes written", "range-beyond", d)
			return
		}
	}
}

// checkReaders verifies every byte delivered so far.
func (e *c05Env) checkReaders() {
	e.hiRight()
	for _, r := range e.allRd {
		if e.viol != nil {
			return
		}
		r.mu.Lock()
		got := r.got
		ended := r.ended
		r.mu.Unlock()
		kind := 0
		if !r.aof {
			kind = 1
		}
		for i := r.checked; i < len(got); i++ {
			off := r.pos + int64(i)
			want := c05Byte(r.hist, kind, off)
			if !r.aof && r.size > 8 && off >= r.size-8 && off < r.size {
				want = c05SnapBytes(r.hist, r.size)[off]
			}
			d := map[string]interface{}{"reader": r.label, "reader_start": r.pos, "at": off, "got": got[i], "want": want, "delivered": len(got), "reader_hist": r.hist, "now_hist": e.hist}
			if got[i] != want {
				cls := "wrong-byte"
				if r.invalid {
					cls = "wrong-byte-stale-reader"
				}
				e.fail("a reader delivered a byte that is not the source byte at its offset", cls, d)
				return
			}
			if r.invalid && off >= r.limit {
				e.fail("a reader opened before a reset delivered bytes that were never part of its history", "past-reset", d)
				return
			}
			if !r.invalid && r.aof && off >= e.hiRight() {
				e.fail("a reader delivered bytes beyond the bytes written", "beyond-right", d)
				return
			}
			if !r.aof && off >= r.size {
				e.fail("a snapshot reader delivered more than the snapshot", "rdb-overrun", d)
				return
			}
		}
		if !r.probe {
			e.delivered += len(got) - r.checked
		}
		r.checked = len(got)
		_ = ended
	}
}

// expectCaughtUp: every started, valid, following reader must have delivered
// everything up to the reported right edge (virtual-time horizon).
func (e *c05Env) expectCaughtUp(ctx string) {
	if e.viol != nil || e.runID == "" {
		return
	}
	_, r := e.ch.GetOffsetRange(e.runID)
	for _, rd := range e.allRd {
		rd := rd
		if !rd.started || rd.paused || rd.invalid || !rd.mustFollow {
			continue
		}
		if rd.aof {
			if r < 0 || r < rd.pos {
				continue
			}
			ok := e.waitUntil(func() bool { n, _ := rd.snapshot(); return rd.pos+int64(n) >= r })
			if !ok {
				n, ended := rd.snapshot()
				var werr string
				if rd.wait != nil && rd.wait.Error() != nil {
					werr = rd.wait.Error().Error()
				}
				e.fail("a live reader stopped following: bytes inside the reported range were not delivered within the horizon", "stall",
					map[string]interface{}{"reader": rd.label, "reader_start": rd.pos, "delivered": n, "reported_right": r, "ended": ended, "reader_error": werr, "when": ctx})
				return
			}
		} else {
			target := int64(-1)
			if e.snap != nil && rd.hist == e.hist {
				target = e.snap.written
			}
			if target < 0 {
				continue
			}
			ok := e.waitUntil(func() bool { n, _ := rd.snapshot(); return int64(n) >= target })
			if !ok {
				n, ended := rd.snapshot()
				var werr string
				if rd.wait != nil && rd.wait.Error() != nil {
					werr = rd.wait.Error().Error()
				}
				e.fail("a snapshot reader did not deliver the snapshot bytes present", "rdb-stall",
					map[string]interface{}{"reader": rd.label, "delivered": n, "present": target, "size": rd.size, "ended": ended, "reader_error": werr, "when": ctx})
				return
			}
		}
	}
	e.checkReaders()
}

// expectInvalidatedEnded: "an invalidated reader ends or fails". Every started reader that
// was open when the cache was reset (new snapshot, DelRunId) must have ended - its
// consumer sees EOF or an error - within the horizon.
func (e *c05Env) expectInvalidatedEnded(ctx string) {
	if e.viol != nil {
		return
	}
	for _, rd := range e.allRd {
		rd := rd
		if !rd.mustEnd || !rd.started || rd.paused {
			continue
		}
		if e.waitUntil(func() bool { _, ended := rd.snapshot(); return ended }) {
			continue
		}
		n, _ := rd.snapshot()
		cls := "stale-reader-survives-reset"
		// signature context: was the reader's registration possibly lost by a directory
		// re-scan (SetRunId) before the reset, or was the reset itself incomplete?
		e.lastOp = "direct"
		if rd.rescanned {
			e.lastOp = "after-rescan"
		}
		if rd.rxFailed {
			e.lastOp = "snapshot"
			e.fail("a reader of a snapshot whose reception failed neither ends nor fails: the snapshot has left the cache, nothing can reach the reader any more and it polls for ever", "failed-snapshot-reader-survives",
				map[string]interface{}{"reader": rd.label, "reader_start": rd.pos, "delivered": n, "when": ctx, "open_readers": len(e.allRd), "now_hist": e.hist, "reader_hist": rd.hist})
			return
		}
		e.fail("a reader that was open when the cache was reset neither ends nor fails: it keeps polling (and would follow whatever segment appears under the next name)", cls,
			map[string]interface{}{"reader": rd.label, "reader_start": rd.pos, "delivered": n, "aof": rd.aof, "when": ctx, "open_readers": len(e.allRd)})
		return
	}
}

// invalidate marks every open reader as belonging to a discarded history.
func (e *c05Env) invalidate() {
	for _, r := range e.allRd {
		if r.invalid {
			continue
		}
		r.invalid = true
		r.mustEnd = true
		if r.aof {
			r.limit = e.right
			if e.right < 0 {
				r.limit = r.pos
			}
		} else {
			r.limit = 0
			if e.snap != nil {
				r.limit = e.snap.written
			}
		}
	}
}

func (e *c05Env) relax() {
	for _, r := range e.allRd {
		r.mustFollow = false
	}
}

func (e *c05Env) retireWriter() {
	e.snapStalled = false
	if e.w != nil {
		e.w.stale = true
		e.stales = append(e.stales, e.w)
		e.w = nil
	}
}

func (e *c05Env) cleanupStales() {
	for _, w := range e.stales {
		w.g.Close(nil)
		w.h.Close()
	}
}

func (e *c05Env) startWriter(kind string, g *gate, h RdbChannelWriter) {
	w := &c05Writer{kind: kind, g: g, h: h}
	e.w = w
	h.Start()
	go func() {
		err := h.Wait(context.Background())
		w.mu.Lock()
		w.done, w.err = true, err
		w.mu.Unlock()
	}()
}

// writerEnded folds a finished writer into the model.
func (e *c05Env) writerEnded() {
	w := e.w
	if w == nil || !w.isDone() {
		return
	}
	w.h.Close()
	w.g.Close(nil)
	e.w = nil
	if w.kind == "rdb" {
		w.mu.Lock()
		werr := w.err
		w.mu.Unlock()
		if e.snapStalled && werr == nil && e.snap != nil {
			// the stalled writer got its space and stored the rest
			e.snap.complete, e.snap.written = true, e.snap.size
		}
		e.snapStalled = false
		if e.snap != nil && !e.snap.complete {
			// an incompletely received snapshot must not survive
			for _, r := range e.allRd {
				if !r.aof && !r.invalid && r.hist == e.hist {
					r.invalid, r.limit = true, e.snap.written
					// the snapshot it reads has left the cache for good: like a reader open across
					// a reset it has to end or fail (nothing will ever continue its file), at the
					// latest when the next reset / DelRunId comes - invalidate() skips it then
					r.mustEnd, r.rxFailed = true, true
				}
			}
			e.snap = nil
		}
	} else if !e.loose && e.aofStart >= 0 && e.right == e.aofStart {
		e.aofStart, e.right = -1, -1
	} else if e.snapOnlyLoose && e.aofStart >= 0 && e.right == e.aofStart {
		// a writer accepted away from a snapshot-only cache's offset ended without a byte: its
		// empty segment disappears and the cache is snapshot-only again; readers opened in the
		// empty segment have nothing to follow
		e.aofStart, e.right = -1, -1
		e.snapOnlyLoose = false
		e.relax()
	}
}

// ---------------------------------------------------------------------------
// operations

func (e *c05Env) opSetRunID(id string) {
	var err error
	e.call(false, func() { err = e.ch.SetRunId(id) }) // may end readers of a replaced index
	if err != nil {
		e.fail("SetRunId failed", "op-error", map[string]interface{}{"error": err.Error()})
		return
	}
	if e.lastID != "" && e.lastID != id {
		e.prevID = e.lastID
	}
	e.runID, e.lastID = id, id
	for _, r := range e.allRd {
		r.rescanned = true
	}
	e.settle()
}

func (e *c05Env) opRdb(mode string) {
	size := 2*e.cfg.L + 3
	left := e.cfg.base()
	g := newGate()
	var h RdbChannelWriter
	var err error
	e.call(true, func() { h, err = e.ch.NewRdbWriter(g, left, size) })
	if err != nil {
		e.fail("NewRdbWriter failed", "op-error", map[string]interface{}{"error": err.Error()})
		return
	}
	e.invalidate()
	e.retireWriter()
	e.hiRight()
	e.hist++
	e.hi = 0
	e.leakedRdbReader = false
	e.snapStalled = false
	e.snap = &c05Snap{left: left, size: size}
	e.aofStart, e.right = -1, -1
	e.startWriter("rdb", g, h)
	e.settle()
	e.cleanupStales()
	e.settle()
	switch mode {
	case "F":
		e.feed(size)
	case "P", "H":
		e.feed(size / 2)
		if mode == "P" {
			e.opEOF()
		}
	}
}

func (e *c05Env) opAof() {
	sp, _ := e.ch.StartPoint(nil)
	off := sp.Offset
	e.hiRight()
	if off < 0 {
		off = e.cfg.base()
		e.aofStart, e.right = -1, -1
	}
	if e.aofStart >= 0 && off < e.right && off >= e.aofStart && e.memBlocked() {
		// the memory writer was waiting for space: bytes it had not accepted yet are dropped with it
		e.right = off
	}
	g := newGate()
	var h AofChannelWriter
	var err error
	e.call(false, func() { h, err = e.ch.NewAofWritter(g, off) })
	if err != nil {
		e.fail("NewAofWritter at the cache's right edge failed", "op-error", map[string]interface{}{"error": err.Error(), "offset": off})
		return
	}
	e.relax()
	e.retireWriter()
	if e.aofStart < 0 {
		e.aofStart, e.right = off, off
	} else if off != e.right {
		e.fail("StartPoint offset differs from the newest byte written", "startpoint", map[string]interface{}{"startpoint": off, "model_right": e.right})
		return
	}
	e.startWriter("aof", g, h)
	e.settle()
	e.cleanupStales()
	e.settle()
}

// opAofAt: a segment writer at an offset that is NOT the cache's right edge (delta = -1:
// one byte inside, +L: beyond a hole). Either the cache refuses it and nothing changes
// (the memory back end's documented rule), or it accepts it and then everything it reports
// must still be readable and byte-exact (checked by the usual clauses; exact range equality
// is no longer demanded because the statement does not say which part has to survive).
// misalignEdge: the position a segment writer has to start at - the right edge of the log,
// or, for a cache that holds only a complete snapshot (no log byte, no writer), the
// snapshot's offset: the position the stream continues at.
func (e *c05Env) misalignEdge() (int64, bool) {
	if e.aofStart >= 0 && e.right > e.aofStart {
		return e.right, true
	}
	if e.aofStart < 0 && e.w == nil && e.snap != nil && e.snap.complete && !e.snapStalled {
		return e.snap.left, true
	}
	return 0, false
}

func (e *c05Env) opAofAt(delta int64) {
	edge, ok := e.misalignEdge()
	if !ok {
		return
	}
	off := edge + delta
	if off < 0 {
		return
	}
	snapOnly := e.aofStart < 0
	before := e.view()
	g := newGate()
	var h AofChannelWriter
	var err error
	e.call(false, func() { h, err = e.ch.NewAofWritter(g, off) })
	e.events++
	if err != nil {
		g.Close(nil)
		e.settle()
		if after := e.view(); after != before {
			e.fail("a refused writer (offset not at the right edge) changed what the cache reports", "refused-writer-changed-view",
				map[string]interface{}{"offset": off, "before": fmt.Sprint(before), "after": fmt.Sprint(after), "error": err.Error()})
		}
		return
	}
	e.relax()
	e.retireWriter()
	e.loose = true
	e.logf("writer at %d accepted (right edge was %d)", off, edge)
	if delta > 0 {
		// nothing was ever written in the hole: bytes left of it may survive or not
		e.gapLo, e.gapHi = edge, off
	}
	e.hiRight()
	e.right = off
	e.snapOnlyLoose = snapOnly
	if snapOnly || off < e.aofStart {
		// (snapshot-only cache: the log starts at the accepted writer; whether the snapshot -
		// whose continuation at its offset does not exist - stays on offer is judged by what
		// the cache reports afterwards: everything reported valid must be readable)
		e.aofStart = off
	}
	e.startWriter("aof", g, h)
	e.settle()
	e.cleanupStales()
	e.settle()
}

func (e *c05Env) feed(n int64) {
	w := e.w
	if w == nil || e.viol != nil || e.snapStalled {
		return
	}
	if w.kind == "aof" {
		w.g.Release(c05Bytes(e.hist, 0, e.right, n))
		e.right += n
	} else {
		rem := e.snap.size - e.snap.written
		if n > rem {
			n = rem
		}
		w.g.Release(c05SnapBytes(e.hist, e.snap.size)[e.snap.written : e.snap.written+n])
		e.snap.written += n
		if e.snap.written == e.snap.size {
			e.snap.complete = true
		}
	}
	e.events++
	e.settle()
	if w.kind == "rdb" && e.snap.complete && !e.waitUntil(w.isDone) && e.memBlocked() {
		// memory writer waiting for space (a reader pins a snapshot segment): not complete yet
		e.snap.complete = false
		if m, ok := e.ch.(*MemoryChannel); ok {
			m.mux.RLock()
			if m.rdb != nil && m.rdb.replayable {
				if b := m.rdb.bufferedSize(); b < e.snap.written {
					e.snap.written = b
				}
			}
			m.mux.RUnlock()
		}
		e.snapStalled = true
		return
	}
	if w.kind == "rdb" && e.snap.complete {
		if !e.waitUntil(w.isDone) {
			e.fail("snapshot writer did not finish after receiving all bytes", "writer-hang", nil)
			return
		}
		w.mu.Lock()
		werr := w.err
		w.mu.Unlock()
		if werr != nil {
			e.fail("snapshot writer failed although all bytes arrived", "writer-error", map[string]interface{}{"error": werr.Error()})
			return
		}
	}
	e.writerEnded()
	e.settle()
}

func (e *c05Env) opEOF() {
	w := e.w
	if w == nil || e.viol != nil {
		return
	}
	w.g.Close(nil)
	e.events++
	if e.disk() {
		// the ending writer may close readers that wait on its (empty) last segment; such a
		// Close blocks on the mutex of a parked poller, so synctest.Wait cannot be used here
		e.spinUntil(w.isDone)
	}
	if !e.waitUntil(w.isDone) {
		if !e.memBlocked() {
			e.fail("writer did not end after its source ended", "writer-hang", nil)
			return
		}
		// memory writer waiting for space (a reader pins the oldest segment): the caller's
		// Close ends it; bytes it had not accepted are dropped with it
		w.h.Close()
		e.snapStalled = false // a snapshot closed while waiting for space stays incomplete
		if !e.waitUntil(w.isDone) {
			e.fail("writer did not end after Close", "writer-hang", nil)
			return
		}
		if aw, ok := w.h.(AofChannelWriter); ok && w.kind == "aof" {
			if r := aw.Right(); r >= e.aofStart && r <= e.right {
				e.right = r
			}
		}
	}
	e.writerEnded()
	e.settle()
}

// opWriterClose: Close() of the live writer by its owner, source still open.
func (e *c05Env) opWriterClose() {
	w := e.w
	if w == nil || e.viol != nil {
		return
	}
	e.events++
	if e.disk() {
		done := make(chan struct{})
		go func() { defer close(done); w.h.Close() }()
		e.spinUntil(func() bool {
			select {
			case <-done:
				return true
			default:
				return false
			}
		})
		e.spinUntil(w.isDone)
	} else {
		w.h.Close()
	}
	if !e.waitUntil(w.isDone) {
		e.fail("writer did not end after Close", "writer-hang", nil)
		return
	}
	if aw, ok := w.h.(AofChannelWriter); ok && w.kind == "aof" {
		if r := aw.Right(); r >= e.aofStart && r <= e.right {
			e.right = r // a writer that was waiting for space drops what it had not accepted
		}
	}
	if w.kind == "rdb" && e.snap != nil && e.snapStalled {
		e.snapStalled = false // closed while waiting for space: incomplete
	}
	w.mu.Lock()
	w.err = fmt.Errorf("closed by owner") // not a clean completion (see writerEnded)
	w.mu.Unlock()
	e.writerEnded()
	e.settle()
}

// opDelForeign: DelRunId("zz") - an id that is neither selected nor cached.
func (e *c05Env) opDelForeign() {
	before := e.view()
	var err error
	e.call(true, func() { err = e.ch.DelRunId("zz") })
	e.events++
	e.settle()
	if err != nil {
		e.fail("DelRunId of a foreign run id failed", "op-error", map[string]interface{}{"error": err.Error()})
		return
	}
	if after := e.view(); after != before || e.ch.RunId() != e.runID {
		e.fail("DelRunId of a run id that is not the selected one changed the cache", "foreign-id",
			map[string]interface{}{"before": fmt.Sprint(before), "after": fmt.Sprint(after), "selected": e.ch.RunId(), "model": e.runID})
	}
}

// stopWriter is the harness side of "the connection is gone": source EOF, Close.
func (e *c05Env) stopWriter() {
	if e.w != nil {
		e.opEOF()
	}
}

func (e *c05Env) openAt(x int64, probe bool, label string) *c05Reader {
	off := Offset{RunId: e.runID, Offset: x}
	valid := e.ch.IsValidOffset(off)
	cr, err := e.ch.NewReader(off)
	e.events++
	if e.exact() && e.aofStart >= 0 && x >= e.aofStart && x <= e.right && !valid && !e.memBlocked() {
		// nothing can have been collected: every offset that was written must still be offered
		e.fail("an offset inside the bytes written is reported invalid although no collection is possible", "written-not-valid", map[string]interface{}{"offset": x, "model_range": []int64{e.aofStart, e.right}, "label": label})
		return nil
	}
	if err != nil || cr == nil {
		if valid && e.refusedSnapshot(x, err) {
			// verification is on and the stored snapshot has no matching checksum trailer: being
			// refused with a corruption error at open is the accepted answer (what is not: being
			// handed out and then not delivered)
			e.refusals++
			return nil
		}
		if valid {
			e.fail("an offset reported valid cannot be opened", "valid-unreadable", map[string]interface{}{"offset": x, "error": fmt.Sprint(err), "label": label})
		}
		return nil
	}
	r := &c05Reader{cr: cr, aof: cr.IsAof(), hist: e.hist, probe: probe, mustFollow: true, label: fmt.Sprintf("%s@%d", label, x), size: cr.Size(), limit: -1}
	if r.aof {
		r.pos = x
		if cr.Left() != x {
			e.fail("reader reports another start offset than requested", "reader-left", map[string]interface{}{"offset": x, "left": cr.Left()})
		}
		if x > e.right || e.aofStart < 0 || x < e.aofStart {
			// nothing was ever written there; whatever it delivers is judged byte by byte
			r.mustFollow = false
		}
	} else {
		if e.snap == nil || cr.Left() != e.snap.left || cr.Size() != e.snap.size {
			e.fail("a snapshot reader was handed out for a snapshot that is not in the cache", "rdb-offer", map[string]interface{}{"offset": x, "left": cr.Left(), "size": cr.Size()})
		}
	}
	if cr.RunId() != e.runID {
		e.fail("reader names another run id", "reader-runid", map[string]interface{}{"reader": cr.RunId(), "model": e.runID})
	}
	e.allRd = append(e.allRd, r)
	return r
}

func (e *c05Env) startReader(r *c05Reader) {
	if r.started {
		return
	}
	r.started = true
	r.wait = usync.NewWaitCloser(nil)
	r.cr.Start(r.wait)
	go func() {
		r.wait.WgWait()
		r.mu.Lock()
		r.exited = true
		r.mu.Unlock()
	}()
	e.events++
	if !r.paused {
		e.consume(r)
	}
}

// consume starts the eager consumer of a started reader. A reader started with "PL" gets
// it only in the final probes: until then its pump fills the pipe ring and stalls there.
func (e *c05Env) consume(r *c05Reader) {
	r.paused = false
	br := r.cr.IoReader()
	go func() {
		buf := make([]byte, 256)
		for {
			n, err := br.Read(buf)
			r.mu.Lock()
			if n > 0 {
				r.got = append(r.got, buf[:n]...)
			}
			if err != nil {
				r.ended, r.rerr = true, err
				r.mu.Unlock()
				return
			}
			r.mu.Unlock()
		}
	}()
}

func (e *c05Env) closeReader(r *c05Reader) {
	if r.wait != nil {
		r.wait.Close(nil)
	}
	r.cr.Close()
	e.awaitExit(r)
	e.events++
}

func (e *c05Env) dropReader(r *c05Reader) {
	if e.disk() && !r.aof && !r.started && !r.invalid {
		// store.Reader.Close only closes the pipe: the never-started snapshot reader stays
		// registered in the data set
		e.leakedRdbReader = true
	}
	e.closeReader(r)
	e.settle()
	e.checkReaders()
	for i, x := range e.allRd {
		if x == r {
			e.allRd = append(e.allRd[:i], e.allRd[i+1:]...)
			break
		}
	}
	for i := range e.readers {
		if e.readers[i] == r {
			e.readers[i] = nil
		}
	}
}

// refusedSnapshot: the open of the complete stored snapshot failed with ErrCorrupted in a
// configuration whose snapshot trailer is not a matching checksum and verification is on.
func (e *c05Env) refusedSnapshot(x int64, err error) bool {
	if err == nil || !e.cfg.Crc || e.cfg.Foot == "" || e.snap == nil || !e.snap.complete || !errors.Is(err, common.ErrCorrupted) {
		return false
	}
	return x <= e.snap.left && !(e.aofStart >= 0 && x >= e.aofStart && x <= e.right)
}

// openTargets: candidate offsets for "open reader", deduplicated, in a fixed order.
func (e *c05Env) openTargets() []struct {
	name string
	x    int64
} {
	type tgt = struct {
		name string
		x    int64
	}
	var out []tgt
	if e.runID == "" {
		return nil
	}
	v := e.view()
	seen := map[int64]bool{}
	add := func(n string, x int64) {
		// negative offsets are real inputs: the callers open a reader at rdb.left - rdb.size
		// (negative for a young master) and -1 is the "nothing stored" position
		if seen[x] {
			return
		}
		seen[x] = true
		out = append(out, tgt{n, x})
	}
	if v.l >= 0 {
		add("oL", v.l)
		add("oR", v.r)
		add("oM", (v.l+v.r)/2)
		add("oL-", v.l-1)
		add("oR+", v.r+1)
	}
	if v.rdbL >= 0 {
		add("oS", v.rdbL)
		add("oS-", v.rdbL-v.rdbS)
	}
	return out
}

func (e *c05Env) apply(op string) {
	e.logf("op %s", op)
	structural := true
	e.wakeDesc = false
	if strings.HasSuffix(op, "~") { // same operation, poll timers fire in reverse park order while it runs
		op = strings.TrimSuffix(op, "~")
		e.wakeDesc = true
	}
	defer func() { e.wakeDesc = false }()
	switch {
	case op == "rdbF" || op == "rdbP" || op == "rdbH":
		e.lastOp = "rdb" + op[3:]
		e.opRdb(op[3:])
	case op == "aof":
		e.lastOp = op
		e.opAof()
	case op == "aof-":
		e.lastOp = "aof-misaligned"
		e.opAofAt(-1)
	case op == "aof+":
		e.lastOp = "aof-misaligned"
		e.opAofAt(e.cfg.L)
	case op == "delX": // DelRunId of an id that is not the selected one: nothing may change
		e.opDelForeign()
	case op == "aofD": // new writer + 2L+3 bytes (three segments) as one step
		e.lastOp = "aof"
		e.opAof()
		e.feed(2*e.cfg.L + 3)
	case op == "eof":
		e.lastOp = op
		e.opEOF()
	case op == "wcl": // the writer's owner closes it (cancellation) while the source is still open
		e.lastOp = op
		e.opWriterClose()
	case op[0] == 'f':
		structural = false
		var n int64
		switch op {
		case "f1":
			n = 1
		case "fa":
			n = e.cfg.L - 1
		case "fb":
			n = e.cfg.L
		case "fc":
			n = e.cfg.L + 1
		case "fd":
			n = 2*e.cfg.L + 3
		}
		e.feed(n)
	case op[0] == 'o' || op[0] == 'O' || op[0] == 'P': // "oX" = open, "OX" = open and start at once (what every caller does), "PX" = the same with a consumer that does not read yet
		structural = false
		start := op[0] != 'o'
		paused := op[0] == 'P'
		op = "o" + op[1:]
		slot := -1
		for i := 0; i < e.cfg.slots(); i++ {
			if e.readers[i] == nil {
				slot = i
				break
			}
		}
		for _, tg := range e.openTargets() {
			if tg.name == op && slot >= 0 {
				r := e.openAt(tg.x, false, op)
				if r != nil {
					e.readers[slot] = r
					if start {
						r.paused = paused
						e.startReader(r)
					}
				}
			}
		}
		e.settle()
	case op[0] == 's' && len(op) == 2:
		structural = false
		if r := e.readers[int(op[1]-'0')]; r != nil {
			e.startReader(r)
		}
		e.settle()
	case op[0] == 'c' && len(op) == 2:
		structural = false
		if r := e.readers[int(op[1]-'0')]; r != nil {
			e.dropReader(r)
		}
	case op == "gc":
		e.lastOp = op
		if sc, ok := e.ch.(*StoreChannel); ok {
			sc.storer.VerifGC()
		}
		e.events++
		e.settle()
	case op == "sidS":
		e.lastOp = op
		e.opSetRunID(e.lastID)
	case op == "sidSq": // same id, writer quiesced first (as every caller in the repo does)
		e.lastOp = op
		e.stopWriter()
		e.opSetRunID(e.lastID)
	case op == "sidN":
		e.lastOp = op
		e.stopWriter()
		e.relax()
		e.opSetRunID(e.newID())
	case op == "del":
		e.lastOp = op
		id := e.runID
		var err error
		e.call(true, func() { err = e.ch.DelRunId(id) })
		if err != nil {
			e.fail("DelRunId failed", "op-error", map[string]interface{}{"error": err.Error()})
			return
		}
		e.events++
		e.invalidate()
		e.retireWriter()
		e.hist++
		e.hi = 0
		e.leakedRdbReader = false
		e.snap, e.aofStart, e.right = nil, -1, -1
		e.runID = ""
		e.settle()
		e.cleanupStales()
		e.settle()
	case op == "reo":
		e.lastOp = op
		e.stopWriter()
		for _, r := range append([]*c05Reader(nil), e.allRd...) {
			e.dropReader(r)
		}
		e.ch.Close()
		e.settle()
		if !e.disk() {
			e.snap, e.aofStart, e.right = nil, -1, -1
		} else if e.snap != nil && !e.snap.complete {
			e.snap = nil
		}
		e.ch = e.newChannel()
		e.opSetRunID(e.lastID)
	default:
		panic("c05: unknown op " + op)
	}
	_ = structural
	e.settle()
	e.writerEnded() // a writer that was waiting for space may have finished by now
	e.checkReaders()
	e.checkView()
	e.expectCaughtUp("after " + op)
	e.expectInvalidatedEnded("after " + op)
}

// enabled lists the operations that make sense in the current state.
func (e *c05Env) enabled(tier string) ([]string, map[string]string) {
	var ops []string
	risky := map[string]string{} // op -> shape of the dead-lock it may run into ("rdb" | "poll")
	if e.runID == "" {
		if e.cfg.Alpha != "" {
			return []string{"sidN"}, risky
		}
		return []string{"sidS", "sidN"}, risky
	}
	if e.disk() {
		reg := (e.w != nil && e.w.kind == "rdb") || e.leakedRdbReader
		polling := 0
		for _, r := range e.allRd {
			if _, ended := r.snapshot(); !r.aof && !ended {
				reg = true
			}
			if r.polling() {
				polling++
			}
		}
		if reg || polling >= 2 {
			shape := "poll"
			if reg {
				shape = "rdb" // the snapshot side of the data set is closed first
			}
			for _, op := range []string{"rdbF", "rdbP", "rdbH", "del", "rdbF~", "rdbP~", "rdbH~", "del~"} {
				risky[op] = shape
			}
		}
		if polling >= 2 {
			ops = append(ops, "rdbF~", "del~")
		}
	}
	ops = append(ops, "rdbF", "rdbP", "rdbH")
	if e.w == nil || e.w.kind == "aof" {
		ops = append(ops, "aof", "aofD")
		if _, ok := e.misalignEdge(); ok && !e.loose && e.cfg.Alpha != "" {
			ops = append(ops, "aof-", "aof+") // (reduced alphabets only)
		}
	}
	if e.cfg.Alpha != "" {
		ops = append(ops, "delX")
	}
	if e.w != nil && !e.snapStalled {
		ops = append(ops, "f1", "fa", "fb", "fc", "fd")
	}
	if e.w != nil {
		ops = append(ops, "eof", "wcl")
	}
	free := false
	for i := 0; i < e.cfg.slots(); i++ {
		if e.readers[i] == nil {
			free = true
		}
	}
	if free {
		for _, tg := range e.openTargets() {
			ops = append(ops, tg.name)
			if tg.name == "oL" || tg.name == "oR" {
				ops = append(ops, "O"+tg.name[1:])
			}
			if tg.name == "oL" && e.cfg.Alpha == "big" {
				ops = append(ops, "PL")
			}
		}
	}
	for i, r := range e.readers {
		if r != nil {
			if !r.started {
				ops = append(ops, fmt.Sprintf("s%d", i))
			}
			ops = append(ops, fmt.Sprintf("c%d", i))
		}
	}
	if e.disk() && !e.cfg.large() {
		ops = append(ops, "gc")
	}
	// "sidS" (SetRunId of the current id while a writer is live) is not part of the
	// alphabet: every caller selects the run id before it creates writers.
	ops = append(ops, "sidSq", "sidN", "del", "reo")
	if e.cfg.Alpha != "" {
		set := c05R3
		if e.cfg.Alpha == "big" {
			set = c05Big
		}
		kept := ops[:0]
		for _, op := range ops {
			if set[op] {
				kept = append(kept, op)
			}
		}
		ops = kept
	}
	return ops, risky
}

// otherPolling: on disk at most one started segment reader may exist while the sequence
// runs (two parked pollers dead-lock against a reset, see the report).
func (e *c05Env) otherPolling(r *c05Reader) bool {
	if !e.disk() {
		return false
	}
	for _, x := range e.readers {
		if x != nil && x != r && x.polling() {
			return true
		}
	}
	return false
}

// key is the canonical state: model + reported view + implementation index + readers.
func (e *c05Env) key() string {
	var sb strings.Builder
	fmt.Fprintf(&sb, "%s|id=%v|h=%d|", e.cfg, e.runID != "", e.hist%3)
	if e.snap != nil {
		fmt.Fprintf(&sb, "snap(%d,%d,%d)|", e.snap.left, e.snap.size, e.snap.written)
	}
	fmt.Fprintf(&sb, "aof[%d,%d)|", e.aofStart, e.right)
	if e.loose {
		fmt.Fprintf(&sb, "loose gap[%d,%d)|", e.gapLo, e.gapHi)
	}
	if e.w != nil {
		fmt.Fprintf(&sb, "w=%s|", e.w.kind)
	}
	if e.runID != "" {
		v := e.view()
		fmt.Fprintf(&sb, "view(%d,%d,%d,%d,%d)|", v.l, v.r, v.rdbL, v.rdbS, v.spOff)
	}
	switch c := e.ch.(type) {
	case *StoreChannel:
		sb.WriteString(c.storer.VerifState())
		sb.WriteString("|files:")
		var names []string
		filepath.Walk(e.dir, func(p string, info os.FileInfo, err error) error {
			if err == nil && !info.IsDir() {
				rel, _ := filepath.Rel(e.dir, p)
				if e.lastID != "" {
					rel = strings.Replace(rel, e.lastID, "CUR", 1)
				}
				names = append(names, fmt.Sprintf("%s:%d", rel, info.Size()))
			}
			return nil
		})
		sort.Strings(names)
		sb.WriteString(strings.Join(names, ","))
	case *MemoryChannel:
		c.mux.RLock()
		fmt.Fprintf(&sb, "tot%d ", c.totalSize)
		if c.rdb != nil {
			fmt.Fprintf(&sb, "rdb(%d,%d,%v:", c.rdb.left, c.rdb.size, c.rdb.replayable)
			for _, s := range c.rdb.segments {
				fmt.Fprintf(&sb, "[%d+%d c%v r%d]", s.left, s.blob.len(), s.blob.isClosed(), s.readers.Load())
			}
			sb.WriteString(")")
		}
		for _, s := range c.aofSegs {
			fmt.Fprintf(&sb, "[%d+%d c%v r%d]", s.left, s.blob.len(), s.blob.isClosed(), s.readers.Load())
		}
		fmt.Fprintf(&sb, " w%v/%v", c.aofWriter != nil, c.rdbWriter != nil)
		c.mux.RUnlock()
	}
	sb.WriteString("|rd:")
	var rs []string
	for _, r := range e.readers {
		if r == nil {
			continue
		}
		n, ended := r.snapshot()
		rs = append(rs, fmt.Sprintf("(aof=%v h=%d pos=%d n=%d st=%v p=%v inv=%v lim=%d mf=%v end=%v)", r.aof, (e.hist-r.hist)%3, r.pos, n, r.started, r.paused, r.invalid, r.limit, r.mustFollow, ended))
	}
	sort.Strings(rs)
	sb.WriteString(strings.Join(rs, ""))
	return sb.String()
}

// segBounds: offsets of segment starts known to the implementation (probe targets).
func (e *c05Env) segBounds() []int64 {
	switch c := e.ch.(type) {
	case *StoreChannel:
		return c.storer.VerifSegBounds()
	case *MemoryChannel:
		c.mux.RLock()
		defer c.mux.RUnlock()
		var out []int64
		for _, s := range c.aofSegs {
			out = append(out, s.left)
		}
		return out
	}
	return nil
}

// probes run on the final state only (the execution is thrown away afterwards).
func (e *c05Env) probes() {
	if e.viol != nil || e.runID == "" {
		return
	}
	e.logf("probes")
	// 1. readers the sequence opened but never started must still be drainable
	for _, r := range e.readers {
		if r != nil && !r.started {
			e.startReader(r)
		}
		if r != nil && r.paused {
			e.consume(r)
		}
	}
	e.settle()
	e.expectCaughtUp("probe:start-open-readers")
	e.expectInvalidatedEnded("probe:start-open-readers")
	if e.viol != nil {
		return
	}
	// 2. validity sweep
	v := e.view()
	xs := map[int64]bool{}
	addx := func(x int64) {
		xs[x] = true
	}
	if v.l >= 0 {
		for _, x := range []int64{v.l - 1, v.l, v.r, v.r + 1, (v.l + v.r) / 2} {
			addx(x)
		}
		for _, b := range e.segBounds() {
			addx(b - 1)
			addx(b)
		}
	}
	if v.rdbL >= 0 {
		addx(v.rdbL)
		addx(v.rdbL - 1)
		addx(v.rdbL - v.rdbS)
	}
	var order []int64
	for x := range xs {
		order = append(order, x)
	}
	sort.Slice(order, func(i, j int) bool { return order[i] < order[j] })
	var probesOpen []*c05Reader
	for _, x := range order {
		if e.viol != nil {
			return
		}
		if v.rdbL >= 0 && x < v.rdbL && !e.ch.IsValidOffset(Offset{RunId: e.runID, Offset: x}) {
			e.fail("a snapshot is offered but an offset before it is not valid", "rdb-offered-unreadable", map[string]interface{}{"offset": x, "rdb": []int64{v.rdbL, v.rdbS}})
			return
		}
		r := e.openAt(x, true, "probe")
		if r == nil {
			if e.viol == nil && v.rdbL >= 0 && x < v.rdbL && e.refusals == 0 {
				e.fail("a snapshot is offered but cannot be opened", "rdb-offered-unreadable", map[string]interface{}{"offset": x, "rdb": []int64{v.rdbL, v.rdbS}})
			}
			continue
		}
		e.startReader(r)
		probesOpen = append(probesOpen, r)
	}
	e.settle()
	e.expectCaughtUp("probe:sweep")
	if e.viol != nil {
		return
	}
	// 3. follow the live writer across two rotations / to the end of the snapshot
	if e.w != nil {
		if e.w.kind == "aof" {
			e.feed(e.cfg.L + 1)
			e.expectCaughtUp("probe:follow-1")
			e.feed(e.cfg.L + 1)
			e.expectCaughtUp("probe:follow-2")
		} else {
			e.feed(e.snap.size)
			e.expectCaughtUp("probe:follow-rdb")
		}
		e.checkView()
	}
	if e.viol != nil {
		return
	}
	// 4. a complete snapshot reader must end after exactly size bytes
	for _, r := range e.allRd {
		r := r
		if r.aof || r.invalid || !r.mustFollow || !r.started || e.snap == nil || !e.snap.complete || r.hist != e.hist {
			continue // (a reader that was open across a replication-id switch may have been ended by it)
		}
		ok := e.waitUntil(func() bool { n, ended := r.snapshot(); return int64(n) == r.size && ended })
		if !ok {
			n, ended := r.snapshot()
			e.fail("a reader of a complete snapshot did not deliver all bytes and end", "rdb-stall", map[string]interface{}{"reader": r.label, "delivered": n, "size": r.size, "ended": ended})
			return
		}
	}
	e.checkReaders()
	_ = probesOpen
}

func (e *c05Env) teardown() {
	for _, r := range append([]*c05Reader(nil), e.allRd...) {
		e.closeReader(r)
	}
	if e.w != nil {
		e.w.g.Close(nil)
		e.w.h.Close()
	}
	e.cleanupStales()
	e.settle()
	if e.ch != nil {
		e.ch.Close()
	}
	e.settle()
	if e.viol == nil {
		e.checkReaders()
	}
}

// c05Bubble is bubble() that keeps the harness's own panic message when the bubble then
// also complains about the goroutines that panic left behind.
func c05Bubble(t *testing.T, f func()) (panicMsg string) {
	inner := ""
	defer func() {
		if r := recover(); r != nil {
			panicMsg = fmt.Sprintf("%v", r)
		}
		if inner != "" {
			panicMsg = inner + "\n(then: " + panicMsg + ")"
		}
	}()
	synctest.Test(t, func(t *testing.T) {
		defer func() {
			if r := recover(); r != nil {
				inner = fmt.Sprintf("panic in harness: %v\n%s", r, debug.Stack())
			}
		}()
		f()
	})
	return
}

var c05DirSeq int

var c05Root string

// c05ScratchRoot: the segment files live on tmpfs when there is one (every rotation
// fsyncs; durability is not part of this property), else under VERIF_SCRATCH.
func c05ScratchRoot() string {
	if c05Root != "" {
		return c05Root
	}
	base := os.Getenv("VERIF_SCRATCH")
	if base == "" {
		base = os.TempDir()
	}
	if st, err := os.Stat("/dev/shm"); err == nil && st.IsDir() && os.Getenv("VERIF_NO_SHM") == "" {
		// MkdirTemp, not the pid: shard processes of concurrent runs may live in different
		// pid namespaces and share /dev/shm
		if cand, err := os.MkdirTemp("/dev/shm", "verif-c05-"); err == nil {
			c05Root = cand
			return c05Root
		}
	}
	if cand, err := os.MkdirTemp(base, "c05-"); err == nil {
		c05Root = cand
	} else {
		c05Root = filepath.Join(base, fmt.Sprintf("c05-%d", os.Getpid()))
		os.MkdirAll(c05Root, 0o777)
	}
	return c05Root
}

type c05Outcome struct {
	res     mc.Result
	key     string
	enabled []string
	risky   map[string]string // enabled ops that reset the cache while a snapshot reader/writer is registered ("rdb") or two segment readers poll ("poll")
	wedged  bool
	hung    bool
	seen    []string // preemption family: points reached / planned points reached
	hit     []string
}

func c05Exec(t *testing.T, scn c05Scenario, tier string) c05Outcome {
	c05DirSeq++
	dir := filepath.Join(c05ScratchRoot(), fmt.Sprintf("x%d", c05DirSeq))
	if config.GetSyncerConfig().Channel == nil {
		config.GetSyncerConfig().Channel = &config.ChannelConfig{}
	}
	config.GetSyncerConfig().Channel.VerifyCrc = scn.Cfg.Crc
	c05Foot = scn.Cfg.Foot
	// The bubble runs on its own goroutine so that a wedged execution (dead-lock
	// inside the cache) can be abandoned: its goroutines stay blocked for ever.
	resCh := make(chan c05Outcome, 2)
	go func() {
		var out c05Outcome
		msg := c05Bubble(t, func() {
			vpoll.Reset(scn.Cfg.Backend == "disk")
			e := &c05Env{t: t, cfg: scn.Cfg, dir: dir, aofStart: -1, right: -1, lastOp: "init", gen: vpoll.Gen()}
			e.wedged = func(v mc.Result) {
				resCh <- c05Outcome{res: v, wedged: true}
				<-c05Never
			}
			if e.disk() {
				if err := os.MkdirAll(dir, 0o777); err != nil {
					out.res = mc.Result{Verdict: "machinery", Clause: "scratch: " + err.Error()}
					return
				}
			}
			e.ch = e.newChannel()
			e.opSetRunID(e.newID())
			e.checkView()
			if scn.Pre != "" {
				ctl := installPreempt(scn.Plan)
				e.runPre(scn.Pre, ctl)
				ctl.mu.Lock()
				out.seen, out.hit = append([]string(nil), ctl.seen...), append([]string(nil), ctl.hit...)
				ctl.mu.Unlock()
				ctl.remove()
			}
			for _, op := range scn.Ops {
				if e.viol != nil {
					break
				}
				e.apply(op)
			}
			if e.viol == nil {
				out.key = e.key()
				out.enabled, out.risky = e.enabled(tier)
				e.probes()
			}
			e.teardown()
			if e.viol != nil {
				out.res = *e.viol
				return
			}
			out.res = mc.OK(mc.Hash(out.key), e.delivered > 0, e.events)
		})
		if msg != "" {
			if len(msg) > 20000 {
				msg = msg[:20000]
			}
			out = c05Outcome{res: mc.Result{Verdict: "machinery", Clause: "bubble: " + msg}}
		}
		os.RemoveAll(dir)
		resCh <- out
	}()
	// Watchdog (we are outside every bubble here: real time). An execution normally takes
	// milliseconds; one that takes more than a minute is given up (its goroutines are
	// abandoned like those of a wedged execution) and reported as hung - the caller retries.
	select {
	case out := <-resCh:
		return out
	case <-time.After(60 * time.Second):
		buf := make([]byte, 1<<20)
		buf = buf[:runtime.Stack(buf, true)]
		fmt.Fprintf(os.Stderr, "c05: execution %v %v gave no verdict within 60 s of wall time; goroutines:\n%s\n", scn.Cfg, scn.Ops, buf)
		return c05Outcome{hung: true, res: mc.Result{Verdict: "machinery", Clause: "execution gave no verdict within 60 s of wall time (harness hang)"}}
	}
}

// ---------------------------------------------------------------------------
// Preemption family (disk back end). pkg/store/aof_writer.go and aof_reader.go are built with
// the `yield` / `yield-calls` transforms: inside one append the writer goroutine can be held
// at any instrumented statement (after write, header rewrite, os.OpenFile of the next segment,
// its header write, Sync, Observer.Open ...). While it is held, one poll period elapses for
// the caught-up reader (its 10 ms timer fires inside the writer's step); then the writer goes
// on. After the append the script continues with a reset or with a burst of appends and a
// collector pass during which the reader's timer does not fire, and the usual oracles judge.

var c05PreScripts = []string{"reset-rdb", "reset-del", "reset-sidN", "gc", "replace"}

// settleHeld: quiescence; while a goroutine is held at a planned point let every parked
// poller poll once, then release the oldest held goroutine; repeat.
func (e *c05Env) settleHeld(ctl *preemptCtl) {
	for {
		synctest.Wait()
		ctl.mu.Lock()
		n := len(ctl.parked)
		ctl.mu.Unlock()
		if n == 0 {
			return
		}
		e.tickSeq()
		ctl.mu.Lock()
		var c chan struct{}
		if len(ctl.parked) > 0 {
			c = ctl.parked[0]
			ctl.parked = ctl.parked[1:]
		}
		ctl.mu.Unlock()
		if c != nil {
			close(c)
		}
	}
}

// feedQuiet hands n bytes to the live segment writer without letting a poll period elapse.
func (e *c05Env) feedQuiet(n int64) {
	e.w.g.Release(c05Bytes(e.hist, 0, e.right, n))
	e.right += n
	e.events++
	synctest.Wait()
}

func (e *c05Env) runPre(script string, ctl *preemptCtl) {
	e.logf("preemption script %s", script)
	e.lastOp = "pre-" + script
	e.opAof()
	if e.viol != nil {
		return
	}
	if script == "gc" || script == "replace" {
		e.feed(3) // the reader sits in a non-empty live segment
	}
	_, right := e.ch.GetOffsetRange(e.runID)
	r := e.openAt(right, false, "OR")
	if r == nil {
		if e.viol == nil {
			e.fail("cannot open a reader at the right edge", "op-error", nil)
		}
		return
	}
	e.readers[0] = r
	e.startReader(r)
	e.settle() // caught up: parked in its poll loop at EOF of the live segment
	// the append that rotates, explored with preemptions
	ctl.mu.Lock()
	ctl.armed = true
	ctl.mu.Unlock()
	e.w.g.Release(c05Bytes(e.hist, 0, e.right, e.cfg.L+1))
	e.right += e.cfg.L + 1
	e.events++
	e.settleHeld(ctl)
	ctl.mu.Lock()
	ctl.armed = false
	ctl.mu.Unlock()
	if script != "gc" {
		// one more byte reaches the new segment before the reader's next poll, so that the
		// reader's position is inside that segment (not at its first byte) from then on
		e.feedQuiet(1)
	}
	switch script {
	case "gc":
		// a burst of appends and a collector pass before the reader's next poll
		for i := 0; i < 3; i++ {
			e.feedQuiet(e.cfg.L + 1)
		}
		e.ch.(*StoreChannel).storer.VerifGC()
		e.events++
		e.settle()
		e.checkReaders()
		e.checkView()
		e.expectCaughtUp("after burst + collector pass")
	case "replace":
		e.settle()
		e.checkReaders()
		e.expectCaughtUp("after the rotation")
		e.apply("aof")
		e.apply("fc")
	default:
		e.settle()
		e.checkReaders()
		e.expectCaughtUp("after the rotation")
		switch script {
		case "reset-rdb":
			e.apply("rdbF")
		case "reset-del":
			e.apply("del")
			if e.viol == nil {
				e.apply("sidS")
			}
		case "reset-sidN":
			e.apply("sidN")
		}
		if e.viol == nil {
			e.apply("aofD") // the log written after the reset re-uses the file names
		}
		if e.viol == nil {
			e.apply("fc")
		}
	}
}

func c05Configs(tier string) []c05Cfg {
	var out []c05Cfg
	const big = 1 << 20
	if tier != "thorough" {
		// quick: the first offset (96 | 5 | 0) is spread over the configurations instead of
		// multiplied with them
		out = append(out,
			c05Cfg{Backend: "disk", L: 8, Max: big},             // searched one level deeper (runC05)
			c05Cfg{Backend: "disk", L: 8, Max: 18, Shift: -91},  // base 5: rdb.left - size < 0
			c05Cfg{Backend: "mem", L: 8, Max: big, Shift: -96},  // base 0
			c05Cfg{Backend: "mem", L: 8, Max: 18},
			c05Cfg{Backend: "disk", L: 8, Max: big, Crc: true, Shift: -96},
			c05Cfg{Backend: "disk", L: 8, Max: big, Slots: 3, Alpha: "r3"},
			c05Cfg{Backend: "mem", L: 8, Max: big, Slots: 3, Alpha: "r3", Shift: -91},
		)
	} else {
		for _, be := range []string{"disk", "mem"} {
			for _, L := range []int64{8, 16} {
				out = append(out, c05Cfg{Backend: be, L: L, Max: big})
				out = append(out, c05Cfg{Backend: be, L: L, Max: 2*L + 2})
			}
			out = append(out, c05Cfg{Backend: be, L: 8, Max: big, Shift: -96}, c05Cfg{Backend: be, L: 8, Max: 18, Shift: -91})
			// MaxSize <= 0 = unlimited; 4L+8 = "snapshot plus two segments fit, a third does not"
			out = append(out, c05Cfg{Backend: be, L: 8, Max: -1}, c05Cfg{Backend: be, L: 8, Max: 4*8 + 8})
		}
		// checksum verification (config Channel.VerifyCrc) only changes the disk readers
		out = append(out, c05Cfg{Backend: "disk", L: 8, Max: big, Crc: true}, c05Cfg{Backend: "disk", L: 8, Max: 18, Crc: true},
			c05Cfg{Backend: "disk", L: 16, Max: big, Crc: true}, c05Cfg{Backend: "disk", L: 8, Max: big, Crc: true, Shift: -96})
		// three reader slots, reduced alphabet, one level deeper
		out = append(out, c05Cfg{Backend: "disk", L: 8, Max: big, Slots: 3, Alpha: "r3"}, c05Cfg{Backend: "mem", L: 8, Max: big, Slots: 3, Alpha: "r3"},
			c05Cfg{Backend: "disk", L: 8, Max: big, Slots: 3, Alpha: "r3", Crc: true}, c05Cfg{Backend: "mem", L: 8, Max: big, Slots: 3, Alpha: "r3", Shift: -96})
	}
	// snapshot trailer shapes (all-zero = source with rdbchecksum no, wrong checksum) x
	// verification; shallow: what matters is that a stored snapshot that is handed out is
	// delivered completely, whatever its last 8 bytes are
	out = append(out, c05Cfg{Backend: "disk", L: 8, Max: big, Crc: true, Foot: "zero"}, c05Cfg{Backend: "disk", L: 8, Max: big, Crc: true, Foot: "bad"},
		c05Cfg{Backend: "disk", L: 8, Max: big, Foot: "zero"}, c05Cfg{Backend: "mem", L: 8, Max: big, Foot: "zero"})
	if tier == "thorough" {
		out = append(out, c05Cfg{Backend: "disk", L: 8, Max: big, Foot: "bad"}, c05Cfg{Backend: "disk", L: 9000, Max: 1 << 30, Alpha: "big", Crc: true, Foot: "zero"})
	}
	// large blocks: L = 9000 (appends 9000/9001/18003 B, snapshot 18003 B, segments > 8 KiB),
	// reduced alphabet, one level less
	out = append(out, c05Cfg{Backend: "disk", L: 9000, Max: 1 << 30, Alpha: "big"}, c05Cfg{Backend: "disk", L: 9000, Max: 1 << 30, Alpha: "big", Crc: true},
		c05Cfg{Backend: "mem", L: 9000, Max: 1 << 30, Alpha: "big"})
	return out
}

func runC05(t *testing.T, rep *mc.Reporter) {
	shard, nshards := mc.ShardOf()
	tier := mc.Tier()
	budget := &mc.Budget{Deadline: mc.DeadlineFromEnv()}
	defer func() { os.RemoveAll(c05ScratchRoot()) }()

	if rp, err := mc.LoadReplay(); err != nil {
		rep.Machinery("cannot load replay: "+err.Error(), nil)
		return
	} else if rp != nil {
		var scn c05Scenario
		if err := json.Unmarshal(rp.Scenario, &scn); err != nil {
			rep.Machinery("bad replay scenario: "+err.Error(), nil)
			return
		}
		o := c05Exec(t, scn, tier)
		rep.Exec(scn, nil, o.res)
		return
	}

	// preemption family
	pbound := 1
	if tier == "thorough" {
		pbound = 2
	}
	pidx := 0
	for _, script := range c05PreScripts {
		for _, crc := range []bool{false, true} {
			if crc && tier != "thorough" && script != "reset-rdb" {
				continue
			}
			pidx++
			if pidx%nshards != shard || budget.Expired() {
				continue
			}
			max := int64(1 << 20)
			if script == "gc" {
				max = 10
			}
			base := c05Scenario{Cfg: c05Cfg{Backend: "disk", L: 8, Max: max, Crc: crc}, Pre: script}
			rep.Scenario()
			explorePreempt(rep, budget, pbound, func(plan []string, res mc.Result) {
				s := base
				s.Plan = plan
				rep.Exec(s, nil, res)
				rep.Count("preemption_executions", 1)
			}, func(plan []string) (mc.Result, []string, []string) {
				s := base
				s.Plan = plan
				o := c05Exec(t, s, tier)
				for retry := 0; o.hung && retry < 2; retry++ {
					rep.Count("retried_hung_executions", 1)
					o = c05Exec(t, s, tier)
				}
				return o.res, o.seen, o.hit
			})
		}
	}

	depth := 4
	if tier == "thorough" {
		depth = 5
	}
	if v := os.Getenv("VERIF_C05_DEPTH"); v != "" { // experiments only
		fmt.Sscan(v, &depth)
	}
	const sharedLevels = 2 // levels every shard computes identically before partitioning
	type node struct {
		ops     []string
		enabled []string
		risky   map[string]string
	}
	baseDepth := depth
	for _, cfg := range c05Configs(tier) {
		depth := baseDepth
		if tier != "thorough" && cfg.Backend == "disk" && cfg.large() && !cfg.Crc && cfg.Alpha == "" && os.Getenv("VERIF_C05_DEPTH") == "" {
			depth = baseDepth + 1 // quick: one configuration is searched one level deeper
		}
		if cfg.Alpha == "r3" {
			depth = baseDepth + 1 // reduced alphabet: three readers + reset needs five operations
		}
		if cfg.Alpha == "big" {
			depth = baseDepth - 1
		}
		if cfg.Foot != "" && cfg.Alpha == "" {
			depth = baseDepth - 2
		}
		seen := map[string]bool{}
		var states, transitions int64
		run := func(ops []string, report bool) (c05Outcome, bool) {
			scn := c05Scenario{Cfg: cfg, Ops: ops}
			o := c05Exec(t, scn, tier)
			for retry := 0; o.hung && retry < 2; retry++ {
				rep.Count("retried_hung_executions", 1)
				o = c05Exec(t, scn, tier)
			}
			if o.res.Verdict == "violation" {
				for k := 0; k < 2; k++ {
					o2 := c05Exec(t, scn, tier)
					if o2.res.Verdict != "violation" || o2.res.Sig != o.res.Sig {
						if report {
							rep.Exec(scn, nil, mc.Result{Verdict: "machinery", Clause: fmt.Sprintf("violation not reproducible: first=%s now=%s/%s", o.res.Sig, o2.res.Verdict, o2.res.Sig), Detail: o.res.Detail})
						}
						return o, false
					}
				}
			}
			if report {
				rep.Exec(scn, nil, o.res)
				transitions++
			}
			return o, true
		}
		rep.Scenario()
		root, ok := run(nil, shard == 0)
		if !ok || root.res.Verdict != "ok" {
			continue
		}
		seen[root.key] = true
		if shard == 0 {
			states++
		}
		frontier := []node{{nil, root.enabled, root.risky}}
		wedgedSeen := map[string]int{}
		wedgedTotal := 0
		for d := 1; d <= depth && len(frontier) > 0; d++ {
			var next []node
			for _, nd := range frontier {
				for _, op := range nd.enabled {
					if budget.Expired() {
						break
					}
					if sh := nd.risky[op]; sh != "" && wedgedSeen[sh] >= 2 {
						// same shape as an already confirmed dead-lock of this configuration:
						// not executed again (every wedged execution leaks its goroutines)
						rep.Count("skipped_known_deadlock_shape", 1)
						continue
					}
					if wedgedTotal >= 12 {
						rep.Capped("more than 12 wedged executions in one configuration; search of this configuration stopped")
						break
					}
					ops := append(append([]string(nil), nd.ops...), op)
					o, ok := run(ops, d > sharedLevels || shard == 0)
					if !ok {
						return
					}
					if o.wedged {
						wedgedTotal++
						sh := nd.risky[op]
						if sh == "" {
							sh = "unpredicted"
						}
						wedgedSeen[sh]++
					}
					if o.res.Verdict != "ok" {
						continue
					}
					if seen[o.key] {
						continue
					}
					seen[o.key] = true
					if d > sharedLevels || shard == 0 {
						states++
					}
					next = append(next, node{ops, o.enabled, o.risky})
				}
			}
			if d == sharedLevels {
				// partition the (identical in every shard) level-d frontier round-robin
				var mine []node
				for i, nd := range next {
					if i%nshards == shard {
						mine = append(mine, nd)
					}
				}
				next = mine
			}
			frontier = next
		}
		rep.Count("states", states)
		rep.Count("transitions", transitions)
		rep.Count("transitions["+cfg.String()+"]", transitions)
		if c05LateConds > 0 {
			rep.Count("late_completions", c05LateConds)
			c05LateConds = 0
		}
	}
	if budget.Expired() {
		rep.Capped("deadline reached before the breadth-first search reached its depth bound")
	}
}

package syncer

// C20, family "sequences of pre-existing keys on one worker".
//
// Every other C20 family has ONE snapshot key under test (plus a companion string), so nothing a replay
// worker remembers from an earlier key can influence how it treats a later one. Here a snapshot of two or
// three keys reaches the SAME replay worker in file order (ReplayRdbParallel 1, and 2 with key names whose
// FNV-1a hashes have the same parity - the distributor of sendRdb picks the worker by FnvHash(key) % n), and
// every key independently draws
//
//	prior content on the target  {absent, same type, another type, same type with its own expiry
//	                              (thorough: also another type with expiry)}
//	x how its value travels      {acc:   an encoding every target version takes by RESTORE,
//	                              ref:   a Redis 7 encoding - a 6.2 target refuses it ("Bad data format",
//	                                     after BUSYKEY when the key exists and REPLACE is not given), the
//	                                     plain replay then falls back to native commands,
//	                              bulk:  a dump above MaxProtoBulkLen (200 here) -> expansion,
//	                              chunk: a table hash split at a 64-byte threshold}
//
// crossed with the policy, the target version, plain / bidirectional replay. The oracle is C20's own
// (c20Judge): its per-key clauses are applied to EVERY key of the sequence - replace: each key ends with
// exactly the snapshot's value and expiry, no residue; ignore: each pre-existing key is byte-for-byte what
// it was and no request writes it, the others are restored; error: Send fails and no pre-existing key was
// written. Signatures: "C20:<policy>:sequence:<plain|bisync>:<clause>".

import (
	"fmt"
	"hash/fnv"

	"github.com/mgtv-tech/redis-GunYu/verifshim/ref"
)

const (
	c20SeqBulk    = 200 // MaxProtoBulkLen of the family: "bulk" values dump to more, all others to less
	c20SeqChunkAt = 64  // maxBinEntryBuffer when the sequence holds a "chunk" value
	c20SeqVersion = 11  // RDB version of the snapshot (a Redis 7.2 source writes all of the encodings below)
)

type c20SeqValue struct {
	Case string
	Enc  ref.RDBEnc
}

// c20SeqMenu: per way of travelling, the values a key may carry; position p of a sequence takes entry
// (p + variant) mod len, so that the keys of one sequence have different types and the variants rotate
// every type through every position.
var c20SeqMenu = map[string][]c20SeqValue{
	// type codes 0, 2, 5, 11, 0(LZF), 4: known to every target version
	"acc": {
		{"string/short", ref.RDBEnc{Kind: "raw"}},
		{"set/small", ref.RDBEnc{Kind: "table"}},
		{"zset/inf", ref.RDBEnc{Kind: "skiplist2"}},
		{"set/int16", ref.RDBEnc{Kind: "intset16"}},
		{"string/run60", ref.RDBEnc{Kind: "lzf"}},
		{"hash/small", ref.RDBEnc{Kind: "table"}},
	},
	// type codes 16, 17, 18 (from 7.0), 20, 21 (from 7.2)
	"ref": {
		{"hash/small", ref.RDBEnc{Kind: "listpack"}},
		{"zset/small", ref.RDBEnc{Kind: "listpack"}},
		{"list/small", ref.RDBEnc{Kind: "quicklist2", Node: 2}},
		{"set/small", ref.RDBEnc{Kind: "listpack"}},
		{"stream/samefields", ref.RDBEnc{Kind: "v3"}},
	},
	"bulk": {
		{"string/lit40+copy+run300", ref.RDBEnc{Kind: "raw"}},
		{"list/sizes", ref.RDBEnc{Kind: "quicklist2"}},
		{"set/mixed", ref.RDBEnc{Kind: "table"}},
		{"zset/ties", ref.RDBEnc{Kind: "skiplist2"}},
	},
	"chunk": {
		{"chunk/h/4", ref.RDBEnc{Kind: "table"}},
		{"chunk/h/6", ref.RDBEnc{Kind: "table"}},
		{"chunk/h/5", ref.RDBEnc{Kind: "table"}},
	},
}

// c20SeqKeyNames returns three key names that one worker out of two receives: equal parity of the 32-bit
// FNV-1a hash (computed with the standard library, not with the tool's helper).
func c20SeqKeyNames() []string {
	var out []string
	for i := 0; len(out) < 3 && i < 64; i++ {
		name := fmt.Sprintf("seq%c", 'a'+i)
		h := fnv.New32a()
		h.Write([]byte(name))
		if h.Sum32()%2 == 0 {
			out = append(out, name)
		}
	}
	return out
}

type c20SeqSlot struct {
	kind string // prior content: "" absent | same | other
	ttl  bool
	item string // acc | ref | bulk | chunk
}

// c20SeqScenario builds the scenario of one sequence.
func c20SeqScenario(slots []c20SeqSlot, names []string, policy, targetVer string, bisync bool, parallel, variant int, exp string) c20Scenario {
	cfg := rdbCfg{Restore: true, BulkLen: c20SeqBulk, Parallel: parallel, DbMode: "id", Resume: true, Bisync: bisync, Policy: policy, TargetVer: targetVer}
	s := c20Scenario{rdbScenario: rdbScenario{Version: c20SeqVersion, Aux: true, Cfg: cfg}, Path: "sequence"}
	for p, sl := range slots {
		menu := c20SeqMenu[sl.item]
		v := menu[(p+variant)%len(menu)]
		s.Keys = append(s.Keys, rdbKeySpec{DB: 0, Key: names[p], Case: v.Case, Enc: v.Enc, Exp: exp, Idle: -1, Freq: -1})
		s.Seq = append(s.Seq, sl.item)
		if sl.item == "chunk" {
			s.ChunkAt = c20SeqChunkAt
		}
		if sl.kind != "" {
			s.Pre = append(s.Pre, c20Pre{Key: names[p], Kind: sl.kind, TTL: sl.ttl})
		}
	}
	return s
}

// c20SeqCheck verifies that every value of a sequence is on the side of MaxProtoBulkLen its menu entry
// claims (a generator or catalogue change must not silently turn the family into something else).
func c20SeqCheck(scn c20Scenario, built *rdbBuilt) error {
	if len(scn.Seq) != len(scn.Keys) {
		return fmt.Errorf("sequence scenario with %d keys and %d menu entries", len(scn.Keys), len(scn.Seq))
	}
	for i, k := range scn.Keys {
		e := built.ByKey[k.Key]
		if e == nil {
			return fmt.Errorf("sequence key %q not generated", k.Key)
		}
		dump := len(e.Body) + 10 // type byte + serialization + 2-byte version + 8-byte CRC64
		switch scn.Seq[i] {
		case "acc", "ref":
			if dump > scn.Cfg.BulkLen {
				return fmt.Errorf("sequence key %q (%s): dump of %d bytes is above MaxProtoBulkLen %d", k.Key, k.Case, dump, scn.Cfg.BulkLen)
			}
			if scn.Seq[i] == "acc" && !rdbKnownType("2.8.0", e.Body[0]) {
				return fmt.Errorf("sequence key %q (%s): type code %d is not known to every target", k.Key, k.Case, e.Body[0])
			}
			if scn.Seq[i] == "ref" && rdbKnownType("6.2.0", e.Body[0]) {
				return fmt.Errorf("sequence key %q (%s): type code %d is known to a 6.2 target", k.Key, k.Case, e.Body[0])
			}
		case "bulk":
			if dump <= scn.Cfg.BulkLen {
				return fmt.Errorf("sequence key %q (%s): dump of %d bytes is not above MaxProtoBulkLen %d", k.Key, k.Case, dump, scn.Cfg.BulkLen)
			}
		case "chunk":
			if e.Body[0] != 4 || scn.ChunkAt <= 0 || len(e.Body) <= scn.ChunkAt+32 {
				return fmt.Errorf("sequence key %q (%s): not a table hash that is split at %d bytes", k.Key, k.Case, scn.ChunkAt)
			}
		default:
			return fmt.Errorf("unknown menu entry %q", scn.Seq[i])
		}
	}
	return nil
}

// c20EnumerateSeq emits the family. Quick: pairs over the reduced menu {absent, same type, another type,
// same type with expiry} x {acc, ref} under all three policies x target {6.2.0, 7.2.0} x plain /
// bidirectional x 1 and 2 workers, and triples under replace / ignore on the plain path against the 6.2
// target. Thorough: the full menu (5 prior states x 4 ways of travelling): pairs x 3 policies x target
// {6.2.0, 7.0.0, 7.2.0} x plain / bidirectional x {1, 2 workers; value rotation 1, 2; snapshot expiry in
// the future}, triples x 3 policies x target {6.2.0, 7.2.0} x plain / bidirectional.
func c20EnumerateSeq(thorough bool, f func(c20Scenario)) {
	names := c20SeqKeyNames()
	if len(names) < 3 {
		panic("c20: no three key names of equal FNV parity")
	}
	priors := []c20SeqSlot{{kind: ""}, {kind: "same"}, {kind: "other"}, {kind: "same", ttl: true}}
	items := []string{"acc", "ref"}
	if thorough {
		priors = append(priors, c20SeqSlot{kind: "other", ttl: true})
		items = append(items, "bulk", "chunk")
	}
	var slots []c20SeqSlot
	for _, p := range priors {
		for _, it := range items {
			slots = append(slots, c20SeqSlot{kind: p.kind, ttl: p.ttl, item: it})
		}
	}
	policies := []string{"replace", "ignore", "error"}
	type dims struct {
		par, variant int
		exp          string
	}
	pairDims := []dims{{1, 0, ""}, {2, 0, ""}}
	pairVers := []string{"6.2.0", "7.2.0"}
	if thorough {
		pairDims = append(pairDims, dims{1, 1, ""}, dims{1, 2, ""}, dims{1, 0, "future"})
		pairVers = []string{"6.2.0", "7.0.0", "7.2.0"}
	}
	for _, policy := range policies {
		for _, tv := range pairVers {
			for _, bi := range []bool{false, true} {
				for _, d := range pairDims {
					for _, a := range slots {
						for _, b := range slots {
							f(c20SeqScenario([]c20SeqSlot{a, b}, names, policy, tv, bi, d.par, d.variant, d.exp))
						}
					}
				}
			}
		}
	}
	triplePolicies := []string{"replace", "ignore"}
	tripleVers := []string{"6.2.0"}
	tripleBi := []bool{false}
	if thorough {
		triplePolicies, tripleVers, tripleBi = policies, []string{"6.2.0", "7.2.0"}, []bool{false, true}
	}
	for _, policy := range triplePolicies {
		for _, tv := range tripleVers {
			for _, bi := range tripleBi {
				for _, a := range slots {
					for _, b := range slots {
						for _, c := range slots {
							f(c20SeqScenario([]c20SeqSlot{a, b, c}, names, policy, tv, bi, 1, 0, ""))
						}
					}
				}
			}
		}
	}
}
